// hc01: compiler and interpreter agree on every valid program (C01).
//
// Generated valid-by-construction modules (package gen) run histories of export calls on the real
// interpreter, the real optimizing compiler and — for the fragment the Lean reference semantics covers
// — the Lean specification through the oracle (topic c01).  Compared after EVERY call: result values
// bit for bit, trap kind, the log of host-function calls with their arguments, memory size and
// contents (hash), every global.  Stack exhaustion is the only admitted divergence (never produced:
// recursion is bounded by a fuel global).  NaN payloads: the generator canonicalises float results
// whose payload the specification leaves open and never reinterprets floats as integers, so bitwise
// comparison is exact.
package main

import (
	"context"
	"encoding/json"
	"flag"
	"fmt"
	"hash/fnv"
	"math/rand"
	"os"
	"path/filepath"
	"strings"

	"github.com/tetratelabs/wazero"
	"github.com/tetratelabs/wazero/api"
	"github.com/tetratelabs/wazero/experimental"
	"github.com/tetratelabs/wazero/verifharness/gen"
	"github.com/tetratelabs/wazero/verifharness/hx"
)

var (
	orc      *hx.Oracle
	rep      *hx.Report
	ctx      = context.Background()
	features = api.CoreFeaturesV2 | experimental.CoreFeaturesTailCall | experimental.CoreFeaturesThreads
)

type hostLog struct{ entries []string }

// hostResult is the deterministic behaviour of import h<i>: log the arguments, return a value
// derived from them (the Lean model implements the same function).
func hostResult(i int, params []gen.VT, results []gen.VT, stack []uint64) uint64 {
	var mix uint64 = uint64(i) + 1
	for k, p := range params {
		v := stack[k]
		if p == gen.I32 || p == gen.F32 {
			v &= 0xffffffff
		}
		mix = mix*31 + v
	}
	if len(results) == 0 {
		return 0
	}
	switch results[0] {
	case gen.I32:
		return mix & 0xffffffff
	case gen.I64:
		return mix
	case gen.F32:
		return uint64(f32FromInt(int32(uint32(mix))))
	}
	return f64FromInt(int32(uint32(mix)))
}

type engineInst struct {
	name string
	rt   wazero.Runtime
	mod  api.Module
	log  *hostLog
}

func instantiate(name string, rc wazero.RuntimeConfig, m *gen.Module, bin []byte) (*engineInst, error) {
	rt := wazero.NewRuntimeWithConfig(ctx, rc)
	lg := &hostLog{}
	if len(m.Imports) > 0 {
		hb := rt.NewHostModuleBuilder("host")
		for i, ti := range m.Imports {
			i, ft := i, m.Types[ti]
			hb = hb.NewFunctionBuilder().WithGoModuleFunction(api.GoModuleFunc(func(_ context.Context, _ api.Module, stack []uint64) {
				var sb strings.Builder
				fmt.Fprintf(&sb, "h%d(", i)
				for k, p := range ft.Params {
					v := stack[k]
					if p == gen.I32 || p == gen.F32 {
						v &= 0xffffffff
					}
					fmt.Fprintf(&sb, "%x,", v)
				}
				sb.WriteString(")")
				lg.entries = append(lg.entries, sb.String())
				r := hostResult(i, ft.Params, ft.Results, stack)
				if len(ft.Results) > 0 {
					stack[0] = r
				}
			}), ft.Params, ft.Results).Export(fmt.Sprintf("h%d", i))
		}
		if _, err := hb.Instantiate(ctx); err != nil {
			rt.Close(ctx)
			return nil, err
		}
	}
	mod, err := rt.InstantiateWithConfig(ctx, bin, wazero.NewModuleConfig().WithName("m"))
	if err != nil {
		rt.Close(ctx)
		return nil, err
	}
	return &engineInst{name: name, rt: rt, mod: mod, log: lg}, nil
}

func trapClass(err error) string {
	s := err.Error()
	for _, k := range []struct{ pat, cls string }{
		{"unreachable", "unreachable"}, {"integer divide by zero", "div0"}, {"integer overflow", "overflow"},
		{"invalid conversion to integer", "invalid-conversion"}, {"out of bounds memory access", "oob-memory"},
		{"invalid table access", "oob-table"}, {"indirect call type mismatch", "sig-mismatch"}, {"stack overflow", "stack-overflow"},
		{"unaligned atomic", "unaligned-atomic"},
	} {
		if strings.Contains(s, k.pat) {
			return "trap:" + k.cls
		}
	}
	return "error:" + strings.SplitN(s, "\n", 2)[0]
}

// differSig names an interpreter/compiler difference.  One shape is a recorded finding (F50): an atomic access whose
// address is BOTH unaligned and out of bounds traps on both engines, with different kinds - the interpreter tests
// the alignment first (as the reference interpreter does), compiled code the bounds; everything else about the
// two observations is equal.
func differSig(a, b string) string {
	fa, fb := strings.SplitN(a, " | ", 2), strings.SplitN(b, " | ", 2)
	if len(fa) == 2 && len(fb) == 2 && fa[1] == fb[1] && fa[0] == "trap:unaligned-atomic" && fb[0] == "trap:oob-memory" {
		return "F50:atomic-access-unaligned-and-out-of-bounds-traps-with-different-kinds"
	}
	return "C01:engines-differ"
}

// observe returns the canonical observation of one call: outcome | host log | memory | globals.
func (e *engineInst) observe(m *gen.Module, fidx int, args []uint64, fuel uint32) string {
	e.log.entries = nil
	e.mod.ExportedGlobal("g0").(api.MutableGlobal).Set(uint64(fuel))
	ft, name := funcOf(m, fidx)
	res, err := func() (res []uint64, err error) {
		defer func() {
			if r := recover(); r != nil {
				err = fmt.Errorf("GO PANIC escaped the API: %v", r)
			}
		}()
		return e.mod.ExportedFunction(name).Call(ctx, args...)
	}()
	var sb strings.Builder
	if err != nil {
		sb.WriteString(trapClass(err))
	} else {
		sb.WriteString("ok")
		for k, r := range res {
			if ft.Results[k] == gen.I32 || ft.Results[k] == gen.F32 {
				r &= 0xffffffff
			}
			fmt.Fprintf(&sb, " %x", r)
		}
	}
	fmt.Fprintf(&sb, " | log=%s", strings.Join(e.log.entries, ";"))
	if m.HasMem {
		mem := e.mod.Memory()
		buf, _ := mem.Read(0, mem.Size())
		h := fnv.New64a()
		h.Write(buf)
		fmt.Fprintf(&sb, " | mem=%d:%x", mem.Size()/65536, h.Sum64())
	}
	sb.WriteString(" | g=")
	for i := 1; i < len(m.Globals); i++ {
		v := e.mod.ExportedGlobal(fmt.Sprintf("g%d", i)).Get()
		if m.Globals[i].T == gen.I32 || m.Globals[i].T == gen.F32 {
			v &= 0xffffffff
		}
		fmt.Fprintf(&sb, "%x,", v)
	}
	return sb.String()
}

// funcOf: type and export name of a call target; fidx >= 0 is local function fidx, fidx < 0 the re-exported
// import -fidx-1.
func funcOf(m *gen.Module, fidx int) (gen.FuncType, string) {
	if fidx < 0 {
		return m.Types[m.Imports[-fidx-1]], fmt.Sprintf("i%d", -fidx-1)
	}
	return m.Types[m.Funcs[fidx].Type], fmt.Sprintf("f%d", fidx)
}

func oracleCall(id, fidx int) string {
	if fidx < 0 {
		return fmt.Sprintf("c01 callimp %d %d", id, -fidx-1)
	}
	return fmt.Sprintf("c01 call %d %d", id, fidx)
}

type callRec struct {
	Func int      `json:"func"`
	Args []string `json:"args"`
	Fuel uint32   `json:"fuel"`
}

type replay struct {
	Seed    int64     `json:"seed"`
	Program int       `json:"program"`
	Module  []string  `json:"module_text"`
	BinHex  string    `json:"module_hex"`
	Calls   []callRec `json:"calls"`
}

// replayFile re-runs a replay (module text + calls) on both engines and the Lean reference and prints
// the three observations of every call; used by `./check C01 --replay FILE` and for shrinking by hand.
var quiet bool

func replayFile(path string) {
	raw, err := os.ReadFile(path)
	if err != nil {
		hx.Fatal("%v", err)
	}
	var rp replay
	if err := json.Unmarshal(raw, &rp); err != nil {
		// a full replay file of ./check: take the first impl violation's input
		hx.Fatal("replay: %v", err)
	}
	if len(rp.Module) == 0 {
		var full struct {
			Impl []struct {
				Input replay `json:"input"`
			} `json:"impl_violations"`
		}
		json.Unmarshal(raw, &full)
		if len(full.Impl) == 0 {
			hx.Fatal("replay: no module in %s", path)
		}
		rp = full.Impl[0].Input
	}
	m, err := gen.FromLines(rp.Module)
	if err != nil {
		hx.Fatal("replay: %v", err)
	}
	bin := m.Binary()
	var engines []*engineInst
	for _, e := range []struct {
		n  string
		rc wazero.RuntimeConfig
	}{{"interpreter", wazero.NewRuntimeConfigInterpreter().WithCoreFeatures(features)}, {"compiler", wazero.NewRuntimeConfigCompiler().WithCoreFeatures(features)}} {
		inst, err := instantiate(e.n, e.rc, m, bin)
		if err != nil {
			fmt.Printf("%s: instantiate: %v\n", e.n, err)
			continue
		}
		engines = append(engines, inst)
	}
	useLean := !strings.Contains(strings.Join(rp.Module, " "), "v128") && !strings.Contains(strings.Join(rp.Module, " "), ":@") && !strings.Contains(strings.Join(rp.Module, " "), "memcat:") // SIMD and block parameters are outside the Lean fragment
	if useLean {
		for _, l := range m.Lines(1) {
			if a := orc.Ask(l); a != "ok" {
				fmt.Printf("lean: %q -> %s\n", l, a)
			}
		}
	}
	defer func() {
		orc.Ask("c01 drop 1")
		for _, e := range engines {
			e.rt.Close(ctx)
		}
	}()
	for c, call := range rp.Calls {
		args := make([]uint64, len(call.Args))
		for k, a := range call.Args {
			fmt.Sscanf(a, "%x", &args[k])
		}
		var obs []string
		for _, e := range engines {
			o := e.observe(m, call.Func, args, call.Fuel)
			obs = append(obs, o)
			if !quiet {
				fmt.Printf("call %d %-12s %s\n", c, e.name, o)
			}
		}
		want := "exhausted"
		if useLean {
			want = orc.Askf("%s %d %s", oracleCall(1, call.Func), call.Fuel, strings.Join(append([]string{""}, call.Args...), " "))
		}
		if !quiet {
			fmt.Printf("call %d %-12s %s\n", c, "lean", want)
		}
		rep.Case(fmt.Sprintf("replay/c%d", c))
		if len(obs) == 2 && obs[0] != obs[1] {
			rep.Violate(hx.Violation{Kind: "impl-violation", Signature: differSig(obs[0], obs[1]), What: fmt.Sprintf("replayed call %d: interpreter and compiler differ", c), Input: rp, Expected: obs[0], Actual: obs[1]})
		} else if len(obs) == 2 && want != "exhausted" && want != obs[0] {
			rep.Violate(hx.Violation{Kind: "impl-violation", Signature: "C01:engines-differ-from-spec", What: fmt.Sprintf("replayed call %d: engines differ from the Lean reference", c), Input: rp, Expected: want, Actual: obs[0]})
		}
	}
}

func runProgram(r *rand.Rand, pi int, cfg gen.Config, useLean bool) {
	m := gen.Generate(r, cfg)
	bin := m.Binary()
	engines := []*engineInst{}
	for _, e := range []struct {
		n  string
		rc wazero.RuntimeConfig
	}{{"interpreter", wazero.NewRuntimeConfigInterpreter().WithCoreFeatures(features)}, {"compiler", wazero.NewRuntimeConfigCompiler().WithCoreFeatures(features)}} {
		inst, err := instantiate(e.n, e.rc, m, bin)
		if err != nil {
			rep.Violate(hx.Violation{Kind: "impl-violation", Signature: "C01:valid-module-rejected:" + e.n, What: "generated valid module rejected: " + err.Error(),
				Input: replay{Seed: *hx.Seed, Program: pi, Module: m.Lines(pi), BinHex: fmt.Sprintf("%x", bin)}})
			for _, x := range engines {
				x.rt.Close(ctx)
			}
			return
		}
		engines = append(engines, inst)
	}
	defer func() {
		for _, e := range engines {
			e.rt.Close(ctx)
		}
	}()
	if useLean {
		for _, l := range m.Lines(pi) {
			if a := orc.Ask(l); a != "ok" {
				hx.Fatal("oracle rejected module line %q: %s", l, a)
			}
		}
	}
	rp := replay{Seed: *hx.Seed, Program: pi, Module: m.Lines(pi), BinHex: fmt.Sprintf("%x", bin)}
	ncalls := 1 + r.Intn(10)
	for c := 0; c < ncalls; c++ {
		fidx := r.Intn(len(m.Funcs))
		if len(m.Imports) > 0 && r.Intn(8) == 0 {
			fidx = -1 - r.Intn(len(m.Imports)) // a re-exported import, called directly
		}
		ft, _ := funcOf(m, fidx)
		args := make([]uint64, len(ft.Params))
		var as []string
		for k, p := range ft.Params {
			args[k] = gen.RandVal(r, p)
			as = append(as, fmt.Sprintf("%x", args[k]))
		}
		fuel := uint32(1 + r.Intn(40))
		rp.Calls = append(rp.Calls, callRec{fidx, as, fuel})
		var obs []string
		for _, e := range engines {
			obs = append(obs, e.observe(m, fidx, args, fuel))
		}
		key := fmt.Sprintf("p%d/c%d", pi, c)
		rep.Case(key)
		rep.Count("outcome:" + strings.Fields(obs[0])[0])
		if obs[0] != obs[1] {
			rep.Violate(hx.Violation{Kind: "impl-violation", Signature: differSig(obs[0], obs[1]), What: fmt.Sprintf("call %d (f%d): interpreter and compiler observations differ", c, fidx),
				Input: rp, Expected: obs[0], Actual: obs[1]})
			return
		}
		if useLean {
			want := orc.Askf("%s %d %s", oracleCall(pi, fidx), fuel, strings.Join(append([]string{""}, as...), " "))
			if want == "exhausted" {
				rep.Count("lean:exhausted")
				useLean = false // the reference ran out of its step budget: state no longer comparable
				continue
			}
			rep.Count("lean:compared")
			if want != obs[0] {
				rep.Violate(hx.Violation{Kind: "impl-violation", Signature: "C01:engines-differ-from-spec", What: fmt.Sprintf("call %d (f%d): both engines differ from the Lean reference semantics", c, fidx),
					Input: rp, Expected: want, Actual: obs[0]})
				return
			}
		}
	}
	if pi < 3 {
		rep.Sample(map[string]any{"program": pi, "functions": len(m.Funcs), "calls": rp.Calls, "first_function": strings.Join(m.Funcs[0].Code.T, " ")})
	}
	if useLean {
		orc.Askf("c01 drop %d", pi)
	}
}

func main() {
	noLean := flag.Bool("nolean", false, "skip the Lean reference (engines only)")
	n := flag.Int("n", 0, "number of programs (0 = tier default)")
	flag.Parse()
	orc = hx.StartOracle()
	defer orc.Close()
	rep = hx.NewReport("C01", "programs from the stack-typed generator (package gen): 1-6 functions with calls/call_indirect/host imports, nested block/loop/if/br/br_if/br_table/return, all integer+float numeric ops, all load/store widths, memory.size/grow, globals; histories of 1-10 export calls with boundary-biased arguments; distinct = (program, call index); all are non-trivial (each executes generated code on both engines and the Lean reference)")
	if *hx.Replay != "" {
		replayFile(*hx.Replay)
		rep.Case("replay")
		rep.Write(orc)
		return
	}
	foldGrid()
	allOpsDiff()
	memEdgeDiff()
	atomicWaitGrid()
	sharedGrowDiff()
	if os.Getenv("HC01_ONLY") == "foldgrid" { // development aid
		rep.Write(orc)
		return
	}
	// corpus first: minimised past divergences (witnesses of fixed defects must stay fixed)
	if root := os.Getenv("VERIF_ROOT"); root != "" {
		files, _ := filepath.Glob(filepath.Join(root, "corpus", "C01", "*.json"))
		quiet = true
		for _, f := range files {
			replayFile(f)
			rep.Count("corpus")
		}
	}
	r := hx.Rand()
	progs := 700
	if hx.Thorough() {
		progs = 6000
	}
	if *n > 0 {
		progs = *n
	}
	for pi := 0; pi < progs; pi++ {
		cfg := gen.Config{MaxFuncs: 1 + r.Intn(6), MaxDepth: 2 + r.Intn(4), MaxStmts: 1 + r.Intn(6), Floats: r.Intn(4) > 0, Memory: true, Imports: r.Intn(3), Bulk: r.Intn(2) == 0}
		cfg = gen.RandomProfile(r, cfg) // SIMD, block parameters and atomics are outside the Lean fragment: engines compared with each other only
		if os.Getenv("HC01_V") != "" {
			fmt.Fprintf(os.Stderr, "prog %d %+v\n", pi, cfg)
		}
		runProgram(r, pi, cfg, !*noLean && !cfg.SIMD && !cfg.BlockParams && !cfg.Atomics)
	}
	for k, v := range gen.Stats {
		rep.Hist["gen:"+k] += v
	}
	rep.Write(orc)
}
