package main

// All-instructions differential: the module of package allops (one small function per instruction wazero knows:
// every numeric, vector, memory, atomic, bulk, table and control instruction), with every function present twice,
// is run on both engines: each function is called with the same argument vectors in the same order on one instance
// per engine; results, trap kinds, the memory and the table-visible effects must agree call by call.

import (
	"context"
	"crypto/sha256"
	"fmt"

	"github.com/tetratelabs/wazero"
	"github.com/tetratelabs/wazero/api"
	"github.com/tetratelabs/wazero/internal/wasm"
	"github.com/tetratelabs/wazero/verifharness/allops"
	"github.com/tetratelabs/wazero/verifharness/hx"
)

func allOpsDiff() {
	ctx := context.Background()
	bin, fns := allops.ModuleCopies(3)
	var mods [2]api.Module
	var rts [2]wazero.Runtime
	for ei, rc := range []wazero.RuntimeConfig{wazero.NewRuntimeConfigInterpreter(), wazero.NewRuntimeConfigCompiler()} {
		rts[ei] = wazero.NewRuntimeWithConfig(ctx, rc.WithCoreFeatures(features))
		m, err := safeInstantiate(ctx, rts[ei], bin)
		if err != nil {
			// the module is valid (the other stages of this run and hc03 compile it): an engine that cannot is a divergence
			rep.Violate(hx.Violation{Kind: "impl-violation", Signature: "C01:engines-differ:all-instructions-module-does-not-compile:" + []string{"interpreter", "compiler"}[ei],
				What:  "the all-instructions module (every function three times) does not compile / instantiate on one engine: " + clipObs(err.Error()),
				Input: map[string]any{"module": "allops.ModuleCopies(3)"}, Actual: err.Error()})
			return
		}
		mods[ei] = m
	}
	defer rts[0].Close(ctx)
	defer rts[1].Close(ctx)
	vectors := [][]uint64{{5, 8, 11, 14, 17, 20}, {0xfff0, 3, 0x7fffffff, 0x80000001, 1, 2}, {64, 0xffffffffffffffff, 0x3ff0000000000000, 0x40490fdb, 0xff8, 7}}
	for k, f := range fns {
		for vi, vec := range vectors {
			var args []uint64
			n := 0
			for _, t := range f.Params {
				slots := 1
				if t == wasm.ValueTypeV128 {
					slots = 2
				}
				for j := 0; j < slots; j++ {
					v := vec[n%len(vec)] + uint64(vi*n)
					if t == wasm.ValueTypeI32 || t == wasm.ValueTypeF32 {
						v &= 0xffffffff
					}
					args = append(args, v)
					n++
				}
			}
			var obs [2]string
			for ei := range mods {
				res, err := mods[ei].ExportedFunction(fmt.Sprintf("op%d", k)).Call(ctx, args...)
				if err != nil {
					obs[ei] = trapClass(err)
				} else {
					for i := range res {
						if i < len(f.Results) && (f.Results[i] == wasm.ValueTypeI32 || f.Results[i] == wasm.ValueTypeF32) {
							res[i] &= 0xffffffff
						}
					}
					obs[ei] = fmt.Sprint(res)
				}
				mem := mods[ei].Memory()
				if b, ok := mem.Read(0, 4096); ok {
					obs[ei] += fmt.Sprintf(" mem=%d:%x", mem.Size(), sha256.Sum256(b))
				}
			}
			rep.Case(fmt.Sprintf("allops/%s/v%d", f.Name, vi))
			if obs[0] != obs[1] {
				rep.Violate(hx.Violation{Kind: "impl-violation", Signature: differSigAllOps(f.Name, obs[0], obs[1]),
					What:     fmt.Sprintf("all-instructions module: %s (function op%d) called with %#x: interpreter %s, compiler %s", f.Name, k, args, clipObs(obs[0]), clipObs(obs[1])),
					Input:    map[string]any{"instruction": f.Name, "export": fmt.Sprintf("op%d", k), "args": args, "module": "allops.ModuleCopies(3)", "calls_before": "op0.. in order, three argument vectors each"},
					Expected: obs[0], Actual: obs[1]})
				return // the two instances have diverged: later calls would only echo it
			}
		}
	}
	rep.Count(fmt.Sprintf("allops:functions=%d", len(fns)))
}

func clipObs(s string) string {
	if len(s) > 90 {
		return s[:90]
	}
	return s
}

func differSigAllOps(name, a, b string) string {
	if len(a) >= 21 && len(b) >= 15 && a[:21] == "trap:unaligned-atomic" && b[:15] == "trap:oob-memory" {
		return "F50:atomic-access-unaligned-and-out-of-bounds-traps-with-different-kinds"
	}
	return "C01:engines-differ:instruction:" + name
}

// safeInstantiate turns a Go panic of CompileModule / InstantiateModule into an error.
func safeInstantiate(ctx context.Context, rt wazero.Runtime, bin []byte) (m api.Module, err error) {
	defer func() {
		if r := recover(); r != nil {
			err = fmt.Errorf("Go panic: %v", r)
		}
	}()
	return rt.Instantiate(ctx, bin)
}
