// hc10: correspondence + monitor harness for C10 (module lifecycle and name registry are linearizable).
//
// Tie B (sequential): random operation sequences (instantiate binaries/host modules under 3 names +
// anonymous, lookup, compile, host compile, close module, close runtime, isClosed) run on the REAL
// wazero.Runtime (both engines) and, operation by operation, on the Lean implementation model `Impl`
// (variant tied by replaying the finding witnesses first) and on the specification `Reg`.
// real != Impl is a broken correspondence; real != Reg is a violation of the property.
// Tie B (concurrent): 2-8 goroutines x 5-10 operations on one runtime; invocation/response order is
// recorded with an atomic counter; the oracle decides (a) producible by `Impl` at the granularity of its
// atomic actions, (b) linearizable w.r.t. `Reg` (the property). A non-linearizable history is a
// violation whose signature names the model switch (finding) that explains it, if any.
// Tie C: close notifications and memory-allocator Free calls are counted per instance and compared with
// exactly-once; with the schedule hook (build tag verif) the model's witness interleavings (F10, F10b,
// F10c, F9b) are replayed deterministically on the real store.
package main

import (
	"bytes"
	"context"
	"encoding/json"
	"errors"
	"flag"
	"fmt"
	"io"
	"io/fs"
	"math/rand"
	"os"
	"os/exec"
	"reflect"
	"runtime"
	"sort"
	"strings"
	"sync"
	"sync/atomic"
	"time"

	"github.com/tetratelabs/wazero"
	"github.com/tetratelabs/wazero/api"
	"github.com/tetratelabs/wazero/experimental"
	experimentalsys "github.com/tetratelabs/wazero/experimental/sys"
	expsysfs "github.com/tetratelabs/wazero/experimental/sysfs"
	"github.com/tetratelabs/wazero/internal/wasm"
	"github.com/tetratelabs/wazero/sys"
	"github.com/tetratelabs/wazero/verifharness/hx"
	"github.com/tetratelabs/wazero/verifharness/wb"
)

var (
	orc *hx.Oracle
	rep *hx.Report
	bin []byte
)

const (
	sigF8   = "F8:failed-duplicate-instantiate-unregisters-open-owner"
	sigF9   = "F9:host-compile-after-runtime-close-does-not-fail-with-error"
	sigF9b  = "F9b:compile-overlapping-runtime-close-panics-nil-map"
	sigF10  = "F10:close-cas-loser-or-reader-overtakes-deleteModule"
	sigF10b = "F10b:runtime-closed-flag-visible-before-store-close"
	sigF10x = "F10ab:non-linearizable-needs-both-close-windows"
	sigF10c = "F10c:close-notifier-lost-when-close-overlaps-instantiate"
	sigF9c  = "F9c:interpreter-engine-close-races-compile-fatal-concurrent-map-writes"
)

// ---------------------------------------------------------------------------------------------
// operations

type Op struct {
	Kind  string `json:"kind"` // inst look comp hcomp close rtclose isclosed
	H     int    `json:"h,omitempty"`
	Name  int    `json:"name,omitempty"`
	Pre   string `json:"pre,omitempty"` // none bin host
	Funcs bool   `json:"funcs,omitempty"`
	Code  uint32 `json:"code,omitempty"`
	// Fail: kind of a "instfail" op: an instantiation under Name that fails in a late stage (start-trap, start-exit,
	// start-hosterr, data-oob, missing-import).  For the registry it must be as if it never happened.
	Fail string `json:"fail,omitempty"`
	// Via: how a "close" is brought about: "" = CloseWithExitCode(Code); "deadline" / "cancel" = a guest call on the
	// instance is in flight when its context reaches its deadline / is cancelled (runtime configured with
	// WithCloseOnContextDone), which closes the instance with the exit code of that cause (= Code); the instance is
	// then called twice more (the release of resources of such a close is deferred to the next look at the closed flag)
	Via string `json:"via,omitempty"`
	// Shared (inst): the instance is created with the world's ONE shared close-notifier registration (a context made
	// once by WithCloseNotifier and reused for many instantiations, as its documentation allows: "if configured for
	// multiple modules, it will be called for each") instead of a registration of its own.  Such a notifier cannot tell
	// the instances apart: the multiset of exit codes it received is compared.
	Shared bool `json:"shared,omitempty"`
	// Reenter (inst, fixed sequential histories): the instance's close notifier looks its own name up in the registry
	Reenter bool `json:"reenter,omitempty"`
	// Sparse (inst with pre=badfs, sequential histories): see the instantiation of "badfs"
	Sparse bool `json:"sparse,omitempty"`
}

func (o Op) Token() string {
	switch o.Kind {
	case "inst":
		pre := o.Pre
		if pre == "badfs" {
			pre = "none" // for the registry model a precompiled instantiation like any other
		}
		if pre == "hostb" {
			pre = "host" // for the registry model a host module like any other
		}
		return fmt.Sprintf("inst,%d,%d,%s", o.H, o.Name, pre)
	case "look":
		return fmt.Sprintf("look,%d", o.Name)
	case "comp":
		return "comp"
	case "hcomp":
		return "hcomp," + b(o.Funcs)
	case "close":
		return fmt.Sprintf("close,%d,%d", o.H, o.Code)
	case "rtclose":
		return fmt.Sprintf("rtclose,%d", o.Code)
	case "isclosed":
		return fmt.Sprintf("isclosed,%d", o.H)
	case "instfail":
		return fmt.Sprintf("instfail,%d,%s", o.Name, o.Fail)
	}
	hx.Fatal("bad op kind %q", o.Kind)
	return ""
}

func b(x bool) string {
	if x {
		return "1"
	}
	return "0"
}

func nameStr(n int) string {
	if n == 0 {
		return ""
	}
	return fmt.Sprintf("m%d", n)
}

// Cfg mirrors Wz.Model.Registry.Cfg (true = repaired).
type Cfg struct{ FixF8, FixF9, AtomicClose, AtomicRt, NotifierAtReg bool }

func (c Cfg) Bits() string {
	return b(c.FixF8) + b(c.FixF9) + b(c.AtomicClose) + b(c.AtomicRt) + b(c.NotifierAtReg)
}

// ---------------------------------------------------------------------------------------------
// the real thing

type world struct {
	engine              string
	rt                  wazero.Runtime
	compiled            wazero.CompiledModule
	mu                  sync.Mutex
	mods                map[int]api.Module
	ptr                 map[*wasm.ModuleInstance]int
	notes               map[int][]uint32
	allocs              map[int]int
	frees               map[int]int
	dirOpens, dirCloses map[int]int                      // per instance: handles handed out by / closed on its mounted (bad) file system
	dirLive             map[int]map[int]bool             // per instance: ids of the handles not closed yet
	reent               map[int][]string                 // per instance: what its close notifier found under its own name
	pool                []int                            // handles of successfully instantiated modules, in response order
	builders            map[int]wazero.HostModuleBuilder // per name: the builder object reused by every "hostb" instantiation
	// one close-notifier registration shared by all `Shared` instantiations
	sharedCtx   context.Context
	sharedNotes []uint32
	sharedOf    map[int]bool
}

func newWorld(engine string) *world {
	ctx := context.Background()
	var rc wazero.RuntimeConfig
	if engine == "compiler" {
		rc = wazero.NewRuntimeConfigCompiler()
	} else {
		rc = wazero.NewRuntimeConfigInterpreter()
	}
	rc = rc.WithCloseOnContextDone(true)
	w := &world{engine: engine, rt: wazero.NewRuntimeWithConfig(ctx, rc), mods: map[int]api.Module{},
		ptr: map[*wasm.ModuleInstance]int{}, notes: map[int][]uint32{}, allocs: map[int]int{}, frees: map[int]int{}, dirOpens: map[int]int{}, dirCloses: map[int]int{}, dirLive: map[int]map[int]bool{}, reent: map[int][]string{}}
	c, err := w.rt.CompileModule(ctx, bin)
	if err != nil {
		hx.Fatal("setup compile: %v", err)
	}
	w.compiled = c
	// host functions for start functions that fail: exit = panic(sys.NewExitError(n)) WITHOUT closing the calling
	// module (the way an ExitError reaches a start function from a library module's proc_exit), herr = panic(error)
	one := []api.ValueType{api.ValueTypeI32}
	if _, err := w.rt.NewHostModuleBuilder("hc10env").
		NewFunctionBuilder().WithGoFunction(api.GoFunc(func(_ context.Context, st []uint64) { panic(sys.NewExitError(uint32(st[0]))) }), one, nil).Export("exit").
		NewFunctionBuilder().WithGoFunction(api.GoFunc(func(_ context.Context, st []uint64) { panic(fmt.Errorf("host error %d", st[0])) }), one, nil).Export("herr").
		Instantiate(ctx); err != nil {
		hx.Fatal("setup host module: %v", err)
	}
	return w
}

// failingBinary: a module whose instantiation fails in the given stage.
func failingBinary(kind string) []byte {
	m := wb.New()
	exit := m.ImportFunc("hc10env", "exit", []byte{wb.I32}, nil)
	herr := m.ImportFunc("hc10env", "herr", []byte{wb.I32}, nil)
	if kind == "missing-import" {
		m.ImportFunc("hc10env", "no-such-function", nil, nil)
	}
	one := uint32(1)
	m.Memory(1, &one, false, "memory")
	var start []byte
	switch kind {
	case "start-trap":
		start = wb.Op(wasm.OpcodeUnreachable)
	case "start-exit":
		start = wb.Cat(wb.I32Const(int32(3+saltCounter.Add(1)%5)), wb.Call(exit))
	case "start-hosterr":
		start = wb.Cat(wb.I32Const(9), wb.Call(herr))
	case "data-oob":
		m.Data(false, 65535, []byte{1, 2, 3})
	}
	switch strings.TrimPrefix(kind, "_") {
	case "start-trap":
		start = wb.Op(wasm.OpcodeUnreachable)
	case "start-exit":
		start = wb.Cat(wb.I32Const(int32(3+saltCounter.Add(1)%5)), wb.Call(exit))
	case "start-hosterr":
		start = wb.Cat(wb.I32Const(9), wb.Call(herr))
	}
	if start != nil && strings.HasPrefix(kind, "_") {
		// the start function of the module CONFIGURATION (exported _start, run by InstantiateModule after the store
		// has registered the instance) rather than the wasm start section
		m.AddFunc(wb.Func{Body: start, Export: "_start"})
	} else if start != nil {
		idx := m.AddFunc(wb.Func{Body: start})
		m.M.StartSection = &idx
	}
	m.AddFunc(wb.Func{Results: []byte{wb.I32}, Export: "salt", Body: wb.I32Const(saltCounter.Add(1))})
	return m.Bytes()
}

var failKinds = []string{"start-trap", "start-exit", "start-hosterr", "data-oob", "missing-import", "_start-trap", "_start-exit", "_start-hosterr"}

type countingMem struct {
	w   *world
	h   int
	buf []byte
}

func (m *countingMem) Reallocate(size uint64) []byte {
	if uint64(cap(m.buf)) < size {
		nb := make([]byte, size)
		copy(nb, m.buf)
		m.buf = nb
	}
	m.buf = m.buf[:size]
	return m.buf
}

func (m *countingMem) Free() {
	m.w.mu.Lock()
	m.w.frees[m.h]++
	m.w.mu.Unlock()
}

func unwrap(m api.Module) *wasm.ModuleInstance {
	if m == nil {
		return nil
	}
	if mi, ok := m.(*wasm.ModuleInstance); ok {
		return mi
	}
	v := reflect.ValueOf(m)
	if v.Kind() == reflect.Struct && v.NumField() == 1 {
		if inner, ok := v.Field(0).Interface().(api.Module); ok {
			return unwrap(inner)
		}
	}
	hx.Fatal("cannot unwrap module of type %T", m)
	return nil
}

func classifyErr(err error) string {
	if err == nil {
		return "ok"
	}
	s := err.Error()
	switch {
	case errors.Is(err, experimentalsys.EIO):
		// the close went through; the error reports the failing release of the instance's file system
		rep.Count("close:reported-resource-release-error")
		return "ok"
	case strings.Contains(s, "has already been instantiated"):
		return "dup"
	case strings.Contains(s, "runtime closed with exit_code"), strings.Contains(s, "already closed"):
		return "closed"
	case strings.Contains(s, "source module must be compiled before instantiation"):
		// InstantiateModule passed failIfClosed, then the runtime (store, then engine) was closed: the
		// engine no longer knows the compiled module. Still "fails with an error" after the close.
		return "closed-engine"
	}
	return "other:" + strings.ReplaceAll(strings.ReplaceAll(s, " ", "_"), ",", "_")
}

// badFS: a file system whose (only) directory handle fails to close
// (every handle it hands out and every Close of one is counted per instance: a closed instance has closed all of them)
type badFS struct {
	experimentalsys.UnimplementedFS
	w *world
	h int
}

type badDir struct {
	experimentalsys.UnimplementedFile
	w  *world
	h  int
	id int
	// closes: Close succeeds (else EIO)
	closes bool
}

func (f badFS) OpenFile(path string, _ experimentalsys.Oflag, _ fs.FileMode) (experimentalsys.File, experimentalsys.Errno) {
	id := 0
	if f.w != nil {
		f.w.mu.Lock()
		f.w.dirOpens[f.h]++
		id = f.w.dirOpens[f.h]
		if f.w.dirLive[f.h] == nil {
			f.w.dirLive[f.h] = map[int]bool{}
		}
		f.w.dirLive[f.h][id] = true
		f.w.mu.Unlock()
	}
	// (only the mount's root fails to close; the files "f<k>" of the sparse-table histories close fine, so that
	// closing a descriptor really frees its slot)
	return badDir{w: f.w, h: f.h, id: id, closes: strings.HasPrefix(path, "f")}, 0
}
func (badDir) IsDir() (bool, experimentalsys.Errno) { return true, 0 }
func (d badDir) Close() experimentalsys.Errno {
	if d.w != nil {
		d.w.mu.Lock()
		d.w.dirCloses[d.h]++
		delete(d.w.dirLive[d.h], d.id) // (a handle whose Close fails may be closed again: what counts is that each was closed)
		d.w.mu.Unlock()
	}
	if d.closes {
		return 0
	}
	return experimentalsys.EIO
}

// dirLeak: directory handles of the instance's mount that were opened and never closed ("" = none)
func (w *world) dirLeak(h int) string {
	w.mu.Lock()
	defer w.mu.Unlock()
	if n := len(w.dirLive[h]); n > 0 {
		return fmt.Sprintf("handle %d: the mounted file system handed out %d file / directory handle(s), %d of them were never closed", h, w.dirOpens[h], n)
	}
	return ""
}

// raw result of a lookup before pointers are resolved to handles
type rawRes struct {
	s   string
	ptr *wasm.ModuleInstance
}

func (w *world) do(o Op) (res rawRes) {
	ctx := context.Background()
	defer func() {
		if r := recover(); r != nil {
			res = rawRes{s: "panic"}
			rep.Count("real-panic:" + o.Kind + ":" + firstLine(fmt.Sprint(r)))
		}
	}()
	switch o.Kind {
	case "inst":
		h := o.H
		ictx := experimental.WithCloseNotifier(ctx, experimental.CloseNotifyFunc(func(_ context.Context, code uint32) {
			look := ""
			if o.Reenter {
				// re-entrancy: the notification is delivered when the module IS closed: a look-up of its name from inside
				// the notifier finds no module (or, later, a new owner) - never the closed one
				if lm := w.rt.Module(nameStr(o.Name)); lm == nil {
					look = "none"
				} else if lm.IsClosed() {
					look = "the-closed-module"
				} else {
					look = "an-open-module"
				}
			}
			w.mu.Lock()
			w.notes[h] = append(w.notes[h], code)
			if look != "" {
				w.reent[h] = append(w.reent[h], look)
			}
			w.mu.Unlock()
		}))
		if o.Shared {
			w.mu.Lock()
			if w.sharedCtx == nil {
				w.sharedOf = map[int]bool{}
				w.sharedCtx = experimental.WithCloseNotifier(ctx, experimental.CloseNotifyFunc(func(_ context.Context, code uint32) {
					w.mu.Lock()
					w.sharedNotes = append(w.sharedNotes, code)
					w.mu.Unlock()
				}))
			}
			w.sharedOf[h] = true
			ictx = w.sharedCtx
			w.mu.Unlock()
		}
		ictx = experimental.WithMemoryAllocator(ictx, experimental.MemoryAllocatorFunc(func(cap, max uint64) experimental.LinearMemory {
			w.mu.Lock()
			w.allocs[h]++
			w.mu.Unlock()
			return &countingMem{w: w, h: h, buf: make([]byte, 0, cap)}
		}))
		var m api.Module
		var err error
		switch o.Pre {
		case "none":
			m, err = w.rt.InstantiateModule(ictx, w.compiled, wazero.NewModuleConfig().WithName(nameStr(o.Name)))
		case "badfs":
			// an instance holding a resource whose release FAILS (a mounted file system whose directory handle returns
			// an I/O error from Close): closing such an instance reports the error, but must leave the registry as
			// any other close does
			m, err = w.rt.InstantiateModule(ictx, w.compiled, wazero.NewModuleConfig().WithName(nameStr(o.Name)).
				WithFSConfig(wazero.NewFSConfig().(expsysfs.FSConfig).WithSysFSMount(badFS{w: w, h: h}, "/")))
			if err == nil {
				// the pre-open is opened lazily: do it now.  Another thread may be closing the instance (or the runtime)
				// at this very moment, which detaches Sys: then there is nothing left to open.
				func() {
					defer func() { recover() }()
					if s := unwrap(m).Sys; s != nil {
						if f, ok := s.FS().LookupFile(3); ok {
							f.File.IsDir()
							if o.Sparse {
								// a SPARSE descriptor table: descriptors up to 139 opened, then 64..127 closed again (an empty
								// 64-descriptor block between used ones, as fd_renumber to a high number or a burst of opens
								// leaves it): closing the instance releases what lies behind the gap as well
								for k := 0; k < 136; k++ {
									s.FS().OpenFile(f.FS, fmt.Sprintf("f%d", k), experimentalsys.O_RDONLY, 0)
								}
								closed := 0
								for fd := int32(64); fd < 128; fd++ {
									if s.FS().CloseFile(fd) != experimentalsys.EBADF {
										closed++
									}
								}
								last := int32(-1)
								for fd := int32(0); fd < 400; fd++ {
									if _, ok := s.FS().LookupFile(fd); ok {
										last = fd
									}
								}
								rep.Count(fmt.Sprintf("sparse-table:closed-%d-highest-fd-%d", closed, last))
							}
						}
					}
				}()
			}
		case "bin":
			m, err = w.rt.InstantiateWithConfig(ictx, freshBinary(), wazero.NewModuleConfig().WithName(nameStr(o.Name)))
		case "host":
			m, err = w.rt.NewHostModuleBuilder(nameStr(o.Name)).NewFunctionBuilder().
				WithFunc(func(context.Context, uint32) uint32 { return 0 }).Export("f").Instantiate(ictx)
		case "hostb":
			// the SAME HostModuleBuilder object for every instantiation under this name (sequential histories only):
			// a builder may be used again after the instance made from it was closed or its instantiation failed
			w.mu.Lock()
			if w.builders == nil {
				w.builders = map[int]wazero.HostModuleBuilder{}
			}
			bl := w.builders[o.Name]
			if bl == nil {
				bl = w.rt.NewHostModuleBuilder(nameStr(o.Name)).NewFunctionBuilder().
					WithFunc(func(context.Context, uint32) uint32 { return 0 }).Export("f")
				w.builders[o.Name] = bl
			}
			w.mu.Unlock()
			m, err = bl.Instantiate(ictx)
		default:
			hx.Fatal("bad pre %q", o.Pre)
		}
		if err == nil {
			if m == nil {
				return rawRes{s: "other:nil-module-without-error"}
			}
			w.mu.Lock()
			w.mods[h] = m
			w.ptr[unwrap(m)] = h
			w.pool = append(w.pool, h)
			w.mu.Unlock()
		}
		return rawRes{s: classifyErr(err)}
	case "instfail":
		before := w.rt.Module(nameStr(o.Name))
		m, err := w.rt.InstantiateWithConfig(ctx, failingBinary(o.Fail), wazero.NewModuleConfig().WithName(nameStr(o.Name)))
		if err == nil {
			if m != nil {
				m.Close(ctx)
			}
			return rawRes{s: "other:failing-module-instantiated:" + o.Fail}
		}
		if m != nil && !m.IsClosed() {
			// (a failing _start hands back the instance together with the error: it must be a closed one)
			return rawRes{s: "registry-changed:an-OPEN-module-returned-together-with-the-error"}
		}
		after := w.rt.Module(nameStr(o.Name))
		switch {
		case after == before:
			return rawRes{s: "failed"}
		case before == nil:
			return rawRes{s: fmt.Sprintf("registry-changed:a-failed-instantiation-left-%q-registered(closed=%v)", nameStr(o.Name), after.IsClosed())}
		default:
			return rawRes{s: "registry-changed:another-owner"}
		}
	case "look":
		m := w.rt.Module(nameStr(o.Name))
		if m == nil {
			return rawRes{s: "none"}
		}
		return rawRes{s: "found", ptr: unwrap(m)}
	case "comp":
		_, err := w.rt.CompileModule(ctx, freshBinary())
		return rawRes{s: classifyErr(err)}
	case "hcomp":
		bl := w.rt.NewHostModuleBuilder("hostc")
		if o.Funcs {
			bl = bl.NewFunctionBuilder().WithFunc(func(context.Context, uint64) uint64 { return 0 }).Export("g")
		}
		_, err := bl.Compile(ctx)
		return rawRes{s: classifyErr(err)}
	case "close":
		w.mu.Lock()
		m := w.mods[o.H]
		w.mu.Unlock()
		if m == nil {
			hx.Fatal("close of unknown handle %d", o.H)
		}
		if o.Via != "" && !unwrap(m).Source.IsHostModule { // (a host module has no guest code that could be in flight)
			return rawRes{s: w.closeViaContext(m, m.ExportedFunction("spin"), o)}
		}
		return rawRes{s: classifyErr(m.CloseWithExitCode(ctx, o.Code))}
	case "rtclose":
		return rawRes{s: classifyErr(w.rt.CloseWithExitCode(ctx, o.Code))}
	case "isclosed":
		w.mu.Lock()
		m := w.mods[o.H]
		w.mu.Unlock()
		if m == nil {
			hx.Fatal("isclosed of unknown handle %d", o.H)
		}
		return rawRes{s: "isclosed," + b(m.IsClosed())}
	}
	hx.Fatal("bad op %v", o)
	return
}

// closeViaContext: see Op.Via.  Answers like CloseWithExitCode ("ok", also when the instance was closed already).
func (w *world) closeViaContext(m api.Module, spin api.Function, o Op) string {
	ctx := context.Background()
	var cctx context.Context
	var cancel context.CancelFunc
	if o.Via == "deadline" {
		cctx, cancel = context.WithTimeout(ctx, 3*time.Millisecond)
	} else {
		cctx, cancel = context.WithCancel(ctx)
		time.AfterFunc(3*time.Millisecond, cancel)
	}
	defer cancel()
	done := make(chan error, 1)
	go func() {
		defer func() {
			if r := recover(); r != nil {
				done <- fmt.Errorf("Go panic: %v", r)
			}
		}()
		_, err := spin.Call(cctx)
		done <- err
	}()
	select {
	case err := <-done:
		if err == nil {
			return "other:endless-loop-returned-without-error"
		}
		var ee *sys.ExitError
		if !errors.As(err, &ee) {
			return "other:call-ended-by-context-done-returns:" + strings.ReplaceAll(firstLine(err.Error()), " ", "_")
		}
	case <-time.After(30 * time.Second):
		return "other:call-not-ended-30s-after-its-context-was-done"
	}
	for i := 0; i < 2; i++ {
		func() {
			defer func() { recover() }()
			m.ExportedFunction("nop").Call(ctx)
		}()
	}
	if !m.IsClosed() {
		return "other:instance-open-after-context-done-during-call"
	}
	// The close is performed by the watcher goroutine of the call: it marks the instance closed (which ends the call)
	// and unregisters it afterwards.  A sequential history continues only when that goroutine is through - the window
	// in between is the non-atomic close of findings F10/F10b, which the concurrent stage decides.
	if name := m.Name(); name != "" {
		for i := 0; i < 4000; i++ {
			if cur := w.rt.Module(name); cur == nil || unwrap(cur) != unwrap(m) {
				break
			}
			if i == 3999 {
				return "other:instance-still-registered-2s-after-context-done-close"
			}
			time.Sleep(500 * time.Microsecond)
		}
	}
	return "ok"
}

func firstLine(s string) string {
	if i := strings.IndexByte(s, '\n'); i >= 0 {
		s = s[:i]
	}
	if len(s) > 60 {
		s = s[:60]
	}
	return strings.ReplaceAll(s, " ", "_")
}

func (w *world) resolve(r rawRes) string {
	if r.s == "closed-engine" {
		return "other:source_module_must_be_compiled_before_instantiation"
	}
	if r.s != "found" {
		return r.s
	}
	w.mu.Lock()
	h, ok := w.ptr[r.ptr]
	w.mu.Unlock()
	if !ok {
		return "found,unknown"
	}
	return fmt.Sprintf("found,%d", h)
}

// effects: "h:notes:allocs:frees" for every handle that was ever requested
func (w *world) effects(h int) (notes []uint32, allocs, frees int) {
	w.mu.Lock()
	defer w.mu.Unlock()
	return append([]uint32(nil), w.notes[h]...), w.allocs[h], w.frees[h]
}

// ---------------------------------------------------------------------------------------------
// sequential correspondence

var sidCounter int64

type seqCase struct {
	Engine string `json:"engine"`
	Ops    []Op   `json:"ops"`
}

// exitCode draws an exit code: mostly small, a fifth of the time a boundary of the 32-bit range (what the closed word
// of a module / of the runtime stores next to its flag bits: "closed with this code" must differ from "open" for each).
func exitCode(r *rand.Rand, small int) uint32 {
	if r.Intn(5) == 0 {
		return []uint32{0, 1, 255, 256, 0x7fffffff, 0x80000000, 0xefffffff, 0xfffffffe, 0xffffffff}[r.Intn(9)]
	}
	return uint32(r.Intn(small))
}

func genSeq(r *rand.Rand, n int) []Op {
	var ops []Op
	nextH := 1
	var handles []int // handles that have a module object (filled while running: decided by the runner)
	_ = handles
	for len(ops) < n {
		x := r.Intn(100)
		switch {
		case x < 32:
			pre := "none"
			if y := r.Intn(10); y == 9 {
				pre = "hostb"
			} else if y == 8 {
				pre = "host"
			} else if y >= 6 {
				pre = "bin"
			} else if y == 0 {
				pre = "badfs"
			}
			name := r.Intn(4)
			if (pre == "host" || pre == "hostb") && name == 0 {
				name = 1 + r.Intn(3) // API rule: a host module name must not be empty
			}
			ops = append(ops, Op{Kind: "inst", H: nextH, Name: name, Pre: pre, Shared: r.Intn(3) == 0, Sparse: pre == "badfs" && r.Intn(2) == 0})
			nextH++
		case x < 38:
			ops = append(ops, Op{Kind: "instfail", Name: r.Intn(4), Fail: failKinds[r.Intn(len(failKinds))]})
		case x < 52:
			ops = append(ops, Op{Kind: "look", Name: r.Intn(4)})
		case x < 76:
			op := Op{Kind: "close", H: -1 - r.Intn(1000), Code: exitCode(r, 4)} // H<0: chosen among live handles at run time
			switch r.Intn(6) {
			case 0:
				op.Via, op.Code = "deadline", sys.ExitCodeDeadlineExceeded
			case 1:
				op.Via, op.Code = "cancel", sys.ExitCodeContextCanceled
			}
			ops = append(ops, op)
		case x < 82:
			ops = append(ops, Op{Kind: "comp"})
		case x < 88:
			ops = append(ops, Op{Kind: "hcomp", Funcs: r.Intn(2) == 0})
		case x < 96:
			ops = append(ops, Op{Kind: "isclosed", H: -1 - r.Intn(1000)})
		default:
			ops = append(ops, Op{Kind: "rtclose", Code: exitCode(r, 3)})
		}
	}
	return ops
}

// genSeqScale: the same operations at scale - `peak` names are open at once, then closed in some order with
// lookups of the name just closed, of live names and re-instantiations of freed names in between.  The
// registry's bookkeeping that depends on the NUMBER of names (map growth and shrinking thresholds) is exercised
// only by histories like these; the specification is the same atomic registry.
func genSeqScale(r *rand.Rand, peak int) []Op {
	var ops []Op
	h := 1
	nameOf := map[int]int{}
	var open []int
	for i := 0; i < peak; i++ {
		name := 100 + i
		if r.Intn(12) == 0 {
			name = 0 // anonymous instances do not count
		}
		ops = append(ops, Op{Kind: "inst", H: h, Name: name, Pre: "none"})
		nameOf[h] = name
		open = append(open, h)
		h++
	}
	switch r.Intn(3) {
	case 0: // oldest first
	case 1:
		for i, j := 0, len(open)-1; i < j; i, j = i+1, j-1 {
			open[i], open[j] = open[j], open[i]
		}
	default:
		r.Shuffle(len(open), func(i, j int) { open[i], open[j] = open[j], open[i] })
	}
	var freed []int
	for len(open) > 0 {
		x := open[0]
		open = open[1:]
		ops = append(ops, Op{Kind: "close", H: x, Code: exitCode(r, 3)})
		if n := nameOf[x]; n != 0 {
			ops = append(ops, Op{Kind: "look", Name: n})
			freed = append(freed, n)
		}
		if len(open) > 0 && r.Intn(4) == 0 {
			if n := nameOf[open[r.Intn(len(open))]]; n != 0 {
				ops = append(ops, Op{Kind: "look", Name: n})
			}
		}
		if len(freed) > 0 && r.Intn(5) == 0 {
			// a freed name can be taken again (and is closed again later)
			k := r.Intn(len(freed))
			n := freed[k]
			freed = append(freed[:k], freed[k+1:]...)
			ops = append(ops, Op{Kind: "inst", H: h, Name: n, Pre: "none"})
			nameOf[h] = n
			open = append(open, h)
			h++
		}
	}
	// every name that is free at the end can be instantiated
	for _, n := range freed {
		ops = append(ops, Op{Kind: "inst", H: h, Name: n, Pre: "none"})
		h++
	}
	return ops
}

// runSeq runs one sequence on the real runtime, Impl(cfg) and Reg. Ops with H<0 are bound to an existing
// module handle at run time (the concrete sequence is what is reported).
func runSeq(engine string, ops []Op, cfg Cfg, o *hx.Oracle) {
	w := newWorld(engine)
	sid := atomic.AddInt64(&sidCounter, 1)
	o.Askf("c10 new %d %s", sid, cfg.Bits())
	defer o.Askf("c10 drop %d", sid)
	var concrete []Op
	var trace []string
	regAlive := true
	var key []string
	insts := []int{}
	for _, op := range ops {
		if op.Kind == "close" || op.Kind == "isclosed" {
			if op.H < 0 {
				if len(w.pool) == 0 {
					continue
				}
				op.H = w.pool[(-1-op.H)%len(w.pool)]
			}
		}
		if op.Kind == "inst" {
			insts = append(insts, op.H)
		}
		concrete = append(concrete, op)
		if op.Kind == "instfail" {
			// no model step: for the registry a failed instantiation never happened (the next operations show it)
			got := w.do(op).s
			trace = append(trace, fmt.Sprintf("%s=>%s", op.Token(), got))
			rep.Count("seq-op:instfail:" + op.Fail + ":" + strings.SplitN(got, ":", 2)[0])
			if got != "failed" && !strings.Contains(got, "closed") {
				rep.Violate(hx.Violation{Kind: "impl-violation", Signature: "C10:failed-instantiation-changes-registry:" + op.Fail,
					What:  fmt.Sprintf("sequential run on %s: an instantiation that fails (%s) under name %q: %s", engine, op.Fail, nameStr(op.Name), got),
					Input: seqCase{engine, concrete}, Expected: "failed, registry unchanged", Actual: got})
				break
			}
			continue
		}
		real := w.resolve(w.do(op))
		ans := strings.Fields(o.Askf("c10 op %d %s", sid, op.Token()))
		if len(ans) != 2 {
			hx.Fatal("oracle op answer %q", ans)
		}
		regR, implR := ans[0], ans[1]
		trace = append(trace, fmt.Sprintf("%s=>%s", op.Token(), real))
		key = append(key, op.Kind+":"+strings.Split(real, ",")[0])
		rep.Count("seq-op:" + op.Kind + ":" + strings.Split(real, ",")[0])
		if strings.HasPrefix(real, "other:") {
			rep.Violate(hx.Violation{Kind: "impl-violation", Signature: "C10:unexpected-error:" + op.Kind, What: "operation returned an error outside the property's result classes: " + real,
				Input: seqCase{engine, concrete}, Actual: real})
			break
		}
		if real != implR {
			rep.Violate(hx.Violation{Kind: "correspondence", Signature: "C10:seq-real-differs-from-impl-model:" + op.Kind,
				What:  fmt.Sprintf("sequential run: real code answered %s, implementation model (cfg %s) %s at op %d", real, cfg.Bits(), implR, len(concrete)-1),
				Input: seqCase{engine, concrete}, Expected: implR, Actual: real})
			if regAlive && implR == regR {
				// the model agrees with the specification here and the real code with neither: this history is a failing input
				rep.Violate(hx.Violation{Kind: "impl-violation", Signature: fmt.Sprintf("C10:seq-differs-from-spec:%s:%s-vs-%s", op.Kind, strings.Split(real, ",")[0], strings.Split(regR, ",")[0]),
					What:  fmt.Sprintf("sequential run on %s: the runtime answered %s where the atomic registry answers %s (op %d: %s)", engine, real, regR, len(concrete)-1, op.Token()),
					Input: seqCase{engine, concrete}, Expected: regR, Actual: real})
			}
			break
		}
		if regAlive && real != regR {
			regAlive = false
			sig := fmt.Sprintf("C10:seq-differs-from-spec:%s:%s-vs-%s", op.Kind, strings.Split(real, ",")[0], strings.Split(regR, ",")[0])
			if !cfg.FixF9 && (op.Kind == "hcomp" || op.Kind == "comp" || (op.Kind == "inst" && (op.Pre == "host" || op.Pre == "hostb"))) && regR == "closed" {
				sig = sigF9
			} else if !cfg.FixF8 && (op.Kind == "look" || op.Kind == "inst") {
				sig = sigF8
			}
			rep.Violate(hx.Violation{Kind: "impl-violation", Signature: sig,
				What:  fmt.Sprintf("sequential run on %s: the runtime answered %s where the atomic registry answers %s (op %d: %s)", engine, real, regR, len(concrete)-1, op.Token()),
				Input: seqCase{engine, concrete}, Expected: regR, Actual: real})
		}
	}
	// final: close the runtime, then every module must be closed, notified once, memory freed once
	w.rt.CloseWithExitCode(context.Background(), 7)
	o.Askf("c10 op %d rtclose,7", sid)
	dump := parseDump(o.Askf("c10 dump %d", sid))
	var sharedWant []string
	for _, h := range insts {
		notes, allocs, frees := w.effects(h)
		m := w.mods[h]
		d, ok := dump[h]
		if !ok {
			// the model never created the instance (failed before registration)
			d = dumpEnt{notes: "-", fs: 0}
		}
		if w.sharedOf[h] {
			// notified through the shared registration: compared as a multiset below
			if d.notes != "-" {
				sharedWant = append(sharedWant, strings.Split(d.notes, "+")...)
			}
			if m != nil && !m.IsClosed() {
				rep.Violate(hx.Violation{Kind: "impl-violation", Signature: "C10:module-open-after-runtime-close",
					What: fmt.Sprintf("handle %d is not closed after Runtime.Close", h), Input: seqCase{engine, concrete}})
			}
			if frees != allocs {
				rep.Violate(hx.Violation{Kind: "impl-violation", Signature: "C10:seq-memory-not-freed-exactly-once",
					What: fmt.Sprintf("handle %d: %d linear memories allocated, %d Free calls", h, allocs, frees), Input: seqCase{engine, concrete}})
			}
			if leak := w.dirLeak(h); leak != "" {
				rep.Violate(hx.Violation{Kind: "impl-violation", Signature: "C10:seq-directory-handle-not-released", What: leak + " after every instance and the runtime were closed", Input: seqCase{engine, concrete}})
			}
			continue
		}
		realNotes := "-"
		if len(notes) > 0 {
			var p []string
			for _, n := range notes {
				p = append(p, fmt.Sprint(n))
			}
			realNotes = strings.Join(p, "+")
		}
		if realNotes != d.notes {
			rep.Violate(hx.Violation{Kind: "correspondence", Signature: "C10:seq-notifications-differ-from-impl-model",
				What:  fmt.Sprintf("handle %d: close notifications (exit codes) real %s, model %s", h, realNotes, d.notes),
				Input: seqCase{engine, concrete}, Expected: d.notes, Actual: realNotes})
		}
		if m != nil {
			if !m.IsClosed() {
				rep.Violate(hx.Violation{Kind: "impl-violation", Signature: "C10:module-open-after-runtime-close",
					What: fmt.Sprintf("handle %d is not closed after Runtime.Close", h), Input: seqCase{engine, concrete}})
			}
			if len(notes) != 1 {
				rep.Violate(hx.Violation{Kind: "impl-violation", Signature: "C10:seq-close-notification-not-exactly-once",
					What: fmt.Sprintf("handle %d: %d close notifications", h, len(notes)), Input: seqCase{engine, concrete}, Actual: notes})
			}
		}
		if frees != allocs {
			rep.Violate(hx.Violation{Kind: "impl-violation", Signature: "C10:seq-memory-not-freed-exactly-once",
				What: fmt.Sprintf("handle %d: %d linear memories allocated, %d Free calls", h, allocs, frees), Input: seqCase{engine, concrete}})
		}
		if leak := w.dirLeak(h); leak != "" {
			rep.Violate(hx.Violation{Kind: "impl-violation", Signature: "C10:seq-directory-handle-not-released", What: leak + " after every instance and the runtime were closed", Input: seqCase{engine, concrete}})
		}
		w.mu.Lock()
		re := append([]string(nil), w.reent[h]...)
		w.mu.Unlock()
		for _, l := range re {
			if l == "the-closed-module" {
				rep.Violate(hx.Violation{Kind: "impl-violation", Signature: "C10:closed-module-still-registered-during-its-close-notification",
					What:  fmt.Sprintf("handle %d: from inside its own close notification a look-up of the module's name returned the CLOSED module: the name is released only after the resources (a restart from the notifier fails with 'already instantiated'; a panicking notifier leaves the name taken for ever)", h),
					Input: seqCase{engine, concrete}, Expected: "no module under the name", Actual: l})
				break
			}
		}
		if allocs > 0 && frees != d.fs {
			rep.Violate(hx.Violation{Kind: "correspondence", Signature: "C10:seq-resource-release-differs-from-impl-model",
				What: fmt.Sprintf("handle %d: Free calls %d, model resource closes %d", h, frees, d.fs), Input: seqCase{engine, concrete}})
		}
	}
	if w.sharedCtx != nil {
		var got []string
		for _, c := range w.sharedNotes {
			got = append(got, fmt.Sprint(c))
		}
		sort.Strings(got)
		sort.Strings(sharedWant)
		rep.Count("seq-shared-notifier-registration")
		if strings.Join(got, "+") != strings.Join(sharedWant, "+") {
			kind, sig := "correspondence", "C10:seq-notifications-differ-from-impl-model"
			if len(got) != len(sharedWant) {
				kind, sig = "impl-violation", "C10:seq-close-notification-not-exactly-once"
			}
			rep.Violate(hx.Violation{Kind: kind, Signature: sig,
				What:  fmt.Sprintf("%d instances were created with ONE close-notifier registration and are closed: the notifier was called %d times (exit codes %v, one per closed instance would be %v)", len(sharedWant), len(got), got, sharedWant),
				Input: seqCase{engine, concrete}, Expected: sharedWant, Actual: got})
		}
	}
	rep.Case("seq/" + engine + "/" + strings.Join(key, " "))
	rep.Sample(map[string]any{"mode": "sequential", "engine": engine, "trace": trace})
}

type dumpEnt struct {
	closed string
	notes  string
	fs     int
}

func parseDump(s string) map[int]dumpEnt {
	out := map[int]dumpEnt{}
	if s == "-" {
		return out
	}
	for _, e := range strings.Split(s, ";") {
		f := strings.Split(e, ":")
		if len(f) != 5 {
			hx.Fatal("bad dump entry %q", e)
		}
		var h, fs int
		fmt.Sscan(f[0], &h)
		fmt.Sscan(f[4], &fs)
		out[h] = dumpEnt{closed: f[2], notes: f[3], fs: fs}
	}
	return out
}

// ---------------------------------------------------------------------------------------------
// witness probes (finding switches): which variant of the model is tied to this tree?

func probe(engine string) (fixF8, fixF9 bool) {
	// F8
	w := newWorld(engine)
	ops := []Op{{Kind: "inst", H: 1, Name: 1, Pre: "none"}, {Kind: "inst", H: 2, Name: 1, Pre: "none"}, {Kind: "look", Name: 1},
		{Kind: "inst", H: 3, Name: 1, Pre: "none"}}
	var got []string
	for _, o := range ops {
		got = append(got, w.resolve(w.do(o)))
	}
	fixF8 = got[2] == "found,1" && got[3] == "dup"
	if !fixF8 {
		open1, open3 := false, false
		if m := w.mods[1]; m != nil {
			open1 = !m.IsClosed()
		}
		if m := w.mods[3]; m != nil {
			open3 = !m.IsClosed()
		}
		rep.Violate(hx.Violation{Kind: "impl-violation", Signature: sigF8,
			What:  fmt.Sprintf("%s: Instantiate(m1) ok; Instantiate(m1) fails as it should; then Module(m1)=%s although the first module is open, third Instantiate(m1)=%s (two open owners: %v)", engine, got[2], got[3], open1 && open3),
			Input: seqCase{engine, ops}, Expected: []string{"ok", "dup", "found,1", "dup"}, Actual: got})
	}
	w.rt.Close(context.Background())
	// F9
	w = newWorld(engine)
	ops = []Op{{Kind: "rtclose"}, {Kind: "hcomp", Funcs: true}, {Kind: "hcomp", Funcs: false}, {Kind: "inst", H: 1, Name: 2, Pre: "host"}, {Kind: "comp"}}
	got = nil
	for _, o := range ops {
		got = append(got, w.resolve(w.do(o)))
	}
	fixF9 = got[1] == "closed" && got[2] == "closed" && got[3] == "closed"
	if !fixF9 {
		rep.Violate(hx.Violation{Kind: "impl-violation", Signature: sigF9,
			What:  fmt.Sprintf("%s: after Runtime.Close, HostModuleBuilder.Compile with a function = %s, without functions = %s, HostModuleBuilder.Instantiate = %s (each must fail with an error)", engine, got[1], got[2], got[3]),
			Input: seqCase{engine, ops}, Expected: []string{"ok", "closed", "closed", "closed", "closed"}, Actual: got})
	}
	return
}

// ---------------------------------------------------------------------------------------------
// concurrent histories

type HOp struct {
	Thread int    `json:"thread"`
	Inv    int64  `json:"inv"`
	Resp   int64  `json:"resp"`
	Op     Op     `json:"op"`
	Res    string `json:"res"`
	raw    rawRes
}

func (h HOp) Token() string {
	return fmt.Sprintf("%d,%d,%d,%s,%s", h.Thread, h.Inv, h.Resp, h.Res, h.Op.Token())
}

type concCase struct {
	Engine  string `json:"engine"`
	Threads int    `json:"threads"`
	Yield   bool   `json:"random_yield_hook"`
	Seed    int64  `json:"seed"`
	History []HOp  `json:"history"`
}

type progOp struct {
	op   Op
	pick int // for close: index into the pool at run time
}

func genProg(r *rand.Rand, n int, nextH *int, rtCloseProb int, hot bool) []progOp {
	var p []progOp
	for len(p) < n {
		x := r.Intn(100)
		if hot {
			// maximum contention on one name: registerModule / deleteModule of the same map entry
			switch {
			case x < 55:
				p = append(p, progOp{op: Op{Kind: "inst", H: *nextH, Name: 1, Pre: "none"}})
				*nextH++
			case x < 85:
				p = append(p, progOp{op: Op{Kind: "close", Code: exitCode(r, 4)}, pick: r.Intn(1 << 20)})
			default:
				p = append(p, progOp{op: Op{Kind: "look", Name: 1}})
			}
			continue
		}
		switch {
		case x < 36:
			pre := "none"
			if y := r.Intn(10); y >= 8 {
				pre = "host"
			} else if y >= 6 {
				pre = "bin"
			} else if y == 0 {
				pre = "badfs"
			}
			name := r.Intn(4)
			if pre == "host" && name == 0 {
				name = 1 + r.Intn(3)
			}
			p = append(p, progOp{op: Op{Kind: "inst", H: *nextH, Name: name, Pre: pre}})
			*nextH++
		case x < 58:
			p = append(p, progOp{op: Op{Kind: "look", Name: 1 + r.Intn(3)}})
		case x < 86:
			p = append(p, progOp{op: Op{Kind: "close", Code: exitCode(r, 4)}, pick: r.Intn(1 << 20)})
		case x < 91:
			p = append(p, progOp{op: Op{Kind: "comp"}})
		case x < 96:
			p = append(p, progOp{op: Op{Kind: "hcomp", Funcs: r.Intn(2) == 0}})
		default:
			if r.Intn(100) < rtCloseProb {
				p = append(p, progOp{op: Op{Kind: "rtclose", Code: exitCode(r, 3)}})
			}
		}
	}
	return p
}

// runConc runs one concurrent history and returns it (with results resolved).
func runConc(engine string, seed int64, threads, opsPer int, yield bool) (*world, concCase) {
	r := rand.New(rand.NewSource(seed))
	w := newWorld(engine)
	nextH := 1
	rtp := 0
	if r.Intn(3) == 0 {
		rtp = 60
	}
	hot := r.Intn(4) == 0
	if hot {
		rep.Count("conc-mode:hot-name")
	}
	progs := make([][]progOp, threads)
	for t := range progs {
		progs[t] = genProg(r, opsPer, &nextH, rtp, hot)
	}
	// a few named modules exist before the threads start (sequential prefix by thread 0 = part of the history)
	rec := &recorder{w: w}
	record := rec.record
	pre := r.Intn(3)
	for i := 0; i < pre; i++ {
		record(threads, Op{Kind: "inst", H: nextH, Name: 1 + r.Intn(3), Pre: "none"})
		nextH++
	}
	if yield {
		var ctr atomic.Uint64
		ctr.Store(uint64(seed))
		setYield(func(tag string, m *wasm.ModuleInstance) {
			x := ctr.Add(0x9e3779b97f4a7c15)
			x ^= x >> 29
			switch x % 4 {
			case 0:
				runtime.Gosched()
			case 1:
				time.Sleep(time.Duration(x>>8%50) * time.Microsecond)
			}
		})
		defer setYield(nil)
	}
	var wg sync.WaitGroup
	start := make(chan struct{})
	for t := 0; t < threads; t++ {
		wg.Add(1)
		go func(t int) {
			defer wg.Done()
			<-start
			for _, po := range progs[t] {
				op := po.op
				if op.Kind == "close" {
					w.mu.Lock()
					n := len(w.pool)
					if n > 0 {
						op.H = w.pool[po.pick%n]
					}
					w.mu.Unlock()
					if n == 0 {
						op = Op{Kind: "look", Name: 1 + po.pick%3}
					}
				}
				record(t, op)
			}
		}(t)
	}
	close(start)
	wg.Wait()
	if yield {
		setYield(nil)
	}
	hist := rec.finish(threads + 1)
	return w, concCase{Engine: engine, Threads: threads, Yield: yield, Seed: seed, History: hist}
}

type recorder struct {
	w     *world
	clock int64
	mu    sync.Mutex
	hist  []HOp
}

func (rc *recorder) record(t int, op Op) {
	inv := atomic.AddInt64(&rc.clock, 1)
	raw := rc.w.do(op)
	resp := atomic.AddInt64(&rc.clock, 1)
	rc.mu.Lock()
	rc.hist = append(rc.hist, HOp{Thread: t, Inv: inv, Resp: resp, Op: op, raw: raw})
	rc.mu.Unlock()
}

// finish appends the quiescent probes (lookups, isClosed of every module, runtime close, again) as thread pt
// and returns the history sorted by invocation with lookups resolved to handles.
func (rc *recorder) finish(pt int) []HOp {
	w := rc.w
	for n := 1; n <= 3; n++ {
		rc.record(pt, Op{Kind: "look", Name: n})
	}
	pool := append([]int(nil), w.pool...)
	sort.Ints(pool)
	for _, h := range pool {
		rc.record(pt, Op{Kind: "isclosed", H: h})
	}
	rc.record(pt, Op{Kind: "rtclose", Code: 9})
	for _, h := range pool {
		rc.record(pt, Op{Kind: "isclosed", H: h})
	}
	rc.record(pt, Op{Kind: "look", Name: 1})
	rc.record(pt, Op{Kind: "comp"})
	hist := rc.hist
	sort.Slice(hist, func(i, j int) bool { return hist[i].Inv < hist[j].Inv })
	for i := range hist {
		hist[i].Res = w.resolve(hist[i].raw)
		if hist[i].raw.s == "closed-engine" {
			// legitimate only when a runtime close was invoked before this response
			for j := range hist {
				if hist[j].Op.Kind == "rtclose" && hist[j].Inv < hist[i].Resp {
					hist[i].Res = "closed"
					rep.Count("closed-error-from-engine")
				}
			}
		}
	}
	return hist
}

func overlaps(a, b HOp) bool { return a.Inv < b.Resp && b.Inv < a.Resp }

// checkConc validates one recorded history. budget = node budget of the oracle's search.
func checkConc(w *world, c concCase, cfg Cfg, o *hx.Oracle, budget int, origin string) (linearizable bool) {
	var toks []string
	kinds := map[string]int{}
	panics := false
	for _, h := range c.History {
		if strings.HasPrefix(h.Res, "other:") || h.Res == "found,unknown" {
			rep.Violate(hx.Violation{Kind: "impl-violation", Signature: "C10:conc-unexpected-result:" + h.Op.Kind,
				What: "operation returned a result outside the property's result classes: " + h.Res, Input: c, Actual: h.Res})
			return false
		}
		if h.Res == "panic" {
			panics = true
			// which finding? a (host) compile after / overlapping a runtime close
			sig := "C10:conc-panic:" + h.Op.Kind
			// the first runtime close of the history (later ones lose the CAS and do nothing)
			var first *HOp
			for k := range c.History {
				if g := &c.History[k]; g.Op.Kind == "rtclose" && (first == nil || g.Inv < first.Inv) {
					first = g
				}
			}
			compiles := h.Op.Kind == "comp" || h.Op.Kind == "hcomp" || (h.Op.Kind == "inst" && h.Op.Pre != "none")
			if first != nil && compiles {
				if overlaps(*first, h) {
					sig = sigF9b
				} else if first.Resp < h.Inv && (h.Op.Kind == "hcomp" || h.Op.Pre == "host") {
					sig = sigF9
				}
			}
			if cfg.FixF9 && sig == sigF9 {
				sig = "C10:conc-panic-after-close-on-repaired-tree:" + h.Op.Kind
			}
			rep.Violate(hx.Violation{Kind: "impl-violation", Signature: sig,
				What: fmt.Sprintf("%s: %s panicked instead of returning an error (runtime close before/overlapping)", origin, h.Op.Token()), Input: c, Actual: h.Token()})
		}
		toks = append(toks, h.Token())
		kinds[h.Op.Kind+":"+strings.Split(h.Res, ",")[0]]++
	}
	for k, n := range kinds {
		for i := 0; i < n; i++ {
			rep.Count("conc-op:" + k)
		}
	}
	line := strings.Join(toks, " ")
	if panics && cfg.FixF9 {
		// a panic is outside the result classes of the repaired model (the engine-level nil map of F9b is
		// not modelled): the history is reported above and not checked further
		rep.Count("conc-history-with-panic-not-checked")
		rep.Case("")
		return false
	}
	// tie B: producible by the implementation model tied to this tree
	ans := strings.Fields(o.Askf("c10 check impl %s %d %s", cfg.Bits(), budget, line))
	rep.Count("conc-impl-check:" + ans[0])
	if ans[0] == "fail" {
		rep.Violate(hx.Violation{Kind: "correspondence", Signature: "C10:history-not-producible-by-impl-model",
			What: fmt.Sprintf("%s: recorded history cannot be produced by any interleaving of the implementation model's atomic actions (cfg %s)", origin, cfg.Bits()), Input: c})
	}
	// tie C: the property itself
	lin := strings.Fields(o.Askf("c10 check reg %s %d %s", cfg.Bits(), budget, line))
	rep.Count("conc-linearizable:" + lin[0])
	if lin[0] == "fail" && !panics {
		// explain by the model's switches: which non-atomic close window does the history need?
		try := func(ac, ar bool, bud int) string {
			c2 := cfg
			c2.AtomicClose, c2.AtomicRt = ac, ar
			return strings.Fields(o.Askf("c10 check impl %s %d %s", c2.Bits(), bud, line))[0]
		}
		asis := ans[0]
		if asis == "unknown" {
			asis = try(cfg.AtomicClose, cfg.AtomicRt, budget*2)
		}
		sig := "C10:non-linearizable-history"
		defer func() {
			if strings.HasPrefix(sig, "C10:") {
				unexplained.Add(1)
			}
		}()
		switch {
		case asis == "unknown":
			sig = "" // search budget exceeded twice: inconclusive, counted, never a verdict
			rep.Count("conc-nonlinearizable-cause-inconclusive")
		case asis == "fail":
			// neither the specification nor the implementation model explains it
		case !cfg.AtomicClose && try(false, true, budget) == "ok":
			sig = sigF10
		case !cfg.AtomicRt && try(true, false, budget) == "ok":
			sig = sigF10b
		case !cfg.AtomicClose && !cfg.AtomicRt:
			sig = sigF10x
		case !cfg.FixF8:
			sig = sigF8
		}
		if sig != "" {
			rep.Violate(hx.Violation{Kind: "impl-violation", Signature: sig,
				What: fmt.Sprintf("%s: recorded concurrent history (%d threads, %s) is not linearizable w.r.t. the atomic registry", origin, c.Threads, c.Engine), Input: c})
		}
	}
	// effects: exactly once
	if w != nil {
		for _, h := range c.History {
			if h.Op.Kind != "inst" {
				continue
			}
			notes, allocs, frees := w.effects(h.Op.H)
			// (directory handles are accounted for in the SEQUENTIAL histories only: here the harness itself opens the lazy
			// pre-open through the instance's file table right after instantiation, possibly while another thread closes
			// the instance - a handle opened by that poke after the close is the harness's, not a leak of the runtime)
			if leak := w.dirLeak(h.Op.H); leak != "" {
				rep.Count("conc-directory-handle-opened-by-the-harness-after-close")
			}
			if frees != allocs {
				rep.Violate(hx.Violation{Kind: "impl-violation", Signature: "C10:conc-memory-not-freed-exactly-once",
					What: fmt.Sprintf("%s: handle %d: %d linear memories allocated, %d Free calls after the runtime was closed", origin, h.Op.H, allocs, frees), Input: c})
			}
			if h.Res == "ok" && len(notes) != 1 {
				sig := "C10:conc-close-notification-not-exactly-once"
				if len(notes) == 0 {
					for _, g := range c.History {
						if (g.Op.Kind == "rtclose" || (g.Op.Kind == "close" && g.Op.H == h.Op.H)) && g.Inv < h.Resp {
							sig = sigF10c
						}
					}
				}
				if cfg.NotifierAtReg && sig == sigF10c {
					sig = "C10:conc-close-notification-lost-on-repaired-tree"
				}
				rep.Violate(hx.Violation{Kind: "impl-violation", Signature: sig,
					What: fmt.Sprintf("%s: handle %d was instantiated successfully and is closed, but its close notifier fired %d times", origin, h.Op.H, len(notes)), Input: c, Actual: notes})
			}
			if h.Res != "ok" && len(notes) != 0 {
				rep.Violate(hx.Violation{Kind: "impl-violation", Signature: "C10:conc-notification-for-failed-instantiate",
					What: fmt.Sprintf("%s: handle %d failed to instantiate but its notifier fired", origin, h.Op.H), Input: c})
			}
		}
	}
	var key []string
	for _, h := range c.History {
		key = append(key, fmt.Sprintf("%d%s%s", h.Thread, h.Op.Kind[:2], h.Res[:1]))
	}
	rep.Case("conc/" + c.Engine + "/" + strings.Join(key, ""))
	if lin[0] == "ok" {
		ov := 0
		for i := range c.History {
			for j := i + 1; j < len(c.History); j++ {
				if overlaps(c.History[i], c.History[j]) {
					ov++
				}
			}
		}
		rep.Count(fmt.Sprintf("conc-overlapping-pairs:%s", bucket(ov)))
	}
	return lin[0] != "fail"
}

func bucket(n int) string {
	switch {
	case n == 0:
		return "0"
	case n < 10:
		return "1-9"
	case n < 50:
		return "10-49"
	case n < 200:
		return "50-199"
	}
	return "200+"
}

// ---------------------------------------------------------------------------------------------

// buildBinary returns a module with a memory and a function. Every compile request gets its own binary
// (different constant): compiled modules of identical bytes share one engine entry keyed by the module ID,
// and closing one of them deletes the code of the others (observed; outside C10, reported in docs/C10.md).
func buildBinary(salt int32) []byte {
	m := wb.New()
	one := uint32(1)
	m.Memory(1, &one, false, "memory")
	m.AddFunc(wb.Func{Params: []byte{wb.I32}, Results: []byte{wb.I32}, Export: "id",
		Body: wb.Cat(wb.I32Const(salt), wb.Op(wasm.OpcodeDrop), wb.LocalGet(0))})
	m.AddFunc(wb.Func{Export: "spin", Body: wb.Op(wasm.OpcodeLoop, 0x40, wasm.OpcodeBr, 0, wasm.OpcodeEnd)})
	m.AddFunc(wb.Func{Export: "nop"})
	return m.Bytes()
}

var saltCounter atomic.Int32

func freshBinary() []byte { return buildBinary(saltCounter.Add(1)) }

type replayFile struct {
	ImplViolations []struct {
		Signature string          `json:"signature"`
		Input     json.RawMessage `json:"input"`
	} `json:"impl_violations"`
	Broken []struct {
		Kind   string `json:"kind"`
		Detail struct {
			Input json.RawMessage `json:"input"`
		} `json:"detail"`
	} `json:"broken"`
}

func replay(path string, cfg Cfg) {
	data, err := os.ReadFile(path)
	if err != nil {
		hx.Fatal("replay: %v", err)
	}
	var rf replayFile
	if err := json.Unmarshal(data, &rf); err != nil {
		hx.Fatal("replay: %v", err)
	}
	var inputs []json.RawMessage
	for _, v := range rf.ImplViolations {
		inputs = append(inputs, v.Input)
	}
	for _, v := range rf.Broken {
		if len(v.Detail.Input) > 0 {
			inputs = append(inputs, v.Detail.Input)
		}
	}
	for _, in := range inputs {
		var sc seqCase
		var cc concCase
		if json.Unmarshal(in, &cc) == nil && len(cc.History) > 0 {
			// re-validate the recorded history, then re-run its programs a few times
			checkConc(nil, cc, cfg, orc, 300000, "replay(recorded)")
			for k := 0; k < 20; k++ {
				w, c := runConc(cc.Engine, cc.Seed, cc.Threads, opsPerThread(cc), cc.Yield && hooksAvailable)
				checkConc(w, c, cfg, orc, 300000, "replay(re-run)")
			}
		} else if json.Unmarshal(in, &sc) == nil && len(sc.Ops) > 0 {
			runSeq(sc.Engine, sc.Ops, cfg, orc)
		}
	}
}

func opsPerThread(c concCase) int {
	n := 0
	for _, h := range c.History {
		if h.Thread == 0 {
			n++
		}
	}
	if n == 0 {
		n = 5
	}
	return n
}

var childFlag = flag.Bool("child", false, "internal: run the harness body (the parent supervises for Go fatal errors)")

// supervise re-executes the harness as a child: a Go "fatal error" (e.g. concurrent map writes inside the
// engine) kills the process and cannot be recovered in-process; the parent turns it into a violation.
func supervise() {
	args := append([]string{"-child"}, os.Args[1:]...)
	cmd := hx.Supervised(exec.Command(os.Args[0], args...))
	var errb bytes.Buffer
	cmd.Stdout = os.Stdout
	cmd.Stderr = io.MultiWriter(os.Stderr, &errb)
	err := cmd.Run()
	if err == nil {
		return
	}
	msg := errb.String()
	if i := strings.Index(msg, "fatal error: "); i >= 0 {
		line := firstLine(msg[i:])
		rep = hx.NewReport("C10", "supervised child died with a Go fatal error")
		sig := "C10:go-fatal-error:" + line
		if strings.Contains(line, "concurrent_map_writes") && strings.Contains(msg, "interpreter.(*engine).") {
			sig = sigF9c
		}
		rep.Case("fatal")
		rep.Violate(hx.Violation{Kind: "impl-violation", Signature: sig,
			What:  "the process running concurrent lifecycle operations died: " + line + " (a compile/instantiate overlapping Runtime.Close; not recoverable by the caller)",
			Input: map[string]any{"seed": *hx.Seed, "tier": *hx.Tier}, Actual: msg[i:min(len(msg), i+1500)]})
		rep.Write(nil)
		return
	}
	if ee, ok := err.(*exec.ExitError); ok {
		os.Exit(ee.ExitCode())
	}
	hx.Fatal("child: %v", err)
}

func main() {
	flag.Parse()
	if !*childFlag {
		supervise()
		return
	}
	orc = hx.StartOracle()
	defer orc.Close()
	rep = hx.NewReport("C10", "sequential: seeded op sequences (<=40 ops; instantiate{precompiled,binary,host} x 3 names+anonymous, lookup, compile, hostCompile, closeModule(code), closeRuntime(code), isClosed) on both engines, distinct = distinct (engine, op-kind:result-class sequence); concurrent: seeded programs for 2-8 goroutines x 5-10 ops (+ quiescent probe suffix) on one runtime with invocation/response stamps, with and without the random-yield schedule hook, distinct = distinct (engine, per-op thread/kind/result) histories; hook replays: the model's witness interleavings forced on the real store")
	bin = buildBinary(0)
	r := hx.Rand()

	// 1. finding switches: which model variant is tied to this tree
	cfg := Cfg{}
	f8i, f9i := probe("interpreter")
	f8c, f9c := probe("compiler")
	if f8i != f8c || f9i != f9c {
		rep.Violate(hx.Violation{Kind: "correspondence", Signature: "C10:engines-disagree-on-witness-probes", What: "F8/F9 witnesses behave differently on the two engines"})
	}
	cfg.FixF8, cfg.FixF9 = f8i, f9i
	if hooksAvailable {
		hookReplays(&cfg)
	} else {
		rep.Note("schedule hook not available (harness built without -tags verif): witness interleavings not replayed")
	}
	rep.Note("model variant tied to this tree: fixF8=%v fixF9=%v atomicClose=%v atomicRtClose=%v notifierAtRegister=%v", cfg.FixF8, cfg.FixF9, cfg.AtomicClose, cfg.AtomicRt, cfg.NotifierAtReg)

	if *hx.Replay != "" {
		replay(*hx.Replay, cfg)
		rep.Write(orc)
		return
	}

	// 2. sequential correspondence
	nseq := 150
	if hx.Thorough() {
		nseq = 1500
	}
	for i := 0; i < nseq; i++ {
		engine := []string{"interpreter", "compiler"}[i%2]
		n := 5 + r.Intn(36)
		runSeq(engine, genSeq(r, n), cfg, orc)
	}
	// exit-code grid: the runtime / a module closed with every boundary code, then asked for everything again
	for _, code := range []uint32{0, 1, 255, 256, 0x7fffffff, 0x80000000, 0xefffffff, 0xfffffffe, 0xffffffff} {
		for _, engine := range []string{"interpreter", "compiler"} {
			runSeq(engine, []Op{{Kind: "inst", H: 1, Name: 1, Pre: "none"}, {Kind: "inst", H: 2, Name: 0, Pre: "bin"}, {Kind: "inst", H: 3, Name: 2, Pre: "host"},
				{Kind: "rtclose", Code: code}, {Kind: "isclosed", H: 1}, {Kind: "isclosed", H: 3}, {Kind: "comp"}, {Kind: "hcomp", Funcs: true}, {Kind: "hcomp"},
				{Kind: "inst", H: 4, Name: 3, Pre: "none"}, {Kind: "inst", H: 5, Name: 3, Pre: "host"}, {Kind: "look", Name: 1}, {Kind: "look", Name: 2}}, cfg, orc)
			runSeq(engine, []Op{{Kind: "inst", H: 1, Name: 1, Pre: "none"}, {Kind: "close", H: 1, Code: code}, {Kind: "isclosed", H: 1}, {Kind: "look", Name: 1},
				{Kind: "inst", H: 2, Name: 1, Pre: "bin"}, {Kind: "close", H: 1, Code: 5}, {Kind: "look", Name: 1}, {Kind: "isclosed", H: 2}}, cfg, orc)
		}
	}
	// re-entrant close notifiers
	for _, engine := range []string{"interpreter", "compiler"} {
		runSeq(engine, []Op{{Kind: "inst", H: 1, Name: 1, Pre: "none", Reenter: true}, {Kind: "inst", H: 2, Name: 2, Pre: "bin", Reenter: true}, {Kind: "close", H: 1, Code: 4}, {Kind: "look", Name: 1},
			{Kind: "inst", H: 3, Name: 1, Pre: "none", Reenter: true}, {Kind: "close", H: 2, Code: 0}, {Kind: "close", H: 3, Code: 1}, {Kind: "look", Name: 1}, {Kind: "look", Name: 2}}, cfg, orc)
	}
	// resources behind a gap: instances whose descriptor table is sparse, closed one by one and by the runtime
	for _, engine := range []string{"interpreter", "compiler"} {
		runSeq(engine, []Op{{Kind: "inst", H: 1, Name: 1, Pre: "badfs", Sparse: true}, {Kind: "inst", H: 2, Name: 2, Pre: "badfs"}, {Kind: "close", H: 1, Code: 3}, {Kind: "isclosed", H: 1},
			{Kind: "inst", H: 3, Name: 1, Pre: "badfs", Sparse: true}, {Kind: "look", Name: 1}, {Kind: "rtclose", Code: 0}}, cfg, orc)
	}
	peaks := []int{130, 210, 405}
	if hx.Thorough() {
		peaks = append(peaks, 150, 260, 820, 1650)
	}
	for i, pk := range peaks {
		runSeq([]string{"interpreter", "compiler"}[i%2], genSeqScale(r, pk+r.Intn(9)), cfg, orc)
		rep.Count("seq-scale-peak:" + bucket(pk))
	}

	// 3. concurrent histories; checked by a pool of oracles while the next history is recorded
	nconc := 400
	if hx.Thorough() {
		nconc = 6000
	}
	type job struct {
		w *world
		c concCase
	}
	jobs := make(chan job, 64)
	var wg sync.WaitGroup
	for k := 0; k < 5; k++ {
		wg.Add(1)
		go func() {
			defer wg.Done()
			o := hx.StartOracle()
			defer o.Close()
			for j := range jobs {
				checkConc(j.w, j.c, cfg, o, 100000, "random")
			}
			orcMu.Lock()
			extraOracleOps += o.N
			orcMu.Unlock()
		}()
	}
	for i := 0; i < nconc; i++ {
		if unexplained.Load() > 10 {
			rep.Note("concurrent phase stopped after %d histories: more than 10 non-linearizable histories that the model does not explain", i)
			break
		}
		engine := []string{"interpreter", "compiler"}[i%2]
		threads := 2 + r.Intn(7)
		opsPer := 5 + r.Intn(6)
		yield := hooksAvailable && i%3 != 0
		w, c := runConc(engine, r.Int63(), threads, opsPer, yield)
		rep.Count(fmt.Sprintf("conc-threads:%d", threads))
		if i < 2 {
			var tr []string
			for _, h := range c.History {
				tr = append(tr, h.Token())
			}
			rep.Sample(map[string]any{"mode": "concurrent", "engine": engine, "threads": threads, "history": tr})
		}
		jobs <- job{w, c}
	}
	close(jobs)
	wg.Wait()
	orc.N += extraOracleOps
	rep.Write(orc)
}

var unexplained atomic.Int64

var (
	orcMu          sync.Mutex
	extraOracleOps int
)
