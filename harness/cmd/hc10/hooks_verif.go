//go:build verif

package main

import (
	"fmt"
	"os"
	"sync/atomic"
	"time"

	"github.com/tetratelabs/wazero/internal/wasm"
	"github.com/tetratelabs/wazero/verifharness/hx"
)

const hooksAvailable = true

func setYield(f func(tag string, m *wasm.ModuleInstance)) { wasm.SetVerifYield(f) }

// scenario: thread A runs `a` and is paused at schedule point `tag`; meanwhile thread B runs `bs`
// to completion (or until a timeout, if the code makes B wait for A); then A is released.
type scenario struct {
	id     string
	prefix []Op
	a      Op
	tag    string
	bs     []Op
}

func runScenario(engine string, sc scenario) (*world, concCase, bool) {
	w := newWorld(engine)
	rec := &recorder{w: w}
	for _, o := range sc.prefix {
		rec.record(9, o)
	}
	reached := make(chan struct{})
	release := make(chan struct{})
	var armed atomic.Bool
	armed.Store(true)
	setYield(func(tag string, m *wasm.ModuleInstance) {
		if tag == sc.tag && armed.CompareAndSwap(true, false) {
			close(reached)
			<-release
		}
	})
	defer setYield(nil)
	aDone := make(chan struct{})
	go func() { rec.record(0, sc.a); close(aDone) }()
	ok := true
	select {
	case <-reached:
	case <-aDone:
		ok = false
	case <-time.After(10 * time.Second):
		ok = false
	}
	bDone := make(chan struct{})
	go func() {
		for _, o := range sc.bs {
			rec.record(1, o)
		}
		close(bDone)
	}()
	select {
	case <-bDone:
	case <-time.After(500 * time.Millisecond): // B waits for A (a repaired tree may do that)
	}
	armed.Store(false)
	close(release)
	<-aDone
	<-bDone
	setYield(nil)
	hist := rec.finish(10)
	return w, concCase{Engine: engine, Threads: 2, History: hist}, ok
}

// hookReplays forces the model's witness interleavings on the real store and ties the concurrency
// switches of the model to what the tree does.
func hookReplays(cfg *Cfg) {
	inst := Op{Kind: "inst", H: 1, Name: 1, Pre: "none"}
	scs := []scenario{
		{id: "F10-double-close", prefix: []Op{inst}, a: Op{Kind: "close", H: 1, Code: 1}, tag: "close:after-cas",
			bs: []Op{{Kind: "close", H: 1, Code: 2}, {Kind: "look", Name: 1}}},
		{id: "F10-isclosed-then-lookup", prefix: []Op{inst}, a: Op{Kind: "close", H: 1, Code: 1}, tag: "close:after-cas",
			bs: []Op{{Kind: "isclosed", H: 1}, {Kind: "look", Name: 1}}},
		{id: "F10b-compile-then-lookup", prefix: []Op{inst}, a: Op{Kind: "rtclose", Code: 1}, tag: "rtclose:after-cas",
			bs: []Op{{Kind: "comp"}, {Kind: "look", Name: 1}}},
		{id: "F10b-double-runtime-close", prefix: []Op{inst}, a: Op{Kind: "rtclose", Code: 1}, tag: "rtclose:after-cas",
			bs: []Op{{Kind: "rtclose", Code: 2}, {Kind: "isclosed", H: 1}}},
		{id: "F10c-notifier-lost", a: inst, tag: "instantiate:after-register", bs: []Op{{Kind: "rtclose", Code: 3}}},
		// InstantiateModule paused between its failIfClosed read and the registration, while the runtime is
		// closed completely: the registration must refuse (named, anonymous, host and precompiled alike)
		{id: "inst-named-races-rtclose", a: inst, tag: "instantiate:after-failifclosed", bs: []Op{{Kind: "rtclose", Code: 4}}},
		{id: "inst-anon-races-rtclose", a: Op{Kind: "inst", H: 1, Name: 0, Pre: "none"}, tag: "instantiate:after-failifclosed", bs: []Op{{Kind: "rtclose", Code: 4}}},
		{id: "inst-anon-bin-races-rtclose", a: Op{Kind: "inst", H: 1, Name: 0, Pre: "bin"}, tag: "instantiate:after-failifclosed", bs: []Op{{Kind: "rtclose", Code: 4}}},
		{id: "reg-named-races-rtclose", a: inst, tag: "instantiate:before-register", bs: []Op{{Kind: "rtclose", Code: 4}}},
		{id: "reg-anon-races-rtclose", a: Op{Kind: "inst", H: 1, Name: 0, Pre: "none"}, tag: "instantiate:before-register", bs: []Op{{Kind: "rtclose", Code: 4}}},
		{id: "reg-anon-bin-races-rtclose", a: Op{Kind: "inst", H: 1, Name: 0, Pre: "bin"}, tag: "instantiate:before-register", bs: []Op{{Kind: "rtclose", Code: 4}}},
		{id: "reg-host-races-rtclose", a: Op{Kind: "inst", H: 1, Name: 2, Pre: "host"}, tag: "instantiate:before-register", bs: []Op{{Kind: "rtclose", Code: 4}}},
		{id: "reg-races-instantiate-same-name", a: inst, tag: "instantiate:before-register", bs: []Op{{Kind: "inst", H: 2, Name: 1, Pre: "none"}, {Kind: "look", Name: 1}}},
		{id: "inst-races-close-of-owner", prefix: []Op{inst}, a: Op{Kind: "inst", H: 2, Name: 1, Pre: "none"}, tag: "instantiate:after-failifclosed", bs: []Op{{Kind: "close", H: 1, Code: 1}, {Kind: "look", Name: 1}}},
		{id: "F9b-compile-races-close", a: Op{Kind: "comp"}, tag: "compile:after-failifclosed", bs: []Op{{Kind: "rtclose", Code: 0}}},
	}
	type outcome struct{ lin, notified bool }
	res := map[string]outcome{}
	for _, engine := range []string{"interpreter", "compiler"} {
		for _, sc := range scs {
			w, c, reachedOK := runScenario(engine, sc)
			if !reachedOK {
				rep.Violate(hx.Violation{Kind: "correspondence", Signature: "C10:hook-point-not-reached:" + sc.tag,
					What: "schedule point " + sc.tag + " was not reached by " + sc.a.Token() + " (the code path modelled by the atomic actions changed)", Input: c})
				continue
			}
			lin := checkConc(w, c, *cfg, orc, 300000, "hook-replay:"+sc.id)
			if os.Getenv("HC10_DEBUG") != "" {
				for _, h := range c.History {
					fmt.Fprintf(os.Stderr, "DEBUG %s %s t=%d inv=%d resp=%d %s -> %s\n", engine, sc.id, h.Thread, h.Inv, h.Resp, h.Op.Token(), h.Res)
				}
			}
			notes, _, _ := w.effects(1)
			rep.Count(fmt.Sprintf("hook-replay:%s:linearizable=%v:notified=%d", sc.id, lin, len(notes)))
			o := res[sc.id]
			if engine == "interpreter" {
				o = outcome{lin, len(notes) == 1}
			} else if o.lin != lin || o.notified != (len(notes) == 1) {
				rep.Violate(hx.Violation{Kind: "correspondence", Signature: "C10:engines-disagree-on-hook-replay:" + sc.id, What: "hook replay behaves differently on the two engines", Input: c})
			}
			res[sc.id] = o
		}
	}
	cfg.AtomicClose = res["F10-double-close"].lin && res["F10-isclosed-then-lookup"].lin
	cfg.AtomicRt = res["F10b-compile-then-lookup"].lin && res["F10b-double-runtime-close"].lin
	cfg.NotifierAtReg = res["F10c-notifier-lost"].notified
}
