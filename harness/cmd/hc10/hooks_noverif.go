//go:build !verif

package main

import "github.com/tetratelabs/wazero/internal/wasm"

const hooksAvailable = false

func setYield(f func(tag string, m *wasm.ModuleInstance)) {}

func hookReplays(cfg *Cfg) {}
