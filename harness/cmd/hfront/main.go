// hfront: tie of the Lean model of wazevo's front end on straight-line integer code (Wz.Model.FrontendSL, oracle
// topic `c01front`) to the real front end (internal/engine/wazevo/frontend: Compiler.LowerToSSA).
//
// Functions of the fragment (params/results/locals of type i32/i64; constants, local.get/set/tee, drop, select,
// the integer binary operators, comparisons, eqz, clz/ctz/popcnt, wrap/extend, the trapping divisions, `return`
// with dead code behind it) are generated type-correctly (gen.go), rendered as the oracle's text AND encoded as a
// real Wasm module, which the REAL decoder and validator must accept.  The REAL front end compiles the function
// in-process (the recipe of frontend_test.go: TestCompiler_LowerToSSA) and
//
//  1. the text of ssaBuilder.Format() must be string-equal, line by line and without any renumbering of values,
//     to the answer of `c01front lower` (C01:front-model-differs); `c01front wt` and `c01front wf` must answer 1;
//  2. the REAL Format() text is converted to the token syntax of `c01ssa` and run by the Lean SSA semantics
//     (`c01front runssa`) on several argument vectors: the outcome must be the outcome of the reference semantics
//     of the Wasm function (`c01front run`: spec), which must also equal the model's lowering and its optimised
//     form (ssa, opt); the same on the text after the REAL builder.RunPasses().  The converted REAL output must
//     also pass `c01ssa wf` (the Lean `run` reads an undefined value as 0, so a missing definition would not show
//     in the outcomes).
//
// The four narrow sign extensions i32.extend8_s, i32.extend16_s, i64.extend8_s, i64.extend16_s (`SExtend x, 8->32`
// …) are outside the SSA pass model.  A function that contains one (in live or dead code) is checked against the
// EXTENDED model, oracle topic `c01frontx` (Wz.Model.FrontendSLX): `c01frontx lower` == Format(), `c01frontx wt`,
// `c01frontx run` (spec == ssa) and `c01frontx runssa` on the converted REAL text before and after the REAL RunPasses
// (`sext:<r>:<from>:<ty>:<x>` tokens); there is no wf / opt for those, only the harness's own check that every use
// has a definition.  For every other function everything above is done with `c01front`, and on a sample
// `c01frontx lower` must equal `c01front lower` (C01:front-ext-model-not-conservative).
//
// Replay: -replay FILE with {"fn": "<function text>"[, "args": ["<hex,…|->", …]]} or a report whose first violation
// has such an input.  -mutate N perturbs the REAL side before the comparisons (self-test that they are live).
package main

import (
	"bytes"
	"encoding/json"
	"flag"
	"fmt"
	"os"
	"runtime"
	"sort"
	"strconv"
	"strings"
	"sync"
	"time"

	"github.com/tetratelabs/wazero/api"
	"github.com/tetratelabs/wazero/internal/engine/wazevo/frontend"
	"github.com/tetratelabs/wazero/internal/engine/wazevo/ssa"
	"github.com/tetratelabs/wazero/internal/engine/wazevo/wazevoapi"
	"github.com/tetratelabs/wazero/internal/testing/binaryencoding"
	"github.com/tetratelabs/wazero/internal/wasm"
	"github.com/tetratelabs/wazero/internal/wasm/binary"
	"github.com/tetratelabs/wazero/verifharness/hx"
)

var (
	rep     *hx.Report
	mutate  = flag.Int("mutate", 0, "self-test: perturb the REAL output before comparing (1 swap Isub operands, 2 Jump blk_ret -> Return, 3 change an Iconst, 4 drop the locals' zero constant, 5 first SExtend: 8->N becomes 16->N)")
	wfEvery = flag.Int("wfevery", 0, "ask `c01front wf` for every N-th function (0 = tier default)")
)

const features = api.CoreFeaturesV2

// ---------------------------------------------------------------- the real side

// decodeValidate: the module through wazero's test encoder, the REAL decoder and the REAL validator
func decodeValidate(f *fnDef) (*wasm.Module, error) {
	src := f.module()
	bin := binaryencoding.EncodeModule(src)
	m, err := binary.DecodeModule(bin, features, wasm.MemoryLimitPages, false, false, false)
	if err != nil {
		return nil, fmt.Errorf("decode: %w", err)
	}
	if err = m.Validate(features); err != nil {
		return nil, fmt.Errorf("validate: %w", err)
	}
	if len(m.CodeSection) != 1 || !bytes.Equal(m.CodeSection[0].Body, src.CodeSection[0].Body) ||
		!bytes.Equal(m.CodeSection[0].LocalTypes, src.CodeSection[0].LocalTypes) {
		hx.Fatal("the decoded module is not the encoded one: %s", f.text())
	}
	m.BuildMemoryDefinitions()
	return m, nil
}

// lowerReal runs the REAL front end on function 0 of the module (frontend_test.go: TestCompiler_LowerToSSA)
func lowerReal(m *wasm.Module) (b ssa.Builder, text string, panicked any) {
	defer func() {
		if r := recover(); r != nil {
			panicked = r
		}
	}()
	b = ssa.NewBuilder()
	offset := wazevoapi.NewModuleContextOffsetData(m, false)
	fc := frontend.NewFrontendCompiler(m, b, &offset, false, false, false)
	typeIndex := m.FunctionSection[0]
	code := &m.CodeSection[0]
	fc.Init(0, typeIndex, &m.TypeSection[typeIndex], code.LocalTypes, code.Body, false, 0)
	fc.LowerToSSA()
	text = b.Format()
	return
}

func runPassesReal(b ssa.Builder) (text string, panicked any) {
	defer func() {
		if r := recover(); r != nil {
			panicked = r
		}
	}()
	b.RunPasses()
	text = b.Format()
	return
}

// canonLines: the lines of Format() trimmed, empty lines dropped
func canonLines(text string) []string {
	var out []string
	for _, l := range strings.Split(text, "\n") {
		if l = strings.TrimSpace(l); l != "" {
			out = append(out, l)
		}
	}
	return out
}

// ---------------------------------------------------------------- Format() text -> c01ssa tokens

type unmodelled struct{ what string }

func (u *unmodelled) Error() string { return u.what }

func valID(s string) (int, error) {
	switch s {
	case "exec_ctx":
		return 0, nil
	case "module_ctx":
		return 1, nil
	}
	if len(s) > 1 && s[0] == 'v' {
		if n, err := strconv.Atoi(s[1:]); err == nil && n >= 0 {
			return n, nil
		}
	}
	return 0, fmt.Errorf("value %q", s)
}

func typedVal(s string) (int, string, error) {
	name, ty, ok := strings.Cut(s, ":")
	if !ok || (ty != "i32" && ty != "i64") {
		return 0, "", fmt.Errorf("typed value %q", s)
	}
	id, err := valID(name)
	return id, ty, err
}

var ssaBin = map[string]string{"Iadd": "iadd", "Isub": "isub", "Imul": "imul", "Band": "band", "Bor": "bor", "Bxor": "bxor",
	"Ishl": "ishl", "Ushr": "ushr", "Sshr": "sshr", "Rotl": "rotl", "Rotr": "rotr"}
var ssaUn = map[string]string{"Clz": "clz", "Ctz": "ctz", "Popcnt": "popcnt", "Ireduce": "ireduce"}
var ssaDiv = map[string]string{"Sdiv": "sdiv", "Udiv": "udiv", "Srem": "srem", "Urem": "urem"}
var ssaCond = map[string]bool{"eq": true, "neq": true, "lt_s": true, "ge_s": true, "gt_s": true, "le_s": true,
	"lt_u": true, "ge_u": true, "gt_u": true, "le_u": true}

// toTokens converts the canonical lines of a one-block Format() text into the token syntax of `c01ssa` (plus
// `sext:<r>:<from>:<ty>:<x>` of `c01frontx` for `SExtend x, 8->32` etc.).  undef names the first use of a value that
// no parameter or earlier instruction defines ("" when there is none).
func toTokens(lines []string) (toks string, undef string, err error) {
	toks, err = toTokens2(lines, &undef)
	return
}

func toTokens2(lines []string, undef *string) (string, error) {
	if len(lines) == 0 {
		return "", fmt.Errorf("no lines")
	}
	hdr := lines[0]
	if !strings.HasPrefix(hdr, "blk0: (") {
		return "", fmt.Errorf("header %q", hdr)
	}
	rest := hdr[len("blk0: ("):]
	k := strings.IndexByte(rest, ')')
	if k < 0 || (rest[k+1:] != "" && !strings.HasPrefix(rest[k+1:], " <-- ")) {
		return "", fmt.Errorf("header %q", hdr)
	}
	types := map[int]string{}
	out := []string{"B0:0"}
	if inner := rest[:k]; inner != "" {
		for _, p := range strings.Split(inner, ",") {
			id, ty, err := typedVal(strings.TrimSpace(p))
			if err != nil {
				return "", err
			}
			types[id] = ty
			out = append(out, fmt.Sprintf("P%d:%s", id, ty))
		}
	}
	ids := func(ss []string) ([]int, error) {
		r := make([]int, len(ss))
		for k, s := range ss {
			v, err := valID(s)
			if err != nil {
				return nil, err
			}
			if _, ok := types[v]; !ok && *undef == "" {
				*undef = s
			}
			r[k] = v
		}
		return r, nil
	}
	for _, l := range lines[1:] {
		bad := fmt.Errorf("line %q", l)
		lhs, rhs, hasDef := strings.Cut(l, " = ")
		if !hasDef {
			rhs = l
		}
		op, argText, _ := strings.Cut(rhs, " ")
		var args []string
		if argText != "" {
			args = strings.Split(argText, ", ")
		}
		if !hasDef {
			switch {
			case op == "Jump" && len(args) >= 1 && args[0] == "blk_ret":
				args = args[1:]
			case op == "Return":
			default:
				return "", bad
			}
			vs, err := ids(args)
			if err != nil {
				return "", err
			}
			if len(vs) == 0 {
				out = append(out, "ret:-")
			} else {
				s := make([]string, len(vs))
				for k, v := range vs {
					s[k] = strconv.Itoa(v)
				}
				out = append(out, "ret:"+strings.Join(s, ","))
			}
			continue
		}
		r, ty, err := typedVal(lhs)
		if err != nil {
			return "", err
		}
		types[r] = ty
		switch {
		case op == "Iconst_32" || op == "Iconst_64":
			if len(args) != 1 || !strings.HasPrefix(args[0], "0x") || (op == "Iconst_32") != (ty == "i32") {
				return "", bad
			}
			c, err := strconv.ParseUint(args[0][2:], 16, 64)
			if err != nil || (ty == "i32" && c > 0xffffffff) {
				return "", bad
			}
			out = append(out, fmt.Sprintf("iconst:%d:%s:%d", r, ty, c))
		case ssaBin[op] != "" && len(args) == 2:
			v, err := ids(args)
			if err != nil {
				return "", err
			}
			out = append(out, fmt.Sprintf("%s:%d:%s:%d:%d", ssaBin[op], r, ty, v[0], v[1]))
		case op == "Icmp" && len(args) == 3 && ssaCond[args[0]]:
			v, err := ids(args[1:])
			if err != nil {
				return "", err
			}
			oty, ok := types[v[0]]
			if !ok {
				return "", fmt.Errorf("line %q: operand without a definition", l)
			}
			out = append(out, fmt.Sprintf("icmp:%d:%s:%s:%d:%d", r, oty, args[0], v[0], v[1]))
		case op == "Select" && len(args) == 3:
			v, err := ids(args)
			if err != nil {
				return "", err
			}
			out = append(out, fmt.Sprintf("select:%d:%s:%d:%d:%d", r, ty, v[0], v[1], v[2]))
		case ssaUn[op] != "" && len(args) == 1:
			v, err := ids(args)
			if err != nil {
				return "", err
			}
			out = append(out, fmt.Sprintf("%s:%d:%s:%d", ssaUn[op], r, ty, v[0]))
		case (op == "SExtend" || op == "UExtend") && len(args) == 2:
			v, err := ids(args[:1])
			if err != nil {
				return "", err
			}
			switch {
			case args[1] == "32->64" && ty == "i64":
				out = append(out, fmt.Sprintf("%s:%d:i64:%d", strings.ToLower(op), r, v[0]))
			case op == "SExtend" && (args[1] == "8->32" || args[1] == "16->32") && ty == "i32",
				op == "SExtend" && (args[1] == "8->64" || args[1] == "16->64") && ty == "i64":
				from, _, _ := strings.Cut(args[1], "->")
				out = append(out, fmt.Sprintf("sext:%d:%s:%s:%d", r, from, ty, v[0]))
			default:
				return "", &unmodelled{l}
			}
		case ssaDiv[op] != "" && len(args) == 2:
			v, err := ids(args)
			if err != nil {
				return "", err
			}
			// the execution context operand is not printed by Format(): it is value 0
			out = append(out, fmt.Sprintf("%s:%d:%s:%d:%d:0", ssaDiv[op], r, ty, v[0], v[1]))
		default:
			return "", bad
		}
	}
	return strings.Join(out, " "), nil
}

// ---------------------------------------------------------------- -mutate: perturb the real side

func mutateLines(lines []string, f *fnDef) ([]string, bool) {
	out := append([]string(nil), lines...)
	switch *mutate {
	case 1:
		for k, l := range out {
			if lhs, rhs, ok := strings.Cut(l, " = Isub "); ok {
				if a, b, ok := strings.Cut(rhs, ", "); ok && a != b {
					out[k] = lhs + " = Isub " + b + ", " + a
					return out, true
				}
			}
		}
	case 2:
		for k, l := range out {
			if l == "Jump blk_ret" {
				out[k] = "Return"
				return out, true
			}
			if strings.HasPrefix(l, "Jump blk_ret, ") {
				out[k] = "Return " + l[len("Jump blk_ret, "):]
				return out, true
			}
		}
	case 3:
		for k, l := range out {
			if i := strings.Index(l, " = Iconst_"); i >= 0 {
				j := strings.LastIndex(l, "0x")
				c, err := strconv.ParseUint(l[j+2:], 16, 64)
				if err != nil {
					continue
				}
				out[k] = l[:j] + "0x" + strconv.FormatUint(c^1, 16)
				return out, true
			}
		}
	case 4:
		if len(f.locals) > 0 && len(out) > 1 && strings.Contains(out[1], " = Iconst_") && strings.HasSuffix(out[1], " 0x0") {
			return append(out[:1], out[2:]...), true
		}
	case 5:
		for k, l := range out {
			if !strings.Contains(l, " = SExtend ") {
				continue
			}
			for _, to := range []string{"32", "64"} {
				if strings.HasSuffix(l, ", 8->"+to) {
					out[k] = strings.TrimSuffix(l, "8->"+to) + "16->" + to
					return out, true
				}
			}
			return out, false // the first SExtend line is not from 8 bits
		}
	}
	return out, false
}

// ---------------------------------------------------------------- the check of one function

type input struct {
	Fn   string   `json:"fn"`
	Args []string `json:"args,omitempty"`
}

type job struct {
	f       *fnDef
	args    [][]uint64
	hand    bool
	index   int
	verbose bool
}

type worker struct {
	orc     *hx.Oracle
	askTime map[string]float64
}

func (w *worker) ask(line string) string {
	t0 := time.Now()
	a := w.orc.Ask(line)
	fs := strings.Fields(line)
	w.askTime[fs[0]+" "+fs[1]] += time.Since(t0).Seconds()
	return a
}

func argsText(as []uint64) string {
	if len(as) == 0 {
		return "-"
	}
	s := make([]string, len(as))
	for k, a := range as {
		s[k] = strconv.FormatUint(a, 16)
	}
	return strings.Join(s, ",")
}

func firstDiff(a, b []string) int {
	for k := 0; k < len(a) || k < len(b); k++ {
		if k >= len(a) || k >= len(b) || a[k] != b[k] {
			return k
		}
	}
	return -1
}

var handRejected int
var handMu sync.Mutex

func (w *worker) check(j *job) {
	f := j.f
	text := f.text()
	allArgs := make([]string, len(j.args))
	for k, a := range j.args {
		allArgs[k] = argsText(a)
	}
	in := input{Fn: text, Args: allArgs}
	violate := func(kind, sig, what string, exp, act any) {
		rep.Violate(hx.Violation{Kind: kind, Signature: sig, What: what, Input: in, Expected: exp, Actual: act})
		if j.verbose {
			fmt.Printf("VIOLATION %s: %s\n  expected: %v\n  actual:   %v\n", sig, what, exp, act)
		}
	}

	m, err := decodeValidate(f)
	if err != nil {
		rep.Count("gen:rejected-by-validator")
		if j.hand || j.verbose {
			fmt.Fprintf(os.Stderr, "rejected by the real validator: %s\n  %v\n", text, err)
		}
		if j.hand {
			handMu.Lock()
			handRejected++
			handMu.Unlock()
		}
		return
	}
	rep.Case(text)
	countFn(f)
	// a function with a narrow sign extension is checked against the EXTENDED model (topic c01frontx: no pass
	// model, no wellFormed there); every other function against c01front as before
	ext := f.hasNarrow()
	topic := "c01front"
	if ext {
		topic = "c01frontx"
		rep.Count("ext:functions")
	}
	if j.verbose {
		fmt.Println("function:", text)
		fmt.Printf("body bytes: % x\n", m.CodeSection[0].Body)
	}

	// ---- the real front end
	b, realText, p := lowerReal(m)
	if p != nil {
		violate("correspondence", "C01:front-end-panics", fmt.Sprintf("the real front end panics on a function the real validator accepts: %v", p), "no panic", fmt.Sprint(p))
		return
	}
	realLines := canonLines(realText)
	if *mutate != 0 {
		var done bool
		if realLines, done = mutateLines(realLines, f); done {
			rep.Count("mutate:applied")
		}
	}
	realCanon := strings.Join(realLines, " | ")

	// ---- 1. correspondence of the text
	model := w.ask(topic + " lower " + text)
	if j.verbose {
		fmt.Println("real :", realCanon)
		fmt.Println("model:", model)
	}
	textEqual := model == realCanon
	if !textEqual {
		k := firstDiff(strings.Split(model, " | "), realLines)
		violate("correspondence", "C01:front-model-differs",
			fmt.Sprintf("Format() of the real front end and `%s lower` differ, first at line %d", topic, k), model, realCanon)
	} else {
		rep.Count("text:equal")
		if ext {
			rep.Count("ext:text-equal")
		}
	}
	if a := w.ask(topic + " wt " + text); a != "1" {
		violate("correspondence", "C01:front-wellTyped-rejects-valid", "the model's wellTyped rejects a function the real validator accepts", "1", a)
	}
	every := *wfEvery
	if every == 0 {
		every = 1
		if hx.Thorough() {
			every = 10
		}
	}
	sampled := j.hand || j.index%every == 0
	wfAsked := sampled && !ext
	if sampled && !ext {
		// the extended model is conservative: on a function without the new instructions it is the base model
		rep.Count("ext:conservativity-asked")
		if a := w.ask("c01frontx lower " + text); a != model {
			violate("correspondence", "C01:front-ext-model-not-conservative",
				"`c01frontx lower` and `c01front lower` differ on a function without narrow sign extensions", model, a)
		}
	}
	if wfAsked {
		rep.Count("wf:asked")
		if a := w.ask("c01front wf " + text); a != "1" {
			violate("correspondence", "C01:front-output-not-wellFormed", "SsaPass.wellFormed rejects the model's lowering of a valid function", "1", a)
		}
	}

	// ---- 2. semantics of the REAL output
	realTok, realUndef, err := toTokens(realLines)
	if err != nil {
		if _, ok := err.(*unmodelled); ok {
			rep.Count("real:unmodelled-extend")
		} else {
			rep.Count("real:unconvertible")
			if textEqual {
				hx.Fatal("the real output equals the model's but cannot be converted: %v\n%s", err, realCanon)
			}
		}
		if j.verbose {
			fmt.Println("real output not convertible:", err)
		}
		realTok = ""
	}
	nz := 0
	for _, l := range realLines[1:] {
		if !(strings.Contains(l, " = Iconst_") && strings.HasSuffix(l, " 0x0")) || nz >= 2 {
			break
		}
		nz++
	}
	nzWant := distinctTypes(f.locals)
	if nz > nzWant {
		nz = nzWant // a body that starts with a zero constant
	}
	rep.Count(fmt.Sprintf("real:zero-constants-for-locals:%d", nz))

	optTok := ""
	optText, p := runPassesReal(b)
	if p != nil {
		violate("correspondence", "C01:front-runpasses-panics", fmt.Sprintf("the real RunPasses panics on the front end's output: %v", p), "no panic", fmt.Sprint(p))
	} else {
		optLines := canonLines(optText)
		t, optUndef, err := toTokens(optLines)
		if err == nil && !ext && strings.Contains(t, " sext:") {
			err = &unmodelled{"SExtend from 8/16 bits in a function without a narrow sign extension"}
		}
		if err != nil {
			rep.Count("real:opt-unconvertible")
			if j.verbose {
				fmt.Println("real output after RunPasses not convertible:", err)
			}
		} else {
			optTok = t
			rep.Count("real:opt-converted")
			if optUndef != "" {
				violate("impl-violation", "C01:front-real-optimized-output-not-wellFormed",
					"the REAL front end's output after the REAL RunPasses uses "+optUndef+", which nothing defines: "+t, "every use has a definition", optUndef)
			}
			for k := len(optLines); k < len(realLines); k++ {
				rep.Count("real:opt-removed-instruction")
			}
		}
		if j.verbose {
			fmt.Println("real after RunPasses:", strings.Join(optLines, " | "))
		}
	}
	if j.verbose {
		fmt.Println("real tokens:", realTok)
		fmt.Println("opt  tokens:", optTok)
	}

	// `runssa` reads a value without a definition as 0: the semantic comparison below means something only on
	// well-formed SSA, so the REAL output itself must pass the SSA model's wellFormed
	if realTok != "" && !ext && strings.Contains(realTok, " sext:") {
		rep.Count("real:unmodelled-extend") // must not happen: a narrow SExtend without a narrow instruction in the source
		realTok = ""
	}
	if realTok != "" && realUndef != "" && ext {
		// for the functions of the extended model this is the only well-formedness check (c01ssa has no `sext`);
		// for the others `c01ssa wf` below says the same and more
		violate("impl-violation", "C01:front-real-output-not-wellFormed",
			"the REAL front end's output uses "+realUndef+", which nothing defines: "+realTok, "every use has a definition", realUndef)
	}
	if realTok != "" && !ext {
		if a := w.ask("c01ssa wf " + realTok); a != "1" {
			violate("impl-violation", "C01:front-real-output-not-wellFormed",
				"SsaPass.wellFormed rejects the REAL front end's output (a use without a definition, a type mismatch, …): "+realTok, "1", a)
		}
	}
	if optTok != "" && wfAsked {
		if a := w.ask("c01ssa wf " + optTok); a != "1" {
			violate("impl-violation", "C01:front-real-optimized-output-not-wellFormed",
				"SsaPass.wellFormed rejects the REAL front end's output after the REAL RunPasses: "+optTok, "1", a)
		}
	}

	for _, av := range allArgs {
		ans := w.ask(fmt.Sprintf("%s run %s %s %s %s %s", topic, tysText(f.params), tysText(f.results), tysText(f.locals), av,
			strings.Join(strings.Fields(text)[3:], " ")))
		parts := strings.Fields(ans)
		var spec, mssa, mopt string
		switch {
		case !ext && len(parts) == 3 && strings.HasPrefix(parts[0], "spec=") && strings.HasPrefix(parts[1], "ssa=") && strings.HasPrefix(parts[2], "opt="):
			spec, mssa, mopt = parts[0][5:], parts[1][4:], parts[2][4:]
		case ext && len(parts) == 2 && strings.HasPrefix(parts[0], "spec=") && strings.HasPrefix(parts[1], "ssa="):
			spec, mssa = parts[0][5:], parts[1][4:]
			mopt = spec // the extended model has no passes
		default:
			hx.Fatal("%s run answered %q", topic, ans)
		}
		outcome := "out:" + spec
		if strings.HasPrefix(spec, "ok:") {
			outcome = "out:values"
		}
		rep.Count(outcome)
		if ext {
			rep.Count("ext:" + outcome)
		}
		if j.verbose {
			fmt.Printf("args %s: %s\n", av, ans)
		}
		if spec != mssa || spec != mopt {
			violate("correspondence", "C01:front-model-semantics-differs",
				"the reference semantics and the Lean semantics of the MODEL's lowering (plain / after the model's passes) differ on args "+av, "spec="+spec, ans)
		}
		if realTok != "" {
			o := w.ask(topic + " runssa " + av + " " + realTok)
			if j.verbose {
				fmt.Printf("args %s: real ssa: %s\n", av, o)
			}
			if o != spec {
				violate("impl-violation", "C01:front-real-ssa-differs-from-spec",
					"the Lean SSA semantics of the REAL front end's output differs from the reference semantics of the Wasm function on args "+av+"; real output: "+realCanon, spec, o)
			}
		}
		if optTok != "" {
			o := w.ask(topic + " runssa " + av + " " + optTok)
			if j.verbose {
				fmt.Printf("args %s: real ssa after RunPasses: %s\n", av, o)
			}
			if o != spec {
				violate("impl-violation", "C01:front-real-optimized-ssa-differs-from-spec",
					"the Lean SSA semantics of the REAL front end's output after the REAL RunPasses differs from the reference semantics on args "+av+"; tokens: "+optTok, spec, o)
			}
		}
	}
}

func distinctTypes(ts []vt) int {
	seen := [2]bool{}
	n := 0
	for _, t := range ts {
		if !seen[t] {
			seen[t] = true
			n++
		}
	}
	return n
}

// ---------------------------------------------------------------- distribution

func countFn(f *fnDef) {
	ri := f.retIndex()
	for k, i := range f.body {
		if ri >= 0 && k > ri {
			rep.Count("dead:" + i.name)
		} else {
			rep.Count("in:" + i.name)
		}
		if (i.name == "i32.const" || i.name == "i64.const") && i.imm == 0 && (ri < 0 || k < ri) {
			rep.Count("in:zero-constant")
		}
	}
	if ri >= 0 {
		rep.Count("fn:explicit-return")
		if ri < len(f.body)-1 {
			rep.Count("fn:dead-code-after-return")
		}
	}
	if f.uninitReads > 0 {
		rep.Count("fn:reads-uninitialised-local")
	}
	if f.hasNarrow() {
		rep.Count("fn:has-narrow-extend")
		live := false
		for k, i := range f.body {
			live = live || (narrowExt[i.name] && (ri < 0 || k < ri))
		}
		if live {
			rep.Count("fn:has-live-narrow-extend")
		}
	}
	for k := 0; k < f.uninitReads; k++ {
		rep.Count("in:local.get-of-uninitialised-local")
	}
	switch {
	case len(f.locals) == 0:
		rep.Count("locals:none")
	case distinctTypes(f.locals) == 2:
		rep.Count("locals:both-types")
	case f.locals[0] == tI32:
		rep.Count("locals:only-i32")
	default:
		rep.Count("locals:only-i64")
	}
	rep.Count(fmt.Sprintf("params:%d", len(f.params)))
	rep.Count(fmt.Sprintf("results:%d", len(f.results)))
	rep.Count(fmt.Sprintf("body-length:%02d+", len(f.body)/10*10))
}

// uninitReadsOf recomputes the statistic for parsed (corpus / replay) functions
func uninitReadsOf(f *fnDef) int {
	init := map[uint64]bool{}
	n := 0
	for _, i := range f.body {
		switch i.name {
		case "return":
			return n
		case "local.set", "local.tee":
			init[i.imm] = true
		case "local.get":
			if int(i.imm) >= len(f.params) && !init[i.imm] {
				n++
			}
		}
	}
	return n
}

// ---------------------------------------------------------------- main

var boundary = []uint64{0, 1, ^uint64(0), 1 << 63, 1<<63 - 1}

func boundaryOf(t vt, k int) uint64 {
	switch k {
	case 3:
		return 1 << (t.bits() - 1)
	case 4:
		return 1<<(t.bits()-1) - 1
	}
	return boundary[k] & t.mask()
}

// handArgs: every combination of 0, 1, -1, min, max for up to two parameters, else the three generated vectors
func handArgs(f *fnDef, gen func() []uint64) [][]uint64 {
	switch len(f.params) {
	case 0:
		return [][]uint64{nil}
	case 1:
		var out [][]uint64
		for a := 0; a < 5; a++ {
			out = append(out, []uint64{boundaryOf(f.params[0], a)})
		}
		return append(out, gen())
	case 2:
		var out [][]uint64
		for a := 0; a < 5; a++ {
			for b := 0; b < 5; b++ {
				out = append(out, []uint64{boundaryOf(f.params[0], a), boundaryOf(f.params[1], b)})
			}
		}
		return append(out, gen())
	}
	return [][]uint64{gen(), gen(), gen(), gen(), gen(), gen()}
}

func parseArgs(s string, ps []vt) ([]uint64, error) {
	if s == "-" {
		if len(ps) != 0 {
			return nil, fmt.Errorf("args %q for %d parameters", s, len(ps))
		}
		return nil, nil
	}
	parts := strings.Split(s, ",")
	if len(parts) != len(ps) {
		return nil, fmt.Errorf("args %q for %d parameters", s, len(ps))
	}
	out := make([]uint64, len(parts))
	for k, p := range parts {
		v, err := strconv.ParseUint(p, 16, 64)
		if err != nil || v&^ps[k].mask() != 0 {
			return nil, fmt.Errorf("argument %q", p)
		}
		out[k] = v
	}
	return out, nil
}

func replayFile(path string) {
	raw, err := os.ReadFile(path)
	if err != nil {
		hx.Fatal("%v", err)
	}
	var in input
	json.Unmarshal(raw, &in)
	if in.Fn == "" {
		var full struct {
			Violations []struct {
				Input input `json:"input"`
			} `json:"violations"`
		}
		json.Unmarshal(raw, &full)
		if len(full.Violations) > 0 {
			in = full.Violations[0].Input
		}
	}
	if in.Fn == "" {
		hx.Fatal("replay: no function text in %s", path)
	}
	f, err := parseFnText(in.Fn)
	if err != nil {
		hx.Fatal("replay: %v", err)
	}
	f.uninitReads = uninitReadsOf(f)
	r := hx.Rand()
	var args [][]uint64
	for _, a := range in.Args {
		v, err := parseArgs(a, f.params)
		if err != nil {
			hx.Fatal("replay: %v", err)
		}
		args = append(args, v)
	}
	if len(args) == 0 {
		args = handArgs(f, func() []uint64 { return genArgs(r, f.params) })
	}
	w := &worker{orc: hx.StartOracle(), askTime: map[string]float64{}}
	defer w.orc.Close()
	w.check(&job{f: f, args: args, hand: true, verbose: true})
	rep.Write(w.orc)
}

func finish(code int) {
	if handRejected > 0 {
		hx.Fatal("%d hand-written cases are rejected by the real validator (generator bug)", handRejected)
	}
	if len(rep.Violations) > 0 {
		code = 1
	}
	os.Exit(code)
}

func main() {
	n := flag.Int("n", 0, "number of generated functions (0 = tier default)")
	dump := flag.Bool("dump", false, "print every generated function")
	nworkers := flag.Int("workers", 0, "worker goroutines, one oracle process each (0 = min(8, GOMAXPROCS))")
	flag.Parse()
	if err := checkOpcodeTable(); err != nil {
		hx.Fatal("%v", err)
	}
	rep = hx.NewReport("C01", "front-end tie: functions of the straight-line integer fragment (0..4 params, 0..3 results, 0..4 locals of i32/i64: none / one type only / both; bodies of 0..40 generated instructions kept type-correct on a type stack: boundary-heavy constants, local.get/set/tee with reads of uninitialised locals, drop, select, add..rotr, comparisons, eqz, clz/ctz/popcnt, wrap/extend incl. the narrow sign extensions extend8_s/extend16_s, div/rem with divisors 0 and -1 and dividend min made likely; explicit `return` in 1/4 of them, with or without dead code; fix-up to the result types) plus a hand-written and a systematic corpus (every operator at each type); each is encoded as a real module, accepted by the REAL decoder+validator, lowered by the REAL frontend.Compiler.LowerToSSA; Format() == `c01front lower` line by line without renumbering; wt / wf accept; Lean SSA semantics of the REAL output (before and after the REAL RunPasses) == reference semantics == model's lowering (plain / optimised) on 3 boundary-heavy argument vectors (corpus: all pairs of 0,1,-1,min,max); functions with a narrow sign extension (counter ext:functions; corpus: each on boundary constants around 2^7, 2^8, 2^15, 2^16, with junk above) go to the extended model `c01frontx` (lower / wt / run spec == ssa / runssa on the real text before and after the real RunPasses; no wf, no opt), the others to `c01front` and, on a sample, `c01frontx lower` == `c01front lower`; distinct = distinct function texts")
	if *mutate != 0 {
		rep.Note("SELF-TEST: -mutate %d perturbs the real output; violations are expected", *mutate)
	}
	if *hx.Replay != "" {
		replayFile(*hx.Replay)
		finish(0)
	}

	nw := *nworkers
	if nw <= 0 {
		nw = min(8, runtime.GOMAXPROCS(0))
	}
	jobs := make(chan *job, 4*nw)
	workers := make([]*worker, nw)
	var wg sync.WaitGroup
	for k := range workers {
		w := &worker{orc: hx.StartOracle(), askTime: map[string]float64{}}
		workers[k] = w
		wg.Add(1)
		go func() {
			defer wg.Done()
			for j := range jobs {
				w.check(j)
			}
		}()
	}

	r := hx.Rand()
	idx := 0
	for _, c := range append(append([]string{}, handWritten...), systematic()...) {
		f, err := parseFnText(c)
		if err != nil {
			hx.Fatal("corpus %q: %v", c, err)
		}
		f.uninitReads = uninitReadsOf(f)
		rep.Count("corpus")
		jobs <- &job{f: f, args: handArgs(f, func() []uint64 { return genArgs(r, f.params) }), hand: true, index: idx}
		idx++
	}
	total := 4000
	if hx.Thorough() {
		total = 300000
	}
	if *n > 0 {
		total = *n
	}
	for k := 0; k < total; k++ {
		f := genFn(r)
		if *dump {
			fmt.Println(f.text())
		}
		if k < 6 {
			rep.Sample(f.text())
		}
		jobs <- &job{f: f, args: [][]uint64{genArgs(r, f.params), genArgs(r, f.params), genArgs(r, f.params)}, index: idx}
		idx++
	}
	close(jobs)
	wg.Wait()

	sum := &hx.Oracle{}
	times := map[string]float64{}
	for _, w := range workers {
		sum.N += w.orc.N
		for k, v := range w.askTime {
			times[k] += v
		}
		w.orc.Close()
	}
	keys := make([]string, 0, len(times))
	for k := range times {
		keys = append(keys, k)
	}
	sort.Strings(keys)
	for _, k := range keys {
		rep.Note("oracle time %s: %.1fs (summed over %d workers)", k, times[k], nw)
	}
	rep.Write(sum)
	finish(0)
}
