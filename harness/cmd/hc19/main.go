// hc19: correspondence + monitor harness for C19 (configuration values are immutable).
//
// A case is a derivation tree: roots New…Config() of every configuration kind, then a random sequence of
// steps, each picking ANY earlier node as receiver and calling ANY of its `With…` methods (enumerated by
// reflection, so a new method is exercised without editing this file) with arguments from pools that
// straddle slice capacities, or instantiating a module configuration (with/without a sock.Config in the
// context).
//
// Tie C (monitor, the property's own predicate on the real code): a deep reflective snapshot (scalars,
// slice contents, sorted maps, the content of referenced FS configurations) of EVERY earlier node is
// compared with its snapshot at creation after every step; what a guest sees (args, environ, preopens)
// when instantiated with a node is compared at creation and at the end of the tree; trees are also
// derived concurrently from shared base nodes by several goroutines and compared with the sequential run.
// Tie B (correspondence): the same steps are sent to the Lean oracle (topic c19), which runs the heap
// model over the effect table regenerated from the source; after every step the canonical dump of all
// nodes (values, len/cap, and the partition of backing arrays/maps into alias classes) must be equal,
// and the guest-visible args/environ must equal the model's.
package main

import (
	"bytes"
	"context"
	"encoding/json"
	"flag"
	"fmt"
	"io"
	"io/fs"
	"math/rand"
	"net"
	"os"
	"os/exec"
	"path/filepath"
	"reflect"
	"runtime"
	"sort"
	"strings"
	"sync"
	"testing/fstest"
	"time"

	"github.com/tetratelabs/wazero"
	"github.com/tetratelabs/wazero/api"
	expsock "github.com/tetratelabs/wazero/experimental/sock"
	expsys "github.com/tetratelabs/wazero/experimental/sys"
	"github.com/tetratelabs/wazero/imports/wasi_snapshot_preview1"
	"github.com/tetratelabs/wazero/internal/platform"
	internalsock "github.com/tetratelabs/wazero/internal/sock"
	internalsys "github.com/tetratelabs/wazero/internal/sys"
	"github.com/tetratelabs/wazero/internal/sysfs"
	"github.com/tetratelabs/wazero/internal/wasm"
	"github.com/tetratelabs/wazero/sys"
	"github.com/tetratelabs/wazero/verifharness/hx"
	"github.com/tetratelabs/wazero/verifharness/wb"
)

var (
	orc      *hx.Oracle
	rep      *hx.Report
	raceMode = flag.Bool("racechild", false, "internal: run only the concurrent phase (binary built with -race)")
)

// ---------------------------------------------------------------------------------------------
// pools (every pool value has a canonical name without space , ; | )

var (
	buffers  = []*bytes.Buffer{new(bytes.Buffer), new(bytes.Buffer), new(bytes.Buffer)}
	mapFSs   = []fstest.MapFS{{"a.txt": &fstest.MapFile{Data: []byte("a")}}, {"b.txt": &fstest.MapFile{Data: []byte("b")}}}
	caches   []wazero.CompilationCache
	dirs     []string
	registry = map[uintptr]string{}
)

func wall1() (int64, int32)    { return 1, 1 }
func wall2() (int64, int32)    { return 2, 2 }
func nano1() int64             { return 1 }
func nano2() int64             { return 2 }
func sleep1(int64)             {}
func sleep2(int64)             { runtime.Gosched() }
func yield1()                  {}
func yield2()                  { runtime.Gosched() }
func ptrOf(x any) uintptr      { return reflect.ValueOf(x).Pointer() }
func register(x any, n string) { registry[ptrOf(x)] = n }

func setupPools(work string) {
	for i, b := range buffers {
		register(b, fmt.Sprintf("buf%d", i))
	}
	for i, m := range mapFSs {
		register(m, fmt.Sprintf("mapfs%d", i))
	}
	for i := 0; i < 2; i++ {
		c := wazero.NewCompilationCache()
		caches = append(caches, c)
		register(c, fmt.Sprintf("cache%d", i))
	}
	for i := 0; i < 3; i++ {
		d := filepath.Join(work, fmt.Sprintf("d%d", i))
		if err := os.MkdirAll(d, 0o755); err != nil {
			hx.Fatal("mkdir: %v", err)
		}
		dirs = append(dirs, d)
	}
}

var (
	envKeys   = []string{"A", "B", "C", "D", "E", "F", "G", "H", "PATH", "HOME"}
	envVals   = []string{"1", "2", "x", "", "changed", "a=b", "/usr/bin"}
	argPool   = []string{"a", "b", "-v", "--x=1", "", "prog"}
	startPool = []string{"_start", "init", "_initialize", "f"}
	namePool  = []string{"m1", "m2", "", "mod"}
	pathPool  = []string{"/", "/a", "a/", "./a", "/b", "", "b", "/a/c", "."}
	hostPool  = []string{"127.0.0.1", "localhost"}
	genStr    = []string{"s1", "s2", ""}
)

// ---------------------------------------------------------------------------------------------
// argument specs (JSON-serialisable so that a tree can be replayed)

type ArgSpec struct {
	Name string   `json:"name"`           // Go parameter name (from the regenerated table)
	Type string   `json:"type"`           // Go type
	S    string   `json:"s,omitempty"`    // string value
	L    []string `json:"l,omitempty"`    // variadic strings
	N    int64    `json:"n,omitempty"`    // integer / bool(0,1)
	Pool int      `json:"pool,omitempty"` // index into the pool of the type; -1 = nil
	Node int      `json:"node,omitempty"` // tree node (for FSConfig arguments); -1 = nil
}

type Step struct {
	Op     string    `json:"op"` // "call" | "inst"
	Parent int       `json:"parent"`
	Method string    `json:"method,omitempty"`
	Args   []ArgSpec `json:"args,omitempty"`
	Sock   bool      `json:"sock,omitempty"` // inst: context carries a sock.Config
	Host   bool      `json:"host,omitempty"` // inst: the compiled module is a HOST module (HostModuleBuilder.Compile), instantiated with this configuration (documented: one host module under several names)
	Busy   bool      `json:"busy,omitempty"` // inst with Sock: the listener's port is occupied by the harness, so the instantiation FAILS while the system context is built
}

type Tree struct {
	Steps []Step `json:"steps"`
}

// ---------------------------------------------------------------------------------------------
// canonical values by reflection (works on unexported fields: only read accessors are used)

func clean(s string) string {
	r := strings.NewReplacer(" ", "_", ",", "_", ";", "_", "|", "_", "\n", "_")
	return r.Replace(s)
}

func canon(v reflect.Value, depth int) string {
	if depth > 6 {
		return "…"
	}
	switch v.Kind() {
	case reflect.Invalid:
		return "nil"
	case reflect.Bool:
		if v.Bool() {
			return "true"
		}
		return "false"
	case reflect.Int, reflect.Int8, reflect.Int16, reflect.Int32, reflect.Int64:
		return fmt.Sprint(v.Int())
	case reflect.Uint, reflect.Uint8, reflect.Uint16, reflect.Uint32, reflect.Uint64, reflect.Uintptr:
		return fmt.Sprint(v.Uint())
	case reflect.String:
		return clean(v.String())
	case reflect.Func:
		if v.IsNil() {
			return "nil"
		}
		return "fn:" + clean(runtime.FuncForPC(v.Pointer()).Name())
	case reflect.Interface:
		if v.IsNil() {
			return "nil"
		}
		return canon(v.Elem(), depth)
	case reflect.Ptr:
		if v.IsNil() {
			return "nil"
		}
		if n, ok := registry[v.Pointer()]; ok {
			return n
		}
		return "&" + canon(v.Elem(), depth+1)
	case reflect.Map:
		if v.IsNil() {
			return "nil"
		}
		if n, ok := registry[v.Pointer()]; ok {
			return n
		}
		var es []string
		it := v.MapRange()
		for it.Next() {
			es = append(es, canon(it.Key(), depth+1)+"~"+canon(it.Value(), depth+1))
		}
		sort.Strings(es)
		return "{" + strings.Join(es, "+") + "}"
	case reflect.Slice:
		if v.Type().Elem().Kind() == reflect.Uint8 {
			return clean(string(v.Bytes()))
		}
		var es []string
		for i := 0; i < v.Len(); i++ {
			es = append(es, canon(v.Index(i), depth+1))
		}
		return "[" + strings.Join(es, "+") + "]"
	case reflect.Struct:
		t := v.Type()
		if t.String() == "sock.TCPAddress" {
			return canon(v.Field(0), depth) + ":" + canon(v.Field(1), depth)
		}
		var es []string
		for i := 0; i < v.NumField(); i++ {
			es = append(es, canon(v.Field(i), depth+1))
		}
		return clean(t.String()) + "(" + strings.Join(es, "+") + ")"
	}
	return "?" + v.Kind().String()
}

func canonAny(x any) string { return canon(reflect.ValueOf(x), 0) }

// structOf returns the (read-only) struct value behind a configuration.
func structOf(cfg any) reflect.Value { return reflect.ValueOf(cfg).Elem() }

func kindOf(cfg any) string {
	switch reflect.TypeOf(cfg).String() {
	case "*wazero.runtimeConfig":
		return "runtimeConfig"
	case "*wazero.moduleConfig":
		return "moduleConfig"
	case "*wazero.fsConfig":
		return "fsConfig"
	case "*sock.Config":
		return "sock.Config"
	}
	hx.Fatal("unknown configuration type %T", cfg)
	return ""
}

// snapshot: the observable value of a node (tie C). field -> canonical content.
func snapshot(cfg any) map[string]string {
	sv := structOf(cfg)
	out := map[string]string{}
	for i := 0; i < sv.NumField(); i++ {
		out[sv.Type().Field(i).Name] = canon(sv.Field(i), 0)
	}
	return out
}

func diffSnap(a, b map[string]string) []string {
	var d []string
	for k, v := range a {
		if b[k] != v {
			d = append(d, k)
		}
	}
	sort.Strings(d)
	return d
}

// ---------------------------------------------------------------------------------------------
// the real tree

type node struct {
	kind   string
	cfg    any
	ptr    uintptr
	mid    int // model node id
	snap   map[string]string
	guest  string // guest view at creation ("" = not instantiated)
	origin string
}

type run struct {
	nodes   []*node
	byPtr   map[uintptr]int
	useOrc  bool
	rt      wazero.Runtime
	guestCM wazero.CompiledModule
	hostCM  wazero.CompiledModule
	ctx     context.Context
	quiet   bool // replay/shrink mode: no report side effects except through the returned verdict
}

type verdict struct {
	kind, sig, what  string
	expected, actual any
}

func (r *run) add(cfg any, origin string, mid int) *node {
	n := &node{kind: kindOf(cfg), cfg: cfg, ptr: ptrOf(cfg), mid: mid, snap: snapshot(cfg), origin: origin}
	r.byPtr[n.ptr] = len(r.nodes)
	r.nodes = append(r.nodes, n)
	return n
}

// mapEntries: k~v entries of a map[string]int sorted by key (as the oracle sorts them)
func mapEntries(f reflect.Value) []string {
	var keys []string
	vals := map[string]int64{}
	it := f.MapRange()
	for it.Next() {
		k := canon(it.Key(), 1)
		keys = append(keys, k)
		vals[k] = it.Value().Int()
	}
	sort.Strings(keys)
	var es []string
	for _, k := range keys {
		es = append(es, fmt.Sprintf("%s~%d", k, vals[k]))
	}
	return es
}

// model initialiser of a real (root) node
func initLine(cfg any) string {
	sv := structOf(cfg)
	var ws []string
	for i := 0; i < sv.NumField(); i++ {
		f := sv.Field(i)
		name := sv.Type().Field(i).Name
		switch {
		case f.Kind() == reflect.Slice && f.Type().Elem().Kind() != reflect.Uint8 || f.Kind() == reflect.Slice && f.Type().String() == "[][]uint8":
			var es []string
			for j := 0; j < f.Len(); j++ {
				es = append(es, canon(f.Index(j), 1))
			}
			ws = append(ws, fmt.Sprintf("%s=l:%d|%d|%s", name, f.Cap(), f.Len(), strings.Join(es, ",")))
		case f.Kind() == reflect.Map:
			es := mapEntries(f)
			ws = append(ws, fmt.Sprintf("%s=m:%d|%s", name, len(es), strings.Join(es, ",")))
		default:
			ws = append(ws, fmt.Sprintf("%s=s:%s", name, canon(f, 0)))
		}
	}
	return strings.Join(ws, " ")
}

// realDump mirrors Oracle.C19.dumpAll for the real nodes that have a model id, in model-id order.
func (r *run) realDump(hidden map[int]string) string {
	type ent struct {
		mid int
		s   string
	}
	var seen []uintptr
	canonPtr := func(p uintptr) int {
		for i, q := range seen {
			if q == p {
				return i
			}
		}
		seen = append(seen, p)
		return len(seen) - 1
	}
	byMid := map[int]*node{}
	max := -1
	for _, n := range r.nodes {
		if _, dup := byMid[n.mid]; !dup {
			byMid[n.mid] = n
		}
		if n.mid > max {
			max = n.mid
		}
	}
	for m := range hidden {
		if m > max {
			max = m
		}
	}
	var ds []string
	for m := 0; m <= max; m++ {
		n, ok := byMid[m]
		if !ok {
			if h, ok := hidden[m]; ok {
				ds = append(ds, h)
				continue
			}
			ds = append(ds, "?missing")
			continue
		}
		sv := structOf(n.cfg)
		var sc, rs []string
		for i := 0; i < sv.NumField(); i++ {
			f := sv.Field(i)
			name := sv.Type().Field(i).Name
			switch f.Kind() {
			case reflect.Slice:
				if f.Cap() == 0 {
					rs = append(rs, name+"=[]0/0")
					continue
				}
				var es []string
				for j := 0; j < f.Len(); j++ {
					es = append(es, canon(f.Index(j), 1))
				}
				rs = append(rs, fmt.Sprintf("%s=[%s]%d/%d@%d", name, strings.Join(es, ","), f.Len(), f.Cap(), canonPtr(f.Pointer())))
			case reflect.Map:
				rs = append(rs, fmt.Sprintf("%s={%s}@%d", name, strings.Join(mapEntries(f), ","), canonPtr(f.Pointer())))
			default:
				sc = append(sc, name+"="+canon(f, 0))
			}
		}
		ds = append(ds, n.kind+";"+strings.Join(append(sc, rs...), ";"))
	}
	if len(ds) == 0 {
		return "-"
	}
	return strings.Join(ds, "||")
}

// ---------------------------------------------------------------------------------------------
// method enumeration and argument generation

type sig struct {
	params, derived, flags []string
	delegate               string
	known                  bool
}

var sigCache = map[string]sig{}
var sigMu sync.Mutex

func split(s string) []string {
	if s == "" {
		return nil
	}
	return strings.Split(s, ",")
}

func getSig(kind, method string) sig {
	sigMu.Lock()
	defer sigMu.Unlock()
	k := kind + "." + method
	if s, ok := sigCache[k]; ok {
		return s
	}
	var s sig
	if orc != nil {
		ans := orc.Askf("c19 sig %s %s", kind, method)
		if ans != "unknown" {
			s.known = true
			for _, w := range strings.Fields(ans) {
				kv := strings.SplitN(w, "=", 2)
				switch kv[0] {
				case "params":
					s.params = split(kv[1])
				case "derived":
					s.derived = split(kv[1])
				case "flags":
					s.flags = split(kv[1])
				case "delegate":
					s.delegate = kv[1]
				}
			}
		}
	}
	sigCache[k] = s
	return s
}

func withMethods(cfg any) []string {
	t := reflect.TypeOf(cfg)
	var ms []string
	for i := 0; i < t.NumMethod(); i++ {
		if strings.HasPrefix(t.Method(i).Name, "With") {
			ms = append(ms, t.Method(i).Name)
		}
	}
	return ms
}

func pick(rnd *rand.Rand, l []string) string { return l[rnd.Intn(len(l))] }

func pickList(rnd *rand.Rand, pool []string, max int) []string {
	n := rnd.Intn(max + 1)
	out := make([]string, n)
	for i := range out {
		out[i] = pick(rnd, pool)
	}
	return out
}

// genArg chooses a value for parameter i (Go type t, table name pname). ok=false: no pool for this type.
func genArg(rnd *rand.Rand, r *run, method, pname string, t reflect.Type, variadic bool) (ArgSpec, bool) {
	a := ArgSpec{Name: pname, Type: t.String()}
	switch t.String() {
	case "string":
		switch pname {
		case "key":
			a.S = pick(rnd, envKeys)
		case "value":
			a.S = pick(rnd, envVals)
		case "name":
			a.S = pick(rnd, namePool)
		case "dir":
			a.S = pick(rnd, dirs)
		case "guestPath":
			a.S = pick(rnd, pathPool)
		case "host":
			a.S = pick(rnd, hostPool)
		default:
			a.S = pick(rnd, genStr)
		}
	case "[]string":
		if !variadic {
			return a, false
		}
		if strings.Contains(strings.ToLower(pname), "start") {
			a.L = pickList(rnd, startPool, 3)
		} else {
			a.L = pickList(rnd, argPool, 5)
		}
	case "bool":
		a.N = int64(rnd.Intn(2))
	case "int":
		a.N = int64([]int{0, 0, 8080, 1}[rnd.Intn(4)])
	case "uint32", "sys.ClockResolution":
		a.N = int64([]int{0, 1, 100, 1000, 65536}[rnd.Intn(5)])
	case "api.CoreFeatures":
		a.N = int64([]api.CoreFeatures{api.CoreFeaturesV1, api.CoreFeaturesV2, api.CoreFeaturesV2 | api.CoreFeatureSIMD, 0}[rnd.Intn(4)])
	case "io.Reader", "io.Writer":
		a.Pool = rnd.Intn(len(buffers)+1) - 1
	case "fs.FS":
		a.Pool = rnd.Intn(len(mapFSs)+1) - 1
	case "sys.FS": // experimental/sys.FS
		a.Pool = rnd.Intn(5) - 1
	case "wazero.CompilationCache":
		a.Pool = rnd.Intn(len(caches)+1) - 1
	case "sys.Walltime", "sys.Nanotime", "sys.Nanosleep", "sys.Osyield":
		a.Pool = rnd.Intn(3) - 1
	case "wazero.FSConfig":
		a.Node = -1
		var cands []int
		for i, n := range r.nodes {
			if n.kind == "fsConfig" {
				cands = append(cands, i)
			}
		}
		if len(cands) > 0 && rnd.Intn(5) > 0 {
			a.Node = cands[rnd.Intn(len(cands))]
		}
	default:
		return a, false
	}
	return a, true
}

func sysFSPool(i int) expsys.FS {
	switch i {
	case 0:
		return sysfs.DirFS(dirs[0])
	case 1:
		return sysfs.DirFS(dirs[1])
	case 2:
		return expsys.UnimplementedFS{}
	case 3:
		return &sysfs.AdaptFS{FS: mapFSs[0]}
	}
	return nil
}

// materialize turns a spec into the reflect.Value(s) passed to the call.
func materialize(r *run, a ArgSpec, t reflect.Type) []reflect.Value {
	nilOf := func() []reflect.Value { return []reflect.Value{reflect.Zero(t)} }
	switch a.Type {
	case "string":
		return []reflect.Value{reflect.ValueOf(a.S)}
	case "[]string":
		// exact-capacity copy, so that the model's cap = len assumption for caller slices holds
		var vs []reflect.Value
		for _, s := range a.L {
			vs = append(vs, reflect.ValueOf(s))
		}
		return vs
	case "bool":
		return []reflect.Value{reflect.ValueOf(a.N != 0)}
	case "int":
		return []reflect.Value{reflect.ValueOf(int(a.N))}
	case "uint32":
		return []reflect.Value{reflect.ValueOf(uint32(a.N))}
	case "sys.ClockResolution":
		return []reflect.Value{reflect.ValueOf(sys.ClockResolution(a.N))}
	case "api.CoreFeatures":
		return []reflect.Value{reflect.ValueOf(api.CoreFeatures(a.N))}
	case "io.Reader", "io.Writer":
		if a.Pool < 0 {
			return nilOf()
		}
		return []reflect.Value{reflect.ValueOf(buffers[a.Pool])}
	case "fs.FS":
		if a.Pool < 0 {
			return nilOf()
		}
		return []reflect.Value{reflect.ValueOf(mapFSs[a.Pool])}
	case "sys.FS":
		if x := sysFSPool(a.Pool); x != nil {
			return []reflect.Value{reflect.ValueOf(x)}
		}
		return nilOf()
	case "wazero.CompilationCache":
		if a.Pool < 0 {
			return nilOf()
		}
		return []reflect.Value{reflect.ValueOf(caches[a.Pool])}
	case "sys.Walltime":
		if a.Pool < 0 {
			return nilOf()
		}
		return []reflect.Value{reflect.ValueOf([]sys.Walltime{wall1, wall2}[a.Pool])}
	case "sys.Nanotime":
		if a.Pool < 0 {
			return nilOf()
		}
		return []reflect.Value{reflect.ValueOf([]sys.Nanotime{nano1, nano2}[a.Pool])}
	case "sys.Nanosleep":
		if a.Pool < 0 {
			return nilOf()
		}
		return []reflect.Value{reflect.ValueOf([]sys.Nanosleep{sleep1, sleep2}[a.Pool])}
	case "sys.Osyield":
		if a.Pool < 0 {
			return nilOf()
		}
		return []reflect.Value{reflect.ValueOf([]sys.Osyield{yield1, yield2}[a.Pool])}
	case "wazero.FSConfig":
		if a.Node < 0 || a.Node >= len(r.nodes) || r.nodes[a.Node].kind != "fsConfig" {
			return nilOf()
		}
		return []reflect.Value{reflect.ValueOf(r.nodes[a.Node].cfg)}
	}
	hx.Fatal("materialize: unknown type %s", a.Type)
	return nil
}

// modelArgs: the oracle's view of the call (names of the table; delegating methods use the target's names).
func modelArgs(kind, method string, s sig, in []reflect.Value, specs []ArgSpec) (string, bool) {
	var ws []string
	put := func(name, v string) { ws = append(ws, name+"=s:"+v) }
	val := func(i int) any {
		if !in[i].IsValid() {
			return nil
		}
		return in[i].Interface()
	}
	if s.delegate != "" {
		switch kind + "." + method {
		case "moduleConfig.WithFS":
			if f, _ := val(0).(fs.FS); f == nil {
				put("config", "nil")
			} else {
				put("config", canonAny(wazero.NewFSConfig().WithFSMount(f, "")))
			}
		case "moduleConfig.WithSysWalltime":
			put("walltime", canonAny(sys.Walltime(platform.Walltime)))
			put("resolution", fmt.Sprint(time.Microsecond.Nanoseconds()))
		case "moduleConfig.WithSysNanotime":
			put("nanotime", canonAny(sys.Nanotime(platform.Nanotime)))
			put("resolution", "1")
		case "moduleConfig.WithSysNanosleep":
			put("nanosleep", canonAny(sys.Nanosleep(platform.Nanosleep)))
		case "fsConfig.WithDirMount":
			var f expsys.FS = sysfs.DirFS(val(0).(string))
			return fsMountArgs(f, val(1).(string)), true
		case "fsConfig.WithReadOnlyDirMount":
			var f expsys.FS = &sysfs.ReadFS{FS: sysfs.DirFS(val(0).(string))}
			return fsMountArgs(f, val(1).(string)), true
		case "fsConfig.WithFSMount":
			var f expsys.FS
			if g, _ := val(0).(fs.FS); g != nil {
				f = &sysfs.AdaptFS{FS: g}
			}
			return fsMountArgs(f, val(1).(string)), true
		default:
			return "", false
		}
		return strings.Join(ws, " "), true
	}
	if kind == "fsConfig" && method == "WithSysFSMount" {
		f, _ := val(0).(expsys.FS)
		return fsMountArgs(f, val(1).(string)), true
	}
	if len(s.derived) > 0 || len(s.flags) > 0 {
		return "", false // a derived local / flag this harness does not know how to compute
	}
	k := 0
	for _, sp := range specs {
		if sp.Type == "[]string" {
			var es []string
			for _, e := range sp.L {
				es = append(es, clean(e))
			}
			ws = append(ws, fmt.Sprintf("%s=l:%d|%s", sp.Name, len(es), strings.Join(es, ",")))
			k += len(sp.L)
			continue
		}
		put(sp.Name, canon(in[k], 0))
		k++
	}
	return strings.Join(ws, " "), true
}

func fsMountArgs(f expsys.FS, guestPath string) string {
	_, unimpl := f.(expsys.UnimplementedFS)
	fv := "nil"
	if f != nil {
		fv = canonAny(f)
	}
	return fmt.Sprintf("fs=s:%s guestPath=s:%s cleaned=s:%s fs.(experimentalsys.UnimplementedFS)=s:%v",
		fv, clean(guestPath), clean(internalsys.StripPrefixesAndTrailingSlash(guestPath)), unimpl)
}

// capacity hints: the capacities the real runtime chose for the result's slices
func hintsOf(cfg any) string {
	sv := structOf(cfg)
	var hs []string
	for i := 0; i < sv.NumField(); i++ {
		if f := sv.Field(i); f.Kind() == reflect.Slice {
			hs = append(hs, fmt.Sprintf("%s~%d", sv.Type().Field(i).Name, f.Cap()))
		}
	}
	return strings.Join(hs, ",")
}

// ---------------------------------------------------------------------------------------------
// executing steps

func newRun(useOrc bool) *run {
	return &run{byPtr: map[uintptr]int{}, useOrc: useOrc, ctx: context.Background()}
}

func (r *run) roots() {
	rootsOf := []struct {
		cfg    any
		origin string
	}{
		{wazero.NewRuntimeConfigInterpreter(), "NewRuntimeConfigInterpreter()"},
		{wazero.NewRuntimeConfig(), "NewRuntimeConfig()"},
		{wazero.NewModuleConfig(), "NewModuleConfig()"},
		{wazero.NewFSConfig(), "NewFSConfig()"},
		{&internalsock.Config{}, "&sock.Config{}"},
	}
	if r.useOrc {
		orc.Ask("c19 reset")
	}
	for _, x := range rootsOf {
		mid := -1
		if r.useOrc {
			ans := orc.Askf("c19 new %s %s", kindOf(x.cfg), initLine(x.cfg))
			fmt.Sscan(ans, &mid)
		}
		r.add(x.cfg, x.origin, mid)
	}
}

// monitor: every earlier node still has the value it had when it was created
func (r *run) monitor(upto int, st Step) *verdict {
	for i := 0; i < upto; i++ {
		n := r.nodes[i]
		now := snapshot(n.cfg)
		if d := diffSnap(n.snap, now); len(d) > 0 {
			recvKind := r.nodes[st.Parent].kind
			what := st.Method
			if st.Op == "inst" {
				what = "InstantiateModule"
			}
			exp, act := map[string]string{}, map[string]string{}
			for _, f := range d {
				exp[f], act[f] = n.snap[f], now[f]
			}
			return &verdict{kind: "impl-violation",
				sig:      fmt.Sprintf("C19:%s.%s-changes-existing-%s.%s", recvKind, what, n.kind, strings.Join(d, "+")),
				what:     fmt.Sprintf("%s.%s on node %d changed field(s) %v of the already existing node %d (%s)", recvKind, what, st.Parent, d, i, n.origin),
				expected: exp, actual: act}
		}
	}
	return nil
}

var hidden = map[int]string{}

// doStep applies one step to the real tree (and the model). Returns a verdict on a failed predicate.
func (r *run) doStep(st Step) *verdict {
	if st.Parent < 0 || st.Parent >= len(r.nodes) {
		return nil
	}
	p := r.nodes[st.Parent]
	before := len(r.nodes)
	var pending *verdict
	switch st.Op {
	case "inst":
		if p.kind != "moduleConfig" {
			return nil
		}
		if st.Host {
			if res := r.instantiateHost(p, st.Sock); strings.HasPrefix(res, "error:") {
				rep.Count("inst-host:error")
			} else {
				rep.Count("inst-host:ok")
			}
		} else if st.Sock && st.Busy {
			if res := r.instantiateBusy(p); !strings.HasPrefix(res, "error:") {
				rep.Count("inst-busy:did-not-fail")
			} else {
				rep.Count("inst-busy:failed-as-intended")
			}
		} else {
			r.instantiate(p, st.Sock, false)
		}
		if r.useOrc {
			sc := "nil"
			if st.Sock {
				sc = canonAny(sockCfg())
			}
			ans := orc.Askf("c19 call %d InstantiateModule sockConfig=s:%s ctxHasSockConfig=s:%v", p.mid, sc, st.Sock)
			var mid int
			if _, err := fmt.Sscan(ans, &mid); err != nil {
				// the regenerated model no longer understands InstantiateModule: the real configurations are still
				// checked against their own earlier snapshots (a concrete failing history has priority over this verdict)
				pending = &verdict{kind: "correspondence", sig: "C19:model-refuses-InstantiateModule", what: "model answered " + ans}
				r.useOrc = false
			} else if mid != p.mid {
				// the model's private clone inside InstantiateModule: not a node of the real tree
				hidden[mid] = ""
			}
		}
	case "call":
		m := reflect.ValueOf(p.cfg).MethodByName(st.Method)
		if !m.IsValid() {
			return nil
		}
		mt := m.Type()
		var in []reflect.Value
		for i, a := range st.Args {
			if i >= mt.NumIn() {
				return nil
			}
			t := mt.In(i)
			in = append(in, materialize(r, a, t)...)
		}
		var out []reflect.Value
		panicked := func() (p bool) {
			defer func() {
				if e := recover(); e != nil {
					p = true
				}
			}()
			out = m.Call(in)
			return false
		}()
		if panicked {
			if !r.quiet {
				rep.Count("call-panicked:" + p.kind + "." + st.Method)
			}
			return r.monitor(before, st)
		}
		res := out[0].Interface()
		if out[0].Kind() == reflect.Interface {
			res = out[0].Elem().Interface()
		}
		same := ptrOf(res) == p.ptr
		mid := -1
		if r.useOrc {
			s := getSig(p.kind, st.Method)
			if !s.known {
				return &verdict{kind: "correspondence", sig: "C19:method-not-in-effect-table:" + p.kind + "." + st.Method,
					what: "the real type has a With… method the regenerated table does not list"}
			}
			ma, ok := modelArgs(p.kind, st.Method, s, in, st.Args)
			if !ok {
				return &verdict{kind: "correspondence", sig: "C19:no-argument-mapping:" + p.kind + "." + st.Method,
					what: "the harness cannot compute the derived parameters/flags of this method; extend modelArgs"}
			}
			ans := orc.Askf("c19 call %d %s hints=%s %s", p.mid, st.Method, hintsOf(res), ma)
			if _, err := fmt.Sscan(ans, &mid); err != nil {
				return &verdict{kind: "correspondence", sig: "C19:model-refuses:" + p.kind + "." + st.Method,
					what: "model answered " + ans + " to " + ma}
			}
			if same != (mid == p.mid) {
				return &verdict{kind: "correspondence", sig: "C19:self-return-mismatch:" + p.kind + "." + st.Method,
					what: fmt.Sprintf("real returned receiver itself: %v, model: %v", same, mid == p.mid)}
			}
		}
		if !same {
			r.add(res, fmt.Sprintf("node%d.%s(%s)", st.Parent, st.Method, argText(st.Args)), mid)
		}
	}
	if v := r.monitor(before, st); v != nil {
		return v
	}
	if pending != nil {
		return pending
	}
	if r.useOrc {
		want := orc.Ask("c19 dump")
		got := r.realDump(nil)
		if !dumpEqual(want, got) {
			what := st.Method
			if st.Op == "inst" {
				what = "InstantiateModule"
			}
			return &verdict{kind: "correspondence", sig: "C19:model-mismatch:" + p.kind + "." + what,
				what: "heap dump of the model differs from the real configurations after this step", expected: want, actual: got}
		}
	}
	return nil
}

// dumpEqual compares dumps node by node, ignoring the model's hidden nodes; alias numbering is recomputed
// on the real side without them, so hidden nodes must not own numbered objects shared with others:
// they are compared after removing their entries on the model side.
func dumpEqual(model, real string) bool {
	if len(hidden) == 0 {
		return model == real
	}
	// re-number the model dump without hidden nodes
	ms := strings.Split(model, "||")
	var kept []string
	for i, m := range ms {
		if _, h := hidden[i]; !h {
			kept = append(kept, m)
		}
	}
	rs := strings.Split(real, "||")
	var keptR []string
	for _, x := range rs {
		if x != "?missing" && x != "" {
			keptR = append(keptR, x)
		}
	}
	return renumber(kept) == renumber(keptR)
}

// renumber rewrites @k alias ids by first appearance.
func renumber(nodes []string) string {
	ids := map[string]int{}
	var out []string
	for _, n := range nodes {
		fs := strings.Split(n, ";")
		for i, f := range fs {
			if j := strings.LastIndex(f, "@"); j >= 0 && (strings.Contains(f, "]") || strings.Contains(f, "}")) {
				k := f[j+1:]
				if _, ok := ids[k]; !ok {
					ids[k] = len(ids)
				}
				fs[i] = fmt.Sprintf("%s@%d", f[:j], ids[k])
			}
		}
		out = append(out, strings.Join(fs, ";"))
	}
	return strings.Join(out, "||")
}

func argText(as []ArgSpec) string {
	var ws []string
	for _, a := range as {
		switch a.Type {
		case "string":
			ws = append(ws, fmt.Sprintf("%q", a.S))
		case "[]string":
			ws = append(ws, fmt.Sprintf("%q...", a.L))
		case "wazero.FSConfig":
			ws = append(ws, fmt.Sprintf("node%d", a.Node))
		case "bool", "int", "uint32", "api.CoreFeatures", "sys.ClockResolution":
			ws = append(ws, fmt.Sprint(a.N))
		default:
			ws = append(ws, fmt.Sprintf("%s#%d", a.Type, a.Pool))
		}
	}
	return strings.Join(ws, ", ")
}

// ---------------------------------------------------------------------------------------------
// instantiation: what the guest sees

func guestModule() []byte {
	m := wb.New()
	i32 := wb.I32
	names := []struct {
		n string
		p int
	}{{"args_sizes_get", 2}, {"args_get", 2}, {"environ_sizes_get", 2}, {"environ_get", 2}, {"fd_prestat_get", 2}, {"fd_prestat_dir_name", 3}}
	for _, x := range names {
		ps := make([]byte, x.p)
		for i := range ps {
			ps[i] = i32
		}
		m.ImportFunc("wasi_snapshot_preview1", x.n, ps, []byte{i32})
	}
	// wrappers (a host function called directly would not see the guest's memory)
	for k, x := range names {
		ps := make([]byte, x.p)
		var body []byte
		for i := range ps {
			ps[i] = i32
			body = append(body, wb.LocalGet(uint32(i))...)
		}
		body = append(body, wb.Call(uint32(k))...)
		m.AddFunc(wb.Func{Params: ps, Results: []byte{i32}, Body: body, Export: x.n})
	}
	m.Memory(1, nil, false, "memory")
	// a module name in the binary: InstantiateModule consults it when the configuration has no name set
	m.M.NameSection = &wasm.NameSection{ModuleName: "guest"}
	return m.Bytes()
}

var sockOnce *internalsock.Config

func sockCfg() *internalsock.Config {
	if sockOnce == nil {
		sockOnce = (&internalsock.Config{}).WithTCPListener("127.0.0.1", 0)
	}
	return sockOnce
}

var guestInfraErr string

// ensureRuntime: false if the guest runtime cannot be set up (possible when the code under test corrupts
// the shared default configuration; reported as a fault at the end unless a violation explains it).
func (r *run) ensureRuntime() bool {
	if r.rt != nil {
		return true
	}
	rt := wazero.NewRuntimeWithConfig(r.ctx, wazero.NewRuntimeConfigInterpreter())
	if _, err := wasi_snapshot_preview1.Instantiate(r.ctx, rt); err != nil {
		guestInfraErr = "wasi: " + err.Error()
		rt.Close(r.ctx)
		return false
	}
	cm, err := rt.CompileModule(r.ctx, guestModule())
	if err != nil {
		guestInfraErr = "guest module: " + err.Error()
		rt.Close(r.ctx)
		return false
	}
	r.rt, r.guestCM = rt, cm
	return true
}

func (r *run) close() {
	if r.rt != nil {
		r.rt.Close(r.ctx)
		r.rt, r.hostCM = nil, nil
	}
}

// instantiateHost: InstantiateModule(compiled HOST module, this configuration).
func (r *run) instantiateHost(n *node, withSock bool) string {
	if !r.ensureRuntime() {
		return "error:guest runtime unavailable"
	}
	if r.hostCM == nil {
		cm, err := r.rt.NewHostModuleBuilder("c19host").NewFunctionBuilder().WithFunc(func(context.Context, uint32) uint32 { return 7 }).Export("f").Compile(r.ctx)
		if err != nil {
			return "error:" + err.Error()
		}
		r.hostCM = cm
	}
	ctx := r.ctx
	if withSock {
		ctx = expsock.WithConfig(ctx, expsock.NewConfig().WithTCPListener("127.0.0.1", 0))
	}
	mod, err := r.rt.InstantiateModule(ctx, r.hostCM, n.cfg.(wazero.ModuleConfig))
	if err != nil {
		return "error:" + err.Error()
	}
	mod.Close(ctx)
	return "instantiated"
}

// instantiateBusy: InstantiateModule under a context whose sock.Config asks for a TCP listener on a port the harness
// itself holds: building the system context fails (bind: address already in use) AFTER InstantiateModule has looked at
// the sock config.  A failed instantiation must leave the caller's configuration as it was, like a successful one.
func (r *run) instantiateBusy(n *node) string {
	if !r.ensureRuntime() {
		return "error:guest runtime unavailable"
	}
	l, err := net.Listen("tcp", "127.0.0.1:0")
	if err != nil {
		return "noerror: cannot occupy a port: " + err.Error()
	}
	defer l.Close()
	port := l.Addr().(*net.TCPAddr).Port
	ctx := expsock.WithConfig(r.ctx, expsock.NewConfig().WithTCPListener("127.0.0.1", port))
	mod, err := r.rt.InstantiateModule(ctx, r.guestCM, n.cfg.(wazero.ModuleConfig))
	if err != nil {
		return "error:" + err.Error()
	}
	mod.Close(ctx)
	return "instantiated"
}

// instantiate returns the guest view "args=[…] env=[…] pre=[…]" or "error:…".
func (r *run) instantiate(n *node, withSock bool, read bool) string {
	if !r.ensureRuntime() {
		return "error:guest runtime unavailable"
	}
	ctx := r.ctx
	if withSock {
		// the exported path: experimental/sock.WithConfig puts the internal config under sock.ConfigKey
		ctx = expsock.WithConfig(ctx, expsock.NewConfig().WithTCPListener("127.0.0.1", 0))
		if ctx.Value(internalsock.ConfigKey{}) == nil {
			hx.Fatal("sock config not in context")
		}
	}
	mod, err := r.rt.InstantiateModule(ctx, r.guestCM, n.cfg.(wazero.ModuleConfig))
	if err != nil {
		if !r.quiet {
			msg := err.Error()
			if len(msg) > 60 {
				msg = msg[:60]
			}
			rep.Count("instantiate-error:" + clean(msg))
		}
		return "error:" + err.Error()
	}
	defer mod.Close(ctx)
	if !read {
		return ""
	}
	mem := mod.Memory()
	call := func(name string, a ...uint64) uint32 {
		res, err := mod.ExportedFunction(name).Call(ctx, a...)
		if err != nil {
			hx.Fatal("guest call %s: %v", name, err)
		}
		return uint32(res[0])
	}
	list := func(sizes, get string) []string {
		if e := call(sizes, 0, 4); e != 0 {
			hx.Fatal("%s errno %d", sizes, e)
		}
		cnt, _ := mem.ReadUint32Le(0)
		if e := call(get, 16, uint64(16+4*cnt)); e != 0 {
			hx.Fatal("%s errno %d", get, e)
		}
		var out []string
		for i := uint32(0); i < cnt; i++ {
			p, _ := mem.ReadUint32Le(16 + 4*i)
			var sb []byte
			for {
				b, ok := mem.ReadByte(p)
				if !ok || b == 0 {
					break
				}
				sb = append(sb, b)
				p++
			}
			out = append(out, clean(string(sb)))
		}
		return out
	}
	args := list("args_sizes_get", "args_get")
	env := list("environ_sizes_get", "environ_get")
	var pre []string
	for fd := uint64(3); fd < 40; fd++ {
		// not through call(): a mount whose FS was replaced by nil (WithFSMount(nil, existingPath)) makes
		// fd_prestat_get panic inside wazero (nil lazyDir.fs) - outside this property; shown as "!"
		res, err := mod.ExportedFunction("fd_prestat_get").Call(ctx, fd, 0)
		if err != nil {
			pre = append(pre, "!")
			if !r.quiet {
				rep.Count("fd_prestat_get-panics-on-nil-fs-mount")
			}
			continue
		}
		if res[0] != 0 {
			break
		}
		l, _ := mem.ReadUint32Le(4)
		if e := call("fd_prestat_dir_name", fd, 16, uint64(l)); e != 0 {
			break
		}
		b, _ := mem.Read(16, l)
		pre = append(pre, clean(string(b)))
	}
	return fmt.Sprintf("args=[%s] env=[%s] pre=[%s]", strings.Join(args, ","), strings.Join(env, ","), strings.Join(pre, ","))
}

// expected preopen names of a module node: from the FS configuration it references
func (r *run) expectedPre(n *node) []string {
	f := structOf(n.cfg).FieldByName("fsConfig")
	if f.IsNil() {
		return nil
	}
	gp := f.Elem().Elem().FieldByName("guestPaths")
	var out []string
	for i := 0; i < gp.Len(); i++ {
		p := gp.Index(i).String()
		if fsv := f.Elem().Elem().FieldByName("fs").Index(i); fsv.IsNil() {
			out = append(out, "!")
			continue
		}
		if internalsys.StripPrefixesAndTrailingSlash(p) == "" {
			p = "/"
		}
		out = append(out, clean(p))
	}
	return out
}

// guestCheck instantiates node i and compares the guest view with (a) the view at creation, (b) the model.
func (r *run) guestCheck(i int, first bool) *verdict {
	n := r.nodes[i]
	if n.kind != "moduleConfig" {
		return nil
	}
	g := r.instantiate(n, false, true)
	// instantiating is a "later use": it must not change any node either (incl. the node itself)
	if v := r.monitor(len(r.nodes), Step{Op: "inst", Parent: i}); v != nil {
		return v
	}
	if strings.HasPrefix(g, "error:") {
		return nil
	}
	if !r.quiet {
		rep.Count("guest-views-compared")
	}
	if first {
		n.guest = g
	} else if n.guest != "" && n.guest != g {
		return &verdict{kind: "impl-violation", sig: "C19:guest-view-of-earlier-moduleConfig-changed",
			what:     fmt.Sprintf("a guest instantiated with node %d (%s) sees different args/environ/preopens than when the node was created", i, n.origin),
			expected: n.guest, actual: g}
	}
	if r.useOrc {
		want := orc.Askf("c19 guest %d", n.mid)
		j := strings.Index(want, " fs=")
		got := g[:strings.Index(g, " pre=")]
		if j < 0 || want[:j] != got {
			return &verdict{kind: "correspondence", sig: "C19:guest-view-differs-from-model",
				what: fmt.Sprintf("node %d (%s)", i, n.origin), expected: want, actual: g}
		}
		exp := "pre=[" + strings.Join(r.expectedPre(n), ",") + "]"
		if g[strings.Index(g, "pre="):] != exp {
			return &verdict{kind: "correspondence", sig: "C19:guest-preopens-differ-from-fsconfig",
				what: fmt.Sprintf("node %d (%s)", i, n.origin), expected: exp, actual: g}
		}
	}
	return nil
}

// ---------------------------------------------------------------------------------------------
// generation

func genStep(rnd *rand.Rand, r *run, instProb int, refw map[string]bool) (Step, bool) {
	// receiver: half of the time the newest node (chains grow capacity), else any node (siblings)
	var pi int
	switch rnd.Intn(4) {
	case 0, 1:
		pi = len(r.nodes) - 1 - rnd.Intn(min(3, len(r.nodes)))
	default:
		pi = rnd.Intn(len(r.nodes))
	}
	// bias towards the kinds with reference-typed fields
	if k := r.nodes[pi].kind; (k == "runtimeConfig" || k == "sock.Config") && rnd.Intn(3) > 0 {
		pi = rnd.Intn(len(r.nodes))
	}
	p := r.nodes[pi]
	if p.kind == "moduleConfig" && rnd.Intn(100) < instProb {
		sock := rnd.Intn(2) == 0
		if rnd.Intn(4) == 0 {
			return Step{Op: "inst", Parent: pi, Sock: sock, Host: true}, true
		}
		return Step{Op: "inst", Parent: pi, Sock: sock, Busy: sock && rnd.Intn(3) == 0}, true
	}
	ms := withMethods(p.cfg)
	if len(ms) == 0 {
		return Step{}, false
	}
	name := ms[rnd.Intn(len(ms))]
	// bias towards the methods that write through a slice/map (per the regenerated table)
	if rnd.Intn(3) == 0 {
		var ws []string
		for _, m := range ms {
			if refw[p.kind+"."+m] {
				ws = append(ws, m)
			}
		}
		if len(ws) > 0 {
			name = ws[rnd.Intn(len(ws))]
		}
	}
	return genCall(rnd, r, pi, name)
}

func genCall(rnd *rand.Rand, r *run, pi int, name string) (Step, bool) {
	p := r.nodes[pi]
	m := reflect.ValueOf(p.cfg).MethodByName(name)
	mt := m.Type()
	s := getSig(p.kind, name)
	st := Step{Op: "call", Parent: pi, Method: name}
	for i := 0; i < mt.NumIn(); i++ {
		pname := fmt.Sprintf("p%d", i)
		if i < len(s.params) {
			pname = s.params[i]
		}
		a, ok := genArg(rnd, r, name, pname, mt.In(i), mt.IsVariadic() && i == mt.NumIn()-1)
		if !ok {
			rep.Violate(hx.Violation{Kind: "correspondence", Signature: "C19:no-pool-for-parameter-type:" + mt.In(i).String(),
				What: fmt.Sprintf("%s.%s has a parameter of a type the harness has no pool for", p.kind, name)})
			return Step{}, false
		}
		st.Args = append(st.Args, a)
	}
	return st, true
}

// runTree executes a tree under monitor (+ model). Returns the first verdict and the index of the failing step.
func runTree(t Tree, useOrc bool, guests bool, quiet bool) (*verdict, int, *run) {
	r := newRun(useOrc)
	r.quiet = quiet
	hidden = map[int]string{}
	r.roots()
	// A step on which the MODEL and the real configurations disagree (broken correspondence) does not end the history:
	// the rest of it runs against the direct monitors alone (every earlier node against its own earlier snapshot, guest
	// views), so that a concrete failing history - which has priority - can still be found in the same tree.
	var firstCorr *verdict
	corrAt := -1
	defer func() { _ = corrAt }()
	for i, st := range t.Steps {
		before := len(r.nodes)
		if v := r.doStep(st); v != nil {
			if v.kind != "correspondence" {
				return v, i, r
			}
			if firstCorr == nil {
				firstCorr, corrAt = v, i
			}
			r.useOrc = false
		}
		if guests && len(r.nodes) > before {
			if v := r.guestCheck(len(r.nodes)-1, true); v != nil {
				return v, i, r
			}
		}
	}
	if guests {
		for i := range r.nodes {
			if v := r.guestCheck(i, false); v != nil {
				return v, len(t.Steps) - 1, r
			}
		}
	}
	if firstCorr != nil {
		return firstCorr, corrAt, r
	}
	return nil, -1, r
}

// shrink: drop steps (and everything depending on them) while the same signature still fails.
func shrink(t Tree, sig string) Tree {
	fails := func(c Tree) bool {
		v, _, r := runTree(c, false, false, true)
		r.close()
		return v != nil && v.sig == sig
	}
	cur := t
	for changed := true; changed; {
		changed = false
		for i := len(cur.Steps) - 1; i >= 0; i-- {
			if c, ok := dropStep(cur, i); ok && fails(c) {
				cur, changed = c, true
			}
		}
	}
	return cur
}

// dropStep removes step i. Node numbering: roots 0..4, then one node per call step that returned a new node.
// To stay simple and sound it re-executes the tree to learn which steps create nodes.
func dropStep(t Tree, i int) (Tree, bool) {
	const nroots = 5
	// which node does each step create (-1 none)? learned from a real run
	creates := make([]int, len(t.Steps))
	{
		r := newRun(false)
		r.quiet = true
		r.roots()
		for k, st := range t.Steps {
			before := len(r.nodes)
			r.doStep(st)
			creates[k] = -1
			if len(r.nodes) > before {
				creates[k] = before
			}
		}
		r.close()
	}
	removed := map[int]bool{} // node ids that disappear
	remap := map[int]int{}
	for k := 0; k < nroots; k++ {
		remap[k] = k
	}
	next := nroots
	var out Tree
	for k, st := range t.Steps {
		dep := removed[st.Parent]
		for _, a := range st.Args {
			if a.Type == "wazero.FSConfig" && a.Node >= 0 && removed[a.Node] {
				dep = true
			}
		}
		if k == i || dep {
			if creates[k] >= 0 {
				removed[creates[k]] = true
			}
			continue
		}
		ns := st
		ns.Parent = remap[st.Parent]
		ns.Args = append([]ArgSpec(nil), st.Args...)
		for j := range ns.Args {
			if ns.Args[j].Type == "wazero.FSConfig" && ns.Args[j].Node >= 0 {
				ns.Args[j].Node = remap[ns.Args[j].Node]
			}
		}
		if creates[k] >= 0 {
			remap[creates[k]] = next
			next++
		}
		out.Steps = append(out.Steps, ns)
	}
	return out, len(out.Steps) < len(t.Steps)
}

func describe(t Tree) []string {
	var out []string
	out = append(out, "node0=NewRuntimeConfigInterpreter() node1=NewRuntimeConfig() node2=NewModuleConfig() node3=NewFSConfig() node4=&sock.Config{}")
	r := newRun(false)
	r.quiet = true
	r.roots()
	for _, st := range t.Steps {
		before := len(r.nodes)
		r.doStep(st)
		res := ""
		if len(r.nodes) > before {
			res = fmt.Sprintf("node%d = ", before)
		}
		if st.Op == "inst" {
			out = append(out, fmt.Sprintf("InstantiateModule(ctx[sock=%v port-in-use=%v], %s, node%d)", st.Sock, st.Busy, map[bool]string{false: "guest", true: "compiled host module"}[st.Host], st.Parent))
		} else {
			out = append(out, fmt.Sprintf("%snode%d.%s(%s)", res, st.Parent, st.Method, argText(st.Args)))
		}
	}
	r.close()
	return out
}

func report(v *verdict, t Tree, failing int) {
	in := Tree{Steps: t.Steps[:failing+1]}
	if v.kind == "impl-violation" {
		in = shrink(in, v.sig)
	}
	rep.Violate(hx.Violation{Kind: v.kind, Signature: v.sig, What: v.what + " | derivation: " + strings.Join(describe(in), " ; "),
		Input: in, Expected: v.expected, Actual: v.actual})
}

// ---------------------------------------------------------------------------------------------
// fixed witnesses (run first): the derive-derive-inspect and the parent-rewrite pattern, instantiate with sock

func env(parent int, k, v string) Step {
	return Step{Op: "call", Parent: parent, Method: "WithEnv", Args: []ArgSpec{{Name: "key", Type: "string", S: k}, {Name: "value", Type: "string", S: v}}}
}

func witnesses() []Tree {
	return []Tree{
		// parent rewrite: node5 = base.WithEnv(A,1); node6 = node5.WithEnv(A,changed)  -> node5 must still see A=1
		{Steps: []Step{env(2, "A", "1"), env(5, "A", "changed")}},
		// siblings: a chain to get spare capacity, then two children of the same parent
		{Steps: []Step{env(2, "A", "1"), env(5, "B", "2"), env(6, "C", "3"), env(7, "D", "4"), env(7, "E", "5")}},
		// instantiate with a sock config in the context, then without
		{Steps: []Step{env(2, "A", "1"), {Op: "inst", Parent: 5, Sock: true}, {Op: "inst", Parent: 5, Sock: false}}},
		// a HOST module instantiated with a configuration that names start functions, then a guest with the same value
		{Steps: []Step{{Op: "call", Parent: 2, Method: "WithStartFunctions", Args: []ArgSpec{{Name: "startFunctions", Type: "[]string", L: []string{"_start", "main"}}}}, {Op: "inst", Parent: 5, Host: true}, env(5, "B", "2"), {Op: "inst", Parent: 5}, {Op: "inst", Parent: 6}}},
		// an instantiation with a sock config that FAILS (port in use), then derive from / reuse the same configuration
		{Steps: []Step{env(2, "A", "1"), {Op: "inst", Parent: 5, Sock: true, Busy: true}, env(5, "B", "2"), {Op: "inst", Parent: 5, Sock: false}, {Op: "inst", Parent: 6, Sock: false}}},
	}
}

// ---------------------------------------------------------------------------------------------
// concurrency: several goroutines derive from the same base nodes; compare with the sequential run

func concurrentPhase(rnd *rand.Rand, rounds, workers, stepsPer int) {
	for round := 0; round < rounds; round++ {
		// a base tree, built sequentially
		base := Tree{}
		r := newRun(false)
		r.quiet = true
		r.roots()
		for len(base.Steps) < 12 {
			st, ok := genStep(rnd, r, 0, nil)
			if !ok {
				continue
			}
			r.doStep(st)
			base.Steps = append(base.Steps, st)
		}
		nbase := len(r.nodes)
		// per worker step lists: receivers are base nodes or the worker's own nodes
		plans := make([][]Step, workers)
		seeds := make([]int64, workers)
		for w := range plans {
			seeds[w] = rnd.Int63()
		}
		var wg sync.WaitGroup
		results := make([][]map[string]string, workers)
		var mu sync.Mutex
		for w := 0; w < workers; w++ {
			wg.Add(1)
			go func(w int) {
				defer wg.Done()
				wr := rand.New(rand.NewSource(seeds[w]))
				own := []*node{}
				for k := 0; k < stepsPer; k++ {
					// choose receiver
					var p *node
					if len(own) > 0 && wr.Intn(2) == 0 {
						p = own[wr.Intn(len(own))]
					} else {
						p = r.nodes[wr.Intn(nbase)]
					}
					if p.kind == "moduleConfig" && wr.Intn(10) == 0 {
						plans[w] = append(plans[w], Step{Op: "inst", Parent: -1})
						wrun := &run{ctx: context.Background(), quiet: true}
						wrun.instantiate(p, wr.Intn(2) == 0, false)
						wrun.close()
						continue
					}
					ms := withMethods(p.cfg)
					name := ms[wr.Intn(len(ms))]
					if p.kind == "moduleConfig" && wr.Intn(2) == 0 {
						name = "WithEnv"
					}
					m := reflect.ValueOf(p.cfg).MethodByName(name)
					mt := m.Type()
					s := getSigCached(p.kind, name)
					var in []reflect.Value
					okAll := true
					for i := 0; i < mt.NumIn(); i++ {
						pname := fmt.Sprintf("p%d", i)
						if i < len(s.params) {
							pname = s.params[i]
						}
						a, ok := genArg(wr, r, name, pname, mt.In(i), mt.IsVariadic() && i == mt.NumIn()-1)
						if !ok {
							okAll = false
							break
						}
						in = append(in, materialize(r, a, mt.In(i))...)
					}
					if !okAll {
						continue
					}
					var out []reflect.Value
					func() {
						defer func() { recover() }()
						out = m.Call(in)
					}()
					if out == nil {
						continue
					}
					res := out[0].Elem().Interface()
					if out[0].Kind() != reflect.Interface {
						res = out[0].Interface()
					}
					n := &node{kind: kindOf(res), cfg: res, ptr: ptrOf(res), snap: snapshot(res)}
					own = append(own, n)
				}
				// final: every own node still has the value it had when created
				var snaps []map[string]string
				for _, n := range own {
					now := snapshot(n.cfg)
					if d := diffSnap(n.snap, now); len(d) > 0 {
						mu.Lock()
						rep.Violate(hx.Violation{Kind: "impl-violation", Signature: "C19:under-concurrency-changes-" + n.kind + "." + strings.Join(d, "+"),
							What:  fmt.Sprintf("a %s derived in one goroutine changed while other goroutines derived from the same base (fields %v)", n.kind, d),
							Input: map[string]any{"base": base, "workers": workers}, Expected: n.snap, Actual: now})
						mu.Unlock()
					}
					snaps = append(snaps, now)
				}
				results[w] = snaps
			}(w)
		}
		wg.Wait()
		for i := 0; i < nbase; i++ {
			n := r.nodes[i]
			now := snapshot(n.cfg)
			if d := diffSnap(n.snap, now); len(d) > 0 {
				rep.Violate(hx.Violation{Kind: "impl-violation", Signature: "C19:under-concurrency-changes-base-" + n.kind + "." + strings.Join(d, "+"),
					What:  fmt.Sprintf("base node %d (%s) changed while %d goroutines derived from it (fields %v)", i, n.origin, workers, d),
					Input: map[string]any{"base": base, "workers": workers}, Expected: n.snap, Actual: now})
			}
		}
		r.close()
		rep.Case(fmt.Sprintf("concurrent-round-%d", round))
		rep.Count("concurrent-rounds")
	}
}

func getSigCached(kind, method string) sig {
	sigMu.Lock()
	defer sigMu.Unlock()
	return sigCache[kind+"."+method]
}

// preloadSigs asks the oracle for every signature once (the oracle pipe is not used from worker goroutines).
func preloadSigs() {
	for _, cfg := range []any{wazero.NewRuntimeConfig(), wazero.NewModuleConfig(), wazero.NewFSConfig(), &internalsock.Config{}} {
		for _, m := range withMethods(cfg) {
			s := getSig(kindOf(cfg), m)
			if !s.known && orc != nil {
				rep.Violate(hx.Violation{Kind: "correspondence", Signature: "C19:method-not-in-effect-table:" + kindOf(cfg) + "." + m,
					What: "the real type has a With… method the regenerated table does not list"})
			}
		}
	}
}

// raceChild builds this program with -race and runs the concurrent phase in it (thorough tier; optional).
func raceChild() {
	if *hx.Work == "" {
		return
	}
	bin := filepath.Join(*hx.Work, "hc19race")
	args := []string{"build", "-race"}
	if mf := filepath.Join(*hx.Work, "go.mod"); fileExists(mf) {
		args = append(args, "-modfile="+mf)
	}
	args = append(args, "-o", bin, "./cmd/hc19")
	cmd := exec.Command("go", args...)
	cmd.Env = append(os.Environ(), "CGO_ENABLED=1")
	if out, err := cmd.CombinedOutput(); err != nil {
		rep.Note("race detector unavailable (go build -race failed: %s); concurrent phase ran without it", clean(firstLine(string(out))))
		rep.Count("race-build-unavailable")
		return
	}
	outp := filepath.Join(*hx.Work, "hc19race.json")
	c := exec.Command(bin, "-racechild", "-seed", fmt.Sprint(*hx.Seed), "-tier", *hx.Tier, "-work", filepath.Join(*hx.Work, "race"), "-out", outp)
	c.Env = append(os.Environ(), "GORACE=halt_on_error=0 exitcode=66 log_path="+filepath.Join(*hx.Work, "race.log"))
	out, err := c.CombinedOutput()
	code := 0
	if ee, ok := err.(*exec.ExitError); ok {
		code = ee.ExitCode()
	} else if err != nil {
		rep.Note("race child could not run: %v", err)
		return
	}
	logs, _ := filepath.Glob(filepath.Join(*hx.Work, "race.log*"))
	var racetxt string
	for _, l := range logs {
		b, _ := os.ReadFile(l)
		racetxt += string(b)
	}
	if code == 66 || strings.Contains(racetxt, "DATA RACE") {
		loc := raceLocation(racetxt)
		rep.Violate(hx.Violation{Kind: "impl-violation", Signature: "C19:race-detector:" + loc,
			What:   "go's race detector reports a data race while several goroutines derive from / instantiate with shared configurations: " + loc,
			Input:  map[string]any{"seed": *hx.Seed, "how": "hc19 -racechild (binary built with -race)"},
			Actual: truncate(racetxt, 3000)})
	} else if code != 0 {
		hx.Fatal("race child failed (rc=%d): %s", code, truncate(string(out), 2000))
	}
	// merge the child's own violations and counters
	if b, err := os.ReadFile(outp); err == nil {
		var cr struct {
			Violations []hx.Violation `json:"violations"`
			Hist       map[string]int `json:"histogram"`
		}
		if json.Unmarshal(b, &cr) == nil {
			for _, v := range cr.Violations {
				rep.Violate(v)
			}
			rep.Count("race-child-ran")
		}
	}
}

func raceLocation(txt string) string {
	// first wazero frame after "DATA RACE"
	for _, line := range strings.Split(txt, "\n") {
		line = strings.TrimSpace(line)
		if strings.HasPrefix(line, "github.com/tetratelabs/wazero.") {
			fn := strings.TrimPrefix(line, "github.com/tetratelabs/wazero.")
			if i := strings.Index(fn, "("); i > 0 && !strings.HasPrefix(fn, "(") {
				fn = fn[:i]
			}
			return clean(fn)
		}
	}
	return "unknown"
}

func firstLine(s string) string {
	if i := strings.Index(s, "\n"); i >= 0 {
		return s[:i]
	}
	return s
}
func truncate(s string, n int) string {
	if len(s) > n {
		return s[:n]
	}
	return s
}
func fileExists(p string) bool { _, err := os.Stat(p); return err == nil }

// ---------------------------------------------------------------------------------------------

func main() {
	flag.Parse()
	work := *hx.Work
	if work == "" {
		hx.Fatal("-work is required")
	}
	if err := os.MkdirAll(work, 0o755); err != nil {
		hx.Fatal("work: %v", err)
	}
	setupPools(work)
	rnd := hx.Rand()
	rep = hx.NewReport("C19", "derivation trees: 5 roots (New…Config of every kind) + random steps, each = (any earlier node, any of its With… methods found by reflection, arguments from pools straddling slice capacities) or InstantiateModule(node, ctx with/without sock.Config); after every step all earlier nodes are re-snapshotted and the model dump compared; distinct = distinct (receiver kind, method, receiver's slice len/cap state, argument class) step classes; plus concurrent rounds (8 goroutines deriving from 17 shared nodes)")

	if *raceMode {
		// only the concurrent phase, no oracle (signatures are not needed for the monitor; names default to p<i>,
		// so pools by parameter name fall back to generic strings except where the type decides)
		loadSigsFromEnv()
		concurrentPhase(rnd, 6, 8, 40)
		rep.Write(nil)
		return
	}

	orc = hx.StartOracle()
	defer orc.Close()
	preloadSigs()
	saveSigsToEnv()

	// what the classifier says about the regenerated table (reported, the theorem is checked by lake)
	safe := orc.Ask("c19 safe")
	rep.Note("classifier on the regenerated effect table: %s", safe)
	rep.Count("table-methods:" + fmt.Sprint(len(strings.Split(orc.Ask("c19 methods"), ","))))

	if *hx.Replay != "" {
		replay(*hx.Replay)
		rep.Write(orc)
		return
	}

	for i, t := range witnesses() {
		v, at, r := runTree(t, true, true, false)
		r.close()
		rep.Case(fmt.Sprintf("witness-%d", i))
		rep.Count("witness-trees")
		if v != nil {
			report(v, t, at)
		}
	}

	ntrees, nsteps := 60, 40
	if hx.Thorough() {
		ntrees, nsteps = 600, 60
	}
	refw := map[string]bool{}
	for _, m := range split(orc.Ask("c19 refwriters")) {
		refw[m] = true
	}
	for k := 0; k < ntrees; k++ {
		explore(nsteps, k%3 == 0, k < 2, func(r *run) (Step, bool) { return genStep(rnd, r, 4, refw) })
	}
	// targeted search (DESIGN section 3, verdict rule iii): around every method the classifier rejects,
	// and around every method that writes through a reference: a chain of calls (capacities 1,2,4,8,…),
	// then two children of every chain node (the derive-derive-inspect pattern).
	targets := map[string]bool{}
	for m := range refw {
		targets[m] = true
	}
	if strings.HasPrefix(safe, "unsafe:") {
		for _, m := range split(strings.TrimPrefix(safe, "unsafe:")) {
			targets[m] = true
		}
	}
	var tl []string
	for m := range targets {
		tl = append(tl, m)
	}
	sort.Strings(tl)
	reps := 2
	if hx.Thorough() {
		reps = 10
	}
	for _, m := range tl {
		if strings.HasSuffix(m, ".InstantiateModule") {
			continue
		}
		dot := strings.LastIndex(m, ".")
		kind, method := m[:dot], m[dot+1:]
		for k := 0; k < reps; k++ {
			var chain []int
			phase := 0
			explore(30, false, false, func(r *run) (Step, bool) {
				root := -1
				for i, n := range r.nodes {
					if n.kind == kind {
						root = i
						break
					}
				}
				if root < 0 || !reflect.ValueOf(r.nodes[root].cfg).MethodByName(method).IsValid() {
					return Step{}, false
				}
				if len(chain) == 0 {
					chain = []int{root}
				}
				// the node created by the previous chain step
				if phase > 0 && phase <= 8 && len(r.nodes)-1 != chain[len(chain)-1] && r.nodes[len(r.nodes)-1].kind == kind {
					chain = append(chain, len(r.nodes)-1)
				}
				phase++
				recv := chain[len(chain)-1]
				if phase > 8 {
					recv = chain[((phase-9)/2)%len(chain)]
				}
				return genCall(rnd, r, recv, method)
			})
			rep.Count("targeted-trees")
		}
	}
	// coverage: every With… method of the table was exercised
	for _, m := range strings.Split(orc.Ask("c19 methods"), ",") {
		if !covered[m] && !strings.HasSuffix(m, ".InstantiateModule") {
			rep.Note("method never exercised on this run: %s", m)
			rep.Count("unexercised-method")
		}
	}

	rounds := 4
	if hx.Thorough() {
		rounds = 20
	}
	concurrentPhase(rnd, rounds, 8, 40)
	if hx.Thorough() {
		raceChild()
	}
	if guestInfraErr != "" {
		if len(rep.Violations) == 0 {
			hx.Fatal("guest runtime could not be set up: %s", guestInfraErr)
		}
		rep.Note("guest runtime could not be set up (%s); guest views were not compared on this run", guestInfraErr)
	}
	rep.Write(orc)
}

var covered = map[string]bool{}

// explore builds one tree step by step with the chooser, under monitor and model.
func explore(nsteps int, guests bool, sample bool, choose func(r *run) (Step, bool)) {
	r := newRun(true)
	hidden = map[int]string{}
	r.roots()
	var t Tree
	var bad, firstCorr *verdict
	corrAt := -1
	for len(t.Steps) < nsteps && bad == nil {
		st, ok := choose(r)
		if !ok {
			break
		}
		p := r.nodes[st.Parent]
		key := stepClass(p, st)
		t.Steps = append(t.Steps, st)
		before := len(r.nodes)
		bad = r.doStep(st)
		if bad != nil && bad.kind == "correspondence" {
			// model and code disagree on this step: the history goes on against the direct monitors alone (see runTree)
			if firstCorr == nil {
				firstCorr, corrAt = bad, len(t.Steps)-1
			}
			bad = nil
			r.useOrc = false
		}
		rep.Case(key)
		what := st.Method
		if st.Op == "inst" {
			what = fmt.Sprintf("InstantiateModule[sock=%v port-in-use=%v]", st.Sock, st.Busy)
		}
		rep.Count("step:" + p.kind + "." + what)
		covered[p.kind+"."+st.Method] = true
		if bad == nil && guests && len(r.nodes) > before {
			bad = r.guestCheck(len(r.nodes)-1, true)
		}
	}
	if bad == nil && guests {
		for i := range r.nodes {
			if bad = r.guestCheck(i, false); bad != nil {
				break
			}
		}
	}
	if sample {
		rep.Sample(map[string]any{"tree": describe(t)[:min(12, len(t.Steps)+1)]})
	}
	r.close()
	if bad != nil {
		report(bad, t, len(t.Steps)-1)
	} else if firstCorr != nil {
		report(firstCorr, Tree{Steps: t.Steps[:corrAt+1]}, corrAt)
	}
}

func stepClass(p *node, st Step) string {
	if st.Op == "inst" {
		return fmt.Sprintf("inst/%v/%v/%v", st.Sock, st.Busy, st.Host)
	}
	sv := structOf(p.cfg)
	var caps []string
	for i := 0; i < sv.NumField(); i++ {
		if f := sv.Field(i); f.Kind() == reflect.Slice {
			caps = append(caps, fmt.Sprintf("%d/%d", f.Len(), f.Cap()))
		}
	}
	var ac []string
	for _, a := range st.Args {
		switch a.Type {
		case "string":
			ac = append(ac, a.S)
		case "[]string":
			ac = append(ac, fmt.Sprint(len(a.L)))
		default:
			ac = append(ac, fmt.Sprint(a.N, a.Pool))
		}
	}
	return fmt.Sprintf("%s.%s[%s](%s)", p.kind, st.Method, strings.Join(caps, ","), strings.Join(ac, ","))
}

// the race child has no oracle: parameter names travel through a file in the work directory
func sigFile() string {
	return filepath.Join(filepath.Dir(strings.TrimRight(*hx.Work, "/")), "c19sigs.json")
}

func saveSigsToEnv() {
	type js struct {
		Params []string
		Known  bool
	}
	m := map[string]js{}
	for k, s := range sigCache {
		m[k] = js{s.params, s.known}
	}
	b, _ := json.Marshal(m)
	os.WriteFile(filepath.Join(*hx.Work, "c19sigs.json"), b, 0o644)
}

func loadSigsFromEnv() {
	b, err := os.ReadFile(sigFile())
	if err != nil {
		return
	}
	type js struct {
		Params []string
		Known  bool
	}
	m := map[string]js{}
	if json.Unmarshal(b, &m) == nil {
		for k, s := range m {
			sigCache[k] = sig{params: s.Params, known: s.Known}
		}
	}
}

// replay: re-run the derivations recorded in a replay file written by ./check (or a bare Tree JSON).
func replay(path string) {
	if !fileExists(path) && !filepath.IsAbs(path) && os.Getenv("VERIF_ROOT") != "" {
		path = filepath.Join(os.Getenv("VERIF_ROOT"), path) // the driver runs us with cwd=harness/
	}
	b, err := os.ReadFile(path)
	if err != nil {
		hx.Fatal("replay: %v", err)
	}
	var f struct {
		Impl []struct {
			Input json.RawMessage `json:"input"`
		} `json:"impl_violations"`
		Broken []struct {
			Detail json.RawMessage `json:"detail"`
		} `json:"broken"`
		Steps []Step `json:"steps"`
	}
	if err := json.Unmarshal(b, &f); err != nil {
		hx.Fatal("replay: %v", err)
	}
	var trees []Tree
	if len(f.Steps) > 0 {
		trees = append(trees, Tree{Steps: f.Steps})
	}
	for _, v := range f.Impl {
		var t Tree
		if json.Unmarshal(v.Input, &t) == nil && len(t.Steps) > 0 {
			trees = append(trees, t)
		}
	}
	for _, br := range f.Broken {
		var d struct {
			Input Tree `json:"input"`
		}
		if json.Unmarshal(br.Detail, &d) == nil && len(d.Input.Steps) > 0 {
			trees = append(trees, d.Input)
		}
	}
	if len(trees) == 0 {
		rep.Note("replay file has no derivation tree; nothing replayed")
	}
	for i, t := range trees {
		v, at, r := runTree(t, true, true, false)
		r.close()
		rep.Case(fmt.Sprintf("replay-%d", i))
		if v != nil {
			report(v, t, at)
		} else {
			rep.Note("replayed tree %d: no violation (%s)", i, strings.Join(describe(t), " ; "))
		}
	}
}

var _ = io.EOF
