// hc04: correspondence + monitor harness for C04 (linked modules share state as the specification says).
//
// Tie B: graphs of 2–4 real modules (own binary encoder) are instantiated on both engines; every
// instantiation outcome, every result and the complete state seen through every instance after every
// operation is compared with the Lean store (topic c04 of the oracle).
// Tie C (the property's own predicates on the real code, independent of the Lean model):
//   - an accepted import is compatible by the spec's external-type matching (effective memory maximum);
//   - after every write, every alias of the object (guest view and host-API view of every instance that
//     holds it) returns the value written; host and guest views of everything agree after every step;
//   - interpreter and compiler produce identical transcripts;
//   - `global.get` constant expressions capture the imported global's current value;
//   - after a failed instantiation the earlier instances answer and changed only inside the failing
//     module's segment footprint.
package main

import (
	"context"
	"encoding/json"
	"flag"
	"fmt"
	"hash/fnv"
	"os"
	"sync"

	"github.com/tetratelabs/wazero"
	"github.com/tetratelabs/wazero/api"
	"github.com/tetratelabs/wazero/experimental"
	"github.com/tetratelabs/wazero/verifharness/hx"
)

var (
	orc *hx.Oracle
	rep *hx.Report
)

func u32p(v uint32) *uint32 { return &v }

// probeF2: the finding switch. A module whose global initialiser reads a MUTABLE imported global.
func probeF2() bool {
	d := &Desc{Name: "probe", Imports: []Imp{{Mod: "A", Name: "g", Kind: 'g', VT: tI32, Mut: true}},
		Globals: []LGlobal{{VT: tI32, Init: CE{K: 'g', V: 0}}}}
	ctx := context.Background()
	rt := wazero.NewRuntimeWithConfig(ctx, wazero.NewRuntimeConfigInterpreter().WithCoreFeatures(api.CoreFeaturesV2|experimental.CoreFeaturesThreads))
	defer rt.Close(ctx)
	_, err := rt.CompileModule(ctx, d.Encode())
	return err == nil
}

func hashKey(s string) string {
	h := fnv.New64a()
	h.Write([]byte(s))
	return fmt.Sprintf("%016x", h.Sum64())
}

func main() {
	flag.Parse()
	rep = hx.NewReport("C04", "a case = one scenario (a graph of 2-4 modules with imports of every extern kind, interleaved reads/writes through "+
		"each instance and the host API, failing instantiations in the middle) run on BOTH engines against the Lean store; distinct by the hash of "+
		"(descriptors, operation list, memory limit); every case instantiates at least two linked modules")
	orc = hx.StartOracle()
	defer orc.Close()

	f2AsIs = probeF2()
	rep.Note("finding switch F2: the tree under test %s a global.get of a mutable imported global in a constant expression => model variant constMutOK=%v",
		map[bool]string{true: "ACCEPTS", false: "rejects"}[f2AsIs], f2AsIs)

	if *hx.Replay != "" {
		raw, err := os.ReadFile(*hx.Replay)
		if err != nil {
			hx.Fatal("replay: %v", err)
		}
		var rp struct {
			Input struct {
				Scenario *Scenario `json:"scenario"`
			} `json:"input"`
		}
		if err := json.Unmarshal(raw, &rp); err != nil || rp.Input.Scenario == nil {
			hx.Fatal("replay: cannot find input.scenario in %s: %v", *hx.Replay, err)
		}
		runScenario(rp.Input.Scenario)
		rep.Write(orc)
		return
	}

	var scs []*Scenario
	scs = append(scs, witnessScenarios()...)
	scs = append(scs, globalGrid()...)
	scs = append(scs, funcGrid()...)
	scs = append(scs, memoryGrid()...)
	scs = append(scs, tableGrid()...)
	scs = append(scs, captureGrid()...)
	scs = append(scs, failureGrid()...)
	nRandom := 500
	if hx.Thorough() {
		nRandom = 12000
	}
	rng := hx.Rand()
	for i := 0; i < nRandom; i++ {
		scs = append(scs, randomScenario(rng, i))
	}

	// scenarios are independent (own runtime, own oracle store id): run on a worker pool
	var wg sync.WaitGroup
	ch := make(chan *Scenario)
	for w := 0; w < 12; w++ {
		wg.Add(1)
		go func() {
			defer wg.Done()
			for sc := range ch {
				runScenario(sc)
			}
		}()
	}
	for i, sc := range scs {
		rep.Count("scenario:" + sc.Tag)
		if i < 6 || sc.Tag == "random" && i%997 == 0 {
			rep.Sample(map[string]any{"tag": sc.Tag, "key": sc.key()})
		}
		ch <- sc
	}
	close(ch)
	wg.Wait()
	rep.Exhaustive = false
	rep.Write(orc)
}
