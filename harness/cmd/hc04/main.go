// hc04: correspondence + monitor harness for C04 (linked modules share state as the specification says).
//
// Tie B: graphs of 2–4 real modules (own binary encoder) are instantiated on both engines; every
// instantiation outcome, every result and the complete state seen through every instance after every
// operation is compared with the Lean store (topic c04 of the oracle).
// Tie C (the property's own predicates on the real code, independent of the Lean model):
//   - an accepted import is compatible by the spec's external-type matching (effective memory maximum);
//   - after every write, every alias of the object (guest view and host-API view of every instance that
//     holds it) returns the value written; host and guest views of everything agree after every step;
//   - interpreter and compiler produce identical transcripts;
//   - `global.get` constant expressions capture the imported global's current value;
//   - after a failed instantiation the earlier instances answer and changed only inside the failing
//     module's segment footprint.
package main

import (
	"bytes"
	"context"
	"encoding/json"
	"flag"
	"fmt"
	"hash/fnv"
	"os"
	"os/exec"
	"path/filepath"
	"strings"
	"sync"

	"github.com/tetratelabs/wazero"
	"github.com/tetratelabs/wazero/api"
	"github.com/tetratelabs/wazero/experimental"
	"github.com/tetratelabs/wazero/verifharness/hx"
)

var (
	orc *hx.Oracle
	rep *hx.Report
)

func u32p(v uint32) *uint32 { return &v }

// probeF2: the finding switch. A module whose global initialiser reads a MUTABLE imported global.
func probeF2() bool {
	d := &Desc{Name: "probe", Imports: []Imp{{Mod: "A", Name: "g", Kind: 'g', VT: tI32, Mut: true}},
		Globals: []LGlobal{{VT: tI32, Init: CE{K: 'g', V: 0}}}}
	ctx := context.Background()
	rt := wazero.NewRuntimeWithConfig(ctx, wazero.NewRuntimeConfigInterpreter().WithCoreFeatures(api.CoreFeaturesV2|experimental.CoreFeaturesThreads))
	defer rt.Close(ctx)
	_, err := rt.CompileModule(ctx, d.Encode())
	return err == nil
}

func hashKey(s string) string {
	h := fnv.New64a()
	h.Write([]byte(s))
	return fmt.Sprintf("%016x", h.Sum64())
}

var (
	childMode = flag.Bool("hc04child", false, "internal: run the scenarios (the parent supervises: a crash of the process is a verdict about a scenario, not a fault of the harness)")
	onlyKey   = flag.String("only", "", "internal: run only the scenario with this key")
	progMu    sync.Mutex
	progFile  *os.File
)

func progress(line string) {
	if progFile == nil {
		return
	}
	progMu.Lock()
	fmt.Fprintln(progFile, line)
	progMu.Unlock()
}

// supervise runs this binary as a child; if the child dies (fatal error, signal) the scenarios that were in flight
// are re-run alone to find the one that kills the process.
func supervise() {
	self, err := os.Executable()
	if err != nil {
		hx.Fatal("executable: %v", err)
	}
	prog := filepath.Join(*hx.Work, "hc04-progress.txt")
	runChild := func(extra ...string) (int, string) {
		os.Remove(prog)
		cmd := hx.Supervised(exec.Command(self, append(append([]string{}, os.Args[1:]...), append([]string{"-hc04child"}, extra...)...)...))
		cmd.Env = append(os.Environ(), "HC04_PROGRESS="+prog)
		var eb bytes.Buffer
		cmd.Stdout, cmd.Stderr = os.Stdout, &eb
		err := cmd.Run()
		rc := 0
		if err != nil {
			rc = 2
			if ee, ok := err.(*exec.ExitError); ok && ee.ExitCode() >= 0 {
				rc = ee.ExitCode()
			}
		}
		return rc, eb.String()
	}
	rc, stderr := runChild()
	crashed := strings.Contains(stderr, "fatal error:") || strings.Contains(stderr, "unexpected fault address") || strings.Contains(stderr, "SIGSEGV") || strings.Contains(stderr, "SIGBUS")
	if !crashed {
		os.Stderr.WriteString(stderr)
		os.Exit(rc)
	}
	// which scenarios were in flight?
	inflight := map[string]bool{}
	var order []string
	if raw, err := os.ReadFile(prog); err == nil {
		for _, ln := range strings.Split(string(raw), "\n") {
			f := strings.SplitN(ln, " ", 2)
			if len(f) != 2 {
				continue
			}
			if f[0] == "BEGIN" {
				inflight[f[1]] = true
				order = append(order, f[1])
			} else {
				delete(inflight, f[1])
			}
		}
	}
	rep = hx.NewReport("C04", "supervisor: the child process running the scenarios died; scenarios in flight re-run alone")
	tail := stderr
	if len(tail) > 1500 {
		tail = tail[:1500]
	}
	found := false
	for _, k := range order {
		if !inflight[k] {
			continue
		}
		rep.Case("crash-isolation/" + k)
		rc1, se := runChild("-only", k)
		if strings.Contains(se, "fatal error:") || strings.Contains(se, "unexpected fault address") || strings.Contains(se, "SIGSEGV") || rc1 == 2 && strings.Contains(se, "goroutine ") {
			found = true
			t := se
			if len(t) > 1200 {
				t = t[:1200]
			}
			rep.Violate(hx.Violation{Kind: "impl-violation", Signature: "C04:process-crash", What: "the process running this scenario dies (earlier instances are not usable and consistent after it): " + firstLine(t),
				Input: map[string]any{"scenario_key": k, "how_to": "hc04 -hc04child -only <key> with the same -seed/-tier"}, Actual: t})
		}
	}
	if !found {
		rep.Violate(hx.Violation{Kind: "impl-violation", Signature: "C04:process-crash", What: "the process running the scenarios died; none of the scenarios in flight reproduces it alone (timing / GC dependent): " + firstLine(tail),
			Input: map[string]any{"in_flight": order, "seed": *hx.Seed, "tier": *hx.Tier}, Actual: tail})
	}
	rep.Write(nil)
}

func firstLine(s string) string {
	for _, l := range strings.Split(s, "\n") {
		if strings.Contains(l, "fatal error") || strings.Contains(l, "fault address") || strings.Contains(l, "panic:") {
			return strings.TrimSpace(l)
		}
	}
	if i := strings.IndexByte(s, '\n'); i > 0 {
		return s[:i]
	}
	return s
}

func main() {
	flag.Parse()
	if !*childMode && *hx.Replay == "" {
		supervise()
		return
	}
	if p := os.Getenv("HC04_PROGRESS"); p != "" {
		progFile, _ = os.OpenFile(p, os.O_CREATE|os.O_WRONLY|os.O_APPEND, 0o644)
	}
	rep = hx.NewReport("C04", "a case = one scenario (a graph of 2-4 modules with imports of every extern kind, interleaved reads/writes through "+
		"each instance and the host API, failing instantiations in the middle) run on BOTH engines against the Lean store; distinct by the hash of "+
		"(descriptors, operation list, memory limit); every case instantiates at least two linked modules")
	orc = hx.StartOracle()
	defer orc.Close()

	f2AsIs = probeF2()
	rep.Note("finding switch F2: the tree under test %s a global.get of a mutable imported global in a constant expression => model variant constMutOK=%v",
		map[bool]string{true: "ACCEPTS", false: "rejects"}[f2AsIs], f2AsIs)

	if *hx.Replay != "" {
		raw, err := os.ReadFile(*hx.Replay)
		if err != nil {
			hx.Fatal("replay: %v", err)
		}
		var rp struct {
			Input struct {
				Scenario *Scenario `json:"scenario"`
			} `json:"input"`
		}
		if err := json.Unmarshal(raw, &rp); err != nil || rp.Input.Scenario == nil {
			hx.Fatal("replay: cannot find input.scenario in %s: %v", *hx.Replay, err)
		}
		runScenario(rp.Input.Scenario)
		rep.Write(orc)
		return
	}

	var scs []*Scenario
	scs = append(scs, witnessScenarios()...)
	scs = append(scs, globalGrid()...)
	scs = append(scs, funcGrid()...)
	scs = append(scs, reexportGrid()...)
	scs = append(scs, memoryGrid()...)
	scs = append(scs, tableGrid()...)
	scs = append(scs, captureGrid()...)
	scs = append(scs, failureGrid()...)
	nRandom := 500
	if hx.Thorough() {
		nRandom = 12000
	}
	rng := hx.Rand()
	for i := 0; i < nRandom; i++ {
		scs = append(scs, randomScenario(rng, i))
	}

	// scenarios are independent (own runtime, own oracle store id): run on a worker pool
	var wg sync.WaitGroup
	ch := make(chan *Scenario)
	for w := 0; w < 12; w++ {
		wg.Add(1)
		go func() {
			defer wg.Done()
			for sc := range ch {
				runScenario(sc)
			}
		}()
	}
	if *onlyKey != "" {
		var one []*Scenario
		for _, sc := range scs {
			if sc.key() == *onlyKey {
				one = append(one, sc)
			}
		}
		scs = one
	}
	for i, sc := range scs {
		rep.Count("scenario:" + sc.Tag)
		if i < 6 || sc.Tag == "random" && i%997 == 0 {
			rep.Sample(map[string]any{"tag": sc.Tag, "key": sc.key()})
		}
		ch <- sc
	}
	close(ch)
	wg.Wait()
	if *onlyKey == "" {
		growStage()
		concurrentCompileStage()
	}
	rep.Exhaustive = false
	rep.Write(orc)
}
