package main

// Module descriptors: the one in-memory structure from which both the oracle's descriptor tokens
// and the wasm binary (own encoder, independent of wazero's test encoder) are produced.

import (
	"encoding/hex"
	"fmt"
	"strings"

	"github.com/tetratelabs/wazero/internal/leb128"
)

const (
	tI32 = 0x7f
	tI64 = 0x7e
	tF32 = 0x7d
	tF64 = 0x7c
	tFR  = 0x70
	tER  = 0x6f
)

var vtChar = map[byte]byte{tI32: 'i', tI64: 'I', tF32: 'f', tF64: 'F', tFR: 'r', tER: 'e'}
var charVT = map[byte]byte{'i': tI32, 'I': tI64, 'f': tF32, 'F': tF64, 'r': tFR, 'e': tER}

func isRef(vt byte) bool { return vt == tFR || vt == tER }

type Imp struct {
	Mod  string  `json:"mod"`
	Name string  `json:"name"`
	Kind byte    `json:"kind"` // 'f','t','m','g'
	Sig  string  `json:"sig,omitempty"`
	VT   byte    `json:"vt,omitempty"` // global value type / table ref type
	Min  uint32  `json:"min,omitempty"`
	Max  *uint32 `json:"max,omitempty"`
	Mut  bool    `json:"mut,omitempty"`
	// Shared: memory imports only (threads proposal)
	Shared bool `json:"shared,omitempty"`
}

type LFunc struct {
	Sig   string `json:"sig"`
	Bump  int    `json:"bump"` // -1: constant body, else global index to increment
	Const uint32 `json:"const"`
}

type LTable struct {
	RT  byte    `json:"rt"`
	Min uint32  `json:"min"`
	Max *uint32 `json:"max,omitempty"`
}

type LMem struct {
	Min    uint32  `json:"min"`
	Max    *uint32 `json:"max,omitempty"`
	Shared bool    `json:"shared,omitempty"`
}

// CE is a constant expression: 'c' constant bits, 'g' global.get, 'f' ref.func, 'n' ref.null
type CE struct {
	K byte   `json:"k"`
	V uint64 `json:"v"`
}

type LGlobal struct {
	VT   byte `json:"vt"`
	Mut  bool `json:"mut"`
	Init CE   `json:"init"`
}

type Exp struct {
	Name string `json:"name"`
	Kind byte   `json:"kind"`
	Idx  uint32 `json:"idx"`
}

type Elem struct {
	Table uint32 `json:"table"`
	Off   CE     `json:"off"`
	Items []int  `json:"items"` // function index or -1 = null
}

type Data struct {
	Off   CE     `json:"off"`
	Bytes []byte `json:"bytes"`
}

type Start struct {
	Kind string `json:"kind"` // trap | set | settrap
	K    uint32 `json:"k"`
	V    uint64 `json:"v"`
}

type Desc struct {
	Name    string    `json:"name"`
	Imports []Imp     `json:"imports,omitempty"`
	Funcs   []LFunc   `json:"funcs,omitempty"`
	Tables  []LTable  `json:"tables,omitempty"`
	Mem     *LMem     `json:"mem,omitempty"`
	Globals []LGlobal `json:"globals,omitempty"`
	Exports []Exp     `json:"exports,omitempty"`
	Elems   []Elem    `json:"elems,omitempty"`
	Datas   []Data    `json:"datas,omitempty"`
	Start   *Start    `json:"start,omitempty"`
}

func optStr(m *uint32) string {
	if m == nil {
		return "-"
	}
	return fmt.Sprint(*m)
}

func (c CE) tok() string {
	if c.K == 'n' {
		return "n"
	}
	return fmt.Sprintf("%c%d", c.K, c.V)
}

func b01(b bool) string {
	if b {
		return "1"
	}
	return "0"
}

// Tokens renders the descriptor for the oracle.
func (d *Desc) Tokens() string {
	var t []string
	for _, i := range d.Imports {
		switch i.Kind {
		case 'f':
			t = append(t, fmt.Sprintf("if:%s:%s:%s", i.Mod, i.Name, i.Sig))
		case 't':
			t = append(t, fmt.Sprintf("it:%s:%s:%c:%d:%s", i.Mod, i.Name, vtChar[i.VT], i.Min, optStr(i.Max)))
		case 'm':
			t = append(t, fmt.Sprintf("im:%s:%s:%d:%s:%s", i.Mod, i.Name, i.Min, optStr(i.Max), b01(i.Shared)))
		case 'g':
			t = append(t, fmt.Sprintf("ig:%s:%s:%c:%s", i.Mod, i.Name, vtChar[i.VT], b01(i.Mut)))
		}
	}
	for _, f := range d.Funcs {
		if f.Bump >= 0 {
			t = append(t, fmt.Sprintf("lf:%s:b%d", f.Sig, f.Bump))
		} else {
			t = append(t, fmt.Sprintf("lf:%s:c%d", f.Sig, f.Const))
		}
	}
	for _, x := range d.Tables {
		t = append(t, fmt.Sprintf("lt:%c:%d:%s", vtChar[x.RT], x.Min, optStr(x.Max)))
	}
	if d.Mem != nil {
		t = append(t, fmt.Sprintf("lm:%d:%s:%s", d.Mem.Min, optStr(d.Mem.Max), b01(d.Mem.Shared)))
	}
	for _, g := range d.Globals {
		t = append(t, fmt.Sprintf("lg:%c:%s:%s", vtChar[g.VT], b01(g.Mut), g.Init.tok()))
	}
	for _, e := range d.Exports {
		t = append(t, fmt.Sprintf("ex:%s:%c:%d", e.Name, e.Kind, e.Idx))
	}
	for _, e := range d.Elems {
		items := "-"
		if len(e.Items) > 0 {
			var s []string
			for _, it := range e.Items {
				if it < 0 {
					s = append(s, "n")
				} else {
					s = append(s, fmt.Sprint(it))
				}
			}
			items = strings.Join(s, ",")
		}
		t = append(t, fmt.Sprintf("el:%d:%s:%s", e.Table, e.Off.tok(), items))
	}
	for _, x := range d.Datas {
		h := "-"
		if len(x.Bytes) > 0 {
			h = hex.EncodeToString(x.Bytes)
		}
		t = append(t, fmt.Sprintf("da:%s:%s", x.Off.tok(), h))
	}
	if d.Start != nil {
		switch d.Start.Kind {
		case "trap":
			t = append(t, "st:trap")
		default:
			t = append(t, fmt.Sprintf("st:%s:%d:%d", d.Start.Kind, d.Start.K, d.Start.V))
		}
	}
	return strings.Join(t, " ")
}

// ---- index spaces -------------------------------------------------------------------------

func (d *Desc) nImp(kind byte) int {
	n := 0
	for _, i := range d.Imports {
		if i.Kind == kind {
			n++
		}
	}
	return n
}

type gtype struct {
	VT  byte
	Mut bool
}

// GlobalTypes: the module's global index space.
func (d *Desc) GlobalTypes() []gtype {
	var r []gtype
	for _, i := range d.Imports {
		if i.Kind == 'g' {
			r = append(r, gtype{i.VT, i.Mut})
		}
	}
	for _, g := range d.Globals {
		r = append(r, gtype{g.VT, g.Mut})
	}
	return r
}

// TableRTs: the module's table index space.
func (d *Desc) TableRTs() []byte {
	var r []byte
	for _, i := range d.Imports {
		if i.Kind == 't' {
			r = append(r, i.VT)
		}
	}
	for _, t := range d.Tables {
		r = append(r, t.RT)
	}
	return r
}

// FuncSigs: the described function index space (imports then described local functions).
func (d *Desc) FuncSigs() []string {
	var r []string
	for _, i := range d.Imports {
		if i.Kind == 'f' {
			r = append(r, i.Sig)
		}
	}
	for _, f := range d.Funcs {
		r = append(r, f.Sig)
	}
	return r
}

func (d *Desc) HasMem() bool { return d.Mem != nil || d.nImp('m') > 0 }

// ---- binary encoder ---------------------------------------------------------------------------

type enc struct {
	types []string
}

func (e *enc) typeIdx(sig string) uint32 {
	for i, s := range e.types {
		if s == sig {
			return uint32(i)
		}
	}
	e.types = append(e.types, sig)
	return uint32(len(e.types) - 1)
}

func u32(v uint32) []byte { return leb128.EncodeUint32(v) }

func vec(items [][]byte) []byte {
	out := u32(uint32(len(items)))
	for _, it := range items {
		out = append(out, it...)
	}
	return out
}

func name(s string) []byte { return append(u32(uint32(len(s))), s...) }

func limits(min uint32, max *uint32) []byte {
	if max == nil {
		return append([]byte{0}, u32(min)...)
	}
	return append(append([]byte{1}, u32(min)...), u32(*max)...)
}

// memLimits: limits of a memory type; a shared memory (flag 3) always has a maximum
func memLimits(min uint32, max *uint32, shared bool) []byte {
	if !shared {
		return limits(min, max)
	}
	return append(append([]byte{3}, u32(min)...), u32(*max)...)
}

func section(id byte, body []byte) []byte {
	return append(append([]byte{id}, u32(uint32(len(body)))...), body...)
}

func sigBytes(sig string) []byte {
	parts := strings.SplitN(sig, ">", 2)
	out := []byte{0x60}
	out = append(out, u32(uint32(len(parts[0])))...)
	for i := 0; i < len(parts[0]); i++ {
		out = append(out, charVT[parts[0][i]])
	}
	out = append(out, u32(uint32(len(parts[1])))...)
	for i := 0; i < len(parts[1]); i++ {
		out = append(out, charVT[parts[1][i]])
	}
	return out
}

func constInstr(vt byte, bits uint64) []byte {
	switch vt {
	case tI32:
		return append([]byte{0x41}, leb128.EncodeInt32(int32(uint32(bits)))...)
	case tI64:
		return append([]byte{0x42}, leb128.EncodeInt64(int64(bits))...)
	case tF32:
		b := uint32(bits)
		return []byte{0x43, byte(b), byte(b >> 8), byte(b >> 16), byte(b >> 24)}
	case tF64:
		out := []byte{0x44}
		for i := 0; i < 8; i++ {
			out = append(out, byte(bits>>(8*i)))
		}
		return out
	}
	panic("constInstr: bad type")
}

func (c CE) bytes(vt byte) []byte {
	var out []byte
	switch c.K {
	case 'c':
		out = constInstr(vt, c.V)
	case 'g':
		out = append([]byte{0x23}, u32(uint32(c.V))...)
	case 'f':
		out = append([]byte{0xd2}, u32(uint32(c.V))...)
	case 'n':
		out = []byte{0xd0, vt}
	}
	return append(out, 0x0b)
}

type accFn struct {
	name string
	sig  string
	body []byte
}

func cat(parts ...[]byte) []byte {
	var out []byte
	for _, p := range parts {
		out = append(out, p...)
	}
	return out
}

// accessors: exported functions through which the harness reads/writes every object in the module's
// index spaces ("through this instance").
func (d *Desc) accessors(e *enc) []accFn {
	var fs []accFn
	for k, g := range d.GlobalTypes() {
		kk := u32(uint32(k))
		if isRef(g.VT) {
			fs = append(fs, accFn{fmt.Sprintf("acc_gget%d", k), ">i", cat([]byte{0x23}, kk, []byte{0xd1, 0x45})}) // global.get; ref.is_null; i32.eqz
		} else {
			c := string(vtChar[g.VT])
			fs = append(fs, accFn{fmt.Sprintf("acc_gget%d", k), ">" + c, cat([]byte{0x23}, kk)})
			if g.Mut {
				fs = append(fs, accFn{fmt.Sprintf("acc_gset%d", k), c + ">", cat([]byte{0x20, 0}, []byte{0x24}, kk)})
			}
		}
	}
	if d.HasMem() {
		fs = append(fs,
			accFn{"acc_load", "i>i", []byte{0x20, 0, 0x2d, 0, 0}},
			accFn{"acc_store", "ii>", []byte{0x20, 0, 0x20, 1, 0x3a, 0, 0}},
			accFn{"acc_msize", ">i", []byte{0x3f, 0}},
			accFn{"acc_mgrow", "i>i", []byte{0x20, 0, 0x40, 0}},
		)
	}
	sigs := d.FuncSigs()
	for f, sg := range sigs {
		if sg == ">i" {
			// a call from guest code (through the import indirection when f is imported)
			fs = append(fs, accFn{fmt.Sprintf("acc_call%d", f), ">i", cat([]byte{0x10}, u32(uint32(f)))})
		}
	}
	for t, rt := range d.TableRTs() {
		tt := u32(uint32(t))
		if rt == tFR {
			fs = append(fs, accFn{fmt.Sprintf("acc_tcall%d", t), "i>i", cat([]byte{0x20, 0, 0x11}, u32(e.typeIdx(">i")), tt)})
			for f := range sigs {
				fs = append(fs, accFn{fmt.Sprintf("acc_tset%d_%d", t, f), "i>", cat([]byte{0x20, 0, 0xd2}, u32(uint32(f)), []byte{0x26}, tt)})
			}
		}
		fs = append(fs,
			accFn{fmt.Sprintf("acc_tnull%d", t), "i>i", cat([]byte{0x20, 0, 0x25}, tt, []byte{0xd1})},
			accFn{fmt.Sprintf("acc_tsetnull%d", t), "i>", cat([]byte{0x20, 0, 0xd0, rt, 0x26}, tt)},
			accFn{fmt.Sprintf("acc_tsize%d", t), ">i", cat([]byte{0xfc, 0x10}, tt)},
			accFn{fmt.Sprintf("acc_tgrow%d", t), "i>i", cat([]byte{0xd0, rt, 0x20, 0, 0xfc, 0x0f}, tt)},
		)
	}
	return fs
}

// Encode produces the binary.
func (d *Desc) Encode() []byte {
	e := &enc{}
	gts := d.GlobalTypes()
	// imports
	var imps [][]byte
	for _, i := range d.Imports {
		b := cat(name(i.Mod), name(i.Name))
		switch i.Kind {
		case 'f':
			b = cat(b, []byte{0}, u32(e.typeIdx(i.Sig)))
		case 't':
			b = cat(b, []byte{1, i.VT}, limits(i.Min, i.Max))
		case 'm':
			b = cat(b, []byte{2}, memLimits(i.Min, i.Max, i.Shared))
		case 'g':
			m := byte(0)
			if i.Mut {
				m = 1
			}
			b = cat(b, []byte{3, i.VT, m})
		}
		imps = append(imps, b)
	}
	nImpF := d.nImp('f')
	// local functions: described, accessors, start
	var funcTypes []uint32
	var bodies [][]byte
	for _, f := range d.Funcs {
		funcTypes = append(funcTypes, e.typeIdx(f.Sig))
		var body []byte
		res := f.Sig[strings.Index(f.Sig, ">")+1:]
		if f.Bump >= 0 {
			k := u32(uint32(f.Bump))
			body = cat([]byte{0x23}, k, []byte{0x41, 1, 0x6a, 0x24}, k, []byte{0x23}, k)
		} else {
			for i := 0; i < len(res); i++ {
				vt := charVT[res[i]]
				if isRef(vt) {
					body = append(body, 0xd0, vt)
				} else {
					body = append(body, constInstr(vt, uint64(f.Const))...)
				}
			}
		}
		bodies = append(bodies, body)
	}
	accs := d.accessors(e)
	var exps [][]byte
	for i, a := range accs {
		funcTypes = append(funcTypes, e.typeIdx(a.sig))
		bodies = append(bodies, a.body)
		exps = append(exps, cat(name(a.name), []byte{0}, u32(uint32(nImpF+len(d.Funcs)+i))))
	}
	var startIdx *uint32
	if d.Start != nil {
		var body []byte
		if d.Start.Kind == "set" || d.Start.Kind == "settrap" {
			body = cat(constInstr(gts[d.Start.K].VT, d.Start.V), []byte{0x24}, u32(d.Start.K))
		}
		if d.Start.Kind == "trap" || d.Start.Kind == "settrap" {
			body = append(body, 0x00)
		}
		funcTypes = append(funcTypes, e.typeIdx(">"))
		bodies = append(bodies, body)
		s := uint32(nImpF + len(funcTypes) - 1)
		startIdx = &s
	}
	// exports of every object (for the host API views) + the described exports
	for k := range d.FuncSigs() {
		exps = append(exps, cat(name(fmt.Sprintf("acc_f%d", k)), []byte{0}, u32(uint32(k))))
	}
	for k := range gts {
		exps = append(exps, cat(name(fmt.Sprintf("acc_g%d", k)), []byte{3}, u32(uint32(k))))
	}
	for k := range d.TableRTs() {
		exps = append(exps, cat(name(fmt.Sprintf("acc_t%d", k)), []byte{1}, u32(uint32(k))))
	}
	if d.HasMem() {
		exps = append(exps, cat(name("acc_m"), []byte{2, 0}))
	}
	kindByte := map[byte]byte{'f': 0, 't': 1, 'm': 2, 'g': 3}
	for _, x := range d.Exports {
		exps = append(exps, cat(name(x.Name), []byte{kindByte[x.Kind]}, u32(x.Idx)))
	}

	out := []byte{0, 'a', 's', 'm', 1, 0, 0, 0}
	var types [][]byte
	for _, s := range e.types {
		types = append(types, sigBytes(s))
	}
	out = append(out, section(1, vec(types))...)
	if len(imps) > 0 {
		out = append(out, section(2, vec(imps))...)
	}
	var fsec [][]byte
	for _, t := range funcTypes {
		fsec = append(fsec, u32(t))
	}
	out = append(out, section(3, vec(fsec))...)
	if len(d.Tables) > 0 {
		var ts [][]byte
		for _, t := range d.Tables {
			ts = append(ts, cat([]byte{t.RT}, limits(t.Min, t.Max)))
		}
		out = append(out, section(4, vec(ts))...)
	}
	if d.Mem != nil {
		out = append(out, section(5, vec([][]byte{memLimits(d.Mem.Min, d.Mem.Max, d.Mem.Shared)}))...)
	}
	if len(d.Globals) > 0 {
		var gs [][]byte
		for _, g := range d.Globals {
			m := byte(0)
			if g.Mut {
				m = 1
			}
			gs = append(gs, cat([]byte{g.VT, m}, g.Init.bytes(g.VT)))
		}
		out = append(out, section(6, vec(gs))...)
	}
	out = append(out, section(7, vec(exps))...)
	if startIdx != nil {
		out = append(out, section(8, u32(*startIdx))...)
	}
	if len(d.Elems) > 0 {
		rts := d.TableRTs()
		var es [][]byte
		for _, el := range d.Elems {
			rt := rts[el.Table]
			hasNull := rt != tFR
			for _, it := range el.Items {
				if it < 0 {
					hasNull = true
				}
			}
			var b []byte
			if !hasNull {
				// flag 2: active, explicit table index, elemkind 0, vec(funcidx)
				b = cat(u32(2), u32(el.Table), el.Off.bytes(tI32), []byte{0})
				var items [][]byte
				for _, it := range el.Items {
					items = append(items, u32(uint32(it)))
				}
				b = append(b, vec(items)...)
			} else {
				// flag 6: active, explicit table index, reftype, vec(expr)
				b = cat(u32(6), u32(el.Table), el.Off.bytes(tI32), []byte{rt})
				var items [][]byte
				for _, it := range el.Items {
					if it < 0 {
						items = append(items, []byte{0xd0, rt, 0x0b})
					} else {
						items = append(items, cat([]byte{0xd2}, u32(uint32(it)), []byte{0x0b}))
					}
				}
				b = append(b, vec(items)...)
			}
			es = append(es, b)
		}
		out = append(out, section(9, vec(es))...)
	}
	var code [][]byte
	for _, b := range bodies {
		fb := cat([]byte{0}, b, []byte{0x0b}) // no locals
		code = append(code, cat(u32(uint32(len(fb))), fb))
	}
	out = append(out, section(10, vec(code))...)
	if len(d.Datas) > 0 {
		var ds [][]byte
		for _, x := range d.Datas {
			ds = append(ds, cat(u32(0), x.Off.bytes(tI32), u32(uint32(len(x.Bytes))), x.Bytes))
		}
		out = append(out, section(11, vec(ds))...)
	}
	return out
}
