package main

// Shared-table growth stage.  A table exported by instance A and imported by instance B is ONE object: table.grow
// executed by either of them extends it for both, and every new slot holds the initial value given to the instruction.
// For every delta 0..17 (powers of two and everything between), for a non-null and a null initial value, grown by the
// importer or by the exporter, on both engines: the size seen by both sides, and for each new slot what call_indirect
// through it does on BOTH sides (the function's value, or the null trap).  table.fill and table.set from one side are
// read from the other side as well.

import (
	"context"
	"fmt"
	"strings"

	"github.com/tetratelabs/wazero"
	"github.com/tetratelabs/wazero/api"
	"github.com/tetratelabs/wazero/internal/wasm"
	"github.com/tetratelabs/wazero/verifharness/hx"
	"github.com/tetratelabs/wazero/verifharness/wb"
)

// growModule: exports call(i) = call_indirect t[i], size(), grow(n, nonNull) = table.grow t (ref.func f | ref.null) n,
// fill(i, n) = table.fill t i (ref.func f) n; f returns `val`.  The table is defined and exported (owner) or imported.
func growModule(owner bool, val int32) []byte {
	m := wb.New()
	if owner {
		m.Table(1, nil)
		m.M.ExportSection = append(m.M.ExportSection, wasm.Export{Name: "t", Type: wasm.ExternTypeTable, Index: 0})
	} else {
		m.M.ImportSection = append(m.M.ImportSection, wasm.Import{Type: wasm.ExternTypeTable, Module: "A", Name: "t", DescTable: wasm.Table{Type: wasm.RefTypeFuncref, Min: 1}})
		m.M.ImportTableCount = 1
	}
	f := m.AddFunc(wb.Func{Results: []byte{wb.I32}, Body: wb.I32Const(val)})
	t0 := m.TypeIdx(nil, []byte{wb.I32})
	m.AddFunc(wb.Func{Params: []byte{wb.I32}, Results: []byte{wb.I32}, Export: "call", Body: wb.Cat(wb.LocalGet(0), wb.Op(wasm.OpcodeCallIndirect), wb.U32(t0), wb.U32(0))})
	m.AddFunc(wb.Func{Results: []byte{wb.I32}, Export: "size", Body: wb.Misc(wasm.OpcodeMiscTableSize, 0)})
	m.AddFunc(wb.Func{Params: []byte{wb.I32, wb.I32}, Results: []byte{wb.I32}, Export: "grow", Body: wb.Cat(
		wb.LocalGet(1), wb.Op(wasm.OpcodeIf, 0x7f),
		wb.Op(wasm.OpcodeRefFunc), wb.U32(f), wb.LocalGet(0), wb.Misc(wasm.OpcodeMiscTableGrow, 0),
		wb.Op(wasm.OpcodeElse),
		wb.Op(wasm.OpcodeRefNull, wasm.RefTypeFuncref), wb.LocalGet(0), wb.Misc(wasm.OpcodeMiscTableGrow, 0),
		wb.Op(wasm.OpcodeEnd))})
	m.AddFunc(wb.Func{Params: []byte{wb.I32, wb.I32}, Export: "fill", Body: wb.Cat(wb.LocalGet(0), wb.Op(wasm.OpcodeRefFunc), wb.U32(f), wb.LocalGet(1), wb.Misc(wasm.OpcodeMiscTableFill, 0))})
	return m.BytesWithSegments([]wb.Elem{{Passive: true, Init: []int64{int64(f)}}}) // (declares f for ref.func)
}

func growStage() {
	ctx := context.Background()
	slot := func(m api.Module, i int) string {
		r, err := m.ExportedFunction("call").Call(ctx, uint64(i))
		if err != nil {
			s := err.Error()
			if k := strings.IndexByte(s, '\n'); k >= 0 {
				s = s[:k]
			}
			return "trap(" + strings.TrimPrefix(s, "wasm error: ") + ")"
		}
		return fmt.Sprint(uint32(r[0]))
	}
	for _, engine := range []string{"interpreter", "compiler"} {
		for delta := 0; delta <= 17; delta++ {
			for _, nonNull := range []bool{true, false} {
				for _, who := range []string{"importer", "exporter"} {
					cfg := wazero.NewRuntimeConfigCompiler()
					if engine == "interpreter" {
						cfg = wazero.NewRuntimeConfigInterpreter()
					}
					rt := wazero.NewRuntimeWithConfig(ctx, cfg)
					a, err := rt.InstantiateWithConfig(ctx, growModule(true, 41), wazero.NewModuleConfig().WithName("A"))
					if err != nil {
						hx.Fatal("grow stage, module A: %v", err)
					}
					b, err := rt.InstantiateWithConfig(ctx, growModule(false, 42), wazero.NewModuleConfig().WithName("B"))
					if err != nil {
						hx.Fatal("grow stage, module B: %v", err)
					}
					g, want := b, "42"
					if who == "exporter" {
						g, want = a, "41"
					}
					if !nonNull {
						want = "trap(invalid table access)"
					}
					nn := uint64(0)
					if nonNull {
						nn = 1
					}
					res, err := g.ExportedFunction("grow").Call(ctx, uint64(delta), nn)
					input := map[string]any{"stage": "shared table growth", "engine": engine, "delta": delta, "non_null_init": nonNull, "grown_by": who,
						"modules": "A defines and exports table t (1 slot, no maximum); B imports A.t; grow(n) = table.grow t (ref.func f | ref.null func) n"}
					rep.Case(fmt.Sprintf("grow/%s/%d/%v/%s", engine, delta, nonNull, who))
					var got []string
					exp := []string{"grow=1", fmt.Sprintf("sizeA=%d", 1+delta), fmt.Sprintf("sizeB=%d", 1+delta)}
					if err != nil {
						got = append(got, "grow=error:"+err.Error())
					} else {
						got = append(got, fmt.Sprintf("grow=%d", uint32(res[0])))
					}
					for _, m := range []api.Module{a, b} {
						r, _ := m.ExportedFunction("size").Call(ctx)
						got = append(got, fmt.Sprintf("size%s=%d", m.Name(), uint32(r[0])))
					}
					for i := 1; i <= delta; i++ {
						exp = append(exp, fmt.Sprintf("A[%d]=%s", i, want), fmt.Sprintf("B[%d]=%s", i, want))
						got = append(got, fmt.Sprintf("A[%d]=%s", i, slot(a, i)), fmt.Sprintf("B[%d]=%s", i, slot(b, i)))
					}
					// one slot past the end traps on both sides; then fill the new region from the OTHER side and re-read
					exp = append(exp, "A[end]=trap(invalid table access)", "B[end]=trap(invalid table access)")
					got = append(got, "A[end]="+slot(a, 1+delta), "B[end]="+slot(b, 1+delta))
					other, ov := a, "41"
					if g == a {
						other, ov = b, "42"
					}
					if delta > 0 {
						if _, err := other.ExportedFunction("fill").Call(ctx, 1, uint64(delta)); err != nil {
							got = append(got, "fill=error:"+err.Error())
						}
						for i := 1; i <= delta; i++ {
							exp = append(exp, fmt.Sprintf("after-fill %s[%d]=%s", g.Name(), i, ov))
							got = append(got, fmt.Sprintf("after-fill %s[%d]=%s", g.Name(), i, slot(g, i)))
						}
					}
					if strings.Join(got, " ") != strings.Join(exp, " ") {
						first := ""
						for i := range exp {
							if i >= len(got) || got[i] != exp[i] {
								first = fmt.Sprintf("expected %s, got %s", exp[i], at(got, i))
								break
							}
						}
						rep.Violate(hx.Violation{Kind: "impl-violation", Signature: "C04:shared-table-growth-differs-from-specification:" + engine,
							What:  fmt.Sprintf("%s: table.grow by %d (non-null initial value: %v) executed by the %s of a shared table: %s", engine, delta, nonNull, who, first),
							Input: input, Expected: strings.Join(exp, " "), Actual: strings.Join(got, " ")})
					} else {
						rep.Count("grow-stage:ok")
					}
					rt.Close(ctx)
				}
			}
		}
	}
}

func at(s []string, i int) string {
	if i < len(s) {
		return s[i]
	}
	return "<missing>"
}
