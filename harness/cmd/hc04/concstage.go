package main

// Concurrent-compilation stage.  What links instances through a shared table is the signature check of call_indirect, and
// that check compares per-store function TYPE IDs allotted when modules are compiled.  Structurally equal types of
// different modules get the same ID and different types different IDs - whenever and on whichever goroutine the modules
// were compiled.  A hub exports a funcref table; eight spokes (each defining functions of 16 types new to the store and
// exporting call_k(slot) = call_indirect (type T_k)) are COMPILED concurrently, released by a barrier; instantiation and
// all calls are sequential.  Every spoke's call_k on every other spoke's f_k answers that spoke's number, and call_k on
// an f_(k+1) traps with an indirect-call type mismatch.

import (
	"context"
	"fmt"
	"runtime"
	"strings"
	"sync"
	"sync/atomic"

	"github.com/tetratelabs/wazero"
	"github.com/tetratelabs/wazero/api"
	"github.com/tetratelabs/wazero/internal/wasm"
	"github.com/tetratelabs/wazero/verifharness/hx"
	"github.com/tetratelabs/wazero/verifharness/wb"
)

const (
	ccSpokes = 8
	ccTypes  = 16
)

func ccParams(k int) []byte {
	p := []byte{wb.I32}
	for j := 0; j <= k; j++ {
		p = append(p, []byte{wb.I64, wb.F32, wb.F64, wb.I32}[(k+j)%4])
	}
	return p
}

func ccSpoke(s int) []byte {
	m := wb.New()
	m.M.ImportSection = append(m.M.ImportSection, wasm.Import{Type: wasm.ExternTypeTable, Module: "hub", Name: "t", DescTable: wasm.Table{Type: wasm.RefTypeFuncref, Min: ccSpokes * ccTypes}})
	m.M.ImportTableCount = 1
	var init []int64
	for k := 0; k < ccTypes; k++ {
		f := m.AddFunc(wb.Func{Params: ccParams(k), Results: []byte{wb.I32}, Body: wb.I32Const(int32(1000*s + k))})
		init = append(init, int64(f))
	}
	for k := 0; k < ccTypes; k++ {
		ps := ccParams(k)
		t := m.TypeIdx(ps, []byte{wb.I32})
		var body []byte
		for _, p := range ps { // zero arguments of the right types
			switch p {
			case wb.I32:
				body = append(body, wb.I32Const(0)...)
			case wb.I64:
				body = append(body, wb.I64Const(0)...)
			case wb.F32:
				body = append(body, wasm.OpcodeF32Const, 0, 0, 0, 0)
			default:
				body = append(body, wasm.OpcodeF64Const, 0, 0, 0, 0, 0, 0, 0, 0)
			}
		}
		body = append(body, wb.Cat(wb.LocalGet(0), wb.Op(wasm.OpcodeCallIndirect), wb.U32(t), wb.U32(0))...)
		m.AddFunc(wb.Func{Params: []byte{wb.I32}, Results: []byte{wb.I32}, Export: fmt.Sprintf("call_%d", k), Body: body})
	}
	return m.BytesWithSegments([]wb.Elem{{Offset: int32(s * ccTypes), Init: init}})
}

func concurrentCompileStage() {
	ctx := context.Background()
	hub := wb.New()
	hub.Table(ccSpokes*ccTypes, nil)
	hub.M.ExportSection = append(hub.M.ExportSection, wasm.Export{Name: "t", Type: wasm.ExternTypeTable, Index: 0})
	hubBin := hub.Bytes()
	var spokes [ccSpokes][]byte
	for s := range spokes {
		spokes[s] = ccSpoke(s)
	}
	rounds := 120
	if hx.Thorough() {
		rounds = 600
	}
	for _, engine := range []string{"interpreter", "compiler"} {
		for round := 0; round < rounds; round++ {
			rc := wazero.NewRuntimeConfigCompiler()
			if engine == "interpreter" {
				rc = wazero.NewRuntimeConfigInterpreter()
			}
			rt := wazero.NewRuntimeWithConfig(ctx, rc)
			if _, err := rt.InstantiateWithConfig(ctx, hubBin, wazero.NewModuleConfig().WithName("hub")); err != nil {
				hx.Fatal("concurrent-compilation stage: %v", err)
			}
			var cms [ccSpokes]wazero.CompiledModule
			var errs [ccSpokes]error
			var ready, goNow atomic.Int32
			var wg sync.WaitGroup
			for s := range spokes {
				wg.Add(1)
				go func(s int) {
					defer wg.Done()
					ready.Add(1)
					for goNow.Load() == 0 { // spin barrier: all compilations start within the same microsecond
					}
					cms[s], errs[s] = rt.CompileModule(ctx, spokes[s])
				}(s)
			}
			for ready.Load() < ccSpokes {
				runtime.Gosched()
			}
			goNow.Store(1)
			wg.Wait()
			var mods [ccSpokes]api.Module
			bad := ""
			for s := range spokes {
				if errs[s] != nil {
					bad = fmt.Sprintf("spoke %d does not compile: %v", s, errs[s])
					break
				}
				m, err := rt.InstantiateModule(ctx, cms[s], wazero.NewModuleConfig().WithName(fmt.Sprintf("spoke%d", s)))
				if err != nil {
					bad = fmt.Sprintf("spoke %d cannot be instantiated: %v", s, err)
					break
				}
				mods[s] = m
			}
			for a := 0; a < ccSpokes && bad == ""; a++ {
				for b := 0; b < ccSpokes && bad == ""; b++ {
					for k := 0; k < ccTypes && bad == ""; k++ {
						res, err := mods[a].ExportedFunction(fmt.Sprintf("call_%d", k)).Call(ctx, uint64(b*ccTypes+k))
						if err != nil || uint32(res[0]) != uint32(1000*b+k) {
							bad = fmt.Sprintf("spoke%d.call_%d(slot of spoke%d's f_%d) [same structural type T_%d] = %v, %v; want %d", a, k, b, k, k, res, firstLineOfErr(err), 1000*b+k)
						}
						if k+1 < ccTypes && bad == "" {
							_, err := mods[a].ExportedFunction(fmt.Sprintf("call_%d", k)).Call(ctx, uint64(b*ccTypes+k+1))
							if err == nil || !strings.Contains(err.Error(), "indirect call type mismatch") {
								bad = fmt.Sprintf("spoke%d.call_%d(slot of spoke%d's f_%d) [DIFFERENT types T_%d vs T_%d] was accepted (%v); want the indirect-call type mismatch trap", a, k, b, k+1, k, k+1, firstLineOfErr(err))
							}
						}
					}
				}
			}
			rt.Close(ctx)
			rep.Case(fmt.Sprintf("concurrent-compile/%s/%d", engine, round))
			if bad != "" {
				rep.Violate(hx.Violation{Kind: "impl-violation", Signature: "C04:shared-table-signature-check-wrong-after-concurrent-compilation:" + engine,
					What:  fmt.Sprintf("%s, round %d: eight modules that import one table were compiled concurrently (instantiated and called sequentially): %s", engine, round, bad),
					Input: map[string]any{"stage": "concurrent compilation", "engine": engine, "spokes": ccSpokes, "types_per_spoke": ccTypes, "round": round}, Expected: "same type: the callee's number; different type: trap", Actual: bad})
				break
			}
			rep.Count("concurrent-compile:ok")
		}
	}
}

func firstLineOfErr(err error) string {
	if err == nil {
		return "<nil>"
	}
	return strings.SplitN(err.Error(), "\n", 2)[0]
}
