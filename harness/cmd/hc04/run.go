package main

// Scenario runner: executes one scenario on the real runtime (one engine) and on the Lean store
// (tie B), evaluating the property's own predicates on the real code as it goes (tie C).

import (
	"context"
	"fmt"
	"runtime"
	"sort"
	"strings"
	"sync/atomic"

	"github.com/tetratelabs/wazero"
	"github.com/tetratelabs/wazero/api"
	"github.com/tetratelabs/wazero/experimental"
	"github.com/tetratelabs/wazero/experimental/table"
	"github.com/tetratelabs/wazero/verifharness/hx"
)

type Op struct {
	Kind string `json:"op"` // inst gset mstore mgrow tset tgrow call
	Desc *Desc  `json:"desc,omitempty"`
	Inst int    `json:"inst,omitempty"`
	K    uint32 `json:"k,omitempty"`    // global / table / function index
	Slot uint32 `json:"slot,omitempty"` // table slot or memory address
	V    uint64 `json:"v,omitempty"`
	F    int    `json:"f,omitempty"` // tset: function index or -1 = null
	Host bool   `json:"host,omitempty"`
}

type Scenario struct {
	Tag   string `json:"tag"`
	Limit uint32 `json:"mem_limit_pages"`
	Ops   []Op   `json:"ops"`
}

var sidCounter atomic.Int64

// f2AsIs: does the tree under test still accept a mutable imported global in a constant expression?
// (finding switch, DESIGN section 8) — probed once on the real code.
var f2AsIs bool

type live struct {
	d     *Desc
	mod   api.Module
	gcell []int // Go-side alias classes (independent of the Lean model)
	tcell []int
	mcell int
	fcell []int
	pos   int
}

type run struct {
	sc     *Scenario
	engine string
	ctx    context.Context
	rt     wazero.Runtime
	sid    int64
	insts  []*live
	byPlan []*live
	byName map[string]*live
	ncell  int
	probes map[uint32]bool
	trace  []string // observation transcript (engine-independent): compared across engines
	failed bool
	opIdx  int
}

func vio(kind, sig, what string, in, exp, act any) {
	rep.Violate(hx.Violation{Kind: kind, Signature: sig, What: what, Input: in, Expected: exp, Actual: act})
}

func (r *run) input() any {
	return map[string]any{"engine": r.engine, "scenario": r.sc, "at_op": r.opIdx}
}

func newRun(sc *Scenario, engine string) *run {
	ctx := context.Background()
	var rc wazero.RuntimeConfig
	if engine == "compiler" {
		rc = wazero.NewRuntimeConfigCompiler()
	} else {
		rc = wazero.NewRuntimeConfigInterpreter()
	}
	rc = rc.WithCoreFeatures(api.CoreFeaturesV2 | experimental.CoreFeaturesThreads).WithMemoryLimitPages(sc.Limit)
	r := &run{sc: sc, engine: engine, ctx: ctx, rt: wazero.NewRuntimeWithConfig(ctx, rc), sid: sidCounter.Add(1),
		byName: map[string]*live{}, probes: map[uint32]bool{0: true, 65535: true, 65536: true}}
	orc.Askf("c04 new %d %s %s", r.sid, b01(engine == "compiler"), b01(f2AsIs))
	return r
}

func (r *run) close() {
	r.rt.Close(r.ctx)
	orc.Askf("c04 drop %d", r.sid)
}

func mask(vt byte, v uint64) uint64 {
	switch vt {
	case tI32, tF32:
		return v & 0xffffffff
	case tFR, tER:
		if v != 0 {
			return 1
		}
		return 0
	}
	return v
}

func (r *run) callFn(l *live, name string, args ...uint64) ([]uint64, error) {
	f := l.mod.ExportedFunction(name)
	if f == nil {
		hx.Fatal("no accessor %s in %s", name, l.d.Name)
	}
	return f.Call(r.ctx, args...)
}

// must: accessor calls that cannot trap by construction; an error means the instance is not usable.
func (r *run) must(l *live, name string, args ...uint64) uint64 {
	res, err := r.callFn(l, name, args...)
	if err != nil {
		vio("impl-violation", "C04:instance-unusable:"+r.engine, fmt.Sprintf("accessor %s of instance %s failed: %v", name, l.d.Name, err), r.input(), nil, nil)
		r.failed = true
		return 0
	}
	if len(res) == 0 {
		return 0
	}
	return res[0]
}

func (r *run) probeList() []uint32 {
	var ps []uint32
	for p := range r.probes {
		ps = append(ps, p)
	}
	sort.Slice(ps, func(i, j int) bool { return ps[i] < ps[j] })
	return ps
}

func join[T any](xs []T, f func(T) string, sep string) string {
	var s []string
	for _, x := range xs {
		s = append(s, f(x))
	}
	return strings.Join(s, sep)
}

// guestSlot: what call_indirect (type ()->i32) observes at a slot of table t through instance l.
func (r *run) guestSlot(l *live, t int, rt byte, slot uint32) string {
	if r.must(l, fmt.Sprintf("acc_tnull%d", t), uint64(slot)) == 1 {
		return "n"
	}
	if rt != tFR {
		return "x"
	}
	res, err := r.callFn(l, fmt.Sprintf("acc_tcall%d", t), uint64(slot))
	if err != nil || len(res) != 1 {
		return "x"
	}
	return fmt.Sprint(uint32(res[0]))
}

func (r *run) hostSlot(l *live, t int, rt byte, slot uint32) (out string) {
	defer func() {
		if e := recover(); e != nil {
			s := fmt.Sprint(e)
			if strings.Contains(s, "invalid table access") || strings.Contains(s, "null") {
				out = "n"
			} else {
				out = "x"
			}
		}
	}()
	if rt != tFR {
		return "skip"
	}
	f := table.LookupFunction(l.mod, uint32(t), slot, nil, []api.ValueType{api.ValueTypeI32})
	res, err := f.Call(r.ctx)
	if err != nil || len(res) != 1 {
		return "x"
	}
	return fmt.Sprint(uint32(res[0]))
}

// dump renders every instance's view; host=false through guest code, host=true through the host API.
func (r *run) dump(host bool) string {
	ps := r.probeList()
	var parts []string
	for _, l := range r.insts {
		gts := l.d.GlobalTypes()
		var gs []string
		for k, g := range gts {
			var v uint64
			if host {
				eg := l.mod.ExportedGlobal(fmt.Sprintf("acc_g%d", k))
				if eg == nil {
					hx.Fatal("no exported global acc_g%d", k)
				}
				v = eg.Get()
			} else {
				v = r.must(l, fmt.Sprintf("acc_gget%d", k))
				if isRef(g.VT) {
					gs = append(gs, fmt.Sprint(v))
					continue
				}
			}
			gs = append(gs, fmt.Sprint(mask(g.VT, v)))
		}
		ms := "-"
		if l.d.HasMem() {
			var pages uint64
			var mem api.Memory
			if host {
				mem = l.mod.ExportedMemory("acc_m")
				pages = uint64(mem.Size()) / 65536
			} else {
				pages = r.must(l, "acc_msize")
			}
			ms = fmt.Sprintf("%d:", pages) + join(ps, func(a uint32) string {
				if uint64(a) >= pages*65536 {
					if host {
						if _, ok := mem.ReadByte(a); ok {
							return "READ-BEYOND-SIZE"
						}
					}
					return "o"
				}
				if host {
					b, ok := mem.ReadByte(a)
					if !ok {
						return "READ-FAILED"
					}
					return fmt.Sprint(b)
				}
				return fmt.Sprint(r.must(l, "acc_load", uint64(a)))
			}, ",")
		}
		var ts []string
		for t, rt := range l.d.TableRTs() {
			n := uint32(r.must(l, fmt.Sprintf("acc_tsize%d", t)))
			var slots []string
			for s := uint32(0); s < n; s++ {
				if host {
					hs := r.hostSlot(l, t, rt, s)
					if hs == "skip" {
						hs = r.guestSlot(l, t, rt, s)
					}
					slots = append(slots, hs)
				} else {
					slots = append(slots, r.guestSlot(l, t, rt, s))
				}
			}
			ts = append(ts, fmt.Sprintf("%d:%s", n, strings.Join(slots, ",")))
		}
		parts = append(parts, fmt.Sprintf("%s[g=%s;m=%s;t=%s]", l.d.Name, strings.Join(gs, ","), ms, strings.Join(ts, "|")))
	}
	return strings.Join(parts, " ")
}

func (r *run) oracleDump() string {
	ps := r.probeList()
	p := "-"
	if len(ps) > 0 {
		p = join(ps, func(a uint32) string { return fmt.Sprint(a) }, ",")
	}
	return orc.Askf("c04 dump %d %s", r.sid, p)
}

// observe: after every op — guest views vs the Lean store (tie B), host views vs guest views (tie C).
func (r *run) observe(after string) {
	g := r.dump(false)
	h := r.dump(true)
	o := r.oracleDump()
	r.trace = append(r.trace, after+" => "+g)
	if g != o {
		vio("correspondence", "C04:state-differs-from-model:"+r.engine+":"+diffClass(g, o), "the state observed through the instances differs from the Lean store after "+after, r.input(), o, g)
		r.failed = true
	}
	if g != h {
		sig := "C04:host-api-view-differs-from-guest-view:" + r.engine + ":" + diffClass(g, h)
		if r.engine == "compiler" && diffClass(g, h) == "table" && r.sc.putsImportedFuncInTable() {
			sig = "N2:compiler-host-table-LookupFunction-of-imported-function-resolves-to-function-0"
			// the host view has CALLED the wrong function (possibly one with side effects): the rest of this
			// scenario would only echo that
			r.failed = true
		}
		vio("impl-violation", sig, "host API and guest code observe different values of a shared object after "+after, r.input(), g, h)
	}
}

// diffClass: which kind of object differs first (g, m or t) — keeps signatures specific.
func diffClass(a, b string) string {
	pa, pb := strings.Split(a, " "), strings.Split(b, " ")
	if len(pa) != len(pb) {
		return "instances"
	}
	for i := range pa {
		if pa[i] == pb[i] {
			continue
		}
		xa := strings.Split(strings.TrimSuffix(pa[i][strings.Index(pa[i], "[")+1:], "]"), ";")
		xb := strings.Split(strings.TrimSuffix(pb[i][strings.Index(pb[i], "[")+1:], "]"), ";")
		for j := range xa {
			if j < len(xb) && xa[j] != xb[j] {
				return []string{"global", "memory", "table"}[j%3]
			}
		}
	}
	return "other"
}

func classify(err error) string {
	s := err.Error()
	switch {
	case strings.Contains(s, "start "):
		return "start"
	case strings.Contains(s, "out of bounds memory access"):
		return "data"
	default:
		return "import"
	}
}

// resolveGo: Go-side alias bookkeeping for a successfully instantiated module.
func (r *run) resolveGo(l *live) bool {
	l.mcell = -1
	for _, i := range l.d.Imports {
		ex := r.byName[i.Mod]
		if ex == nil {
			return false
		}
		var e *Exp
		for x := range ex.d.Exports {
			if ex.d.Exports[x].Name == i.Name && ex.d.Exports[x].Kind == i.Kind {
				e = &ex.d.Exports[x]
			}
		}
		if e == nil {
			return false
		}
		switch i.Kind {
		case 'g':
			l.gcell = append(l.gcell, ex.gcell[e.Idx])
		case 't':
			l.tcell = append(l.tcell, ex.tcell[e.Idx])
		case 'm':
			l.mcell = ex.mcell
		case 'f':
			l.fcell = append(l.fcell, ex.fcell[e.Idx])
		}
	}
	fresh := func() int { r.ncell++; return r.ncell }
	for range l.d.Globals {
		l.gcell = append(l.gcell, fresh())
	}
	for range l.d.Tables {
		l.tcell = append(l.tcell, fresh())
	}
	if l.d.Mem != nil {
		l.mcell = fresh()
	}
	for range l.d.Funcs {
		l.fcell = append(l.fcell, fresh())
	}
	return true
}

type snapshot struct {
	dump string
}

// instantiate: real code + model + monitors for captured values and failed instantiations.
func (r *run) instantiate(d *Desc) {
	before := r.dump(false)
	// current values of the globals the new module's constant expressions refer to (host API on the exporter)
	want := orc.Askf("c04 inst %d %s %d %s", r.sid, d.Name, r.sc.Limit, d.Tokens())
	bin := d.Encode()
	got := "ok"
	var mod api.Module
	func() {
		defer func() {
			if e := recover(); e != nil {
				// a Go panic out of the linker is never acceptable: the earlier instances' state is unknown
				got = "panic"
				vio("impl-violation", "C04:instantiate-panicked:"+r.engine, fmt.Sprintf("CompileModule/InstantiateModule panicked: %v", e), r.input(), want, nil)
				r.failed = true
			}
		}()
		cm, err := r.rt.CompileModule(r.ctx, bin)
		if err != nil {
			got = "invalid"
			rep.Count("inst-err-text:" + trimErr(err))
		} else {
			mod, err = r.rt.InstantiateModule(r.ctx, cm, wazero.NewModuleConfig().WithName(d.Name))
			if err != nil {
				got = classify(err)
				rep.Count("inst-err-text:" + trimErr(err))
			}
		}
	}()
	if got == "panic" {
		return
	}
	rep.Count("inst:" + r.engine + ":" + got)
	r.trace = append(r.trace, "inst "+d.Name+" -> "+got)
	if got != want {
		vio("correspondence", fmt.Sprintf("C04:instantiate-outcome-differs:%s:model-%s-impl-%s", r.engine, want, got),
			"InstantiateModule outcome differs from the Lean store", r.input(), want, got)
		r.failed = true
	}
	if got == "ok" {
		l := &live{d: d, mod: mod}
		if !r.resolveGo(l) {
			// accepted although the Go-side resolution finds no such export: cannot continue this scenario
			vio("impl-violation", "C04:import-accepted-without-matching-export:"+r.engine, "instantiation succeeded although an import has no export of that name and kind", r.input(), nil, nil)
			r.failed = true
			return
		}
		r.specImportCheck(l)
		l.pos = len(r.insts)
		r.insts = append(r.insts, l)
		r.byName[d.Name] = l
		r.captureCheck(l, before)
		r.segmentCheck(l)
	} else if got != "invalid" {
		r.failedInstCheck(d, got, before)
	}
}

// segmentCheck (tie C, the specification read directly, no model involved): after a successful instantiation the
// bytes covered by the module's active data segments are the segments' bytes, later segments over earlier ones -
// whatever was there before (an exporter's data, a store through another instance, zeros) and whatever the
// bytes are (zeros included).
func (r *run) segmentCheck(l *live) {
	d := l.d
	if len(d.Datas) == 0 || !d.HasMem() {
		return
	}
	if d.Start != nil {
		return // a start function may change the globals the offsets were computed from
	}
	exp := map[uint32]byte{}
	var order []uint32
	for _, x := range d.Datas {
		off := uint32(x.Off.V)
		if x.Off.K == 'g' {
			off = uint32(r.must(l, fmt.Sprintf("acc_gget%d", x.Off.V)))
		}
		for k, b := range x.Bytes {
			a := off + uint32(k)
			if _, seen := exp[a]; !seen {
				order = append(order, a)
			}
			exp[a] = b
		}
	}
	for _, a := range order {
		if got := byte(r.must(l, "acc_load", uint64(a))); got != exp[a] {
			vio("impl-violation", "C04:active-data-segment-not-applied:"+r.engine,
				fmt.Sprintf("after instantiating %s, byte %d of its memory is %#x; its active data segments put %#x there", d.Name, a, got, exp[a]), r.input(), exp[a], got)
			r.failed = true
			return
		}
	}
}

func trimErr(err error) string {
	s := err.Error()
	for _, cut := range []string{"minimum size mismatch", "maximum size mismatch", "signature mismatch", "mutability mismatch", "value type mismatch",
		"table type mismatch", "is not exported", "out of bounds memory access", "unreachable", "not instantiated", "is a ", "constant expression", "const expr"} {
		if strings.Contains(s, cut) {
			return cut
		}
	}
	if len(s) > 60 {
		s = s[:60]
	}
	return s
}

// specImportCheck (tie C, "accepted only if compatible"): the spec's external-type matching, computed in
// Go from the exporter's *current* state as the real code reports it, with the effective maximum for memories.
func (r *run) specImportCheck(l *live) {
	gi, ti := 0, 0
	for _, i := range l.d.Imports {
		ex := r.byName[i.Mod]
		var e *Exp
		for x := range ex.d.Exports {
			if ex.d.Exports[x].Name == i.Name && ex.d.Exports[x].Kind == i.Kind {
				e = &ex.d.Exports[x]
			}
		}
		bad := ""
		switch i.Kind {
		case 'f':
			if ex.d.FuncSigs()[e.Idx] != i.Sig {
				bad = "function type differs"
			}
		case 'g':
			gt := ex.d.GlobalTypes()[e.Idx]
			if gt.VT != i.VT || gt.Mut != i.Mut {
				bad = "global type differs"
			}
			gi++
		case 't':
			cur := uint32(r.must(ex, fmt.Sprintf("acc_tsize%d", e.Idx)))
			amax := r.tableMax(ex, int(e.Idx))
			if ex.d.TableRTs()[e.Idx] != i.VT {
				bad = "table element type differs"
			} else if cur < i.Min {
				bad = "table smaller than the import's minimum"
			} else if i.Max != nil && (amax == nil || *amax > *i.Max) {
				bad = "table maximum not within the import's maximum"
			}
			ti++
		case 'm':
			mem := ex.mod.ExportedMemory("acc_m")
			cur := mem.Size() / 65536
			emax := r.memEffMax(ex)
			if cur < i.Min {
				bad = "memory smaller than the import's minimum"
			} else if i.Max != nil && emax > *i.Max {
				bad = "memory effective maximum not within the import's maximum"
			}
		}
		if bad != "" {
			vio("impl-violation", "C04:incompatible-import-accepted:"+string(i.Kind)+":"+r.engine, "an import was accepted although "+bad, r.input(), nil, i)
		}
	}
}

// tableMax / memEffMax follow the import chain on the descriptors (the declared type of the defining module).
func (r *run) tableMax(l *live, idx int) *uint32 {
	n := l.d.nImp('t')
	if idx >= n {
		return l.d.Tables[idx-n].Max
	}
	k := 0
	for _, i := range l.d.Imports {
		if i.Kind == 't' {
			if k == idx {
				ex := r.byName[i.Mod]
				for _, e := range ex.d.Exports {
					if e.Name == i.Name && e.Kind == 't' {
						return r.tableMax(ex, int(e.Idx))
					}
				}
			}
			k++
		}
	}
	return nil
}

func (r *run) memEffMax(l *live) uint32 {
	if l.d.Mem != nil {
		if l.d.Mem.Max != nil && *l.d.Mem.Max < r.sc.Limit {
			return *l.d.Mem.Max
		}
		return r.sc.Limit
	}
	for _, i := range l.d.Imports {
		if i.Kind == 'm' {
			return r.memEffMax(r.byName[i.Mod])
		}
	}
	return 0
}

// parse one instance's part of a dump
func instPart(dump, name string) (g []string, m string, t []string) {
	for _, p := range strings.Split(dump, " ") {
		if strings.HasPrefix(p, name+"[") {
			body := strings.TrimSuffix(p[len(name)+1:], "]")
			f := strings.Split(body, ";")
			if len(f) != 3 {
				return
			}
			gs := strings.TrimPrefix(f[0], "g=")
			if gs != "" {
				g = strings.Split(gs, ",")
			}
			m = strings.TrimPrefix(f[1], "m=")
			ts := strings.TrimPrefix(f[2], "t=")
			if ts != "" {
				t = strings.Split(ts, "|")
			}
			return
		}
	}
	return
}

// captureCheck (tie C, "values captured at instantiation equal the current value of the referenced object
// at that time"): every `global.get k` initialiser/offset is compared with the value of imported global k
// that the exporter side showed immediately BEFORE the instantiation.
func (r *run) captureCheck(l *live, before string) {
	d := l.d
	nImpG := d.nImp('g')
	cur := func(k uint64) (uint64, bool, bool) { // current value of imported global k, via its exporter's view before
		gi := 0
		for _, i := range d.Imports {
			if i.Kind != 'g' {
				continue
			}
			if uint64(gi) == k {
				ex := r.byName[i.Mod]
				for _, e := range ex.d.Exports {
					if e.Name == i.Name && e.Kind == 'g' {
						g, _, _ := instPart(before, ex.d.Name)
						var v uint64
						fmt.Sscan(g[e.Idx], &v)
						return v, i.Mut, true
					}
				}
			}
			gi++
		}
		return 0, false, false
	}
	after := r.dump(false)
	gNow, _, _ := instPart(after, d.Name)
	for j, g := range d.Globals {
		if g.Init.K != 'g' {
			continue
		}
		if d.Start != nil && d.Start.Kind != "trap" && int(d.Start.K) == nImpG+j {
			continue // the module's own start function overwrote it before it could be observed
		}
		want, mut, ok := cur(g.Init.V)
		if !ok {
			continue
		}
		var have uint64
		fmt.Sscan(gNow[nImpG+j], &have)
		rep.Count(fmt.Sprintf("capture:global-init:mut=%v", mut))
		if have != want {
			r.captureVio("global-init", mut, d, want, have)
		}
	}
	for xi, x := range d.Datas {
		if x.Off.K != 'g' || len(x.Bytes) == 0 || xi != len(d.Datas)-1 {
			continue // only the last segment: an earlier one may have been overwritten by a later one
		}
		want, mut, ok := cur(x.Off.V)
		if !ok || want+uint64(len(x.Bytes)) > 65536 {
			continue
		}
		rep.Count(fmt.Sprintf("capture:data-offset:mut=%v", mut))
		// the segment's first byte must be at the current value of the global (bytes are non-zero markers)
		have := r.must(l, "acc_load", want)
		if have != uint64(x.Bytes[0]) {
			r.captureVio("data-offset", mut, d, want, have)
		}
	}
	for _, e := range d.Elems {
		if e.Off.K != 'g' || len(e.Items) == 0 || e.Items[0] < 0 || len(d.Elems) != 1 {
			continue // a single segment only: later ones overwrite, an earlier out-of-bounds one stops initialisation
		}
		want, mut, ok := cur(e.Off.V)
		if !ok {
			continue
		}
		n := r.must(l, fmt.Sprintf("acc_tsize%d", e.Table))
		if want+uint64(len(e.Items)) > n {
			continue
		}
		f := e.Items[0]
		nf := d.nImp('f')
		if f < nf || d.Funcs[f-nf].Bump >= 0 || d.Funcs[f-nf].Sig != ">i" {
			continue
		}
		rep.Count(fmt.Sprintf("capture:elem-offset:mut=%v", mut))
		have := r.guestSlot(l, int(e.Table), tFR, uint32(want))
		if have != fmt.Sprint(d.Funcs[f-nf].Const) {
			r.captureVio("elem-offset", mut, d, want, have)
		}
	}
}

func (r *run) captureVio(where string, mut bool, d *Desc, want, have any) {
	sig := fmt.Sprintf("C04:captured-value-differs:%s:%s", where, r.engine)
	if mut && r.engine == "compiler" {
		// the specific class of F2: compiler engine, constant expression reading a MUTABLE imported global
		sig = "F2:compiler-constexpr-global.get-of-mutable-import-reads-stale-Val:" + where
	}
	vio("impl-violation", sig, "a constant expression `global.get` evaluated at instantiation did not yield the current value of the imported global ("+where+")",
		r.input(), want, have)
}

// failedInstCheck (tie C, "a failed instantiation leaves earlier instances usable and consistent"):
// every earlier instance still answers, and its state changed at most inside the footprint the failing module's
// segments / start function may legitimately have written before the failure.
// gcChurn: collections plus allocations that reuse freed memory.  Whatever only a FAILED instance kept alive
// (functions its element segments wrote into an imported table) must not depend on that instance being traced.
func gcChurn() {
	for k := 0; k < 3; k++ {
		runtime.GC()
	}
	var keep [][]byte
	for k := 0; k < 400; k++ {
		keep = append(keep, make([]byte, 1<<(6+k%9)))
	}
	runtime.GC()
	runtime.KeepAlive(keep)
}

func (r *run) failedInstCheck(d *Desc, class, before string) {
	if class != "import" {
		gcChurn()
	}
	after := r.dump(false)
	if r.failed {
		return
	}
	rep.Count("failed-inst-checked:" + class)
	if class == "import" {
		if after != before {
			vio("impl-violation", "C04:failed-import-changed-earlier-instances:"+r.engine, "a rejected import changed the state of earlier instances", r.input(), before, after)
		}
		return
	}
	// memory: only probe addresses inside some data segment of d may differ; sizes may not
	ps := r.probeList()
	for _, l := range r.insts {
		gb, mb, tb := instPart(before, l.d.Name)
		ga, ma, ta := instPart(after, l.d.Name)
		// globals: only the start function's target may change
		for k := range gb {
			if gb[k] != ga[k] {
				ok := false
				if d.Start != nil && d.Start.Kind != "trap" && class == "start" {
					ok = true // attributed to the start function's write (the model pins the exact cell)
				}
				if !ok {
					vio("impl-violation", "C04:failed-instantiation-changed-global:"+r.engine, "a failed instantiation changed a global of an earlier instance", r.input(), before, after)
				}
			}
		}
		if mb != ma && mb != "-" {
			fb, fa := strings.SplitN(mb, ":", 2), strings.SplitN(ma, ":", 2)
			if fb[0] != fa[0] {
				vio("impl-violation", "C04:failed-instantiation-changed-memory-size:"+r.engine, "a failed instantiation changed a memory size", r.input(), before, after)
			} else {
				bb, ba := strings.Split(fb[1], ","), strings.Split(fa[1], ",")
				for i := range bb {
					if bb[i] != ba[i] && !r.inDataFootprint(d, ps[i]) {
						vio("impl-violation", "C04:failed-instantiation-wrote-outside-segments:"+r.engine, "a failed instantiation changed memory outside its data segments", r.input(), before, after)
					}
				}
			}
		}
		for t := range tb {
			if tb[t] != ta[t] {
				sb, sa := strings.SplitN(tb[t], ":", 2), strings.SplitN(ta[t], ":", 2)
				if sb[0] != sa[0] {
					vio("impl-violation", "C04:failed-instantiation-changed-table-size:"+r.engine, "a failed instantiation changed a table size", r.input(), before, after)
				} else if len(d.Elems) == 0 {
					vio("impl-violation", "C04:failed-instantiation-changed-table:"+r.engine, "a failed instantiation without element segments changed a table", r.input(), before, after)
				}
			}
		}
	}
}

func (r *run) inDataFootprint(d *Desc, addr uint32) bool {
	for _, x := range d.Datas {
		if x.Off.K == 'g' {
			return true // offset from a global: footprint decided by the model (tie B)
		}
		o := uint32(x.Off.V)
		if addr >= o && uint64(addr) < uint64(o)+uint64(len(x.Bytes)) {
			return true
		}
	}
	return false
}

// aliasCheck (tie C): after a write of v to the object `cell`, every view of that object returns v.
func (r *run) aliasCheck(kind byte, cell int, what string, read func(l *live, idx int, host bool) string, want string) {
	for _, l := range r.insts {
		var cells []int
		switch kind {
		case 'g':
			cells = l.gcell
		case 't':
			cells = l.tcell
		case 'm':
			cells = []int{l.mcell}
		}
		for idx, c := range cells {
			if c != cell {
				continue
			}
			for _, host := range []bool{false, true} {
				got := read(l, idx, host)
				rep.Count("alias-read")
				if got != want {
					via := "guest"
					if host {
						via = "host-api"
					}
					sig := fmt.Sprintf("C04:write-not-visible:%c:%s:%s", kind, via, r.engine)
					if kind == 't' && host && r.engine == "compiler" && r.sc.putsImportedFuncInTable() {
						sig = "N2:compiler-host-table-LookupFunction-of-imported-function-resolves-to-function-0"
						r.failed = true
					}
					vio("impl-violation", sig,
						fmt.Sprintf("%s: instance %s (%s view) does not observe the value just written", what, l.d.Name, via), r.input(), want, got)
				}
			}
		}
	}
}

func (r *run) step(op *Op) {
	switch op.Kind {
	case "inst":
		n := len(r.insts)
		r.instantiate(op.Desc)
		if len(r.insts) > n {
			r.byPlan = append(r.byPlan, r.insts[n])
		} else {
			r.byPlan = append(r.byPlan, nil)
		}
		r.observe("inst " + op.Desc.Name)
		return
	}
	// op.Inst is the index of the scenario's inst op (planned module), -1 = the latest live instance;
	// an op on a module that failed to instantiate is skipped (same on both engines and in the model)
	var l *live
	if op.Inst < 0 {
		if len(r.insts) == 0 {
			return
		}
		l = r.insts[len(r.insts)-1]
	} else {
		if op.Inst >= len(r.byPlan) || r.byPlan[op.Inst] == nil {
			return
		}
		l = r.byPlan[op.Inst]
	}
	pos := l.pos
	desc := fmt.Sprintf("%s %s k=%d slot=%d v=%d f=%d host=%v", op.Kind, l.d.Name, op.K, op.Slot, op.V, op.F, op.Host)
	switch op.Kind {
	case "gset":
		gts := l.d.GlobalTypes()
		if int(op.K) >= len(gts) || !gts[op.K].Mut || isRef(gts[op.K].VT) {
			return
		}
		vt := gts[op.K].VT
		v := mask(vt, op.V)
		if op.Host {
			l.mod.ExportedGlobal(fmt.Sprintf("acc_g%d", op.K)).(api.MutableGlobal).Set(v)
		} else {
			r.must(l, fmt.Sprintf("acc_gset%d", op.K), v)
		}
		orc.Askf("c04 gset %d %d %d %d", r.sid, pos, op.K, v)
		r.aliasCheck('g', l.gcell[op.K], desc, func(x *live, idx int, host bool) string {
			if host {
				return fmt.Sprint(mask(vt, x.mod.ExportedGlobal(fmt.Sprintf("acc_g%d", idx)).Get()))
			}
			return fmt.Sprint(mask(vt, r.must(x, fmt.Sprintf("acc_gget%d", idx))))
		}, fmt.Sprint(v))
	case "mstore":
		if !l.d.HasMem() {
			return
		}
		r.probes[op.Slot] = true
		want := orc.Askf("c04 mstore %d %d %d %d", r.sid, pos, op.Slot, op.V&0xff)
		got := "ok"
		if op.Host {
			if !l.mod.ExportedMemory("acc_m").WriteByte(op.Slot, byte(op.V)) {
				got = "trap"
			}
		} else if _, err := r.callFn(l, "acc_store", uint64(op.Slot), op.V&0xff); err != nil {
			got = "trap"
		}
		r.trace = append(r.trace, desc+" -> "+got)
		if got != want {
			vio("correspondence", "C04:memory-store-outcome-differs:"+r.engine, "store outcome differs from the model: "+desc, r.input(), want, got)
		}
		if got == "ok" {
			r.aliasCheck('m', l.mcell, desc, func(x *live, _ int, host bool) string {
				if host {
					b, _ := x.mod.ExportedMemory("acc_m").ReadByte(op.Slot)
					return fmt.Sprint(b)
				}
				return fmt.Sprint(r.must(x, "acc_load", uint64(op.Slot)))
			}, fmt.Sprint(op.V&0xff))
		}
	case "mgrow":
		if !l.d.HasMem() {
			return
		}
		want := orc.Askf("c04 mgrow %d %d %d", r.sid, pos, op.V)
		var got string
		if op.Host {
			prev, ok := l.mod.ExportedMemory("acc_m").Grow(uint32(op.V))
			if ok {
				got = fmt.Sprint(prev)
			} else {
				got = "-1"
			}
		} else {
			got = fmt.Sprint(int32(r.must(l, "acc_mgrow", op.V)))
		}
		r.trace = append(r.trace, desc+" -> "+got)
		if got != want {
			vio("correspondence", "C04:memory-grow-outcome-differs:"+r.engine, "memory.grow result differs from the model: "+desc, r.input(), want, got)
		}
		if got != "-1" {
			var prev uint64
			fmt.Sscan(got, &prev)
			newSize := prev + op.V
			r.probes[uint32(newSize*65536-1)] = true
			r.aliasCheck('m', l.mcell, desc, func(x *live, _ int, host bool) string {
				if host {
					return fmt.Sprint(uint64(x.mod.ExportedMemory("acc_m").Size()) / 65536)
				}
				return fmt.Sprint(r.must(x, "acc_msize"))
			}, fmt.Sprint(newSize))
		}
	case "tset":
		rts := l.d.TableRTs()
		if int(op.K) >= len(rts) {
			return
		}
		fs := "n"
		var err error
		if op.F < 0 {
			_, err = r.callFn(l, fmt.Sprintf("acc_tsetnull%d", op.K), uint64(op.Slot))
		} else {
			if rts[op.K] != tFR || op.F >= len(l.d.FuncSigs()) {
				return
			}
			fs = fmt.Sprint(op.F)
			_, err = r.callFn(l, fmt.Sprintf("acc_tset%d_%d", op.K, op.F), uint64(op.Slot))
		}
		want := orc.Askf("c04 tset %d %d %d %d %s", r.sid, pos, op.K, op.Slot, fs)
		got := "ok"
		if err != nil {
			got = "trap"
		}
		r.trace = append(r.trace, desc+" -> "+got)
		if got != want {
			vio("correspondence", "C04:table-set-outcome-differs:"+r.engine, "table.set outcome differs from the model: "+desc, r.input(), want, got)
		}
		if got == "ok" {
			// what the writer itself observes is the reference value; all aliases must observe the same
			ref := r.guestSlot(l, int(op.K), rts[op.K], op.Slot)
			r.aliasCheck('t', l.tcell[op.K], desc, func(x *live, idx int, host bool) string {
				if host {
					hs := r.hostSlot(x, idx, rts[op.K], op.Slot)
					if hs != "skip" {
						return hs
					}
				}
				return r.guestSlot(x, idx, rts[op.K], op.Slot)
			}, ref)
		}
	case "tgrow":
		rts := l.d.TableRTs()
		if int(op.K) >= len(rts) {
			return
		}
		want := orc.Askf("c04 tgrow %d %d %d %d", r.sid, pos, op.K, op.V)
		got := fmt.Sprint(int32(r.must(l, fmt.Sprintf("acc_tgrow%d", op.K), op.V)))
		r.trace = append(r.trace, desc+" -> "+got)
		if got != want {
			vio("correspondence", "C04:table-grow-outcome-differs:"+r.engine, "table.grow result differs from the model: "+desc, r.input(), want, got)
		}
		if got != "-1" {
			var prev uint64
			fmt.Sscan(got, &prev)
			r.aliasCheck('t', l.tcell[op.K], desc, func(x *live, idx int, _ bool) string {
				return fmt.Sprint(r.must(x, fmt.Sprintf("acc_tsize%d", idx)))
			}, fmt.Sprint(prev+op.V))
		}
	case "call":
		sigs := l.d.FuncSigs()
		if int(op.K) >= len(sigs) || sigs[op.K] != ">i" {
			return
		}
		want := orc.Askf("c04 call %d %d %d", r.sid, pos, op.K)
		// host: api.Module.ExportedFunction of the (possibly imported) function itself; guest: a wasm `call`
		acc, via := "acc_call%d", "guest"
		if op.Host {
			acc, via = "acc_f%d", "host-api"
		}
		var got string
		if res, err := r.callFn(l, fmt.Sprintf(acc, op.K)); err != nil {
			got = "error: " + err.Error() // e.g. the wrong function, of another signature, was resolved
		} else if len(res) != 1 {
			got = fmt.Sprintf("error: %d results", len(res))
		} else {
			got = fmt.Sprint(uint32(res[0]))
		}
		r.trace = append(r.trace, desc+" -> "+got)
		if got != want {
			r.failed = true // later states would only echo this
			sig := "C04:call-result-differs:" + via + ":" + r.engine
			kind := "correspondence"
			if r.engine == "compiler" && int(op.K) < l.d.nImp('f') && r.definerHasFuncImports(l, int(op.K)) {
				// N1: the callee is imported from (a chain ending in) a module that itself imports functions
				sig = "N1:compiler-links-wrong-function-for-import-from-module-with-function-imports:" + via
				kind = "impl-violation"
			}
			vio(kind, sig, "the result of a (possibly imported) function differs from the model: "+desc, r.input(), want, got)
		}
	default:
		hx.Fatal("unknown op %q", op.Kind)
	}
	if r.failed {
		return
	}
	r.observe(desc)
}

// runScenario: both engines, each against the model; then the engines' transcripts against each other.
func runScenario(sc *Scenario) {
	progress("BEGIN " + sc.key())
	defer progress("END " + sc.key())
	var traces [2][]string
	for e, engine := range []string{"interpreter", "compiler"} {
		r := newRun(sc, engine)
		for i := range sc.Ops {
			r.opIdx = i
			r.step(&sc.Ops[i])
			if r.failed {
				break
			}
		}
		traces[e] = r.trace
		r.close()
	}
	n := len(traces[0])
	if len(traces[1]) < n {
		n = len(traces[1])
	}
	for i := 0; i < n; i++ {
		if traces[0][i] != traces[1][i] {
			sig := "C04:engines-differ"
			if strings.Contains(traces[0][i], "inst ") && sc.usesMutableConstGlobal() {
				sig = "F2:engines-differ-after-constexpr-global.get-of-mutable-import"
			} else if strings.HasPrefix(traces[0][i], "call ") && sc.importsFuncFromImporter() {
				sig = "N1:engines-differ-on-call-of-import-from-module-with-function-imports"
			}
			vio("impl-violation", sig, "interpreter and compiler observe different states/results for the same scenario",
				map[string]any{"scenario": sc, "at_trace_line": i}, traces[0][i], traces[1][i])
			break
		}
	}
	rep.Case(sc.key())
}

func (sc *Scenario) usesMutableConstGlobal() bool {
	for _, op := range sc.Ops {
		if op.Desc == nil {
			continue
		}
		var muts []bool
		for _, i := range op.Desc.Imports {
			if i.Kind == 'g' {
				muts = append(muts, i.Mut)
			}
		}
		chk := func(c CE) bool { return c.K == 'g' && int(c.V) < len(muts) && muts[c.V] }
		for _, g := range op.Desc.Globals {
			if chk(g.Init) {
				return true
			}
		}
		for _, x := range op.Desc.Datas {
			if chk(x.Off) {
				return true
			}
		}
		for _, x := range op.Desc.Elems {
			if chk(x.Off) {
				return true
			}
		}
	}
	return false
}

func (sc *Scenario) key() string {
	var s []string
	for _, op := range sc.Ops {
		if op.Desc != nil {
			s = append(s, "inst{"+op.Desc.Tokens()+"}")
		} else {
			s = append(s, fmt.Sprintf("%s/%d/%d/%d/%d/%d/%v", op.Kind, op.Inst, op.K, op.Slot, op.V, op.F, op.Host))
		}
	}
	return fmt.Sprintf("%s|%d|%s", sc.Tag, sc.Limit, strings.Join(s, ";"))
}

// definerHasFuncImports: follow function import k of l to the module that defines it; does any module on
// the way (exporters) import functions itself? (the condition of N1)
func (r *run) definerHasFuncImports(l *live, k int) bool {
	n := 0
	for _, i := range l.d.Imports {
		if i.Kind != 'f' {
			continue
		}
		if n == k {
			ex := r.byName[i.Mod]
			if ex == nil {
				return false
			}
			if ex.d.nImp('f') > 0 {
				return true
			}
			return false
		}
		n++
	}
	return false
}

// importsFuncFromImporter: some module imports a function from a module that has function imports.
func (sc *Scenario) importsFuncFromImporter() bool {
	nimp := map[string]int{}
	for _, op := range sc.Ops {
		if op.Desc == nil {
			continue
		}
		for _, i := range op.Desc.Imports {
			if i.Kind == 'f' && nimp[i.Mod] > 0 {
				return true
			}
		}
		nimp[op.Desc.Name] = op.Desc.nImp('f')
	}
	return false
}

// putsImportedFuncInTable: some element segment item or table.set refers to an imported function index.
func (sc *Scenario) putsImportedFuncInTable() bool {
	var descs []*Desc
	for _, op := range sc.Ops {
		if op.Desc != nil {
			descs = append(descs, op.Desc)
			for _, e := range op.Desc.Elems {
				for _, it := range e.Items {
					if it >= 0 && it < op.Desc.nImp('f') {
						return true
					}
				}
			}
		} else if op.Kind == "tset" && op.F >= 0 {
			if op.Inst >= 0 && op.Inst < len(descs) && op.F < descs[op.Inst].nImp('f') {
				return true
			}
			if op.Inst < 0 && len(descs) > 0 && op.F < descs[len(descs)-1].nImp('f') {
				return true
			}
		}
	}
	return false
}
