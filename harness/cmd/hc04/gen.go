package main

// Scenario generators: boundary grids (exhaustive over small domains) and seeded random graphs.

import (
	"fmt"
	"math/rand"
)

var allVT = []byte{tI32, tI64, tF32, tF64, tFR, tER}
// (the multi-value signatures differ from each other in a LATER result only: a comparison that looks at the first result and the counts accepts them)
var allSigs = []string{">i", "i>i", ">I", "ii>i", ">", ">ii", ">f", "F>", ">iI", ">iF", ">if"}

var boundaryVals = []uint64{0, 1, 5, 0x7fffffff, 0x80000000, 0xffffffff, 0x100000000, 1 << 63, ^uint64(0),
	0x7fa00001 /* f32 sNaN */, 0x7ff4000000000001 /* f64 sNaN */, 0x7fc00000, 42}

func instOp(d *Desc) Op { return Op{Kind: "inst", Desc: d} }

func initFor(vt byte, v uint64) CE {
	switch vt {
	case tFR, tER:
		return CE{K: 'n'}
	}
	return CE{K: 'c', V: mask(vt, v)}
}

// witnessScenarios: the recorded findings' concrete inputs, run first.
func witnessScenarios() []*Scenario {
	var out []*Scenario
	// F2 (the property's own example): A exports mutable g=1; set(5); B: (global i32 (global.get $g)) → 5 vs 1
	a := &Desc{Name: "A", Globals: []LGlobal{{VT: tI32, Mut: true, Init: CE{K: 'c', V: 1}}}, Exports: []Exp{{"g", 'g', 0}},
		Mem: &LMem{Min: 1}, Tables: []LTable{{RT: tFR, Min: 8}}}
	a.Exports = append(a.Exports, Exp{"mem", 'm', 0}, Exp{"tab", 't', 0})
	b := &Desc{Name: "B", Imports: []Imp{{Mod: "A", Name: "g", Kind: 'g', VT: tI32, Mut: true}},
		Globals: []LGlobal{{VT: tI32, Init: CE{K: 'g', V: 0}}}}
	out = append(out, &Scenario{Tag: "witness-F2-global-init", Limit: 65536, Ops: []Op{instOp(a), {Kind: "gset", Inst: 0, K: 0, V: 5}, instOp(b)}})
	c := &Desc{Name: "C", Imports: []Imp{{Mod: "A", Name: "g", Kind: 'g', VT: tI32, Mut: true}, {Mod: "A", Name: "mem", Kind: 'm', Min: 1}},
		Datas: []Data{{Off: CE{K: 'g', V: 0}, Bytes: []byte{0xaa, 0xbb}}}}
	out = append(out, &Scenario{Tag: "witness-F2-data-offset", Limit: 65536, Ops: []Op{instOp(a), {Kind: "gset", Inst: 0, K: 0, V: 5, Host: true}, instOp(c)}})
	e := &Desc{Name: "E", Imports: []Imp{{Mod: "A", Name: "g", Kind: 'g', VT: tI32, Mut: true}, {Mod: "A", Name: "tab", Kind: 't', VT: tFR, Min: 1}},
		Funcs: []LFunc{{Sig: ">i", Bump: -1, Const: 77}}, Elems: []Elem{{Table: 0, Off: CE{K: 'g', V: 0}, Items: []int{0}}}}
	out = append(out, &Scenario{Tag: "witness-F2-elem-offset", Limit: 65536, Ops: []Op{instOp(a), {Kind: "gset", Inst: 0, K: 0, V: 5}, instOp(e)}})
	// N1/N2: re-exported imports of a module that itself imports functions (function index space vs local index)
	a0 := &Desc{Name: "A0", Funcs: []LFunc{{Sig: ">i", Bump: -1, Const: 5}}, Exports: []Exp{{"h", 'f', 0}}}
	a1 := &Desc{Name: "A1", Imports: []Imp{{Mod: "A0", Name: "h", Kind: 'f', Sig: ">i"}},
		Funcs: []LFunc{{Sig: ">i", Bump: -1, Const: 10}, {Sig: ">i", Bump: -1, Const: 11}}, Exports: []Exp{{"f", 'f', 2}}}
	b1 := &Desc{Name: "B1", Imports: []Imp{{Mod: "A1", Name: "f", Kind: 'f', Sig: ">i"}}, Exports: []Exp{{"f", 'f', 0}}}
	b2 := &Desc{Name: "B2", Imports: []Imp{{Mod: "A1", Name: "f", Kind: 'f', Sig: ">i"}},
		Tables: []LTable{{RT: tFR, Min: 2}}, Elems: []Elem{{Table: 0, Off: CE{K: 'c', V: 0}, Items: []int{0}}}}
	out = append(out, &Scenario{Tag: "witness-N2-host-table-lookup-of-imported-function", Limit: 65536, Ops: []Op{instOp(a0), instOp(a1), instOp(b2)}})
	c1 := &Desc{Name: "C1", Imports: []Imp{{Mod: "B1", Name: "f", Kind: 'f', Sig: ">i"}}}
	out = append(out, &Scenario{Tag: "witness-N1-host-call-of-reexported-import", Limit: 65536, Ops: []Op{instOp(a0), instOp(a1), instOp(b1),
		{Kind: "call", Inst: 2, K: 0, Host: true}, {Kind: "call", Inst: 2, K: 0}}})
	out = append(out, &Scenario{Tag: "witness-N1-guest-call-through-import-chain", Limit: 65536, Ops: []Op{instOp(a0), instOp(a1), instOp(b1), instOp(c1),
		{Kind: "call", Inst: 3, K: 0}, {Kind: "call", Inst: 3, K: 0, Host: true}}})
	// deviation (not a violation): table import minimum compared with the DECLARED minimum
	t := &Desc{Name: "T", Tables: []LTable{{RT: tFR, Min: 1}}, Exports: []Exp{{"tab", 't', 0}}}
	ti := &Desc{Name: "TI", Imports: []Imp{{Mod: "T", Name: "tab", Kind: 't', VT: tFR, Min: 5}}}
	out = append(out, &Scenario{Tag: "deviation-table-min-declared", Limit: 65536, Ops: []Op{instOp(t), {Kind: "tgrow", Inst: 0, K: 0, V: 9}, instOp(ti)}})
	return out
}

// globalGrid: exporter (vt, mut) × importer (vt, mut), exhaustive (144), with a mutation before importing.
func globalGrid() []*Scenario {
	var out []*Scenario
	for _, evt := range allVT {
		for _, emut := range []bool{false, true} {
			a := &Desc{Name: "A", Globals: []LGlobal{{VT: evt, Mut: emut, Init: initFor(evt, 0x7fa00001)}}, Exports: []Exp{{"g", 'g', 0}}}
			if evt == tFR {
				a.Funcs = []LFunc{{Sig: ">i", Bump: -1, Const: 9}}
				a.Globals[0].Init = CE{K: 'f', V: 0}
			}
			sc := &Scenario{Tag: "grid-global", Limit: 65536, Ops: []Op{instOp(a)}}
			if emut && !isRef(evt) {
				sc.Ops = append(sc.Ops, Op{Kind: "gset", Inst: 0, K: 0, V: 0x7ff4000000000001})
			}
			n := 0
			for _, ivt := range allVT {
				for _, imut := range []bool{false, true} {
					b := &Desc{Name: fmt.Sprintf("B%d", n), Imports: []Imp{{Mod: "A", Name: "g", Kind: 'g', VT: ivt, Mut: imut}},
						Globals: []LGlobal{{VT: ivt, Init: CE{K: 'g', V: 0}}}}
					n++
					sc.Ops = append(sc.Ops, instOp(b))
					if imut && !isRef(ivt) {
						sc.Ops = append(sc.Ops, Op{Kind: "gset", Inst: -1, K: 0, V: uint64(n) * 0x100000001, Host: n%2 == 0})
					}
				}
			}
			out = append(out, sc)
		}
	}
	return out
}

// funcGrid: exporter signature × importer signature, exhaustive.
func funcGrid() []*Scenario {
	a := &Desc{Name: "A", Globals: []LGlobal{{VT: tI32, Mut: true, Init: CE{K: 'c', V: 10}}}}
	for i, s := range allSigs {
		a.Funcs = append(a.Funcs, LFunc{Sig: s, Bump: -1, Const: uint32(100 + i)})
		a.Exports = append(a.Exports, Exp{fmt.Sprintf("f%d", i), 'f', uint32(i)})
	}
	a.Funcs = append(a.Funcs, LFunc{Sig: ">i", Bump: 0})
	a.Exports = append(a.Exports, Exp{"bump", 'f', uint32(len(allSigs))})
	var out []*Scenario
	for i := range allSigs {
		sc := &Scenario{Tag: "grid-func", Limit: 65536, Ops: []Op{instOp(a)}}
		for j, s := range allSigs {
			b := &Desc{Name: fmt.Sprintf("B%d", j), Imports: []Imp{{Mod: "A", Name: fmt.Sprintf("f%d", i), Kind: 'f', Sig: s}, {Mod: "A", Name: "bump", Kind: 'f', Sig: ">i"}},
				Exports: []Exp{{"bump", 'f', 1}}}
			sc.Ops = append(sc.Ops, instOp(b), Op{Kind: "call", Inst: -1, K: 0}, Op{Kind: "call", Inst: -1, K: 1}, Op{Kind: "call", Inst: 0, K: uint32(len(allSigs))})
		}
		// a chain: C imports B0's re-export of A's bump
		c := &Desc{Name: "C", Imports: []Imp{{Mod: "B" + fmt.Sprint(i), Name: "bump", Kind: 'f', Sig: ">i"}}}
		sc.Ops = append(sc.Ops, instOp(c), Op{Kind: "call", Inst: -1, K: 0}, Op{Kind: "gset", Inst: 0, K: 0, V: 1000, Host: true}, Op{Kind: "call", Inst: -1, K: 0})
		out = append(out, sc)
	}
	return out
}

// reexportGrid: an export may be a RE-EXPORTED IMPORT, and imports of all kinds interleave in the exporter's import
// section: the type an import is matched against is the type of the object at that index of the exporter's index
// space of that kind (function imports counted among the function imports only).  A defines three functions of
// different signatures, a global, a memory and a table; B imports them with the non-function imports at every
// position among the function imports and re-exports each function import in turn; C imports the re-export with
// each of the three signatures (+ one that none of them has): accepted iff it is the signature of THAT function.
func reexportGrid() []*Scenario {
	sigs := []string{">i", ">", ">I"}
	a := &Desc{Name: "A", Globals: []LGlobal{{VT: tI32, Mut: true, Init: CE{K: 'c', V: 10}}}, Mem: &LMem{Min: 1}, Tables: []LTable{{RT: tFR, Min: 2}},
		Exports: []Exp{{"g", 'g', 0}, {"mem", 'm', 0}, {"tab", 't', 0}}}
	for i, sg := range sigs {
		a.Funcs = append(a.Funcs, LFunc{Sig: sg, Bump: -1, Const: uint32(700 + i)})
		a.Exports = append(a.Exports, Exp{fmt.Sprintf("f%d", i), 'f', uint32(i)})
	}
	others := []Imp{{Mod: "A", Name: "g", Kind: 'g', VT: tI32, Mut: true}, {Mod: "A", Name: "mem", Kind: 'm', Min: 1}, {Mod: "A", Name: "tab", Kind: 't', VT: tFR, Min: 1}}
	var out []*Scenario
	for perm := 0; perm < 6; perm++ { // order of A's functions among B's function imports
		order := [][]int{{0, 1, 2}, {0, 2, 1}, {1, 0, 2}, {1, 2, 0}, {2, 0, 1}, {2, 1, 0}}[perm]
		for pos := 0; pos <= 3; pos++ { // how many function imports precede the non-function imports
			for nOther := 1; nOther <= 3; nOther += 2 {
				var imps []Imp
				for k, fi := range order {
					if k == pos {
						imps = append(imps, others[:nOther]...)
					}
					imps = append(imps, Imp{Mod: "A", Name: fmt.Sprintf("f%d", fi), Kind: 'f', Sig: sigs[fi]})
				}
				if pos == 3 {
					imps = append(imps, others[:nOther]...)
				}
				b := &Desc{Name: "B", Imports: imps}
				for k := range order {
					b.Exports = append(b.Exports, Exp{fmt.Sprintf("h%d", k), 'f', uint32(k)})
				}
				sc := &Scenario{Tag: "grid-reexport", Limit: 65536, Ops: []Op{instOp(a), instOp(b)}}
				n := 0
				for k := range order {
					for _, sg := range append(append([]string{}, sigs...), "i>i") {
						c := &Desc{Name: fmt.Sprintf("C%d", n), Imports: []Imp{{Mod: "B", Name: fmt.Sprintf("h%d", k), Kind: 'f', Sig: sg}}}
						n++
						sc.Ops = append(sc.Ops, instOp(c))
						if sg == sigs[order[k]] {
							sc.Ops = append(sc.Ops, Op{Kind: "call", Inst: -1, K: 0})
						}
					}
				}
				out = append(out, sc)
			}
		}
	}
	return out
}

type lim struct {
	min uint32
	max *uint32
}

// memoryGrid: exporter limits × growth × importer limits × configured limit (boundaries around the exporter's).
func memoryGrid() []*Scenario {
	var out []*Scenario
	exps := []lim{{1, nil}, {1, u32p(3)}, {2, u32p(4)}, {0, nil}, {1, u32p(8)}, {1, u32p(20)}, {0, u32p(0)}}
	imins := []uint32{0, 1, 2, 3, 4}
	imaxs := []*uint32{nil, u32p(1), u32p(2), u32p(3), u32p(4), u32p(5), u32p(7), u32p(8), u32p(9), u32p(20), u32p(65536)}
	for _, limit := range []uint32{8, 65536} {
		for _, e := range exps {
			for _, grow := range []uint64{0, 1, 2} {
				for _, imin := range imins {
					a := &Desc{Name: "A", Mem: &LMem{Min: e.min, Max: e.max, Shared: e.max != nil && (int(imin)+int(grow))%2 == 1}, Exports: []Exp{{"mem", 'm', 0}}}
					sc := &Scenario{Tag: "grid-memory", Limit: limit, Ops: []Op{instOp(a)}}
					if grow > 0 {
						sc.Ops = append(sc.Ops, Op{Kind: "mgrow", Inst: 0, V: grow, Host: grow == 2})
					}
					for j, imax := range imaxs {
						if imax != nil && *imax < imin {
							continue // invalid limits (rejected by the decoder, C03/C14)
						}
						b := &Desc{Name: fmt.Sprintf("B%d", j), Imports: []Imp{{Mod: "A", Name: "mem", Kind: 'm', Min: imin, Max: imax}}}
						sc.Ops = append(sc.Ops, instOp(b))
						if imax != nil {
							// the same import declared `shared` (threads): the flags of the two memory types must agree
							bs := &Desc{Name: fmt.Sprintf("S%d", j), Imports: []Imp{{Mod: "A", Name: "mem", Kind: 'm', Min: imin, Max: imax, Shared: true}}}
							sc.Ops = append(sc.Ops, instOp(bs))
						}
						if j%3 == 0 {
							sc.Ops = append(sc.Ops, Op{Kind: "mstore", Inst: -1, Slot: uint32(j), V: uint64(0x80 + j), Host: j%2 == 0})
						}
					}
					sc.Ops = append(sc.Ops, Op{Kind: "mgrow", Inst: -1, V: 1}, Op{Kind: "mstore", Inst: 0, Slot: 65536*uint32(e.min+uint32(grow)) + 5, V: 0x5a})
					out = append(out, sc)
				}
			}
		}
	}
	return out
}

// tableGrid: exporter (type, limits) × growth × importer (type, limits).
func tableGrid() []*Scenario {
	var out []*Scenario
	type tl struct {
		rt  byte
		min uint32
		max *uint32
	}
	exps := []tl{{tFR, 2, nil}, {tFR, 2, u32p(6)}, {tFR, 0, nil}, {tER, 2, u32p(4)}, {tFR, 3, u32p(3)}}
	imins := []uint32{0, 1, 2, 3, 5, 6}
	imaxs := []*uint32{nil, u32p(2), u32p(3), u32p(5), u32p(6), u32p(7)}
	for _, e := range exps {
		for _, grow := range []uint64{0, 1, 3} {
			for _, irt := range []byte{tFR, tER} {
				a := &Desc{Name: "A", Tables: []LTable{{RT: e.rt, Min: e.min, Max: e.max}}, Exports: []Exp{{"tab", 't', 0}},
					Funcs: []LFunc{{Sig: ">i", Bump: -1, Const: 11}, {Sig: "i>i", Bump: -1, Const: 12}}}
				sc := &Scenario{Tag: "grid-table", Limit: 65536, Ops: []Op{instOp(a)}}
				if grow > 0 {
					sc.Ops = append(sc.Ops, Op{Kind: "tgrow", Inst: 0, K: 0, V: grow})
				}
				n := 0
				for _, imin := range imins {
					for _, imax := range imaxs {
						if imax != nil && *imax < imin {
							continue
						}
						b := &Desc{Name: fmt.Sprintf("B%d", n), Imports: []Imp{{Mod: "A", Name: "tab", Kind: 't', VT: irt, Min: imin, Max: imax}},
							Funcs: []LFunc{{Sig: ">i", Bump: -1, Const: uint32(200 + n)}}}
						sc.Ops = append(sc.Ops, instOp(b))
						if n%4 == 0 {
							sc.Ops = append(sc.Ops, Op{Kind: "tset", Inst: -1, K: 0, Slot: uint32(n % 3), F: 0})
						}
						n++
					}
				}
				sc.Ops = append(sc.Ops, Op{Kind: "tgrow", Inst: -1, K: 0, V: 1}, Op{Kind: "tset", Inst: 0, K: 0, Slot: 0, F: 1}, Op{Kind: "tset", Inst: 0, K: 0, Slot: 1, F: -1})
				out = append(out, sc)
			}
		}
	}
	return out
}

// captureGrid: constant expressions reading an imported global: value type × mutability × mutated-before ×
// {global initialiser, data offset, element offset}.
func captureGrid() []*Scenario {
	var out []*Scenario
	for _, vt := range []byte{tI32, tI64, tF32, tF64} {
		for _, mut := range []bool{false, true} {
			for _, mutate := range []int{0, 1, 2} { // 2 = through the host API
				if mutate > 0 && !mut {
					continue
				}
				for _, where := range []string{"global", "data", "elem", "chain"} {
					if where != "global" && where != "chain" && vt != tI32 {
						continue
					}
					a := &Desc{Name: "A", Globals: []LGlobal{{VT: vt, Mut: mut, Init: CE{K: 'c', V: 1}}}, Mem: &LMem{Min: 1}, Tables: []LTable{{RT: tFR, Min: 8}},
						Exports: []Exp{{"g", 'g', 0}, {"mem", 'm', 0}, {"tab", 't', 0}}}
					sc := &Scenario{Tag: "grid-capture", Limit: 65536, Ops: []Op{instOp(a)}}
					if mutate > 0 {
						sc.Ops = append(sc.Ops, Op{Kind: "gset", Inst: 0, K: 0, V: 5, Host: mutate == 2})
					}
					b := &Desc{Name: "B", Imports: []Imp{{Mod: "A", Name: "g", Kind: 'g', VT: vt, Mut: mut}}}
					switch where {
					case "global":
						b.Globals = []LGlobal{{VT: vt, Mut: true, Init: CE{K: 'g', V: 0}}}
					case "chain":
						// B re-exports the import; C reads it in its initialiser
						b.Exports = []Exp{{"g2", 'g', 0}}
						c := &Desc{Name: "C", Imports: []Imp{{Mod: "B", Name: "g2", Kind: 'g', VT: vt, Mut: mut}}, Globals: []LGlobal{{VT: vt, Init: CE{K: 'g', V: 0}}}}
						sc.Ops = append(sc.Ops, instOp(b))
						if mut {
							sc.Ops = append(sc.Ops, Op{Kind: "gset", Inst: 1, K: 0, V: 6})
						}
						b = c
					case "data":
						b.Imports = append(b.Imports, Imp{Mod: "A", Name: "mem", Kind: 'm', Min: 1})
						b.Datas = []Data{{Off: CE{K: 'g', V: 0}, Bytes: []byte{0xaa, 0xbb}}}
					case "elem":
						b.Imports = append(b.Imports, Imp{Mod: "A", Name: "tab", Kind: 't', VT: tFR, Min: 1})
						b.Funcs = []LFunc{{Sig: ">i", Bump: -1, Const: 77}}
						b.Elems = []Elem{{Table: 0, Off: CE{K: 'g', V: 0}, Items: []int{0}}}
					}
					sc.Ops = append(sc.Ops, instOp(b))
					if mut {
						sc.Ops = append(sc.Ops, Op{Kind: "gset", Inst: -1, K: 0, V: 9}, Op{Kind: "gset", Inst: 0, K: 0, V: 3, Host: true})
					}
					out = append(out, sc)
				}
			}
		}
	}
	return out
}

// failureGrid: an instantiation that fails in the middle (bad import, out-of-bounds data/element segment,
// trapping start) between uses of the earlier instances.
func failureGrid() []*Scenario {
	var out []*Scenario
	ok1 := Data{Off: CE{K: 'c', V: 10}, Bytes: []byte{0xd1, 0xd2}}
	ok2 := Data{Off: CE{K: 'c', V: 20}, Bytes: []byte{0xd3}}
	oob := Data{Off: CE{K: 'c', V: 65535}, Bytes: []byte{0xe1, 0xe2}}
	datas := [][]Data{nil, {ok1}, {oob}, {ok1, oob}, {ok1, oob, ok2},
		{{Off: CE{K: 'c', V: 0xffffffff}, Bytes: []byte{1}}},
		{{Off: CE{K: 'c', V: 65534}, Bytes: []byte{0xf1, 0xf2}}},
		{{Off: CE{K: 'c', V: 65536}, Bytes: nil}},
		{{Off: CE{K: 'c', V: 65537}, Bytes: nil}},
		{{Off: CE{K: 'c', V: 0x80000000}, Bytes: nil}},
		// zero-filled segments: over a byte the exporter's store left there, and over an earlier segment of the same module
		{{Off: CE{K: 'c', V: 10}, Bytes: []byte{0, 0}}},
		{ok1, {Off: CE{K: 'c', V: 11}, Bytes: []byte{0}}},
		{{Off: CE{K: 'c', V: 11}, Bytes: []byte{0, 0, 0, 0, 0, 0, 0, 0, 0, 0, 0, 0, 0, 0, 0, 0, 0}}, ok2}}
	eok := Elem{Table: 0, Off: CE{K: 'c', V: 1}, Items: []int{0}}
	eok2 := Elem{Table: 0, Off: CE{K: 'c', V: 2}, Items: []int{1}}
	eoob := Elem{Table: 0, Off: CE{K: 'c', V: 3}, Items: []int{0, 1}}
	elems := [][]Elem{nil, {eok}, {eoob}, {eok, eoob, eok2},
		{{Table: 0, Off: CE{K: 'c', V: 2}, Items: []int{0, 1}}},
		{{Table: 0, Off: CE{K: 'c', V: 0}, Items: []int{-1, 0}}}, // null item over a non-null slot
		{{Table: 0, Off: CE{K: 'c', V: 5}, Items: nil}},          // empty segment beyond the end
		{{Table: 0, Off: CE{K: 'c', V: 0xffffffff}, Items: []int{0}}}}
	starts := []*Start{nil, {Kind: "trap"}, {Kind: "set", K: 0, V: 99}, {Kind: "settrap", K: 0, V: 98}}
	for di, ds := range datas {
		for ei, es := range elems {
			for si, st := range starts {
				a := &Desc{Name: "A", Globals: []LGlobal{{VT: tI32, Mut: true, Init: CE{K: 'c', V: 1}}}, Mem: &LMem{Min: 1, Max: u32p(2)}, Tables: []LTable{{RT: tFR, Min: 4, Max: u32p(6)}},
					Funcs:   []LFunc{{Sig: ">i", Bump: -1, Const: 50}, {Sig: ">i", Bump: 0}},
					Exports: []Exp{{"g", 'g', 0}, {"mem", 'm', 0}, {"tab", 't', 0}, {"f", 'f', 0}, {"bump", 'f', 1}}}
				b := &Desc{Name: "B", Imports: []Imp{{Mod: "A", Name: "g", Kind: 'g', VT: tI32, Mut: true}, {Mod: "A", Name: "mem", Kind: 'm', Min: 1}, {Mod: "A", Name: "tab", Kind: 't', VT: tFR, Min: 4}},
					Funcs: []LFunc{{Sig: ">i", Bump: -1, Const: 60}, {Sig: ">i", Bump: -1, Const: 61}}, Datas: ds, Elems: es, Start: st,
					Exports: []Exp{{"g", 'g', 0}, {"f", 'f', 0}}}
				c := &Desc{Name: "C", Imports: []Imp{{Mod: "A", Name: "tab", Kind: 't', VT: tFR, Min: 1}, {Mod: "A", Name: "mem", Kind: 'm', Min: 1}, {Mod: "A", Name: "bump", Kind: 'f', Sig: ">i"}},
					Datas: []Data{{Off: CE{K: 'c', V: 30}, Bytes: []byte{0xc1}}}}
				c2 := &Desc{Name: "C2", Imports: []Imp{{Mod: "B", Name: "f", Kind: 'f', Sig: ">i"}, {Mod: "B", Name: "g", Kind: 'g', VT: tI32, Mut: true}}}
				sc := &Scenario{Tag: "grid-failure", Limit: 65536, Ops: []Op{instOp(a),
					{Kind: "tset", Inst: 0, K: 0, Slot: 0, F: 0}, {Kind: "mstore", Inst: 0, Slot: 11, V: 7}, {Kind: "mstore", Inst: 0, Slot: 65535, V: 8},
					instOp(b),
					{Kind: "gset", Inst: 0, K: 0, V: 3}, {Kind: "mstore", Inst: 0, Slot: 10, V: 9, Host: true}, {Kind: "tset", Inst: 0, K: 0, Slot: 1, F: 0},
					{Kind: "call", Inst: 0, K: 1}, {Kind: "mgrow", Inst: 0, V: 1}, {Kind: "tgrow", Inst: 0, K: 0, V: 1},
					instOp(c), {Kind: "call", Inst: -1, K: 0}, instOp(c2), {Kind: "call", Inst: -1, K: 0}, {Kind: "gset", Inst: -1, K: 0, V: 4}}}
				_ = di
				_ = ei
				_ = si
				out = append(out, sc)
			}
		}
	}
	// incompatible import in the middle, and missing module / missing export / wrong kind
	for _, bad := range []Imp{{Mod: "A", Name: "g", Kind: 'g', VT: tI32, Mut: false}, {Mod: "A", Name: "g", Kind: 'g', VT: tI64, Mut: true},
		{Mod: "A", Name: "mem", Kind: 'm', Min: 2}, {Mod: "A", Name: "mem", Kind: 'm', Min: 1, Max: u32p(1)}, {Mod: "A", Name: "tab", Kind: 't', VT: tFR, Min: 5},
		{Mod: "A", Name: "tab", Kind: 't', VT: tER, Min: 1}, {Mod: "A", Name: "f", Kind: 'f', Sig: "i>i"}, {Mod: "nope", Name: "f", Kind: 'f', Sig: ">i"},
		{Mod: "A", Name: "nope", Kind: 'f', Sig: ">i"}, {Mod: "A", Name: "g", Kind: 'f', Sig: ">i"}, {Mod: "A", Name: "mem", Kind: 't', VT: tFR, Min: 0}} {
		for _, pos := range []int{0, 1, 2} {
			a := &Desc{Name: "A", Globals: []LGlobal{{VT: tI32, Mut: true, Init: CE{K: 'c', V: 1}}}, Mem: &LMem{Min: 1, Max: u32p(2)}, Tables: []LTable{{RT: tFR, Min: 4, Max: u32p(6)}},
				Funcs: []LFunc{{Sig: ">i", Bump: -1, Const: 50}}, Exports: []Exp{{"g", 'g', 0}, {"mem", 'm', 0}, {"tab", 't', 0}, {"f", 'f', 0}}}
			good := []Imp{{Mod: "A", Name: "g", Kind: 'g', VT: tI32, Mut: true}, {Mod: "A", Name: "tab", Kind: 't', VT: tFR, Min: 1}}
			var imps []Imp
			imps = append(imps, good[:min(pos, 2)]...)
			imps = append(imps, bad)
			imps = append(imps, good[min(pos, 2):]...)
			b := &Desc{Name: "B", Imports: imps}
			// B also has segments that must NOT be applied when the import fails
			if bad.Kind != 'm' {
				b.Imports = append(b.Imports, Imp{Mod: "A", Name: "mem", Kind: 'm', Min: 1})
				b.Datas = []Data{{Off: CE{K: 'c', V: 10}, Bytes: []byte{0xdd}}}
			}
			out = append(out, &Scenario{Tag: "grid-failure-import", Limit: 65536, Ops: []Op{instOp(a), {Kind: "mstore", Inst: 0, Slot: 10, V: 7}, instOp(b),
				{Kind: "gset", Inst: 0, K: 0, V: 3}, {Kind: "mstore", Inst: 0, Slot: 10, V: 9}, {Kind: "call", Inst: 0, K: 0}}})
		}
	}
	return out
}

// ---- random graphs ----------------------------------------------------------------------------

type planned struct {
	d    *Desc
	safe []bool // per function index: constant-bodied (may be put into tables)
}

func pick[T any](r *rand.Rand, xs []T) T { return xs[r.Intn(len(xs))] }

func around(r *rand.Rand, v uint32) uint32 {
	switch r.Intn(6) {
	case 0:
		if v > 0 {
			return v - 1
		}
	case 1:
		return v + 1
	case 2:
		return 0
	}
	return v
}

func randomModule(r *rand.Rand, n int, prev []*planned) *planned {
	d := &Desc{Name: fmt.Sprintf("M%d", n)}
	p := &planned{d: d}
	hasMem := false
	// imports from earlier modules
	for _, e := range prev {
		if r.Intn(4) == 0 && len(prev) > 1 {
			continue
		}
		gts, rts, sigs := e.d.GlobalTypes(), e.d.TableRTs(), e.d.FuncSigs()
		for _, x := range e.d.Exports {
			if r.Intn(3) == 0 {
				continue
			}
			mostly := r.Intn(8) != 0 // mostly compatible
			switch x.Kind {
			case 'g':
				g := gts[x.Idx]
				im := Imp{Mod: e.d.Name, Name: x.Name, Kind: 'g', VT: g.VT, Mut: g.Mut}
				if !mostly {
					if r.Intn(2) == 0 {
						im.Mut = !im.Mut
					} else {
						im.VT = pick(r, allVT)
					}
				}
				d.Imports = append(d.Imports, im)
			case 'f':
				im := Imp{Mod: e.d.Name, Name: x.Name, Kind: 'f', Sig: sigs[x.Idx]}
				if !mostly {
					im.Sig = pick(r, allSigs)
					if r.Intn(2) == 0 && len(sigs) > 1 {
						// near miss: the signature of ANOTHER function of the exporter's index space (its imports
						// included): what a linker that looks up the export's type at the wrong index would accept
						im.Sig = sigs[r.Intn(len(sigs))]
					}
				}
				d.Imports = append(d.Imports, im)
				p.safe = append(p.safe, e.safe[x.Idx] && im.Sig == sigs[x.Idx])
			case 't':
				im := Imp{Mod: e.d.Name, Name: x.Name, Kind: 't', VT: rts[x.Idx], Min: uint32(r.Intn(3))}
				if r.Intn(3) == 0 {
					im.Max = u32p(im.Min + uint32(r.Intn(12)))
				}
				if !mostly {
					im.Min = uint32(r.Intn(12))
					if im.Max != nil && *im.Max < im.Min {
						im.Max = nil
					}
					if r.Intn(3) == 0 {
						im.VT = pick(r, []byte{tFR, tER})
					}
				}
				d.Imports = append(d.Imports, im)
			case 'm':
				if hasMem {
					continue
				}
				hasMem = true
				im := Imp{Mod: e.d.Name, Name: x.Name, Kind: 'm', Min: uint32(r.Intn(2))}
				if r.Intn(3) == 0 {
					im.Max = u32p(im.Min + uint32(r.Intn(10)))
				}
				if !mostly {
					im.Min = uint32(r.Intn(5))
					if im.Max != nil && *im.Max < im.Min {
						im.Max = nil
					}
				}
				d.Imports = append(d.Imports, im)
			}
		}
	}
	if r.Intn(30) == 0 {
		d.Imports = append(d.Imports, Imp{Mod: "nowhere", Name: "x", Kind: 'f', Sig: ">i"})
		p.safe = append(p.safe, false)
	}
	nImpG := d.nImp('g')
	impG := d.GlobalTypes()
	// globals
	for i := r.Intn(4); i > 0; i-- {
		vt := pick(r, allVT)
		g := LGlobal{VT: vt, Mut: r.Intn(2) == 0, Init: initFor(vt, pick(r, boundaryVals))}
		if nImpG > 0 && r.Intn(2) == 0 {
			k := r.Intn(nImpG)
			g.VT = impG[k].VT
			g.Init = CE{K: 'g', V: uint64(k)}
		}
		d.Globals = append(d.Globals, g)
	}
	gts := d.GlobalTypes()
	var mutI32 []int
	for k, g := range gts {
		if g.VT == tI32 && g.Mut {
			mutI32 = append(mutI32, k)
		}
	}
	// functions
	for i := 1 + r.Intn(3); i > 0; i-- {
		f := LFunc{Sig: ">i", Bump: -1, Const: uint32(0x5eed0000 + n*100 + len(d.Funcs))} // distinctive: never equal to a counter value
		switch {
		case r.Intn(4) == 0:
			f.Sig = pick(r, allSigs)
		case r.Intn(3) == 0 && len(mutI32) > 0:
			f.Bump = pick(r, mutI32)
		}
		d.Funcs = append(d.Funcs, f)
		p.safe = append(p.safe, f.Bump < 0)
	}
	for k, g := range d.Globals {
		if g.VT == tFR && g.Init.K == 'n' && r.Intn(2) == 0 {
			d.Globals[k].Init = CE{K: 'f', V: uint64(r.Intn(len(p.safe)))}
		}
	}
	// tables and memory
	for i := r.Intn(3); i > 0; i-- {
		t := LTable{RT: tFR, Min: uint32(r.Intn(6))}
		if r.Intn(6) == 0 {
			t.RT = tER
		}
		if r.Intn(2) == 0 {
			t.Max = u32p(t.Min + uint32(r.Intn(6)))
		}
		d.Tables = append(d.Tables, t)
	}
	if !hasMem && r.Intn(3) != 0 {
		d.Mem = &LMem{Min: uint32(r.Intn(3))}
		if r.Intn(2) == 0 {
			d.Mem.Max = u32p(d.Mem.Min + uint32(r.Intn(5)))
		}
		hasMem = true
	}
	// exports (including re-exports of imports)
	ne := 0
	exp := func(kind byte, n int) {
		for k := 0; k < n; k++ {
			if r.Intn(3) != 0 {
				d.Exports = append(d.Exports, Exp{fmt.Sprintf("e%d", ne), kind, uint32(k)})
				ne++
			}
		}
	}
	exp('g', len(gts))
	exp('f', len(p.safe))
	exp('t', len(d.TableRTs()))
	if hasMem && r.Intn(4) != 0 {
		d.Exports = append(d.Exports, Exp{fmt.Sprintf("e%d", ne), 'm', 0})
	}
	// segments
	var i32Imp []int
	for k := 0; k < nImpG; k++ {
		if gts[k].VT == tI32 {
			i32Imp = append(i32Imp, k)
		}
	}
	off := func(inRange uint32) CE {
		if len(i32Imp) > 0 && r.Intn(3) == 0 {
			return CE{K: 'g', V: uint64(pick(r, i32Imp))}
		}
		switch r.Intn(10) {
		case 0:
			return CE{K: 'c', V: uint64(pick(r, []uint32{65535, 65536, 131071, 131072, 0xffffffff, 0x80000000, 7, 12}))}
		}
		return CE{K: 'c', V: uint64(inRange)}
	}
	rts := d.TableRTs()
	var safeF []int
	for k, s := range p.safe {
		if s {
			safeF = append(safeF, k)
		}
	}
	for i := r.Intn(3); i > 0 && len(rts) > 0; i-- {
		t := r.Intn(len(rts))
		e := Elem{Table: uint32(t), Off: off(uint32(r.Intn(3)))}
		for j := r.Intn(3); j >= 0; j-- {
			if rts[t] == tFR && len(safeF) > 0 && r.Intn(5) != 0 {
				e.Items = append(e.Items, pick(r, safeF))
			} else {
				e.Items = append(e.Items, -1)
			}
		}
		if r.Intn(10) == 0 {
			e.Items = nil
		}
		d.Elems = append(d.Elems, e)
	}
	for i := r.Intn(3); i > 0 && hasMem; i-- {
		x := Data{Off: off(uint32(r.Intn(40)))}
		// bytes include zeros and whole segments of zeros (.bss-like): an active segment OVERWRITES what an
		// exporter's segments, earlier segments of the same module or stores left there - also with zeros
		zeros := r.Intn(3) == 0
		for j := r.Intn(6); j > 0; j-- {
			switch {
			case zeros || r.Intn(4) == 0:
				x.Bytes = append(x.Bytes, 0)
			default:
				x.Bytes = append(x.Bytes, byte(0x80+r.Intn(0x7f)))
			}
		}
		d.Datas = append(d.Datas, x)
	}
	if r.Intn(6) == 0 {
		var muts []int
		for k, g := range gts {
			if g.Mut && !isRef(g.VT) {
				muts = append(muts, k)
			}
		}
		kind := pick(r, []string{"trap", "set", "settrap"})
		if kind == "trap" || len(muts) == 0 {
			d.Start = &Start{Kind: "trap"}
		} else {
			k := pick(r, muts)
			d.Start = &Start{Kind: kind, K: uint32(k), V: mask(gts[k].VT, pick(r, boundaryVals))}
		}
	}
	return p
}

func randomScenario(r *rand.Rand, idx int) *Scenario {
	sc := &Scenario{Tag: "random", Limit: pick(r, []uint32{4, 8, 65536, 65536})}
	nmod := 2 + r.Intn(3)
	var prev []*planned
	for n := 0; n < nmod; n++ {
		p := randomModule(r, n, prev)
		prev = append(prev, p)
		sc.Ops = append(sc.Ops, instOp(p.d))
		for k := 2 + r.Intn(7); k > 0; k-- {
			op := Op{Inst: r.Intn(n + 1), K: uint32(r.Intn(4)), Host: r.Intn(3) == 0}
			switch r.Intn(7) {
			case 0, 1:
				op.Kind = "gset"
				op.V = pick(r, boundaryVals)
			case 2:
				op.Kind = "mstore"
				op.Slot = pick(r, []uint32{0, 1, 10, 11, 20, 39, 65535, 65536, 65537, 131071, 131072, 196607, 262143, 262144})
				op.V = uint64(1 + r.Intn(255))
			case 3:
				op.Kind = "mgrow"
				op.V = uint64(pick(r, []uint32{0, 1, 1, 2, 5}))
			case 4:
				op.Kind = "tset"
				op.K = uint32(r.Intn(3))
				op.Slot = uint32(r.Intn(7))
				op.F = r.Intn(4) - 1
				// only constant-bodied functions go into tables (slots are observed by calling them)
				if op.F >= 0 && (op.Inst >= len(prev) || op.F >= len(prev[op.Inst].safe) || !prev[op.Inst].safe[op.F]) {
					op.F = -1
				}
			case 5:
				op.Kind = "tgrow"
				op.K = uint32(r.Intn(3))
				op.V = uint64(r.Intn(4))
			case 6:
				op.Kind = "call"
			}
			sc.Ops = append(sc.Ops, op)
		}
	}
	return sc
}
