package main

// Importer-close stage.  A memory imported by another module is ONE object with one owner: the instance that defines it.
// Closing an importer (explicitly, by exit, by context) ends the importer, not the memory: the owner's memory keeps its
// size, its contents, its limits and its ability to grow, as seen by guest code (memory.size, loads, memory.grow) and
// by the host API (Size, Read, Write, Grow), which must keep agreeing with each other.  Both engines, with and without
// WithMemoryCapacityFromMax, importers closed in every order, also after the owner itself grew.

import (
	"context"
	"fmt"

	"github.com/tetratelabs/wazero"
	"github.com/tetratelabs/wazero/internal/wasm"
	"github.com/tetratelabs/wazero/verifharness/hx"
	"github.com/tetratelabs/wazero/verifharness/wb"
)

func importerCloseStage() {
	ctx := context.Background()
	mx := uint32(4)
	a := wb.New()
	a.Memory(1, &mx, false, "mem")
	a.AddFunc(wb.Func{Results: []byte{wb.I32}, Export: "size", Body: wb.MemorySize()})
	a.AddFunc(wb.Func{Params: []byte{wb.I32}, Results: []byte{wb.I32}, Export: "grow", Body: wb.Cat(wb.LocalGet(0), wb.MemoryGrow())})
	a.AddFunc(wb.Func{Params: []byte{wb.I32}, Results: []byte{wb.I32}, Export: "load", Body: wb.Cat(wb.LocalGet(0), wb.MemArg(wasm.OpcodeI32Load8U, 0, 0))})
	abin := a.Bytes()
	b := wb.New()
	b.M.ImportSection = append(b.M.ImportSection, wasm.Import{Type: wasm.ExternTypeMemory, Module: "A", Name: "mem", DescMem: &wasm.Memory{Min: 1, Max: 4, IsMaxEncoded: true}})
	b.M.ImportMemoryCount = 1
	b.AddFunc(wb.Func{Params: []byte{wb.I32}, Results: []byte{wb.I32}, Export: "load", Body: wb.Cat(wb.LocalGet(0), wb.MemArg(wasm.OpcodeI32Load8U, 0, 0))})
	bbin := b.Bytes()
	for _, engine := range []string{"interpreter", "compiler"} {
		for _, cfm := range []bool{false, true} {
			for _, growFirst := range []bool{false, true} {
				rc := wazero.NewRuntimeConfigCompiler()
				if engine == "interpreter" {
					rc = wazero.NewRuntimeConfigInterpreter()
				}
				rt := wazero.NewRuntimeWithConfig(ctx, rc.WithCoreFeatures(features()).WithMemoryCapacityFromMax(cfm))
				am, err := rt.InstantiateWithConfig(ctx, abin, wazero.NewModuleConfig().WithName("A"))
				if err != nil {
					hx.Fatal("importer-close stage: %v", err)
				}
				pages := uint32(1)
				if growFirst {
					am.Memory().Grow(1)
					pages = 2
				}
				am.Memory().WriteByte(77, 0x5a)
				var got []string
				obs := func(when string) {
					defer func() {
						if r := recover(); r != nil {
							got = append(got, fmt.Sprintf("%s: GO PANIC %v", when, r))
						}
					}()
					sz, _ := am.ExportedFunction("size").Call(ctx)
					ld, lerr := am.ExportedFunction("load").Call(ctx, 77)
					hb, hok := am.Memory().ReadByte(77)
					_, lastOK := am.Memory().ReadByte(pages*65536 - 1)
					got = append(got, fmt.Sprintf("%s: guest size=%v host size=%d guest load=%v,%v host read=%#x,%v last byte readable=%v", when, sz, am.Memory().Size(), ld, lerr, hb, hok, lastOK))
				}
				want := func(when string) string {
					return fmt.Sprintf("%s: guest size=[%d] host size=%d guest load=[90],<nil> host read=0x5a,true last byte readable=true", when, pages, pages*65536)
				}
				var exp []string
				obs("before")
				exp = append(exp, want("before"))
				for k := 0; k < 2; k++ {
					bm, err := rt.InstantiateWithConfig(ctx, bbin, wazero.NewModuleConfig().WithName(fmt.Sprintf("B%d", k)))
					if err != nil {
						got = append(got, fmt.Sprintf("importer %d cannot be linked: %v", k, err))
						break
					}
					bm.ExportedFunction("load").Call(ctx, 77)
					if k == 0 {
						bm.Close(ctx)
					} else {
						bm.CloseWithExitCode(ctx, 3)
					}
					w := fmt.Sprintf("after closing importer %d", k)
					obs(w)
					exp = append(exp, want(w))
				}
				func() {
					defer func() {
						if r := recover(); r != nil {
							got = append(got, fmt.Sprintf("grow: GO PANIC %v", r))
						}
					}()
					g, _ := am.ExportedFunction("grow").Call(ctx, 1)
					got = append(got, fmt.Sprintf("guest grow(1)=%v", g))
					hp, hok := am.Memory().Grow(1)
					got = append(got, fmt.Sprintf("host Grow(1)=%d,%v", hp, hok))
				}()
				exp = append(exp, fmt.Sprintf("guest grow(1)=[%d]", pages), fmt.Sprintf("host Grow(1)=%d,true", pages+1))
				pages += 2
				obs("after growing")
				exp = append(exp, want("after growing"))
				rt.Close(ctx)
				rep.Case(fmt.Sprintf("importer-close/%s/%v/%v", engine, cfm, growFirst))
				for k := range exp {
					if k >= len(got) || got[k] != exp[k] {
						g := "<missing>"
						if k < len(got) {
							g = got[k]
						}
						rep.Violate(hx.Violation{Kind: "impl-violation", Signature: "C14:owner-memory-changed-by-closing-an-importer:" + engine,
							What:     fmt.Sprintf("%s (capacity from max: %v, owner grew first: %v): module A defines and exports (memory 1 4); importers of it are instantiated and closed; A's memory must be what it was: %s", engine, cfm, growFirst, g),
							Input:    map[string]any{"stage": "importer close", "engine": engine, "cap_from_max": cfm, "owner_grew_first": growFirst},
							Expected: exp[k], Actual: g})
						break
					}
				}
			}
		}
	}
}
