package main

// Importer-close stage.  A memory imported by another module is ONE object with one owner: the instance that defines it.
// Closing an importer (explicitly, by exit, by context) ends the importer, not the memory: the owner's memory keeps its
// size, its contents, its limits and its ability to grow, as seen by guest code (memory.size, loads, memory.grow) and
// by the host API (Size, Read, Write, Grow), which must keep agreeing with each other.  Both engines, with and without
// WithMemoryCapacityFromMax, importers closed in every order, also after the owner itself grew.

import (
	"context"
	"fmt"

	"github.com/tetratelabs/wazero"
	"github.com/tetratelabs/wazero/internal/wasm"
	"github.com/tetratelabs/wazero/verifharness/hx"
	"github.com/tetratelabs/wazero/verifharness/wb"
)

func importerCloseStage() {
	ctx := context.Background()
	mx := uint32(4)
	a := wb.New()
	a.Memory(1, &mx, false, "mem")
	a.AddFunc(wb.Func{Results: []byte{wb.I32}, Export: "size", Body: wb.MemorySize()})
	a.AddFunc(wb.Func{Params: []byte{wb.I32}, Results: []byte{wb.I32}, Export: "grow", Body: wb.Cat(wb.LocalGet(0), wb.MemoryGrow())})
	a.AddFunc(wb.Func{Params: []byte{wb.I32}, Results: []byte{wb.I32}, Export: "load", Body: wb.Cat(wb.LocalGet(0), wb.MemArg(wasm.OpcodeI32Load8U, 0, 0))})
	abin := a.Bytes()
	b := wb.New()
	b.M.ImportSection = append(b.M.ImportSection, wasm.Import{Type: wasm.ExternTypeMemory, Module: "A", Name: "mem", DescMem: &wasm.Memory{Min: 1, Max: 4, IsMaxEncoded: true}})
	b.M.ImportMemoryCount = 1
	b.AddFunc(wb.Func{Params: []byte{wb.I32}, Results: []byte{wb.I32}, Export: "load", Body: wb.Cat(wb.LocalGet(0), wb.MemArg(wasm.OpcodeI32Load8U, 0, 0))})
	bbin := b.Bytes()
	for _, engine := range []string{"interpreter", "compiler"} {
		for _, cfm := range []bool{false, true} {
			for _, growFirst := range []bool{false, true} {
				rc := wazero.NewRuntimeConfigCompiler()
				if engine == "interpreter" {
					rc = wazero.NewRuntimeConfigInterpreter()
				}
				rt := wazero.NewRuntimeWithConfig(ctx, rc.WithCoreFeatures(features()).WithMemoryCapacityFromMax(cfm))
				am, err := rt.InstantiateWithConfig(ctx, abin, wazero.NewModuleConfig().WithName("A"))
				if err != nil {
					hx.Fatal("importer-close stage: %v", err)
				}
				pages := uint32(1)
				if growFirst {
					am.Memory().Grow(1)
					pages = 2
				}
				am.Memory().WriteByte(77, 0x5a)
				var got []string
				obs := func(when string) {
					defer func() {
						if r := recover(); r != nil {
							got = append(got, fmt.Sprintf("%s: GO PANIC %v", when, r))
						}
					}()
					sz, _ := am.ExportedFunction("size").Call(ctx)
					ld, lerr := am.ExportedFunction("load").Call(ctx, 77)
					hb, hok := am.Memory().ReadByte(77)
					_, lastOK := am.Memory().ReadByte(pages*65536 - 1)
					got = append(got, fmt.Sprintf("%s: guest size=%v host size=%d guest load=%v,%v host read=%#x,%v last byte readable=%v", when, sz, am.Memory().Size(), ld, lerr, hb, hok, lastOK))
				}
				want := func(when string) string {
					return fmt.Sprintf("%s: guest size=[%d] host size=%d guest load=[90],<nil> host read=0x5a,true last byte readable=true", when, pages, pages*65536)
				}
				var exp []string
				obs("before")
				exp = append(exp, want("before"))
				for k := 0; k < 2; k++ {
					bm, err := rt.InstantiateWithConfig(ctx, bbin, wazero.NewModuleConfig().WithName(fmt.Sprintf("B%d", k)))
					if err != nil {
						got = append(got, fmt.Sprintf("importer %d cannot be linked: %v", k, err))
						break
					}
					bm.ExportedFunction("load").Call(ctx, 77)
					if k == 0 {
						bm.Close(ctx)
					} else {
						bm.CloseWithExitCode(ctx, 3)
					}
					w := fmt.Sprintf("after closing importer %d", k)
					obs(w)
					exp = append(exp, want(w))
				}
				func() {
					defer func() {
						if r := recover(); r != nil {
							got = append(got, fmt.Sprintf("grow: GO PANIC %v", r))
						}
					}()
					g, _ := am.ExportedFunction("grow").Call(ctx, 1)
					got = append(got, fmt.Sprintf("guest grow(1)=%v", g))
					hp, hok := am.Memory().Grow(1)
					got = append(got, fmt.Sprintf("host Grow(1)=%d,%v", hp, hok))
				}()
				exp = append(exp, fmt.Sprintf("guest grow(1)=[%d]", pages), fmt.Sprintf("host Grow(1)=%d,true", pages+1))
				pages += 2
				obs("after growing")
				exp = append(exp, want("after growing"))
				rt.Close(ctx)
				rep.Case(fmt.Sprintf("importer-close/%s/%v/%v", engine, cfm, growFirst))
				for k := range exp {
					if k >= len(got) || got[k] != exp[k] {
						g := "<missing>"
						if k < len(got) {
							g = got[k]
						}
						rep.Violate(hx.Violation{Kind: "impl-violation", Signature: "C14:owner-memory-changed-by-closing-an-importer:" + engine,
							What:     fmt.Sprintf("%s (capacity from max: %v, owner grew first: %v): module A defines and exports (memory 1 4); importers of it are instantiated and closed; A's memory must be what it was: %s", engine, cfm, growFirst, g),
							Input:    map[string]any{"stage": "importer close", "engine": engine, "cap_from_max": cfm, "owner_grew_first": growFirst},
							Expected: exp[k], Actual: g})
						break
					}
				}
			}
		}
	}
}

// importLimitsStage: a memory import is linked only when the exporter's limits lie within the importer's declared ones
// (exporter.min >= importer.min, exporter.max <= importer.max), for shared memories exactly as for unshared ones: the
// importer's code was validated and compiled against ITS declaration, and the size it can ever observe is bounded by
// its own declared maximum.  Every pair of declarations around the exporter's (1, 4); a linked importer then grows the
// memory as far as it can: the size never exceeds what it declared.
func importLimitsStage() {
	ctx := context.Background()
	for _, shared := range []bool{false, true} {
		mx := uint32(4)
		a := wb.New()
		a.Memory(1, &mx, shared, "mem")
		abin := a.Bytes()
		for _, engine := range []string{"interpreter", "compiler"} {
			for _, d := range [][2]uint32{{1, 4}, {1, 2}, {1, 3}, {1, 5}, {0, 4}, {2, 4}, {1, 65536}, {0, 65536}, {2, 2}} {
				b := wb.New()
				b.M.ImportSection = append(b.M.ImportSection, wasm.Import{Type: wasm.ExternTypeMemory, Module: "A", Name: "mem", DescMem: &wasm.Memory{Min: d[0], Max: d[1], IsMaxEncoded: true, IsShared: shared}})
				b.M.ImportMemoryCount = 1
				b.AddFunc(wb.Func{Params: []byte{wb.I32}, Results: []byte{wb.I32}, Export: "grow", Body: wb.Cat(wb.LocalGet(0), wb.MemoryGrow())})
				b.AddFunc(wb.Func{Results: []byte{wb.I32}, Export: "size", Body: wb.MemorySize()})
				rc := wazero.NewRuntimeConfigCompiler()
				if engine == "interpreter" {
					rc = wazero.NewRuntimeConfigInterpreter()
				}
				rt := wazero.NewRuntimeWithConfig(ctx, rc.WithCoreFeatures(features()))
				if _, err := rt.InstantiateWithConfig(ctx, abin, wazero.NewModuleConfig().WithName("A")); err != nil {
					hx.Fatal("import-limits stage: %v", err)
				}
				bm, err := rt.InstantiateWithConfig(ctx, b.Bytes(), wazero.NewModuleConfig().WithName("B"))
				wantLink := d[0] <= 1 && d[1] >= 4
				got := "linked"
				if err != nil {
					got = "refused"
				}
				over := ""
				if err == nil {
					for k := 0; k < 6; k++ {
						bm.ExportedFunction("grow").Call(ctx, 1)
					}
					sz, _ := bm.ExportedFunction("size").Call(ctx)
					if len(sz) == 1 && uint32(sz[0]) > d[1] {
						over = fmt.Sprintf("; after growing, memory.size = %d pages > the importer's declared maximum %d", uint32(sz[0]), d[1])
					}
				}
				rt.Close(ctx)
				rep.Case(fmt.Sprintf("import-limits/%v/%s/%d-%d", shared, engine, d[0], d[1]))
				if (got == "linked") != wantLink || over != "" {
					rep.Violate(hx.Violation{Kind: "impl-violation", Signature: "C14:memory-import-limits-not-enforced:" + engine,
						What:     fmt.Sprintf("%s: exporter (memory 1 4%s); importer declares (memory %d %d%s): %s%s", engine, map[bool]string{true: " shared"}[shared], d[0], d[1], map[bool]string{true: " shared"}[shared], got, over),
						Input:    map[string]any{"stage": "import limits", "engine": engine, "shared": shared, "importer_min": d[0], "importer_max": d[1]},
						Expected: map[bool]string{true: "linked", false: "refused"}[wantLink], Actual: got + over})
				} else {
					rep.Count("import-limits:" + got)
				}
			}
		}
	}
}
