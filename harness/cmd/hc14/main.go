// hc14: correspondence + monitor harness for C14 (memory size, growth, host memory API).
//
// Tie B: the decoder's memory sizer + Validate (through the real binary.DecodeModule) and the real
// MemoryInstance (through a real instantiated module on both engines, with and without a custom
// allocator) are driven with boundary grids and grow/probe histories; every answer is compared with
// the Lean model (topic c14 of the oracle).
// Tie C: the property's own predicates are evaluated on the implementation: grow succeeds iff the
// result stays within min(declared max, limit), returns the previous size, keeps contents, new pages
// are zero; memory.size, api.Memory.Size() and both engines agree; host accesses succeed iff
// offset+length <= size.
package main

import (
	"context"
	"encoding/json"
	"errors"
	"flag"
	"fmt"
	"os"
	"strings"
	"syscall"

	"github.com/tetratelabs/wazero"
	"github.com/tetratelabs/wazero/api"
	"github.com/tetratelabs/wazero/experimental"
	"github.com/tetratelabs/wazero/internal/wasm"
	"github.com/tetratelabs/wazero/internal/wasm/binary"
	"github.com/tetratelabs/wazero/verifharness/hx"
	"github.com/tetratelabs/wazero/verifharness/wb"
)

var (
	orc *hx.Oracle
	rep *hx.Report
)

// sparse allocator: virtual reservation of max bytes, nothing touched until written.
type sparseMem struct {
	buf []byte
}

func (s *sparseMem) Reallocate(size uint64) []byte {
	if size > uint64(len(s.buf)) {
		return nil
	}
	return s.buf[:size]
}
func (s *sparseMem) Free() {
	if s.buf != nil {
		syscall.Munmap(s.buf)
		s.buf = nil
	}
}

func sparseAlloc(cap, max uint64) experimental.LinearMemory {
	n := max
	if n == 0 {
		n = 65536
	}
	b, err := syscall.Mmap(-1, 0, int(n), syscall.PROT_READ|syscall.PROT_WRITE, syscall.MAP_ANON|syscall.MAP_PRIVATE|syscall.MAP_NORESERVE)
	if err != nil {
		hx.Fatal("mmap %d: %v", n, err)
	}
	return &sparseMem{buf: b}
}

func module(min uint32, max *uint32, shared bool) []byte {
	m := wb.New()
	hgrow := m.ImportFunc("env", "hgrow", []byte{wb.I32}, []byte{wb.I32})
	m.Memory(min, max, shared, "memory")
	ggrow := m.AddFunc(wb.Func{Params: []byte{wb.I32}, Results: []byte{wb.I32}, Export: "grow",
		Body: wb.Cat(wb.LocalGet(0), wb.MemoryGrow())})
	// access, grow in a CALLEE (host function using the API / another guest function), access again in the
	// same function: (a1, delta, a2) -> previous size.  The compiler keeps the memory base and length in
	// registers across instructions and has to refresh them after every call.
	for _, v := range []struct {
		name   string
		callee uint32
		store  bool
	}{{"touch_hgrow_touch", hgrow, false}, {"touch_ggrow_touch", ggrow, false}, {"touch_hgrow_store", hgrow, true}, {"touch_ggrow_store", ggrow, true}} {
		second := wb.Cat(wb.LocalGet(2), wb.MemArg(wasm.OpcodeI32Load8U, 0, 0), wb.Op(wasm.OpcodeDrop))
		if v.store {
			second = wb.Cat(wb.LocalGet(2), wb.LocalGet(2), wb.MemArg(wasm.OpcodeI32Load8U, 0, 0), wb.MemArg(wasm.OpcodeI32Store8, 0, 0))
		}
		m.AddFunc(wb.Func{Params: []byte{wb.I32, wb.I32, wb.I32}, Results: []byte{wb.I32}, Locals: []byte{wb.I32}, Export: v.name,
			Body: wb.Cat(wb.LocalGet(0), wb.MemArg(wasm.OpcodeI32Load8U, 0, 0), wb.Op(wasm.OpcodeDrop),
				wb.LocalGet(1), wb.Call(v.callee), wb.LocalSet(3), second, wb.LocalGet(3))})
	}
	m.AddFunc(wb.Func{Results: []byte{wb.I32}, Export: "size", Body: wb.MemorySize()})
	m.AddFunc(wb.Func{Params: []byte{wb.I32}, Results: []byte{wb.I32}, Export: "load8",
		Body: wb.Cat(wb.LocalGet(0), wb.MemArg(wasm.OpcodeI32Load8U, 0, 0))})
	m.AddFunc(wb.Func{Params: []byte{wb.I32, wb.I32}, Export: "store8",
		Body: wb.Cat(wb.LocalGet(0), wb.LocalGet(1), wb.MemArg(wasm.OpcodeI32Store8, 0, 0))})
	// size after a call in the same function (the compiler caches the length across instructions)
	m.AddFunc(wb.Func{Params: []byte{wb.I32}, Results: []byte{wb.I32}, Export: "grow_then_size",
		Body: wb.Cat(wb.LocalGet(0), wb.MemoryGrow(), wb.Op(wasm.OpcodeDrop), wb.MemorySize())})
	return m.Bytes()
}

type config struct {
	Min     uint32   `json:"min"`
	Max     *uint32  `json:"max"`
	Limit   uint32   `json:"limit"`
	CFM     bool     `json:"cap_from_max"`
	Alloc   bool     `json:"allocator"`
	Shared  bool     `json:"shared"`
	Engine  string   `json:"engine"`
	History []string `json:"history,omitempty"`
	// WarmLimit > 0: the runtime shares a compilation cache with ANOTHER runtime, configured with this memory limit,
	// that compiled and instantiated the same binary first (a limit is a per-runtime setting: what one runtime's limit
	// makes of the memory's maximum must not be baked into code the other runtime runs)
	WarmLimit uint32 `json:"warm_limit,omitempty"`
}

func (c config) maxStr() string {
	if c.Max == nil {
		return "-"
	}
	return fmt.Sprint(*c.Max)
}

func features() api.CoreFeatures {
	return api.CoreFeaturesV2 | experimental.CoreFeaturesThreads
}

// decodeGrid: real DecodeModule vs the regenerated sizer+Validate.
func decodeGrid() {
	vals := []uint32{0, 1, 2, 3, 5, 9, 10, 11, 65535, 65536, 65537, 0x7fffffff, 0x80000000, 0xffffffff}
	limits := []uint32{0, 1, 2, 5, 10, 65535, 65536}
	for _, limit := range limits {
		for _, cfm := range []bool{false, true} {
			for _, mn := range vals {
				for mi := -1; mi < len(vals); mi++ {
					var mx *uint32
					if mi >= 0 {
						v := vals[mi]
						mx = &v
					}
					c := config{Min: mn, Max: mx, Limit: limit, CFM: cfm}
					bin := module(mn, mx, false)
					mod, err := binary.DecodeModule(bin, features(), limit, cfm, false, false)
					var got string
					if err != nil {
						got = "err"
					} else {
						ms := mod.MemorySection
						got = fmt.Sprintf("ok %d %d %d", ms.Min, ms.Cap, ms.Max)
					}
					want := orc.Askf("c14 decode %d %s %d %s", limit, b(cfm), mn, c.maxStr())
					rep.Case(fmt.Sprintf("decode/%d/%v/%d/%s", limit, cfm, mn, c.maxStr()))
					rep.Count("decode:" + strings.Fields(got)[0])
					if got != want {
						rep.Violate(hx.Violation{Kind: "correspondence", Signature: "C14:decode-differs", What: "DecodeModule memory limits differ from the regenerated sizer+Validate model",
							Input: c, Expected: want, Actual: got})
					}
					// monitor (property, theorem decode_accepts_valid read on the real decoder): a valid memory type - declared
					// maximum a valid wasm value (<= 65536, the boundary included), minimum within min(max, limit) - is
					// ACCEPTED under both capacity settings
					eff := limit
					if mx != nil && *mx <= 65536 {
						eff = min32(*mx, limit)
					}
					if err != nil && limit <= 65536 && (mx == nil || *mx <= 65536) && mn <= eff {
						rep.Violate(hx.Violation{Kind: "impl-violation", Signature: "C14:valid-memory-type-rejected", What: fmt.Sprintf("a memory type within the limits (min %d <= min(max, limit) = %d) is rejected: %v", mn, eff, err),
							Input: c, Expected: fmt.Sprintf("accepted with max %d", eff), Actual: err.Error()})
					}
					// monitor (property): accepted => min <= max <= limit and max == min(declared, limit)
					if err == nil {
						ms := mod.MemorySection
						okp := ms.Min == mn && ms.Min <= ms.Max && ms.Max <= limit
						if mx != nil {
							okp = okp && ms.Max == min32(*mx, limit)
						}
						if mx == nil {
							okp = okp && ms.Max == limit
						}
						if !okp {
							rep.Violate(hx.Violation{Kind: "impl-violation", Signature: "C14:decoded-limits-out-of-bounds", What: "accepted memory limits are not within [min, min(max,limit)]",
								Input: c, Actual: got})
						}
					}
				}
			}
		}
	}
}

func min32(a, b uint32) uint32 {
	if a < b {
		return a
	}
	return b
}

func b(x bool) string {
	if x {
		return "1"
	}
	return "0"
}

type inst struct {
	c    config
	id   int
	rt   wazero.Runtime
	mod  api.Module
	mem  api.Memory
	ctx  context.Context
	max  uint32 // effective max (spec)
	cur  uint64 // spec: current pages, tracked over the naturals
	hist []string
	// spec contents: written bytes
	spec map[uint32]byte
}

var nextID int

func newInst(c config) *inst {
	ctx := context.Background()
	if c.Alloc {
		ctx = experimental.WithMemoryAllocator(ctx, experimental.MemoryAllocatorFunc(sparseAlloc))
	}
	var rc wazero.RuntimeConfig
	if c.Engine == "compiler" {
		rc = wazero.NewRuntimeConfigCompiler()
	} else {
		rc = wazero.NewRuntimeConfigInterpreter()
	}
	rc = rc.WithCoreFeatures(features()).WithMemoryCapacityFromMax(c.CFM)
	if c.WarmLimit > 0 {
		cache := wazero.NewCompilationCache()
		rc = rc.WithCompilationCache(cache)
		wrt := wazero.NewRuntimeWithConfig(ctx, rc.WithMemoryLimitPages(c.WarmLimit))
		if cm, err := wrt.CompileModule(ctx, module(c.Min, c.Max, c.Shared)); err == nil {
			_ = cm // kept open: the entry stays in the shared cache
		}
		// (the warm-up runtime is left open on purpose: closing it would delete the shared entry)
	}
	rc = rc.WithMemoryLimitPages(c.Limit)
	rt := wazero.NewRuntimeWithConfig(ctx, rc)
	if _, err := rt.NewHostModuleBuilder("env").NewFunctionBuilder().WithGoModuleFunction(api.GoModuleFunc(func(_ context.Context, mod api.Module, stack []uint64) {
		prev, ok := mod.Memory().Grow(uint32(stack[0]))
		if !ok {
			prev = 0xffffffff
		}
		stack[0] = uint64(prev)
	}), []api.ValueType{api.ValueTypeI32}, []api.ValueType{api.ValueTypeI32}).Export("hgrow").Instantiate(ctx); err != nil {
		hx.Fatal("env: %v", err)
	}
	bin := module(c.Min, c.Max, c.Shared)
	want := orc.Askf("c14 decode %d %s %d %s", c.Limit, b(c.CFM), c.Min, c.maxStr())
	mod, err := rt.InstantiateWithConfig(ctx, bin, wazero.NewModuleConfig().WithName(""))
	if err != nil {
		rt.Close(ctx)
		if want != "err" {
			rep.Violate(hx.Violation{Kind: "correspondence", Signature: "C14:instantiate-rejects", What: "runtime rejected a memory the model accepts: " + err.Error(), Input: c, Expected: want})
		}
		return nil
	}
	if want == "err" {
		rt.Close(ctx)
		if c.Min > c.Limit {
			// no model needed: an instance whose memory is larger than the configured limit exists
			rep.Violate(hx.Violation{Kind: "impl-violation", Signature: "C14:memory-above-the-configured-limit-instantiated",
				What:  fmt.Sprintf("a module whose memory has a minimum of %d pages was instantiated by a runtime configured WithMemoryLimitPages(%d)", c.Min, c.Limit),
				Input: c, Expected: "rejected", Actual: fmt.Sprintf("instantiated; memory.size = %d bytes", mod.Memory().Size())})
			return nil
		}
		rep.Violate(hx.Violation{Kind: "correspondence", Signature: "C14:instantiate-accepts", What: "runtime accepted a memory the model rejects", Input: c})
		return nil
	}
	var mn, cp, mx uint32
	fmt.Sscanf(want, "ok %d %d %d", &mn, &cp, &mx)
	nextID++
	i := &inst{c: c, id: nextID, rt: rt, mod: mod, mem: mod.Memory(), ctx: ctx, max: mx, cur: uint64(mn), spec: map[uint32]byte{}}
	orc.Askf("c14 new %d %d %d %d %s", i.id, mn, cp, mx, b(c.Shared))
	return i
}

func (i *inst) close() { i.rt.Close(i.ctx) }

func (i *inst) input() config {
	c := i.c
	c.History = append([]string{}, i.hist...)
	return c
}

func (i *inst) call(name string, args ...uint64) ([]uint64, error) {
	return i.mod.ExportedFunction(name).Call(i.ctx, args...)
}

func (i *inst) at4g() bool { return i.cur == 65536 }

var inFn = []string{"touch_hgrow_touch", "touch_ggrow_touch", "touch_hgrow_store", "touch_ggrow_store"}

// grow through the guest (guest=true) or the host API; via > 0: inside a guest function that accesses the
// memory before the growing call and (in the pages that the grow adds, when it succeeds) after it.
func (i *inst) grow(delta uint32, guest bool, via int) {
	op := fmt.Sprintf("grow(%#x,guest=%v)", delta, guest)
	if via > 0 && i.cur > 0 && i.cur+uint64(delta) < 65536 && i.cur < 65536 {
		// (at 65536 pages every compiled access traps: finding F13, reported by sizes()/probes())
		op = fmt.Sprintf("grow(%#x,%s)", delta, inFn[via-1])
	} else {
		via = 0
	}
	i.hist = append(i.hist, op)
	want := orc.Askf("c14 grow %d %d %s 0 0", i.id, delta, b(i.c.Alloc))
	var prev uint32
	var ok bool
	if via > 0 {
		newPages := i.cur
		if i.cur+uint64(delta) <= uint64(i.max) {
			newPages = i.cur + uint64(delta)
		}
		a2 := newPages*65536 - 1
		res, err := i.call(inFn[via-1], 0, uint64(delta), a2)
		rep.Count("grow-inside-function:" + inFn[via-1])
		if err != nil {
			rep.Violate(hx.Violation{Kind: "impl-violation", Signature: "C14:access-after-grow-in-callee:" + i.c.Engine,
				What:  fmt.Sprintf("%s(0, %d, %#x) at %d pages (max %d): %s; the property requires the access at the last byte of the %d-page memory to succeed", inFn[via-1], delta, a2, i.cur, i.max, strings.SplitN(err.Error(), "\n", 2)[0], newPages),
				Input: i.input()})
			// the grow itself may have happened: resynchronise on the API's view
			if uint64(i.mem.Size()) == newPages*65536 {
				i.cur = newPages
			}
			return
		}
		prev = uint32(res[0])
		ok = prev != 0xffffffff
	} else if guest {
		res, err := i.call("grow", uint64(delta))
		if err != nil {
			rep.Violate(hx.Violation{Kind: "impl-violation", Signature: "C14:guest-grow-error:" + i.c.Engine, What: "memory.grow returned an error: " + err.Error(), Input: i.input()})
			return
		}
		prev = uint32(res[0])
		ok = prev != 0xffffffff
	} else {
		prev, ok = i.mem.Grow(delta)
	}
	// property monitor over the naturals
	specOK := i.cur+uint64(delta) <= uint64(i.max)
	var wr uint32
	var wok string
	var wpages, wlen uint64
	if want == "panic" {
		rep.Violate(hx.Violation{Kind: "correspondence", Signature: "C14:model-panics", What: "model predicts a Go panic in Grow", Input: i.input()})
		return
	}
	fmt.Sscanf(want, "%d %s pages=%d len=%d", &wr, &wok, &wpages, &wlen)
	rep.Count(fmt.Sprintf("grow:%v", ok))
	if ok != specOK || (ok && uint64(prev) != i.cur) {
		rep.Violate(hx.Violation{Kind: "impl-violation", Signature: "C14:grow-decision:" + i.c.Engine, What: fmt.Sprintf("grow(%d) at %d pages, max %d: ok=%v prev=%d; the property requires ok=%v prev=%d", delta, i.cur, i.max, ok, prev, specOK, i.cur),
			Input: i.input()})
	}
	if (wok == "1") != ok || (ok && wr != prev) {
		rep.Violate(hx.Violation{Kind: "correspondence", Signature: "C14:grow-differs", What: "Grow result differs from the model", Input: i.input(), Expected: want, Actual: fmt.Sprintf("%d %v", prev, ok)})
	}
	if specOK {
		i.cur += uint64(delta)
	}
}

func (i *inst) sizes() {
	i.hist = append(i.hist, "sizes")
	want := orc.Askf("c14 size %d", i.id)
	var wapi, wpages, c32, c64, lv32 uint64
	fmt.Sscanf(want, "api=%d pages=%d c32=%d c64=%d lv32=%d", &wapi, &wpages, &c32, &c64, &lv32)
	if wpages != i.cur {
		rep.Violate(hx.Violation{Kind: "correspondence", Signature: "C14:model-pages-differ-from-spec", What: "model page count differs from the natural-number spec", Input: i.input(), Expected: i.cur, Actual: wpages})
	}
	for _, fn := range []string{"size", "grow_then_size"} {
		var res []uint64
		var err error
		if fn == "size" {
			res, err = i.call("size")
		} else {
			res, err = i.call(fn, 0)
		}
		if err != nil {
			rep.Violate(hx.Violation{Kind: "impl-violation", Signature: "C14:memory.size-error:" + i.c.Engine, What: err.Error(), Input: i.input()})
			continue
		}
		got := uint64(uint32(res[0]))
		if got != i.cur {
			sig := "C14:memory.size-wrong:" + i.c.Engine
			if i.at4g() && i.c.Engine == "compiler" && got == 0 {
				sig = "F13:compiler-memory.size-is-0-at-65536-pages"
			}
			rep.Violate(hx.Violation{Kind: "impl-violation", Signature: sig, What: fmt.Sprintf("%s returned %d pages, actual size is %d pages", fn, got, i.cur), Input: i.input(), Expected: i.cur, Actual: got})
		}
		// correspondence with the as-is (32-bit load) or repaired (64-bit load) model variant
		if i.c.Engine == "compiler" && !i.c.Shared && got != c32 && got != c64 {
			rep.Violate(hx.Violation{Kind: "correspondence", Signature: "C14:compiler-size-matches-no-variant", What: "compiler memory.size matches neither model variant", Input: i.input(), Expected: want, Actual: got})
		}
	}
	// host API
	sz := uint64(i.mem.Size())
	if sz != i.cur*65536 {
		sig := "C14:api.Size-wrong"
		if i.at4g() && sz == 0 {
			sig = "F14:api.Size-is-0-at-65536-pages"
		}
		rep.Violate(hx.Violation{Kind: "impl-violation", Signature: sig, What: fmt.Sprintf("api.Memory.Size() = %d, actual size is %d bytes", sz, i.cur*65536), Input: i.input(), Expected: i.cur * 65536, Actual: sz})
	}
	if sz != wapi {
		rep.Violate(hx.Violation{Kind: "correspondence", Signature: "C14:api.Size-differs", What: "api.Memory.Size() differs from the model", Input: i.input(), Expected: wapi, Actual: sz})
	}
	if p, ok := i.mem.Grow(0); !ok || uint64(p) != i.cur {
		rep.Violate(hx.Violation{Kind: "impl-violation", Signature: "C14:Grow0-wrong", What: fmt.Sprintf("Grow(0) = %d,%v at %d pages", p, ok, i.cur), Input: i.input()})
	}
}

func try(f func()) (pan string) {
	defer func() {
		if r := recover(); r != nil {
			pan = fmt.Sprint(r)
		}
	}()
	f()
	return
}

func safeRead(m api.Memory, off, n uint32) (ok bool, pan string) {
	defer func() {
		if r := recover(); r != nil {
			pan = fmt.Sprint(r)
		}
	}()
	var v []byte
	v, ok = m.Read(off, n)
	if ok {
		// the view is the host's access path: nothing beyond offset+length may be reachable through it
		// (re-slicing up to cap, or append writing in place), whatever capacity the buffer has behind it
		if reach := uint64(off) + uint64(cap(v)); cap(v) != len(v) {
			readViewReach = fmt.Sprintf("Read(%#x, %#x) returned a view with len %d and cap %d: bytes up to offset %#x are reachable through it (memory size %#x)", off, n, len(v), cap(v), reach, m.Size())
		}
	}
	return
}

// readViewReach: set by safeRead when a returned view exposes more than was asked for
var readViewReach string

func (i *inst) reportViewReach() {
	if readViewReach != "" {
		rep.Violate(hx.Violation{Kind: "impl-violation", Signature: "C14:read-view-reaches-beyond-length", What: readViewReach, Input: i.input()})
		readViewReach = ""
	}
}

// appendAtEnd: what an embedder may do with a Read view (the documentation says appending disconnects it):
// append to a view that ends at the end of the memory.  If the append wrote in place, the bytes land beyond the
// current size and the next grow exposes them (checked by contents()).
func (i *inst) appendAtEnd() {
	if sz := i.mem.Size(); sz >= 4 && i.cur < 65536 {
		if v, ok := i.mem.Read(sz-4, 4); ok {
			v = append(v, []byte("-OVERFLOW-OVERFLOW")...)
			_ = v
		}
	}
}

func (i *inst) probes(r interface{ Intn(int) int }) {
	lenB := i.cur * 65536
	offs := []uint64{0, 1, 65535, 65536, 0xffffffff, 0x7fffffff, 0x80000000}
	for _, d := range []uint64{0, 1, 2, 3, 4, 7, 8, 9} {
		if lenB >= d {
			offs = append(offs, lenB-d)
		}
		offs = append(offs, lenB+d)
	}
	for _, o64 := range offs {
		if o64 > 0xffffffff {
			continue
		}
		off := uint32(o64)
		// host byte write/read
		v := byte(r.Intn(255) + 1)
		inb := o64+1 <= lenB
		i.hist = append(i.hist, fmt.Sprintf("probe(%#x)", off))
		rep.Case(fmt.Sprintf("probe/%d/%d/%v", i.cur, int64(o64)-int64(lenB), i.c.Engine))
		wantW := orc.Askf("c14 wb %d %d %d", i.id, off, v)
		okW := i.mem.WriteByte(off, v)
		if okW != inb {
			rep.Violate(hx.Violation{Kind: "impl-violation", Signature: "C14:WriteByte-bounds", What: fmt.Sprintf("WriteByte(%d) ok=%v with size %d", off, okW, lenB), Input: i.input()})
		}
		if b(okW) != wantW {
			rep.Violate(hx.Violation{Kind: "correspondence", Signature: "C14:WriteByte-differs", What: "WriteByte differs from the model", Input: i.input(), Expected: wantW, Actual: okW})
		}
		if okW {
			i.spec[off] = v
		}
		got, okR := i.mem.ReadByte(off)
		wantR := orc.Askf("c14 rb %d %d", i.id, off)
		gotS := "none"
		if okR {
			gotS = fmt.Sprint(got)
		}
		if gotS != wantR {
			rep.Violate(hx.Violation{Kind: "correspondence", Signature: "C14:ReadByte-differs", What: "ReadByte differs from the model", Input: i.input(), Expected: wantR, Actual: gotS})
		}
		if okR != inb || (okR && got != v) {
			rep.Violate(hx.Violation{Kind: "impl-violation", Signature: "C14:ReadByte-bounds", What: fmt.Sprintf("ReadByte(%d) = %d,%v with size %d", off, got, okR, lenB), Input: i.input()})
		}
		// multi-byte accessors: ok iff off+n <= len
		for _, n := range []uint64{2, 4, 8} {
			want := o64+n <= lenB
			wantM := orc.Askf("c14 hassize %d %d %d", i.id, off, n) == "1"
			var ok bool
			pan := try(func() {
				switch n {
				case 2:
					_, ok = i.mem.ReadUint16Le(off)
				case 4:
					_, ok = i.mem.ReadUint32Le(off)
				case 8:
					_, ok = i.mem.ReadUint64Le(off)
				}
			})
			if pan != "" {
				rep.Violate(hx.Violation{Kind: "impl-violation", Signature: "C14:Read-panics", What: fmt.Sprintf("ReadUint%dLe(%d) with size %d panics: %s", n*8, off, lenB, pan), Input: i.input()})
				continue
			}
			if ok != want || ok != wantM {
				rep.Violate(hx.Violation{Kind: "impl-violation", Signature: "C14:Read-bounds", What: fmt.Sprintf("Read%d(%d) ok=%v with size %d (model %v)", n*8, off, ok, lenB, wantM), Input: i.input()})
			}
		}
		for _, n := range []uint32{0, 1, 5, 65536, 0xffffffff} {
			want := o64+uint64(n) <= lenB
			wantM := orc.Askf("c14 hassize %d %d %d", i.id, off, n) == "1"
			ok, pan := safeRead(i.mem, off, n)
			if pan != "" {
				rep.Violate(hx.Violation{Kind: "impl-violation", Signature: "C14:Read-panics", What: fmt.Sprintf("Read(%d,%d) with size %d panics: %s", off, n, lenB, pan), Input: i.input()})
				continue
			}
			if ok != want || ok != wantM {
				rep.Violate(hx.Violation{Kind: "impl-violation", Signature: "C14:Read-bounds", What: fmt.Sprintf("Read(%d,%d) ok=%v with size %d (model %v)", off, n, ok, lenB, wantM), Input: i.input()})
			}
		}
		// host writes of every form: ok iff off+n <= len, for n = 0 as well; a refused write changes nothing
		for _, n := range []uint32{0, 1, 2, 5} {
			want := o64+uint64(n) <= lenB
			wantM := orc.Askf("c14 hassize %d %d %d", i.id, off, n) == "1"
			buf := make([]byte, n)
			for k := range buf {
				buf[k] = v
			}
			var okW, okS bool
			pan := try(func() { okW = i.mem.Write(off, buf) })
			pan2 := try(func() { okS = i.mem.WriteString(off, string(buf)) })
			if pan != "" || pan2 != "" {
				rep.Violate(hx.Violation{Kind: "impl-violation", Signature: "C14:Write-panics", What: fmt.Sprintf("Write/WriteString(%d, %d bytes) with size %d panics: %s%s", off, n, lenB, pan, pan2), Input: i.input()})
				continue
			}
			if okW != want || okS != want || okW != wantM {
				rep.Violate(hx.Violation{Kind: "impl-violation", Signature: "C14:Write-bounds", What: fmt.Sprintf("Write(%d, %d bytes) ok=%v WriteString ok=%v with size %d; the property requires %v (model %v)", off, n, okW, okS, lenB, want, wantM), Input: i.input()})
			}
			if okW {
				for k := uint32(0); k < n; k++ {
					i.spec[off+k] = v
					orc.Askf("c14 wb %d %d %d", i.id, off+k, v)
				}
			}
		}
		for _, n := range []uint64{2, 4, 8} {
			want := o64+n <= lenB
			var ok bool
			pan := try(func() {
				switch n {
				case 2:
					ok = i.mem.WriteUint16Le(off, uint16(v)|uint16(v)<<8)
				case 4:
					ok = i.mem.WriteUint32Le(off, uint32(v)*0x01010101)
				case 8:
					ok = i.mem.WriteUint64Le(off, uint64(v)*0x0101010101010101)
				}
			})
			if pan != "" {
				rep.Violate(hx.Violation{Kind: "impl-violation", Signature: "C14:Write-panics", What: fmt.Sprintf("WriteUint%dLe(%d) with size %d panics: %s", n*8, off, lenB, pan), Input: i.input()})
				continue
			}
			if ok != want {
				rep.Violate(hx.Violation{Kind: "impl-violation", Signature: "C14:Write-bounds", What: fmt.Sprintf("WriteUint%dLe(%d) ok=%v with size %d", n*8, off, ok, lenB), Input: i.input()})
			}
			if ok {
				for k := uint32(0); k < uint32(n); k++ {
					i.spec[off+k] = v
					orc.Askf("c14 wb %d %d %d", i.id, off+k, v)
				}
			}
		}
		// guest access: in bounds -> value; out of bounds -> out-of-bounds trap
		res, err := i.call("load8", uint64(off))
		if inb {
			if err != nil {
				sig := "C14:guest-load-traps-in-bounds:" + i.c.Engine
				if i.at4g() && i.c.Engine == "compiler" && !i.c.Shared {
					sig = "F13:compiler-access-traps-at-65536-pages"
				}
				rep.Violate(hx.Violation{Kind: "impl-violation", Signature: sig, What: fmt.Sprintf("i32.load8_u at %d traps (%v) with size %d", off, err, lenB), Input: i.input()})
			} else if byte(res[0]) != v {
				rep.Violate(hx.Violation{Kind: "impl-violation", Signature: "C14:guest-load-wrong-value:" + i.c.Engine, What: fmt.Sprintf("i32.load8_u at %d = %d, host wrote %d", off, res[0], v), Input: i.input()})
			}
		} else if err == nil || !strings.Contains(err.Error(), "out of bounds memory access") {
			rep.Violate(hx.Violation{Kind: "impl-violation", Signature: "C14:guest-load-oob-no-trap:" + i.c.Engine, What: fmt.Sprintf("i32.load8_u at %d with size %d: %v", off, lenB, err), Input: i.input()})
		}
	}
}

// afterGrowContents: contents written before survive growth and new pages read zero.
func (i *inst) contents(oldLen uint64) {
	for off, v := range i.spec {
		got, ok := i.mem.ReadByte(off)
		if !ok || got != v {
			rep.Violate(hx.Violation{Kind: "impl-violation", Signature: "C14:contents-lost", What: fmt.Sprintf("byte at %d was %d, now %d,%v", off, v, got, ok), Input: i.input()})
		}
	}
	lenB := i.cur * 65536
	for _, o := range []uint64{oldLen, oldLen + 1, oldLen + 65535, lenB - 1} {
		if o >= oldLen && o < lenB && o <= 0xffffffff {
			if _, written := i.spec[uint32(o)]; written {
				continue
			}
			got, ok := i.mem.ReadByte(uint32(o))
			if !ok || got != 0 {
				rep.Violate(hx.Violation{Kind: "impl-violation", Signature: "C14:new-page-not-zero", What: fmt.Sprintf("new byte at %d = %d,%v", o, got, ok), Input: i.input()})
			}
		}
	}
}

func history(c config, deltas []uint32, r interface{ Intn(int) int }) {
	// (a fault inside generated machine code kills this process without a usable Go trace: the history being run is
	// announced first, so that the check can name it as the failing input)
	if cj, err := json.Marshal(map[string]any{"config": c, "grow_deltas": deltas}); err == nil {
		fmt.Fprintf(os.Stderr, "HISTORY %s\n", cj)
	}
	i := newInst(c)
	rep.Case(fmt.Sprintf("cfg/%d/%s/%d/%v/%v/%v/%s/%v", c.Min, c.maxStr(), c.Limit, c.CFM, c.Alloc, c.Shared, c.Engine, deltas))
	if i == nil {
		rep.Count("instantiate:rejected")
		return
	}
	defer i.close()
	rep.Count("instantiate:ok")
	i.sizes()
	i.probes(r)
	i.reportViewReach()
	for k, d := range deltas {
		old := i.cur * 65536
		i.appendAtEnd()
		via := 0
		if r.Intn(3) == 0 {
			via = 1 + r.Intn(len(inFn))
		}
		i.grow(d, (k+r.Intn(2))%2 == 0, via)
		i.sizes()
		i.contents(old)
		if k == len(deltas)-1 || r.Intn(3) == 0 {
			i.probes(r)
			i.reportViewReach()
		}
	}
	rep.Sample(i.input())
}

func u(v uint32) *uint32 { return &v }

func main() {
	flag.Parse()
	orc = hx.StartOracle()
	defer orc.Close()
	rep = hx.NewReport("C14", "decode grid: (limit, capFromMax, min, max) over boundary values, exhaustive over the listed grid; histories: (min,max,limit,capFromMax,allocator,shared,engine) x grow-delta sequences from boundary values {0,1,rest,rest+1,2^31-1,2^31,2^32-1} x probes at {0,len-k..len+k,2^31,2^32-1}; distinct = distinct grid points / (config,delta sequence) / (pages, offset relative to len, engine) probe classes")
	r := hx.Rand()
	decodeGrid()

	type lim struct {
		min   uint32
		max   *uint32
		limit uint32
	}
	lims := []lim{
		{0, nil, 3}, {1, u(3), 65536}, {1, u(10), 5}, {2, u(2), 65536}, {0, u(0), 65536}, {1, nil, 1},
		{3, u(65536), 4}, {1, u(4), 65536},
		// the smallest limit: WithMemoryLimitPages(0) is a valid setting ("no memory pages ever"), not "unset"
		{0, nil, 0}, {0, u(5), 0}, {0, u(0), 0}, {1, nil, 0}, {1, u(1), 0},
	}
	big := []lim{{65535, u(65536), 65536}, {65534, nil, 65536}, {65536, u(65536), 65536}}
	if hx.Thorough() {
		lims = append(lims, lim{0, nil, 65536}, lim{5, u(7), 6}, lim{1, u(65535), 65536}, lim{2, nil, 2})
	}
	for _, e := range []string{"interpreter", "compiler"} {
		for _, l := range lims {
			for _, cfm := range []bool{false, true} {
				for _, alloc := range []bool{false, true} {
					if cfm && !alloc && l.limit > 1000 && (l.max == nil || *l.max > 1000) {
						continue // capacity-from-max of 4 GiB without allocator: real allocation, skipped
					}
					n := 2
					if hx.Thorough() {
						n = 8
					}
					for k := 0; k < n; k++ {
						c := config{Min: l.min, Max: l.max, Limit: l.limit, CFM: cfm, Alloc: alloc, Engine: e}
						history(c, genDeltas(r, l.min, l.max, l.limit), r)
					}
					if l.min >= 1 && l.min < l.limit && !cfm {
						// the same binary compiled first by a runtime whose limit is the memory's minimum (there the memory can
						// never grow), and by one whose limit is one page more
						for _, wl := range []uint32{l.min, l.min + 1} {
							c := config{Min: l.min, Max: l.max, Limit: l.limit, Alloc: alloc, Engine: e, WarmLimit: wl}
							history(c, genDeltas(r, l.min, l.max, l.limit), r)
						}
					}
				}
			}
		}
		// shared memories (threads): need a declared max
		for _, alloc := range []bool{false, true} {
			c := config{Min: 1, Max: u(4), Limit: 65536, Alloc: alloc, Shared: true, Engine: e}
			history(c, genDeltas(r, 1, u(4), 65536), r)
			// the edges of a shared memory's limits: empty at first (its buffer exists, its length is 0), min == max,
			// and a limit below the declared maximum
			for _, sl := range []struct {
				min, max, limit uint32
			}{{0, 2, 65536}, {0, 1, 65536}, {0, 0, 65536}, {2, 2, 65536}, {0, 3, 2}, {1, 3, 2}} {
				c := config{Min: sl.min, Max: u(sl.max), Limit: sl.limit, Alloc: alloc, Shared: true, Engine: e}
				history(c, []uint32{1, 0, 1, 1}, r)
				history(c, genDeltas(r, sl.min, u(sl.max), sl.limit), r)
			}
		}
		// the 4 GiB boundary, sparse allocator only (virtual memory)
		for _, l := range big {
			c := config{Min: l.min, Max: l.max, Limit: l.limit, Alloc: true, Engine: e}
			history(c, []uint32{1, 1, 1, 0, 0x80000000, 0xffffffff}, r)
			c.Shared = l.max != nil
			if c.Shared {
				history(c, []uint32{1, 0, 1}, r)
			}
		}
	}
	_ = errors.New
	importerCloseStage()
	importLimitsStage()
	rep.Write(orc)
}

func genDeltas(r interface{ Intn(int) int }, min uint32, max *uint32, limit uint32) []uint32 {
	eff := limit
	if max != nil && *max < eff {
		eff = *max
	}
	cur := min
	var out []uint32
	n := 3 + r.Intn(4)
	for k := 0; k < n; k++ {
		var rest uint32
		if eff > cur {
			rest = eff - cur
		}
		var d uint32
		switch r.Intn(9) {
		case 0:
			d = 0
		case 1:
			d = 1
		case 2:
			d = rest
		case 3:
			d = rest + 1
		case 4:
			d = 0x7fffffff
		case 5:
			d = 0x80000000
		case 6:
			d = 0xffffffff
		case 7:
			d = 0xffffffff - cur + 1 // wraps cur+d to 0
		default:
			if rest > 0 {
				d = uint32(r.Intn(int(rest))) + 1
			}
		}
		if uint64(cur)+uint64(d) <= uint64(eff) {
			cur += d
		}
		out = append(out, d)
	}
	return out
}
