package main

import (
	"math/rand"
	"sort"

	"github.com/tetratelabs/wazero/internal/engine/wazevo/ssa"
)

// corpus: hand-written functions (the cases of ssa/pass_test.go and a few shapes the generator also makes).
var corpus = []string{
	// pass_test "dead block"
	"B0:1 P0:i32 brz:0:1:- jump:2:- B1:3 jump:3:- B2:4 jump:3:- B3:6 jump:1:- B4:5 jump:3:-",
	// pass_test "redundant phis"
	"B0:1 iconst:1:i32:255 jump:1:1,1 B1:3 P0:i32 P2:i32 iconst:3:i32:255 brz:2:1:3,2 jump:2:- B2:6 ret:-",
	// pass_test "dead code" (without the hand-made alias)
	"B0:1 iconst:0:i32:3 store:i32:0:0:0 iconst:1:i32:0 iconst:2:i32:1 jump:1:- B1:6 iadd:4:i32:2:0 ret:4",
	// pass_test "nop elimination"
	"B0:1 P0:i32 P1:i64 iconst:2:i32:7840 ishl:3:i32:0:2 iconst:4:i64:15680 ushr:5:i64:1:4 iconst:6:i32:7841 ishl:7:i32:0:6 iconst:8:i64:15681 sshr:9:i64:1:8 ret:3,5,7,9",
	// a chain of redundant parameters through two loop headers, the inner one passing the parameter itself
	"B0:1 P0:i64 iconst:4:i32:3 iconst:5:i64:77 jump:1:4,5 B1:4 P1:i32 P2:i64 jump:2:1,2 B2:5 P3:i32 P6:i64 iconst:7:i32:1 isub:8:i32:3:7 store:i64:6:0:16 brnz:8:2:8,6 jump:3:- B3:10 brnz:1:1:8,2 jump:4:- B4:12 ret:6",
	// a shift by a constant that reaches it through a redundant parameter (not eliminated by the real pass)
	"B0:1 P0:i32 iconst:1:i32:64 jump:1:1 B1:3 P2:i32 ishl:3:i32:0:2 ret:3",
	// a dead predecessor that passes another value keeps the parameter
	"B0:1 iconst:0:i32:5 jump:1:0 B1:3 P1:i32 ret:1 B2:4 iconst:2:i32:6 jump:1:2",
	// trapping and strict instructions with unused results stay
	"B0:1 P0:i64 P1:i32 udiv:2:i32:1:1:0 call:3:2:3.i64,4.i32:0 load:5:i64:0:8 exitif:0:1:3 ret:-",
}

// ---------------------------------------------------------------- generator

type gval struct {
	v     int
	ty    ssa.Type
	konst bool
	c     uint64
}

type scope []gval

type loopCtx struct {
	header *blk
	ctr    gval   // counter parameter
	params []gval // other parameters of the header
	inits  []gval // values passed on entry
}

type gen struct {
	r      *rand.Rand
	blocks []*blk
	idom   map[*blk]*blk
	nval   int
	ctx    gval // entry parameter 0: the execution context (i64)
	budget int
	nins   int
}

func (g *gen) newVal(ty ssa.Type) gval {
	v := gval{v: g.nval, ty: ty}
	g.nval++
	return v
}

func (g *gen) newBlk(idom *blk) *blk {
	b := &blk{id: len(g.blocks)}
	g.blocks = append(g.blocks, b)
	g.idom[b] = idom
	return b
}

func (g *gen) emit(b *blk, i *inst) { b.ins = append(b.ins, i); g.nins++ }

func (g *gen) ty() ssa.Type {
	if g.r.Intn(2) == 0 {
		return ssa.TypeI32
	}
	return ssa.TypeI64
}

func width(t ssa.Type) uint64 {
	if t == ssa.TypeI64 {
		return 64
	}
	return 32
}

func (g *gen) konst(b *blk, sc *scope, ty ssa.Type, c uint64) gval {
	if ty == ssa.TypeI32 {
		c &= 0xffffffff
	}
	v := g.newVal(ty)
	v.konst, v.c = true, c
	g.emit(b, &inst{name: "iconst", rs: []pv{{v.v, ty}}, ty: ty, c: c})
	*sc = append(*sc, v)
	return v
}

var interesting = []uint64{0, 1, 2, 3, 5, 7, 31, 32, 33, 63, 64, 65, 96, 128, 255, 256, 1 << 31, 1<<32 - 1, 1 << 32, 1<<63 - 1, 1 << 63, 1<<64 - 1, 7840, 15680}

func (g *gen) randConst() uint64 {
	if g.r.Intn(3) > 0 {
		return interesting[g.r.Intn(len(interesting))]
	}
	return g.r.Uint64()
}

// pick returns a value of the type from the scope (a new constant if there is none, or sometimes anyway).
func (g *gen) pick(b *blk, sc *scope, ty ssa.Type) gval {
	var cand []gval
	for _, v := range *sc {
		if v.ty == ty {
			cand = append(cand, v)
		}
	}
	if len(cand) == 0 || g.r.Intn(12) == 0 {
		return g.konst(b, sc, ty, g.randConst())
	}
	// prefer recent values a little
	if g.r.Intn(3) == 0 && len(cand) > 3 {
		return cand[len(cand)-1-g.r.Intn(3)]
	}
	return cand[g.r.Intn(len(cand))]
}

func (g *gen) shiftAmount(b *blk, sc *scope, ty ssa.Type) gval {
	w := width(ty)
	switch g.r.Intn(10) {
	case 0, 1, 2, 3: // a new constant multiple of the width
		ks := []uint64{0, 1, 2, 3, 245, 1 << 20, 1<<26 - 1}
		c := ks[g.r.Intn(len(ks))] * w
		if g.r.Intn(6) == 0 {
			c = ks[g.r.Intn(len(ks))] * 32 // a multiple of 32 that may not be one of 64
		}
		return g.konst(b, sc, ty, c)
	case 4: // just off
		return g.konst(b, sc, ty, w*uint64(g.r.Intn(4))+1+uint64(g.r.Intn(2))*(w-2))
	case 5, 6: // an existing constant if any
		var cand []gval
		for _, v := range *sc {
			if v.ty == ty && v.konst {
				cand = append(cand, v)
			}
		}
		if len(cand) > 0 {
			return cand[g.r.Intn(len(cand))]
		}
	}
	return g.pick(b, sc, ty)
}

func (g *gen) cond(b *blk, sc *scope) gval {
	if g.r.Intn(3) == 0 {
		return g.pick(b, sc, ssa.TypeI32)
	}
	ty := g.ty()
	x, y := g.pick(b, sc, ty), g.pick(b, sc, ty)
	r := g.newVal(ssa.TypeI32)
	names := []string{"eq", "neq", "lt_s", "ge_s", "gt_s", "le_s", "lt_u", "ge_u", "gt_u", "le_u"}
	g.emit(b, &inst{name: "icmp", rs: []pv{{r.v, ssa.TypeI32}}, ty: ty, cond: names[g.r.Intn(len(names))], a: []int{x.v, y.v}})
	*sc = append(*sc, r)
	return r
}

var binList = []string{"iadd", "isub", "imul", "band", "bor", "bxor", "rotl", "rotr"}
var shiftList = []string{"ishl", "ushr", "sshr"}
var unSame = []string{"clz", "ctz", "popcnt"}
var divList = []string{"udiv", "sdiv", "urem", "srem"}
var storeList = []string{"store", "istore8", "istore16", "istore32"}

func (g *gen) one(b *blk, sc *scope) {
	def := func(name string, ty ssa.Type, a ...int) gval {
		r := g.newVal(ty)
		g.emit(b, &inst{name: name, rs: []pv{{r.v, ty}}, ty: ty, a: a})
		*sc = append(*sc, r)
		return r
	}
	switch k := g.r.Intn(100); {
	case k < 12:
		g.konst(b, sc, g.ty(), g.randConst())
	case k < 32:
		ty := g.ty()
		x, y := g.pick(b, sc, ty), g.pick(b, sc, ty)
		def(binList[g.r.Intn(len(binList))], ty, x.v, y.v)
	case k < 50:
		ty := g.ty()
		x := g.pick(b, sc, ty)
		y := g.shiftAmount(b, sc, ty)
		def(shiftList[g.r.Intn(len(shiftList))], ty, x.v, y.v)
	case k < 55:
		g.cond(b, sc)
	case k < 60:
		ty := g.ty()
		c, x, y := g.pick(b, sc, ssa.TypeI32), g.pick(b, sc, ty), g.pick(b, sc, ty)
		def("select", ty, c.v, x.v, y.v)
	case k < 64:
		ty := g.ty()
		def(unSame[g.r.Intn(len(unSame))], ty, g.pick(b, sc, ty).v)
	case k < 67:
		x := g.pick(b, sc, ssa.TypeI32)
		if g.r.Intn(2) == 0 {
			def("uextend", ssa.TypeI64, x.v)
		} else {
			def("sextend", ssa.TypeI64, x.v)
		}
	case k < 69:
		def("ireduce", ssa.TypeI32, g.pick(b, sc, ssa.TypeI64).v)
	case k < 76:
		ty := g.ty()
		p := g.pick(b, sc, ssa.TypeI64)
		r := g.newVal(ty)
		g.emit(b, &inst{name: "load", rs: []pv{{r.v, ty}}, ty: ty, a: []int{p.v}, c: uint64(g.r.Intn(4) * 4)})
		*sc = append(*sc, r)
	case k < 83:
		name := storeList[g.r.Intn(len(storeList))]
		ty := g.ty()
		if name == "istore32" {
			ty = ssa.TypeI64
		}
		v, p := g.pick(b, sc, ty), g.pick(b, sc, ssa.TypeI64)
		g.emit(b, &inst{name: name, ty: ty, a: []int{v.v, p.v}, c: uint64(g.r.Intn(4) * 4)})
	case k < 88:
		sg := sigs[g.r.Intn(len(sigs))]
		i := &inst{name: "call", c: uint64(g.r.Intn(20)), sig: int(sg.ID)}
		for _, t := range sg.Params {
			i.args = append(i.args, g.pick(b, sc, t).v)
		}
		var rs []gval
		for _, t := range sg.Results {
			r := g.newVal(t)
			rs = append(rs, r)
			i.rs = append(i.rs, pv{r.v, t})
		}
		g.emit(b, i)
		*sc = append(*sc, rs...)
	case k < 94:
		ty := g.ty()
		x, y := g.pick(b, sc, ty), g.pick(b, sc, ty)
		def(divList[g.r.Intn(len(divList))], ty, x.v, y.v, g.ctx.v)
	default:
		c := g.pick(b, sc, ssa.TypeI32)
		g.emit(b, &inst{name: "exitif", a: []int{g.ctx.v, c.v}, c: uint64(3 + g.r.Intn(8))})
	}
}

func (g *gen) straight(b *blk, sc *scope, n int) {
	for k := 0; k < n; k++ {
		g.one(b, sc)
	}
}

func (g *gen) retVals(b *blk, sc *scope) []int {
	var out []int
	for k := g.r.Intn(4); k > 0; k-- {
		out = append(out, g.pick(b, sc, g.ty()).v)
	}
	return out
}

// argsFor chooses the block arguments for the parameters `ps`; `same[k]`, when valid, is passed for parameter k
// (so that every predecessor passes the same value).
func (g *gen) argsFor(b *blk, sc *scope, ps []gval, same []gval) []int {
	out := make([]int, len(ps))
	for k, p := range ps {
		if same != nil && same[k].ty == p.ty {
			out[k] = same[k].v
		} else {
			out[k] = g.pick(b, sc, p.ty).v
		}
	}
	return out
}

func (g *gen) addParams(b *blk, n int) []gval {
	var out []gval
	for k := 0; k < n; k++ {
		p := g.newVal(g.ty())
		b.params = append(b.params, pv{p.v, p.ty})
		out = append(out, p)
	}
	return out
}

// samePolicy: for each parameter either a value of the common scope that every predecessor passes, or none.
func (g *gen) samePolicy(b *blk, sc *scope, ps []gval) []gval {
	same := make([]gval, len(ps))
	for k, p := range ps {
		if g.r.Intn(2) == 0 {
			same[k] = g.pick(b, sc, p.ty)
		}
	}
	return same
}

func (g *gen) condBranch(b *blk, c gval, tgt *blk, args []int) {
	name := "brz"
	if g.r.Intn(2) == 0 {
		name = "brnz"
	}
	g.emit(b, &inst{name: name, a: []int{c.v}, tgt: tgt.id, args: args})
}

func (g *gen) jump(b *blk, tgt *blk, args []int) { g.emit(b, &inst{name: "jump", tgt: tgt.id, args: args}) }

// region generates code starting at the end of `cur`; it returns the block in which the code continues and its
// scope, or open == false when every path ended (return / continue).
func (g *gen) region(cur *blk, sc scope, depth int, loops []*loopCtx) (*blk, scope, bool) {
	sc = append(scope(nil), sc...)
	for k := 1 + g.r.Intn(3); k > 0; k-- {
		g.straight(cur, &sc, g.r.Intn(7))
		if depth <= 0 || g.budget <= 0 {
			continue
		}
		g.budget--
		switch c := g.r.Intn(100); {
		case c < 25: // if / else
			cv := g.cond(cur, &sc)
			t, e, j := g.newBlk(cur), g.newBlk(cur), g.newBlk(cur)
			// the conditional target sometimes has parameters of its own: a single predecessor, always redundant
			eps := g.addParams(e, g.r.Intn(3)/2)
			tps := g.addParams(t, g.r.Intn(3)/2)
			jps := g.addParams(j, g.r.Intn(4))
			same := g.samePolicy(cur, &sc, jps)
			// the two branches end the block together: all arguments are computed first
			eargs, targs := g.argsFor(cur, &sc, eps, nil), g.argsFor(cur, &sc, tps, nil)
			g.condBranch(cur, cv, e, eargs)
			g.jump(cur, t, targs)
			tb, tsc, topen := g.region(t, append(append(scope(nil), sc...), tps...), depth-1, loops)
			if topen {
				g.jump(tb, j, g.argsFor(tb, &tsc, jps, same))
			}
			eb, esc, eopen := g.region(e, append(append(scope(nil), sc...), eps...), depth-1, loops)
			if eopen {
				g.jump(eb, j, g.argsFor(eb, &esc, jps, same))
			}
			if !topen && !eopen {
				// the join block has no predecessor: a dead block
				jsc := append(append(scope(nil), sc...), jps...)
				g.straight(j, &jsc, g.r.Intn(3))
				g.emit(j, &inst{name: "ret", args: g.retVals(j, &jsc)})
				return nil, nil, false
			}
			cur, sc = j, append(sc, jps...)
		case c < 45: // if / then: the branch to the join block is a critical edge
			cv := g.cond(cur, &sc)
			t, j := g.newBlk(cur), g.newBlk(cur)
			jps := g.addParams(j, g.r.Intn(3))
			same := g.samePolicy(cur, &sc, jps)
			g.condBranch(cur, cv, j, g.argsFor(cur, &sc, jps, same))
			g.jump(cur, t, nil)
			tb, tsc, topen := g.region(t, sc, depth-1, loops)
			if topen {
				g.jump(tb, j, g.argsFor(tb, &tsc, jps, same))
			}
			cur, sc = j, append(sc, jps...)
		case c < 70: // counted loop
			h := g.newBlk(cur)
			ctr := g.newVal(ssa.TypeI32)
			h.params = append(h.params, pv{ctr.v, ctr.ty})
			ps := g.addParams(h, g.r.Intn(4))
			n := g.konst(cur, &sc, ssa.TypeI32, uint64(g.r.Intn(4)))
			lc := &loopCtx{header: h, ctr: ctr, params: ps}
			for _, p := range ps {
				lc.inits = append(lc.inits, g.pick(cur, &sc, p.ty))
			}
			init := []int{n.v}
			for _, v := range lc.inits {
				init = append(init, v.v)
			}
			g.jump(cur, h, init)
			hsc := append(append(append(scope(nil), sc...), ctr), ps...)
			lb, lsc, lopen := g.region(h, hsc, depth-1, append(loops, lc))
			if !lopen {
				return nil, nil, false
			}
			g.backEdgeArgs(lb, &lsc, lc, func(args []int, c gval) {
				x := g.newBlk(lb)
				g.emit(lb, &inst{name: "brnz", a: []int{c.v}, tgt: h.id, args: args})
				g.jump(lb, x, nil)
				cur = x
			})
			sc = lsc
		case c < 78 && len(loops) > 0: // continue: a second back edge
			lc := loops[g.r.Intn(len(loops))]
			g.backEdgeArgs(cur, &sc, lc, func(args []int, _ gval) { g.jump(cur, lc.header, args) })
			return nil, nil, false
		case c < 86: // early return
			g.emit(cur, &inst{name: "ret", args: g.retVals(cur, &sc)})
			return nil, nil, false
		case c < 90: // unconditional trap; the block still needs a terminator
			g.emit(cur, &inst{name: "exit", a: []int{g.ctx.v}, c: 3})
			g.straight(cur, &sc, g.r.Intn(3))
			g.emit(cur, &inst{name: "ret", args: g.retVals(cur, &sc)})
			return nil, nil, false
		default: // a block with a single predecessor and parameters
			nb := g.newBlk(cur)
			ps := g.addParams(nb, g.r.Intn(3))
			g.jump(cur, nb, g.argsFor(cur, &sc, ps, nil))
			cur, sc = nb, append(sc, ps...)
		}
	}
	return cur, sc, true
}

// backEdgeArgs computes the decremented counter and the arguments of a back edge to the header of `lc`: for each
// parameter the parameter itself, the value passed on entry, or something else.
func (g *gen) backEdgeArgs(b *blk, sc *scope, lc *loopCtx, k func(args []int, c gval)) {
	one := g.konst(b, sc, ssa.TypeI32, 1)
	dec := g.newVal(ssa.TypeI32)
	g.emit(b, &inst{name: "isub", rs: []pv{{dec.v, dec.ty}}, ty: ssa.TypeI32, a: []int{lc.ctr.v, one.v}})
	*sc = append(*sc, dec)
	args := []int{dec.v}
	for i, p := range lc.params {
		switch g.r.Intn(5) {
		case 0, 1:
			args = append(args, p.v)
		case 2:
			args = append(args, lc.inits[i].v)
		default:
			args = append(args, g.pick(b, sc, p.ty).v)
		}
	}
	k(args, dec)
}

func genFn(r *rand.Rand) *fn {
	g := &gen{r: r, idom: map[*blk]*blk{}, budget: 1 + r.Intn(7)}
	entry := g.newBlk(nil)
	g.ctx = g.newVal(ssa.TypeI64)
	entry.params = append(entry.params, pv{g.ctx.v, ssa.TypeI64})
	sc := scope{g.ctx}
	for _, p := range g.addParams(entry, r.Intn(4)) {
		sc = append(sc, p)
	}
	live := len(g.blocks)
	cur, csc, open := g.region(entry, sc, 1+r.Intn(4), nil)
	if open {
		g.emit(cur, &inst{name: "ret", args: g.retVals(cur, &csc)})
	}
	live = len(g.blocks)
	// dead blocks: they jump into live blocks (with arguments of their own), into each other, or return
	for k := r.Intn(3); k > 0 && r.Intn(3) > 0; k-- {
		d := g.newBlk(nil)
		dsc := scope{}
		g.straight(d, &dsc, 1+r.Intn(4))
		if r.Intn(4) == 0 {
			g.emit(d, &inst{name: "ret", args: g.retVals(d, &dsc)})
			continue
		}
		t := g.blocks[1+r.Intn(len(g.blocks)-1)]
		if t == d || len(g.blocks) < 2 {
			g.emit(d, &inst{name: "ret"})
			continue
		}
		var ps []gval
		for _, p := range t.params {
			ps = append(ps, gval{v: p.v, ty: p.ty})
		}
		g.jump(d, t, g.argsFor(d, &dsc, ps, nil))
	}
	_ = live
	// fill order: a random pre-order of the dominator tree (definitions are built before their uses); dead
	// blocks anywhere after the entry
	children := map[*blk][]*blk{}
	var roots []*blk
	for _, b := range g.blocks {
		if p := g.idom[b]; p != nil {
			children[p] = append(children[p], b)
		} else if b != entry {
			roots = append(roots, b)
		}
	}
	var order []*blk
	var walk func(b *blk)
	walk = func(b *blk) {
		order = append(order, b)
		cs := children[b]
		if r.Intn(2) == 0 {
			r.Shuffle(len(cs), func(i, j int) { cs[i], cs[j] = cs[j], cs[i] })
		}
		for _, c := range cs {
			walk(c)
		}
	}
	walk(entry)
	for _, d := range roots {
		at := 1 + r.Intn(len(order))
		order = append(order[:at], append([]*blk{d}, order[at:]...)...)
	}
	key := 1
	for _, b := range order {
		b.key = key
		key += len(b.ins)
	}
	f := &fn{blocks: g.blocks}
	sort.SliceStable(f.blocks, func(i, j int) bool { return f.blocks[i].id < f.blocks[j].id })
	return f
}
