// hssa: tie of the Lean model of wazevo's SSA optimisation passes (Wz.Model.SsaPass, oracle topic `c01ssa`) to the
// real passes (internal/engine/wazevo/ssa/pass.go).
//
// Functions of the fragment are generated as a small intermediate form (structured control flow: if/else,
// if/then, counted loops with `continue`, early returns, traps, dead blocks; random DAGs of instructions with
// unused results, values used across blocks, block parameters that are redundant because every predecessor
// passes the same value or the parameter itself, chains of such parameters, shifts by constant multiples of the
// width, loads/stores/calls/divisions interleaved) and built with the REAL ssa.Builder API.  The canonical text
// of the function is rendered back from the builder through its exported accessors (so value ids, types and
// operands are the real ones), the REAL passes run (`builder.RunPasses()`), the result is rendered again and
// compared, instruction by instruction (which instructions survive, operands after alias resolution, block
// parameters, instruction group ids), with the answer of the Lean oracle `c01ssa passes`.
//
// `RunPasses` also lays the blocks out: critical edges get a trampoline block and a `Brz/Brnz; Jump` pair
// without arguments may be inverted.  Neither is part of the model; the harness undoes the first (a branch to a
// block that did not exist before the passes is rendered with the target and arguments of the trampoline's only
// instruction) and normalises the second on both sides.  Built with `-tags verif` against a tree that has the
// hook `ssa.VerifRunPass` (see verif_passes.go.txt / overlay.json in this directory) the four passes are also
// run one by one and compared with `c01ssa stages` exactly, together with the reverse post-order.
//
// Also: `c01ssa wf` must accept every generated function, and the Lean semantics `c01ssa run` of the function as
// built and of the function the REAL passes produced must agree (values / trap, memory, call trace) on two
// argument vectors.
//
// Replay: -replay FILE with {"fn": "<function text>"} or a report whose first violation has such an input.
package main

import (
	"encoding/json"
	"flag"
	"fmt"
	"math/rand"
	"os"
	"sort"
	"strconv"
	"strings"
	"time"

	"github.com/tetratelabs/wazero/internal/engine/wazevo/ssa"
	"github.com/tetratelabs/wazero/internal/engine/wazevo/wazevoapi"
	"github.com/tetratelabs/wazero/verifharness/hx"
)

var (
	orc    *hx.Oracle
	rep    *hx.Report
	skipWf = flag.Bool("skipwf", false, "do not ask the oracle for wellFormed")
)

// ---------------------------------------------------------------- intermediate form (mirrors the text)

type T = ssa.Type

type pv struct {
	v  int
	ty T
}

type inst struct {
	name string // text name
	rs   []pv   // results (ty of the result)
	ty   T      // type field of the text
	a    []int  // operands in the order of Instruction.Args()
	c    uint64 // constant / offset / exit code / callee
	cond string
	sig  int
	tgt  int
	args []int // block arguments / return values
}

type blk struct {
	id     int
	key    int
	params []pv
	ins    []*inst
}

type fn struct{ blocks []*blk }

func tyName(t T) string {
	if t == ssa.TypeI64 {
		return "i64"
	}
	return "i32"
}

func parseTy(s string) (T, error) {
	switch s {
	case "i32":
		return ssa.TypeI32, nil
	case "i64":
		return ssa.TypeI64, nil
	}
	return 0, fmt.Errorf("type %q", s)
}

func valsText(vs []int) string {
	if len(vs) == 0 {
		return "-"
	}
	s := make([]string, len(vs))
	for i, v := range vs {
		s[i] = strconv.Itoa(v)
	}
	return strings.Join(s, ",")
}

var binNames = map[string]bool{"iadd": true, "isub": true, "imul": true, "band": true, "bor": true, "bxor": true,
	"ishl": true, "ushr": true, "sshr": true, "rotl": true, "rotr": true}
var unNames = map[string]bool{"clz": true, "ctz": true, "popcnt": true, "uextend": true, "sextend": true, "ireduce": true}
var divNames = map[string]bool{"udiv": true, "sdiv": true, "urem": true, "srem": true}
var storeNames = map[string]ssa.Opcode{"store": ssa.OpcodeStore, "istore8": ssa.OpcodeIstore8,
	"istore16": ssa.OpcodeIstore16, "istore32": ssa.OpcodeIstore32}
var condNames = map[string]ssa.IntegerCmpCond{"eq": ssa.IntegerCmpCondEqual, "neq": ssa.IntegerCmpCondNotEqual,
	"lt_s": ssa.IntegerCmpCondSignedLessThan, "ge_s": ssa.IntegerCmpCondSignedGreaterThanOrEqual,
	"gt_s": ssa.IntegerCmpCondSignedGreaterThan, "le_s": ssa.IntegerCmpCondSignedLessThanOrEqual,
	"lt_u": ssa.IntegerCmpCondUnsignedLessThan, "ge_u": ssa.IntegerCmpCondUnsignedGreaterThanOrEqual,
	"gt_u": ssa.IntegerCmpCondUnsignedGreaterThan, "le_u": ssa.IntegerCmpCondUnsignedLessThanOrEqual}

func (i *inst) text() string {
	switch {
	case i.name == "iconst":
		return fmt.Sprintf("iconst:%d:%s:%d", i.rs[0].v, tyName(i.ty), i.c)
	case binNames[i.name]:
		return fmt.Sprintf("%s:%d:%s:%d:%d", i.name, i.rs[0].v, tyName(i.ty), i.a[0], i.a[1])
	case i.name == "icmp":
		return fmt.Sprintf("icmp:%d:%s:%s:%d:%d", i.rs[0].v, tyName(i.ty), i.cond, i.a[0], i.a[1])
	case i.name == "select":
		return fmt.Sprintf("select:%d:%s:%d:%d:%d", i.rs[0].v, tyName(i.ty), i.a[0], i.a[1], i.a[2])
	case unNames[i.name]:
		return fmt.Sprintf("%s:%d:%s:%d", i.name, i.rs[0].v, tyName(i.ty), i.a[0])
	case i.name == "load":
		return fmt.Sprintf("load:%d:%s:%d:%d", i.rs[0].v, tyName(i.ty), i.a[0], i.c)
	case storeNames[i.name] != 0:
		return fmt.Sprintf("%s:%s:%d:%d:%d", i.name, tyName(i.ty), i.a[0], i.a[1], i.c)
	case i.name == "call":
		rs := "-"
		if len(i.rs) > 0 {
			s := make([]string, len(i.rs))
			for k, r := range i.rs {
				s[k] = fmt.Sprintf("%d.%s", r.v, tyName(r.ty))
			}
			rs = strings.Join(s, ",")
		}
		return fmt.Sprintf("call:%d:%d:%s:%s", i.c, i.sig, rs, valsText(i.args))
	case divNames[i.name]:
		return fmt.Sprintf("%s:%d:%s:%d:%d:%d", i.name, i.rs[0].v, tyName(i.ty), i.a[0], i.a[1], i.a[2])
	case i.name == "exitif":
		return fmt.Sprintf("exitif:%d:%d:%d", i.a[0], i.a[1], i.c)
	case i.name == "exit":
		return fmt.Sprintf("exit:%d:%d", i.a[0], i.c)
	case i.name == "jump":
		return fmt.Sprintf("jump:%d:%s", i.tgt, valsText(i.args))
	case i.name == "brz" || i.name == "brnz":
		return fmt.Sprintf("%s:%d:%d:%s", i.name, i.a[0], i.tgt, valsText(i.args))
	case i.name == "ret":
		return "ret:" + valsText(i.args)
	}
	panic("text: " + i.name)
}

func (b *blk) tokens(withGid func(*inst) string) []string {
	out := []string{fmt.Sprintf("B%d:%d", b.id, b.key)}
	for _, p := range b.params {
		out = append(out, fmt.Sprintf("P%d:%s", p.v, tyName(p.ty)))
	}
	for _, i := range b.ins {
		t := i.text()
		if withGid != nil {
			t += withGid(i)
		}
		out = append(out, t)
	}
	return out
}

func (f *fn) text() string {
	var out []string
	for _, b := range f.blocks {
		out = append(out, b.tokens(nil)...)
	}
	return strings.Join(out, " ")
}

func atoi(s string) (int, error) { return strconv.Atoi(s) }

func parseVals(s string) ([]int, error) {
	if s == "-" {
		return nil, nil
	}
	var out []int
	for _, p := range strings.Split(s, ",") {
		v, err := atoi(p)
		if err != nil {
			return nil, err
		}
		out = append(out, v)
	}
	return out, nil
}

func parseInst(tok string) (*inst, error) {
	if k := strings.IndexByte(tok, '@'); k >= 0 {
		tok = tok[:k]
	}
	p := strings.Split(tok, ":")
	bad := fmt.Errorf("instruction %q", tok)
	ints := func(idx ...int) ([]int, error) {
		out := make([]int, len(idx))
		for k, ix := range idx {
			if ix >= len(p) {
				return nil, bad
			}
			v, err := atoi(p[ix])
			if err != nil {
				return nil, bad
			}
			out[k] = v
		}
		return out, nil
	}
	name := p[0]
	i := &inst{name: name}
	var err error
	switch {
	case name == "iconst" && len(p) == 4:
		r, e := ints(1)
		if e != nil {
			return nil, e
		}
		if i.ty, err = parseTy(p[2]); err != nil {
			return nil, err
		}
		if i.c, err = strconv.ParseUint(p[3], 10, 64); err != nil {
			return nil, err
		}
		i.rs = []pv{{r[0], i.ty}}
	case binNames[name] && len(p) == 5:
		r, e := ints(1, 3, 4)
		if e != nil {
			return nil, e
		}
		if i.ty, err = parseTy(p[2]); err != nil {
			return nil, err
		}
		i.rs, i.a = []pv{{r[0], i.ty}}, r[1:]
	case name == "icmp" && len(p) == 6:
		r, e := ints(1, 4, 5)
		if e != nil {
			return nil, e
		}
		if i.ty, err = parseTy(p[2]); err != nil {
			return nil, err
		}
		i.cond = p[3]
		if _, ok := condNames[i.cond]; !ok {
			return nil, bad
		}
		i.rs, i.a = []pv{{r[0], ssa.TypeI32}}, r[1:]
	case name == "select" && len(p) == 6:
		r, e := ints(1, 3, 4, 5)
		if e != nil {
			return nil, e
		}
		if i.ty, err = parseTy(p[2]); err != nil {
			return nil, err
		}
		i.rs, i.a = []pv{{r[0], i.ty}}, r[1:]
	case unNames[name] && len(p) == 4:
		r, e := ints(1, 3)
		if e != nil {
			return nil, e
		}
		if i.ty, err = parseTy(p[2]); err != nil {
			return nil, err
		}
		i.rs, i.a = []pv{{r[0], i.ty}}, r[1:]
	case name == "load" && len(p) == 5:
		r, e := ints(1, 3, 4)
		if e != nil {
			return nil, e
		}
		if i.ty, err = parseTy(p[2]); err != nil {
			return nil, err
		}
		i.rs, i.a, i.c = []pv{{r[0], i.ty}}, r[1:2], uint64(r[2])
	case storeNames[name] != 0 && len(p) == 5:
		r, e := ints(2, 3, 4)
		if e != nil {
			return nil, e
		}
		if i.ty, err = parseTy(p[1]); err != nil {
			return nil, err
		}
		i.a, i.c = r[:2], uint64(r[2])
	case name == "call" && len(p) == 5:
		r, e := ints(1, 2)
		if e != nil {
			return nil, e
		}
		i.c, i.sig = uint64(r[0]), r[1]
		if p[3] != "-" {
			for _, e := range strings.Split(p[3], ",") {
				q := strings.Split(e, ".")
				if len(q) != 2 {
					return nil, bad
				}
				v, err := atoi(q[0])
				if err != nil {
					return nil, bad
				}
				t, err := parseTy(q[1])
				if err != nil {
					return nil, bad
				}
				i.rs = append(i.rs, pv{v, t})
			}
		}
		if i.args, err = parseVals(p[4]); err != nil {
			return nil, bad
		}
	case divNames[name] && len(p) == 6:
		r, e := ints(1, 3, 4, 5)
		if e != nil {
			return nil, e
		}
		if i.ty, err = parseTy(p[2]); err != nil {
			return nil, err
		}
		i.rs, i.a = []pv{{r[0], i.ty}}, r[1:]
	case name == "exitif" && len(p) == 4:
		r, e := ints(1, 2, 3)
		if e != nil {
			return nil, e
		}
		i.a, i.c = r[:2], uint64(r[2])
	case name == "exit" && len(p) == 3:
		r, e := ints(1, 2)
		if e != nil {
			return nil, e
		}
		i.a, i.c = r[:1], uint64(r[1])
	case name == "jump" && len(p) == 3:
		r, e := ints(1)
		if e != nil {
			return nil, e
		}
		i.tgt = r[0]
		if i.args, err = parseVals(p[2]); err != nil {
			return nil, bad
		}
	case (name == "brz" || name == "brnz") && len(p) == 4:
		r, e := ints(1, 2)
		if e != nil {
			return nil, e
		}
		i.a, i.tgt = r[:1], r[1]
		if i.args, err = parseVals(p[3]); err != nil {
			return nil, bad
		}
	case name == "ret" && len(p) == 2:
		if i.args, err = parseVals(p[1]); err != nil {
			return nil, bad
		}
	default:
		return nil, bad
	}
	return i, nil
}

func parseFn(text string) (*fn, error) {
	f := &fn{}
	var cur *blk
	for _, tok := range strings.Fields(text) {
		switch {
		case tok[0] == 'B':
			p := strings.Split(tok[1:], ":")
			if len(p) != 2 {
				return nil, fmt.Errorf("block %q", tok)
			}
			id, e1 := atoi(p[0])
			key, e2 := atoi(p[1])
			if e1 != nil || e2 != nil {
				return nil, fmt.Errorf("block %q", tok)
			}
			cur = &blk{id: id, key: key}
			f.blocks = append(f.blocks, cur)
		case tok[0] == 'P':
			p := strings.Split(tok[1:], ":")
			if cur == nil || len(p) != 2 {
				return nil, fmt.Errorf("param %q", tok)
			}
			v, e1 := atoi(p[0])
			t, e2 := parseTy(p[1])
			if e1 != nil || e2 != nil {
				return nil, fmt.Errorf("param %q", tok)
			}
			cur.params = append(cur.params, pv{v, t})
		default:
			if cur == nil {
				return nil, fmt.Errorf("instruction before block: %q", tok)
			}
			i, err := parseInst(tok)
			if err != nil {
				return nil, err
			}
			cur.ins = append(cur.ins, i)
		}
	}
	if len(f.blocks) == 0 {
		return nil, fmt.Errorf("no block")
	}
	return f, nil
}

// ---------------------------------------------------------------- building with the real Builder

var sigs = []*ssa.Signature{
	{ID: 0, Params: []T{ssa.TypeI64, ssa.TypeI32}, Results: []T{ssa.TypeI32}},
	{ID: 1, Params: nil, Results: nil},
	{ID: 2, Params: []T{ssa.TypeI64}, Results: []T{ssa.TypeI64, ssa.TypeI32}},
	{ID: 3, Params: []T{ssa.TypeI32, ssa.TypeI32, ssa.TypeI64}, Results: []T{ssa.TypeI64}},
}

type built struct {
	b       ssa.Builder
	nblocks int
	// instrs[i] = the real instruction of the i-th inserted instruction of the intermediate form
	text string
}

// build constructs the function with the real Builder API: blocks are allocated in id order (ids must be 0..n-1),
// parameters are added in block order, the blocks are filled in the order of `key`, then sealed.
func build(f *fn) (bt *built, err error) {
	defer func() {
		if r := recover(); r != nil {
			err = fmt.Errorf("builder panic: %v", r)
		}
	}()
	b := ssa.NewBuilder()
	b.Init(&ssa.Signature{ID: 100})
	for _, s := range sigs {
		b.DeclareSignature(s)
	}
	vals := map[int]ssa.Value{}
	bbs := make([]ssa.BasicBlock, len(f.blocks))
	for k, bl := range f.blocks {
		if bl.id != k {
			return nil, fmt.Errorf("block ids must be 0..n-1 in order")
		}
		bbs[k] = b.AllocateBasicBlock()
		for _, p := range bl.params {
			vals[p.v] = bbs[k].AddParam(b, p.ty)
		}
	}
	order := append([]*blk(nil), f.blocks...)
	sort.SliceStable(order, func(i, j int) bool { return order[i].key < order[j].key })
	get := func(v int) ssa.Value {
		x, ok := vals[v]
		if !ok {
			panic(fmt.Sprintf("value %d used before its definition was built", v))
		}
		return x
	}
	mk := func(vs []int) ssa.Values {
		if len(vs) == 0 {
			return ssa.ValuesNil
		}
		pool := b.VarLengthPool()
		a := pool.Allocate(len(vs))
		for _, v := range vs {
			a = a.Append(pool, get(v))
		}
		return a
	}
	for _, bl := range order {
		b.SetCurrentBlock(bbs[bl.id])
		for _, i := range bl.ins {
			in := b.AllocateInstruction()
			switch {
			case i.name == "iconst":
				if i.ty == ssa.TypeI64 {
					in.AsIconst64(i.c)
				} else {
					in.AsIconst32(uint32(i.c))
				}
			case binNames[i.name]:
				x, y := get(i.a[0]), get(i.a[1])
				switch i.name {
				case "iadd":
					in.AsIadd(x, y)
				case "isub":
					in.AsIsub(x, y)
				case "imul":
					in.AsImul(x, y)
				case "band":
					in.AsBand(x, y)
				case "bor":
					in.AsBor(x, y)
				case "bxor":
					in.AsBxor(x, y)
				case "ishl":
					in.AsIshl(x, y)
				case "ushr":
					in.AsUshr(x, y)
				case "sshr":
					in.AsSshr(x, y)
				case "rotl":
					in.AsRotl(x, y)
				case "rotr":
					in.AsRotr(x, y)
				}
			case i.name == "icmp":
				in.AsIcmp(get(i.a[0]), get(i.a[1]), condNames[i.cond])
			case i.name == "select":
				in.AsSelect(get(i.a[0]), get(i.a[1]), get(i.a[2]))
			case unNames[i.name]:
				x := get(i.a[0])
				switch i.name {
				case "clz":
					in.AsClz(x)
				case "ctz":
					in.AsCtz(x)
				case "popcnt":
					in.AsPopcnt(x)
				case "uextend":
					in.AsUExtend(x, 32, 64)
				case "sextend":
					in.AsSExtend(x, 32, 64)
				case "ireduce":
					in.AsIreduce(x, ssa.TypeI32)
				}
			case i.name == "load":
				in.AsLoad(get(i.a[0]), uint32(i.c), i.ty)
			case storeNames[i.name] != 0:
				in.AsStore(storeNames[i.name], get(i.a[0]), get(i.a[1]), uint32(i.c))
			case i.name == "call":
				in.AsCall(ssa.FuncRef(i.c), sigs[i.sig], mk(i.args))
			case divNames[i.name]:
				x, y, c := get(i.a[0]), get(i.a[1]), get(i.a[2])
				switch i.name {
				case "udiv":
					in.AsUDiv(x, y, c)
				case "sdiv":
					in.AsSDiv(x, y, c)
				case "urem":
					in.AsURem(x, y, c)
				case "srem":
					in.AsSRem(x, y, c)
				}
			case i.name == "exitif":
				in.AsExitIfTrueWithCode(get(i.a[0]), get(i.a[1]), wazevoapi.ExitCode(i.c))
			case i.name == "exit":
				in.AsExitWithCode(get(i.a[0]), wazevoapi.ExitCode(i.c))
			case i.name == "jump":
				in.AsJump(mk(i.args), bbs[i.tgt])
			case i.name == "brz":
				in.AsBrz(get(i.a[0]), mk(i.args), bbs[i.tgt])
			case i.name == "brnz":
				in.AsBrnz(get(i.a[0]), mk(i.args), bbs[i.tgt])
			case i.name == "ret":
				in.AsReturn(mk(i.args))
			default:
				panic("build: " + i.name)
			}
			b.InsertInstruction(in)
			r1, rest := in.Returns()
			if len(i.rs) > 0 {
				if !r1.Valid() || len(rest)+1 != len(i.rs) {
					panic("result count of " + i.name)
				}
				vals[i.rs[0].v] = r1
				for k, r := range rest {
					vals[i.rs[k+1].v] = r
				}
			}
		}
	}
	for _, bb := range bbs {
		b.Seal(bb)
	}
	return &built{b: b, nblocks: len(f.blocks)}, nil
}

// ---------------------------------------------------------------- rendering the real function

var opName = map[ssa.Opcode]string{
	ssa.OpcodeIadd: "iadd", ssa.OpcodeIsub: "isub", ssa.OpcodeImul: "imul", ssa.OpcodeBand: "band", ssa.OpcodeBor: "bor",
	ssa.OpcodeBxor: "bxor", ssa.OpcodeIshl: "ishl", ssa.OpcodeUshr: "ushr", ssa.OpcodeSshr: "sshr", ssa.OpcodeRotl: "rotl",
	ssa.OpcodeRotr: "rotr", ssa.OpcodeClz: "clz", ssa.OpcodeCtz: "ctz", ssa.OpcodePopcnt: "popcnt",
	ssa.OpcodeUExtend: "uextend", ssa.OpcodeSExtend: "sextend", ssa.OpcodeIreduce: "ireduce",
	ssa.OpcodeStore: "store", ssa.OpcodeIstore8: "istore8", ssa.OpcodeIstore16: "istore16", ssa.OpcodeIstore32: "istore32",
	ssa.OpcodeUdiv: "udiv", ssa.OpcodeSdiv: "sdiv", ssa.OpcodeUrem: "urem", ssa.OpcodeSrem: "srem",
}

var condText = map[ssa.IntegerCmpCond]string{}

func init() {
	for n, c := range condNames {
		condText[c] = n
	}
}

func rid(v ssa.Value) int { return int(v.ID()) }

func vids(vs []ssa.Value) []int {
	out := make([]int, len(vs))
	for k, v := range vs {
		out[k] = vid(v)
	}
	return out
}

// rinst is a rendered real instruction: the intermediate form plus the group id.
type rinst struct {
	inst
	gid uint32
}

type rblk struct {
	id     int
	params []pv
	ins    []*rinst
}

// resolver maps an operand to what the alias table resolves it to (identity without the hook)
var resolver = func(v ssa.Value) ssa.Value { return v }

func vid(v ssa.Value) int { return int(resolver(v).ID()) }

func renderInstr(cur *ssa.Instruction) *rinst {
	i := &rinst{gid: uint32(cur.GroupID())}
	op := cur.Opcode()
	r1, rest := cur.Returns()
	if r1.Valid() {
		i.rs = append(i.rs, pv{rid(r1), r1.Type()})
		for _, r := range rest {
			i.rs = append(i.rs, pv{rid(r), r.Type()})
		}
		i.ty = r1.Type()
	}
	switch op {
	case ssa.OpcodeIconst:
		i.name, i.c = "iconst", cur.ConstantVal()
	case ssa.OpcodeIadd, ssa.OpcodeIsub, ssa.OpcodeImul, ssa.OpcodeBand, ssa.OpcodeBor, ssa.OpcodeBxor, ssa.OpcodeIshl,
		ssa.OpcodeUshr, ssa.OpcodeSshr, ssa.OpcodeRotl, ssa.OpcodeRotr:
		x, y := cur.Arg2()
		i.name, i.a = opName[op], []int{vid(x), vid(y)}
	case ssa.OpcodeIcmp:
		x, y, c := cur.IcmpData()
		i.name, i.a, i.cond, i.ty = "icmp", []int{vid(x), vid(y)}, condText[c], x.Type()
	case ssa.OpcodeSelect:
		c, x, y := cur.SelectData()
		i.name, i.a = "select", []int{vid(c), vid(x), vid(y)}
	case ssa.OpcodeClz, ssa.OpcodeCtz, ssa.OpcodePopcnt, ssa.OpcodeUExtend, ssa.OpcodeSExtend, ssa.OpcodeIreduce:
		i.name, i.a = opName[op], []int{vid(cur.Arg())}
	case ssa.OpcodeLoad:
		p, off, ty := cur.LoadData()
		i.name, i.a, i.c, i.ty = "load", []int{vid(p)}, uint64(off), ty
	case ssa.OpcodeStore, ssa.OpcodeIstore8, ssa.OpcodeIstore16, ssa.OpcodeIstore32:
		v, p, off, bits := cur.StoreData()
		i.name, i.a, i.c = opName[op], []int{vid(v), vid(p)}, uint64(off)
		i.ty = v.Type()
		if op == ssa.OpcodeStore {
			if bits == 64 {
				i.ty = ssa.TypeI64
			} else {
				i.ty = ssa.TypeI32
			}
		}
	case ssa.OpcodeCall:
		ref, sig, args := cur.CallData()
		i.name, i.c, i.sig, i.args = "call", uint64(ref), int(sig), vids(args)
	case ssa.OpcodeUdiv, ssa.OpcodeSdiv, ssa.OpcodeUrem, ssa.OpcodeSrem:
		x, y, c := cur.Arg3()
		i.name, i.a = opName[op], []int{vid(x), vid(y), vid(c)}
	case ssa.OpcodeExitIfTrueWithCode:
		ctx, c, code := cur.ExitIfTrueWithCodeData()
		i.name, i.a, i.c = "exitif", []int{vid(ctx), vid(c)}, uint64(code)
	case ssa.OpcodeExitWithCode:
		ctx, code := cur.ExitWithCodeData()
		i.name, i.a, i.c = "exit", []int{vid(ctx)}, uint64(code)
	case ssa.OpcodeJump:
		_, args, t := cur.BranchData()
		i.name, i.tgt, i.args = "jump", int(t), vids(args)
	case ssa.OpcodeBrz, ssa.OpcodeBrnz:
		c, args, t := cur.BranchData()
		i.name = "brz"
		if op == ssa.OpcodeBrnz {
			i.name = "brnz"
		}
		i.a, i.tgt, i.args = []int{vid(c)}, int(t), vids(args)
	case ssa.OpcodeReturn:
		i.name, i.args = "ret", vids(cur.ReturnVals())
	default:
		panic("render: opcode " + op.String())
	}
	return i
}

// render walks the valid blocks in id order through the exported accessors.
func render(b ssa.Builder) []*rblk {
	var out []*rblk
	for bb := b.BlockIteratorBegin(); bb != nil; bb = b.BlockIteratorNext() {
		rb := &rblk{id: int(bb.ID())}
		for k := 0; k < bb.Params(); k++ {
			p := bb.Param(k)
			rb.params = append(rb.params, pv{rid(p), p.Type()})
		}
		for cur := bb.Root(); cur != nil; cur = cur.Next() {
			rb.ins = append(rb.ins, renderInstr(cur))
		}
		out = append(out, rb)
	}
	return out
}

// undoLayout removes what passLayoutBlocks added: a branch of an original block to a trampoline (a block that
// did not exist before the passes, holding one Jump) is rendered with the trampoline's target and arguments.
func undoLayout(bs []*rblk, nblocks int) ([]*rblk, int, error) {
	tramp := map[int]*rblk{}
	var out []*rblk
	for _, b := range bs {
		if b.id >= nblocks {
			tramp[b.id] = b
		} else {
			out = append(out, b)
		}
	}
	n := 0
	for _, b := range out {
		for _, i := range b.ins {
			switch i.name {
			case "jump", "brz", "brnz":
				if i.tgt >= nblocks {
					t := tramp[i.tgt]
					if t == nil || len(t.ins) != 1 || t.ins[0].name != "jump" || len(t.params) != 0 || len(i.args) != 0 {
						return nil, 0, fmt.Errorf("unexpected trampoline shape at blk%d -> blk%d", b.id, i.tgt)
					}
					if t.ins[0].gid != i.gid {
						return nil, 0, fmt.Errorf("trampoline branch blk%d -> blk%d: group %d, original branch group %d",
							b.id, i.tgt, i.gid, t.ins[0].gid)
					}
					i.tgt, i.args = t.ins[0].tgt, t.ins[0].args
					n++
				}
			}
		}
	}
	return out, n, nil
}

func blockTokens(bs []*rblk, keys map[int]int, gids bool) [][]string {
	var out [][]string
	for _, b := range bs {
		toks := []string{fmt.Sprintf("B%d:%d", b.id, keys[b.id])}
		for _, p := range b.params {
			toks = append(toks, fmt.Sprintf("P%d:%s", p.v, tyName(p.ty)))
		}
		for _, i := range b.ins {
			t := i.text()
			if gids {
				t += "@" + strconv.Itoa(int(i.gid))
			}
			toks = append(toks, t)
		}
		out = append(out, toks)
	}
	return out
}

func splitBlocks(text string) [][]string {
	var out [][]string
	for _, tok := range strings.Fields(text) {
		if tok[0] == 'B' {
			out = append(out, nil)
		}
		if len(out) == 0 {
			hx.Fatal("oracle answer does not start with a block: %q", text)
		}
		out[len(out)-1] = append(out[len(out)-1], tok)
	}
	return out
}

// normInversion rewrites a trailing `brz c, X; jump Y` without block arguments as `brnz c, Y; jump X`
// (maybeInvertBranches may do either; the group ids stay with the positions).
func normInversion(bs [][]string) int {
	n := 0
	for _, toks := range bs {
		if len(toks) < 2 {
			continue
		}
		a, b := toks[len(toks)-2], toks[len(toks)-1]
		ga, gb := "", ""
		if k := strings.IndexByte(a, '@'); k >= 0 {
			a, ga = a[:k], a[k:]
		}
		if k := strings.IndexByte(b, '@'); k >= 0 {
			b, gb = b[:k], b[k:]
		}
		pa, pb := strings.Split(a, ":"), strings.Split(b, ":")
		if pa[0] == "brz" && pb[0] == "jump" && pa[3] == "-" && pb[2] == "-" {
			toks[len(toks)-2] = fmt.Sprintf("brnz:%s:%s:-%s", pa[1], pb[1], ga)
			toks[len(toks)-1] = fmt.Sprintf("jump:%s:-%s", pa[2], gb)
			n++
		}
	}
	return n
}

func flat(bs [][]string) string {
	var s []string
	for _, b := range bs {
		s = append(s, b...)
	}
	return strings.Join(s, " ")
}

// diff returns a description of the first difference, or "".
func diff(model, real [][]string) string {
	for k := 0; k < len(model) || k < len(real); k++ {
		if k >= len(model) {
			return fmt.Sprintf("real has an extra block %s", real[k][0])
		}
		if k >= len(real) {
			return fmt.Sprintf("model has an extra block %s", model[k][0])
		}
		m, r := model[k], real[k]
		for j := 0; j < len(m) || j < len(r); j++ {
			switch {
			case j >= len(m):
				return fmt.Sprintf("block %s: real has extra %s", r[0], r[j])
			case j >= len(r):
				return fmt.Sprintf("block %s: model has extra %s", m[0], m[j])
			case m[j] != r[j]:
				return fmt.Sprintf("block %s item %d: model %s, real %s", m[0], j, m[j], r[j])
			}
		}
	}
	return ""
}

// ---------------------------------------------------------------- the check of one function

type input struct {
	Fn string `json:"fn"`
}

var argVectors = [][]string{{"1000", "3", "7", "9", "2"}, {"ffffffffffffff00", "0", "fffffffe", "1", "80000000"}}

const fuel = 48

var askTime = map[string]float64{}

func ask(line string) string {
	t0 := time.Now()
	a := orc.Ask(line)
	askTime[strings.Fields(line)[1]] += time.Since(t0).Seconds()
	return a
}

func violate(kind, sig, what, fnText string, exp, act any) {
	rep.Violate(hx.Violation{Kind: kind, Signature: sig, What: what, Input: input{Fn: fnText}, Expected: exp, Actual: act})
}

func check(f *fn, verbose bool) {
	bt, err := build(f)
	if err != nil {
		hx.Fatal("build: %v\n%s", err, f.text())
	}
	b := bt.b
	keys := map[int]int{}
	for _, bl := range f.blocks {
		keys[bl.id] = bl.key
	}
	// the function as the real builder holds it
	orig := render(b)
	text := flat(blockTokens(orig, keys, false))
	rep.Case(text)
	countConstructs(orig)
	if verbose {
		fmt.Println("function:", text)
	}

	if !*skipWf && ask("c01ssa wf "+text) != "1" {
		violate("correspondence", "C01:ssa-wellformed-rejects", "the model's wellFormed rejects a function built by the generator", text, "1", "0")
	}

	if !*skipWf {
		if a := ask("c01ssa wfstages " + text); a != "111" {
			violate("correspondence", "C01:ssa-wellformed-not-preserved", "WF with the certificate of the input: input / after phi / after nop", text, "111", a)
		}
	}

	if hookAvailable {
		if !checkStages(f, text, keys, verbose) {
			return
		}
	}

	var panicked any
	func() {
		defer func() { panicked = recover() }()
		b.RunPasses()
	}()
	if panicked != nil {
		rep.Count("real:panic")
		if ask("c01ssa phipanic "+text) == "1" {
			rep.Count("real:panic-predicted-by-model")
			return
		}
		violate("correspondence", "C01:ssa-pass-model-differs", fmt.Sprintf("the real passes panic: %v", panicked), text, "no panic", fmt.Sprint(panicked))
		return
	}
	after, ntramp, err := undoLayout(render(b), bt.nblocks)
	if err != nil {
		violate("impl-violation", "C01:ssa-layout-shape", err.Error(), text, nil, nil)
		return
	}
	for k := 0; k < ntramp; k++ {
		rep.Count("layout:critical-edge-split")
	}
	real := blockTokens(after, keys, true)
	model := splitBlocks(ask("c01ssa passes " + text))
	ninv := normInversion(real)
	normInversion(model)
	for k := 0; k < ninv; k++ {
		rep.Count("layout:brz-pair-normalised")
	}
	if verbose {
		fmt.Println("real :", flat(real))
		fmt.Println("model:", flat(model))
	}
	if d := diff(model, real); d != "" {
		violate("correspondence", "C01:ssa-pass-model-differs", "after all passes: "+d, text, flat(model), flat(real))
		return
	}
	countResult(orig, after)

	// the Lean semantics of the function as built and of what the REAL passes made of it
	realText := flat(blockTokens(after, keys, false))
	for _, avs := range argVectors {
		av := "-"
		if n := len(orig[0].params); n > 0 {
			av = strings.Join(avs[:n], ",")
		}
		o1 := ask(fmt.Sprintf("c01ssa run %d %s %s", fuel, av, text))
		o2 := ask(fmt.Sprintf("c01ssa run %d %s %s", fuel, av, realText))
		o3 := ask(fmt.Sprintf("c01ssa runopt %d %s %s", fuel, av, text))
		rep.Count("run:" + strings.Fields(o1)[0])
		if verbose {
			fmt.Println("run", av, ":", o1)
		}
		if o1 != o2 {
			violate("impl-violation", "C01:ssa-pass-changes-semantics",
				"the Lean semantics of the function before and after the REAL passes differ on args "+av, text, o1, o2)
		}
		if o1 != o3 {
			violate("correspondence", "C01:ssa-model-pass-changes-semantics",
				"the Lean semantics of the function before and after the MODEL's passes differ on args "+av, text, o1, o3)
		}
	}
}

// checkStages (hook only): the four passes one by one on a second builder.
func checkStages(f *fn, text string, keys map[int]int, verbose bool) bool {
	bt, err := build(f)
	if err != nil {
		hx.Fatal("build: %v", err)
	}
	names := []string{"deadblock", "phi", "nop", "dce"}
	stages := strings.Split(ask("c01ssa stages "+text), " | ")
	if len(stages) != 4 {
		hx.Fatal("stages: %d parts", len(stages))
	}
	ok := true
	var panicked any
	func() {
		defer func() { panicked = recover() }()
		runPass(bt.b, "sortsucc")
		for k, name := range names {
			if name == "phi" {
				runPass(bt.b, "idom")
				want := ask("c01ssa rpo " + text)
				if got := rpoText(bt.b); got != want {
					violate("correspondence", "C01:ssa-pass-model-differs", "reverse post-order", text, want, got)
					ok = false
					return
				}
			}
			runPass(bt.b, name)
			// every operand resolved through the alias table, as in `c01ssa stages`
			resolver = func(v ssa.Value) ssa.Value { return resolveAlias(bt.b, v) }
			rs := render(bt.b)
			resolver = func(v ssa.Value) ssa.Value { return v }
			real := blockTokens(rs, keys, name == "dce")
			model := splitBlocks(stages[k])
			if verbose {
				fmt.Println("after", name, "real :", flat(real))
				fmt.Println("after", name, "model:", flat(model))
			}
			if d := diff(model, real); d != "" {
				violate("correspondence", "C01:ssa-pass-model-differs", "after pass "+name+": "+d, text, flat(model), flat(real))
				ok = false
				return
			}
			rep.Count("stage-compared:" + name)
		}
	}()
	if panicked != nil {
		rep.Count("real:panic-in-stage")
		return true // reported by the RunPasses path
	}
	return ok
}

// ---------------------------------------------------------------- distribution

func countConstructs(bs []*rblk) {
	rep.Count(fmt.Sprintf("blocks:%02d", min(len(bs), 20)))
	n := 0
	for _, b := range bs {
		n += len(b.ins)
		for range b.params {
			rep.Count("in:block-param")
		}
		for _, i := range b.ins {
			rep.Count("in:" + i.name)
		}
	}
	rep.Count(fmt.Sprintf("instrs:%03d+", n/20*20))
}

func countResult(before, after []*rblk) {
	ids := map[int]*rblk{}
	for _, b := range after {
		ids[b.id] = b
	}
	defs := map[int]*inst{}
	for _, b := range before {
		for _, i := range b.ins {
			for _, r := range i.rs {
				defs[r.v] = &i.inst
			}
		}
	}
	for _, b := range before {
		a := ids[b.id]
		if a == nil {
			rep.Count("out:dead-block-removed")
			continue
		}
		for k := len(a.params); k < len(b.params); k++ {
			rep.Count("out:redundant-param-removed")
		}
		// the layout may have inverted a conditional branch: both kinds count as one
		kind := func(n string) string {
			if n == "brz" || n == "brnz" {
				return "condbr"
			}
			return n
		}
		kept := map[string]int{}
		for _, i := range a.ins {
			kept[kind(i.name)]++
		}
		all := map[string]int{}
		for _, i := range b.ins {
			all[kind(i.name)]++
			if (i.name == "ishl" || i.name == "ushr" || i.name == "sshr") && defs[i.a[1]] != nil && defs[i.a[1]].name == "iconst" {
				w := uint64(32)
				if i.ty == ssa.TypeI64 {
					w = 64
				}
				if defs[i.a[1]].c%w == 0 {
					rep.Count("in:shift-by-multiple-of-width")
				}
			}
		}
		for n, c := range all {
			for k := kept[n]; k < c; k++ {
				rep.Count("out:removed:" + n)
			}
		}
		rep.Count(fmt.Sprintf("out:gids-in-block:%d", func() int {
			s := map[uint32]bool{}
			for _, i := range a.ins {
				s[i.gid] = true
			}
			return min(len(s), 9)
		}()))
	}
}

// ---------------------------------------------------------------- main

func replayFile(path string) {
	raw, err := os.ReadFile(path)
	if err != nil {
		hx.Fatal("%v", err)
	}
	var in input
	json.Unmarshal(raw, &in)
	if in.Fn == "" {
		var full struct {
			Violations []struct {
				Input input `json:"input"`
			} `json:"violations"`
		}
		json.Unmarshal(raw, &full)
		if len(full.Violations) > 0 {
			in = full.Violations[0].Input
		}
	}
	if in.Fn == "" {
		hx.Fatal("replay: no function text in %s", path)
	}
	f, err := parseFn(in.Fn)
	if err != nil {
		hx.Fatal("replay: %v", err)
	}
	check(f, true)
}

func main() {
	n := flag.Int("n", 0, "number of generated functions (0 = tier default)")
	dump := flag.Bool("dump", false, "print every generated function")
	flag.Parse()
	orc = hx.StartOracle()
	defer orc.Close()
	rep = hx.NewReport("C01", "SSA pass tie: functions of the fragment built with the real ssa.Builder (structured control flow with if/else, if/then, counted loops, continue, early return, traps, dead blocks; instruction DAGs with dead code, cross-block uses, redundant block parameters and chains of them, shifts by multiples of the width, loads/stores/calls/divisions) ; real RunPasses == model runPasses instruction by instruction incl. group ids (layout undone); with the hook also pass by pass; wellFormed accepts; Lean semantics before == after the real passes; distinct = distinct function texts")
	if hookAvailable {
		rep.Note("built with the hook ssa.VerifRunPass: the passes are also compared one by one")
	} else {
		rep.Note("built without the hook ssa.VerifRunPass: only the result of RunPasses is compared (layout undone)")
	}
	if *hx.Replay != "" {
		replayFile(*hx.Replay)
		rep.Write(orc)
		return
	}
	for _, c := range corpus {
		f, err := parseFn(c)
		if err != nil {
			hx.Fatal("corpus %q: %v", c, err)
		}
		rep.Count("corpus")
		check(f, false)
	}
	total := 3000
	if hx.Thorough() {
		total = 300000
	}
	if *n > 0 {
		total = *n
	}
	r := hx.Rand()
	for k := 0; k < total; k++ {
		f := genFn(r)
		if *dump {
			fmt.Println(f.text())
		}
		check(f, false)
	}
	for k, v := range askTime {
		rep.Note("oracle time %s: %.1fs", k, v)
	}
	rep.Write(orc)
}

var _ = rand.Int
