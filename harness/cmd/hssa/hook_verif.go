//go:build verif

package main

import (
	"strconv"
	"strings"

	"github.com/tetratelabs/wazero/internal/engine/wazevo/ssa"
)

// built with the verif tag against a tree that has internal/engine/wazevo/ssa/verif_passes.go
// (see verif_passes.go.txt and overlay.json in this directory)
const hookAvailable = true

func runPass(b ssa.Builder, name string) { ssa.VerifRunPass(b, name) }

func resolveAlias(b ssa.Builder, v ssa.Value) ssa.Value { return ssa.VerifResolveAlias(b, v) }

func rpoText(b ssa.Builder) string {
	ids := ssa.VerifReversePostOrder(b)
	if len(ids) == 0 {
		return "-"
	}
	s := make([]string, len(ids))
	for k, id := range ids {
		s[k] = strconv.Itoa(int(id))
	}
	return strings.Join(s, ",")
}
