//go:build !verif

package main

import "github.com/tetratelabs/wazero/internal/engine/wazevo/ssa"

// built without the verif tag: the hook ssa.VerifRunPass is not compiled in; only RunPasses is compared
const hookAvailable = false

func runPass(b ssa.Builder, name string) { panic("no hook") }

func resolveAlias(b ssa.Builder, v ssa.Value) ssa.Value { return v }

func rpoText(b ssa.Builder) string { return "" }
