// hmm: "which module instance is executing" matrix for C04 / C12 / C20 (tie C: property monitor with a
// constructed reference).
//
// Both engines keep per-call-stack state that says which module INSTANCE is currently executing (the
// compiler: executionContext.callerModuleContextPtr, stored before every exit to Go; the interpreter: the
// frame's module instance and the per-activation copies of memory/globals/tables).  Everything that leaves
// native code on behalf of "the current instance" depends on it: module-aware host functions
// (api.GoModuleFunction: whose memory do they see?), ref.func, table.grow, memory.grow, memory.size,
// function listeners, tail calls that replace the frame.  With ONE guest instance that state can never be
// wrong; it only matters for call chains that cross instances and come back.
//
// Three guest MODULES b0, b1, b2 and FOUR instances m0 (of b0), m1 and m1b (BOTH of the one compiled b1) and
// m2 (of b2); b_k imports the DSL functions of the lower instances m0 (and m1) and the shared funcref table of
// m0; plus the host module "env".  Every instance has its own memory (marker byte 0xA0+instance at address
// 0, a log region), its own private table 1, two identity functions id0/id1 returning 1000*(inst+1)+i, and
// three straight-line DSL functions f0..f2 whose bodies are random sequences of
//
//	peek        log(env.peek())            host function reading byte 0 of ITS CALLER's memory
//	hgrow       log(env.hgrow())           host function growing ITS CALLER's memory by one page
//	reffunc i s tab[s] := ref.func id_i    (shared table, slots 0..3)
//	callid s    log(call_indirect tab[s])  (type () -> i32)
//	tgrow       log(table.grow 1 (null,1)) (private table)
//	mgrow       log(memory.grow 1)         msize / tsize: log the sizes
//	local j     call f_j of this module (j > own index)
//	imp m j     call f_j of the lower instance m (m0 or m1)
//	slotfn s    call_indirect tab[4+s]     (type () -> (); slots 4,5,7 hold m0's f0,f1,f0; slot 6 holds f2 of
//	                                        m1b - an instance of the SAME compiled module as m1)
//	slottail s  return_call_indirect tab[4+s]   (last op of a body only)
//	gset i v    global.set G_i (i32.const v)   gget i: log(global.get G_i)   where G_0 and G_1 are TWO imports of the one
//	                                        mutable global m0.sg in b1 and b2 (a module may import an object under
//	                                        several indexes: one shared object, whatever index it is reached by), and
//	                                        both name m0's own sg in b0
//	trap        unreachable                hpanic: call env.boom, a host function that panics (last op only)
//
// All observations go to the instance's own memory (plain stores), never through an extra host call, so
// that observing does not refresh the state under test.  A Go reference evaluator of the DSL gives the
// expected logs, table contents, sizes and which entry calls fail.  Every program runs on {interpreter,
// compiler} x listener configurations (which compiled modules were compiled with a listener factory at all x
// which functions get a listener):
//   - guest-visible observations = the reference, for every engine and listener configuration (C04: the
//     right instance's state is used; C12: attaching listeners changes nothing);
//   - the listener event sequence (kind, calling module, function, parameters/results; after/abort) of a
//     configuration is the same on both engines and properly bracketed (C20) - not compared for programs with
//     tail calls, whose events are implementation-defined.
package main

import (
	"context"
	"encoding/binary"
	"errors"
	"flag"
	"fmt"
	"math/rand"
	"strings"

	"github.com/tetratelabs/wazero"
	"github.com/tetratelabs/wazero/api"
	"github.com/tetratelabs/wazero/experimental"
	"github.com/tetratelabs/wazero/internal/wasm"
	"github.com/tetratelabs/wazero/verifharness/hx"
	"github.com/tetratelabs/wazero/verifharness/wb"
)

const (
	nBins     = 3 // compiled modules b0, b1, b2
	nInst     = 4 // instances m0, m1, m1b, m2
	nFns      = 3
	logBase   = 16
	maxPages  = 12
	maxTab1   = 24
	sharedTab = 8
)

var instName = [nInst]string{"m0", "m1", "m1b", "m2"}
var instBin = [nInst]int{0, 1, 1, 2}

// importable lower instances of binary k (by instance index): b1 imports m0; b2 imports m0 and m1
func lowerInsts(k int) []int {
	switch k {
	case 1:
		return []int{0}
	case 2:
		return []int{0, 1}
	}
	return nil
}

type Op struct {
	K string `json:"k"`
	A int    `json:"a,omitempty"`
	B int    `json:"b,omitempty"`
}

type Program struct {
	ID    int           `json:"id"`
	Fns   [nBins][][]Op `json:"fns"`   // [compiled module][fn] -> ops
	Calls [][2]int      `json:"calls"` // entry calls (instance, fn)
	Note  string        `json:"note,omitempty"`
}

func (p *Program) has(kind string) bool {
	for _, fs := range p.Fns {
		for _, f := range fs {
			for _, o := range f {
				if o.K == kind {
					return true
				}
			}
		}
	}
	return false
}

// ---- generation ---------------------------------------------------------------------------------------

func genOps(r *rand.Rand, k, f, n int) []Op {
	var ops []Op
	slot := func() int {
		// slot 6 (s = 2) holds m1b.f2: f2 of b1 itself must not reach it (same code: endless recursion)
		for {
			s := r.Intn(4)
			if !(k == 1 && f == 2 && s == 2) {
				return s
			}
		}
	}
	for i := 0; i < n; i++ {
		switch x := r.Intn(22); {
		case x < 2:
			if r.Intn(2) == 0 {
				ops = append(ops, Op{K: "gset", A: r.Intn(2), B: 1 + r.Intn(1000)})
			} else {
				ops = append(ops, Op{K: "gget", A: r.Intn(2)})
			}
		case x < 4:
			ops = append(ops, Op{K: "peek"})
		case x < 5:
			ops = append(ops, Op{K: "hgrow"})
		case x < 8:
			ops = append(ops, Op{K: "reffunc", A: r.Intn(2), B: r.Intn(4)})
		case x < 10:
			ops = append(ops, Op{K: "callid", A: r.Intn(4)})
		case x < 12:
			ops = append(ops, Op{K: "tgrow"})
		case x < 13:
			ops = append(ops, Op{K: "mgrow"})
		case x < 14:
			ops = append(ops, Op{K: []string{"msize", "tsize"}[r.Intn(2)]})
		case x < 16:
			if f+1 < nFns {
				ops = append(ops, Op{K: "local", A: f + 1 + r.Intn(nFns-f-1)})
			} else {
				ops = append(ops, Op{K: "peek"})
			}
		case x < 19:
			if ls := lowerInsts(k); len(ls) > 0 {
				ops = append(ops, Op{K: "imp", A: ls[r.Intn(len(ls))], B: r.Intn(nFns)})
			} else {
				ops = append(ops, Op{K: "tgrow"})
			}
		default:
			if k > 0 {
				ops = append(ops, Op{K: "slotfn", A: slot()})
			} else {
				ops = append(ops, Op{K: "msize"})
			}
		}
	}
	// a terminating op: a tail call through the shared table, or a failure
	if k > 0 {
		switch r.Intn(12) {
		case 0, 1:
			ops = append(ops, Op{K: "slottail", A: slot()})
		case 2:
			ops = append(ops, Op{K: "trap"})
		case 3:
			ops = append(ops, Op{K: "hpanic"})
		}
	} else if r.Intn(12) == 0 {
		ops = append(ops, Op{K: []string{"trap", "hpanic"}[r.Intn(2)]})
	}
	return ops
}

func genProgram(r *rand.Rand, id int) Program {
	p := Program{ID: id}
	for k := 0; k < nBins; k++ {
		for f := 0; f < nFns; f++ {
			p.Fns[k] = append(p.Fns[k], genOps(r, k, f, 2+r.Intn(6)))
		}
	}
	n := 4 + r.Intn(8)
	for i := 0; i < n; i++ {
		k := r.Intn(nInst)
		if r.Intn(3) > 0 {
			k = 1 + r.Intn(nInst-1) // mostly the instances whose calls cross instance boundaries
		}
		p.Calls = append(p.Calls, [2]int{k, r.Intn(nFns)})
	}
	return p
}

// corpus: the shapes behind seeded changes (kept as regression inputs)
func corpus() []Program {
	mk := func(id int, note string, fns [nBins][][]Op, calls [][2]int) Program {
		for k := range fns {
			for len(fns[k]) < nFns {
				fns[k] = append(fns[k], nil)
			}
		}
		return Program{ID: id, Fns: fns, Calls: calls, Note: note}
	}
	return []Program{
		mk(1, "ref.func; local helper that calls another module which does ref.func; ref.func", [nBins][][]Op{
			{{{K: "reffunc", A: 1, B: 3}, {K: "tgrow"}}},
			{{{K: "reffunc", A: 0, B: 0}, {K: "local", A: 1}, {K: "reffunc", A: 1, B: 1}, {K: "tgrow"}, {K: "local", A: 1}, {K: "tgrow"}, {K: "callid", A: 0}, {K: "callid", A: 1}}, {{K: "imp", A: 0, B: 0}}},
			{}}, [][2]int{{1, 0}, {1, 0}}),
		mk(2, "host function reached through a chain main -> lib", [nBins][][]Op{
			{{{K: "peek"}, {K: "hgrow"}}},
			{{{K: "imp", A: 0, B: 0}, {K: "peek"}}},
			{{{K: "imp", A: 1, B: 0}, {K: "peek"}, {K: "imp", A: 0, B: 0}, {K: "peek"}, {K: "hgrow"}}}}, [][2]int{{3, 0}, {1, 0}}),
		mk(3, "call into another module, then a host call from the same function", [nBins][][]Op{
			{{{K: "msize"}}, {{K: "mgrow"}}, {{K: "peek"}}},
			{{{K: "imp", A: 0, B: 0}, {K: "peek"}, {K: "imp", A: 0, B: 1}, {K: "peek"}, {K: "imp", A: 0, B: 2}, {K: "peek"}, {K: "hgrow"}}},
			{}}, [][2]int{{1, 0}}),
		mk(4, "tail call through the shared table into ANOTHER INSTANCE of the same compiled module", [nBins][][]Op{
			{{{K: "peek"}}},
			{{{K: "peek"}, {K: "mgrow"}, {K: "slottail", A: 2}}, {{K: "tgrow"}, {K: "slotfn", A: 2}, {K: "peek"}}, {{K: "peek"}, {K: "mgrow"}, {K: "tgrow"}, {K: "msize"}}},
			{{{K: "slottail", A: 2}}}}, [][2]int{{1, 0}, {1, 1}, {2, 0}, {3, 0}}),
		mk(6, "one mutable global imported under two indexes: read through one, write through the other, read again - in one function", [nBins][][]Op{
			{{{K: "gget", A: 0}, {K: "gset", A: 1, B: 11}, {K: "gget", A: 0}}},
			{{{K: "gget", A: 1}, {K: "gset", A: 0, B: 7}, {K: "gget", A: 1}, {K: "gget", A: 0}, {K: "gset", A: 1, B: 8}, {K: "gget", A: 0}, {K: "imp", A: 0, B: 0}, {K: "gget", A: 1}}},
			{{{K: "gget", A: 0}, {K: "imp", A: 1, B: 0}, {K: "gget", A: 0}, {K: "gget", A: 1}}}}, [][2]int{{1, 0}, {3, 0}, {2, 0}, {0, 0}}),
		mk(5, "a trap / host panic two instances deep, entry module without listeners", [nBins][][]Op{
			{{{K: "peek"}, {K: "trap"}}, {{K: "peek"}, {K: "hpanic"}}},
			{{{K: "tgrow"}, {K: "imp", A: 0, B: 0}}, {{K: "imp", A: 0, B: 1}}},
			{{{K: "peek"}, {K: "imp", A: 1, B: 0}}, {{K: "imp", A: 1, B: 1}}, {{K: "peek"}}}}, [][2]int{{3, 0}, {3, 1}, {3, 2}, {1, 0}}),
	}
}

// ---- reference evaluator --------------------------------------------------------------------------------

type refInst struct {
	pages, tab1 int
	log         []int32
}

type refState struct {
	sg    int32 // the one shared global m0.sg
	m     [nInst]refInst
	slots [sharedTab][2]int // (instance, fn): slots 0..3 id functions; 4..7 DSL functions
}

func newRef() *refState {
	s := &refState{}
	for k := range s.m {
		s.m[k] = refInst{pages: 1, tab1: 1}
	}
	for i := 0; i < 4; i++ {
		s.slots[i] = [2]int{0, i % 2}
	}
	s.slots[4], s.slots[5], s.slots[7] = [2]int{0, 0}, [2]int{0, 1}, [2]int{0, 0}
	s.slots[6] = [2]int{2, 2} // m1b.f2 (the element segment of b1 is applied by m1 and then by m1b)
	return s
}

// run executes f of instance i; the result is "" or the failure class that unwinds everything
func (s *refState) run(p *Program, i, f int) string {
	for _, o := range p.Fns[instBin[i]][f] {
		m := &s.m[i]
		lg := func(v int) { m.log = append(m.log, int32(v)) }
		switch o.K {
		case "peek":
			lg(0xA0 + i)
		case "hgrow", "mgrow":
			if m.pages+1 <= maxPages {
				lg(m.pages)
				m.pages++
			} else {
				lg(-1)
			}
		case "reffunc":
			s.slots[o.B] = [2]int{i, o.A}
		case "callid":
			t := s.slots[o.A]
			lg(1000*(t[0]+1) + t[1])
		case "tgrow":
			if m.tab1+1 <= maxTab1 {
				lg(m.tab1)
				m.tab1++
			} else {
				lg(-1)
			}
		case "msize":
			lg(m.pages)
		case "tsize":
			lg(m.tab1)
		case "local":
			if e := s.run(p, i, o.A); e != "" {
				return e
			}
		case "imp":
			if e := s.run(p, o.A, o.B); e != "" {
				return e
			}
		case "slotfn":
			t := s.slots[4+o.A]
			if e := s.run(p, t[0], t[1]); e != "" {
				return e
			}
		case "slottail":
			t := s.slots[4+o.A]
			return s.run(p, t[0], t[1])
		case "gset":
			s.sg = int32(o.B)
		case "gget":
			lg(int(s.sg))
		case "trap":
			return "trap"
		case "hpanic":
			return "panic"
		}
	}
	return ""
}

// ---- module construction --------------------------------------------------------------------------------

func u32p(v uint32) *uint32 { return &v }

func buildModule(p *Program, k int) []byte {
	m := wb.New()
	t0 := m.TypeIdx(nil, nil)
	t1 := m.TypeIdx(nil, []byte{wb.I32})
	m.TypeIdx([]byte{wb.I32}, []byte{wb.I32})
	peek := m.ImportFunc("env", "peek", nil, []byte{wb.I32})
	hgrow := m.ImportFunc("env", "hgrow", nil, []byte{wb.I32})
	boom := m.ImportFunc("env", "boom", nil, nil)
	imp := map[[2]int]uint32{}
	for _, j := range lowerInsts(k) {
		for f := 0; f < nFns; f++ {
			imp[[2]int{j, f}] = m.ImportFunc(instName[j], fmt.Sprintf("f%d", f), nil, nil)
		}
	}
	base := m.M.ImportFunctionCount
	idFn := func(i int) uint32 { return base + uint32(i) }
	dslFn := func(f int) uint32 { return base + 2 + uint32(f) }
	if k == 0 {
		m.Table(sharedTab, u32p(sharedTab))
		m.M.ExportSection = append(m.M.ExportSection, wasm.Export{Name: "tab", Type: wasm.ExternTypeTable, Index: 0})
	} else {
		m.M.ImportSection = append(m.M.ImportSection, wasm.Import{Type: wasm.ExternTypeTable, Module: "m0", Name: "tab",
			DescTable: wasm.Table{Min: sharedTab, Max: u32p(sharedTab), Type: wasm.RefTypeFuncref}})
		m.M.ImportTableCount = 1
	}
	m.Table(1, u32p(maxTab1)) // table 1: private
	m.Memory(1, u32p(maxPages), false, "memory")
	// globals: b0 defines the log cursor (0) and the shared global sg (1, exported); b1 and b2 import m0.sg TWICE
	// (indexes 0 and 1) and define the log cursor after them (2)
	cur := uint32(0)
	sgIdx := func(i int) uint32 { return 1 }
	if k > 0 {
		gt := wasm.GlobalType{ValType: wasm.ValueTypeI32, Mutable: true}
		m.M.ImportSection = append(m.M.ImportSection, wasm.Import{Type: wasm.ExternTypeGlobal, Module: "m0", Name: "sg", DescGlobal: gt},
			wasm.Import{Type: wasm.ExternTypeGlobal, Module: "m0", Name: "sg", DescGlobal: gt})
		m.M.ImportGlobalCount = 2
		cur = 2
		sgIdx = func(i int) uint32 { return uint32(i) }
	}
	m.Global(32, logBase) // log cursor
	if k == 0 {
		m.Global(32, 0)
		m.M.ExportSection = append(m.M.ExportSection, wasm.Export{Name: "sg", Type: wasm.ExternTypeGlobal, Index: 1})
	}
	logTop := func() []byte {
		// value on the stack -> log
		return wb.Cat(wb.LocalSet(0), wb.GlobalGet(cur), wb.LocalGet(0), wb.MemArg(wasm.OpcodeI32Store, 2, 0),
			wb.GlobalGet(cur), wb.I32Const(4), wb.Op(wasm.OpcodeI32Add), wb.GlobalSet(cur))
	}
	for i := 0; i < 2; i++ {
		// id_i returns 1000*(instance+1)+i: the instance number is the marker byte at address 0 minus 0xA0
		m.AddFunc(wb.Func{Results: []byte{wb.I32}, Body: wb.Cat(wb.I32Const(0), wb.MemArg(wasm.OpcodeI32Load8U, 0, 0), wb.I32Const(0xA0-1), wb.Op(wasm.OpcodeI32Sub),
			wb.I32Const(1000), wb.Op(wasm.OpcodeI32Mul), wb.I32Const(int32(i)), wb.Op(wasm.OpcodeI32Add))})
	}
	for f := 0; f < nFns; f++ {
		var b []byte
		for _, o := range p.Fns[k][f] {
			switch o.K {
			case "peek":
				b = append(b, wb.Cat(wb.Call(peek), logTop())...)
			case "hgrow":
				b = append(b, wb.Cat(wb.Call(hgrow), logTop())...)
			case "reffunc":
				b = append(b, wb.Cat(wb.I32Const(int32(o.B)), []byte{wasm.OpcodeRefFunc}, wb.U32(idFn(o.A)), []byte{wasm.OpcodeTableSet, 0})...)
			case "callid":
				b = append(b, wb.Cat(wb.I32Const(int32(o.A)), []byte{wasm.OpcodeCallIndirect}, wb.U32(t1), []byte{0}, logTop())...)
			case "tgrow":
				b = append(b, wb.Cat([]byte{wasm.OpcodeRefNull, wasm.RefTypeFuncref}, wb.I32Const(1), wb.Misc(wasm.OpcodeMiscTableGrow, 1), logTop())...)
			case "mgrow":
				b = append(b, wb.Cat(wb.I32Const(1), wb.MemoryGrow(), logTop())...)
			case "msize":
				b = append(b, wb.Cat(wb.MemorySize(), logTop())...)
			case "tsize":
				b = append(b, wb.Cat(wb.Misc(wasm.OpcodeMiscTableSize, 1), logTop())...)
			case "local":
				b = append(b, wb.Call(dslFn(o.A))...)
			case "imp":
				b = append(b, wb.Call(imp[[2]int{o.A, o.B}])...)
			case "slotfn":
				b = append(b, wb.Cat(wb.I32Const(int32(4+o.A)), []byte{wasm.OpcodeCallIndirect}, wb.U32(t0), []byte{0})...)
			case "slottail":
				b = append(b, wb.Cat(wb.I32Const(int32(4+o.A)), []byte{wasm.OpcodeTailCallReturnCallIndirect}, wb.U32(t0), []byte{0})...)
			case "gset":
				b = append(b, wb.Cat(wb.I32Const(int32(o.B)), wb.GlobalSet(sgIdx(o.A)))...)
			case "gget":
				b = append(b, wb.Cat(wb.GlobalGet(sgIdx(o.A)), logTop())...)
			case "trap":
				b = append(b, wasm.OpcodeUnreachable)
			case "hpanic":
				b = append(b, wb.Call(boom)...)
			default:
				hx.Fatal("bad op %q", o.K)
			}
		}
		m.AddFunc(wb.Func{Locals: []byte{wb.I32}, Body: b, Export: fmt.Sprintf("f%d", f)})
	}
	m.AddFunc(wb.Func{Params: []byte{wb.I32}, Results: []byte{wb.I32}, Export: "slot",
		Body: wb.Cat(wb.LocalGet(0), []byte{wasm.OpcodeCallIndirect}, wb.U32(t1), []byte{0})})
	m.AddFunc(wb.Func{Results: []byte{wb.I32}, Export: "tsize", Body: wb.Misc(wasm.OpcodeMiscTableSize, 1)})
	m.AddFunc(wb.Func{Results: []byte{wb.I32}, Export: "msize", Body: wb.MemorySize()})
	m.AddFunc(wb.Func{Results: []byte{wb.I32}, Export: "cur", Body: wb.GlobalGet(cur)})
	var elems []wb.Elem
	switch k {
	case 0:
		elems = append(elems, wb.Elem{Offset: 0, Init: []int64{int64(idFn(0)), int64(idFn(1)), int64(idFn(0)), int64(idFn(1)),
			int64(dslFn(0)), int64(dslFn(1)), int64(dslFn(2)), int64(dslFn(0))}})
	case 1:
		// slot 6 := f2 of this instance (m1, then overwritten by m1b), which also declares id0/id1 for ref.func
		elems = append(elems, wb.Elem{Offset: 6, Init: []int64{int64(dslFn(2))}}, wb.Elem{Passive: true, Init: []int64{int64(idFn(0)), int64(idFn(1))}})
	default:
		elems = append(elems, wb.Elem{Passive: true, Init: []int64{int64(idFn(0)), int64(idFn(1))}}) // declares the functions for ref.func
	}
	return m.BytesWithSegments(elems)
}

// ---- execution ------------------------------------------------------------------------------------------

// listenerCfg: which compiled modules (index nBins = the host module) are compiled with a listener factory in
// the context at all, and which functions the factory gives a listener to.
type listenerCfg struct {
	name    string
	factory [nBins + 1]bool
	pick    func(def api.FunctionDefinition) bool
}

func (lc *listenerCfg) any() bool {
	for _, b := range lc.factory {
		if b {
			return true
		}
	}
	return false
}

type recorder struct {
	pick   func(def api.FunctionDefinition) bool
	events []string
	off    bool
}

func (rc *recorder) NewFunctionListener(def api.FunctionDefinition) experimental.FunctionListener {
	if !rc.pick(def) {
		return nil
	}
	return rc
}

func fname(def api.FunctionDefinition) string { return fmt.Sprintf("%s#%d", def.ModuleName(), def.Index()) }

func (rc *recorder) Before(_ context.Context, mod api.Module, def api.FunctionDefinition, params []uint64, _ experimental.StackIterator) {
	if rc.off {
		return
	}
	if n := len(def.ParamTypes()); len(params) > n {
		params = params[:n] // known finding F27 (compiler hands the whole go-call stack view to host function listeners)
	}
	rc.events = append(rc.events, fmt.Sprintf("B %s in=%s %v", fname(def), mod.Name(), params))
}

func (rc *recorder) After(_ context.Context, mod api.Module, def api.FunctionDefinition, results []uint64) {
	if rc.off {
		return
	}
	if n := len(def.ResultTypes()); len(results) > n {
		results = results[:n]
	}
	results = append([]uint64{}, results...)
	for i := range results {
		results[i] = uint64(uint32(results[i])) // all results here are i32 (upper halves: known finding F26)
	}
	rc.events = append(rc.events, fmt.Sprintf("A %s in=%s %v", fname(def), mod.Name(), results))
}

func (rc *recorder) Abort(_ context.Context, mod api.Module, def api.FunctionDefinition, err error) {
	if rc.off {
		return
	}
	rc.events = append(rc.events, fmt.Sprintf("X %s in=%s %s", fname(def), mod.Name(), errClass(err)))
}

func firstLine(s string) string { return strings.SplitN(s, "\n", 2)[0] }

var errBoom = errors.New("boom: host function failed")

func errClass(err error) string {
	s := err.Error()
	switch {
	case strings.Contains(s, "unreachable"):
		return "trap"
	case strings.Contains(s, "boom"):
		return "panic"
	}
	return "other:" + firstLine(s)
}

type observation struct {
	Errs   []string         `json:"errs"`
	Logs   [nInst][]int32   `json:"logs"`
	Slots  [nInst][4]string `json:"slots"`
	TSize  [nInst]int       `json:"tsize"`
	MSize  [nInst]int       `json:"msize"`
	APISz  [nInst]uint32    `json:"api_size"`
	Events []string         `json:"-"`
}

func (o *observation) guest() string {
	return fmt.Sprintf("errs=%v logs=%v slots=%v tsize=%v msize=%v api=%v", o.Errs, o.Logs, o.Slots, o.TSize, o.MSize, o.APISz)
}

func runProgram(p *Program, bins [nBins][]byte, engine string, lc listenerCfg) (obs observation) {
	bg := context.Background()
	rc := &recorder{pick: lc.pick}
	ctxFor := func(b int) context.Context {
		if lc.pick != nil && lc.factory[b] {
			return experimental.WithFunctionListenerFactory(bg, rc)
		}
		return bg
	}
	var cfg wazero.RuntimeConfig
	if engine == "compiler" {
		cfg = wazero.NewRuntimeConfigCompiler()
	} else {
		cfg = wazero.NewRuntimeConfigInterpreter()
	}
	rt := wazero.NewRuntimeWithConfig(bg, cfg.WithCoreFeatures(api.CoreFeaturesV2|experimental.CoreFeaturesTailCall))
	defer rt.Close(bg)
	_, err := rt.NewHostModuleBuilder("env").
		NewFunctionBuilder().WithGoModuleFunction(api.GoModuleFunc(func(_ context.Context, mod api.Module, stack []uint64) {
		b, ok := mod.Memory().ReadByte(0)
		if !ok {
			b = 0xEE
		}
		stack[0] = uint64(b)
	}), nil, []api.ValueType{api.ValueTypeI32}).Export("peek").
		NewFunctionBuilder().WithGoModuleFunction(api.GoModuleFunc(func(_ context.Context, mod api.Module, stack []uint64) {
		prev, ok := mod.Memory().Grow(1)
		if !ok {
			prev = 0xffffffff
		}
		stack[0] = uint64(prev)
	}), nil, []api.ValueType{api.ValueTypeI32}).Export("hgrow").
		NewFunctionBuilder().WithGoModuleFunction(api.GoModuleFunc(func(context.Context, api.Module, []uint64) { panic(errBoom) }), nil, nil).Export("boom").
		Instantiate(ctxFor(nBins))
	if err != nil {
		hx.Fatal("env: %v", err)
	}
	var compiled [nBins]wazero.CompiledModule
	for b := 0; b < nBins; b++ {
		compiled[b], err = rt.CompileModule(ctxFor(b), bins[b])
		if err != nil {
			hx.Fatal("generator bug: module b%d of program %d does not compile on %s: %v", b, p.ID, engine, err)
		}
	}
	var mods [nInst]api.Module
	for i := 0; i < nInst; i++ {
		mods[i], err = rt.InstantiateModule(ctxFor(instBin[i]), compiled[instBin[i]], wazero.NewModuleConfig().WithName(instName[i]))
		if err != nil {
			hx.Fatal("generator bug: instance %s of program %d does not instantiate on %s: %v", instName[i], p.ID, engine, err)
		}
		// the marker: byte 0 of the instance's own memory
		mods[i].Memory().WriteByte(0, byte(0xA0+i))
	}
	for _, c := range p.Calls {
		_, err := mods[c[0]].ExportedFunction(fmt.Sprintf("f%d", c[1])).Call(bg)
		if err != nil {
			obs.Errs = append(obs.Errs, errClass(err))
		} else {
			obs.Errs = append(obs.Errs, "")
		}
	}
	obs.Events = append([]string{}, rc.events...)
	rc.off = true
	call := func(k int, fn string, args ...uint64) string {
		res, err := mods[k].ExportedFunction(fn).Call(bg, args...)
		if err != nil {
			return "error:" + firstLine(err.Error())
		}
		return fmt.Sprint(int32(uint32(res[0])))
	}
	for k := 0; k < nInst; k++ {
		var cur int
		fmt.Sscan(call(k, "cur"), &cur)
		if cur >= logBase {
			if buf, ok := mods[k].Memory().Read(logBase, uint32(cur-logBase)); ok {
				for i := 0; i+4 <= len(buf); i += 4 {
					obs.Logs[k] = append(obs.Logs[k], int32(binary.LittleEndian.Uint32(buf[i:])))
				}
			}
		}
		for s := 0; s < 4; s++ {
			obs.Slots[k][s] = call(k, "slot", uint64(s))
		}
		fmt.Sscan(call(k, "tsize"), &obs.TSize[k])
		fmt.Sscan(call(k, "msize"), &obs.MSize[k])
		obs.APISz[k] = mods[k].Memory().Size() / 65536
	}
	return obs
}

func expected(p *Program) observation {
	s := newRef()
	var o observation
	for _, c := range p.Calls {
		o.Errs = append(o.Errs, s.run(p, c[0], c[1]))
	}
	for k := 0; k < nInst; k++ {
		o.Logs[k] = s.m[k].log
		for i := 0; i < 4; i++ {
			t := s.slots[i]
			o.Slots[k][i] = fmt.Sprint(1000*(t[0]+1) + t[1])
		}
		o.TSize[k], o.MSize[k], o.APISz[k] = s.m[k].tab1, s.m[k].pages, uint32(s.m[k].pages)
	}
	return o
}

var noCorpus = flag.Bool("nocorpus", false, "skip the regression corpus (to measure what the random programs find)")

var prop = flag.String("prop", "C04", "property on whose behalf the matrix runs: only violations of that property are reported")

// filtered: the matrix decides three properties; a run on behalf of one of them reports that one's violations
// only (signatures C04:… / C12:… / C20:… and F…: known findings of C20).
type filtered struct{ *hx.Report }

func (f filtered) Violate(v hx.Violation) {
	own := strings.HasPrefix(v.Signature, *prop+":") || (*prop == "C20" && strings.HasPrefix(v.Signature, "F"))
	if own {
		f.Report.Violate(v)
	} else {
		f.Report.Count("other-property:" + strings.SplitN(v.Signature, ":", 2)[0])
	}
}

// hostViewDiffers: does the program call the caller-aware host functions at all, and do the observations differ?
// (the logs of peek / hgrow are part of every instance's log region)
func hostViewDiffers(p *Program, got, want observation) bool {
	return (p.has("peek") || p.has("hgrow")) && got.guest() != want.guest()
}

func main() {
	flag.Parse()
	orc := hx.StartOracle()
	rep := filtered{hx.NewReport(*prop, "programs = random straight-line bodies for 3 functions in each of 3 guest modules (4 instances, two of the same compiled module) over the ops {module-aware host calls, ref.func into a shared table, call_indirect, return_call_indirect, table.grow, memory.grow, sizes, local / imported / indirect calls, traps, host panics} + entry-call sequences; each x {interpreter, compiler} x listener configurations (which modules have a factory x which functions a listener); distinct = distinct (program, engine, listener configuration)")}
	r := hx.Rand()
	progs := corpus()
	if *noCorpus {
		progs = nil
	}
	n := 60
	if hx.Thorough() {
		n = 1500
	}
	for i := 0; i < n; i++ {
		progs = append(progs, genProgram(r, 100+i))
	}
	hash := func(def api.FunctionDefinition, salt uint32) bool {
		h := uint32(2166136261) ^ salt
		for _, c := range []byte(fname(def)) {
			h = (h ^ uint32(c)) * 16777619
		}
		return h>>7&1 == 0
	}
	all := [nBins + 1]bool{true, true, true, true}
	for pi := range progs {
		p := &progs[pi]
		salt := uint32(r.Int63())
		var mask [nBins + 1]bool
		for i := range mask {
			mask[i] = r.Intn(2) == 0
		}
		everything := func(api.FunctionDefinition) bool { return true }
		cfgs := []listenerCfg{
			{"none", [nBins + 1]bool{}, nil},
			{"all", all, everything},
			{"host-only", all, func(d api.FunctionDefinition) bool { return d.ModuleName() == "env" }},
			{"guest-only", all, func(d api.FunctionDefinition) bool { return d.ModuleName() != "env" }},
			{"subset-a", all, func(d api.FunctionDefinition) bool { return hash(d, salt) }},
			{"subset-b", all, func(d api.FunctionDefinition) bool { return !hash(d, salt) }},
			// factories present only for some compiled modules (the others were compiled without any listener support)
			{"entry-module-b2-without-factory", [nBins + 1]bool{true, true, false, true}, everything},
			{"only-library-b0-and-host", [nBins + 1]bool{true, false, false, true}, everything},
			{fmt.Sprintf("factory-mask-%v", mask), mask, everything},
		}
		var bins [nBins][]byte
		for k := range bins {
			bins[k] = buildModule(p, k)
		}
		want := expected(p)
		tails := p.has("slottail")
		for ci := range cfgs {
			lc := cfgs[ci]
			if lc.pick != nil && !lc.any() {
				continue
			}
			var ev [2][]string
			for ei, engine := range []string{"interpreter", "compiler"} {
				got := runProgram(p, bins, engine, lc)
				ev[ei] = got.Events
				rep.Case(fmt.Sprintf("%d/%s/%s", p.ID, engine, lc.name))
				if got.guest() != want.guest() {
					sig := "C04:wrong-instance-state:" + engine
					if lc.pick != nil {
						sig = "C12:listener-changes-guest-behaviour:" + engine
						if none := runProgram(p, bins, engine, cfgs[0]); none.guest() != want.guest() {
							sig = "C04:wrong-instance-state:" + engine
						}
					}
					rep.Violate(hx.Violation{Kind: "impl-violation", Signature: sig,
						What:  fmt.Sprintf("program %d (%s) on %s with listeners=%s: observations differ from the reference evaluation of the program", p.ID, p.Note, engine, lc.name),
						Input: map[string]any{"program": p, "engine": engine, "listeners": lc.name}, Expected: want.guest(), Actual: got.guest()})
					// C03's part of it: two or more valid, accepted modules whose run ends in a failure INSIDE the runtime (a Go
					// runtime error recovered by the engine) where the reference evaluation has a result or an ordinary trap
					if g := got.guest(); strings.Contains(g, "runtime error") && !strings.Contains(want.guest(), "runtime error") {
						rep.Violate(hx.Violation{Kind: "impl-violation", Signature: "C03:accepted-modules-fail-inside-the-runtime:" + engine,
							What:  fmt.Sprintf("program %d (%s) on %s with listeners=%s: valid, accepted modules linked together end in a Go runtime error inside the engine where the reference evaluation has a result or a trap", p.ID, p.Note, engine, lc.name),
							Input: map[string]any{"program": p, "engine": engine, "listeners": lc.name}, Expected: want.guest(), Actual: g})
					}
					// C18's part of it: a module-aware HOST function (as every WASI function is) was handed another instance than
					// its caller: what it reads and changes (the caller's memory here; clocks, random source, descriptor table
					// for WASI) then belongs to another guest of the process
					if hostViewDiffers(p, got, want) {
						rep.Violate(hx.Violation{Kind: "impl-violation", Signature: "C18:host-function-serves-another-instance:" + engine,
							What:  fmt.Sprintf("program %d (%s) on %s with listeners=%s: a host function that acts on ITS CALLER (reads the caller's memory / grows it) acted on another instance: a WASI function in its place would have used that instance's system context", p.ID, p.Note, engine, lc.name),
							Input: map[string]any{"program": p, "engine": engine, "listeners": lc.name}, Expected: want.guest(), Actual: got.guest()})
					}
					if got.MSize != want.MSize || got.APISz != want.APISz {
						// C14's part of it: memory.grow / memory.size / api.Memory.Size of each instance's OWN memory
						rep.Violate(hx.Violation{Kind: "impl-violation", Signature: "C14:memory-size-of-the-wrong-instance:" + engine,
							What:  fmt.Sprintf("program %d (%s) on %s with listeners=%s: the sizes of the instances' memories (guest memory.size %v, host Size %v) differ from the reference (%v): a memory.grow executed in one module changed or reported another module's memory", p.ID, p.Note, engine, lc.name, got.MSize, got.APISz, want.MSize),
							Input: map[string]any{"program": p, "engine": engine, "listeners": lc.name}, Expected: want.guest(), Actual: got.guest()})
					}
				}
			}
			if lc.pick != nil && !tails {
				// the module handed to the listener of a GUEST function differs between the engines for calls
				// that cross modules (known finding F28): compared separately
				full := [2][]string{ev[0], ev[1]}
				for e := range ev {
					ev[e] = append([]string{}, ev[e]...)
					for i, x := range ev[e] {
						if f := strings.Fields(x); len(f) > 2 && !strings.HasPrefix(f[1], "env#") {
							f[2] = "in=-"
							ev[e][i] = strings.Join(f, " ")
						}
					}
				}
				if strings.Join(ev[0], "\n") == strings.Join(ev[1], "\n") && strings.Join(full[0], "\n") != strings.Join(full[1], "\n") {
					rep.Violate(hx.Violation{Kind: "impl-violation", Signature: "F28:compiler-listener-module-is-callee-not-caller",
						What: fmt.Sprintf("program %d with listeners=%s: the module given to the listener of an imported wasm function differs between the engines", p.ID, lc.name), Input: map[string]any{"program": p, "listeners": lc.name}})
				}
				if a, b := strings.Join(ev[0], "\n"), strings.Join(ev[1], "\n"); a != b {
					i := 0
					for i < len(ev[0]) && i < len(ev[1]) && ev[0][i] == ev[1][i] {
						i++
					}
					at := func(e []string) string {
						if i < len(e) {
							return e[i]
						}
						return "<end>"
					}
					rep.Violate(hx.Violation{Kind: "impl-violation", Signature: "C20:listener-events-differ-between-engines",
						What:  fmt.Sprintf("program %d with listeners=%s: event %d is %q on the interpreter and %q on the compiler", p.ID, lc.name, i, at(ev[0]), at(ev[1])),
						Input: map[string]any{"program": p, "listeners": lc.name}, Expected: at(ev[0]), Actual: at(ev[1])})
				}
				// bracketing on each engine: every before has its after/abort, properly nested
				for e, engine := range []string{"interpreter", "compiler"} {
					var st []string
					bad := ""
					for _, x := range full[e] {
						f := strings.Fields(x)
						switch f[0] {
						case "B":
							st = append(st, f[1])
						default:
							if len(st) == 0 || st[len(st)-1] != f[1] {
								bad = "unmatched " + x
							} else {
								st = st[:len(st)-1]
							}
						}
					}
					if bad == "" && len(st) > 0 {
						bad = fmt.Sprintf("%d before-event(s) without after/abort: %v", len(st), st)
					}
					if bad != "" {
						rep.Violate(hx.Violation{Kind: "impl-violation", Signature: "C20:listener-events-not-bracketed:" + engine,
							What: fmt.Sprintf("program %d with listeners=%s on %s: %s", p.ID, lc.name, engine, bad), Input: map[string]any{"program": p, "listeners": lc.name}})
					}
				}
				rep.Count(fmt.Sprintf("events:%s", bucket(len(ev[0]))))
			}
		}
		fails := 0
		for _, e := range want.Errs {
			if e != "" {
				fails++
			}
		}
		rep.Count("failing-entry-calls:" + bucket(fails))
		if tails {
			rep.Count("programs-with-tail-calls")
		}
	}
	rep.Sample(map[string]any{"program": progs[0]})
	rep.Write(orc)
}

func bucket(n int) string {
	switch {
	case n == 0:
		return "0"
	case n < 4:
		return "1-3"
	case n < 16:
		return "4-15"
	case n < 64:
		return "16-63"
	}
	return "64+"
}
