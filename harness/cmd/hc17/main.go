// hc17: correspondence + monitor harness for C17 (read-only mounts cannot be modified by the guest).
//
// Tie B (vs the Lean oracle, topic c17):
//   - every Oflag word 0..2^13-1 (plus words with undeclared/high bits) through the real
//     (*sysfs.ReadFS).OpenFile over a recording sys.FS: refused-with-errno / delegated-with-flag must equal the
//     regenerated decision; the returned file must be the wrapper type the extractor saw;
//   - every method of sys.FS / sys.File on the real ReadFS / readFile over recording values: the calls that
//     reach the wrapped value must be those the regenerated method table says (serve);
//   - all dirflags x oflags x fdflags x rights patterns through the real path_open of a guest whose mount is
//     recorder{ReadFS{recorder{DirFS}}}: errno class and the flag word that reaches the wrapped FS must equal
//     the model's pathOpen; for every other WASI call the requests seen at the mount must be in the model's
//     wasiReqs list and the calls seen below the wrapper must be in serve(requests).
//
// Tie C (the property's own predicate on the real code): a recursive snapshot (names, types, modes, sizes,
// content hashes, mtimes, link targets) of the host directory (or of the fstest.MapFS) must be identical after
// every single call - all Oflag words through ReadFS{DirFS}, the whole path_open grid on
// WithReadOnlyDirMount and on WithFSMount(os.DirFS / fstest.MapFS), every mutating WASI call singly with
// all argument variants, and seeded random sequences of all path/fd calls - and reading must keep working
// (every successful open of a regular file must deliver its content through fd_read).
// Below the wrapper, every recorded call must be non-mutating by the model's classification.
package main

import (
	"context"
	"crypto/sha256"
	"encoding/binary"
	"encoding/json"
	"flag"
	"fmt"
	"io/fs"
	"math/rand"
	"os"
	"path/filepath"
	"sort"
	"strings"
	"sync"
	"testing/fstest"
	"time"

	"github.com/tetratelabs/wazero"
	"github.com/tetratelabs/wazero/api"
	experimentalsys "github.com/tetratelabs/wazero/experimental/sys"
	expsysfs "github.com/tetratelabs/wazero/experimental/sysfs"
	"github.com/tetratelabs/wazero/imports/wasi_snapshot_preview1"
	"github.com/tetratelabs/wazero/internal/sysfs"
	"github.com/tetratelabs/wazero/internal/wasip1"
	wsys "github.com/tetratelabs/wazero/sys"
	"github.com/tetratelabs/wazero/verifharness/hx"
	"github.com/tetratelabs/wazero/verifharness/wb"
)

var (
	orc *hx.Oracle
	rep *hx.Report
	ctx = context.Background()

	ocMu    sync.Mutex
	ocCache = map[string]string{}
)

// ask is a cached oracle query (the model is stateless).
func ask(f string, a ...any) string {
	q := fmt.Sprintf(f, a...)
	ocMu.Lock()
	defer ocMu.Unlock()
	if v, ok := ocCache[q]; ok {
		return v
	}
	v := orc.Ask(q)
	ocCache[q] = v
	return v
}

// ---------------------------------------------------------------------------------------------
// recorders

type recorder struct {
	mu    sync.Mutex
	calls []string
	req   bool // true: record in request format (fs:OpenFile:<flag>), false: wrapped-call format (open:<flag>)
}

func (r *recorder) add(s string) {
	r.mu.Lock()
	r.calls = append(r.calls, s)
	r.mu.Unlock()
}

func (r *recorder) take() []string {
	r.mu.Lock()
	c := r.calls
	r.calls = nil
	r.mu.Unlock()
	return c
}

type recFS struct {
	// (embedded as well: a method the sys.FS interface gains later is delegated to the wrapped file system instead of
	// breaking the harness's build - what it does to the host tree is still seen by the snapshot comparison)
	experimentalsys.FS
	fs experimentalsys.FS
	r  *recorder
}

func newRecFS(inner experimentalsys.FS, r *recorder) *recFS { return &recFS{FS: inner, fs: inner, r: r} }

func (f *recFS) OpenFile(path string, flag experimentalsys.Oflag, perm fs.FileMode) (experimentalsys.File, experimentalsys.Errno) {
	if f.r.req {
		f.r.add(fmt.Sprintf("fs:OpenFile:%d", uint32(flag)))
	} else {
		f.r.add(fmt.Sprintf("open:%d", uint32(flag)))
	}
	file, errno := f.fs.OpenFile(path, flag, perm)
	if errno != 0 {
		return nil, errno
	}
	return &recFile{f: file, r: f.r}, 0
}
func (f *recFS) Lstat(p string) (wsys.Stat_t, experimentalsys.Errno) {
	f.r.add("fs:Lstat")
	return f.fs.Lstat(p)
}
func (f *recFS) Stat(p string) (wsys.Stat_t, experimentalsys.Errno) {
	f.r.add("fs:Stat")
	return f.fs.Stat(p)
}
func (f *recFS) Mkdir(p string, perm fs.FileMode) experimentalsys.Errno {
	f.r.add("fs:Mkdir")
	return f.fs.Mkdir(p, perm)
}
func (f *recFS) Chmod(p string, perm fs.FileMode) experimentalsys.Errno {
	f.r.add("fs:Chmod")
	return f.fs.Chmod(p, perm)
}
func (f *recFS) Rename(a, b string) experimentalsys.Errno {
	f.r.add("fs:Rename")
	return f.fs.Rename(a, b)
}
func (f *recFS) Rmdir(p string) experimentalsys.Errno { f.r.add("fs:Rmdir"); return f.fs.Rmdir(p) }
func (f *recFS) Unlink(p string) experimentalsys.Errno {
	f.r.add("fs:Unlink")
	return f.fs.Unlink(p)
}
func (f *recFS) Link(a, b string) experimentalsys.Errno { f.r.add("fs:Link"); return f.fs.Link(a, b) }
func (f *recFS) Symlink(a, b string) experimentalsys.Errno {
	f.r.add("fs:Symlink")
	return f.fs.Symlink(a, b)
}
func (f *recFS) Readlink(p string) (string, experimentalsys.Errno) {
	f.r.add("fs:Readlink")
	return f.fs.Readlink(p)
}
func (f *recFS) Utimens(p string, a, m int64) experimentalsys.Errno {
	f.r.add("fs:Utimens")
	return f.fs.Utimens(p, a, m)
}

type recFile struct {
	f experimentalsys.File
	r *recorder
}

func (f *recFile) Dev() (uint64, experimentalsys.Errno)     { f.r.add("file:Dev"); return f.f.Dev() }
func (f *recFile) Ino() (wsys.Inode, experimentalsys.Errno) { f.r.add("file:Ino"); return f.f.Ino() }
func (f *recFile) IsDir() (bool, experimentalsys.Errno)     { f.r.add("file:IsDir"); return f.f.IsDir() }
func (f *recFile) IsAppend() bool                           { f.r.add("file:IsAppend"); return f.f.IsAppend() }
func (f *recFile) SetAppend(e bool) experimentalsys.Errno {
	f.r.add("file:SetAppend")
	return f.f.SetAppend(e)
}
func (f *recFile) Stat() (wsys.Stat_t, experimentalsys.Errno) {
	f.r.add("file:Stat")
	return f.f.Stat()
}
func (f *recFile) Read(b []byte) (int, experimentalsys.Errno) {
	f.r.add("file:Read")
	return f.f.Read(b)
}
func (f *recFile) Pread(b []byte, o int64) (int, experimentalsys.Errno) {
	f.r.add("file:Pread")
	return f.f.Pread(b, o)
}
func (f *recFile) Seek(o int64, w int) (int64, experimentalsys.Errno) {
	f.r.add("file:Seek")
	return f.f.Seek(o, w)
}
func (f *recFile) Readdir(n int) ([]experimentalsys.Dirent, experimentalsys.Errno) {
	f.r.add("file:Readdir")
	return f.f.Readdir(n)
}
func (f *recFile) Write(b []byte) (int, experimentalsys.Errno) {
	f.r.add("file:Write")
	return f.f.Write(b)
}
func (f *recFile) Pwrite(b []byte, o int64) (int, experimentalsys.Errno) {
	f.r.add("file:Pwrite")
	return f.f.Pwrite(b, o)
}
func (f *recFile) Truncate(s int64) experimentalsys.Errno {
	f.r.add("file:Truncate")
	return f.f.Truncate(s)
}
func (f *recFile) Sync() experimentalsys.Errno     { f.r.add("file:Sync"); return f.f.Sync() }
func (f *recFile) Datasync() experimentalsys.Errno { f.r.add("file:Datasync"); return f.f.Datasync() }
func (f *recFile) Utimens(a, m int64) experimentalsys.Errno {
	f.r.add("file:Utimens")
	return f.f.Utimens(a, m)
}
func (f *recFile) Close() experimentalsys.Errno { f.r.add("file:Close"); return f.f.Close() }

// stubFS: a wrapped FS that accepts everything and does nothing (for the exhaustive flag sweep).
type stubFS struct {
	experimentalsys.UnimplementedFS
}
type stubFile struct {
	experimentalsys.UnimplementedFile
}

func (stubFile) IsDir() (bool, experimentalsys.Errno) { return false, 0 }
func (stubFS) OpenFile(string, experimentalsys.Oflag, fs.FileMode) (experimentalsys.File, experimentalsys.Errno) {
	return stubFile{}, 0
}

// okFS / okFile: wrapped values on which every method "succeeds" (errno 0) without doing anything, so that
// a refusal observed above the wrapper can only come from the wrapper.
type okFS struct {
	experimentalsys.UnimplementedFS
}

func (okFS) OpenFile(string, experimentalsys.Oflag, fs.FileMode) (experimentalsys.File, experimentalsys.Errno) {
	return okFile{}, 0
}
func (okFS) Lstat(string) (wsys.Stat_t, experimentalsys.Errno)  { return wsys.Stat_t{}, 0 }
func (okFS) Stat(string) (wsys.Stat_t, experimentalsys.Errno)   { return wsys.Stat_t{}, 0 }
func (okFS) Mkdir(string, fs.FileMode) experimentalsys.Errno    { return 0 }
func (okFS) Chmod(string, fs.FileMode) experimentalsys.Errno    { return 0 }
func (okFS) Rename(string, string) experimentalsys.Errno        { return 0 }
func (okFS) Rmdir(string) experimentalsys.Errno                 { return 0 }
func (okFS) Unlink(string) experimentalsys.Errno                { return 0 }
func (okFS) Link(string, string) experimentalsys.Errno          { return 0 }
func (okFS) Symlink(string, string) experimentalsys.Errno       { return 0 }
func (okFS) Readlink(string) (string, experimentalsys.Errno)    { return "", 0 }
func (okFS) Utimens(string, int64, int64) experimentalsys.Errno { return 0 }

type okFile struct {
	experimentalsys.UnimplementedFile
}

func (okFile) Dev() (uint64, experimentalsys.Errno)                          { return 0, 0 }
func (okFile) Ino() (wsys.Inode, experimentalsys.Errno)                      { return 0, 0 }
func (okFile) IsDir() (bool, experimentalsys.Errno)                          { return false, 0 }
func (okFile) IsAppend() bool                                                { return false }
func (okFile) SetAppend(bool) experimentalsys.Errno                          { return 0 }
func (okFile) Stat() (wsys.Stat_t, experimentalsys.Errno)                    { return wsys.Stat_t{}, 0 }
func (okFile) Read([]byte) (int, experimentalsys.Errno)                      { return 0, 0 }
func (okFile) Pread([]byte, int64) (int, experimentalsys.Errno)              { return 0, 0 }
func (okFile) Seek(int64, int) (int64, experimentalsys.Errno)                { return 0, 0 }
func (okFile) Readdir(int) ([]experimentalsys.Dirent, experimentalsys.Errno) { return nil, 0 }
func (okFile) Write(b []byte) (int, experimentalsys.Errno)                   { return len(b), 0 }
func (okFile) Pwrite(b []byte, _ int64) (int, experimentalsys.Errno)         { return len(b), 0 }
func (okFile) Truncate(int64) experimentalsys.Errno                          { return 0 }
func (okFile) Sync() experimentalsys.Errno                                   { return 0 }
func (okFile) Datasync() experimentalsys.Errno                               { return 0 }
func (okFile) Utimens(int64, int64) experimentalsys.Errno                    { return 0 }
func (okFile) Close() experimentalsys.Errno                                  { return 0 }

// ---------------------------------------------------------------------------------------------
// fixture + snapshot (tie C)

var fixtureTime = time.Date(2001, 2, 3, 4, 5, 6, 789000000, time.UTC)

const fileContent = "hello, read-only world\n"

// removeTree removes a fixture whatever permission bits it carries.
func removeTree(dir string) {
	filepath.Walk(dir, func(p string, info fs.FileInfo, err error) error {
		if err == nil && info.IsDir() {
			os.Chmod(p, 0o755)
		}
		return nil
	})
	os.RemoveAll(dir)
}

// hostReadOnlyBits marks the fixture read-only in the HOST's permission bits (directories 0555, files 0444).  That is
// a statement about who may write on the host, not about the mount: the process may be exempt (root), the bits may
// change later, and a read-only mount must hold whatever they say.
func hostReadOnlyBits(dir string) {
	for _, p := range []string{"file.txt", "empty.txt", "sub/inner.txt"} {
		must(os.Chmod(filepath.Join(dir, p), 0o444))
	}
	must(os.Chmod(filepath.Join(dir, "sub"), 0o555))
	must(os.Chmod(dir, 0o555))
}

func makeFixture(dir string) {
	removeTree(dir)
	must(os.MkdirAll(filepath.Join(dir, "sub"), 0o755))
	must(os.WriteFile(filepath.Join(dir, "file.txt"), []byte(fileContent), 0o644))
	must(os.WriteFile(filepath.Join(dir, "empty.txt"), nil, 0o644))
	must(os.WriteFile(filepath.Join(dir, "sub", "inner.txt"), []byte("inner\n"), 0o644))
	must(os.Symlink("file.txt", filepath.Join(dir, "link")))
	for _, p := range []string{"file.txt", "empty.txt", "sub/inner.txt", "sub", "."} {
		must(os.Chtimes(filepath.Join(dir, p), fixtureTime, fixtureTime))
	}
}

func mapFixture() fstest.MapFS {
	return fstest.MapFS{
		"file.txt":      {Data: []byte(fileContent), Mode: 0o644, ModTime: fixtureTime},
		"empty.txt":     {Data: []byte{}, Mode: 0o644, ModTime: fixtureTime},
		"sub":           {Mode: fs.ModeDir | 0o755, ModTime: fixtureTime},
		"sub/inner.txt": {Data: []byte("inner\n"), Mode: 0o644, ModTime: fixtureTime},
	}
}

func must(err error) {
	if err != nil {
		hx.Fatal("fixture: %v", err)
	}
}

type snapshot map[string]string

func snapDir(dir string) snapshot {
	s := snapshot{}
	err := filepath.Walk(dir, func(p string, info fs.FileInfo, err error) error {
		if err != nil {
			return err
		}
		rel, _ := filepath.Rel(dir, p)
		e := fmt.Sprintf("mode=%v mtime=%d", info.Mode(), info.ModTime().UnixNano())
		switch {
		case info.Mode().IsRegular():
			b, err := os.ReadFile(p)
			if err != nil {
				return err
			}
			e += fmt.Sprintf(" size=%d sha=%x", info.Size(), sha256.Sum256(b))
		case info.Mode()&fs.ModeSymlink != 0:
			t, _ := os.Readlink(p)
			e += " target=" + t
		}
		s[rel] = e
		return nil
	})
	if err != nil {
		hx.Fatal("snapshot of %s: %v", dir, err)
	}
	return s
}

func snapMap(m fstest.MapFS) snapshot {
	s := snapshot{}
	for k, f := range m {
		s[k] = fmt.Sprintf("mode=%v mtime=%d size=%d sha=%x", f.Mode, f.ModTime.UnixNano(), len(f.Data), sha256.Sum256(f.Data))
	}
	return s
}

// diff returns human-readable differences and a short class (created/removed/content/size/mtime/mode).
func (a snapshot) diff(b snapshot) (out []string, class string) {
	cls := map[string]bool{}
	field := func(e, k string) string {
		for _, f := range strings.Fields(e) {
			if strings.HasPrefix(f, k+"=") {
				return f
			}
		}
		return ""
	}
	for k, v := range a {
		w, ok := b[k]
		if !ok {
			out = append(out, "removed "+k)
			cls["removed"] = true
		} else if v != w {
			out = append(out, fmt.Sprintf("changed %s: %s -> %s", k, v, w))
			switch {
			case field(v, "size") != field(w, "size"):
				cls["size"] = true
			case field(v, "sha") != field(w, "sha"):
				cls["content"] = true
			case field(v, "mode") != field(w, "mode"):
				cls["mode"] = true
			case field(v, "target") != field(w, "target"):
				cls["target"] = true
			default:
				cls["mtime"] = true
			}
		}
	}
	for k := range b {
		if _, ok := a[k]; !ok {
			out = append(out, "created "+k)
			cls["created"] = true
		}
	}
	sort.Strings(out)
	for _, c := range []string{"created", "removed", "size", "content", "mode", "target", "mtime"} {
		if cls[c] {
			class = c
			break
		}
	}
	return
}

// ---------------------------------------------------------------------------------------------
// guest: a module that re-exports every WASI fs function it imports

type wsig struct {
	name   string
	params []byte
}

const (
	i32 = wb.I32
	i64 = wb.I64
)

var wasiFuncs = []wsig{
	{"path_open", []byte{i32, i32, i32, i32, i32, i64, i64, i32, i32}},
	{"path_create_directory", []byte{i32, i32, i32}},
	{"path_remove_directory", []byte{i32, i32, i32}},
	{"path_unlink_file", []byte{i32, i32, i32}},
	{"path_rename", []byte{i32, i32, i32, i32, i32, i32}},
	{"path_link", []byte{i32, i32, i32, i32, i32, i32, i32}},
	{"path_symlink", []byte{i32, i32, i32, i32, i32}},
	{"path_filestat_set_times", []byte{i32, i32, i32, i32, i64, i64, i32}},
	{"path_filestat_get", []byte{i32, i32, i32, i32, i32}},
	{"path_readlink", []byte{i32, i32, i32, i32, i32, i32}},
	{"fd_write", []byte{i32, i32, i32, i32}},
	{"fd_pwrite", []byte{i32, i32, i32, i64, i32}},
	{"fd_read", []byte{i32, i32, i32, i32}},
	{"fd_pread", []byte{i32, i32, i32, i64, i32}},
	{"fd_allocate", []byte{i32, i64, i64}},
	{"fd_filestat_set_size", []byte{i32, i64}},
	{"fd_filestat_set_times", []byte{i32, i64, i64, i32}},
	{"fd_fdstat_set_flags", []byte{i32, i32}},
	{"fd_sync", []byte{i32}},
	{"fd_datasync", []byte{i32}},
	{"fd_close", []byte{i32}},
	{"fd_seek", []byte{i32, i64, i32, i32}},
	{"fd_tell", []byte{i32, i32}},
	{"fd_readdir", []byte{i32, i32, i32, i64, i32}},
	{"fd_filestat_get", []byte{i32, i32}},
	{"fd_fdstat_get", []byte{i32, i32}},
	{"fd_renumber", []byte{i32, i32}},
	{"fd_advise", []byte{i32, i64, i64, i32}},
	{"fd_prestat_get", []byte{i32, i32}},
}

func proxyModule() []byte {
	m := wb.New()
	idx := make([]uint32, len(wasiFuncs))
	for i, f := range wasiFuncs {
		idx[i] = m.ImportFunc("wasi_snapshot_preview1", f.name, f.params, []byte{i32})
	}
	m.Memory(1, nil, false, "memory")
	for i, f := range wasiFuncs {
		var body []byte
		for p := range f.params {
			body = append(body, wb.LocalGet(uint32(p))...)
		}
		body = append(body, wb.Call(idx[i])...)
		m.AddFunc(wb.Func{Params: f.params, Results: []byte{i32}, Export: f.name, Body: body})
	}
	return m.Bytes()
}

// memory layout of the guest
const (
	offRes   = 0     // result cells
	offPath1 = 1024  // first path
	offPath2 = 2048  // second path
	offIovs  = 4096  // one iovec {ptr=offData, len}
	offData  = 8192  // data buffer
	offBig   = 16384 // readdir / stat buffers
)

type guest struct {
	mod api.Module
	mem api.Memory
}

func (g *guest) call(name string, args ...uint64) uint32 {
	f := g.mod.ExportedFunction(name)
	if f == nil {
		hx.Fatal("guest has no export %s", name)
	}
	res, err := f.Call(ctx, args...)
	if err != nil {
		// a Go panic or trap inside a WASI function: report as a violation of the harness contract, not a verdict
		hx.Fatal("guest call %s%v failed: %v", name, args, err)
	}
	return uint32(res[0])
}

func (g *guest) put(off uint32, s string) (uint64, uint64) {
	if len(s) > 900 {
		s = s[:900]
	}
	g.mem.Write(off, []byte(s))
	return uint64(off), uint64(len(s))
}

// opRec is one WASI call in serialisable form (also the replay format).
type opRec struct {
	Op    string `json:"op"`
	Fd    int32  `json:"fd"`
	Fd2   int32  `json:"fd2,omitempty"`
	Path  string `json:"path,omitempty"`
	Path2 string `json:"path2,omitempty"`
	A     uint64 `json:"a,omitempty"` // path_open: dirflags; set_times: atim; write: data length; allocate: offset; ...
	B     uint64 `json:"b,omitempty"` // path_open: oflags;   set_times: mtim; pwrite/pread: offset; allocate: len
	C     uint64 `json:"c,omitempty"` // path_open: rights;   set_times: fst_flags
	D     uint64 `json:"d,omitempty"` // path_open: fdflags;  path_filestat_set_times: lookup flags
}

func (o opRec) String() string {
	b, _ := json.Marshal(o)
	return string(b)
}

// exec runs one WASI call; for path_open the second result is the new fd.
func (g *guest) exec(o opRec) (errno uint32, newFD int32) {
	fd := uint64(uint32(o.Fd))
	newFD = -1
	switch o.Op {
	case "path_open":
		p, l := g.put(offPath1, o.Path)
		g.mem.WriteUint32Le(offRes, 0xffffffff)
		errno = g.call(o.Op, fd, o.A, p, l, o.B, o.C, 0, o.D, offRes)
		if errno == 0 {
			v, _ := g.mem.ReadUint32Le(offRes)
			newFD = int32(v)
		}
	case "path_create_directory", "path_remove_directory", "path_unlink_file":
		p, l := g.put(offPath1, o.Path)
		errno = g.call(o.Op, fd, p, l)
	case "path_rename":
		p, l := g.put(offPath1, o.Path)
		p2, l2 := g.put(offPath2, o.Path2)
		errno = g.call(o.Op, fd, p, l, uint64(uint32(o.Fd2)), p2, l2)
	case "path_link":
		p, l := g.put(offPath1, o.Path)
		p2, l2 := g.put(offPath2, o.Path2)
		errno = g.call(o.Op, fd, o.D, p, l, uint64(uint32(o.Fd2)), p2, l2)
	case "path_symlink":
		p, l := g.put(offPath1, o.Path)
		p2, l2 := g.put(offPath2, o.Path2)
		errno = g.call(o.Op, p, l, fd, p2, l2)
	case "path_filestat_set_times":
		p, l := g.put(offPath1, o.Path)
		errno = g.call(o.Op, fd, o.D, p, l, o.A, o.B, o.C)
	case "path_filestat_get":
		p, l := g.put(offPath1, o.Path)
		errno = g.call(o.Op, fd, o.D, p, l, offBig)
	case "path_readlink":
		p, l := g.put(offPath1, o.Path)
		errno = g.call(o.Op, fd, p, l, offBig, 256, offRes)
	case "fd_write", "fd_pwrite", "fd_read", "fd_pread":
		n := o.A
		if n > 4096 {
			n = 4096
		}
		if strings.HasSuffix(o.Op, "write") {
			g.mem.Write(offData, []byte(strings.Repeat("W", int(n))))
		}
		g.mem.WriteUint32Le(offIovs, offData)
		g.mem.WriteUint32Le(offIovs+4, uint32(n))
		if o.Op == "fd_write" || o.Op == "fd_read" {
			errno = g.call(o.Op, fd, offIovs, 1, offRes)
		} else {
			errno = g.call(o.Op, fd, offIovs, 1, o.B, offRes)
		}
	case "fd_allocate":
		errno = g.call(o.Op, fd, o.A, o.B)
	case "fd_filestat_set_size":
		errno = g.call(o.Op, fd, o.A)
	case "fd_filestat_set_times":
		errno = g.call(o.Op, fd, o.A, o.B, o.C)
	case "fd_fdstat_set_flags":
		errno = g.call(o.Op, fd, o.A)
	case "fd_sync", "fd_datasync", "fd_close":
		errno = g.call(o.Op, fd)
	case "fd_seek":
		errno = g.call(o.Op, fd, o.A, o.B, offRes)
	case "fd_tell":
		errno = g.call(o.Op, fd, offRes)
	case "fd_readdir":
		errno = g.call(o.Op, fd, offBig, 4096, o.A, offRes)
	case "fd_filestat_get", "fd_fdstat_get", "fd_prestat_get":
		errno = g.call(o.Op, fd, offBig)
	case "fd_renumber":
		errno = g.call(o.Op, fd, uint64(uint32(o.Fd2)))
	case "fd_advise":
		errno = g.call(o.Op, fd, o.A, o.B, o.C)
	default:
		hx.Fatal("unknown op %s", o.Op)
	}
	return
}

// readAll reads up to 4096 bytes from fd with fd_read.
func (g *guest) readAll(fd int32) (string, uint32) {
	g.mem.WriteUint32Le(offIovs, offData)
	g.mem.WriteUint32Le(offIovs+4, 4096)
	errno := g.call("fd_read", uint64(uint32(fd)), offIovs, 1, offRes)
	if errno != 0 {
		return "", errno
	}
	n, _ := g.mem.ReadUint32Le(offRes)
	b, _ := g.mem.Read(offData, n)
	return string(b), 0
}

// ---------------------------------------------------------------------------------------------
// worlds

type world struct {
	name   string // ro-dir | rec-dir | gofs-osdir | gofs-mapfs
	dir    string
	mapfs  fstest.MapFS
	outer  *recorder
	inner  *recorder
	rt     wazero.Runtime
	cm     wazero.CompiledModule
	base   snapshot
	nInst  int
	readOK int
}

// dualFS: see world "gofs-dualview".
type dualFS struct {
	experimentalsys.FS
	ro fs.FS
}

func (d dualFS) Open(name string) (fs.File, error) { return d.ro.Open(name) }

func newWorld(name string, n int) *world {
	w := &world{name: name}
	w.rt = wazero.NewRuntime(ctx)
	if _, err := wasi_snapshot_preview1.Instantiate(ctx, w.rt); err != nil {
		hx.Fatal("wasi: %v", err)
	}
	cm, err := w.rt.CompileModule(ctx, proxyModule())
	if err != nil {
		hx.Fatal("compile proxy: %v", err)
	}
	w.cm = cm
	if name == "gofs-mapfs" {
		w.mapfs = mapFixture()
	} else {
		w.dir = filepath.Join(*hx.Work, fmt.Sprintf("c17-%s-%d", name, n))
		makeFixture(w.dir)
		if name == "ro-dir-host-bits" {
			hostReadOnlyBits(w.dir)
		}
	}
	w.base = w.snap()
	return w
}

func (w *world) close() {
	w.rt.Close(ctx)
	if w.dir != "" {
		removeTree(w.dir)
	}
}

func (w *world) snap() snapshot {
	if w.mapfs != nil {
		return snapMap(w.mapfs)
	}
	return snapDir(w.dir)
}

func (w *world) restore() {
	if w.mapfs != nil {
		for k := range w.mapfs {
			delete(w.mapfs, k)
		}
		for k, v := range mapFixture() {
			w.mapfs[k] = v
		}
	} else {
		makeFixture(w.dir)
		if w.name == "ro-dir-host-bits" {
			hostReadOnlyBits(w.dir)
		}
	}
	w.base = w.snap()
}

func (w *world) fsConfig() wazero.FSConfig {
	c := wazero.NewFSConfig()
	switch w.name {
	case "ro-dir", "ro-dir-host-bits":
		return c.WithReadOnlyDirMount(w.dir, "/")
	case "ro-dir-derived":
		// the read-only configuration is the one in use; writable configurations are DERIVED from it (for a trusted
		// module, say) and never handed to this guest: FSConfig is immutable, deriving must not change `ro`
		ro := c.WithReadOnlyDirMount(w.dir, "/")
		_ = ro.WithDirMount(w.dir, "/")                            // override of the same guest path
		_ = ro.WithDirMount(w.dir, "/rw").WithDirMount(w.dir, "/") // extension, then override
		base := wazero.NewFSConfig().WithFSMount(os.DirFS(w.dir), "/a").WithFSMount(os.DirFS(w.dir), "/b").WithFSMount(os.DirFS(w.dir), "/c")
		sib := base.WithReadOnlyDirMount(w.dir, "/d") // siblings appended to a base with spare capacity
		_ = base.WithDirMount(w.dir, "/d")
		_ = sib
		return ro
	case "rec-dir":
		w.outer = &recorder{req: true}
		w.inner = &recorder{}
		mount := newRecFS(&sysfs.ReadFS{FS: newRecFS(sysfs.DirFS(w.dir), w.inner)}, w.outer)
		return c.(expsysfs.FSConfig).WithSysFSMount(mount, "/")
	case "gofs-osdir":
		return c.WithFSMount(os.DirFS(w.dir), "/")
	case "gofs-dualview":
		// a Go fs.FS value that ALSO has the methods of a writable sys.FS (a type an embedder uses on the host side
		// with full access, and mounts for the guest as an fs.FS): mounted with WithFSMount it is an fs.FS, read-only
		return c.WithFSMount(dualFS{FS: sysfs.DirFS(w.dir), ro: os.DirFS(w.dir)}, "/")
	case "gofs-mapfs":
		return c.WithFSMount(w.mapfs, "/")
	}
	hx.Fatal("unknown world %s", w.name)
	return nil
}

func (w *world) instantiate() *guest {
	w.nInst++
	mod, err := w.rt.InstantiateModule(ctx, w.cm, wazero.NewModuleConfig().WithName("").WithFSConfig(w.fsConfig()))
	if err != nil {
		hx.Fatal("instantiate in %s: %v", w.name, err)
	}
	g := &guest{mod: mod, mem: mod.Memory()}
	g.call("fd_fdstat_get", fdPre, offBig) // the pre-open's root directory is opened lazily: do it now
	if w.outer != nil {
		w.outer.take()
		w.inner.take()
	}
	return g
}

// sigFor names the specific failing input class of a tree change.
func sigFor(world string, o opRec, class string) string {
	if o.Op == "path_open" {
		of := uint16(o.B)
		switch {
		case class == "created" && of&wasip1.O_CREAT != 0:
			return "F18:path_open-oflags-CREAT-creates-host-file-on-" + world
		case (class == "size" || class == "content") && of&wasip1.O_TRUNC != 0:
			return "F18:path_open-oflags-TRUNC-empties-host-file-on-" + world
		}
	}
	return fmt.Sprintf("C17:%s-%s-on-%s", o.Op, class, world)
}

// monitor compares the tree with the baseline after op (tie C). history is the sequence up to and including op.
func (w *world) monitor(history []opRec, errno uint32) bool {
	now := w.snap()
	d, class := w.base.diff(now)
	if len(d) == 0 {
		return true
	}
	o := history[len(history)-1]
	rep.Violate(hx.Violation{Kind: "impl-violation", Signature: sigFor(w.name, o, class),
		What:     fmt.Sprintf("%s on a mount of kind %s changed the host tree (%s): %s", o.Op, w.name, class, strings.Join(d, "; ")),
		Input:    map[string]any{"world": w.name, "history": history, "errno_of_last": errno},
		Expected: "snapshot (names, modes, sizes, content hashes, mtimes) identical before and after",
		Actual:   d})
	w.restore()
	return false
}

// checkRecords: tie B for the WASI layer + the mechanism predicate, in the rec-dir world.
func (w *world) checkRecords(o opRec) {
	if w.outer == nil {
		return
	}
	reqs := w.outer.take()
	below := w.inner.take()
	var allowed string
	if o.Op == "path_open" {
		allowed = ask("c17 wasi path_open %d %d %d %d", uint16(o.A), uint16(o.B), uint16(o.D), uint32(o.C))
	} else {
		allowed = ask("c17 wasi %s", o.Op)
	}
	allow := map[string]bool{}
	for _, a := range strings.Fields(allowed) {
		allow[a] = true
	}
	served := map[string]bool{}
	for _, r := range reqs {
		if !allow[r] {
			rep.Violate(hx.Violation{Kind: "correspondence", Signature: "C17:wasi-request-not-in-model:" + o.Op + ":" + strings.SplitN(r, ":", 3)[0] + ":" + strings.SplitN(r, ":", 3)[1],
				What:  fmt.Sprintf("%s made the request %s on the mount; the model's wasiReqs allows only [%s]", o.Op, r, allowed),
				Input: o, Expected: allowed, Actual: reqs})
		}
		parts := strings.Split(r, ":")
		var s string
		switch {
		case parts[0] == "fs" && parts[1] == "OpenFile":
			s = ask("c17 serve fs OpenFile %s", parts[2])
		case parts[0] == "fs":
			s = ask("c17 serve fs %s 0", parts[1])
		default:
			s = ask("c17 serve file %s", parts[1])
		}
		for _, c := range strings.Fields(s) {
			served[c] = true
		}
	}
	for _, c := range below {
		if !served[c] {
			rep.Violate(hx.Violation{Kind: "correspondence", Signature: "C17:call-below-wrapper-not-in-model:" + o.Op + ":" + c,
				What:  fmt.Sprintf("during %s the wrapped FS received %s, which serve(requests) of the regenerated tables does not contain", o.Op, c),
				Input: o, Expected: fmt.Sprint(served), Actual: below})
		}
		if !nonMutating(c) {
			rep.Violate(hx.Violation{Kind: "impl-violation", Signature: "C17:mutating-call-reaches-wrapped-fs:" + o.Op + ":" + classOf(c),
				What:  fmt.Sprintf("during %s on a read-only mount the wrapped (writable) FS received the mutating call %s", o.Op, c),
				Input: map[string]any{"world": w.name, "history": []opRec{o}}, Expected: "only non-mutating calls below ReadFS", Actual: below})
		}
		rep.Count("below-wrapper:" + classOf(c))
	}
}

func classOf(c string) string {
	if strings.HasPrefix(c, "open:") {
		var f uint32
		fmt.Sscanf(c, "open:%d", &f)
		if ask("c17 readonly %d", f) == "1" {
			return "open-readonly"
		}
		return fmt.Sprintf("open-not-readonly(accmode=%d,creat=%v,trunc=%v)", f&3, f&16 != 0, f&4096 != 0)
	}
	return c
}

func nonMutating(c string) bool {
	p := strings.Split(c, ":")
	if len(p) != 2 {
		return false
	}
	return ask("c17 nonmut %s %s", p[0], p[1]) == "1"
}

// run executes a history in a fresh instance under the monitors; returns false if a monitor fired.
func (w *world) run(history []opRec, kind string) bool {
	g := w.instantiate()
	defer g.mod.Close(ctx)
	ok := true
	for i, o := range history {
		errno, newFD := g.exec(o)
		rep.Count(fmt.Sprintf("%s:%s:%s", w.name, o.Op, errnoClass(errno)))
		w.checkRecords(o)
		unchanged := w.monitor(history[:i+1], errno)
		if !unchanged {
			ok = false
		}
		if o.Op == "path_open" && errno == 0 && unchanged {
			w.readCheck(g, history[:i+1], newFD)
		}
	}
	return ok
}

// readCheck: reading through the mount keeps working: a successfully opened regular file delivers its content.
func (w *world) readCheck(g *guest, history []opRec, fd int32) {
	o := history[len(history)-1]
	want, isFile := map[string]string{"file.txt": fileContent, "link": fileContent, "sub/inner.txt": "inner\n", "empty.txt": ""}[o.Path]
	if w.mapfs != nil && o.Path == "link" {
		isFile = false
	}
	if !isFile {
		return
	}
	got, errno := g.readAll(fd)
	if w.outer != nil {
		w.outer.take()
		w.inner.take()
	}
	if errno != 0 || got != want {
		rep.Violate(hx.Violation{Kind: "impl-violation", Signature: fmt.Sprintf("C17:read-through-mount-broken-on-%s", w.name),
			What:  fmt.Sprintf("path_open of %s succeeded on %s but fd_read returned errno %d, %q (want %q)", o.Path, w.name, errno, got, want),
			Input: map[string]any{"world": w.name, "history": history}, Expected: want, Actual: got})
		return
	}
	w.readOK++
}

func errnoClass(e uint32) string {
	if e == 0 {
		return "ok"
	}
	return wasip1.ErrnoName(e)
}

// ---------------------------------------------------------------------------------------------
// part A: the wrapper itself

func sweepOflags() {
	words := make([]uint32, 0, 9000)
	for f := uint32(0); f < 1<<13; f++ {
		words = append(words, f)
	}
	r := hx.Rand()
	for i := 0; i < 600; i++ { // undeclared and high bits
		words = append(words, r.Uint32(), uint32(1)<<uint(13+r.Intn(19))|uint32(r.Intn(1<<13)))
	}
	wrapsWant := ask("c17 wraps")
	variant := ask("c17 variant")
	rep.Note("flag decision regenerated from the tree agrees with the %s variant on the F18 witness words", variant)
	dir := filepath.Join(*hx.Work, "c17-sweep")
	makeFixture(dir)
	defer os.RemoveAll(dir)
	base := snapDir(dir)
	real := &sysfs.ReadFS{FS: sysfs.DirFS(dir)}
	for _, f := range words {
		rec := &recorder{}
		ro := &sysfs.ReadFS{FS: newRecFS(stubFS{}, rec)}
		file, errno := ro.OpenFile("x", experimentalsys.Oflag(f), 0o600)
		below := rec.take()
		var got string
		switch {
		case errno != 0 && len(below) == 0:
			got = fmt.Sprintf("refuse %d", uint32(errno))
		case errno == 0 && len(below) == 1 && strings.HasPrefix(below[0], "open:"):
			got = "delegate " + strings.TrimPrefix(below[0], "open:")
		default:
			got = fmt.Sprintf("errno=%d below=%v", errno, below)
		}
		want := ask("c17 open %d", f)
		key := ""
		if f < 1<<13 {
			key = fmt.Sprintf("oflag/%d", f)
		} else {
			key = fmt.Sprintf("oflag-high/%d", f)
		}
		rep.Case(key)
		rep.Count("ReadFS.OpenFile:" + strings.Fields(got)[0])
		if got != want {
			rep.Violate(hx.Violation{Kind: "correspondence", Signature: "C17:ReadFS.OpenFile-decision-differs-from-model",
				What:  "the real (*ReadFS).OpenFile and the regenerated decision disagree",
				Input: map[string]any{"oflag": f}, Expected: want, Actual: got})
		}
		if errno == 0 {
			if tn := strings.TrimPrefix(fmt.Sprintf("%T", file), "*sysfs."); tn != wrapsWant {
				rep.Violate(hx.Violation{Kind: "correspondence", Signature: "C17:ReadFS.OpenFile-wrapper-type-differs",
					What: "the file returned by (*ReadFS).OpenFile is not of the wrapper type the extractor saw", Input: map[string]any{"oflag": f}, Expected: wrapsWant, Actual: tn})
			}
			// mechanism predicate on the real code: what reaches the wrapped FS must be a read-only word
			if ask("c17 readonly %d", f) != "1" {
				sig := "C17:ReadFS.OpenFile-passes-non-readonly-word"
				switch {
				case f&3 == 3 && f&(16|4096) == 0:
					sig = "F18:ReadFS.OpenFile-accmode-3-passes-the-flag-check"
				case f&3 == 0 && f&16 != 0:
					sig = "F18:ReadFS.OpenFile-O_CREAT-with-O_RDONLY-reaches-wrapped-fs"
				case f&3 == 0 && f&4096 != 0:
					sig = "F18:ReadFS.OpenFile-O_TRUNC-with-O_RDONLY-reaches-wrapped-fs"
				case f&3 == 3:
					sig = "F18:ReadFS.OpenFile-accmode-3-with-O_CREAT-or-O_TRUNC-reaches-wrapped-fs"
				}
				rep.Violate(hx.Violation{Kind: "impl-violation", Signature: sig,
					What:  fmt.Sprintf("(*ReadFS).OpenFile passed the flag word %#x (accmode=%d creat=%v trunc=%v) to the wrapped FS", f, f&3, f&16 != 0, f&4096 != 0),
					Input: map[string]any{"oflag": f}, Expected: "refused, or delegated with O_RDONLY and neither O_CREAT nor O_TRUNC", Actual: got})
			}
		}
		// tie C on a real directory: existing file and a name that does not exist
		if f < 1<<13 {
			for _, p := range []string{"file.txt", "newfile"} {
				file, errno := real.OpenFile(p, experimentalsys.Oflag(f), 0o600)
				if errno == 0 {
					file.Close()
				}
				rep.Case("")
				if d, class := base.diff(snapDir(dir)); len(d) > 0 {
					sig := fmt.Sprintf("C17:ReadFS.OpenFile-%s-host-tree", class)
					switch {
					case class == "created" && f&16 != 0:
						sig = "F18:ReadFS.OpenFile-O_CREAT-creates-host-file"
					case (class == "size" || class == "content") && f&4096 != 0:
						sig = "F18:ReadFS.OpenFile-O_TRUNC-empties-host-file"
					}
					rep.Violate(hx.Violation{Kind: "impl-violation", Signature: sig,
						What:  fmt.Sprintf("ReadFS{DirFS}.OpenFile(%q, %#x) changed the host directory: %s", p, f, strings.Join(d, "; ")),
						Input: map[string]any{"oflag": f, "path": p}, Expected: "host directory unchanged", Actual: d})
					makeFixture(dir)
					base = snapDir(dir)
				}
			}
		}
	}
}

// sweepMethods: every interface method on the real wrappers over recording values vs the regenerated tables.
func sweepMethods() {
	type call struct {
		name string
		do   func() experimentalsys.Errno
	}
	for _, kind := range []string{"readfs", "adaptfs"} {
		rec := &recorder{}
		var fsys experimentalsys.FS
		var file experimentalsys.File
		var topic string
		if kind == "readfs" {
			fsys = &sysfs.ReadFS{FS: newRecFS(okFS{}, rec)}
			file, _ = fsys.OpenFile("x", experimentalsys.O_RDONLY, 0)
			topic = "serve"
		} else {
			fsys = &sysfs.AdaptFS{FS: mapFixture()}
			file, _ = fsys.OpenFile("file.txt", experimentalsys.O_RDONLY, 0)
			topic = "adapt"
		}
		if file == nil {
			hx.Fatal("sweepMethods: cannot open through %s", kind)
		}
		rec.take()
		buf := make([]byte, 4)
		fsCalls := []call{
			{"Chmod", func() experimentalsys.Errno { return fsys.Chmod("x", 0o600) }},
			{"Link", func() experimentalsys.Errno { return fsys.Link("x", "y") }},
			{"Lstat", func() experimentalsys.Errno { _, e := fsys.Lstat("file.txt"); return e }},
			{"Mkdir", func() experimentalsys.Errno { return fsys.Mkdir("d", 0o700) }},
			{"Readlink", func() experimentalsys.Errno { _, e := fsys.Readlink("x"); return e }},
			{"Rename", func() experimentalsys.Errno { return fsys.Rename("x", "y") }},
			{"Rmdir", func() experimentalsys.Errno { return fsys.Rmdir("x") }},
			{"Stat", func() experimentalsys.Errno { _, e := fsys.Stat("file.txt"); return e }},
			{"Symlink", func() experimentalsys.Errno { return fsys.Symlink("x", "y") }},
			{"Unlink", func() experimentalsys.Errno { return fsys.Unlink("x") }},
			{"Utimens", func() experimentalsys.Errno { return fsys.Utimens("x", 1, 1) }},
		}
		fileCalls := []call{
			{"Datasync", func() experimentalsys.Errno { return file.Datasync() }},
			{"Dev", func() experimentalsys.Errno { _, e := file.Dev(); return e }},
			{"Ino", func() experimentalsys.Errno { _, e := file.Ino(); return e }},
			{"IsAppend", func() experimentalsys.Errno { file.IsAppend(); return 0 }},
			{"IsDir", func() experimentalsys.Errno { _, e := file.IsDir(); return e }},
			{"Pread", func() experimentalsys.Errno { _, e := file.Pread(buf, 0); return e }},
			{"Pwrite", func() experimentalsys.Errno { _, e := file.Pwrite(buf, 0); return e }},
			{"Read", func() experimentalsys.Errno { _, e := file.Read(buf); return e }},
			{"Readdir", func() experimentalsys.Errno { _, e := file.Readdir(1); return e }},
			{"Seek", func() experimentalsys.Errno { _, e := file.Seek(0, 0); return e }},
			{"SetAppend", func() experimentalsys.Errno { return file.SetAppend(false) }},
			{"Stat", func() experimentalsys.Errno { _, e := file.Stat(); return e }},
			{"Sync", func() experimentalsys.Errno { return file.Sync() }},
			{"Truncate", func() experimentalsys.Errno { return file.Truncate(0) }},
			{"Utimens", func() experimentalsys.Errno { return file.Utimens(1, 1) }},
			{"Write", func() experimentalsys.Errno { _, e := file.Write(buf); return e }},
			{"Close", func() experimentalsys.Errno { return file.Close() }},
		}
		for _, grp := range []struct {
			k     string
			calls []call
		}{{"fs", fsCalls}, {"file", fileCalls}} {
			have := map[string]bool{"OpenFile": true}
			for _, c := range grp.calls {
				have[c.name] = true
				errno := c.do()
				below := rec.take()
				var want string
				if grp.k == "fs" && kind == "readfs" {
					want = ask("c17 %s fs %s 0", topic, c.name)
				} else {
					want = ask("c17 %s %s %s", topic, grp.k, c.name)
				}
				rep.Case(fmt.Sprintf("method/%s/%s/%s", kind, grp.k, c.name))
				wantSet := map[string]bool{}
				for _, x := range strings.Fields(want) {
					wantSet[x] = true
				}
				if kind == "readfs" {
					// exact for inherited (the same method, once) and for refusals (subset of the listed helpers' calls)
					for _, b := range below {
						if !wantSet[b] {
							rep.Violate(hx.Violation{Kind: "correspondence", Signature: "C17:wrapper-method-calls-differ-from-table:" + grp.k + "." + c.name,
								What: "the real wrapper method let a call through that the regenerated table does not list", Input: c.name, Expected: want, Actual: below})
						}
						if !nonMutating(b) {
							rep.Violate(hx.Violation{Kind: "impl-violation", Signature: "C17:mutating-call-reaches-wrapped-value:" + grp.k + "." + c.name,
								What: fmt.Sprintf("%s.%s on the read-only wrapper reached the wrapped value with the mutating call %s", grp.k, c.name, b), Input: c.name, Expected: "refused", Actual: below})
						}
					}
					if want == grp.k+":"+c.name && (len(below) != 1 || below[0] != want) {
						rep.Violate(hx.Violation{Kind: "correspondence", Signature: "C17:inherited-method-not-delegated:" + grp.k + "." + c.name,
							What: "the table says the method is inherited (delegated) but the wrapped value did not see exactly that call", Input: c.name, Expected: want, Actual: below})
					}
				}
				// a method whose table entry lists nothing below and is not inherited must return a non-zero errno
				if want == "-" && errno == 0 {
					rep.Violate(hx.Violation{Kind: "correspondence", Signature: "C17:refusing-method-returned-success:" + kind + ":" + grp.k + "." + c.name,
						What: "the table says the method refuses with a constant errno, the real method returned 0", Input: c.name, Expected: "errno != 0", Actual: 0})
				}
				rep.Count(fmt.Sprintf("method:%s:%s", kind, map[bool]string{true: "refused", false: "served"}[errno != 0 && len(below) == 0 || want == "-"]))
			}
			for _, m := range strings.Fields(ask("c17 methods %s", grp.k)) {
				if !have[m] {
					rep.Violate(hx.Violation{Kind: "correspondence", Signature: "C17:interface-method-not-exercised:" + grp.k + "." + m,
						What: "the interface has a method the harness does not know; it was not exercised", Input: m})
				}
			}
		}
	}
}

// ---------------------------------------------------------------------------------------------
// part B/C: WASI

const (
	rightR = uint64(wasip1.RIGHT_FD_READ)
	rightW = uint64(wasip1.RIGHT_FD_WRITE)
)

func openGrid() (dirflags, oflags, fdflags, rights []uint64) {
	dirflags = []uint64{0, 1}
	for o := uint64(0); o < 16; o++ {
		oflags = append(oflags, o)
	}
	for f := uint64(0); f < 32; f++ {
		fdflags = append(fdflags, f)
	}
	rights = []uint64{0, rightR, rightW, rightR | rightW, ^uint64(0) &^ rightW, ^uint64(0)}
	if hx.Thorough() {
		dirflags = append(dirflags, 2, 0xffff)
		oflags = append(oflags, 16, 0xfff1, 0xfff8, 0xffff)
		fdflags = append(fdflags, 32, 0xffe0, 0xffff)
		rights = append(rights, ^uint64(0)&^rightR, 0xffffffff00000000, 1)
	}
	return
}

// pathOpenGrid: every flag/rights combination through the real path_open, per path.
func (w *world) pathOpenGrid(paths []string) {
	ds, os_, fs_, rs := openGrid()
	g := w.instantiate()
	defer func() { g.mod.Close(ctx) }()
	n := 0
	for _, p := range paths {
		for _, d := range ds {
			for _, o := range os_ {
				for _, f := range fs_ {
					for _, r := range rs {
						op := opRec{Op: "path_open", Fd: 3, Path: p, A: d, B: o, C: r, D: f}
						errno, newFD := g.exec(op)
						want := ask("c17 pathopen %d %d %d %d", uint16(d), uint16(o), uint16(f), uint32(r))
						rep.Case(fmt.Sprintf("path_open/%s/%s/%d/%d/%d/%d", w.name, p, uint16(d), uint16(o), uint16(f), uint32(r)))
						rep.Count(fmt.Sprintf("%s:path_open:model-%s:%s", w.name, strings.Fields(want)[0], errnoClass(errno)))
						if w.name == "ro-dir" || w.name == "rec-dir" || w.name == "ro-dir-derived" || w.name == "ro-dir-host-bits" {
							w.comparePathOpen(op, errno, want)
						}
						if w.outer != nil {
							w.outer.take()
							w.inner.take()
						}
						unchanged := w.monitor([]opRec{op}, errno)
						if errno == 0 {
							if unchanged {
								w.readCheck(g, []opRec{op}, newFD)
							}
							g.call("fd_close", uint64(uint32(newFD)))
							if w.outer != nil {
								w.outer.take()
								w.inner.take()
							}
						}
						n++
						if n%4000 == 0 { // keep the descriptor table small even if closes fail
							g.mod.Close(ctx)
							g = w.instantiate()
						}
					}
				}
			}
		}
	}
}

// comparePathOpen: tie B for path_open (errno class and, in the recording world, the flag below the wrapper).
func (w *world) comparePathOpen(op opRec, errno uint32, want string) {
	wf := strings.Fields(want)
	fail := func(what string, actual any) {
		rep.Violate(hx.Violation{Kind: "correspondence", Signature: "C17:path_open-differs-from-model:" + wf[0],
			What: what, Input: map[string]any{"world": w.name, "history": []opRec{op}}, Expected: want, Actual: actual})
	}
	var below, reqs []string
	if w.outer != nil {
		reqs = w.outer.peek()
		below = w.inner.peek()
	}
	var opens, reqOpens []string
	for _, b := range below {
		if strings.HasPrefix(b, "open:") {
			opens = append(opens, b)
		}
	}
	for _, r := range reqs {
		if strings.HasPrefix(r, "fs:OpenFile:") {
			reqOpens = append(reqOpens, r)
		}
	}
	switch wf[0] {
	case "einval":
		if errno != uint32(wasip1.ErrnoInval) {
			fail("model: path_open's own EINVAL check fires", errnoClass(errno))
		}
		if len(reqOpens) > 0 {
			fail("model: the mount is not asked to open", reqs)
		}
	case "refuse":
		var e uint32
		fmt.Sscan(wf[1], &e)
		if errno != uint32(wasip1.ToErrno(experimentalsys.Errno(e))) {
			fail("model: ReadFS refuses with this errno", errnoClass(errno))
		}
		if len(opens) > 0 {
			fail("model: nothing reaches the wrapped FS", below)
		}
	case "delegate":
		if w.outer != nil && (len(opens) != 1 || opens[0] != "open:"+wf[1]) {
			fail("model: the wrapped FS's OpenFile is called once with this flag word", below)
		}
	}
	if w.outer != nil && wf[0] != "einval" {
		// the flag word computed by the real openFlags, as seen at the mount, vs the regenerated openFlags
		fl := ask("c17 openflags %d %d %d %d", uint16(op.A), uint16(op.B), uint16(op.D), uint32(op.C))
		if len(reqOpens) != 1 || reqOpens[0] != "fs:OpenFile:"+fl {
			rep.Violate(hx.Violation{Kind: "correspondence", Signature: "C17:openFlags-differs-from-model",
				What: "the flag word path_open hands to the mount differs from the regenerated openFlags", Input: op, Expected: "fs:OpenFile:" + fl, Actual: reqs})
		}
	}
	if w.outer != nil {
		w.checkRecords(op)
	}
}

func (r *recorder) peek() []string {
	r.mu.Lock()
	defer r.mu.Unlock()
	return append([]string(nil), r.calls...)
}

var pathPool = []string{"file.txt", "empty.txt", "sub", "sub/inner.txt", "link", "newname", "sub/newname", ".", "sub/", "../escape", "", "file.txt/x", "nodir/x"}

const (
	fdPre   = 3
	fdFile  = 4
	fdDir   = 5
	fdEmpty = 6
)

func prelude() []opRec {
	return []opRec{
		{Op: "path_open", Fd: fdPre, Path: "file.txt", A: 1, C: rightR},
		{Op: "path_open", Fd: fdPre, Path: "sub", A: 1, B: uint64(wasip1.O_DIRECTORY)},
		{Op: "path_open", Fd: fdPre, Path: "empty.txt", A: 1, C: rightR},
	}
}

var times = []uint64{0, 1, 1_000_000_000_000_000_000, 1 << 62}

// singles: every mutating WASI call with all argument variants, one call per fresh prelude.
func singles() [][]opRec {
	var out [][]opRec
	add := func(o opRec) { out = append(out, append(prelude(), o)) }
	fds := []int32{fdPre, fdFile, fdDir, fdEmpty, 99, -1}
	for _, fd := range []int32{fdPre, fdDir, fdFile} {
		for _, p := range pathPool {
			for _, op := range []string{"path_create_directory", "path_remove_directory", "path_unlink_file"} {
				add(opRec{Op: op, Fd: fd, Path: p})
			}
			for _, fst := range []uint64{0, 1, 2, 4, 8, 5, 10, 15, 3, 12} {
				for _, lf := range []uint64{0, 1} {
					add(opRec{Op: "path_filestat_set_times", Fd: fd, Path: p, A: 1_600_000_000_000_000_000, B: 1_600_000_000_000_000_000, C: fst, D: lf})
				}
			}
			for _, p2 := range []string{"newname", "file.txt", "sub/moved", "empty.txt", "sub"} {
				add(opRec{Op: "path_rename", Fd: fd, Fd2: fdPre, Path: p, Path2: p2})
				add(opRec{Op: "path_link", Fd: fd, Fd2: fdPre, Path: p, Path2: p2, D: 1})
				add(opRec{Op: "path_link", Fd: fd, Fd2: fdDir, Path: p, Path2: p2})
				add(opRec{Op: "path_symlink", Fd: fd, Path: p, Path2: p2})
			}
		}
	}
	for _, fd := range fds {
		for _, n := range []uint64{0, 1, 5, 4096} {
			add(opRec{Op: "fd_write", Fd: fd, A: n})
			for _, off := range []uint64{0, 3, 1000, 1 << 40} {
				add(opRec{Op: "fd_pwrite", Fd: fd, A: n, B: off})
			}
		}
		for _, a := range []uint64{0, 1, 10, 100, 1 << 20, 1 << 62} {
			add(opRec{Op: "fd_filestat_set_size", Fd: fd, A: a})
			for _, b := range []uint64{0, 1, 100, 1 << 20} {
				add(opRec{Op: "fd_allocate", Fd: fd, A: a, B: b})
			}
		}
		for _, fst := range []uint64{0, 1, 2, 4, 8, 5, 10, 15, 3, 12} {
			for _, t := range times {
				add(opRec{Op: "fd_filestat_set_times", Fd: fd, A: t, B: t, C: fst})
			}
		}
		for fl := uint64(0); fl < 32; fl++ {
			add(opRec{Op: "fd_fdstat_set_flags", Fd: fd, A: fl})
		}
		add(opRec{Op: "fd_sync", Fd: fd})
		add(opRec{Op: "fd_datasync", Fd: fd})
		add(opRec{Op: "fd_renumber", Fd: fd, Fd2: fdFile})
		add(opRec{Op: "fd_renumber", Fd: fd, Fd2: 7})
	}
	return out
}

var allOps = []string{"path_open", "path_create_directory", "path_remove_directory", "path_unlink_file", "path_rename", "path_link",
	"path_symlink", "path_filestat_set_times", "path_filestat_get", "path_readlink", "fd_write", "fd_pwrite", "fd_read", "fd_pread",
	"fd_allocate", "fd_filestat_set_size", "fd_filestat_set_times", "fd_fdstat_set_flags", "fd_sync", "fd_datasync", "fd_close",
	"fd_seek", "fd_tell", "fd_readdir", "fd_filestat_get", "fd_fdstat_get", "fd_renumber", "fd_advise", "fd_prestat_get"}

// randomHistory: a seeded sequence over all path and fd calls; descriptors refer to the prelude and to
// whatever earlier path_opens of the same history produced (numbers are deterministic in a fresh instance).
func randomHistory(r *rand.Rand, n int) []opRec {
	h := prelude()
	nextFD := int32(7) // the prelude used 4,5,6
	pick := func(xs []string) string { return xs[r.Intn(len(xs))] }
	fd := func() int32 {
		switch r.Intn(10) {
		case 0:
			return 99
		case 1, 2:
			return fdPre
		default:
			return 4 + int32(r.Intn(int(nextFD-4)))
		}
	}
	u := func(xs ...uint64) uint64 { return xs[r.Intn(len(xs))] }
	for i := 0; i < n; i++ {
		o := opRec{Op: pick(allOps), Fd: fd()}
		switch o.Op {
		case "path_open":
			o.Path = pick(pathPool)
			o.A = uint64(r.Intn(2))
			o.B = uint64(r.Intn(16))
			o.D = uint64(r.Intn(32))
			o.C = u(0, rightR, rightW, rightR|rightW, ^uint64(0))
			if r.Intn(3) == 0 { // mostly-valid: plain read opens
				o.B, o.D, o.C = 0, 0, rightR
			}
			nextFD++ // an upper bound; failed opens leave gaps that later ops hit as EBADF
		case "path_rename", "path_link", "path_symlink":
			o.Path, o.Path2, o.Fd2, o.D = pick(pathPool), pick(pathPool), fd(), uint64(r.Intn(2))
		case "path_filestat_set_times":
			o.Path, o.A, o.B, o.C, o.D = pick(pathPool), pick2(r, times), pick2(r, times), uint64(r.Intn(16)), uint64(r.Intn(2))
		case "path_create_directory", "path_remove_directory", "path_unlink_file", "path_filestat_get", "path_readlink":
			o.Path, o.D = pick(pathPool), uint64(r.Intn(2))
		case "fd_write", "fd_pwrite", "fd_read", "fd_pread":
			o.A, o.B = u(0, 1, 7, 100, 4096), u(0, 1, 10, 1<<33)
		case "fd_allocate", "fd_advise":
			o.A, o.B, o.C = u(0, 1, 50, 1<<20, 1<<63), u(0, 1, 50, 1<<20, 1<<63), uint64(r.Intn(7))
		case "fd_filestat_set_size":
			o.A = u(0, 1, 23, 50, 1<<20, 1<<63)
		case "fd_filestat_set_times":
			o.A, o.B, o.C = pick2(r, times), pick2(r, times), uint64(r.Intn(16))
		case "fd_fdstat_set_flags":
			o.A = uint64(r.Intn(32))
		case "fd_seek":
			o.A, o.B = u(0, 1, 5, 1<<40, ^uint64(0)), uint64(r.Intn(4))
		case "fd_readdir":
			o.A = u(0, 1, 2, 100)
		case "fd_renumber":
			o.Fd2 = fd()
		}
		h = append(h, o)
	}
	return h
}

func pick2(r *rand.Rand, xs []uint64) uint64 { return xs[r.Intn(len(xs))] }

func historyKey(world string, h []opRec) string {
	hsh := sha256.New()
	for _, o := range h {
		hsh.Write([]byte(o.String()))
	}
	s := hsh.Sum(nil)
	return fmt.Sprintf("hist/%s/%x", world, binary.BigEndian.Uint64(s[:8]))
}

func runWorld(name string, idx int, seed int64) {
	w := newWorld(name, idx)
	defer w.close()
	r := rand.New(rand.NewSource(seed*1000003 + int64(idx)))
	paths := map[string][]string{
		"ro-dir":           {"file.txt", "newfile", "sub", "link", "sub/inner.txt"},
		"ro-dir-derived":   {"file.txt", "newfile", "sub"},
		"ro-dir-host-bits": {"file.txt", "newfile", "sub", "sub/inner.txt"},
		"rec-dir":          {"file.txt", "newfile", "sub"},
		"gofs-osdir":       {"file.txt", "newfile"},
		"gofs-dualview":    {"file.txt", "newfile", "sub/inner.txt"},
		"gofs-mapfs":       {"file.txt", "newfile"},
	}[name]
	if hx.Thorough() {
		paths = []string{"file.txt", "newfile", "sub", "link", "sub/inner.txt", "empty.txt", "sub/newfile"}
	}
	w.pathOpenGrid(paths)
	ss := singles()
	if !hx.Thorough() && name != "ro-dir" { // quick: the full list on the read-only dir mount, a third elsewhere
		var t [][]opRec
		for i := idx % 3; i < len(ss); i += 3 {
			t = append(t, ss[i])
		}
		ss = t
	}
	for _, h := range ss {
		rep.Case(historyKey(name, h))
		w.run(h, "single")
	}
	nh, ln := 300, 40
	if hx.Thorough() {
		nh, ln = 2500, 60
	}
	for i := 0; i < nh; i++ {
		h := randomHistory(r, 5+r.Intn(ln))
		rep.Case(historyKey(name, h))
		if i == 0 {
			rep.Sample(map[string]any{"world": name, "history": h[:8]})
		}
		w.run(h, "random")
	}
	rep.Note("%s: %d instances, %d successful opens of regular files verified by reading their content through the mount", name, w.nInst, w.readOK)
	if w.readOK == 0 {
		rep.Violate(hx.Violation{Kind: "impl-violation", Signature: "C17:no-read-through-mount-succeeded-on-" + name,
			What: "not a single open+read through the mount succeeded: reading does not keep working", Input: name})
	}
}

// replay re-runs the histories / flag words of a replay file written by ./check.
func replay(path string) {
	if !filepath.IsAbs(path) { // the driver runs the harness from harness/: relative paths are relative to the check root
		if _, err := os.Stat(path); err != nil {
			path = filepath.Join(os.Getenv("VERIF_ROOT"), path)
		}
	}
	raw, err := os.ReadFile(path)
	if err != nil {
		hx.Fatal("replay: %v", err)
	}
	var rp struct {
		Impl []struct {
			Input json.RawMessage `json:"input"`
		} `json:"impl_violations"`
	}
	if err := json.Unmarshal(raw, &rp); err != nil {
		hx.Fatal("replay: %v", err)
	}
	n := 0
	for i, v := range rp.Impl {
		var in struct {
			World   string  `json:"world"`
			History []opRec `json:"history"`
		}
		if json.Unmarshal(v.Input, &in) == nil && in.World != "" && len(in.History) > 0 {
			w := newWorld(in.World, 900+i)
			rep.Case(historyKey(in.World, in.History))
			w.run(in.History, "replay")
			w.close()
			n++
		}
	}
	rep.Note("replayed %d recorded histories; flag-word witnesses are re-checked by the exhaustive sweep", n)
	sweepOflags()
}

func main() {
	flag.Parse()
	if *hx.Work == "" {
		hx.Fatal("-work is required (scratch directory)")
	}
	must(os.MkdirAll(*hx.Work, 0o755))
	orc = hx.StartOracle()
	defer orc.Close()
	rep = hx.NewReport("C17", "exhaustive: all 2^13 Oflag words (+1200 words with undeclared/high bits) through the real ReadFS.OpenFile over a recording FS and over a real directory; every sys.FS/sys.File method on the real wrappers; all dirflags{0,1} x oflags 0..15 x fdflags 0..31 x 6 rights patterns (thorough: + out-of-range bits) through the real path_open per mount kind (read-only dir, recording read-only dir, os.DirFS, fstest.MapFS) and path; every mutating WASI call singly over a grid of descriptors, paths, sizes, times and flags; seeded random histories over 29 WASI calls. distinct = distinct flag word / (mount kind, path, flags) / (mount kind, history hash)")
	rep.Exhaustive = true
	if *hx.Replay != "" {
		replay(*hx.Replay)
		rep.Write(orc)
		return
	}
	sweepOflags()
	sweepMethods()
	cliStage()
	worlds := []string{"ro-dir", "rec-dir", "gofs-osdir", "gofs-mapfs", "ro-dir-derived", "ro-dir-host-bits", "gofs-dualview"}
	var wg sync.WaitGroup
	for i, name := range worlds {
		copies := 1
		for c := 0; c < copies; c++ {
			wg.Add(1)
			go func(name string, idx int) {
				defer wg.Done()
				runWorld(name, idx, *hx.Seed)
			}(name, i*10+c)
		}
	}
	wg.Wait()
	rep.Sample(map[string]any{"oflag": 16, "model": ask("c17 open 16")})
	rep.Sample(map[string]any{"path_open": "dirflags=1 oflags=CREAT rights=FD_READ", "model": ask("c17 pathopen 1 1 0 2")})
	rep.Write(orc)
}
