package main

// CLI stage (tie C): "a directory mounted read-only" is also what `wazero run -mount=<dir>[:<guest path>]:ro` makes.
// The command-line parser is a second place (besides FSConfig.WithReadOnlyDirMount) that decides whether the ReadFS
// wrapper goes in front of a directory.  The wazero command is built from the tree under test and runs a guest that
// tries every kind of mutation through the pre-open (create a directory, create + write a file, truncate, unlink,
// rename, change times) and exits with a bit per call that SUCCEEDED; for every documented form of a read-only mount,
// on both engines, the exit code must be 0 and the host directory unchanged; the writable forms are the control
// (the guest's calls do succeed there - the guest is able to mutate).

import (
	"bytes"
	"fmt"
	"os"
	"os/exec"
	"path/filepath"
	"strings"

	"github.com/tetratelabs/wazero/internal/wasm"
	"github.com/tetratelabs/wazero/verifharness/hx"
	"github.com/tetratelabs/wazero/verifharness/wb"
)

// cliGuest: _start performs the mutations relative to fd 3 and calls proc_exit(mask of the calls that returned 0).
func cliGuest() []byte {
	m := wb.New()
	w := "wasi_snapshot_preview1"
	mkdir := m.ImportFunc(w, "path_create_directory", []byte{i32, i32, i32}, []byte{i32})
	popen := m.ImportFunc(w, "path_open", []byte{i32, i32, i32, i32, i32, wb.I64, wb.I64, i32, i32}, []byte{i32})
	fdwrite := m.ImportFunc(w, "fd_write", []byte{i32, i32, i32, i32}, []byte{i32})
	unlink := m.ImportFunc(w, "path_unlink_file", []byte{i32, i32, i32}, []byte{i32})
	rename := m.ImportFunc(w, "path_rename", []byte{i32, i32, i32, i32, i32, i32}, []byte{i32})
	settimes := m.ImportFunc(w, "path_filestat_set_times", []byte{i32, i32, i32, i32, wb.I64, wb.I64, i32}, []byte{i32})
	exit := m.ImportFunc(w, "proc_exit", []byte{i32}, nil)
	m.Memory(1, nil, false, "memory")
	// data: "newdir" @100 (6), "created.txt" @120 (11), "file.txt" @140 (8), "renamed" @160 (7), payload "pwned" @200, iovec @300
	put := func(off int32, s string) []byte {
		var b []byte
		for i := 0; i < len(s); i++ {
			b = append(b, wb.Cat(wb.I32Const(off+int32(i)), wb.I32Const(int32(s[i])), wb.MemArg(wasm.OpcodeI32Store8, 0, 0))...)
		}
		return b
	}
	acc := func(bit int32, call []byte) []byte { // local0 |= bit if call returned 0
		return wb.Cat(call, wb.Op(wasm.OpcodeI32Eqz), wb.Op(wasm.OpcodeIf, 0x40), wb.LocalGet(0), wb.I32Const(bit), wb.Op(wasm.OpcodeI32Or), wb.LocalSet(0), wb.Op(wasm.OpcodeEnd))
	}
	body := wb.Cat(put(100, "newdir"), put(120, "created.txt"), put(140, "file.txt"), put(160, "renamed"), put(200, "pwned"),
		wb.I32Const(300), wb.I32Const(200), wb.MemArg(wasm.OpcodeI32Store, 2, 0), wb.I32Const(304), wb.I32Const(5), wb.MemArg(wasm.OpcodeI32Store, 2, 0),
		acc(1, wb.Cat(wb.I32Const(3), wb.I32Const(100), wb.I32Const(6), wb.Call(mkdir))),
		// path_open(3, 0, "created.txt", O_CREAT=1, rights FD_WRITE=64, 0, fdflags 0, &fd@400) then fd_write
		acc(2, wb.Cat(wb.I32Const(3), wb.I32Const(0), wb.I32Const(120), wb.I32Const(11), wb.I32Const(1), wb.I64Const(64), wb.I64Const(0), wb.I32Const(0), wb.I32Const(400), wb.Call(popen))),
		acc(4, wb.Cat(wb.I32Const(400), wb.MemArg(wasm.OpcodeI32Load, 2, 0), wb.I32Const(300), wb.I32Const(1), wb.I32Const(404), wb.Call(fdwrite))),
		// path_open(3, 0, "file.txt", O_TRUNC=8, rights FD_WRITE, ...)
		acc(8, wb.Cat(wb.I32Const(3), wb.I32Const(0), wb.I32Const(140), wb.I32Const(8), wb.I32Const(8), wb.I64Const(64), wb.I64Const(0), wb.I32Const(0), wb.I32Const(408), wb.Call(popen))),
		acc(16, wb.Cat(wb.I32Const(3), wb.I32Const(0), wb.I32Const(140), wb.I32Const(8), wb.I64Const(1), wb.I64Const(1), wb.I32Const(5), wb.Call(settimes))), // ATIM|MTIM
		acc(32, wb.Cat(wb.I32Const(3), wb.I32Const(140), wb.I32Const(8), wb.I32Const(3), wb.I32Const(160), wb.I32Const(7), wb.Call(rename))),
		acc(64, wb.Cat(wb.I32Const(3), wb.I32Const(140), wb.I32Const(8), wb.Call(unlink))),
		wb.LocalGet(0), wb.Call(exit))
	m.AddFunc(wb.Func{Locals: []byte{i32}, Body: body, Export: "_start"})
	return m.Bytes()
}

func cliStage() {
	repo := os.Getenv("VERIF_REPO")
	if repo == "" {
		repo = "/repo"
	}
	work := filepath.Join(*hx.Work, "c17-cli")
	must(os.MkdirAll(work, 0o755))
	defer os.RemoveAll(work)
	bin := filepath.Join(work, "wazero-cli")
	build := exec.Command("go", "build", "-o", bin, "./cmd/wazero")
	build.Dir = repo
	if out, err := build.CombinedOutput(); err != nil {
		rep.Count("cli-stage:skipped-cli-does-not-build")
		rep.Note("CLI stage skipped: `go build ./cmd/wazero` in %s failed: %v %s", repo, err, firstLineOf(string(out)))
		return
	}
	guest := filepath.Join(work, "guest.wasm")
	must(os.WriteFile(guest, cliGuest(), 0o644))
	dir := filepath.Join(work, "mnt")
	forms := []struct {
		name     string
		arg      func(d string) string
		readOnly bool
	}{
		{"<dir>:ro", func(d string) string { return d + ":ro" }, true},
		{"<dir>:/:ro", func(d string) string { return d + ":/:ro" }, true},
		{"<dir>:/data:ro", func(d string) string { return d + ":/data:ro" }, true},
		{"<dir>:<dir>:ro", func(d string) string { return d + ":" + d + ":ro" }, true},
		{"<dir>", func(d string) string { return d }, false},
		{"<dir>:/data", func(d string) string { return d + ":/data" }, false},
	}
	for _, f := range forms {
		for _, engine := range []string{"compiler", "interpreter"} {
			makeFixture(dir)
			before := snapDir(dir)
			args := []string{"run"}
			if engine == "interpreter" {
				args = append(args, "-interpreter")
			}
			args = append(args, "-mount="+f.arg(dir), guest)
			cmd := exec.Command(bin, args...)
			var out bytes.Buffer
			cmd.Stdout, cmd.Stderr = &out, &out
			err := cmd.Run()
			code := 0
			if ee, ok := err.(*exec.ExitError); ok {
				code = ee.ExitCode()
			} else if err != nil {
				hx.Fatal("cli stage: %v", err)
			}
			after := snapDir(dir)
			changed := fmt.Sprint(before) != fmt.Sprint(after)
			rep.Case(fmt.Sprintf("cli/%s/%s", f.name, engine))
			input := map[string]any{"stage": "wazero CLI", "mount_form": "-mount=" + f.name, "engine": engine, "guest": "mkdir, create+write, truncate, set times, rename, unlink through fd 3; exit code = mask of the calls that succeeded"}
			switch {
			case code > 127 || strings.Contains(out.String(), "panic"):
				rep.Violate(hx.Violation{Kind: "impl-violation", Signature: "C17:cli-run-failed:" + f.name, What: fmt.Sprintf("wazero run -mount=%s ended with %d: %s", f.name, code, firstLineOf(out.String())), Input: input})
			case f.readOnly && (code != 0 || changed):
				rep.Violate(hx.Violation{Kind: "impl-violation", Signature: "C17:cli-read-only-mount-is-writable:" + f.name,
					What:  fmt.Sprintf("wazero run -mount=%s (%s): mutating WASI calls succeeded (mask %#x) and the host directory changed = %v", f.name, engine, code, changed),
					Input: input, Expected: "exit code 0, host directory unchanged", Actual: fmt.Sprintf("exit code %d, before %v, after %v", code, before, after)})
			case !f.readOnly && code == 0:
				rep.Count("cli-stage:control-guest-could-not-write-through-a-writable-mount") // the control lost its power: note, not a verdict
			default:
				rep.Count("cli-stage:ok")
			}
		}
	}
	removeTree(dir)
}

func firstLineOf(s string) string {
	s = strings.TrimSpace(s)
	if i := strings.IndexByte(s, '\n'); i >= 0 {
		s = s[:i]
	}
	if len(s) > 200 {
		s = s[:200]
	}
	return s
}
