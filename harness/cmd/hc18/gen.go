package main

// Generator of "WASI exerciser" guests for C18: per seed a random list of calls over all 46
// wasi_snapshot_preview1 imports with valid small arguments, compiled into one straight-line guest
// function `run` (with a counted loop around calls that are repeated). Every call owns a 512-byte
// slot of guest memory for its inputs and outputs; the errno of call i is stored at 4*i.

import (
	"encoding/binary"
	"fmt"
	"math/rand"
	"strings"

	"github.com/tetratelabs/wazero/internal/wasm"
	"github.com/tetratelabs/wazero/verifharness/wb"
)

const (
	slotBase  = 8192
	slotSize  = 512
	maxCalls  = 200
	memPages  = 2
	guestMark = "GUEST-OUT-MARK-c18"
	// progressAt holds the 1-based index of the last call the guest started (a trap or proc_exit
	// ends the run there).
	progressAt = 4092
	// longSleepNs: the long poll_oneoff timeout (in a few programs only, so that an implementation
	// that really sleeps is detected in bounded time)
	longSleepNs = 400_000_000
)

type fnDef struct {
	Name   string
	Params string // i = i32, I = i64
	NoRes  bool
}

var fns = []fnDef{
	{"args_get", "ii", false}, {"args_sizes_get", "ii", false},
	{"environ_get", "ii", false}, {"environ_sizes_get", "ii", false},
	{"clock_res_get", "ii", false}, {"clock_time_get", "iIi", false},
	{"fd_advise", "iIIi", false}, {"fd_allocate", "iII", false}, {"fd_close", "i", false},
	{"fd_datasync", "i", false}, {"fd_fdstat_get", "ii", false}, {"fd_fdstat_set_flags", "ii", false},
	{"fd_fdstat_set_rights", "iII", false}, {"fd_filestat_get", "ii", false},
	{"fd_filestat_set_size", "iI", false}, {"fd_filestat_set_times", "iIIi", false},
	{"fd_pread", "iiiIi", false}, {"fd_prestat_get", "ii", false}, {"fd_prestat_dir_name", "iii", false},
	{"fd_pwrite", "iiiIi", false}, {"fd_read", "iiii", false}, {"fd_readdir", "iiiIi", false},
	{"fd_renumber", "ii", false}, {"fd_seek", "iIii", false}, {"fd_sync", "i", false}, {"fd_tell", "ii", false},
	{"fd_write", "iiii", false},
	{"path_create_directory", "iii", false}, {"path_filestat_get", "iiiii", false},
	{"path_filestat_set_times", "iiiiIIi", false}, {"path_link", "iiiiiii", false},
	{"path_open", "iiiiiIIii", false}, {"path_readlink", "iiiiii", false},
	{"path_remove_directory", "iii", false}, {"path_rename", "iiiiii", false},
	{"path_symlink", "iiiii", false}, {"path_unlink_file", "iii", false},
	{"poll_oneoff", "iiii", false}, {"proc_exit", "i", true}, {"proc_raise", "i", false},
	{"random_get", "ii", false}, {"sched_yield", "", false},
	{"sock_accept", "iii", false}, {"sock_recv", "iiiiii", false}, {"sock_send", "iiiii", false},
	{"sock_shutdown", "ii", false},
}

func fnIndex(name string) int {
	for i, f := range fns {
		if f.Name == name {
			return i
		}
	}
	panic("no fn " + name)
}

type memw struct {
	Off   uint32 `json:"off"`
	Bytes []byte `json:"bytes"`
}

// callSpec is one guest call: real arguments, the guest stores done before it, and the abstract
// call line for the Lean model.
type callSpec struct {
	Fn    string   `json:"fn"`
	Args  []uint64 `json:"args"`
	Pre   []memw   `json:"pre,omitempty"`
	Rep   int      `json:"rep"`
	Model string   `json:"model"` // "<fn> <numbers...>" for `c18 call`
}

type program struct {
	Idx   int        `json:"idx"`
	Calls []callSpec `json:"calls"`
	Wasm  []byte     `json:"wasm,omitempty"`
	// Route: how the guest reaches the WASI functions: "" = direct calls; "indirect" = call_indirect through a table
	// holding the imports; ViaApp: `run` is not called by the embedder but by ANOTHER guest module (`app`, instantiated
	// with a rich, non-default configuration) that imports it: the default-configured module's calls are still its own.
	Route  string `json:"route,omitempty"`
	ViaApp bool   `json:"via_app,omitempty"`
}

func le32(v uint32) []byte { b := make([]byte, 4); binary.LittleEndian.PutUint32(b, v); return b }
func le64(v uint64) []byte { b := make([]byte, 8); binary.LittleEndian.PutUint64(b, v); return b }

var fdChoices = []uint32{0, 0, 1, 1, 2, 2, 3, 3, 4, 5, 7, 100}
var relPaths = []string{"a", "f.txt", "dir/f", "x/y/z", ".", "etc/passwd", "tmp"}

type genCtx struct {
	r         *rand.Rand
	s         uint32 // slot base
	allowTrap bool   // may generate the call that is known to end the run with a host panic
	bigSleep  int    // how many long (0.4 s) poll_oneoff timeouts may still be generated
}

func (g *genCtx) fd() uint32 { return fdChoices[g.r.Intn(len(fdChoices))] }

// iovecs builds n iovecs in the slot (at +128) pointing into the data area (+288..+512).
func (g *genCtx) iovecs(fillMark bool) (pre []memw, n int, model string) {
	n = g.r.Intn(4)
	iov := []byte{}
	doff := g.s + 288
	var sb strings.Builder
	for k := 0; k < n; k++ {
		l := uint32([]int{0, 1, 7, 18, 40}[g.r.Intn(5)])
		iov = append(iov, le32(doff)...)
		iov = append(iov, le32(l)...)
		fmt.Fprintf(&sb, " %d %d", doff, l)
		if fillMark && l > 0 {
			data := []byte(strings.Repeat(guestMark, 3))[:l]
			pre = append(pre, memw{doff, data})
		}
		doff += l
	}
	if n > 0 {
		pre = append(pre, memw{g.s + 128, iov})
	}
	return pre, n, fmt.Sprintf("%d%s", n, sb.String())
}

func (g *genCtx) path(at uint32) (memw, uint32) {
	p := relPaths[g.r.Intn(len(relPaths))]
	return memw{at, []byte(p)}, uint32(len(p))
}

// gen makes one call of function fi into slot s.
func (g *genCtx) gen(fi int) callSpec {
	s := g.s
	name := fns[fi].Name
	c := callSpec{Fn: name, Rep: 1}
	u := func(v ...uint64) { c.Args = v }
	switch name {
	case "args_get", "environ_get":
		u(uint64(s), uint64(s+288))
		c.Model = fmt.Sprintf("%s %d %d", name, s, s+288)
	case "args_sizes_get", "environ_sizes_get":
		// poison the result words first so that "0 written" is visible
		c.Pre = []memw{{s, le32(0xdeadbeef)}, {s + 8, le32(0xdeadbeef)}}
		u(uint64(s), uint64(s+8))
		c.Model = fmt.Sprintf("%s %d %d", name, s, s+8)
	case "clock_res_get":
		id := []uint64{0, 1, 0, 1, 2, 3, 9}[g.r.Intn(7)]
		u(id, uint64(s))
		c.Model = fmt.Sprintf("%s %d %d", name, id, s)
	case "clock_time_get":
		id := []uint64{0, 1, 0, 1, 0, 1, 2, 3, 9}[g.r.Intn(9)]
		u(id, uint64(g.r.Intn(3))*1000, uint64(s))
		c.Model = fmt.Sprintf("%s %d %d", name, id, s)
		c.Rep = []int{1, 1, 2, 5, 33, 1000, 2500}[g.r.Intn(7)]
	case "random_get":
		l := []uint32{0, 1, 3, 8, 17, 64, 200}[g.r.Intn(7)]
		u(uint64(s+288), uint64(l))
		c.Model = fmt.Sprintf("%s %d %d", name, s+288, l)
		c.Rep = []int{1, 1, 2, 7, 100}[g.r.Intn(5)]
	case "sched_yield":
		c.Model = name
		c.Rep = 1 + g.r.Intn(3)
	case "proc_raise":
		sig := uint64(g.r.Intn(30))
		u(sig)
		c.Model = fmt.Sprintf("%s %d", name, sig)
	case "proc_exit":
		code := uint64(g.r.Intn(4))
		u(code)
		c.Model = fmt.Sprintf("%s %d", name, code)
	case "fd_read", "fd_write", "fd_pread", "fd_pwrite":
		fd := g.fd()
		pre, n, m := g.iovecs(strings.HasSuffix(name, "write"))
		c.Pre = append(pre, memw{s, le32(0xdeadbeef)})
		if name == "fd_pread" || name == "fd_pwrite" {
			u(uint64(fd), uint64(s+128), uint64(n), uint64(g.r.Intn(100)), uint64(s))
		} else {
			u(uint64(fd), uint64(s+128), uint64(n), uint64(s))
		}
		c.Model = fmt.Sprintf("%s %d %d %s", name, fd, s, m)
	case "poll_oneoff":
		n := 1 + g.r.Intn(2)
		var sub []byte
		var sb strings.Builder
		for k := 0; k < n; k++ {
			ud := g.r.Uint64()
			one := make([]byte, 48)
			copy(one, le64(ud))
			switch g.r.Intn(4) {
			case 0, 1: // clock
				one[8] = 0
				cid := uint32(g.r.Intn(2))
				to := []uint64{0, 1, 1000, 250_000}[g.r.Intn(4)]
				if g.bigSleep > 0 && g.r.Intn(3) == 0 {
					g.bigSleep--
					to = longSleepNs // must not really sleep
				}
				fl := []uint16{0, 0, 0, 1, 2}[g.r.Intn(5)]
				copy(one[16:], le32(cid))
				copy(one[24:], le64(to))
				binary.LittleEndian.PutUint16(one[40:], fl)
				fmt.Fprintf(&sb, " %d 0 %d %d %d", ud, cid, to, fl)
			case 2:
				one[8] = 1
				fd := g.fd()
				copy(one[16:], le32(fd))
				fmt.Fprintf(&sb, " %d 1 %d 0 0", ud, fd)
			default:
				one[8] = 2
				fd := g.fd()
				copy(one[16:], le32(fd))
				fmt.Fprintf(&sb, " %d 2 %d 0 0", ud, fd)
			}
			sub = append(sub, one...)
		}
		c.Pre = []memw{{s + 128, sub}, {s, le32(0xdeadbeef)}}
		u(uint64(s+128), uint64(s+224), uint64(n), uint64(s))
		c.Model = fmt.Sprintf("%s %d %d %d%s", name, s+224, s, n, sb.String())
	case "fd_prestat_get", "fd_fdstat_get", "fd_filestat_get", "fd_tell":
		fd := g.fd()
		c.Pre = []memw{{s + 16, le64(0xdeadbeefdeadbeef)}}
		u(uint64(fd), uint64(s+16))
		c.Model = fmt.Sprintf("%s %d %d", name, fd, s+16)
	case "fd_prestat_dir_name":
		fd := g.fd()
		l := uint32(g.r.Intn(3))
		u(uint64(fd), uint64(s+288), uint64(l))
		c.Model = fmt.Sprintf("%s %d %d %d", name, fd, s+288, l)
	case "fd_close", "fd_datasync", "fd_sync":
		fd := g.fd()
		u(uint64(fd))
		c.Model = fmt.Sprintf("%s %d", name, fd)
	case "fd_advise":
		fd := g.fd()
		adv := uint64(g.r.Intn(8))
		u(uint64(fd), 0, uint64(g.r.Intn(100)), adv)
		c.Model = fmt.Sprintf("%s %d %d", name, fd, adv)
	case "fd_allocate":
		fd := g.fd()
		off, l := uint64(g.r.Intn(2)*5), uint64(g.r.Intn(2)*7)
		u(uint64(fd), off, l)
		c.Model = fmt.Sprintf("%s %d %d %d", name, fd, off, l)
	case "fd_fdstat_set_flags":
		fd := g.fd()
		fl := []uint64{0, 1, 4, 2, 8, 16, 5}[g.r.Intn(7)]
		u(uint64(fd), fl)
		c.Model = fmt.Sprintf("%s %d %d", name, fd, fl)
	case "fd_fdstat_set_rights":
		fd := g.fd()
		u(uint64(fd), uint64(g.r.Intn(1000)), uint64(g.r.Intn(1000)))
		c.Model = fmt.Sprintf("%s %d", name, fd)
	case "fd_filestat_set_size":
		fd := g.fd()
		sz := uint64(g.r.Intn(100))
		u(uint64(fd), sz)
		c.Model = fmt.Sprintf("%s %d %d", name, fd, sz)
	case "fd_filestat_set_times":
		fd := g.fd()
		fl := []uint64{0, 1, 2, 4, 8, 5, 10, 3, 12, 9, 6, 14, 7}[g.r.Intn(13)]
		if !g.allowTrap && fd <= 2 {
			// an open stdio descriptor with valid flags ends in a nil dereference inside the host
			// function (f.FS.Utimens on an entry without FS): only generated as a last call
			if g.r.Intn(2) == 0 {
				fd = []uint32{3, 4, 5, 7, 100}[g.r.Intn(5)]
			} else {
				fl = []uint64{3, 12, 14, 7, 15, 13}[g.r.Intn(6)]
			}
		}
		u(uint64(fd), uint64(g.r.Intn(1000)), uint64(g.r.Intn(1000)), fl)
		c.Model = fmt.Sprintf("%s %d %d", name, fd, fl)
	case "fd_readdir":
		fd := g.fd()
		bl := []uint64{0, 10, 24, 100}[g.r.Intn(4)]
		c.Pre = []memw{{s, le32(0xdeadbeef)}}
		u(uint64(fd), uint64(s+288), bl, uint64(g.r.Intn(3)), uint64(s))
		c.Model = fmt.Sprintf("%s %d %d", name, fd, bl)
	case "fd_renumber":
		fd, to := g.fd(), g.fd()
		u(uint64(fd), uint64(to))
		c.Model = fmt.Sprintf("%s %d %d", name, fd, to)
	case "fd_seek":
		fd := g.fd()
		c.Pre = []memw{{s + 16, le64(0xdeadbeefdeadbeef)}}
		u(uint64(fd), uint64(g.r.Intn(10)), uint64(g.r.Intn(3)), uint64(s+16))
		c.Model = fmt.Sprintf("%s %d %d", name, fd, s+16)
	case "path_create_directory", "path_remove_directory", "path_unlink_file":
		fd := g.fd()
		p, l := g.path(s + 96)
		c.Pre = []memw{p}
		u(uint64(fd), uint64(s+96), uint64(l))
		c.Model = fmt.Sprintf("%s %d", name, fd)
	case "path_filestat_get":
		fd := g.fd()
		p, l := g.path(s + 96)
		c.Pre = []memw{p}
		u(uint64(fd), uint64(g.r.Intn(2)), uint64(s+96), uint64(l), uint64(s+16))
		c.Model = fmt.Sprintf("%s %d", name, fd)
	case "path_filestat_set_times":
		fd := g.fd()
		p, l := g.path(s + 96)
		c.Pre = []memw{p}
		fl := []uint64{0, 1, 4, 5, 2, 8, 10, 3, 12, 14, 6, 9}[g.r.Intn(12)]
		u(uint64(fd), uint64(g.r.Intn(2)), uint64(s+96), uint64(l), 5, 6, fl)
		c.Model = fmt.Sprintf("%s %d %d", name, fd, fl)
	case "path_link", "path_rename":
		fd, fd2 := g.fd(), g.fd()
		p, l := g.path(s + 96)
		p2, l2 := g.path(s + 112)
		c.Pre = []memw{p, p2}
		if name == "path_link" {
			u(uint64(fd), 0, uint64(s+96), uint64(l), uint64(fd2), uint64(s+112), uint64(l2))
		} else {
			u(uint64(fd), uint64(s+96), uint64(l), uint64(fd2), uint64(s+112), uint64(l2))
		}
		c.Model = fmt.Sprintf("%s %d %d", name, fd, fd2)
	case "path_open":
		fd := g.fd()
		p, l := g.path(s + 96)
		c.Pre = []memw{p, {s, le32(0xdeadbeef)}}
		u(uint64(fd), uint64(g.r.Intn(2)), uint64(s+96), uint64(l), uint64([]int{0, 1, 2, 8}[g.r.Intn(4)]),
			uint64(g.r.Uint32()), uint64(g.r.Uint32()), uint64(g.r.Intn(2)), uint64(s))
		c.Model = fmt.Sprintf("%s %d", name, fd)
	case "path_readlink":
		fd := g.fd()
		p, l := g.path(s + 96)
		c.Pre = []memw{p, {s, le32(0xdeadbeef)}}
		u(uint64(fd), uint64(s+96), uint64(l), uint64(s+288), 64, uint64(s))
		c.Model = fmt.Sprintf("%s %d", name, fd)
	case "path_symlink":
		fd := g.fd()
		p, l := g.path(s + 96)
		p2, l2 := g.path(s + 112)
		c.Pre = []memw{p, p2}
		u(uint64(s+96), uint64(l), uint64(fd), uint64(s+112), uint64(l2))
		c.Model = fmt.Sprintf("%s %d", name, fd)
	case "sock_accept":
		fd := g.fd()
		c.Pre = []memw{{s, le32(0xdeadbeef)}}
		u(uint64(fd), uint64(g.r.Intn(2)*4), uint64(s))
		c.Model = fmt.Sprintf("%s %d", name, fd)
	case "sock_recv":
		fd := g.fd()
		pre, n, _ := g.iovecs(false)
		c.Pre = pre
		u(uint64(fd), uint64(s+128), uint64(n), uint64(g.r.Intn(4)), uint64(s), uint64(s+8))
		c.Model = fmt.Sprintf("%s %d", name, fd)
	case "sock_send":
		fd := g.fd()
		pre, n, _ := g.iovecs(true)
		c.Pre = pre
		u(uint64(fd), uint64(s+128), uint64(n), 0, uint64(s))
		c.Model = fmt.Sprintf("%s %d", name, fd)
	case "sock_shutdown":
		fd := g.fd()
		u(uint64(fd), uint64(1+g.r.Intn(3)))
		c.Model = fmt.Sprintf("%s %d", name, fd)
	default:
		panic("gen: " + name)
	}
	return c
}

// genProgram: kind 0 = uniform over all imports; 1 = clock/random/poll heavy; 2 = stdio heavy
// (with closes); 3 = every import exactly once (coverage), shuffled.
func genProgram(r *rand.Rand, idx, kind int) program {
	g := &genCtx{r: r}
	if idx%8 == 1 || idx%8 == 2 {
		g.bigSleep = 1
	}
	p := program{Idx: idx}
	var seq []int
	exit := fnIndex("proc_exit")
	switch kind {
	case 3:
		for i := range fns {
			if i != exit {
				seq = append(seq, i)
			}
		}
		r.Shuffle(len(seq), func(a, b int) { seq[a], seq[b] = seq[b], seq[a] })
	default:
		n := 8 + r.Intn(60)
		var pool []int
		switch kind {
		case 1:
			for _, nm := range []string{"clock_time_get", "clock_time_get", "clock_res_get", "random_get", "random_get", "poll_oneoff", "sched_yield", "fd_filestat_set_times", "args_sizes_get", "environ_sizes_get"} {
				pool = append(pool, fnIndex(nm))
			}
		case 2:
			for _, nm := range []string{"fd_read", "fd_read", "fd_write", "fd_write", "fd_close", "fd_prestat_get", "fd_prestat_dir_name", "fd_fdstat_get", "fd_filestat_get", "poll_oneoff", "fd_pread", "fd_pwrite", "path_open", "sock_accept", "fd_renumber", "fd_seek"} {
				pool = append(pool, fnIndex(nm))
			}
		default:
			for i := range fns {
				if i != exit {
					pool = append(pool, i)
				}
			}
		}
		for k := 0; k < n; k++ {
			seq = append(seq, pool[r.Intn(len(pool))])
		}
	}
	trapLast := false
	switch r.Intn(8) {
	case 0, 1:
		seq = append(seq, exit)
	case 2:
		seq = append(seq, fnIndex("fd_filestat_set_times"))
		trapLast = true
	}
	for i, fi := range seq {
		g.s = slotBase + uint32(i)*slotSize
		g.allowTrap = trapLast && i == len(seq)-1
		p.Calls = append(p.Calls, g.gen(fi))
	}
	switch idx % 4 {
	case 1:
		p.Route = "indirect"
	case 2:
		p.ViaApp = true
	case 3:
		p.Route, p.ViaApp = "indirect", true
	}
	p.Wasm = buildWasmRoute(p.Calls, p.Route)
	return p
}

func buildWasm(calls []callSpec) []byte { return buildWasmRoute(calls, "") }

// appWasm: a module that imports <lib>.run and exports a run that calls it (the embedder's entry module of a ViaApp program).
func appWasm(lib string) []byte {
	m := wb.New()
	f := m.ImportFunc(lib, "run", nil, nil)
	m.AddFunc(wb.Func{Export: "run", Body: wb.Call(f)})
	return m.Bytes()
}

// buildWasm compiles the call list into a guest module importing all of wasi_snapshot_preview1.
func buildWasmRoute(calls []callSpec, route string) []byte {
	if len(calls) > maxCalls {
		panic("too many calls")
	}
	m := wb.New()
	for _, f := range fns {
		var ps []wasm.ValueType
		for _, ch := range f.Params {
			if ch == 'i' {
				ps = append(ps, wb.I32)
			} else {
				ps = append(ps, wb.I64)
			}
		}
		var rs []wasm.ValueType
		if !f.NoRes {
			rs = []wasm.ValueType{wb.I32}
		}
		m.ImportFunc("wasi_snapshot_preview1", f.Name, ps, rs)
	}
	mx := uint32(memPages)
	m.Memory(memPages, &mx, false, "memory")
	typeOf := make([]uint32, len(fns))
	if route == "indirect" {
		// table slot k holds import k
		n := uint32(len(fns))
		m.Table(n, &n)
		for k, f := range fns {
			var ps []wasm.ValueType
			for _, ch := range f.Params {
				if ch == 'i' {
					ps = append(ps, wb.I32)
				} else {
					ps = append(ps, wb.I64)
				}
			}
			var rs []wasm.ValueType
			if !f.NoRes {
				rs = []wasm.ValueType{wb.I32}
			}
			typeOf[k] = m.TypeIdx(ps, rs)
		}
	}
	var body []byte
	for i, c := range calls {
		fi := fnIndex(c.Fn)
		f := fns[fi]
		// guest stores of the inputs
		for _, w := range c.Pre {
			for k, b := range w.Bytes {
				if b == 0 {
					continue
				}
				body = append(body, wb.I32Const(int32(w.Off+uint32(k)))...)
				body = append(body, wb.I32Const(int32(b))...)
				body = append(body, wb.MemArg(wasm.OpcodeI32Store8, 0, 0)...)
			}
		}
		body = append(body, wb.I32Const(progressAt)...)
		body = append(body, wb.I32Const(int32(i+1))...)
		body = append(body, wb.MemArg(wasm.OpcodeI32Store, 2, 0)...)
		var one []byte
		if !f.NoRes {
			one = append(one, wb.I32Const(int32(4*i))...)
		}
		for k, ch := range f.Params {
			if ch == 'i' {
				one = append(one, wb.I32Const(int32(uint32(c.Args[k])))...)
			} else {
				one = append(one, wb.I64Const(int64(c.Args[k]))...)
			}
		}
		if route == "indirect" {
			one = append(one, wb.I32Const(int32(fi))...)
			one = append(one, wasm.OpcodeCallIndirect)
			one = append(one, wb.U32(typeOf[fi])...)
			one = append(one, 0)
		} else {
			one = append(one, wb.Call(uint32(fi))...)
		}
		if !f.NoRes {
			one = append(one, wb.MemArg(wasm.OpcodeI32Store, 2, 0)...)
		}
		if c.Rep <= 1 {
			body = append(body, one...)
		} else {
			// local0 = rep; loop { one; local0 -= 1; br_if local0 != 0 }
			body = append(body, wb.I32Const(int32(c.Rep))...)
			body = append(body, wb.LocalSet(0)...)
			body = append(body, wasm.OpcodeLoop, 0x40)
			body = append(body, one...)
			body = append(body, wb.LocalGet(0)...)
			body = append(body, wb.I32Const(1)...)
			body = append(body, wasm.OpcodeI32Sub)
			body = append(body, wb.LocalTee(0)...)
			body = append(body, wasm.OpcodeBrIf, 0)
			body = append(body, wasm.OpcodeEnd)
		}
	}
	m.AddFunc(wb.Func{Locals: []wasm.ValueType{wb.I32}, Body: body, Export: "run"})
	if route == "indirect" {
		items := make([]int64, len(fns))
		for k := range items {
			items[k] = int64(k)
		}
		return m.BytesWithSegments([]wb.Elem{{Offset: 0, Init: items}})
	}
	return m.Bytes()
}
