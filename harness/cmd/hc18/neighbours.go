package main

// Concurrent-neighbours stage.  "A WASI-only guest with the default configuration observes nothing of its host" includes
// the other guests of the same process: the WASI host functions are package-level values shared by every runtime and
// instance, so anything they keep between calls is shared by all of them.  A victim guest (own runtime, default
// configuration) repeats calls whose answer is fixed by its own arguments - fd_read on the empty default stdin and
// fd_write to the discarding default stdout, each with a LONG iovec array - while neighbours in other runtimes, on other
// goroutines, make the same calls with arrays that are valid only for their own, larger memories.  Every answer of
// the victim (errno, byte count) must be the one it gets when it runs alone.

import (
	"context"
	"fmt"
	"sync"
	"sync/atomic"
	"time"

	"github.com/tetratelabs/wazero"
	"github.com/tetratelabs/wazero/api"
	"github.com/tetratelabs/wazero/imports/wasi_snapshot_preview1"
	"github.com/tetratelabs/wazero/verifharness/hx"
	"github.com/tetratelabs/wazero/verifharness/wb"
)

func neighbourGuest(pages uint32) []byte {
	m := wb.New()
	w := "wasi_snapshot_preview1"
	p4 := []byte{wb.I32, wb.I32, wb.I32, wb.I32}
	rd := m.ImportFunc(w, "fd_read", p4, []byte{wb.I32})
	wr := m.ImportFunc(w, "fd_write", p4, []byte{wb.I32})
	m.Memory(pages, nil, false, "memory")
	for i, f := range []uint32{rd, wr} {
		m.AddFunc(wb.Func{Params: []byte{wb.I32, wb.I32}, Results: []byte{wb.I32}, Export: []string{"read", "write"}[i],
			Body: wb.Cat(wb.I32Const(int32(i)), wb.LocalGet(0), wb.LocalGet(1), wb.I32Const(8), wb.Call(f))})
	}
	return m.Bytes()
}

func neighboursStage() {
	ctx := context.Background()
	const n = 4000
	for _, engine := range []string{"interpreter", "compiler"} {
		mk := func(pages uint32) (wazero.Runtime, api.Module) {
			rc := wazero.NewRuntimeConfigCompiler()
			if engine == "interpreter" {
				rc = wazero.NewRuntimeConfigInterpreter()
			}
			rt := wazero.NewRuntimeWithConfig(ctx, rc)
			if _, err := wasi_snapshot_preview1.Instantiate(ctx, rt); err != nil {
				hx.Fatal("neighbours stage: %v", err)
			}
			mod, err := rt.InstantiateWithConfig(ctx, neighbourGuest(pages), wazero.NewModuleConfig())
			if err != nil {
				hx.Fatal("neighbours stage: %v", err)
			}
			return rt, mod
		}
		vrt, victim := mk(1)
		nrt, neighbour := mk(2)
		// victim: n-1 empty iovecs, then {64, 8}; neighbour: n iovecs {65600, 8} - outside the victim's memory
		for i := uint32(0); i < n; i++ {
			victim.Memory().WriteUint32Le(1024+8*i, 0)
			victim.Memory().WriteUint32Le(1024+8*i+4, 0)
			neighbour.Memory().WriteUint32Le(1024+8*i, 65600)
			neighbour.Memory().WriteUint32Le(1024+8*i+4, 8)
		}
		victim.Memory().WriteUint32Le(1024+8*(n-1), 64)
		victim.Memory().WriteUint32Le(1024+8*(n-1)+4, 8)
		call := func(m api.Module, fn string) string {
			res, err := m.ExportedFunction(fn).Call(ctx, 1024, n)
			if err != nil {
				return "error:" + err.Error()
			}
			cnt, _ := m.Memory().ReadUint32Le(8)
			return fmt.Sprintf("errno=%d n=%d", uint32(res[0]), cnt)
		}
		alone := map[string]string{"read": call(victim, "read"), "write": call(victim, "write")}
		var stop atomic.Bool
		var wg sync.WaitGroup
		wg.Add(1)
		go func() {
			defer wg.Done()
			for !stop.Load() {
				call(neighbour, "read")
				call(neighbour, "write")
			}
		}()
		deadline := time.Now().Add(1200 * time.Millisecond)
		calls, bad := 0, ""
		for time.Now().Before(deadline) && bad == "" {
			for _, fn := range []string{"read", "write"} {
				calls++
				if got := call(victim, fn); got != alone[fn] {
					bad = fmt.Sprintf("call %d: fd_%s answered %q, alone it answers %q", calls, fn, got, alone[fn])
					break
				}
			}
		}
		stop.Store(true)
		wg.Wait()
		vrt.Close(ctx)
		nrt.Close(ctx)
		rep.Case("neighbours/" + engine)
		rep.Count(fmt.Sprintf("neighbours:%s:victim-calls-bucket-%d", engine, calls/1000))
		if bad != "" {
			rep.Violate(hx.Violation{Kind: "impl-violation", Signature: "C18:guest-answer-depends-on-a-concurrent-neighbour:" + engine,
				What: "a default-configuration guest reading its empty stdin / writing its discarded stdout with a 4000-entry iovec array got another answer while a guest of ANOTHER runtime made the same calls on another goroutine: " + bad,
				Input: map[string]any{"stage": "concurrent neighbours", "engine": engine, "victim": "1 page; 3999 empty iovecs then {64,8}; fd_read(0,...) / fd_write(1,...)",
					"neighbour": "own runtime, 2 pages; 4000 iovecs {65600,8}; the same calls in a loop on another goroutine"},
				Expected: fmt.Sprint(alone), Actual: bad})
		}
	}
}
