// hc18: correspondence + monitor harness for C18 (default configuration exposes nothing of the host
// and runs reproducibly).
//
// Per seed a set of generated "WASI exerciser" guests (gen.go) is run under wazero.NewModuleConfig()
// defaults (no With… at all) in separate child processes (re-exec of this binary) that differ in
// environment variables, working directory, argv, TZ, GOMAXPROCS, standard input contents, start
// time (staggered) and engine; each child runs every guest in a fresh runtime, twice (two instances
// of one compiled module), in a child-specific order.
//
// Tie B: the memory image of the reference child (all errnos + all bytes written by the WASI calls)
// must equal the image computed from the Lean model's answers (`c18 call`), including the fake clock
// values, sizes, errnos and fd-table effects; random bytes are positions in the constant stream of
// platform.NewFakeRandSource handed to the model as an opaque parameter.
// Tie C (the property's predicate on the real code): the images of all children and of both
// instances are byte-identical; no image contains a string planted in the child's environment,
// argv, cwd or stdin; nothing the guest wrote to fd 1/2 reaches the child's real stdout/stderr;
// direct checks: fd_prestat_get(fd>=3)=EBADF, fd_read(0) reads 0 bytes, path_open/sock_accept fail,
// args/environ sizes are 0, k-th clock readings follow epoch+k*1ms / k*1ms, a 5 s poll_oneoff
// timeout does not sleep.
package main

import (
	"bytes"
	"context"
	crand "crypto/rand"
	"crypto/sha256"
	"encoding/binary"
	"encoding/hex"
	"encoding/json"
	"errors"
	"flag"
	"fmt"
	"io"
	"math/rand"
	"os"
	"os/exec"
	"path/filepath"
	"sort"
	"strconv"
	"strings"
	"sync"
	"time"

	"github.com/tetratelabs/wazero"
	"github.com/tetratelabs/wazero/api"
	"github.com/tetratelabs/wazero/experimental"
	"github.com/tetratelabs/wazero/imports/wasi_snapshot_preview1"
	"github.com/tetratelabs/wazero/internal/platform"
	"github.com/tetratelabs/wazero/sys"
	"github.com/tetratelabs/wazero/verifharness/hx"
)

var (
	childJob = flag.String("c18child", "", "child mode: job file")
	_        = flag.String("c18tag", "", "distinctive argv string planted by the parent (ignored)")
)

type job struct {
	Programs  []program `json:"programs"`
	Engine    string    `json:"engine"`
	OrderSeed int64     `json:"order_seed"`
	Out       string    `json:"out"`
	// CtxKind: what the embedder's context of the guest call carries.  Under default configuration (no
	// WithCloseOnContextDone) a deadline or value in it is none of the guest's business: "" (Background),
	// "timeout-1h", "timeout-1500ms" (shorter than the guest's 5 s poll_oneoff timeouts, longer than any run), "value"
	CtxKind string `json:"ctx_kind,omitempty"`
}

type ctxKey struct{}

type runResult struct {
	Idx       int    `json:"idx"`
	MemA      []byte `json:"mem_a"`
	MemB      []byte `json:"mem_b"`
	RestZeroA bool   `json:"rest_zero_a"`
	RestZeroB bool   `json:"rest_zero_b"`
	ErrA      string `json:"err_a"`
	ErrB      string `json:"err_b"`
	WallMsA   int64  `json:"wall_ms_a"`
	WallMsB   int64  `json:"wall_ms_b"`
}

type childOut struct {
	Results []runResult `json:"results"`
	Fault   string      `json:"fault,omitempty"`
}

// ---------------------------------------------------------------------------------------------
// child

func dumpLen(p program) uint32 { return slotBase + uint32(len(p.Calls))*slotSize }

func errString(err error) string {
	if err == nil {
		return ""
	}
	var ee *sys.ExitError
	if errors.As(err, &ee) {
		return fmt.Sprintf("exit %d", ee.ExitCode())
	}
	s := err.Error()
	if i := strings.IndexByte(s, '\n'); i >= 0 {
		s = s[:i]
	}
	return "error: " + s
}

func childMain() {
	raw, err := os.ReadFile(*childJob)
	if err != nil {
		fmt.Fprintln(os.Stderr, "child:", err)
		os.Exit(2)
	}
	var j job
	if err := json.Unmarshal(raw, &j); err != nil {
		fmt.Fprintln(os.Stderr, "child:", err)
		os.Exit(2)
	}
	order := rand.New(rand.NewSource(j.OrderSeed)).Perm(len(j.Programs))
	out := childOut{}
	slowRuns := 0
	ctx := context.Background()
	for _, pi := range order {
		p := j.Programs[pi]
		var rc wazero.RuntimeConfig
		if j.Engine == "compiler" {
			rc = wazero.NewRuntimeConfigCompiler()
		} else {
			rc = wazero.NewRuntimeConfigInterpreter()
		}
		rt := wazero.NewRuntimeWithConfig(ctx, rc)
		if _, err := wasi_snapshot_preview1.Instantiate(ctx, rt); err != nil {
			out.Fault = "wasi: " + err.Error()
			break
		}
		cm, err := rt.CompileModule(ctx, p.Wasm)
		if err != nil {
			out.Fault = "compile: " + err.Error()
			break
		}
		res := runResult{Idx: p.Idx}
		// two instances of the same module, each with a pristine default configuration
		// Half of the programs use ONE default configuration value for both instances (and a configuration
		// derived from it), the other half a pristine one each: the defaults must be per instance either way.
		cfgA, cfgB := wazero.NewModuleConfig(), wazero.NewModuleConfig()
		a, err := rt.InstantiateModule(ctx, cm, cfgA)
		if err != nil {
			out.Fault = "instantiate a: " + err.Error()
			break
		}
		switch pi % 4 {
		case 0:
			cfgB = cfgA
		case 1:
			cfgB = cfgA.WithName("") // derived after the first use of cfgA
		}
		b, err := rt.InstantiateModule(ctx, cm, cfgB)
		if err != nil {
			out.Fault = "instantiate b: " + err.Error()
			break
		}
		// ViaApp: the embedder calls another guest module, instantiated with a rich NON-default configuration, which
		// calls the default-configured module's run: whose context serves a WASI call is decided by whose code makes it
		entry := map[api.Module]api.Module{}
		if p.ViaApp {
			rich := wazero.NewModuleConfig().WithArgs("app", "--secret", "s3cr3t").WithEnv("APP_ENV", "leak").
				WithSysWalltime().WithSysNanotime().WithSysNanosleep().WithRandSource(crand.Reader).
				WithStdin(strings.NewReader("app stdin")).WithStdout(io.Discard).WithStderr(io.Discard)
			fail := false
			for k, lib := range []api.Module{a, b} {
				// (instances are anonymous: the app finds its library through an import resolver)
				lib := lib
				ictx := experimental.WithImportResolver(ctx, func(name string) api.Module {
					if name == "lib" {
						return lib
					}
					return nil
				})
				app, err := rt.InstantiateWithConfig(ictx, appWasm("lib"), rich.WithName(""))
				if err != nil {
					out.Fault = fmt.Sprintf("instantiate app %d: %v", k, err)
					fail = true
					break
				}
				entry[lib] = app
			}
			if fail {
				break
			}
		}
		// a default context never blocks; 20 s is > 1000x the slowest normal run
		call := func(m api.Module) (error, bool) {
			if e, ok := entry[m]; ok {
				m = e
			}
			done := make(chan error, 1)
			cctx, cancel := ctx, context.CancelFunc(func() {})
			switch j.CtxKind {
			case "timeout-1h":
				cctx, cancel = context.WithTimeout(ctx, time.Hour)
			case "timeout-1500ms":
				cctx, cancel = context.WithTimeout(ctx, 1500*time.Millisecond)
			case "value":
				cctx = context.WithValue(ctx, ctxKey{}, "embedder")
			}
			go func() { defer cancel(); _, e := m.ExportedFunction("run").Call(cctx); done <- e }()
			select {
			case e := <-done:
				return e, true
			case <-time.After(20 * time.Second):
				return nil, false
			}
		}
		t1 := time.Now()
		ea, fin := call(a)
		if !fin {
			out.Fault = fmt.Sprintf("hang %d", p.Idx)
			break
		}
		res.ErrA = errString(ea)
		t2 := time.Now()
		eb, fin := call(b)
		if !fin {
			out.Fault = fmt.Sprintf("hang %d", p.Idx)
			break
		}
		res.ErrB = errString(eb)
		res.WallMsA, res.WallMsB = t2.Sub(t1).Milliseconds(), time.Since(t2).Milliseconds()
		if res.WallMsA >= longSleepNs/1e6*9/10 {
			slowRuns++
		}
		if slowRuns >= 12 {
			// every long timeout so far was really slept: stop, the parent reports it
			out.Fault = "real-sleep"
			break
		}
		n := dumpLen(p)
		grab := func(mem []byte) ([]byte, bool) {
			rest := true
			for _, x := range mem[n:] {
				if x != 0 {
					rest = false
					break
				}
			}
			return append([]byte{}, mem[:n]...), rest
		}
		ma, ok1 := a.Memory().Read(0, memPages*65536)
		mb, ok2 := b.Memory().Read(0, memPages*65536)
		if !ok1 || !ok2 {
			out.Fault = "memory read failed"
			break
		}
		res.MemA, res.RestZeroA = grab(ma)
		res.MemB, res.RestZeroB = grab(mb)
		out.Results = append(out.Results, res)
		rt.Close(ctx)
	}
	sort.Slice(out.Results, func(a, b int) bool { return out.Results[a].Idx < out.Results[b].Idx })
	bs, _ := json.Marshal(out)
	if err := os.WriteFile(j.Out, bs, 0o644); err != nil {
		fmt.Fprintln(os.Stderr, "child:", err)
		os.Exit(2)
	}
}

// ---------------------------------------------------------------------------------------------
// parent

type variant struct {
	ID       int      `json:"id"`
	Engine   string   `json:"engine"`
	Secrets  []string `json:"secrets"`
	TZ       string   `json:"tz"`
	MaxProcs int      `json:"gomaxprocs"`
	DelayMs  int      `json:"delay_ms"`
	CtxKind  string   `json:"ctx_kind,omitempty"`
	out      childOut
	stdout   []byte
	stderr   []byte
	started  time.Time
}

var (
	orc *hx.Oracle
	rep *hx.Report
)

func secret(r *rand.Rand, tag string) string {
	const al = "ABCDEFGHJKLMNPQRSTUVWXYZ"
	b := make([]byte, 10)
	for i := range b {
		b[i] = al[r.Intn(len(al))]
	}
	return "C18" + tag + string(b)
}

func runChild(v *variant, progs []program, dir string) {
	self, err := os.Executable()
	if err != nil {
		hx.Fatal("executable: %v", err)
	}
	jobPath := filepath.Join(dir, fmt.Sprintf("job-%d.json", v.ID))
	outPath := filepath.Join(dir, fmt.Sprintf("out-%d.json", v.ID))
	j := job{Programs: progs, Engine: v.Engine, OrderSeed: int64(v.ID) * 7919, Out: outPath, CtxKind: v.CtxKind}
	bs, _ := json.Marshal(j)
	if err := os.WriteFile(jobPath, bs, 0o644); err != nil {
		hx.Fatal("job: %v", err)
	}
	cwd := filepath.Join(dir, "cwd-"+v.Secrets[2])
	os.MkdirAll(cwd, 0o755)
	// a file in the cwd whose name and content are secrets: a default preopen of "." would show it
	os.WriteFile(filepath.Join(cwd, v.Secrets[4]), []byte(v.Secrets[4]), 0o644)
	time.Sleep(time.Duration(v.DelayMs) * time.Millisecond)
	cmd := hx.Supervised(exec.Command(self, "-c18child", jobPath, "-c18tag", v.Secrets[1]))
	cmd.Dir = cwd
	cmd.Env = []string{
		"PATH=" + os.Getenv("PATH"), "HOME=/nonexistent-" + v.Secrets[0],
		"C18_SECRET=" + v.Secrets[0], v.Secrets[0] + "=1", "TZ=" + v.TZ,
		"GOMAXPROCS=" + strconv.Itoa(v.MaxProcs), "GOMEMLIMIT=2GiB", "LANG=" + v.Secrets[0],
	}
	cmd.Stdin = strings.NewReader(strings.Repeat(v.Secrets[3]+"\n", 50))
	var so, se bytes.Buffer
	cmd.Stdout, cmd.Stderr = &so, &se
	v.started = time.Now()
	done := make(chan error, 1)
	if err := cmd.Start(); err != nil {
		hx.Fatal("child start: %v", err)
	}
	go func() { done <- cmd.Wait() }()
	select {
	case err := <-done:
		if err != nil {
			hx.Fatal("child %d failed: %v\n%s", v.ID, err, se.String())
		}
	case <-time.After(20 * time.Minute):
		cmd.Process.Kill()
		hx.Fatal("child %d timed out", v.ID)
	}
	v.stdout, v.stderr = so.Bytes(), se.Bytes()
	raw, err := os.ReadFile(outPath)
	if err != nil {
		hx.Fatal("child %d output: %v", v.ID, err)
	}
	if err := json.Unmarshal(raw, &v.out); err != nil {
		hx.Fatal("child %d output: %v", v.ID, err)
	}
	if v.out.Fault != "" && v.out.Fault != "real-sleep" && !strings.HasPrefix(v.out.Fault, "hang ") {
		hx.Fatal("child %d: %s", v.ID, v.out.Fault)
	}
	os.Remove(jobPath)
	os.Remove(outPath)
}

// modelImage asks the Lean model for the trace of the program and renders it as the expected memory
// image. hostSeed selects the (arbitrary) host record the model's default context is built over.
func modelImage(p program, id int, hostSeed int) (img []byte, exit string, lines []string) {
	img = make([]byte, dumpLen(p))
	if a := orc.Askf("c18 new %d %d", id, hostSeed); a != "ok" {
		hx.Fatal("oracle new: %s", a)
	}
	for i, c := range p.Calls {
		for _, w := range c.Pre {
			copy(img[w.Off:], w.Bytes)
		}
		binary.LittleEndian.PutUint32(img[progressAt:], uint32(i+1))
		ans := orc.Askf("c18 call %d %d %s", id, c.Rep, c.Model)
		lines = append(lines, ans)
		f := strings.Fields(ans)
		if len(f) == 0 {
			hx.Fatal("oracle: empty answer")
		}
		if f[0] == "exit" {
			return img, "exit " + f[1], lines
		}
		if f[0] == "panic" {
			return img, "panic", lines
		}
		errno, err := strconv.Atoi(f[0])
		if err != nil {
			hx.Fatal("oracle answer %q to %q", ans, c.Model)
		}
		for _, w := range f[1:] {
			k := strings.IndexByte(w, ':')
			addr, err1 := strconv.Atoi(w[:k])
			bs, err2 := hex.DecodeString(w[k+1:])
			if err1 != nil || err2 != nil {
				hx.Fatal("oracle answer %q", ans)
			}
			copy(img[addr:], bs)
		}
		binary.LittleEndian.PutUint32(img[4*i:], uint32(errno))
	}
	return img, "", lines
}

// firstDiff returns the index of the first call whose errno or slot differs (-1: only elsewhere).
func firstDiff(p program, a, b []byte) (int, string) {
	for i := range p.Calls {
		s := slotBase + i*slotSize
		if !bytes.Equal(a[4*i:4*i+4], b[4*i:4*i+4]) {
			return i, fmt.Sprintf("errno %d vs %d", binary.LittleEndian.Uint32(a[4*i:]), binary.LittleEndian.Uint32(b[4*i:]))
		}
		if !bytes.Equal(a[s:s+slotSize], b[s:s+slotSize]) {
			for k := 0; k < slotSize; k++ {
				if a[s+k] != b[s+k] {
					e := k + 24
					if e > slotSize {
						e = slotSize
					}
					return i, fmt.Sprintf("slot+%d: %x vs %x", k, a[s+k:s+e], b[s+k:s+e])
				}
			}
		}
	}
	return -1, "outside errno array and slots"
}

func u32at(m []byte, off uint32) uint32 { return binary.LittleEndian.Uint32(m[off:]) }
func u64at(m []byte, off uint32) uint64 { return binary.LittleEndian.Uint64(m[off:]) }

// directMonitor evaluates the property's clauses on one image, independently of the Lean model.
func directMonitor(p program, mem []byte, errStr string, who string) {
	const epoch = uint64(1640995200000) * 1000000
	wall, mono := uint64(0), uint64(0)
	open := [3]bool{true, true, true}
	bad := func(i int, sig, what string) {
		rep.Violate(hx.Violation{Kind: "impl-violation", Signature: "C18:" + sig, What: what + " (" + who + ")",
			Input: map[string]any{"program": p.Idx, "call_index": i, "call": p.Calls[i], "calls_before": p.Calls[:i]}})
	}
	last := int(u32at(mem, progressAt))
	if last > len(p.Calls) {
		last = len(p.Calls)
	}
	if errStr != "" {
		last-- // the call that exited or trapped stores nothing
	}
	for i := 0; i < last; i++ {
		c := p.Calls[i]
		errno := u32at(mem, uint32(4*i))
		a := c.Args
		switch c.Fn {
		case "clock_time_get":
			if a[0] == 0 || a[0] == 1 {
				got := u64at(mem, uint32(a[2]))
				var want uint64
				if a[0] == 0 {
					wall += uint64(c.Rep)
					want = epoch + (wall-1)*1000000
				} else {
					mono += uint64(c.Rep)
					want = (mono - 1) * 1000000
				}
				if errno != 0 || got != want {
					bad(i, fmt.Sprintf("clock-%d-reading-not-fixed-sequence", a[0]), fmt.Sprintf("clock_time_get(%d): errno %d value %d, the fixed sequence gives %d", a[0], errno, got, want))
				}
			}
		case "fd_filestat_set_times":
			// toTimes reads the wall clock once for a NOW flag, after the descriptor was found open
			if a[0] <= 2 && open[a[0]] && toTimesReads(a[3]) {
				wall++
			}
		case "path_filestat_set_times":
			if toTimesReads(a[6]) { // before the descriptor is looked at
				wall++
			}
			if errno == 0 {
				bad(i, c.Fn+"-succeeds", c.Fn+" succeeded under default configuration: a host file system is reachable")
			}
		case "fd_close":
			if a[0] <= 2 && errno == 0 {
				open[a[0]] = false
			}
		case "args_sizes_get", "environ_sizes_get":
			if errno != 0 || u32at(mem, uint32(a[0])) != 0 || u32at(mem, uint32(a[1])) != 0 {
				bad(i, c.Fn+"-not-empty", fmt.Sprintf("%s: errno %d count %d size %d", c.Fn, errno, u32at(mem, uint32(a[0])), u32at(mem, uint32(a[1]))))
			}
		case "fd_prestat_get":
			if a[0] >= 3 && errno != 8 {
				bad(i, "preopen-visible", fmt.Sprintf("fd_prestat_get(%d) = errno %d, want EBADF: a preopened directory exists", a[0], errno))
			}
		case "fd_read":
			if a[0] == 0 && open[0] && (errno != 0 || u32at(mem, uint32(a[3])) != 0) {
				bad(i, "stdin-not-empty", fmt.Sprintf("fd_read(0): errno %d nread %d", errno, u32at(mem, uint32(a[3]))))
			}
		case "path_open", "path_filestat_get", "path_readlink", "path_create_directory", "path_unlink_file",
			"path_remove_directory", "path_rename", "path_link", "path_symlink":
			if errno == 0 {
				bad(i, c.Fn+"-succeeds", c.Fn+" succeeded under default configuration: a host file system is reachable")
			}
		case "sock_accept", "sock_recv", "sock_send", "sock_shutdown":
			if errno == 0 {
				bad(i, c.Fn+"-succeeds", c.Fn+" succeeded under default configuration: a host socket is reachable")
			}
		case "fd_readdir":
			if errno == 0 {
				bad(i, "fd_readdir-succeeds", "fd_readdir succeeded under default configuration")
			}
		}
	}
}

func main() {
	flag.Parse()
	if *childJob != "" {
		childMain()
		return
	}
	orc = hx.StartOracle()
	defer orc.Close()
	rep = hx.NewReport("C18", "per seed: generated WASI-exerciser guests (kinds: uniform over all 46 imports / clock+random+poll heavy / stdio+close heavy / every import once; 8-70 calls, some repeated up to 2500x in a guest loop), each run twice (two instances) per child in (host-variant x engine) child processes differing in env, argv, cwd, TZ, stdin, GOMAXPROCS, start time; evaluation = one (program, child, instance) memory image compared with the reference child and monitored; distinct = distinct (guest binary hash, child, instance); every program is non-trivial (>= 8 WASI calls); per-function call counts and the model's answer classes are in the histogram")
	r := hx.Rand()
	if *hx.Work == "" {
		hx.Fatal("-work is required")
	}
	absWork, err := filepath.Abs(*hx.Work)
	if err != nil {
		hx.Fatal("work dir: %v", err)
	}
	dir := filepath.Join(absWork, "c18")
	if err := os.MkdirAll(dir, 0o755); err != nil {
		hx.Fatal("mkdir: %v", err)
	}
	defer os.RemoveAll(dir)

	nbatch, nprog, nhost := 1, 160, 4
	if hx.Thorough() {
		nbatch, nprog, nhost = 20, 240, 6
	}
	// the constant stream of the default random source, handed to the model as its opaque parameter
	stream := make([]byte, 262144)
	if _, err := io.ReadFull(platform.NewFakeRandSource(), stream); err != nil {
		hx.Fatal("fake rand: %v", err)
	}
	if a := orc.Ask("c18 rand " + hex.EncodeToString(stream)); a != "ok" {
		hx.Fatal("oracle rand: %s", a)
	}

	for batch := 0; batch < nbatch; batch++ {
		if stop := runBatch(r, batch, nprog, nhost, dir); stop {
			break
		}
	}
	neighboursStage()
	rep.Write(orc)
}

// runBatch generates nprog guests, runs them in 2*nhost fresh child processes and evaluates tie B and
// tie C on the results. It returns true when the run must stop (the children's results are partial).
func runBatch(r *rand.Rand, batch, nprog, nhost int, dir string) bool {
	var progs []program
	for i := 0; i < nprog; i++ {
		kind := i % 4
		p := genProgram(r, i, kind)
		// budget of the random stream handed to the model
		tot := 0
		for k := range p.Calls {
			if p.Calls[k].Fn == "random_get" {
				tot += p.Calls[k].Rep * int(p.Calls[k].Args[1])
				if tot > 200000 {
					hx.Fatal("random budget")
				}
			}
		}
		progs = append(progs, p)
		rep.Count(fmt.Sprintf("program-kind-%d", kind))
		for _, c := range p.Calls {
			rep.Count("call:" + c.Fn)
		}
	}

	var vars []*variant
	tzs := []string{"UTC", "Asia/Tokyo", "America/Los_Angeles", "Europe/Berlin", "Pacific/Chatham", "Asia/Kolkata"}
	for h := 0; h < nhost; h++ {
		for _, e := range []string{"interpreter", "compiler"} {
			v := &variant{ID: len(vars), Engine: e, TZ: tzs[(h+batch)%len(tzs)], MaxProcs: []int{1, 2, 4, 7}[(h+len(vars)+batch)%4], DelayMs: len(vars) * 41}
			v.CtxKind = []string{"", "timeout-1500ms", "value", "timeout-1h"}[v.ID%4]
			for _, tag := range []string{"ENV", "ARG", "CWD", "STDIN", "FILE"} {
				v.Secrets = append(v.Secrets, secret(r, tag))
			}
			vars = append(vars, v)
		}
	}
	var wg sync.WaitGroup
	for _, v := range vars {
		wg.Add(1)
		go func(v *variant) { defer wg.Done(); runChild(v, progs, dir) }(v)
	}
	wg.Wait()
	rep.Note("batch %d: children: %d (host variants %d x engines 2), programs %d, start times spread over %d ms", batch, len(vars), nhost, nprog, vars[len(vars)-1].DelayMs)

	// the model's trace of every program (tie B) and how long it asks the context to sleep
	type modelOut struct {
		img   []byte
		exit  string
		lines []string
		asked uint64
	}
	mo := make([]modelOut, len(progs))
	for pi, p := range progs {
		img, mexit, lines := modelImage(p, pi, pi)
		st := orc.Askf("c18 state %d", pi)
		var asked uint64
		for _, f := range strings.Fields(st) {
			if strings.HasPrefix(f, "asked=") {
				asked, _ = strconv.ParseUint(f[6:], 10, 64)
			}
		}
		orc.Askf("c18 drop %d", pi)
		mo[pi] = modelOut{img, mexit, lines, asked}
		for _, l := range lines {
			rep.Count("model-answer:" + strings.Fields(l)[0])
		}
	}
	// sleep monitor: a run whose model trace hands >= 0.4 s to Nanosleep must not take that long.
	// Flagged only when EVERY such run (at least 6, over all children and instances) took at least
	// 90 % of the asked time (normal: a few ms, so the threshold is > 50x the median).
	{
		slow, fast := 0, 0
		var first map[string]any
		for _, v := range vars {
			for _, vr := range v.out.Results {
				ask := mo[vr.Idx].asked
				if ask < longSleepNs {
					continue
				}
				for _, ms := range []int64{vr.WallMsA, vr.WallMsB} {
					if uint64(ms)*1_000_000 >= ask/10*9 {
						slow++
						if first == nil {
							first = map[string]any{"program": vr.Idx, "seed": *hx.Seed, "batch": batch, "calls": progs[vr.Idx].Calls, "asked_ns": ask, "took_ms": ms, "child": v.ID}
						}
					} else {
						fast++
					}
				}
			}
		}
		rep.Note("sleep monitor: %d runs with a long poll_oneoff timeout, %d of them took at least the timeout", slow+fast, slow)
		faulted := false
		for _, v := range vars {
			faulted = faulted || v.out.Fault == "real-sleep"
			if strings.HasPrefix(v.out.Fault, "hang ") {
				idx, _ := strconv.Atoi(v.out.Fault[5:])
				if mo[idx].asked < 20_000_000_000 {
					hx.Fatal("child %d: program %d did not finish within 20 s although its model trace asks for %d ns of sleep only", v.ID, idx, mo[idx].asked)
				}
				rep.Violate(hx.Violation{Kind: "impl-violation", Signature: "C18:poll_oneoff-really-sleeps",
					What:  fmt.Sprintf("program %d did not return within 20 s in child %d: its trace hands %d ns to the context's Nanosleep, which must be a no-op under default configuration", idx, v.ID, mo[idx].asked),
					Input: map[string]any{"program": idx, "seed": *hx.Seed, "batch": batch, "calls": progs[idx].Calls}})
				return true
			}
		}
		if slow >= 6 && fast == 0 {
			rep.Violate(hx.Violation{Kind: "impl-violation", Signature: "C18:poll_oneoff-really-sleeps",
				What:  fmt.Sprintf("every one of %d runs containing a %d ms poll_oneoff clock timeout really took that long: the default context sleeps for real", slow, longSleepNs/1000000),
				Input: first})
		}
		if faulted {
			if !(slow >= 6 && fast == 0) {
				hx.Fatal("a child stopped for real-sleep but the sleep monitor does not confirm (slow=%d fast=%d)", slow, fast)
			}
			return true
		}
	}

	ref := vars[0]
	sampled := 0
	for pi, p := range progs {
		// tie B: model image vs the reference child
		img, mexit, lines := mo[pi].img, mo[pi].exit, mo[pi].lines
		rr := ref.out.Results[pi]
		if rr.Idx != p.Idx {
			hx.Fatal("result order")
		}
		inp := func(i int) map[string]any {
			m := map[string]any{"program": p.Idx, "seed": *hx.Seed, "batch": batch, "calls": p.Calls}
			if i >= 0 {
				m = map[string]any{"program": p.Idx, "seed": *hx.Seed, "batch": batch, "call_index": i, "call": p.Calls[i], "calls_before": p.Calls[:i]}
			}
			return m
		}
		endOK := mexit == rr.ErrA || (mexit == "panic" && strings.HasPrefix(rr.ErrA, "error: ") && strings.Contains(rr.ErrA, "nil pointer dereference"))
		if !bytes.Equal(img, rr.MemA) || !endOK {
			i, d := firstDiff(p, img, rr.MemA)
			fn := "-"
			var ml string
			if i >= 0 {
				fn = p.Calls[i].Fn
				if i < len(lines) {
					ml = lines[i]
				}
			}
			rep.Violate(hx.Violation{Kind: "correspondence", Signature: "C18:model-differs:" + fn,
				What:  fmt.Sprintf("trace of the real code (engine %s) differs from the Lean model at call %d (%s): model vs real %s; end: model %q real %q", ref.Engine, i, fn, d, mexit, rr.ErrA),
				Input: inp(i), Expected: ml, Actual: d})
		}
		if !rr.RestZeroA {
			rep.Violate(hx.Violation{Kind: "impl-violation", Signature: "C18:write-outside-call-slots", What: "guest memory outside the errno array and the call slots was modified", Input: inp(-1)})
		}
		if sampled < 4 {
			sampled++
			n := len(p.Calls)
			if n > 6 {
				n = 6
			}
			var ss []string
			for i := 0; i < n; i++ {
				ss = append(ss, p.Calls[i].Model+" x"+strconv.Itoa(p.Calls[i].Rep)+" => "+trunc(lines[i], 80))
			}
			rep.Sample(map[string]any{"program": p.Idx, "ncalls": len(p.Calls), "first_calls_and_model_answers": ss, "end": rr.ErrA})
		}
		// a second model run over a different host record answers the same (theorem default_ignores_host,
		// exercised on the compiled model)
		img2, _, _ := modelImage(p, pi+100000, pi*31+7+batch)
		orc.Askf("c18 drop %d", pi+100000)
		if !bytes.Equal(img, img2) {
			rep.Violate(hx.Violation{Kind: "correspondence", Signature: "C18:model-depends-on-host", What: "the Lean model's default trace differs between two host records", Input: inp(-1)})
		}
		// tie C: all children, both instances
		for _, v := range vars {
			vr := v.out.Results[pi]
			if vr.Idx != p.Idx {
				hx.Fatal("result order")
			}
			who := fmt.Sprintf("child %d engine=%s TZ=%s GOMAXPROCS=%d started +%dms call-context=%q", v.ID, v.Engine, v.TZ, v.MaxProcs, v.DelayMs, v.CtxKind)
			for inst, m := range [][]byte{vr.MemA, vr.MemB} {
				es := []string{vr.ErrA, vr.ErrB}[inst]
				h := sha256.Sum256(p.Wasm)
				rep.Case(fmt.Sprintf("%d/%d/%x", v.ID, inst, h[:8]))
				if !bytes.Equal(m, rr.MemA) || es != rr.ErrA {
					i, d := firstDiff(p, rr.MemA, m)
					fn := "-"
					if i >= 0 {
						fn = p.Calls[i].Fn
					}
					sig := "C18:trace-differs-across-processes:" + fn
					if v == ref {
						sig = "C18:second-instance-differs:" + fn
					} else if v.Engine != ref.Engine && v.ID == 1 {
						sig = "C18:trace-differs-across-processes:" + fn
					}
					rep.Violate(hx.Violation{Kind: "impl-violation", Signature: sig,
						What:  fmt.Sprintf("trace differs at call %d (%s): reference child 0 instance A vs %s instance %c: %s; ends %q vs %q", i, fn, who, 'A'+inst, d, rr.ErrA, es),
						Input: inp(i), Expected: "identical traces", Actual: d})
				}
				for _, s := range v.Secrets {
					if bytes.Contains(m, []byte(s)) {
						rep.Violate(hx.Violation{Kind: "impl-violation", Signature: "C18:host-string-in-guest-memory:" + s[3:6],
							What: fmt.Sprintf("guest memory contains the string %q planted in the child's host environment (%s)", s, who), Input: inp(-1)})
					}
				}
				directMonitor(p, m, es, who)
			}
			if !vr.RestZeroA || !vr.RestZeroB {
				rep.Violate(hx.Violation{Kind: "impl-violation", Signature: "C18:write-outside-call-slots", What: "guest memory outside the errno array and the call slots was modified (" + who + ")", Input: inp(-1)})
			}
		}
	}
	for _, v := range vars {
		if bytes.Contains(v.stdout, []byte(guestMark[:8])) || bytes.Contains(v.stderr, []byte(guestMark[:8])) {
			var in any
			for _, p := range progs {
				for i, c := range p.Calls {
					if c.Fn == "fd_write" && (c.Args[0] == 1 || c.Args[0] == 2) && c.Args[2] > 0 && in == nil {
						in = map[string]any{"program": p.Idx, "seed": *hx.Seed, "batch": batch, "call_index": i, "call": c, "note": "first fd_write to fd 1/2 with data in this run; the child's stdout/stderr start with " + trunc(string(v.stdout)+string(v.stderr), 60)}
					}
				}
			}
			rep.Violate(hx.Violation{Kind: "impl-violation", Signature: "C18:guest-output-reaches-host-stdio",
				What:  fmt.Sprintf("bytes written by the guest to fd 1/2 appeared on the child's real stdout/stderr (child %d)", v.ID),
				Input: in})
		} else if len(v.stdout)+len(v.stderr) > 0 {
			rep.Violate(hx.Violation{Kind: "correspondence", Signature: "C18:child-printed-output",
				What: fmt.Sprintf("child %d printed %q %q", v.ID, trunc(string(v.stdout), 200), trunc(string(v.stderr), 200))})
		}
	}
	return false
}

// toTimesReads: does toTimes read the wall clock for these fst_flags (ATIM=1, ATIM_NOW=2, MTIM=4, MTIM_NOW=8)?
func toTimesReads(fl uint64) bool {
	aSet, aNow, mSet, mNow := fl&1 != 0, fl&2 != 0, fl&4 != 0, fl&8 != 0
	if aSet && aNow {
		return false
	}
	if mSet && mNow {
		return aNow
	}
	return aNow || mNow
}

func trunc(s string, n int) string {
	if len(s) > n {
		return s[:n] + "…"
	}
	return s
}
