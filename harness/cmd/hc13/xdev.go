package main

// Cross-device stage.  "An entry is either absent or complete under its final name" rests on rename(2) within ONE file
// system.  Where the cache directory lives is the embedder's choice: a tmpfs, a mounted volume, NFS - not necessarily the
// file system of os.TempDir().  The stage puts the cache directory on another file system than the process's temporary
// directory (/dev/shm vs the work directory; skipped when the machine has no second file system) and drives the real
// filecache directly: several writers add the SAME key (a multi-megabyte entry) again and again while a reader polls
// both the cache's Get and the final name: whatever it can open must be the complete entry.  Afterwards the cache
// directory holds the final file and nothing else, and the temporary directory holds nothing of ours.  The same run on
// a directory of the temporary directory's own file system is the control.

import (
	"bytes"
	"crypto/sha256"
	"fmt"
	"io"
	"os"
	"path/filepath"
	"sync"
	"syscall"

	"github.com/tetratelabs/wazero/internal/filecache"
	"github.com/tetratelabs/wazero/verifharness/hx"
)

func deviceOf(p string) (uint64, bool) {
	var st syscall.Stat_t
	if err := syscall.Stat(p, &st); err != nil {
		return 0, false
	}
	return uint64(st.Dev), true
}

func crossDeviceStage() {
	tmpBase := filepath.Join(*hx.Work, "hc13.d", "xdev-tmp")
	os.MkdirAll(tmpBase, 0o755)
	defer os.RemoveAll(tmpBase)
	oldTmp, hadTmp := os.LookupEnv("TMPDIR")
	os.Setenv("TMPDIR", tmpBase)
	defer func() {
		if hadTmp {
			os.Setenv("TMPDIR", oldTmp)
		} else {
			os.Unsetenv("TMPDIR")
		}
	}()
	tmpDev, ok1 := deviceOf(tmpBase)
	var places []struct{ name, dir string }
	places = append(places, struct{ name, dir string }{"same-file-system", filepath.Join(*hx.Work, "hc13.d", "xdev-cache")})
	if shmDev, ok2 := deviceOf("/dev/shm"); ok1 && ok2 && shmDev != tmpDev {
		places = append(places, struct{ name, dir string }{"other-file-system(/dev/shm)", filepath.Join("/dev/shm", fmt.Sprintf("hc13-xdev-%d", os.Getpid()))})
	} else {
		rep.Count("cross-device:skipped-no-second-file-system")
	}
	content := make([]byte, 12<<20)
	for i := range content {
		content[i] = byte(i*131 + i>>9)
	}
	want := sha256.Sum256(content)
	for _, pl := range places {
		os.RemoveAll(pl.dir)
		if err := os.MkdirAll(pl.dir, 0o755); err != nil {
			rep.Count("cross-device:skipped-cannot-create-" + pl.name)
			continue
		}
		cache := filecache.New(pl.dir)
		var key filecache.Key
		key[0], key[31] = 0xc1, 0x3d
		final := filepath.Join(pl.dir, fmt.Sprintf("%x", key[:]))
		var wg sync.WaitGroup
		var addErr []string
		var mu sync.Mutex
		for w := 0; w < 4; w++ {
			wg.Add(1)
			go func() {
				defer wg.Done()
				for k := 0; k < 5; k++ {
					if err := cache.Add(key, bytes.NewReader(content)); err != nil {
						mu.Lock()
						addErr = append(addErr, err.Error())
						mu.Unlock()
					}
				}
			}()
		}
		stop := make(chan struct{})
		var partial []string
		var polls int
		var rwg sync.WaitGroup
		rwg.Add(1)
		go func() {
			defer rwg.Done()
			check := func(how string, b []byte) {
				if sha256.Sum256(b) != want {
					if len(partial) < 5 {
						partial = append(partial, fmt.Sprintf("%s: %d of %d bytes", how, len(b), len(content)))
					}
				}
			}
			for {
				select {
				case <-stop:
					return
				default:
				}
				polls++
				if rc, ok, err := cache.Get(key); err == nil && ok {
					b, _ := io.ReadAll(rc)
					rc.Close()
					check("Cache.Get", b)
				}
				if b, err := os.ReadFile(final); err == nil {
					check("the final name", b)
				}
			}
		}()
		wg.Wait()
		close(stop)
		rwg.Wait()
		var left []string
		if es, err := os.ReadDir(pl.dir); err == nil {
			for _, e := range es {
				if filepath.Join(pl.dir, e.Name()) != final {
					left = append(left, e.Name())
				}
			}
		}
		var tmpLeft []string
		if es, err := os.ReadDir(tmpBase); err == nil {
			for _, e := range es {
				tmpLeft = append(tmpLeft, e.Name())
			}
		}
		os.RemoveAll(pl.dir)
		rep.Case("cross-device/" + pl.name)
		rep.Count(fmt.Sprintf("cross-device:%s:polls-bucket-%d", pl.name, polls/100))
		input := map[string]any{"stage": "cross device", "cache_directory": pl.name, "TMPDIR": "on the work directory's file system", "writers": 4, "adds_per_writer": 5, "entry_bytes": len(content)}
		switch {
		case len(partial) > 0:
			violate("impl-violation", "C13:reader-saw-incomplete-entry:cache-on-"+pl.name, "while writers added one key, a reader opened the entry (through Cache.Get / under its final name) and found something else than the complete entry", input, "absent or complete", partial)
		case len(addErr) > 0:
			violate("impl-violation", "C13:add-fails:cache-on-"+pl.name, "Cache.Add failed although nothing died and the directory is writable", input, "no error", addErr)
		case len(left) > 0 || len(tmpLeft) > 0:
			violate("impl-violation", "C13:leftover-files:cache-on-"+pl.name, "files left behind by writers none of which died", input, "the final file only", map[string]any{"cache_dir": left, "tmp_dir": tmpLeft})
		default:
			rep.Count("cross-device:ok")
		}
	}
}
