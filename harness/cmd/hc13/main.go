// hc13: correspondence + monitor harness for C13 (the on-disk compilation cache is deterministic and
// crash-safe).
//
// The real code runs in child processes (re-exec of this binary with -child …), so that a process may die
// at a named crash point of fileCache.Add (hook, build tag verif), may crash on a corrupted entry, or may
// hang, without taking the harness down.  Everything lives under -work.
//
// Tie B (model vs code):
//   - order of the steps of Add as observed through the hook trace vs the regenerated step list;
//   - directory state after a death at every crash point (and after a simulated power loss that drops
//     unsynced bytes) vs the state computed by the Lean file-system model;
//   - real cache entries vs `serialize` of the Lean model on the same fields, byte for byte;
//   - outcome of CompileModule on planted entries (every truncation length, rewritten versions, single-bit
//     flips) vs `deserialize`/`getFromCache` of the model: error class, stale → deleted and recompiled, hit.
//
// Tie C (the property's own predicate on the real code):
//   - after a death at any point the final name holds nothing or the complete entry, temp names never look
//     like final names, and a fresh runtime on that directory compiles afresh or hits a complete entry and
//     computes the same guest results as a cache-less run;
//   - a truncated entry or one written by another version is never used: CompileModule reports an error or
//     discards it and recompiles; results equal the cache-less run; a crash of the child is a violation;
//   - 8 concurrent writers of one key: readers only ever see no entry or the complete one;
//   - determinism: separate processes with different GOMAXPROCS produce byte-identical entries.
package main

import (
	"bytes"
	"context"
	"encoding/binary"
	"encoding/hex"
	"encoding/json"
	"errors"
	"flag"
	"fmt"
	"hash/crc32"
	"math/rand"
	"os"
	"os/exec"
	"path/filepath"
	"regexp"
	"runtime"
	"runtime/debug"
	"sort"
	"strings"
	"sync"
	"time"

	"github.com/tetratelabs/wazero"
	"github.com/tetratelabs/wazero/api"
	"github.com/tetratelabs/wazero/experimental"
	"github.com/tetratelabs/wazero/imports/wasi_snapshot_preview1"
	"github.com/tetratelabs/wazero/internal/wasm"
	"github.com/tetratelabs/wazero/verifharness/allops"
	"github.com/tetratelabs/wazero/verifharness/hx"
	"github.com/tetratelabs/wazero/verifharness/wb"
)

var (
	childMode = flag.String("child", "", "internal: child mode (run|batch)")
	altBinary = flag.String("alt-binary", "", "a second build of this harness with another data layout (build tag altlayout): another EXECUTABLE embedding the same wazero")
	cDir      = flag.String("dir", "", "internal: cache directory ('' = no cache)")
	cMod      = flag.String("modfile", "", "internal: wasm file")
	cKind     = flag.String("kind", "", "internal: module kind")
	cEngine   = flag.String("engine", "compiler", "internal: compiler|interpreter")
	cNoExec   = flag.Bool("noexec", false, "internal: compile only")
	cBarrier  = flag.String("barrier", "", "internal: wait for this file to exist before compiling")
	cJobs     = flag.String("jobs", "", "internal: batch job file")
	cCPU      = flag.String("cpu", "", "internal: play another machine (noabm = this CPU without ABM)")
	cLimit    = flag.Int("limit", 0, "internal: RuntimeConfig.WithMemoryLimitPages (0 = default)")
	cCFM      = flag.Bool("cfm", false, "internal: RuntimeConfig.WithMemoryCapacityFromMax(true)")
	cNoDebug  = flag.Bool("nodebug", false, "internal: RuntimeConfig.WithDebugInfoEnabled(false)")
)

var (
	orc *hx.Oracle
	rep *hx.Report
)

// ---------------------------------------------------------------------------------------------------
// child side: the real code

type RunResult struct {
	CompileErr string   `json:"compile_err,omitempty"`
	ExecErr    string   `json:"exec_err,omitempty"`
	Panic      string   `json:"panic,omitempty"`
	Results    []string `json:"results,omitempty"`
}

func (r RunResult) key() string {
	return r.CompileErr + "|" + r.ExecErr + "|" + r.Panic + "|" + strings.Join(r.Results, ";")
}

func runOnce(dir string, mod []byte, kind, engine string, noexec bool) (res RunResult) {
	defer func() {
		if p := recover(); p != nil {
			res.Panic = fmt.Sprint(p) + " @ " + shortStack()
		}
	}()
	ctx := context.Background()
	var cfg wazero.RuntimeConfig
	if engine == "interpreter" {
		cfg = wazero.NewRuntimeConfigInterpreter()
	} else {
		cfg = wazero.NewRuntimeConfigCompiler()
	}
	if dir != "" {
		cache, err := wazero.NewCompilationCacheWithDir(dir)
		if err != nil {
			res.CompileErr = "cache: " + err.Error()
			return
		}
		defer cache.Close(ctx)
		cfg = cfg.WithCompilationCache(cache)
	}
	if *cLimit > 0 {
		cfg = cfg.WithMemoryLimitPages(uint32(*cLimit))
	}
	if *cCFM {
		cfg = cfg.WithMemoryCapacityFromMax(true)
	}
	if *cNoDebug {
		cfg = cfg.WithDebugInfoEnabled(false)
	}
	rt := wazero.NewRuntimeWithConfig(ctx, cfg.WithCoreFeatures(api.CoreFeaturesV2|experimental.CoreFeaturesThreads|experimental.CoreFeaturesTailCall))
	defer rt.Close(ctx)
	compiled, err := rt.CompileModule(ctx, mod)
	if err != nil {
		res.CompileErr = err.Error()
		return
	}
	if noexec {
		return
	}
	if kind == "dwarf" {
		wasi_snapshot_preview1.MustInstantiate(ctx, rt)
		_, err := rt.InstantiateModule(ctx, compiled, wazero.NewModuleConfig().WithName("m"))
		if err != nil {
			res.ExecErr = err.Error()
		}
		return
	}
	inst, err := rt.InstantiateModule(ctx, compiled, wazero.NewModuleConfig().WithName("m"))
	if err != nil {
		res.ExecErr = err.Error()
		return
	}
	defs := compiled.ExportedFunctions()
	names := make([]string, 0, len(defs))
	for n := range defs {
		names = append(names, n)
	}
	sort.Strings(names)
	for _, n := range names {
		f := inst.ExportedFunction(n)
		for vec := 0; vec < 2; vec++ {
			args := make([]uint64, len(f.Definition().ParamTypes()))
			for i := range args {
				args[i] = uint64(vec*7 + i*3 + 5)
			}
			out, err := f.Call(ctx, args...)
			if err != nil {
				res.Results = append(res.Results, n+":err:"+firstLine(err.Error()))
			} else {
				res.Results = append(res.Results, fmt.Sprintf("%s:%v", n, out))
			}
		}
	}
	if mem := inst.ExportedMemory("memory"); mem != nil {
		res.Results = append(res.Results, fmt.Sprintf("memsize:%d", mem.Size()))
	}
	return
}

// shortStack: the function names of the panicking goroutine's frames (no addresses: stable across runs)
func shortStack() string {
	var fr []string
	for _, ln := range strings.Split(string(debug.Stack()), "\n") {
		if strings.HasPrefix(ln, "\t") || strings.HasPrefix(ln, "goroutine ") || ln == "" {
			continue
		}
		if i := strings.LastIndexByte(ln, '('); i > 0 {
			ln = ln[:i]
		}
		if strings.Contains(ln, "debug.Stack") || strings.Contains(ln, "shortStack") || strings.Contains(ln, "runOnce.func") || ln == "panic" || strings.HasPrefix(ln, "runtime.") {
			continue
		}
		fr = append(fr, ln)
		if len(fr) == 8 {
			break
		}
	}
	return strings.Join(fr, " < ")
}

func firstLine(s string) string {
	if i := strings.IndexByte(s, '\n'); i >= 0 {
		return s[:i]
	}
	return s
}

type Job struct {
	ID     int    `json:"id"`
	Dir    string `json:"dir"`
	NoExec bool   `json:"noexec"`
}

func childMain() {
	applyCPUFlag(*cCPU)
	mod, err := os.ReadFile(*cMod)
	if err != nil {
		fmt.Fprintln(os.Stderr, "child: ", err)
		os.Exit(3)
	}
	switch *childMode {
	case "run":
		if *cBarrier != "" {
			for i := 0; i < 200000; i++ {
				if _, err := os.Stat(*cBarrier); err == nil {
					break
				}
				time.Sleep(50 * time.Microsecond)
			}
		}
		r := runOnce(*cDir, mod, *cKind, *cEngine, *cNoExec)
		b, _ := json.Marshal(r)
		fmt.Printf("END 0 %s\n", b)
	case "batch":
		jb, err := os.ReadFile(*cJobs)
		if err != nil {
			fmt.Fprintln(os.Stderr, "child: ", err)
			os.Exit(3)
		}
		var jobs []Job
		if err := json.Unmarshal(jb, &jobs); err != nil {
			fmt.Fprintln(os.Stderr, "child: ", err)
			os.Exit(3)
		}
		for _, j := range jobs {
			fmt.Printf("BEGIN %d\n", j.ID)
			os.Setenv("WAZERO_VERIF_CRASH_TRACE", filepath.Join(j.Dir, "trace"))
			r := runOnce(filepath.Join(j.Dir, "cache"), mod, *cKind, *cEngine, j.NoExec)
			b, _ := json.Marshal(r)
			fmt.Printf("END %d %s\n", j.ID, b)
		}
	default:
		os.Exit(3)
	}
}

// ---------------------------------------------------------------------------------------------------
// parent side

type modInfo struct {
	Name, Kind string
	Bytes      []byte
	Path       string
	Baseline   RunResult
	Entry      []byte // the complete cache entry E
	EntryName  string // 64 hex digits
	VDir       string // wazero-<version>-<arch>-<os>
	Lay        *layout
	ModelE     string // the model's deserialize of the complete entry
}

var self string

type childOut struct {
	ExitCode int
	Killed   bool // timeout
	Results  map[int]RunResult
	Begun    int // last BEGIN id (-1 none)
	Stderr   string
}

func runChild(timeout time.Duration, env []string, args ...string) childOut {
	return runChildBin(self, timeout, env, args...)
}

func runChildBin(bin string, timeout time.Duration, env []string, args ...string) childOut {
	ctx, cancel := context.WithTimeout(context.Background(), timeout)
	defer cancel()
	cmd := hx.Supervised(exec.CommandContext(ctx, bin, args...))
	cmd.Env = append(append(os.Environ(), "GOMEMLIMIT=2GiB"), env...)
	var so, se bytes.Buffer
	cmd.Stdout, cmd.Stderr = &so, &se
	err := cmd.Run()
	out := childOut{Results: map[int]RunResult{}, Begun: -1}
	if ctx.Err() != nil {
		out.Killed = true
	}
	if err != nil {
		var ee *exec.ExitError
		if errors.As(err, &ee) {
			out.ExitCode = ee.ExitCode()
		} else {
			hx.Fatal("cannot run child: %v", err)
		}
	}
	for _, ln := range strings.Split(so.String(), "\n") {
		var id int
		if strings.HasPrefix(ln, "BEGIN ") {
			fmt.Sscanf(ln, "BEGIN %d", &id)
			out.Begun = id
		} else if strings.HasPrefix(ln, "END ") {
			rest := ln[4:]
			sp := strings.IndexByte(rest, ' ')
			if sp < 0 {
				continue
			}
			fmt.Sscanf(rest[:sp], "%d", &id)
			var r RunResult
			if json.Unmarshal([]byte(rest[sp+1:]), &r) == nil {
				out.Results[id] = r
			}
		}
	}
	s := se.String()
	if len(s) > 600 {
		s = s[:300] + " … " + s[len(s)-300:]
	}
	out.Stderr = s
	return out
}

func (m *modInfo) runArgs(dir string, extra ...string) []string {
	a := []string{"-child", "run", "-modfile", m.Path, "-kind", m.Kind, "-dir", dir}
	return append(a, extra...)
}

// single run; exit code and result
func (m *modInfo) run(dir string, env []string, extra ...string) (RunResult, childOut) {
	co := runChild(240*time.Second, env, m.runArgs(dir, extra...)...)
	return co.Results[0], co
}

var finalRe = regexp.MustCompile(`^[0-9a-f]{64}$`)
var tempRe = regexp.MustCompile(`^[0-9a-f]{64}\.[0-9]+\.tmp$`)

type dirObs struct {
	Final     string // none | full | part:n | other:n
	Temps     []int
	BadNames  []string
	TempBad   bool // a temp file that is not a prefix of E
	FinalPath string
	TempPaths []string
}

func (d dirObs) String() string {
	t := "-"
	if len(d.Temps) > 0 {
		ss := make([]string, len(d.Temps))
		for i, x := range d.Temps {
			ss[i] = fmt.Sprint(x)
		}
		t = strings.Join(ss, ",")
	}
	return fmt.Sprintf("final=%s temps=%s", d.Final, t)
}

// observe the version directory of a cache dir against the complete entry E
func observe(cacheDir string, E []byte) dirObs {
	o := dirObs{Final: "none"}
	subs, _ := os.ReadDir(cacheDir)
	for _, s := range subs {
		if !s.IsDir() {
			o.BadNames = append(o.BadNames, s.Name())
			continue
		}
		ents, _ := os.ReadDir(filepath.Join(cacheDir, s.Name()))
		for _, e := range ents {
			p := filepath.Join(cacheDir, s.Name(), e.Name())
			b, err := os.ReadFile(p)
			if err != nil {
				continue
			}
			switch {
			case finalRe.MatchString(e.Name()):
				o.FinalPath = p
				if bytes.Equal(b, E) {
					o.Final = "full"
				} else if len(b) < len(E) && bytes.Equal(b, E[:len(b)]) {
					o.Final = fmt.Sprintf("part:%d", len(b))
				} else {
					o.Final = fmt.Sprintf("other:%d", len(b))
				}
			case tempRe.MatchString(e.Name()):
				o.Temps = append(o.Temps, len(b))
				o.TempPaths = append(o.TempPaths, p)
				if len(b) > len(E) || !bytes.Equal(b, E[:len(b)]) {
					o.TempBad = true
				}
			default:
				o.BadNames = append(o.BadNames, e.Name())
			}
		}
	}
	sort.Ints(o.Temps)
	return o
}

func readTrace(p string) []string {
	b, err := os.ReadFile(p)
	if err != nil {
		return nil
	}
	return strings.Fields(string(b))
}

var workN int
var workMu sync.Mutex

func freshDir(label string) string {
	workMu.Lock()
	workN++
	n := workN
	workMu.Unlock()
	d := filepath.Join(*hx.Work, "hc13.d", fmt.Sprintf("%s-%d", label, n))
	if err := os.MkdirAll(d, 0o755); err != nil {
		hx.Fatal("mkdir: %v", err)
	}
	return d
}

// ---- modules

func smallModule() []byte {
	m := wb.New()
	m.Memory(1, nil, false, "memory")
	m.AddFunc(wb.Func{Params: []byte{wb.I32, wb.I32}, Results: []byte{wb.I32}, Export: "add",
		Body: wb.Cat(wb.LocalGet(0), wb.LocalGet(1), wb.Op(wasm.OpcodeI32Add))})
	m.AddFunc(wb.Func{Params: []byte{wb.I32}, Results: []byte{wb.I32}, Export: "fib",
		Body: wb.Cat(wb.LocalGet(0), wb.I32Const(2), wb.Op(wasm.OpcodeI32LtS),
			wb.Op(wasm.OpcodeIf, 0x7f), wb.LocalGet(0), wb.Op(wasm.OpcodeElse),
			wb.LocalGet(0), wb.I32Const(1), wb.Op(wasm.OpcodeI32Sub), wb.Call(1),
			wb.LocalGet(0), wb.I32Const(2), wb.Op(wasm.OpcodeI32Sub), wb.Call(1),
			wb.Op(wasm.OpcodeI32Add), wb.Op(wasm.OpcodeEnd))})
	m.AddFunc(wb.Func{Params: []byte{wb.I32, wb.I32}, Results: []byte{wb.I32}, Export: "mem",
		Body: wb.Cat(wb.LocalGet(0), wb.I32Const(0xfff0), wb.Op(wasm.OpcodeI32And), wb.LocalGet(1),
			wb.MemArg(wasm.OpcodeI32Store, 2, 0),
			wb.LocalGet(0), wb.I32Const(0xfff0), wb.Op(wasm.OpcodeI32And), wb.MemArg(wasm.OpcodeI32Load, 2, 0))})
	// memory accesses on both sides of a call and of a memory.grow (what the code caches about the memory across them
	// depends on what the compiler believes about the memory's limits - which a configuration knob can change)
	m.AddFunc(wb.Func{Params: []byte{wb.I32, wb.I32}, Results: []byte{wb.I32}, Export: "memcall",
		Body: wb.Cat(wb.I32Const(16), wb.LocalGet(1), wb.MemArg(wasm.OpcodeI32Store, 2, 0),
			wb.LocalGet(0), wb.I32Const(7), wb.Op(wasm.OpcodeI32And), wb.Call(1), wb.Op(wasm.OpcodeDrop),
			wb.I32Const(20), wb.I32Const(16), wb.MemArg(wasm.OpcodeI32Load, 2, 0), wb.MemArg(wasm.OpcodeI32Store, 2, 0),
			wb.I32Const(0), wb.MemoryGrow(), wb.Op(wasm.OpcodeDrop),
			wb.I32Const(20), wb.MemArg(wasm.OpcodeI32Load, 2, 0))})
	return m.Bytes()
}

func nofuncModule() []byte {
	m := wb.New()
	m.Memory(2, nil, false, "memory")
	return m.Bytes()
}

func bigModule(r *rand.Rand, nfuncs int) []byte {
	m := wb.New()
	ops := []byte{wasm.OpcodeI64Add, wasm.OpcodeI64Sub, wasm.OpcodeI64Mul, wasm.OpcodeI64Xor, wasm.OpcodeI64And,
		wasm.OpcodeI64Or, wasm.OpcodeI64Rotl, wasm.OpcodeI64Shl, wasm.OpcodeI64ShrU}
	for i := 0; i < nfuncs; i++ {
		body := wb.LocalGet(0)
		k := 3 + r.Intn(25)
		for j := 0; j < k; j++ {
			switch r.Intn(4) {
			case 0:
				body = wb.Cat(body, wb.LocalGet(1))
			case 1:
				body = wb.Cat(body, wb.LocalGet(0))
			default:
				body = wb.Cat(body, wb.I64Const(r.Int63()-r.Int63()))
			}
			body = wb.Cat(body, wb.Op(ops[r.Intn(len(ops))]))
			if i > 0 && r.Intn(6) == 0 {
				body = wb.Cat(body, wb.LocalGet(1), wb.Call(uint32(r.Intn(i))))
			}
		}
		exp := ""
		if i%3 == 0 || i == nfuncs-1 {
			exp = fmt.Sprintf("f%03d", i)
		}
		m.AddFunc(wb.Func{Params: []byte{wb.I64, wb.I64}, Results: []byte{wb.I64}, Export: exp, Body: body})
	}
	return m.Bytes()
}

// ---- entry layout (independent Go parser of the on-disk format, used to name regions and to feed the model)

type layout struct {
	Version           string
	Offsets           []uint64
	Exec              []byte
	CRC               uint32
	SrcMap            [][2]uint64
	regions           []region
	okTrailing, valid bool
}
type region struct {
	name     string
	from, to int
}

func (l *layout) regionOf(pos int) string {
	for _, r := range l.regions {
		if pos >= r.from && pos < r.to {
			return r.name
		}
	}
	return "beyond"
}

func parseEntry(e []byte) *layout {
	l := &layout{}
	p := 0
	add := func(name string, n int) bool {
		if p+n > len(e) {
			return false
		}
		l.regions = append(l.regions, region{name, p, p + n})
		p += n
		return true
	}
	if !add("magic", 6) || !add("verlen", 1) {
		return l
	}
	vl := int(e[6])
	if !add("version", vl) {
		return l
	}
	l.Version = string(e[7 : 7+vl])
	if !add("nfuncs", 4) {
		return l
	}
	nf := int(binary.LittleEndian.Uint32(e[p-4:]))
	if nf > len(e) {
		return l
	}
	for i := 0; i < nf; i++ {
		if !add("offsets", 8) {
			return l
		}
		l.Offsets = append(l.Offsets, binary.LittleEndian.Uint64(e[p-8:]))
	}
	if !add("execlen", 8) {
		return l
	}
	el := binary.LittleEndian.Uint64(e[p-8:])
	if el > uint64(len(e)) {
		return l
	}
	if !add("exec", int(el)) {
		return l
	}
	l.Exec = e[p-int(el) : p]
	if !add("crc", 4) {
		return l
	}
	l.CRC = binary.LittleEndian.Uint32(e[p-4:])
	if !add("smflag", 1) {
		return l
	}
	if e[p-1] == 1 {
		if !add("smlen", 8) {
			return l
		}
		n := binary.LittleEndian.Uint64(e[p-8:])
		if n > uint64(len(e)) {
			return l
		}
		for i := uint64(0); i < n; i++ {
			if !add("srcmap", 16) {
				return l
			}
			l.SrcMap = append(l.SrcMap, [2]uint64{binary.LittleEndian.Uint64(e[p-16:]), binary.LittleEndian.Uint64(e[p-8:])})
		}
	}
	l.valid = p == len(e)
	return l
}

// readerExecLenIsZero: what deserializeCompiledModule takes for the executable length of entry e
func readerExecLenIsZero(e []byte, verLen int) bool {
	h := 6 + 1 + verLen + 4
	if len(e) < h {
		return false
	}
	nf := int(binary.LittleEndian.Uint32(e[h-4:]))
	pos := h + 8*nf
	if nf < 0 || pos < 0 || pos+8 > len(e) {
		return false
	}
	return binary.LittleEndian.Uint64(e[pos:]) == 0
}

func hexOrDash(b []byte) string {
	if len(b) == 0 {
		return "-"
	}
	return hex.EncodeToString(b)
}

func (l *layout) oracleFields() (offs, sm string) {
	offs, sm = "-", "-"
	if len(l.Offsets) > 0 {
		ss := make([]string, len(l.Offsets))
		for i, o := range l.Offsets {
			ss[i] = fmt.Sprint(o)
		}
		offs = strings.Join(ss, ",")
	}
	if len(l.SrcMap) > 0 {
		ss := make([]string, len(l.SrcMap))
		for i, o := range l.SrcMap {
			ss[i] = fmt.Sprintf("%d:%d", o[0], o[1])
		}
		sm = strings.Join(ss, ",")
	}
	return
}

// ---------------------------------------------------------------------------------------------------

func violate(kind, sig, what string, input, expected, actual any) {
	rep.Violate(hx.Violation{Kind: kind, Signature: sig, What: what, Input: input, Expected: expected, Actual: actual})
}

var hookOK bool

// baseline: cache-less run, cold run (creates E), warm run (hit); step order; serialize correspondence
func (m *modInfo) baseline() bool {
	res, co := m.run("", nil)
	if co.ExitCode != 0 || co.Killed {
		hx.Fatal("cache-less run of %s failed: exit=%d %s", m.Name, co.ExitCode, co.Stderr)
	}
	m.Baseline = res
	rep.Case("baseline:" + m.Name)
	if m.Kind != "dwarf" {
		ires, ico := m.run("", nil, "-engine", "interpreter")
		if ico.ExitCode == 0 && ires.key() != res.key() {
			rep.Note("module %s: interpreter and compiler disagree without any cache (not a C13 matter): %s vs %s", m.Name, ires.key(), res.key())
		}
	}
	dir := freshDir("cold-" + m.Name)
	cache := filepath.Join(dir, "cache")
	trace := filepath.Join(dir, "trace")
	cres, cco := m.run(cache, []string{"WAZERO_VERIF_CRASH_TRACE=" + trace})
	if cco.ExitCode != 0 || cres.key() != res.key() {
		violate("impl-violation", "C13:cold-cache-run-differs:"+m.Name, "first run with an empty cache directory differs from the cache-less run",
			map[string]any{"module": m.Name}, res, map[string]any{"res": cres, "exit": cco.ExitCode, "stderr": cco.Stderr})
		return false
	}
	subs, _ := os.ReadDir(cache)
	if len(subs) != 1 {
		hx.Fatal("expected one version directory in %s, got %d", cache, len(subs))
	}
	m.VDir = subs[0].Name()
	ents, _ := os.ReadDir(filepath.Join(cache, m.VDir))
	if len(ents) != 1 || !finalRe.MatchString(ents[0].Name()) {
		names := []string{}
		for _, e := range ents {
			names = append(names, e.Name())
		}
		violate("impl-violation", "C13:cache-dir-after-clean-add:"+m.Name, "after one successful CompileModule the cache directory does not hold exactly one final entry",
			map[string]any{"module": m.Name}, "one file named by 64 hex digits", names)
		return false
	}
	m.EntryName = ents[0].Name()
	m.Entry, _ = os.ReadFile(filepath.Join(cache, m.VDir, m.EntryName))
	m.Lay = parseEntry(m.Entry)
	rep.Count("entry-bytes:" + m.Name + fmt.Sprintf(":%d", len(m.Entry)))
	// step order (tie B of the regenerated step list)
	tr := readTrace(trace)
	hookOK = len(tr) > 0
	if hookOK {
		steps := strings.Fields(strings.Split(orc.Ask("c13 steps"), "|")[0])
		want := []string{}
		for _, s := range steps {
			switch s {
			case "createTemp":
				want = append(want, "after-createtemp")
			default:
				want = append(want, "after-"+s)
			}
		}
		rep.Case("step-order:" + m.Name)
		if strings.Join(tr, " ") != strings.Join(want, " ") {
			violate("correspondence", "C13:add-step-order", "order of the calls of fileCache.Add seen through the hook differs from the regenerated step list of the model",
				map[string]any{"module": m.Name}, want, tr)
		}
	}
	// warm run: hit, same results, file untouched
	trace2 := filepath.Join(dir, "trace2")
	wres, wco := m.run(cache, []string{"WAZERO_VERIF_CRASH_TRACE=" + trace2})
	rep.Case("warm:" + m.Name)
	after, _ := os.ReadFile(filepath.Join(cache, m.VDir, m.EntryName))
	if wco.ExitCode != 0 || wres.key() != res.key() || !bytes.Equal(after, m.Entry) {
		violate("impl-violation", "C13:warm-cache-run-differs:"+m.Name, "second process using the complete entry differs from the cache-less run",
			map[string]any{"module": m.Name}, res, map[string]any{"res": wres, "exit": wco.ExitCode, "stderr": wco.Stderr})
	}
	if hookOK && len(readTrace(trace2)) != 0 {
		rep.Note("module %s: warm run added the entry again (no hit)", m.Name)
		violate("correspondence", "C13:complete-entry-not-hit:"+m.Name, "a complete entry written by the same build is not used by the next process", map[string]any{"module": m.Name}, "hit", readTrace(trace2))
	}
	// serialize correspondence
	l := m.Lay
	if !l.valid {
		violate("correspondence", "C13:entry-layout:"+m.Name, "the real entry does not parse with the documented layout", map[string]any{"module": m.Name, "entry_len": len(m.Entry)}, "valid layout", l.regions)
		return false
	}
	if crc32.Checksum(l.Exec, crc32.MakeTable(crc32.Castagnoli)) != l.CRC {
		violate("correspondence", "C13:entry-crc:"+m.Name, "checksum field is not CRC-32C of the executable", nil, nil, nil)
	}
	if len(m.Entry) < 200000 {
		offs, sm := l.oracleFields()
		got := orc.Askf("c13 ser %s %s %s %s", hexOrDash([]byte(l.Version)), offs, hexOrDash(l.Exec), sm)
		rep.Case("serialize:" + m.Name)
		if got != hexOrDash(m.Entry) {
			violate("correspondence", "C13:serialize-bytes:"+m.Name, "serialize of the Lean model differs from the real entry on the same fields",
				map[string]any{"module": m.Name, "version": l.Version, "nfuncs": len(l.Offsets), "execlen": len(l.Exec), "srcmap": len(l.SrcMap)}, trunc(got), trunc(hexOrDash(m.Entry)))
		}
		d := orc.Askf("c13 deser %s %s", hexOrDash([]byte(l.Version)), hexOrDash(m.Entry))
		m.ModelE = d
		if !strings.HasPrefix(d, "ok ") {
			violate("correspondence", "C13:deserialize-complete:"+m.Name, "the model does not accept the real complete entry", map[string]any{"module": m.Name}, "ok", d)
		}
		if mg := orc.Ask("c13 magic"); mg != hex.EncodeToString(m.Entry[:6]) {
			violate("correspondence", "C13:magic", "magic differs", nil, mg, hex.EncodeToString(m.Entry[:6]))
		}
	}
	rep.Count(fmt.Sprintf("layout:%s:funcs=%d,exec=%d,srcmap=%d,version=%q", m.Name, len(l.Offsets), len(l.Exec), len(l.SrcMap), l.Version))
	return true
}

func trunc(s string) string {
	if len(s) > 400 {
		return s[:200] + "…" + s[len(s)-200:]
	}
	return s
}

// ---- determinism monitor
func (m *modInfo) determinism(procs []int) {
	var wg sync.WaitGroup
	type r struct {
		p     int
		entry []byte
		ok    bool
	}
	out := make([]r, len(procs))
	for i, p := range procs {
		wg.Add(1)
		go func(i, p int) {
			defer wg.Done()
			dir := freshDir("det-" + m.Name)
			_, co := m.run(filepath.Join(dir, "cache"), []string{fmt.Sprintf("GOMAXPROCS=%d", p)}, "-noexec")
			b, err := os.ReadFile(filepath.Join(dir, "cache", m.VDir, m.EntryName))
			out[i] = r{p, b, err == nil && co.ExitCode == 0}
			os.RemoveAll(dir)
		}(i, p)
	}
	wg.Wait()
	for _, o := range out {
		rep.Case(fmt.Sprintf("determinism:%s:gomaxprocs=%d", m.Name, o.p))
		rep.Count("determinism-runs")
		if !o.ok || !bytes.Equal(o.entry, m.Entry) {
			diff := -1
			for i := 0; i < len(o.entry) && i < len(m.Entry); i++ {
				if o.entry[i] != m.Entry[i] {
					diff = i
					break
				}
			}
			violate("impl-violation", "C13:entry-not-deterministic:"+m.Name, "the same module compiled in another process produced a different cache entry",
				map[string]any{"module": m.Name, "gomaxprocs": o.p, "module_hex": trunc(hex.EncodeToString(m.Bytes))},
				fmt.Sprintf("%d bytes identical to the first process's entry", len(m.Entry)),
				fmt.Sprintf("len=%d first difference at byte %d (region %s)", len(o.entry), diff, m.Lay.regionOf(diff)))
		}
	}
}

// crossExecutable: "the same module with the same settings always produces the same cache entry" - also when the
// embedding EXECUTABLE is another one (same wazero, same version directory and key): the alt binary must write the
// byte-identical entry, and each executable must get a hit on the entry the other wrote and compute the same
// results.  Anything of the compiling process that leaks into the machine code (an address of a Go global, a
// pointer-keyed order) shows here and nowhere within one binary.
func (m *modInfo) crossExecutable() {
	if *altBinary == "" {
		return
	}
	rep.Case("cross-executable:" + m.Name)
	in := map[string]any{"module": m.Name, "module_hex": trunc(hex.EncodeToString(m.Bytes)), "other_executable": "the same harness built with -tags altlayout"}
	dirA, dirB := freshDir("xa-"+m.Name), freshDir("xb-"+m.Name)
	defer os.RemoveAll(dirA)
	defer os.RemoveAll(dirB)
	// B (alt) writes its own entry
	coB := runChildBin(*altBinary, 240*time.Second, nil, m.runArgs(filepath.Join(dirB, "cache"))...)
	eB, err := os.ReadFile(filepath.Join(dirB, "cache", m.VDir, m.EntryName))
	if err != nil || coB.ExitCode != 0 {
		violate("impl-violation", "C13:other-executable-writes-no-entry:"+m.Name, fmt.Sprintf("another executable embedding the same wazero wrote no entry under the same name (exit %d, %v): %s", coB.ExitCode, err, coB.Stderr), in, "entry "+m.EntryName, nil)
		return
	}
	if !bytes.Equal(eB, m.Entry) {
		diff := -1
		for i := 0; i < len(eB) && i < len(m.Entry); i++ {
			if eB[i] != m.Entry[i] {
				diff = i
				break
			}
		}
		violate("impl-violation", "C13:entry-differs-between-executables:"+m.Name, "the same module, settings and wazero version compiled by another executable produced a different cache entry",
			in, fmt.Sprintf("%d bytes identical", len(m.Entry)), fmt.Sprintf("len=%d first difference at byte %d (region %s)", len(eB), diff, m.Lay.regionOf(diff)))
	}
	if rb := coB.Results[0]; rb.key() != m.Baseline.key() {
		violate("impl-violation", "C13:other-executable-results-differ:"+m.Name, "another executable computes different guest results on its own cold run", in, m.Baseline.key(), rb.key())
	}
	// cross use: A's entry read by B, B's entry read by A (both must be hits that compute the baseline results; a
	// crash of the child is a violation)
	os.MkdirAll(filepath.Join(dirA, "cache", m.VDir), 0o755)
	os.WriteFile(filepath.Join(dirA, "cache", m.VDir, m.EntryName), m.Entry, 0o600)
	for _, x := range []struct {
		who, bin, dir string
	}{{"other executable on this executable's entry", *altBinary, dirA}, {"this executable on the other's entry", self, dirB}} {
		co := runChildBin(x.bin, 240*time.Second, nil, m.runArgs(filepath.Join(x.dir, "cache"))...)
		r, ok := co.Results[0]
		switch {
		case co.ExitCode != 0 || co.Killed || !ok:
			violate("impl-violation", "C13:entry-of-another-executable-crashes-the-reader:"+m.Name, fmt.Sprintf("%s: the process died (exit %d, killed %v): %s", x.who, co.ExitCode, co.Killed, co.Stderr), in, m.Baseline.key(), nil)
		case r.key() != m.Baseline.key():
			violate("impl-violation", "C13:entry-of-another-executable-computes-differently:"+m.Name, x.who+": results differ from the cache-less run", in, m.Baseline.key(), r.key())
		default:
			rep.Count("cross-executable-ok")
		}
	}
}

// ---- crash points
type crashPoint struct {
	env    string // value of WAZERO_VERIF_CRASH
	opoint string // oracle point name
	n      int
}

func (m *modInfo) crashPoints() []crashPoint {
	L := len(m.Entry)
	ps := []crashPoint{{"after-createtemp", "createTemp", 0}}
	seen := map[int]bool{}
	ns := []int{1, L - 1}
	for i := 0; i <= 16; i++ {
		ns = append(ns, i*L/16)
	}
	sort.Ints(ns)
	for _, n := range ns {
		if n < 0 || n > L || seen[n] {
			continue
		}
		seen[n] = true
		ps = append(ps, crashPoint{fmt.Sprintf("mid-copy:%d", n), "mid", n})
	}
	for _, s := range []string{"copy", "sync", "close", "rename"} {
		ps = append(ps, crashPoint{"after-" + s, s, 0})
	}
	return ps
}

func (m *modInfo) crashCase(cp crashPoint, keep int) {
	// keep < 0: process death only; keep >= 0: afterwards a power loss that keeps `keep` unsynced bytes
	dir := freshDir("crash-" + m.Name)
	defer os.RemoveAll(dir)
	cache := filepath.Join(dir, "cache")
	trace := filepath.Join(dir, "trace")
	input := map[string]any{"module": m.Name, "crash": cp.env, "power_loss_keep": keep, "entry_len": len(m.Entry)}
	_, co := m.run(cache, []string{"WAZERO_VERIF_CRASH=" + cp.env, "WAZERO_VERIF_CRASH_TRACE=" + trace})
	rep.Case(fmt.Sprintf("crash:%s:%s:keep=%d", m.Name, cp.env, keep))
	rep.Count("crash-point:" + strings.Split(cp.env, ":")[0])
	if co.ExitCode != 137 {
		violate("correspondence", "C13:crash-point-not-reached:"+strings.Split(cp.env, ":")[0], "the child did not die at the named crash point of fileCache.Add",
			input, "exit 137", map[string]any{"exit": co.ExitCode, "stderr": co.Stderr})
		return
	}
	passed := readTrace(trace)
	synced := false
	for _, p := range passed {
		if p == "after-sync" {
			synced = true
		}
	}
	o := observe(cache, m.Entry)
	keepArg := "-"
	if keep >= 0 {
		keepArg = fmt.Sprint(keep)
		if !synced {
			// the kernel may have persisted any prefix ≥ nothing of the unsynced file
			p := o.FinalPath
			if len(o.TempPaths) > 0 {
				p = o.TempPaths[0]
			}
			if p != "" {
				if st, err := os.Stat(p); err == nil && int64(keep) < st.Size() {
					os.Truncate(p, int64(keep))
				}
			}
			o = observe(cache, m.Entry)
		}
		rep.Count("power-loss-cases")
	}
	want := orc.Askf("c13 crash %s %d %d %s", cp.opoint, cp.n, len(m.Entry), keepArg)
	if len(o.BadNames) > 0 || o.TempBad {
		violate("impl-violation", "C13:unexpected-files-after-crash", "files that are neither <64hex> nor <64hex>.<n>.tmp, or a temp file that is not a prefix of the entry",
			input, want, map[string]any{"obs": o.String(), "bad": o.BadNames})
	}
	if !(o.Final == "none" || o.Final == "full") {
		violate("impl-violation", "C13:incomplete-entry-under-final-name:"+strings.Split(cp.env, ":")[0],
			"after the writer died the final name holds an incomplete entry", input, "final=none or final=full", o.String())
	} else if o.String() != want {
		violate("correspondence", "C13:crash-state:"+strings.Split(cp.env, ":")[0], "directory after the death differs from the model's", input, want, o.String())
	}
	// recovery: a fresh runtime on this directory
	trace2 := filepath.Join(dir, "trace2")
	res, rco := m.run(cache, []string{"WAZERO_VERIF_CRASH_TRACE=" + trace2})
	o2 := observe(cache, m.Entry)
	added := len(readTrace(trace2)) > 0
	switch {
	case rco.ExitCode != 0 || rco.Killed || res.key() != m.Baseline.key():
		violate("impl-violation", "C13:cache-unusable-after-crash:"+strings.Split(cp.env, ":")[0],
			"a fresh process using the directory left by the dead writer does not compile and run the module like a cache-less run",
			input, m.Baseline, map[string]any{"res": res, "exit": rco.ExitCode, "stderr": rco.Stderr, "dir_before": o.String()})
	case o2.Final != "full":
		violate("impl-violation", "C13:no-complete-entry-after-recovery", "after the recovery run the final name does not hold the complete entry", input, "final=full", o2.String())
	case o.Final == "full" && added:
		violate("correspondence", "C13:complete-entry-not-hit-after-crash", "complete entry was recompiled", input, "hit", "added")
	case o.Final == "none" && !added:
		violate("correspondence", "C13:recovery-without-add", "no entry, but nothing was added", input, "added", "no add")
	}
	if o.Final == "full" {
		rep.Count("recovery:hit")
	} else {
		rep.Count("recovery:compiled-afresh")
	}
	if len(o2.Temps) > 0 {
		rep.Count("leftover-temp-files-never-removed")
	}
}

// ---- planted entries (truncation, version, bit flips)

type plant struct {
	label  string // class for signatures
	detail string
	bytes  []byte
	noexec bool
	trunc  bool // property clause: truncated
	otherV bool // property clause: other version
	pos    int
}

type plantRes struct {
	RunResult
	Done, Crashed, Hung bool
	Added               bool
	Final               string
	Stderr              string
}

func (m *modInfo) runPlants(label string, ps []plant) []plantRes {
	out := make([]plantRes, len(ps))
	base := freshDir(label + "-" + m.Name)
	defer os.RemoveAll(base)
	jobs := make([]Job, len(ps))
	for i, p := range ps {
		d := filepath.Join(base, fmt.Sprint(i))
		vd := filepath.Join(d, "cache", m.VDir)
		if err := os.MkdirAll(vd, 0o755); err != nil {
			hx.Fatal("mkdir: %v", err)
		}
		if err := os.WriteFile(filepath.Join(vd, m.EntryName), p.bytes, 0o600); err != nil {
			hx.Fatal("plant: %v", err)
		}
		jobs[i] = Job{ID: i, Dir: d, NoExec: p.noexec}
	}
	const workers = 12
	queue := make(chan []Job, len(jobs)+workers)
	chunk := (len(jobs) + workers*2 - 1) / (workers * 2)
	if chunk < 1 {
		chunk = 1
	}
	if chunk > 40 {
		chunk = 40
	}
	var pending sync.WaitGroup
	for i := 0; i < len(jobs); i += chunk {
		j := i + chunk
		if j > len(jobs) {
			j = len(jobs)
		}
		pending.Add(1)
		queue <- jobs[i:j]
	}
	var mu sync.Mutex
	for w := 0; w < workers; w++ {
		go func(w int) {
			for batch := range queue {
				jf := filepath.Join(base, fmt.Sprintf("jobs-%d-%d.json", w, batch[0].ID))
				jb, _ := json.Marshal(batch)
				os.WriteFile(jf, jb, 0o600)
				budget := time.Duration(60+10*len(batch)) * time.Second
				if len(batch) == 1 {
					budget = 300 * time.Second // a single job normally takes well under a second
				}
				co := runChild(budget, nil, "-child", "batch", "-modfile", m.Path, "-kind", m.Kind, "-jobs", jf)
				mu.Lock()
				rest := []Job{}
				for _, j := range batch {
					if r, ok := co.Results[j.ID]; ok {
						out[j.ID].RunResult = r
						out[j.ID].Done = true
					} else if j.ID == co.Begun && co.Killed && len(batch) > 1 {
						// the batch ran out of its time budget while this job was running (possibly only because the
						// machine is loaded): never a verdict — the job is re-run alone with a generous budget
						rest = append(rest, j)
					} else if j.ID == co.Begun {
						out[j.ID].Done = true
						out[j.ID].Crashed = !co.Killed
						out[j.ID].Hung = co.Killed
						out[j.ID].Stderr = co.Stderr
					} else {
						rest = append(rest, j)
					}
				}
				mu.Unlock()
				if len(rest) > 0 && co.Killed && len(batch) > 1 {
					// re-run the interrupted job alone, the untouched ones together
					pending.Add(1)
					queue <- rest[:1]
					if len(rest) > 1 {
						pending.Add(1)
						queue <- rest[1:]
					}
				} else if len(rest) > 0 && len(rest) < len(batch) {
					pending.Add(1)
					queue <- rest
				} else if len(rest) > 0 {
					hx.Fatal("batch child made no progress: exit=%d %s", co.ExitCode, co.Stderr)
				}
				pending.Done()
			}
		}(w)
	}
	pending.Wait()
	close(queue)
	for i := range ps {
		d := filepath.Join(base, fmt.Sprint(i))
		out[i].Added = len(readTrace(filepath.Join(d, "trace"))) > 0
		b, err := os.ReadFile(filepath.Join(d, "cache", m.VDir, m.EntryName))
		switch {
		case err != nil:
			out[i].Final = "absent"
		case bytes.Equal(b, m.Entry):
			out[i].Final = "E"
		case bytes.Equal(b, ps[i].bytes):
			out[i].Final = "planted"
		default:
			out[i].Final = "other"
		}
	}
	return out
}

// real outcome class
func (r plantRes) class() string {
	switch {
	case r.Crashed:
		return "crash"
	case r.Hung:
		return "hang"
	case r.Panic != "":
		return "panic"
	case r.CompileErr != "":
		return "err"
	case r.Added:
		return "recompiled"
	default:
		return "hit"
	}
}

func (m *modInfo) judgePlants(label string, ps []plant, rs []plantRes, useOracle bool) {
	ver := hexOrDash([]byte(m.Lay.Version))
	for i, p := range ps {
		r := rs[i]
		same := bytes.Equal(p.bytes, m.Entry)
		region := m.Lay.regionOf(p.pos)
		input := map[string]any{"module": m.Name, "case": label, "detail": p.detail, "planted_len": len(p.bytes), "entry_len": len(m.Entry), "region": region,
			"module_hex": trunc(hex.EncodeToString(m.Bytes))}
		if len(p.bytes) <= 4096 {
			input["planted_hex"] = hex.EncodeToString(p.bytes)
		}
		cls := r.class()
		rep.Case(fmt.Sprintf("%s:%s:%s", label, m.Name, p.detail))
		rep.Count(label + ":real=" + cls)
		var model string
		if useOracle {
			model = orc.Askf("c13 deser %s %s", ver, hexOrDash(p.bytes))
		} else if p.trunc {
			if len(m.Lay.Exec) > 0 {
				model = "err (theorem truncation_rejected)"
			} else {
				model = ""
			}
		}
		// finding switch (C13-F1): the as-is reader skips the checksum when the executable is empty, the repaired one
		// always reads it.  Where the two model variants disagree, the real outcome selects the variant; a run in
		// which both variants were needed is reported (variant-mixed).
		if useOracle {
			if fixed := orc.Askf("c13 deserfixed %s %s", ver, hexOrDash(p.bytes)); fixed != model {
				want := map[string]string{"ok": "hit", "stale": "recompiled", "err": "err", "panic": "panic"}
				switch cls {
				case want[strings.SplitN(fixed, " ", 2)[0]]:
					model = fixed
					readerVariant["repaired"]++
				case want[strings.SplitN(model, " ", 2)[0]]:
					readerVariant["as-is"]++
				}
			}
		}
		mcls := strings.SplitN(model, " ", 2)[0]
		if model != "" {
			rep.Count(label + ":model=" + mcls)
		}
		actual := map[string]any{"class": cls, "compile_err": firstLine(r.CompileErr), "panic": r.Panic, "final_after": r.Final, "results": r.Results, "stderr": r.Stderr}
		// ---- tie C: the property's predicate
		bad := false
		switch {
		case cls == "crash" || cls == "hang" || cls == "panic":
			bad = true
			violate("impl-violation", fmt.Sprintf("C13:%s-on-planted-entry:%s:%s", cls, label, region), "the process using a damaged cache entry "+cls+"ed", input, "error reported, or entry discarded and module compiled afresh", actual)
		case cls == "hit" && !same && p.trunc:
			bad = true
			sig := "C13:truncated-entry-accepted:" + region
			if len(m.Lay.Exec) == 0 {
				sig = "C13:truncated-entry-of-module-without-code-accepted"
			}
			violate("impl-violation", sig, "a truncated entry was used instead of being reported or discarded", input, "error or recompilation", actual)
		case cls == "hit" && p.otherV:
			bad = true
			violate("impl-violation", "C13:other-version-entry-accepted", "an entry written by a different wazero version was used", input, "discarded and compiled afresh (or reported)", actual)
		case cls == "hit" && !same && model != "" && model == m.ModelE:
			// accepted, but decodes to exactly the module of the complete entry (e.g. a bit of the unread
			// checksum field of a module without code, or a source-map flag that stays != 1): harmless
			rep.Count(label + ":accepted-decodes-to-the-same-module:" + region)
		case cls == "hit" && !same && len(m.Lay.Exec) > 0 && readerExecLenIsZero(p.bytes, len(m.Lay.Version)):
			// the flipped bit makes the reader take 8 zero bytes for the executable length: it then skips the
			// checksum altogether (same root as C13-F1) and accepts an entry without code
			bad = true
			violate("impl-violation", "C13:corrupt-entry-accepted:executable-length-read-as-zero", "a cache entry with a flipped bit (region "+region+") was used: the reader found executable length 0 and skipped the checksum", input, "error or recompilation", actual)
		case cls == "hit" && !same:
			bad = true
			violate("impl-violation", "C13:corrupt-entry-accepted:"+region, "a cache entry with a flipped bit was used (the checksum does not cover this region)", input, "error or recompilation", actual)
		case cls == "err" && !strings.Contains(r.CompileErr, "compilationcache"):
			bad = true
			violate("impl-violation", "C13:unexpected-compile-error:"+label, "CompileModule failed with an error that does not come from the cache check", input, "compilationcache: …", actual)
		case (cls == "recompiled" || cls == "hit") && !p.noexec && r.key() != m.Baseline.key():
			bad = true
			violate("impl-violation", "C13:wrong-results-with-planted-entry:"+label+":"+region, "guest results differ from the cache-less run", input, m.Baseline, actual)
		case cls == "recompiled" && r.Final != "E":
			bad = true
			violate("impl-violation", "C13:stale-entry-not-replaced:"+label, "after discarding the entry the complete one was not stored", input, "final = complete entry", actual)
		}
		// ---- tie B: model outcome vs real outcome
		if model == "" || bad {
			continue
		}
		okc := false
		switch mcls {
		case "ok":
			okc = cls == "hit"
		case "stale":
			okc = cls == "recompiled"
		case "panic":
			okc = cls == "panic" || cls == "crash"
		case "err":
			okc = cls == "err"
			if okc && useOracle {
				msg := strings.ReplaceAll(strings.TrimPrefix(model, "err "), "_", " ")
				if msg == "executable" {
					okc = strings.Contains(r.CompileErr, "error mmapping executable") || strings.Contains(r.CompileErr, "error reading executable")
				} else {
					okc = strings.Contains(r.CompileErr, msg)
				}
				rep.Count(label + ":err=" + msg)
			}
		}
		if !okc {
			violate("correspondence", fmt.Sprintf("C13:deserialize-outcome:%s:%s", label, region), "outcome of the real CompileModule on the planted entry differs from the model's deserialize", input, model, actual)
		}
	}
}

// readerVariant counts, over the planted entries on which the two variants of the reader model disagree, which
// variant the real reader matched (finding switch C13-F1)
var readerVariant = map[string]int{}

func (m *modInfo) truncations(all bool, r *rand.Rand, useOracle bool) {
	L := len(m.Entry)
	ks := map[int]bool{}
	if all {
		for k := 0; k < L; k++ {
			ks[k] = true
		}
	} else {
		for _, rg := range m.Lay.regions { // every region boundary ±1
			for _, k := range []int{rg.from - 1, rg.from, rg.from + 1, rg.to - 1} {
				if k >= 0 && k < L {
					ks[k] = true
				}
			}
		}
		n := 150
		if hx.Thorough() {
			n = 600
		}
		for i := 0; i < n; i++ {
			ks[r.Intn(L)] = true
		}
		for i := 0; i <= 64; i++ {
			if k := i * L / 64; k < L {
				ks[k] = true
			}
		}
	}
	var ps []plant
	for k := range ks {
		ps = append(ps, plant{label: "trunc", detail: fmt.Sprintf("len=%d", k), bytes: m.Entry[:k], trunc: true, pos: k, noexec: false})
	}
	sort.Slice(ps, func(i, j int) bool { return ps[i].pos < ps[j].pos })
	rs := m.runPlants("trunc", ps)
	m.judgePlants("trunc", ps, rs, useOracle)
}

func (m *modInfo) versions() {
	v := m.Lay.Version
	rest := m.Entry[7+len(v):]
	mk := func(nv string) []byte {
		b := append([]byte{}, m.Entry[:6]...)
		b = append(b, byte(len(nv)))
		b = append(b, nv...)
		return append(b, rest...)
	}
	alts := map[string]string{}
	if len(v) > 0 {
		alts["same-length-last-char"] = v[:len(v)-1] + string(v[len(v)-1]^1)
		alts["same-length-first-char"] = string(v[0]^0x20) + v[1:]
		alts["shorter-by-1"] = v[:len(v)-1]
		alts["empty"] = ""
	}
	alts["longer-by-1"] = v + "0"
	alts["longer-by-3"] = v + ".rc"
	alts["longer-by-4"] = v + "-rc1"
	alts["longer-by-5"] = v + "-rc.1"
	alts["much-longer"] = v + strings.Repeat("x", 60)
	alts["len-255"] = (v + strings.Repeat("y", 255))[:255]
	var ps []plant
	for name, nv := range alts {
		ps = append(ps, plant{label: "version", detail: name, bytes: mk(nv), otherV: true, pos: 7})
	}
	// only the length byte changed (not a serialization of any version, still must not be used)
	for _, d := range []int{-1, 1, 4} {
		if nl := len(v) + d; nl >= 0 {
			b := append([]byte{}, m.Entry...)
			b[6] = byte(nl)
			ps = append(ps, plant{label: "version", detail: fmt.Sprintf("verlen-byte%+d", d), bytes: b, otherV: true, pos: 6})
		}
	}
	sort.Slice(ps, func(i, j int) bool { return ps[i].detail < ps[j].detail })
	rs := m.runPlants("version", ps)
	m.judgePlants("version", ps, rs, len(m.Entry) < 200000)
}

func (m *modInfo) bitflips(r *rand.Rand, nexec int) {
	L := len(m.Entry)
	bits := map[int]bool{}
	for _, rg := range m.Lay.regions {
		if rg.name == "exec" || rg.name == "srcmap" {
			n := 48
			if hx.Thorough() {
				n = 200
			}
			for i := 0; i < n && rg.to > rg.from; i++ {
				bits[(rg.from+r.Intn(rg.to-rg.from))*8+r.Intn(8)] = true
			}
			bits[rg.from*8] = true
			bits[(rg.to-1)*8+7] = true
		} else if rg.name == "offsets" && len(m.Lay.Offsets) > 8 && !hx.Thorough() {
			for i := 0; i < 64; i++ {
				bits[(rg.from+r.Intn(rg.to-rg.from))*8+r.Intn(8)] = true
			}
		} else {
			for b := rg.from * 8; b < rg.to*8; b++ {
				bits[b] = true
			}
		}
	}
	_ = L
	var ps []plant
	for b := range bits {
		e := append([]byte{}, m.Entry...)
		e[b/8] ^= 1 << (b % 8)
		// compile only: executing machine code entered at a corrupted offset can do anything
		ps = append(ps, plant{label: "bitflip", detail: fmt.Sprintf("bit=%d", b), bytes: e, pos: b / 8, noexec: true})
	}
	sort.Slice(ps, func(i, j int) bool {
		return ps[i].pos*8 < ps[j].pos*8 || (ps[i].pos == ps[j].pos && ps[i].detail < ps[j].detail)
	})
	rs := m.runPlants("bitflip", ps)
	m.judgePlants("bitflip", ps, rs, len(m.Entry) < 20000)
	// consequence of the accepted flips in the function offsets: execute a few of them, one child each
	done := 0
	for i, p := range ps {
		if done >= nexec || m.Lay.regionOf(p.pos) != "offsets" || rs[i].class() != "hit" {
			continue
		}
		done++
		dir := freshDir("flipexec-" + m.Name)
		vd := filepath.Join(dir, "cache", m.VDir)
		os.MkdirAll(vd, 0o755)
		os.WriteFile(filepath.Join(vd, m.EntryName), p.bytes, 0o600)
		co := runChild(20*time.Second, nil, m.runArgs(filepath.Join(dir, "cache"))...)
		res := co.Results[0]
		outcome := "same-results"
		switch {
		case co.Killed:
			outcome = "hang"
		case co.ExitCode != 0:
			outcome = fmt.Sprintf("child-died(exit=%d)", co.ExitCode)
		case res.key() != m.Baseline.key():
			outcome = "different-results"
		}
		rep.Count("flipped-offset-executed:" + outcome)
		rep.Note("module %s, %s in a function offset, entry accepted and executed: %s", m.Name, p.detail, outcome)
		os.RemoveAll(dir)
	}
}

// ---- concurrent writers inside ONE process (goroutines / runtimes / caches on one directory): everything that
// is "unique per process" (pid, start time, a counter) is shared between them
func (m *modInfo) concurrentInProcess(round int) {
	dir := freshDir("concip-" + m.Name)
	defer os.RemoveAll(dir)
	cache := filepath.Join(dir, "cache")
	const W = 6
	start := make(chan struct{})
	res := make([]RunResult, W)
	var wg sync.WaitGroup
	for i := 0; i < W; i++ {
		wg.Add(1)
		go func(i int) {
			defer wg.Done()
			<-start
			res[i] = runOnce(cache, m.Bytes, m.Kind, "compiler", true)
		}(i)
	}
	stop := make(chan struct{})
	var partial []int
	var rwg sync.WaitGroup
	rwg.Add(1)
	go func() {
		defer rwg.Done()
		fp := filepath.Join(cache, m.VDir, m.EntryName)
		for {
			select {
			case <-stop:
				return
			default:
			}
			if b, err := os.ReadFile(fp); err == nil && !bytes.Equal(b, m.Entry) {
				partial = append(partial, len(b))
			}
		}
	}()
	close(start)
	wg.Wait()
	close(stop)
	rwg.Wait()
	input := map[string]any{"module": m.Name, "writers": W, "in_one_process": true, "round": round}
	rep.Case(fmt.Sprintf("concurrent-in-process:%s:round=%d", m.Name, round))
	o := observe(cache, m.Entry)
	if len(partial) > 0 {
		violate("impl-violation", "C13:reader-saw-incomplete-entry-during-concurrent-add", "a reader opened the final name while 6 goroutines of one process were adding it and saw something else than the complete entry", input, "complete entry", partial)
	}
	if o.Final != "full" {
		violate("impl-violation", "C13:concurrent-writers-final-not-complete", "after 6 concurrent in-process writers of one key the final name does not hold a complete entry", input, "final=full", o.String())
	}
	if len(o.BadNames) > 0 || o.TempBad || len(o.Temps) > 0 {
		violate("impl-violation", "C13:concurrent-writers-leftover", "files left by concurrent in-process writers, none of which died", input, "no temp files", map[string]any{"obs": o.String(), "bad": o.BadNames})
	}
	for i := range res {
		if res[i].CompileErr != "" || res[i].Panic != "" {
			violate("impl-violation", "C13:concurrent-writer-failed", "CompileModule failed in one of 6 goroutines compiling the same module with a shared cache directory", input, "no error", res[i])
		}
	}
}

// ---- DIFFERENT modules compiled concurrently in one process into one cache directory: every entry must be the
// deterministic entry of ITS module (anything shared between compilations of one process - a pooled buffer, a
// scratch slice of the engine - shows only when the writers do NOT write the same bytes).
func concurrentDifferentModules(r *rand.Rand, rounds int) {
	const K, G = 48, 12
	type ref struct {
		bin   []byte
		name  string
		entry []byte
	}
	refs := make([]ref, K)
	vdir := ""
	for k := range refs {
		refs[k].bin = bigModule(rand.New(rand.NewSource(r.Int63())), 2+k%5)
		dir := freshDir(fmt.Sprintf("difref-%d", k))
		res := runOnce(filepath.Join(dir, "cache"), refs[k].bin, "plain", "compiler", true)
		if res.CompileErr != "" || res.Panic != "" {
			hx.Fatal("reference compile of module %d: %v", k, res)
		}
		vds, _ := os.ReadDir(filepath.Join(dir, "cache"))
		if len(vds) != 1 {
			hx.Fatal("reference cache of module %d has %d version directories", k, len(vds))
		}
		vdir = vds[0].Name()
		es, _ := os.ReadDir(filepath.Join(dir, "cache", vdir))
		if len(es) != 1 {
			hx.Fatal("reference cache of module %d has %d entries", k, len(es))
		}
		refs[k].name = es[0].Name()
		refs[k].entry, _ = os.ReadFile(filepath.Join(dir, "cache", vdir, refs[k].name))
		os.RemoveAll(dir)
	}
	prev := runtime.GOMAXPROCS(4) // more compiling goroutines than Ps
	defer runtime.GOMAXPROCS(prev)
	bad := 0
	for round := 0; round < rounds && bad == 0; round++ {
		dir := freshDir(fmt.Sprintf("difconc-%d", round))
		cache := filepath.Join(dir, "cache")
		var wg sync.WaitGroup
		start := make(chan struct{})
		for g := 0; g < G; g++ {
			wg.Add(1)
			go func(g int) {
				defer wg.Done()
				<-start
				for j := 0; j < K/G; j++ {
					k := g*(K/G) + j
					if res := runOnce(cache, refs[k].bin, "plain", "compiler", true); res.CompileErr != "" || res.Panic != "" {
						violate("impl-violation", "C13:concurrent-writer-failed", "CompileModule failed while other modules were compiled concurrently into the same cache directory", map[string]any{"module_index": k, "round": round}, "no error", res)
					}
				}
			}(g)
		}
		close(start)
		wg.Wait()
		rep.Case(fmt.Sprintf("concurrent-different-modules:round=%d", round))
		for k := range refs {
			got, err := os.ReadFile(filepath.Join(cache, vdir, refs[k].name))
			if err != nil || !bytes.Equal(got, refs[k].entry) {
				bad++
				whose := "a mixture"
				for j := range refs {
					if j != k && len(got) >= len(refs[j].entry) && bytes.Equal(got[:len(refs[j].entry)], refs[j].entry) {
						whose = fmt.Sprintf("the complete entry of module %d followed by %d more bytes", j, len(got)-len(refs[j].entry))
					}
				}
				violate("impl-violation", "C13:entry-not-deterministic-under-concurrent-compiles-of-other-modules",
					fmt.Sprintf("module %d of %d compiled concurrently (12 goroutines on 4 Ps, one cache directory): its entry differs from the one a sequential compile writes (%v): %s", k, K, err, whose),
					map[string]any{"round": round, "module_index": k, "module_hex": trunc(hex.EncodeToString(refs[k].bin))}, fmt.Sprintf("%d bytes", len(refs[k].entry)), fmt.Sprintf("%d bytes", len(got)))
				if bad >= 3 {
					break
				}
			}
		}
		os.RemoveAll(dir)
	}
	rep.Count(fmt.Sprintf("concurrent-different-modules:rounds=%d", rounds))
}

// ---- concurrent writers
func (m *modInfo) concurrent(round int, r *rand.Rand) {
	dir := freshDir("conc-" + m.Name)
	defer os.RemoveAll(dir)
	cache := filepath.Join(dir, "cache")
	barrier := filepath.Join(dir, "go")
	const W = 8
	crashEnv := make([]string, W)
	ncrash := 0
	if round%2 == 1 {
		for i := 0; i < W; i++ {
			if r.Intn(3) == 0 {
				switch r.Intn(3) {
				case 0:
					crashEnv[i] = fmt.Sprintf("mid-copy:%d", r.Intn(len(m.Entry)+1))
				case 1:
					crashEnv[i] = "after-close"
				default:
					crashEnv[i] = "after-createtemp"
				}
				ncrash++
			}
		}
		if ncrash == W {
			crashEnv[0] = ""
			ncrash--
		}
	}
	type wres struct {
		res RunResult
		co  childOut
	}
	outs := make([]wres, W)
	var wg sync.WaitGroup
	for i := 0; i < W; i++ {
		wg.Add(1)
		go func(i int) {
			defer wg.Done()
			env := []string{fmt.Sprintf("GOMAXPROCS=%d", 1+i%4)}
			if crashEnv[i] != "" {
				env = append(env, "WAZERO_VERIF_CRASH="+crashEnv[i])
			}
			res, co := m.run(cache, env, "-barrier", barrier)
			outs[i] = wres{res, co}
		}(i)
	}
	// reader: whatever is visible under the final name is complete
	stop := make(chan struct{})
	var partial []int
	var reads int
	var rwg sync.WaitGroup
	rwg.Add(1)
	go func() {
		defer rwg.Done()
		fp := filepath.Join(cache, m.VDir, m.EntryName)
		for {
			select {
			case <-stop:
				return
			default:
			}
			if b, err := os.ReadFile(fp); err == nil {
				reads++
				if !bytes.Equal(b, m.Entry) {
					partial = append(partial, len(b))
				}
			}
		}
	}()
	time.Sleep(150 * time.Millisecond) // let the children reach the barrier
	os.WriteFile(barrier, nil, 0o600)
	wg.Wait()
	close(stop)
	rwg.Wait()
	input := map[string]any{"module": m.Name, "writers": W, "crashing": crashEnv, "round": round}
	rep.Case(fmt.Sprintf("concurrent:%s:round=%d:crashing=%d", m.Name, round, ncrash))
	rep.Count(fmt.Sprintf("concurrent-reads-of-final:%d", reads/50*50))
	o := observe(cache, m.Entry)
	if len(partial) > 0 {
		violate("impl-violation", "C13:reader-saw-incomplete-entry-during-concurrent-add", "a reader opened the final name while 8 writers were adding it and saw something else than the complete entry", input, "complete entry", partial)
	}
	if o.Final != "full" {
		violate("impl-violation", "C13:concurrent-writers-final-not-complete", "after 8 concurrent writers of one key the final name does not hold a complete entry", input, "final=full", o.String())
	}
	if len(o.BadNames) > 0 || o.TempBad || len(o.Temps) > ncrash {
		violate("impl-violation", "C13:concurrent-writers-leftover", "unexpected files left by concurrent writers (temp files of writers that did not die, or foreign names)", input, fmt.Sprintf("at most %d temp files, each a prefix of the entry", ncrash), map[string]any{"obs": o.String(), "bad": o.BadNames})
	}
	for i, w := range outs {
		if crashEnv[i] != "" {
			if w.co.ExitCode != 137 && w.co.ExitCode != 0 { // 0: another writer's entry was hit before this one's Add
				violate("impl-violation", "C13:concurrent-writer-failed", "a writer failed", input, "exit 137 or 0", map[string]any{"exit": w.co.ExitCode, "stderr": w.co.Stderr})
			}
			continue
		}
		if w.co.ExitCode != 0 || w.res.key() != m.Baseline.key() {
			violate("impl-violation", "C13:concurrent-writer-wrong-result", "one of the concurrent processes did not compile and run the module like a cache-less run", input, m.Baseline, map[string]any{"res": w.res, "exit": w.co.ExitCode, "stderr": w.co.Stderr})
		}
	}
	// the model under a random schedule of the same shape agrees that the final entry is complete
	lens := make([]string, W)
	var evs []string
	left := make([]int, W)
	for i := 0; i < W; i++ {
		lens[i] = "3"
		left[i] = 3 + 4
		if crashEnv[i] != "" {
			left[i] = r.Intn(6)
		}
	}
	for {
		var live []int
		for i, l := range left {
			if l > 0 {
				live = append(live, i)
			}
		}
		if len(live) == 0 {
			break
		}
		i := live[r.Intn(len(live))]
		left[i]--
		evs = append(evs, fmt.Sprintf("r%d", i))
	}
	ans := orc.Askf("c13 sched %s %s -", strings.Join(lens, ","), strings.Join(evs, ","))
	if !strings.HasPrefix(ans, "final=full ") {
		violate("correspondence", "C13:model-schedule", "the model's final entry under a schedule of 8 writers is not complete", map[string]any{"schedule": evs}, "final=full", ans)
	}
}

func main() {
	flag.Parse()
	if *childMode != "" {
		childMain()
		return
	}
	var err error
	self, err = os.Executable()
	if err != nil {
		hx.Fatal("executable: %v", err)
	}
	if *hx.Work == "" {
		hx.Fatal("-work is required")
	}
	orc = hx.StartOracle()
	defer orc.Close()
	rep = hx.NewReport("C13", "cases = (module, fault) pairs: death at every named point of fileCache.Add incl. mid-copy at 1/16 steps, with and without a simulated power loss; every truncation length of a small entry and stratified lengths (all region boundaries) of larger ones; rewritten version strings; single-bit flips over all header bits and sampled body bits; rounds of 8 concurrent writers; determinism runs. A case is distinct by (module, fault kind, position).")
	r := hx.Rand()
	wd := filepath.Join(*hx.Work, "hc13.d")
	os.MkdirAll(wd, 0o755)
	defer os.RemoveAll(wd)

	repo := os.Getenv("VERIF_REPO")
	if repo == "" {
		repo = "/repo"
	}
	var mods []*modInfo
	addMod := func(name, kind string, b []byte) *modInfo {
		p := filepath.Join(wd, name+".wasm")
		if err := os.WriteFile(p, b, 0o600); err != nil {
			hx.Fatal("write module: %v", err)
		}
		m := &modInfo{Name: name, Kind: kind, Bytes: b, Path: p}
		mods = append(mods, m)
		return m
	}
	small := addMod("small", "plain", smallModule())
	nofunc := addMod("nofunc", "plain", nofuncModule())
	nbig := 40
	if hx.Thorough() {
		nbig = 160
	}
	big := addMod("big", "plain", bigModule(r, nbig))
	ab, _ := allops.Module()
	addMod("allops", "plain", ab) // every instruction wazero knows: a process-dependent lowering of ONE of them must not hide
	var dwarf, tinygo *modInfo
	if b, err := os.ReadFile(filepath.Join(repo, "internal/testing/dwarftestdata/testdata/zig-cc/main.wasm")); err == nil {
		dwarf = addMod("dwarf-zigcc", "dwarf", b)
	} else {
		rep.Note("no DWARF test module found under %s: source-map part of the entry not exercised", repo)
	}
	if hx.Thorough() {
		if b, err := os.ReadFile(filepath.Join(repo, "internal/testing/dwarftestdata/testdata/tinygo/main.wasm")); err == nil {
			tinygo = addMod("dwarf-tinygo", "dwarf", b)
		}
	}
	okMods := map[*modInfo]bool{}
	for _, m := range mods {
		okMods[m] = m.baseline()
	}
	if !hookOK {
		violate("correspondence", "C13:crash-hook-missing", "the harness was built without the verif hook of internal/filecache (repo_patches/C13-hook-crash.diff not applied?): crash points and the hit/recompiled distinction are not observable", nil, nil, nil)
		rep.Write(orc)
		return
	}
	// the interpreter has no on-disk cache
	{
		dir := freshDir("interp")
		_, co := small.run(filepath.Join(dir, "cache"), nil, "-engine", "interpreter")
		o := observe(filepath.Join(dir, "cache"), nil)
		rep.Case("interpreter-no-disk-cache")
		if co.ExitCode == 0 && o.Final == "none" && len(o.Temps) == 0 {
			rep.Note("interpreter engine: NewCompilationCacheWithDir creates the directory but never writes an entry (no on-disk cache exists for it)")
		} else {
			rep.Note("interpreter engine wrote to the cache directory: %s", o.String())
			violate("correspondence", "C13:interpreter-writes-cache", "the interpreter engine now writes cache entries; they are not modelled", nil, "no entries", o.String())
		}
		os.RemoveAll(dir)
	}

	var wg sync.WaitGroup
	par := func(f func()) {
		wg.Add(1)
		go func() { defer wg.Done(); f() }()
	}
	// determinism
	procs := []int{1, 2, 3, 8, 16}
	for _, m := range mods {
		if okMods[m] {
			m := m
			par(func() { m.determinism(procs); m.crossExecutable(); m.otherMachine(); m.otherSettings() })
		}
	}
	wg.Wait()
	// crash points
	sem := make(chan struct{}, 12)
	crashMods := []*modInfo{small, big}
	if hx.Thorough() && dwarf != nil {
		crashMods = append(crashMods, dwarf, nofunc)
	}
	for _, m := range crashMods {
		if !okMods[m] {
			continue
		}
		for _, cp := range m.crashPoints() {
			keeps := []int{-1, 0}
			if cp.opoint != "createTemp" {
				keeps = append(keeps, len(m.Entry)/2)
			}
			if hx.Thorough() {
				keeps = append(keeps, 1, len(m.Entry)-1)
			}
			for _, k := range keeps {
				m, cp, k := m, cp, k
				sem <- struct{}{}
				par(func() { defer func() { <-sem }(); m.crashCase(cp, k) })
			}
		}
	}
	wg.Wait()
	// truncation
	if okMods[small] {
		small.truncations(true, r, true)
	}
	if okMods[nofunc] {
		nofunc.truncations(true, r, true)
	}
	if okMods[big] {
		big.truncations(false, r, len(big.Entry) < 20000 || hx.Thorough())
	}
	if dwarf != nil && okMods[dwarf] {
		dwarf.truncations(hx.Thorough(), r, true)
	}
	if tinygo != nil && okMods[tinygo] {
		tinygo.truncations(false, r, false)
	}
	// versions
	for _, m := range mods {
		if okMods[m] && m != tinygo {
			m.versions()
		}
	}
	// bit flips
	if okMods[small] {
		small.bitflips(r, 3)
	}
	if okMods[nofunc] {
		nofunc.bitflips(r, 0)
	}
	if dwarf != nil && okMods[dwarf] {
		dwarf.bitflips(r, 0)
	}
	if hx.Thorough() && okMods[big] {
		big.bitflips(r, 3)
	}
	// concurrent writers
	rounds := 6
	if hx.Thorough() {
		rounds = 40
	}
	for i := 0; i < rounds; i++ {
		m := small
		if i%3 == 2 {
			m = big
		}
		if okMods[m] {
			m.concurrent(i, r)
			m.concurrentInProcess(i)
		}
	}
	if hx.Thorough() {
		concurrentDifferentModules(r, 60)
	} else {
		concurrentDifferentModules(r, 8)
	}
	crossDeviceStage()
	if readerVariant["repaired"] > 0 && readerVariant["as-is"] > 0 {
		violate("correspondence", "C13:reader-variant-mixed", fmt.Sprintf("the real reader matches the as-is model on %d and the repaired model on %d of the planted entries that distinguish them", readerVariant["as-is"], readerVariant["repaired"]), nil, nil, nil)
	}
	for k, v := range readerVariant {
		rep.Count(fmt.Sprintf("finding-switch:C13-F1:%s-variant-corresponds:%d", k, v))
	}
	rep.Exhaustive = false
	rep.Write(orc)
}

var _ = api.ValueTypeI32
