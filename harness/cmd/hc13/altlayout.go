//go:build altlayout

package main

// A second executable: the same harness with a different data layout.  Extra packages and a large initialised
// global move every Go global of wazero to another address (no ASLR needed), which is all another embedder of
// the same wazero version differs in as far as the compilation cache is concerned.

import (
	_ "encoding/xml"
	_ "image/png"
	_ "net/http"
	_ "text/template"
)

var altLayoutPad = [3 << 20]byte{1, 2, 3}

func init() {
	if altLayoutPad[0] == 0 { // keep the pad (and the blank imports' data) linked in
		panic("unreachable")
	}
	altLayoutPad[1]++
}
