package main

// Other-machine stage: "compiling the same module with the same settings always produces the same cache entry" -
// whatever else is in the cache directory.  The settings include the machine: the amd64 back end selects
// instructions by CPU feature (LZCNT/TZCNT only with ABM), so a cache directory shared by, or moved between, two
// machines holds entries of both, and what machine B finds and executes there must be the entry B itself produces
// alone.  Machine B is played in a child process by masking one feature of this CPU (the masked variant only ever
// executes code that this CPU supports); machine A is this CPU.

import (
	"bytes"
	"encoding/hex"
	"fmt"
	"os"
	"path/filepath"
	"runtime"

	"github.com/tetratelabs/wazero/internal/platform"
)

// maskedCPU is this CPU without ABM (child flag -cpu noabm).
type maskedCPU struct{ platform.CpuFeatureFlags }

func (m maskedCPU) HasExtra(f platform.CpuFeature) bool {
	return f != platform.CpuExtraFeatureAmd64ABM && m.CpuFeatureFlags.HasExtra(f)
}

// Raw: the real value with the ABM bit cleared (bit 3 in cpuFeatureFlags.Raw; any value that differs from the
// unmasked one and is stable across processes plays "another feature set").
func (m maskedCPU) Raw() uint64 { return m.CpuFeatureFlags.Raw() &^ (1 << 3) }

func applyCPUFlag(v string) {
	if v == "noabm" {
		platform.CpuFeatures = maskedCPU{platform.CpuFeatures}
	}
}

func entriesOf(dir string) map[string][]byte {
	out := map[string][]byte{}
	filepath.Walk(dir, func(p string, info os.FileInfo, err error) error {
		if err == nil && !info.IsDir() && finalRe.MatchString(filepath.Base(p)) {
			if b, err := os.ReadFile(p); err == nil {
				out[filepath.Base(p)] = b
			}
		}
		return nil
	})
	return out
}

func (m *modInfo) otherMachine() {
	if runtime.GOARCH != "amd64" || !platform.CpuFeatures.HasExtra(platform.CpuExtraFeatureAmd64ABM) {
		rep.Count("other-machine:skipped-this-cpu-has-no-feature-to-mask")
		return
	}
	rep.Case("other-machine:" + m.Name)
	in := map[string]any{"module": m.Name, "module_hex": trunc(hex.EncodeToString(m.Bytes)), "machine_A": "this CPU", "machine_B": "this CPU without ABM (child flag -cpu noabm)"}
	alone, shared := freshDir("mb-"+m.Name), freshDir("mab-"+m.Name)
	defer os.RemoveAll(alone)
	defer os.RemoveAll(shared)
	rAlone, co := m.run(filepath.Join(alone, "cache"), nil, "-cpu", "noabm")
	if co.ExitCode != 0 || rAlone.key() != m.Baseline.key() {
		violate("impl-violation", "C13:machine-without-a-feature-computes-differently:"+m.Name, fmt.Sprintf("machine B alone (cold cache): exit %d, results differ from the cache-less run of machine A: %s", co.ExitCode, co.Stderr), in, m.Baseline.key(), rAlone.key())
		return
	}
	want := entriesOf(filepath.Join(alone, "cache"))
	if _, co := m.run(filepath.Join(shared, "cache"), nil); co.ExitCode != 0 {
		violate("impl-violation", "C13:cold-run-fails:"+m.Name, "machine A, cold cache: "+co.Stderr, in, nil, nil)
		return
	}
	rB, co := m.run(filepath.Join(shared, "cache"), nil, "-cpu", "noabm")
	if co.ExitCode != 0 || co.Killed || rB.key() != m.Baseline.key() {
		violate("impl-violation", "C13:machine-B-on-a-cache-written-by-machine-A:"+m.Name, fmt.Sprintf("machine B run on the cache directory machine A filled: exit %d killed %v, results differ from its run alone: %s", co.ExitCode, co.Killed, co.Stderr), in, m.Baseline.key(), rB.key())
		return
	}
	got := entriesOf(filepath.Join(shared, "cache"))
	for name, e := range want {
		g, ok := got[name]
		switch {
		case !ok:
			violate("impl-violation", "C13:same-module-and-settings-different-entry-after-another-machine:"+m.Name,
				"machine B alone writes entry "+name[:16]+"…; on a directory machine A had filled the same compilation leaves no entry of that name", in, "entry "+name, fmt.Sprint(len(got))+" entries")
		case !bytes.Equal(g, e):
			diff := 0
			for diff < len(g) && diff < len(e) && g[diff] == e[diff] {
				diff++
			}
			violate("impl-violation", "C13:same-module-and-settings-different-entry-after-another-machine:"+m.Name,
				fmt.Sprintf("machine B alone writes entry %s… with %d bytes; on a directory machine A had filled, the entry of that name machine B finds (and executes) differs from byte %d on: it is the code machine A compiled for its own feature set", name[:16], len(e), diff),
				in, fmt.Sprintf("%d bytes identical to machine B's own entry", len(e)), fmt.Sprintf("len=%d, first difference at byte %d", len(g), diff))
		default:
			rep.Count("other-machine-ok")
		}
	}
}

// otherSettings: a cache entry is looked up by its NAME alone, so the name has to determine the content: whatever
// configuration knob is turned (memory limit, capacity-from-max, debug information), a process that writes an entry
// under the name this module has under the default configuration must write the same bytes - otherwise a reader
// configured differently executes code compiled for the writer's configuration.  "Content" = what is executed (function
// offsets, machine code); the source map that follows it is tooling and may follow the writer's debug-info setting.  (Knobs that DO change the name -
// listeners, close-on-context-done - are free to change the content.)
func (m *modInfo) otherSettings() {
	in := func(setting string) map[string]any {
		return map[string]any{"module": m.Name, "module_hex": trunc(hex.EncodeToString(m.Bytes)), "settings_of_the_writer": setting}
	}
	for _, set := range [][]string{{"-limit", "1"}, {"-limit", "2"}, {"-limit", "3"}, {"-limit", "17"}, {"-cfm"}, {"-nodebug"}, {"-limit", "1", "-cfm"}} {
		name := fmt.Sprint(set)
		dir := freshDir("set-" + m.Name)
		_, co := m.run(filepath.Join(dir, "cache"), nil, append([]string{"-noexec"}, set...)...)
		rep.Case("other-settings:" + m.Name + ":" + name)
		if co.ExitCode != 0 {
			rep.Count("other-settings:compile-refused-under-this-setting") // e.g. the module's minimum exceeds the limit
			os.RemoveAll(dir)
			continue
		}
		for n, e := range entriesOf(filepath.Join(dir, "cache")) {
			if n != m.EntryName {
				rep.Count("other-settings:other-name")
				continue
			}
			// what a reader EXECUTES: function offsets and machine code.  The source map behind them (present only
			// when debug information is kept) is tooling: its presence may follow the writer's configuration.
			le, lm := parseEntry(e), m.Lay
			sameCode := le != nil && le.valid && lm != nil && bytes.Equal(le.Exec, lm.Exec) && fmt.Sprint(le.Offsets) == fmt.Sprint(lm.Offsets)
			if !bytes.Equal(e, m.Entry) && sameCode {
				rep.Count("other-settings:same-code-other-source-map")
			}
			if !sameCode {
				diff := 0
				for diff < len(e) && diff < len(m.Entry) && e[diff] == m.Entry[diff] {
					diff++
				}
				violate("impl-violation", "C13:same-entry-name-different-content-under-other-settings:"+m.Name,
					fmt.Sprintf("compiled under %s the module gets the SAME entry name as under the default configuration but other function offsets / machine code (%d vs %d bytes, first difference at byte %d, region %s): a process with the default configuration that finds this entry executes code compiled for the other configuration", name, len(e), len(m.Entry), diff, m.Lay.regionOf(diff)),
					in(name), fmt.Sprintf("%d bytes identical to the default configuration's entry", len(m.Entry)), fmt.Sprintf("len=%d", len(e)))
			} else {
				rep.Count("other-settings-ok")
			}
		}
		os.RemoveAll(dir)
	}
}
