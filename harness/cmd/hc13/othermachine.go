package main

// Other-machine stage: "compiling the same module with the same settings always produces the same cache entry" -
// whatever else is in the cache directory.  The settings include the machine: the amd64 back end selects
// instructions by CPU feature (LZCNT/TZCNT only with ABM), so a cache directory shared by, or moved between, two
// machines holds entries of both, and what machine B finds and executes there must be the entry B itself produces
// alone.  Machine B is played in a child process by masking one feature of this CPU (the masked variant only ever
// executes code that this CPU supports); machine A is this CPU.

import (
	"bytes"
	"encoding/hex"
	"fmt"
	"os"
	"path/filepath"
	"runtime"

	"github.com/tetratelabs/wazero/internal/platform"
)

// maskedCPU is this CPU without ABM (child flag -cpu noabm).
type maskedCPU struct{ platform.CpuFeatureFlags }

func (m maskedCPU) HasExtra(f platform.CpuFeature) bool {
	return f != platform.CpuExtraFeatureAmd64ABM && m.CpuFeatureFlags.HasExtra(f)
}

// Raw: the real value with the ABM bit cleared (bit 3 in cpuFeatureFlags.Raw; any value that differs from the
// unmasked one and is stable across processes plays "another feature set").
func (m maskedCPU) Raw() uint64 { return m.CpuFeatureFlags.Raw() &^ (1 << 3) }

func applyCPUFlag(v string) {
	if v == "noabm" {
		platform.CpuFeatures = maskedCPU{platform.CpuFeatures}
	}
}

func entriesOf(dir string) map[string][]byte {
	out := map[string][]byte{}
	filepath.Walk(dir, func(p string, info os.FileInfo, err error) error {
		if err == nil && !info.IsDir() && finalRe.MatchString(filepath.Base(p)) {
			if b, err := os.ReadFile(p); err == nil {
				out[filepath.Base(p)] = b
			}
		}
		return nil
	})
	return out
}

func (m *modInfo) otherMachine() {
	if runtime.GOARCH != "amd64" || !platform.CpuFeatures.HasExtra(platform.CpuExtraFeatureAmd64ABM) {
		rep.Count("other-machine:skipped-this-cpu-has-no-feature-to-mask")
		return
	}
	rep.Case("other-machine:" + m.Name)
	in := map[string]any{"module": m.Name, "module_hex": trunc(hex.EncodeToString(m.Bytes)), "machine_A": "this CPU", "machine_B": "this CPU without ABM (child flag -cpu noabm)"}
	alone, shared := freshDir("mb-"+m.Name), freshDir("mab-"+m.Name)
	defer os.RemoveAll(alone)
	defer os.RemoveAll(shared)
	rAlone, co := m.run(filepath.Join(alone, "cache"), nil, "-cpu", "noabm")
	if co.ExitCode != 0 || rAlone.key() != m.Baseline.key() {
		violate("impl-violation", "C13:machine-without-a-feature-computes-differently:"+m.Name, fmt.Sprintf("machine B alone (cold cache): exit %d, results differ from the cache-less run of machine A: %s", co.ExitCode, co.Stderr), in, m.Baseline.key(), rAlone.key())
		return
	}
	want := entriesOf(filepath.Join(alone, "cache"))
	if _, co := m.run(filepath.Join(shared, "cache"), nil); co.ExitCode != 0 {
		violate("impl-violation", "C13:cold-run-fails:"+m.Name, "machine A, cold cache: "+co.Stderr, in, nil, nil)
		return
	}
	rB, co := m.run(filepath.Join(shared, "cache"), nil, "-cpu", "noabm")
	if co.ExitCode != 0 || co.Killed || rB.key() != m.Baseline.key() {
		violate("impl-violation", "C13:machine-B-on-a-cache-written-by-machine-A:"+m.Name, fmt.Sprintf("machine B run on the cache directory machine A filled: exit %d killed %v, results differ from its run alone: %s", co.ExitCode, co.Killed, co.Stderr), in, m.Baseline.key(), rB.key())
		return
	}
	got := entriesOf(filepath.Join(shared, "cache"))
	for name, e := range want {
		g, ok := got[name]
		switch {
		case !ok:
			violate("impl-violation", "C13:same-module-and-settings-different-entry-after-another-machine:"+m.Name,
				"machine B alone writes entry "+name[:16]+"…; on a directory machine A had filled the same compilation leaves no entry of that name", in, "entry "+name, fmt.Sprint(len(got))+" entries")
		case !bytes.Equal(g, e):
			diff := 0
			for diff < len(g) && diff < len(e) && g[diff] == e[diff] {
				diff++
			}
			violate("impl-violation", "C13:same-module-and-settings-different-entry-after-another-machine:"+m.Name,
				fmt.Sprintf("machine B alone writes entry %s… with %d bytes; on a directory machine A had filled, the entry of that name machine B finds (and executes) differs from byte %d on: it is the code machine A compiled for its own feature set", name[:16], len(e), diff),
				in, fmt.Sprintf("%d bytes identical to machine B's own entry", len(e)), fmt.Sprintf("len=%d, first difference at byte %d", len(g), diff))
		default:
			rep.Count("other-machine-ok")
		}
	}
}
