// hfrontmem: tie of the Lean model of wazevo's front end on straight-line integer code WITH LINEAR MEMORY ACCESSES
// (Wz.Model.FrontendMem, oracle topic `c01frontmem`) to the real front end (internal/engine/wazevo/frontend:
// Compiler.LowerToSSA with memOpSetup / getMemoryBaseValue / getMemoryLenValue / the known-safe-bound cache).
// Structure copied from cmd/hfront.
//
// Functions of the fragment (hfront's instructions plus the 12 integer loads, the 7 integer stores with static
// offsets, and memory.size) are generated type-correctly (gen.go), rendered as the oracle's text AND encoded as a
// real Wasm module WITH A LOCALLY DEFINED, NON-SHARED MEMORY, which the REAL decoder and validator must accept.
// The REAL front end compiles the function in-process and
//
//  1. the text of ssaBuilder.Format() must be string-equal, line by line and without any renumbering of values,
//     to the answer of `c01frontmem lower` (C01:frontmem-model-differs); `c01frontmem wt` must answer 1;
//  2. for several (argument vector, memory length, initial bytes): `c01frontmem run` (reference semantics of the Wasm
//     function vs. the Lean SSA semantics of the MODEL's lowering, with final memory digests and the check that
//     every logged access is inside the memory) must be consistent (a difference would contradict the theorems:
//     C01:frontmem-model-inconsistent); the REAL Format() text is converted to tokens and run by the Lean SSA
//     semantics (`c01frontmem runssa`), before and after the REAL builder.RunPasses(): outcome and final memory
//     must be those of the reference semantics (C01:frontmem-real-ssa-differs-from-spec,
//     C01:frontmem-real-optimized-ssa-differs-from-spec) and every access must stay inside the memory
//     (C02:frontmem-real-ssa-access-outside-memory).  Every use in the converted real text must have a definition.
//
// Replay: -replay FILE with {"fn": "<function text>"[, "cases": [{"args": "<hex,…|->", "memlen": "<hex>", "init": "<a=b,…|->"}, …]]}
// or a report whose first violation has such an input.  -mutate N perturbs the REAL side before the comparisons.
package main

import (
	"bytes"
	"encoding/json"
	"flag"
	"fmt"
	"math/rand"
	"os"
	"runtime"
	"sort"
	"strconv"
	"strings"
	"sync"
	"time"

	"github.com/tetratelabs/wazero/api"
	"github.com/tetratelabs/wazero/internal/engine/wazevo/frontend"
	"github.com/tetratelabs/wazero/internal/engine/wazevo/ssa"
	"github.com/tetratelabs/wazero/internal/engine/wazevo/wazevoapi"
	"github.com/tetratelabs/wazero/internal/testing/binaryencoding"
	"github.com/tetratelabs/wazero/internal/wasm"
	"github.com/tetratelabs/wazero/internal/wasm/binary"
	"github.com/tetratelabs/wazero/verifharness/hx"
)

var (
	rep    *hx.Report
	mutate = flag.Int("mutate", 0, "self-test: perturb the REAL output before comparing (1 drop the ExitIfTrue lines, 2 offset of the first Load/Uload/Sload of linear memory + 1, 3 first Uload8 -> Sload8, 4 first Istore16 -> Istore8, 5 first bounds constant - 1)")
)

const features = api.CoreFeaturesV2

// ---------------------------------------------------------------- the real side

// decodeValidate: the module through wazero's test encoder, the REAL decoder and the REAL validator
func decodeValidate(f *fnDef) (*wasm.Module, error) {
	src := f.module()
	bin := binaryencoding.EncodeModule(src)
	m, err := binary.DecodeModule(bin, features, wasm.MemoryLimitPages, false, false, false)
	if err != nil {
		return nil, fmt.Errorf("decode: %w", err)
	}
	if err = m.Validate(features); err != nil {
		return nil, fmt.Errorf("validate: %w", err)
	}
	if len(m.CodeSection) != 1 || !bytes.Equal(m.CodeSection[0].Body, src.CodeSection[0].Body) ||
		!bytes.Equal(m.CodeSection[0].LocalTypes, src.CodeSection[0].LocalTypes) {
		hx.Fatal("the decoded module is not the encoded one: %s", f.text())
	}
	m.BuildMemoryDefinitions()
	return m, nil
}

// lowerReal runs the REAL front end on function 0 of the module (frontend_test.go: TestCompiler_LowerToSSA)
func lowerReal(m *wasm.Module) (b ssa.Builder, text string, panicked any) {
	defer func() {
		if r := recover(); r != nil {
			panicked = r
		}
	}()
	b = ssa.NewBuilder()
	offset := wazevoapi.NewModuleContextOffsetData(m, false)
	fc := frontend.NewFrontendCompiler(m, b, &offset, false, false, false)
	typeIndex := m.FunctionSection[0]
	code := &m.CodeSection[0]
	fc.Init(0, typeIndex, &m.TypeSection[typeIndex], code.LocalTypes, code.Body, false, 0)
	fc.LowerToSSA()
	text = b.Format()
	return
}

func runPassesReal(b ssa.Builder) (text string, panicked any) {
	defer func() {
		if r := recover(); r != nil {
			panicked = r
		}
	}()
	b.RunPasses()
	text = b.Format()
	return
}

// canonLines: the lines of Format() trimmed, empty lines dropped
func canonLines(text string) []string {
	var out []string
	for _, l := range strings.Split(text, "\n") {
		if l = strings.TrimSpace(l); l != "" {
			out = append(out, l)
		}
	}
	return out
}

// ---------------------------------------------------------------- Format() text -> c01ssa tokens

type unmodelled struct{ what string }

func (u *unmodelled) Error() string { return u.what }

func valID(s string) (int, error) {
	switch s {
	case "exec_ctx":
		return 0, nil
	case "module_ctx":
		return 1, nil
	}
	if len(s) > 1 && s[0] == 'v' {
		if n, err := strconv.Atoi(s[1:]); err == nil && n >= 0 {
			return n, nil
		}
	}
	return 0, fmt.Errorf("value %q", s)
}

func typedVal(s string) (int, string, error) {
	name, ty, ok := strings.Cut(s, ":")
	if !ok || (ty != "i32" && ty != "i64") {
		return 0, "", fmt.Errorf("typed value %q", s)
	}
	id, err := valID(name)
	return id, ty, err
}

var ssaBin = map[string]string{"Iadd": "iadd", "Isub": "isub", "Imul": "imul", "Band": "band", "Bor": "bor", "Bxor": "bxor",
	"Ishl": "ishl", "Ushr": "ushr", "Sshr": "sshr", "Rotl": "rotl", "Rotr": "rotr"}
var ssaUn = map[string]string{"Clz": "clz", "Ctz": "ctz", "Popcnt": "popcnt", "Ireduce": "ireduce"}
var ssaDiv = map[string]string{"Sdiv": "sdiv", "Udiv": "udiv", "Srem": "srem", "Urem": "urem"}
var ssaCond = map[string]bool{"eq": true, "neq": true, "lt_s": true, "ge_s": true, "gt_s": true, "le_s": true,
	"lt_u": true, "ge_u": true, "gt_u": true, "le_u": true}

var ssaStore = map[string]string{"Store": "store", "Istore8": "istore8", "Istore16": "istore16", "Istore32": "istore32"}
var ssaExtLoad = map[string]string{"Uload8": "uload8", "Sload8": "sload8", "Uload16": "uload16", "Sload16": "sload16",
	"Uload32": "uload32", "Sload32": "sload32"}
var exitCodes = map[string]int{"memory_out_of_bounds": 4}

// parseOff: Format() prints the offset of a load as %#x of int32 (so it may be negative) and of a store as %#x of
// uint32; the instruction's offset is the unsigned 32-bit value
func parseOff(s string) (uint64, error) {
	neg := strings.HasPrefix(s, "-")
	s = strings.TrimPrefix(s, "-")
	if !strings.HasPrefix(s, "0x") {
		return 0, fmt.Errorf("offset %q", s)
	}
	v, err := strconv.ParseUint(s[2:], 16, 64)
	if err != nil || v > 0xffffffff || (neg && v > 0x80000000) {
		return 0, fmt.Errorf("offset %q", s)
	}
	if neg {
		v = (1 << 32) - v
	}
	return v, nil
}

// toTokens converts the canonical lines of a one-block Format() text into the token syntax of `c01ssa` (plus
// `sext:<r>:<from>:<ty>:<x>` of `c01frontx` for `SExtend x, 8->32` etc.).  undef names the first use of a value that
// no parameter or earlier instruction defines ("" when there is none).
func toTokens(lines []string) (toks string, undef string, err error) {
	toks, err = toTokens2(lines, &undef)
	return
}

func toTokens2(lines []string, undef *string) (string, error) {
	if len(lines) == 0 {
		return "", fmt.Errorf("no lines")
	}
	hdr := lines[0]
	if !strings.HasPrefix(hdr, "blk0: (") {
		return "", fmt.Errorf("header %q", hdr)
	}
	rest := hdr[len("blk0: ("):]
	k := strings.IndexByte(rest, ')')
	if k < 0 || (rest[k+1:] != "" && !strings.HasPrefix(rest[k+1:], " <-- ")) {
		return "", fmt.Errorf("header %q", hdr)
	}
	types := map[int]string{}
	out := []string{"B0:0"}
	if inner := rest[:k]; inner != "" {
		for _, p := range strings.Split(inner, ",") {
			id, ty, err := typedVal(strings.TrimSpace(p))
			if err != nil {
				return "", err
			}
			types[id] = ty
			out = append(out, fmt.Sprintf("P%d:%s", id, ty))
		}
	}
	ids := func(ss []string) ([]int, error) {
		r := make([]int, len(ss))
		for k, s := range ss {
			v, err := valID(s)
			if err != nil {
				return nil, err
			}
			if _, ok := types[v]; !ok && *undef == "" {
				*undef = s
			}
			r[k] = v
		}
		return r, nil
	}
	for _, l := range lines[1:] {
		bad := fmt.Errorf("line %q", l)
		lhs, rhs, hasDef := strings.Cut(l, " = ")
		if !hasDef {
			rhs = l
		}
		op, argText, _ := strings.Cut(rhs, " ")
		var args []string
		if argText != "" {
			args = strings.Split(argText, ", ")
		}
		if !hasDef && ssaStore[op] != "" && len(args) == 3 {
			v, err := ids(args[:2])
			if err != nil {
				return "", err
			}
			off, err := parseOff(args[2])
			if err != nil {
				return "", bad
			}
			vty, ok := types[v[0]]
			if !ok {
				return "", fmt.Errorf("line %q: stored value without a definition", l)
			}
			out = append(out, fmt.Sprintf("%s:%s:%d:%d:%d", ssaStore[op], vty, v[0], v[1], off))
			continue
		}
		if !hasDef && op == "ExitIfTrue" && len(args) == 3 {
			v, err := ids(args[:2])
			if err != nil {
				return "", err
			}
			code, ok := exitCodes[args[2]]
			if !ok {
				return "", bad
			}
			out = append(out, fmt.Sprintf("exitif:%d:%d:%d", v[1], v[0], code))
			continue
		}
		if !hasDef {
			switch {
			case op == "Jump" && len(args) >= 1 && args[0] == "blk_ret":
				args = args[1:]
			case op == "Return":
			default:
				return "", bad
			}
			vs, err := ids(args)
			if err != nil {
				return "", err
			}
			if len(vs) == 0 {
				out = append(out, "ret:-")
			} else {
				s := make([]string, len(vs))
				for k, v := range vs {
					s[k] = strconv.Itoa(v)
				}
				out = append(out, "ret:"+strings.Join(s, ","))
			}
			continue
		}
		r, ty, err := typedVal(lhs)
		if err != nil {
			return "", err
		}
		types[r] = ty
		switch {
		case op == "Iconst_32" || op == "Iconst_64":
			if len(args) != 1 || !strings.HasPrefix(args[0], "0x") || (op == "Iconst_32") != (ty == "i32") {
				return "", bad
			}
			c, err := strconv.ParseUint(args[0][2:], 16, 64)
			if err != nil || (ty == "i32" && c > 0xffffffff) {
				return "", bad
			}
			out = append(out, fmt.Sprintf("iconst:%d:%s:%d", r, ty, c))
		case ssaBin[op] != "" && len(args) == 2:
			v, err := ids(args)
			if err != nil {
				return "", err
			}
			out = append(out, fmt.Sprintf("%s:%d:%s:%d:%d", ssaBin[op], r, ty, v[0], v[1]))
		case op == "Icmp" && len(args) == 3 && ssaCond[args[0]]:
			v, err := ids(args[1:])
			if err != nil {
				return "", err
			}
			oty, ok := types[v[0]]
			if !ok {
				return "", fmt.Errorf("line %q: operand without a definition", l)
			}
			out = append(out, fmt.Sprintf("icmp:%d:%s:%s:%d:%d", r, oty, args[0], v[0], v[1]))
		case op == "Select" && len(args) == 3:
			v, err := ids(args)
			if err != nil {
				return "", err
			}
			out = append(out, fmt.Sprintf("select:%d:%s:%d:%d:%d", r, ty, v[0], v[1], v[2]))
		case ssaUn[op] != "" && len(args) == 1:
			v, err := ids(args)
			if err != nil {
				return "", err
			}
			out = append(out, fmt.Sprintf("%s:%d:%s:%d", ssaUn[op], r, ty, v[0]))
		case (op == "SExtend" || op == "UExtend") && len(args) == 2:
			v, err := ids(args[:1])
			if err != nil {
				return "", err
			}
			switch {
			case args[1] == "32->64" && ty == "i64":
				out = append(out, fmt.Sprintf("%s:%d:i64:%d", strings.ToLower(op), r, v[0]))
			default:
				return "", &unmodelled{l}
			}
		case (op == "Load" || ssaExtLoad[op] != "") && len(args) == 2:
			v, err := ids(args[:1])
			if err != nil {
				return "", err
			}
			off, err := parseOff(args[1])
			if err != nil {
				return "", bad
			}
			if op == "Load" {
				out = append(out, fmt.Sprintf("load:%d:%s:%d:%d", r, ty, v[0], off))
			} else {
				out = append(out, fmt.Sprintf("%s:%d:%s:%d:%d", ssaExtLoad[op], r, ty, v[0], off))
			}
		case ssaDiv[op] != "" && len(args) == 2:
			v, err := ids(args)
			if err != nil {
				return "", err
			}
			// the execution context operand is not printed by Format(): it is value 0
			out = append(out, fmt.Sprintf("%s:%d:%s:%d:%d:0", ssaDiv[op], r, ty, v[0], v[1]))
		default:
			return "", bad
		}
	}
	return strings.Join(out, " "), nil
}

// ---------------------------------------------------------------- -mutate: perturb the real side

func isLinearLoad(l string) bool {
	for _, op := range []string{" = Load v", " = Uload8 v", " = Sload8 v", " = Uload16 v", " = Sload16 v", " = Uload32 v", " = Sload32 v"} {
		if strings.Contains(l, op) {
			return true
		}
	}
	return false
}

func mutateLines(lines []string, f *fnDef) ([]string, bool) {
	out := append([]string(nil), lines...)
	switch *mutate {
	case 1:
		var kept []string
		for _, l := range out {
			if !strings.HasPrefix(l, "ExitIfTrue ") {
				kept = append(kept, l)
			}
		}
		return kept, len(kept) != len(out)
	case 2:
		for k, l := range out {
			if isLinearLoad(l) {
				j := strings.LastIndex(l, ", ")
				off, err := parseOff(l[j+2:])
				if err != nil || off >= 0x7fffffff {
					continue
				}
				out[k] = l[:j+2] + "0x" + strconv.FormatUint(off+1, 16)
				return out, true
			}
		}
	case 3:
		for k, l := range out {
			if strings.Contains(l, " = Uload8 ") {
				out[k] = strings.Replace(l, " = Uload8 ", " = Sload8 ", 1)
				return out, true
			}
		}
	case 4:
		for k, l := range out {
			if strings.HasPrefix(l, "Istore16 ") {
				out[k] = "Istore8 " + l[len("Istore16 "):]
				return out, true
			}
		}
	case 5:
		for k, l := range out {
			if k+1 < len(out) && strings.Contains(l, " = Iconst_64 ") && strings.Contains(out[k+1], " = UExtend ") {
				j := strings.LastIndex(l, "0x")
				c, err := strconv.ParseUint(l[j+2:], 16, 64)
				if err != nil || c == 0 {
					continue
				}
				out[k] = l[:j] + "0x" + strconv.FormatUint(c-1, 16)
				return out, true
			}
		}
	}
	return out, false
}

// ---------------------------------------------------------------- the check of one function

type memCase struct {
	Args   string `json:"args"`
	MemLen string `json:"memlen"`
	Init   string `json:"init"`
}

type input struct {
	Fn    string    `json:"fn"`
	Cases []memCase `json:"cases,omitempty"`
}

type job struct {
	f       *fnDef
	cases   []memCase
	hand    bool
	index   int
	verbose bool
}

type worker struct {
	orc     *hx.Oracle
	askTime map[string]float64
}

func (w *worker) ask(line string) string {
	t0 := time.Now()
	a := w.orc.Ask(line)
	fs := strings.Fields(line)
	w.askTime[fs[0]+" "+fs[1]] += time.Since(t0).Seconds()
	return a
}

func argsText(as []uint64) string {
	if len(as) == 0 {
		return "-"
	}
	s := make([]string, len(as))
	for k, a := range as {
		s[k] = strconv.FormatUint(a, 16)
	}
	return strings.Join(s, ",")
}

func firstDiff(a, b []string) int {
	for k := 0; k < len(a) || k < len(b); k++ {
		if k >= len(a) || k >= len(b) || a[k] != b[k] {
			return k
		}
	}
	return -1
}

var handRejected int
var handMu sync.Mutex

// fields parses `k=v k=v …`
func fields(ans string) map[string]string {
	m := map[string]string{}
	for _, p := range strings.Fields(ans) {
		if k, v, ok := strings.Cut(p, "="); ok {
			m[k] = v
		}
	}
	return m
}

const topic = "c01frontmem"

func (w *worker) check(j *job) {
	f := j.f
	text := f.text()
	in := input{Fn: text, Cases: j.cases}
	violate := func(kind, sig, what string, exp, act any) {
		rep.Violate(hx.Violation{Kind: kind, Signature: sig, What: what, Input: in, Expected: exp, Actual: act})
		if j.verbose {
			fmt.Printf("VIOLATION %s: %s\n  expected: %v\n  actual:   %v\n", sig, what, exp, act)
		}
	}

	m, err := decodeValidate(f)
	if err != nil {
		rep.Count("gen:rejected-by-validator")
		if j.hand || j.verbose {
			fmt.Fprintf(os.Stderr, "rejected by the real validator: %s\n  %v\n", text, err)
		}
		if j.hand {
			handMu.Lock()
			handRejected++
			handMu.Unlock()
		}
		return
	}
	rep.Case(text)
	nacc := countFn(f)
	if j.verbose {
		fmt.Println("function:", text)
		fmt.Printf("body bytes: % x\n", m.CodeSection[0].Body)
	}

	// ---- the real front end
	b, realText, p := lowerReal(m)
	if p != nil {
		violate("correspondence", "C01:frontmem-front-end-panics", fmt.Sprintf("the real front end panics on a function the real validator accepts: %v", p), "no panic", fmt.Sprint(p))
		return
	}
	realLines := canonLines(realText)
	if *mutate != 0 {
		var done bool
		if realLines, done = mutateLines(realLines, f); done {
			rep.Count("mutate:applied")
		}
	}
	realCanon := strings.Join(realLines, " | ")

	// ---- 1. correspondence of the text
	model := w.ask(topic + " lower " + text)
	if j.verbose {
		fmt.Println("real :", realCanon)
		fmt.Println("model:", model)
	}
	textEqual := model == realCanon
	if !textEqual {
		k := firstDiff(strings.Split(model, " | "), realLines)
		violate("correspondence", "C01:frontmem-model-differs",
			fmt.Sprintf("Format() of the real front end and `%s lower` differ, first at line %d", topic, k), model, realCanon)
	} else {
		rep.Count("text:equal")
	}
	if a := w.ask(topic + " wt " + text); a != "1" {
		violate("correspondence", "C01:frontmem-wellTyped-rejects-valid", "the model's wellTypedM rejects a function the real validator accepts", "1", a)
	}
	// bounds checks in the REAL text: live accesses minus checks = elided by the known-safe-bound cache
	nchk := 0
	for _, l := range realLines {
		if strings.HasPrefix(l, "ExitIfTrue ") {
			nchk++
		}
	}
	if nacc > 0 {
		rep.Count("fn:with-live-memory-access")
		if nacc > nchk && *mutate != 1 {
			rep.Count("fn:with-elided-bounds-check")
			for k := nchk; k < nacc; k++ {
				rep.Count("real:bounds-check-elided")
			}
		}
		for k := 0; k < nchk; k++ {
			rep.Count("real:bounds-check-emitted")
		}
	}

	// ---- 2. semantics of the REAL output
	realTok, realUndef, err := toTokens(realLines)
	if err != nil {
		rep.Count("real:unconvertible")
		if textEqual {
			hx.Fatal("the real output equals the model's but cannot be converted: %v\n%s", err, realCanon)
		}
		if j.verbose {
			fmt.Println("real output not convertible:", err)
		}
		realTok = ""
	}
	if realTok != "" && realUndef != "" {
		violate("impl-violation", "C01:frontmem-real-output-not-wellFormed",
			"the REAL front end's output uses "+realUndef+", which nothing defines: "+realTok, "every use has a definition", realUndef)
	}

	optTok := ""
	optText, p := runPassesReal(b)
	if p != nil {
		violate("correspondence", "C01:frontmem-runpasses-panics", fmt.Sprintf("the real RunPasses panics on the front end's output: %v", p), "no panic", fmt.Sprint(p))
	} else {
		optLines := canonLines(optText)
		t, optUndef, err := toTokens(optLines)
		if err != nil {
			rep.Count("real:opt-unconvertible")
			if j.verbose {
				fmt.Println("real output after RunPasses not convertible:", err)
			}
		} else {
			optTok = t
			rep.Count("real:opt-converted")
			if optUndef != "" {
				violate("impl-violation", "C01:frontmem-real-optimized-output-not-wellFormed",
					"the REAL front end's output after the REAL RunPasses uses "+optUndef+", which nothing defines: "+t, "every use has a definition", optUndef)
			}
			for k := len(optLines); k < len(realLines); k++ {
				rep.Count("real:opt-removed-instruction")
			}
		}
		if j.verbose {
			fmt.Println("real after RunPasses:", strings.Join(optLines, " | "))
		}
	}
	// the verified checker `optValid` on the REAL texts before / after the REAL passes (translation validation:
	// accepted pairs have the same outcome by `frontmem_opt_validated`, hence `frontmem_then_passes_refines`)
	if realTok != "" && optTok != "" {
		switch a := w.ask(topic + " optok " + realTok + " | " + optTok); a {
		case "1":
			rep.Count("opt:validated-by-optValid")
		case "0":
			violate("impl-violation", "C01:frontmem-real-passes-not-validated",
				"the verified checker optValid (no-op shifts, alias resolution, dead code) rejects the REAL RunPasses output as an optimisation of the REAL front end's output; before: "+realTok+" ; after: "+optTok, "1", a)
		default:
			hx.Fatal("%s optok answered %q", topic, a)
		}
		if j.hand || j.index%10 == 0 {
			// for the statistics: the simpler checker (dead code only) accepts when no alias was needed
			switch a := w.ask(topic + " dceok " + realTok + " | " + optTok); {
			case a == "1":
				rep.Count("opt:sampled:accepted-by-dceOK-too-(dead-code-only)")
			case shiftRemoved(realLines, canonLines(optText)):
				rep.Count("opt:sampled:needs-aliases-(a-no-op-shift-was-removed)")
			default:
				violate("impl-violation", "C01:frontmem-real-passes-not-a-dead-code-elimination",
					"dceOK rejects the REAL RunPasses output although no shift was removed; before: "+realTok+" ; after: "+optTok, "1", a)
			}
		}
	}
	if j.verbose {
		fmt.Println("real tokens:", realTok)
		fmt.Println("opt  tokens:", optTok)
	}

	body := strings.Join(strings.Fields(text)[3:], " ")
	for _, c := range j.cases {
		tag := fmt.Sprintf("args %s memlen %s init %s", c.Args, c.MemLen, c.Init)
		ans := w.ask(fmt.Sprintf("%s run %s %s %s %s %s %s %s", topic, tysText(f.params), tysText(f.results), tysText(f.locals),
			c.Args, c.MemLen, c.Init, body))
		r := fields(ans)
		spec, ok := r["spec"]
		if !ok || r["ssa"] == "" || r["specmem"] == "" || r["ssamem"] == "" || r["acc"] == "" {
			hx.Fatal("%s run answered %q", topic, ans)
		}
		outcome := "out:" + spec
		if strings.HasPrefix(spec, "ok:") {
			outcome = "out:values"
		}
		rep.Count(outcome)
		rep.Count("memlen:" + c.MemLen)
		if n, _ := strconv.Atoi(r["n"]); n >= 3 && outcome == "out:values" {
			rep.Count("run:values-with-linear-memory-access")
			for k := nchk; k < nacc && *mutate != 1; k++ {
				rep.Count("run:executed-access-whose-check-was-elided")
			}
		}
		if n, _ := strconv.Atoi(r["n"]); n > 0 {
			rep.Count("run:with-executed-access")
			for k := 0; k < n; k++ {
				rep.Count("run:executed-access-incl-context-reads")
			}
		}
		if j.verbose {
			fmt.Printf("%s: %s\n", tag, ans)
		}
		if spec != r["ssa"] || r["specmem"] != r["ssamem"] || r["acc"] != "ok" {
			violate("correspondence", "C01:frontmem-model-inconsistent",
				"the reference semantics and the Lean semantics of the MODEL's lowering differ (outcome, final memory or an access outside the memory) on "+tag+" — this contradicts the theorems", "spec="+spec+" specmem="+r["specmem"]+" acc=ok", ans)
		}
		want := fmt.Sprintf("ssa=%s ssamem=%s acc=ok", spec, r["specmem"])
		for _, side := range []struct{ tok, sig, what string }{
			{realTok, "C01:frontmem-real-ssa-differs-from-spec", "the REAL front end's output"},
			{optTok, "C01:frontmem-real-optimized-ssa-differs-from-spec", "the REAL front end's output after the REAL RunPasses"},
		} {
			if side.tok == "" {
				continue
			}
			o := w.ask(fmt.Sprintf("%s runssa %s %s %s %s", topic, c.Args, c.MemLen, c.Init, side.tok))
			ro := fields(o)
			if j.verbose {
				fmt.Printf("%s: %s: %s\n", tag, side.what, o)
			}
			if ro["ssa"] == "" {
				hx.Fatal("%s runssa answered %q on %s", topic, o, side.tok)
			}
			if ro["acc"] != "ok" {
				violate("impl-violation", "C02:frontmem-real-ssa-access-outside-memory",
					"the Lean SSA semantics of "+side.what+" performs a memory access outside the linear memory (and not a read of the module context) on "+tag+"; tokens: "+side.tok, "acc=ok", o)
			}
			if ro["ssa"] != spec || ro["ssamem"] != r["specmem"] {
				violate("impl-violation", side.sig,
					"the Lean SSA semantics of "+side.what+" differs from the reference semantics of the Wasm function (outcome or final memory) on "+tag+"; tokens: "+side.tok, want, o)
			}
		}
	}
}

// shiftRemoved: a line defining a value by Ishl / Ushr / Sshr is in before and not in after
func shiftRemoved(before, after []string) bool {
	in := map[string]bool{}
	for _, l := range after {
		if lhs, _, ok := strings.Cut(l, " = "); ok {
			in[lhs] = true
		}
	}
	for _, l := range before {
		lhs, rhs, ok := strings.Cut(l, " = ")
		if ok && !in[lhs] && (strings.HasPrefix(rhs, "Ishl ") || strings.HasPrefix(rhs, "Ushr ") || strings.HasPrefix(rhs, "Sshr ")) {
			return true
		}
	}
	return false
}

// ---------------------------------------------------------------- distribution

// countFn counts the distribution and returns the number of live memory accesses
func countFn(f *fnDef) int {
	ri := f.retIndex()
	nacc := 0
	for k, i := range f.body {
		if ri >= 0 && k > ri {
			rep.Count("dead:" + i.name)
		} else {
			rep.Count("in:" + i.name)
			if isMem(i.name) {
				nacc++
				switch {
				case i.imm >= 1<<31:
					rep.Count("in:offset>=2^31")
				case i.imm == 0:
					rep.Count("in:offset=0")
				default:
					rep.Count("in:offset-other")
				}
			}
		}
	}
	if ri >= 0 {
		rep.Count("fn:explicit-return")
		if ri < len(f.body)-1 {
			rep.Count("fn:dead-code-after-return")
		}
	}
	if f.uninitReads > 0 {
		rep.Count("fn:reads-uninitialised-local")
	}
	rep.Count(fmt.Sprintf("params:%d", len(f.params)))
	rep.Count(fmt.Sprintf("results:%d", len(f.results)))
	rep.Count(fmt.Sprintf("body-length:%02d+", len(f.body)/10*10))
	rep.Count(fmt.Sprintf("live-accesses:%02d+", nacc/5*5))
	return nacc
}

// uninitReadsOf recomputes the statistic for parsed (corpus / replay) functions
func uninitReadsOf(f *fnDef) int {
	init := map[uint64]bool{}
	n := 0
	for _, i := range f.body {
		switch i.name {
		case "return":
			return n
		case "local.set", "local.tee":
			init[i.imm] = true
		case "local.get":
			if int(i.imm) >= len(f.params) && !init[i.imm] {
				n++
			}
		}
	}
	return n
}

// ---------------------------------------------------------------- argument vectors, memory sizes, initial bytes

var memLens = []uint64{0, 1, 2, 3, 4, 7, 8, 9, 16, 64, 64, 255, 256, 256, 256, 256}

// ceils: offset+width of the live accesses
func ceils(f *fnDef) []uint64 {
	var out []uint64
	for _, i := range f.body {
		if i.name == "return" {
			break
		}
		if mo, ok := memOps[i.name]; ok {
			out = append(out, i.imm+mo.width)
		}
	}
	return out
}

// genCase: a memory length, an argument vector whose i32 arguments are around the end of the memory with respect to
// one of the function's accesses, and a few non-zero initial bytes near the addresses used and near the end
func genCase(r *rand.Rand, f *fnDef, big bool) memCase {
	memlen := memLens[r.Intn(len(memLens))]
	if big && r.Intn(2) == 0 {
		memlen = []uint64{0x10000, 0x20000}[r.Intn(2)]
	}
	cs := ceils(f)
	args := genArgs(r, f.params)
	var addrs []uint64
	for k, t := range f.params {
		if t != tI32 || r.Intn(6) == 0 {
			continue
		}
		var ceil uint64 = 1
		if len(cs) > 0 {
			ceil = cs[r.Intn(len(cs))]
		}
		var v uint64
		switch r.Intn(20) {
		case 0:
			v = 0
		case 1:
			v = 1
		case 2:
			v = memlen - ceil - 1
		case 3, 4:
			v = memlen - ceil
		case 5:
			v = memlen - ceil + 1
		case 6:
			v = memlen - 1
		case 7:
			v = memlen
		case 8:
			v = memlen + 1
		case 9:
			v = []uint64{0x7fffffff, 0x80000000, 0xfffffff8, 0xffffffff}[r.Intn(4)]
		case 10:
			v = memlen / 2
		default:
			if memlen > 24 {
				v = uint64(r.Int63n(int64(memlen - 24)))
			}
		}
		args[k] = v & 0xffffffff
		addrs = append(addrs, args[k])
	}
	init := map[uint64]uint64{}
	if memlen > 0 {
		n := r.Intn(12)
		for k := 0; k < n; k++ {
			var a uint64
			switch {
			case len(addrs) > 0 && r.Intn(2) == 0:
				a = addrs[r.Intn(len(addrs))] + uint64(r.Intn(24))
			case r.Intn(2) == 0:
				a = memlen - 1 - uint64(r.Intn(16))
			default:
				a = uint64(r.Int63n(int64(memlen)))
			}
			if a < memlen {
				init[a] = uint64(1 + r.Intn(255))
				if r.Intn(3) == 0 {
					init[a] = []uint64{0x80, 0xff, 0x7f}[r.Intn(3)]
				}
			}
		}
	}
	keys := make([]uint64, 0, len(init))
	for a := range init {
		keys = append(keys, a)
	}
	sort.Slice(keys, func(x, y int) bool { return keys[x] < keys[y] })
	is := "-"
	if len(keys) > 0 {
		parts := make([]string, len(keys))
		for k, a := range keys {
			parts[k] = fmt.Sprintf("%x=%x", a, init[a])
		}
		is = strings.Join(parts, ",")
	}
	return memCase{Args: argsText(args), MemLen: strconv.FormatUint(memlen, 16), Init: is}
}

func genCases(r *rand.Rand, f *fnDef, n int, big bool) []memCase {
	out := make([]memCase, n)
	for k := range out {
		out[k] = genCase(r, f, big && k == 0)
	}
	return out
}

func replayFile(path string) {
	raw, err := os.ReadFile(path)
	if err != nil {
		hx.Fatal("%v", err)
	}
	var in input
	json.Unmarshal(raw, &in)
	if in.Fn == "" {
		var full struct {
			Violations []struct {
				Input input `json:"input"`
			} `json:"violations"`
		}
		json.Unmarshal(raw, &full)
		if len(full.Violations) > 0 {
			in = full.Violations[0].Input
		}
	}
	if in.Fn == "" {
		hx.Fatal("replay: no function text in %s", path)
	}
	f, err := parseFnText(in.Fn)
	if err != nil {
		hx.Fatal("replay: %v", err)
	}
	f.uninitReads = uninitReadsOf(f)
	r := hx.Rand()
	cases := in.Cases
	if len(cases) == 0 {
		cases = genCases(r, f, 12, true)
	}
	w := &worker{orc: hx.StartOracle(), askTime: map[string]float64{}}
	defer w.orc.Close()
	w.check(&job{f: f, cases: cases, hand: true, verbose: true})
	rep.Write(w.orc)
}

func finish(code int) {
	if handRejected > 0 {
		hx.Fatal("%d hand-written cases are rejected by the real validator (generator bug)", handRejected)
	}
	if len(rep.Violations) > 0 {
		code = 1
	}
	os.Exit(code)
}

func main() {
	n := flag.Int("n", 0, "number of generated functions (0 = tier default)")
	dump := flag.Bool("dump", false, "print every generated function")
	nworkers := flag.Int("workers", 0, "worker goroutines, one oracle process each (0 = min(8, GOMAXPROCS))")
	flag.Parse()
	if err := checkOpcodeTable(); err != nil {
		hx.Fatal("%v", err)
	}
	rep = hx.NewReport("C01", "front-end tie with linear memory: functions of the straight-line integer fragment (0..4 params, mostly with an i32 first parameter used as the favourite address; 0..3 results, 0..4 locals; bodies of 0..40 generated instructions kept type-correct: hfront's integer instructions, and with 0/15/30/50/70 % of the steps the 12 integer loads, the 7 integer stores (static offsets 0, small, 2^16, 2^31-1, 2^31, 2^32-1, random) and memory.size; addresses from the favourite local (repeated bases: the known-safe-bound cache fires), constants incl. >= 2^31, results of earlier loads / arithmetic on top of the stack; explicit `return` in 1/4 of them) plus a hand-written and a systematic corpus (every load / store at boundary offsets, every store-load pair at one base at equal and overlapping addresses, the cache patterns); each is encoded as a real module with a locally defined non-shared memory, accepted by the REAL decoder+validator, lowered by the REAL frontend.Compiler.LowerToSSA; Format() == `c01frontmem lower` line by line without renumbering; wt accepts; for 3 (corpus: 8) cases of (argument vector around the end of the memory, memory length in {0,1,2,3,4,7,8,9,16,64,255,256, rarely 2^16, 2^17}, non-zero initial bytes): Lean SSA semantics of the REAL output before and after the REAL RunPasses == reference semantics (values or trap, and final memory) and every access inside the memory; the model's own lowering likewise; distinct = distinct function texts")
	if *mutate != 0 {
		rep.Note("SELF-TEST: -mutate %d perturbs the real output; violations are expected", *mutate)
	}
	if *hx.Replay != "" {
		replayFile(*hx.Replay)
		finish(0)
	}

	nw := *nworkers
	if nw <= 0 {
		nw = min(8, runtime.GOMAXPROCS(0))
	}
	jobs := make(chan *job, 4*nw)
	workers := make([]*worker, nw)
	var wg sync.WaitGroup
	for k := range workers {
		w := &worker{orc: hx.StartOracle(), askTime: map[string]float64{}}
		workers[k] = w
		wg.Add(1)
		go func() {
			defer wg.Done()
			for j := range jobs {
				w.check(j)
			}
		}()
	}

	r := hx.Rand()
	idx := 0
	for _, c := range append(append(append([]string{}, handWritten...), memCorpus()...), systematic()...) {
		f, err := parseFnText(c)
		if err != nil {
			hx.Fatal("corpus %q: %v", c, err)
		}
		f.uninitReads = uninitReadsOf(f)
		rep.Count("corpus")
		jobs <- &job{f: f, cases: genCases(r, f, 8, true), hand: true, index: idx}
		idx++
	}
	total := 4000
	if hx.Thorough() {
		total = 150000
	}
	if *n > 0 {
		total = *n
	}
	for k := 0; k < total; k++ {
		f := genFn(r)
		if *dump {
			fmt.Println(f.text())
		}
		if k < 6 {
			rep.Sample(f.text())
		}
		jobs <- &job{f: f, cases: genCases(r, f, 3, k%50 == 0), index: idx}
		idx++
	}
	close(jobs)
	wg.Wait()

	sum := &hx.Oracle{}
	times := map[string]float64{}
	for _, w := range workers {
		sum.N += w.orc.N
		for k, v := range w.askTime {
			times[k] += v
		}
		w.orc.Close()
	}
	keys := make([]string, 0, len(times))
	for k := range times {
		keys = append(keys, k)
	}
	sort.Strings(keys)
	for _, k := range keys {
		rep.Note("oracle time %s: %.1fs (summed over %d workers)", k, times[k], nw)
	}
	rep.Write(sum)
	finish(0)
}
