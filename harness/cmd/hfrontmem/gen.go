package main

// Generator of functions of the straight-line integer fragment WITH MEMORY ACCESSES (see main.go), the hand-written
// corpus, the text form (oracle syntax of Oracle/C01FrontMem.lean) and the binary form (a real Wasm module with a
// locally defined, non-shared memory).  Copied from cmd/hfront/gen.go and extended.

import (
	"fmt"
	"math/rand"
	"sort"
	"strconv"
	"strings"

	"github.com/tetratelabs/wazero/internal/leb128"
	"github.com/tetratelabs/wazero/internal/wasm"
)

type vt byte

const (
	tI32 vt = 0
	tI64 vt = 1
)

func (t vt) String() string {
	if t == tI64 {
		return "i64"
	}
	return "i32"
}

func (t vt) bits() uint {
	if t == tI64 {
		return 64
	}
	return 32
}

func (t vt) mask() uint64 {
	if t == tI64 {
		return ^uint64(0)
	}
	return 0xffffffff
}

func (t vt) wasm() wasm.ValueType {
	if t == tI64 {
		return wasm.ValueTypeI64
	}
	return wasm.ValueTypeI32
}

// ins is one instruction of the fragment: the token name and the immediate (bit pattern of the constant, or the
// local index).
type ins struct {
	name string
	imm  uint64
}

type fnDef struct {
	params, results, locals []vt
	body                    []ins
	// generator statistics (live code only)
	uninitReads int
}

// memOps: the loads and stores of the fragment: access width in bytes, the value type, is it a store
type memOp struct {
	width uint64
	ty    vt
	store bool
}

var memOps = map[string]memOp{
	"i32.load": {4, tI32, false}, "i64.load": {8, tI64, false},
	"i32.load8_s": {1, tI32, false}, "i32.load8_u": {1, tI32, false}, "i32.load16_s": {2, tI32, false}, "i32.load16_u": {2, tI32, false},
	"i64.load8_s": {1, tI64, false}, "i64.load8_u": {1, tI64, false}, "i64.load16_s": {2, tI64, false}, "i64.load16_u": {2, tI64, false},
	"i64.load32_s": {4, tI64, false}, "i64.load32_u": {4, tI64, false},
	"i32.store": {4, tI32, true}, "i64.store": {8, tI64, true}, "i32.store8": {1, tI32, true}, "i32.store16": {2, tI32, true},
	"i64.store8": {1, tI64, true}, "i64.store16": {2, tI64, true}, "i64.store32": {4, tI64, true},
}

var loadNames, storeNames []string

func init() {
	for n, m := range memOps {
		if m.store {
			storeNames = append(storeNames, n)
		} else {
			loadNames = append(loadNames, n)
		}
	}
	sort.Strings(loadNames)
	sort.Strings(storeNames)
}

func isMem(name string) bool { _, ok := memOps[name]; return ok }

func hasImm(name string) bool {
	switch name {
	case "i32.const", "i64.const", "local.get", "local.set", "local.tee":
		return true
	}
	return isMem(name)
}

func (i ins) token() string {
	switch i.name {
	case "i32.const", "i64.const":
		return i.name + ":" + strconv.FormatUint(i.imm, 16)
	}
	if isMem(i.name) {
		return i.name + ":" + strconv.FormatUint(i.imm, 16)
	}
	switch i.name {
	case "local.get", "local.set", "local.tee":
		return i.name + ":" + strconv.FormatUint(i.imm, 10)
	}
	return i.name
}

func tysText(ts []vt) string {
	if len(ts) == 0 {
		return "-"
	}
	s := make([]string, len(ts))
	for k, t := range ts {
		s[k] = t.String()
	}
	return strings.Join(s, ",")
}

// text is the function in the syntax of `c01front`: <params> <results> <locals> <body tokens…>
func (f *fnDef) text() string {
	parts := []string{tysText(f.params), tysText(f.results), tysText(f.locals)}
	for _, i := range f.body {
		parts = append(parts, i.token())
	}
	return strings.Join(parts, " ")
}

func (f *fnDef) retIndex() int {
	for k, i := range f.body {
		if i.name == "return" {
			return k
		}
	}
	return -1
}

// ---------------------------------------------------------------- opcode table (constants of internal/wasm)

var opcodes = map[string]wasm.Opcode{
	"i32.const": wasm.OpcodeI32Const, "i64.const": wasm.OpcodeI64Const,
	"local.get": wasm.OpcodeLocalGet, "local.set": wasm.OpcodeLocalSet, "local.tee": wasm.OpcodeLocalTee,
	"drop": wasm.OpcodeDrop, "select": wasm.OpcodeSelect, "return": wasm.OpcodeReturn,

	"i32.eqz": wasm.OpcodeI32Eqz, "i32.eq": wasm.OpcodeI32Eq, "i32.ne": wasm.OpcodeI32Ne,
	"i32.lt_s": wasm.OpcodeI32LtS, "i32.lt_u": wasm.OpcodeI32LtU, "i32.gt_s": wasm.OpcodeI32GtS, "i32.gt_u": wasm.OpcodeI32GtU,
	"i32.le_s": wasm.OpcodeI32LeS, "i32.le_u": wasm.OpcodeI32LeU, "i32.ge_s": wasm.OpcodeI32GeS, "i32.ge_u": wasm.OpcodeI32GeU,
	"i64.eqz": wasm.OpcodeI64Eqz, "i64.eq": wasm.OpcodeI64Eq, "i64.ne": wasm.OpcodeI64Ne,
	"i64.lt_s": wasm.OpcodeI64LtS, "i64.lt_u": wasm.OpcodeI64LtU, "i64.gt_s": wasm.OpcodeI64GtS, "i64.gt_u": wasm.OpcodeI64GtU,
	"i64.le_s": wasm.OpcodeI64LeS, "i64.le_u": wasm.OpcodeI64LeU, "i64.ge_s": wasm.OpcodeI64GeS, "i64.ge_u": wasm.OpcodeI64GeU,

	"i32.clz": wasm.OpcodeI32Clz, "i32.ctz": wasm.OpcodeI32Ctz, "i32.popcnt": wasm.OpcodeI32Popcnt,
	"i32.add": wasm.OpcodeI32Add, "i32.sub": wasm.OpcodeI32Sub, "i32.mul": wasm.OpcodeI32Mul,
	"i32.div_s": wasm.OpcodeI32DivS, "i32.div_u": wasm.OpcodeI32DivU, "i32.rem_s": wasm.OpcodeI32RemS, "i32.rem_u": wasm.OpcodeI32RemU,
	"i32.and": wasm.OpcodeI32And, "i32.or": wasm.OpcodeI32Or, "i32.xor": wasm.OpcodeI32Xor,
	"i32.shl": wasm.OpcodeI32Shl, "i32.shr_s": wasm.OpcodeI32ShrS, "i32.shr_u": wasm.OpcodeI32ShrU,
	"i32.rotl": wasm.OpcodeI32Rotl, "i32.rotr": wasm.OpcodeI32Rotr,

	"i64.clz": wasm.OpcodeI64Clz, "i64.ctz": wasm.OpcodeI64Ctz, "i64.popcnt": wasm.OpcodeI64Popcnt,
	"i64.add": wasm.OpcodeI64Add, "i64.sub": wasm.OpcodeI64Sub, "i64.mul": wasm.OpcodeI64Mul,
	"i64.div_s": wasm.OpcodeI64DivS, "i64.div_u": wasm.OpcodeI64DivU, "i64.rem_s": wasm.OpcodeI64RemS, "i64.rem_u": wasm.OpcodeI64RemU,
	"i64.and": wasm.OpcodeI64And, "i64.or": wasm.OpcodeI64Or, "i64.xor": wasm.OpcodeI64Xor,
	"i64.shl": wasm.OpcodeI64Shl, "i64.shr_s": wasm.OpcodeI64ShrS, "i64.shr_u": wasm.OpcodeI64ShrU,
	"i64.rotl": wasm.OpcodeI64Rotl, "i64.rotr": wasm.OpcodeI64Rotr,

	"i32.wrap_i64": wasm.OpcodeI32WrapI64, "i64.extend_i32_s": wasm.OpcodeI64ExtendI32S,
	"i64.extend_i32_u": wasm.OpcodeI64ExtendI32U, "i64.extend32_s": wasm.OpcodeI64Extend32S,

	"i32.load": wasm.OpcodeI32Load, "i64.load": wasm.OpcodeI64Load,
	"i32.load8_s": wasm.OpcodeI32Load8S, "i32.load8_u": wasm.OpcodeI32Load8U, "i32.load16_s": wasm.OpcodeI32Load16S, "i32.load16_u": wasm.OpcodeI32Load16U,
	"i64.load8_s": wasm.OpcodeI64Load8S, "i64.load8_u": wasm.OpcodeI64Load8U, "i64.load16_s": wasm.OpcodeI64Load16S, "i64.load16_u": wasm.OpcodeI64Load16U,
	"i64.load32_s": wasm.OpcodeI64Load32S, "i64.load32_u": wasm.OpcodeI64Load32U,
	"i32.store": wasm.OpcodeI32Store, "i64.store": wasm.OpcodeI64Store, "i32.store8": wasm.OpcodeI32Store8, "i32.store16": wasm.OpcodeI32Store16,
	"i64.store8": wasm.OpcodeI64Store8, "i64.store16": wasm.OpcodeI64Store16, "i64.store32": wasm.OpcodeI64Store32,
	"memory.size": wasm.OpcodeMemorySize,
}

// narrowExt: the instructions only the extended model (`Wz.Model.FrontendSLX`, topic `c01frontx`) has
var narrowExt = map[string]bool{"i32.extend8_s": true, "i32.extend16_s": true, "i64.extend8_s": true, "i64.extend16_s": true}

// hasNarrow: the body (live or dead code) contains one of the narrow sign extensions
func (f *fnDef) hasNarrow() bool {
	for _, i := range f.body {
		if narrowExt[i.name] {
			return true
		}
	}
	return false
}

// checkOpcodeTable cross-checks the table above with wazero's own instruction-name table: a typo in either would
// make the text and the binary of a case denote different programs.
func checkOpcodeTable() error {
	for name, op := range opcodes {
		if got := wasm.InstructionName(op); got != name {
			return fmt.Errorf("opcode table: %q is 0x%02x, which wazero names %q", name, op, got)
		}
	}
	return nil
}

// encodeBody is the real Wasm body: opcodes, signed LEB128 constants, unsigned LEB128 local indices, final `end`.
func (f *fnDef) encodeBody() []byte {
	var out []byte
	for _, i := range f.body {
		op, ok := opcodes[i.name]
		if !ok {
			panic("encode: unknown instruction " + i.name)
		}
		out = append(out, op)
		switch i.name {
		case "i32.const":
			out = append(out, leb128.EncodeInt32(int32(uint32(i.imm)))...)
		case "i64.const":
			out = append(out, leb128.EncodeInt64(int64(i.imm))...)
		case "local.get", "local.set", "local.tee":
			out = append(out, leb128.EncodeUint32(uint32(i.imm))...)
		case "memory.size":
			out = append(out, 0) // memory index
		default:
			if isMem(i.name) {
				out = append(out, 0) // alignment 2^0: always valid
				out = append(out, leb128.EncodeUint32(uint32(i.imm))...)
			}
		}
	}
	return append(out, wasm.OpcodeEnd)
}

func wasmTys(ts []vt) []wasm.ValueType {
	out := make([]wasm.ValueType, len(ts))
	for k, t := range ts {
		out[k] = t.wasm()
	}
	return out
}

func (f *fnDef) module() *wasm.Module {
	return &wasm.Module{
		TypeSection:     []wasm.FunctionType{{Params: wasmTys(f.params), Results: wasmTys(f.results)}},
		FunctionSection: []wasm.Index{0},
		CodeSection:     []wasm.Code{{LocalTypes: wasmTys(f.locals), Body: f.encodeBody()}},
		MemorySection:   &wasm.Memory{Min: 1, Cap: 1, Max: 2, IsMaxEncoded: true},
	}
}

// ---------------------------------------------------------------- parsing the text form (corpus, replay)

func parseTys(s string) ([]vt, error) {
	if s == "-" {
		return nil, nil
	}
	var out []vt
	for _, p := range strings.Split(s, ",") {
		switch p {
		case "i32":
			out = append(out, tI32)
		case "i64":
			out = append(out, tI64)
		default:
			return nil, fmt.Errorf("type %q", p)
		}
	}
	return out, nil
}

func parseFnText(s string) (*fnDef, error) {
	fs := strings.Fields(s)
	if len(fs) < 3 {
		return nil, fmt.Errorf("function text needs <params> <results> <locals>: %q", s)
	}
	f := &fnDef{}
	var err error
	if f.params, err = parseTys(fs[0]); err != nil {
		return nil, err
	}
	if f.results, err = parseTys(fs[1]); err != nil {
		return nil, err
	}
	if f.locals, err = parseTys(fs[2]); err != nil {
		return nil, err
	}
	for _, tok := range fs[3:] {
		p := strings.Split(tok, ":")
		if _, ok := opcodes[p[0]]; !ok {
			return nil, fmt.Errorf("instruction %q", tok)
		}
		i := ins{name: p[0]}
		switch {
		case hasImm(p[0]) && len(p) == 2:
			base := 10
			if strings.HasSuffix(p[0], ".const") || isMem(p[0]) {
				base = 16
			}
			if i.imm, err = strconv.ParseUint(p[1], base, 64); err != nil {
				return nil, fmt.Errorf("instruction %q: %v", tok, err)
			}
			if (p[0] == "i32.const" || isMem(p[0])) && i.imm > 0xffffffff {
				return nil, fmt.Errorf("instruction %q: constant wider than 32 bits", tok)
			}
		case !hasImm(p[0]) && len(p) == 1:
		default:
			return nil, fmt.Errorf("instruction %q", tok)
		}
		f.body = append(f.body, i)
	}
	return f, nil
}

// ---------------------------------------------------------------- the random generator

var (
	binOps = []string{"add", "sub", "mul", "and", "or", "xor", "shl", "shr_s", "shr_u", "rotl", "rotr"}
	relOps = []string{"eq", "ne", "lt_s", "lt_u", "gt_s", "gt_u", "le_s", "le_u", "ge_s", "ge_u"}
	cntOps = []string{"clz", "ctz", "popcnt"}
	divOps = []string{"div_s", "div_u", "rem_s", "rem_u"}
)

type gen struct {
	r    *rand.Rand
	f    *fnDef
	lt   []vt   // params ++ locals
	init []bool // the local has been written (parameters: true from the start)
	st   []vt   // the type stack, top last
	live bool   // before the first `return`
	// narrow: the narrow sign extensions may be generated (a third of the functions; the others stay in the base
	// fragment and get the well-formedness / pass checks)
	narrow bool
	// base: the favourite address local (-1: none); memPct: percentage of steps that are memory instructions
	base   int
	memPct int
}

func (g *gen) emit(name string, imm uint64) { g.f.body = append(g.f.body, ins{name, imm}) }

func (g *gen) push(t vt) { g.st = append(g.st, t) }
func (g *gen) pop() vt {
	t := g.st[len(g.st)-1]
	g.st = g.st[:len(g.st)-1]
	return t
}

func (g *gen) top(k int) vt { return g.st[len(g.st)-1-k] }

// suffix: the top of the stack has the types ts (last = topmost)
func (g *gen) suffix(ts ...vt) bool {
	if len(g.st) < len(ts) {
		return false
	}
	for k, t := range ts {
		if g.st[len(g.st)-len(ts)+k] != t {
			return false
		}
	}
	return true
}

func (g *gen) randTy() vt { return vt(g.r.Intn(2)) }

// constVal: boundary-heavy constants (bit pattern, masked to the width)
func (g *gen) constVal(t vt) uint64 {
	w := t.bits()
	var v uint64
	switch g.r.Intn(14) {
	case 0:
		v = 0
	case 1:
		v = 1
	case 2:
		v = ^uint64(0)
	case 3:
		v = 1 << (w - 1) // min
	case 4:
		v = 1<<(w-1) - 1 // max
	case 5:
		v = 31
	case 6:
		v = 32
	case 7:
		v = 63
	case 8:
		v = 64
	case 9:
		if g.r.Intn(2) == 0 {
			v = []uint64{0x7f, 0x80, 0xff, 0x100, 0x7fff, 0x8000, 0xffff, 0x10000}[g.r.Intn(8)]
			if g.r.Intn(4) == 0 {
				v |= g.r.Uint64() << 16 // junk above the low 16 bits
			}
		} else {
			v = uint64(g.r.Intn(256))
		}
	case 10:
		v = uint64(-int64(g.r.Intn(200) + 1))
	case 11:
		v = uint64(g.r.Uint32()) // fits 32 bits also at i64: the upper half is zero
	default:
		v = g.r.Uint64()
	}
	return v & t.mask()
}

func (g *gen) emitConst(t vt, v uint64) {
	g.emit(t.String()+".const", v&t.mask())
	g.push(t)
}

func (g *gen) localsOf(t vt) []int {
	var out []int
	for k, lt := range g.lt {
		if lt == t {
			out = append(out, k)
		}
	}
	return out
}

func (g *gen) emitLocalGet(k int) {
	g.emit("local.get", uint64(k))
	g.push(g.lt[k])
	if g.live && !g.init[k] {
		g.f.uninitReads++
	}
}

// pushOf pushes some value of type t: a local of that type or a constant
func (g *gen) pushOf(t vt) {
	if ls := g.localsOf(t); len(ls) > 0 && g.r.Intn(2) == 0 {
		g.emitLocalGet(ls[g.r.Intn(len(ls))])
		return
	}
	g.emitConst(t, g.constVal(t))
}

// pickTy: mostly the type on top of the stack
func (g *gen) pickTy() vt {
	if len(g.st) > 0 && g.r.Intn(10) < 7 {
		return g.top(0)
	}
	return g.randTy()
}

// need2 makes the two topmost values have type t, reusing what is there
func (g *gen) need2(t vt) {
	switch {
	case g.suffix(t, t):
	case g.suffix(t):
		g.pushOf(t)
	default:
		g.pushOf(t)
		g.pushOf(t)
	}
}

func (g *gen) need1(t vt) {
	if !g.suffix(t) {
		g.pushOf(t)
	}
}

// offsets: boundary-heavy static offsets
func (g *gen) offset() uint64 {
	switch g.r.Intn(16) {
	case 0, 1, 2, 3:
		return 0
	case 4:
		return 1
	case 5:
		return uint64(g.r.Intn(9))
	case 6:
		return []uint64{3, 4, 7, 8, 0xff, 0xffff, 0x10000}[g.r.Intn(7)]
	case 7:
		return []uint64{0x7fffffff, 0x80000000, 0xfffffffc, 0xffffffff, 0xfffffff8}[g.r.Intn(5)]
	case 8:
		return uint64(g.r.Uint32())
	default:
		return uint64(g.r.Intn(20))
	}
}

// pushAddr pushes an i32 address: the favourite base (a local that is read again and again, so that the front end's
// known-safe-bound cache sees the same value id), a constant (small, around typical memory sizes, >= 2^31), whatever
// i32 is on top of the stack (often the result of an earlier load or of arithmetic), another i32 local
func (g *gen) pushAddr() {
	r := g.r
	k := r.Intn(10)
	switch {
	case k < 5 && g.base >= 0:
		g.emitLocalGet(g.base)
	case k < 7:
		var v uint64
		switch r.Intn(9) {
		case 0, 6, 7, 8:
			v = uint64(r.Intn(40))
		case 1:
			v = uint64(r.Intn(300))
		case 2:
			v = []uint64{0xfff8, 0xfffc, 0xffff, 0x10000, 0x1fff8, 0x20000}[r.Intn(6)]
		case 3:
			v = []uint64{0x7fffffff, 0x80000000, 0xfffffff8, 0xffffffff}[r.Intn(4)]
		case 4:
			v = uint64(r.Intn(16))
		default:
			v = uint64(r.Uint32())
		}
		g.emitConst(tI32, v)
	case k < 9 && g.suffix(tI32):
		// as is
	default:
		g.need1(tI32)
	}
}

func (g *gen) memStep() {
	r := g.r
	switch k := r.Intn(20); {
	case k == 0:
		g.emit("memory.size", 0)
		g.push(tI32)
	case k < 12:
		name := loadNames[r.Intn(len(loadNames))]
		g.pushAddr()
		g.emit(name, g.offset())
		g.pop()
		g.push(memOps[name].ty)
	default:
		name := storeNames[r.Intn(len(storeNames))]
		g.pushAddr()
		g.pushOf(memOps[name].ty)
		g.emit(name, g.offset())
		g.pop()
		g.pop()
	}
}

func (g *gen) step() {
	r := g.r
	if r.Intn(100) < g.memPct {
		g.memStep()
		return
	}
	k := r.Intn(110)
	if k < 24 && len(g.st) >= 6 && r.Intn(4) > 0 {
		k = 36 + r.Intn(74) // a deep stack: rather consume than push
	}
	switch {
	case k < 12:
		t := g.randTy()
		g.emitConst(t, g.constVal(t))
	case k < 24:
		if len(g.lt) == 0 {
			t := g.randTy()
			g.emitConst(t, g.constVal(t))
			return
		}
		g.emitLocalGet(r.Intn(len(g.lt)))
	case k < 36: // local.set / local.tee
		if len(g.lt) == 0 {
			return
		}
		var idx int
		if len(g.st) > 0 && len(g.localsOf(g.top(0))) > 0 && r.Intn(5) > 0 {
			ls := g.localsOf(g.top(0))
			idx = ls[r.Intn(len(ls))]
		} else {
			idx = r.Intn(len(g.lt))
			g.need1(g.lt[idx])
		}
		if r.Intn(2) == 0 {
			g.emit("local.set", uint64(idx))
			g.pop()
		} else {
			g.emit("local.tee", uint64(idx))
		}
		if g.live {
			g.init[idx] = true
		}
	case k < 39:
		if len(g.st) == 0 {
			g.pushOf(g.randTy())
		}
		g.emit("drop", 0)
		g.pop()
	case k < 44: // select
		t := g.pickTy()
		if len(g.st) >= 3 && g.top(0) == tI32 && g.top(1) == g.top(2) {
			// as is
		} else if g.suffix(t, t) {
			g.pushCond()
		} else {
			g.pushOf(t)
			g.pushOf(t)
			g.pushCond()
		}
		g.emit("select", 0)
		g.pop()
		g.pop()
	case k < 64: // binary operator
		t := g.pickTy()
		g.need2(t)
		g.emit(t.String()+"."+binOps[r.Intn(len(binOps))], 0)
		g.pop()
	case k < 74: // comparison
		t := g.pickTy()
		g.need2(t)
		g.emit(t.String()+"."+relOps[r.Intn(len(relOps))], 0)
		g.pop()
		g.pop()
		g.push(tI32)
	case k < 78:
		t := g.pickTy()
		g.need1(t)
		g.emit(t.String()+".eqz", 0)
		g.pop()
		g.push(tI32)
	case k < 83:
		t := g.pickTy()
		g.need1(t)
		g.emit(t.String()+"."+cntOps[r.Intn(len(cntOps))], 0)
	case k < 99: // conversions (8 of them, each with the weight 2 of 110)
		var name string
		var from, to vt
		nconv := 4
		if g.narrow {
			nconv = 8
		}
		switch r.Intn(nconv) {
		case 0:
			name, from, to = "i32.wrap_i64", tI64, tI32
		case 1:
			name, from, to = "i64.extend_i32_s", tI32, tI64
		case 2:
			name, from, to = "i64.extend_i32_u", tI32, tI64
		case 3:
			name, from, to = "i64.extend32_s", tI64, tI64
		case 4:
			name, from, to = "i32.extend8_s", tI32, tI32
		case 5:
			name, from, to = "i32.extend16_s", tI32, tI32
		case 6:
			name, from, to = "i64.extend8_s", tI64, tI64
		default:
			name, from, to = "i64.extend16_s", tI64, tI64
		}
		g.need1(from)
		g.emit(name, 0)
		g.pop()
		g.push(to)
	default: // trapping division / remainder
		t := g.pickTy()
		if r.Intn(3) == 0 {
			// fresh operands: dividend min / -1 / 0 / anything, divisor 0 / -1 / 1 / anything
			switch r.Intn(5) {
			case 0, 1:
				g.emitConst(t, 1<<(t.bits()-1))
			case 2:
				g.emitConst(t, ^uint64(0))
			default:
				g.pushOf(t)
			}
			switch r.Intn(8) {
			case 0:
				g.emitConst(t, 0)
			case 1, 2, 3:
				g.emitConst(t, ^uint64(0))
			case 4:
				g.emitConst(t, 1)
			default:
				g.pushOf(t)
			}
		} else {
			g.need2(t)
		}
		g.emit(t.String()+"."+divOps[r.Intn(len(divOps))], 0)
		g.pop()
	}
}

// pushCond pushes an i32 condition: 0, 1, anything
func (g *gen) pushCond() {
	switch g.r.Intn(4) {
	case 0:
		g.emitConst(tI32, 0)
	case 1:
		g.emitConst(tI32, 1)
	default:
		g.pushOf(tI32)
	}
}

// fixup makes the stack exactly the result types: the longest common prefix stays, what is above it is dropped
// (the topmost value is first saved into a local of its type, when there is one, and read back for the first
// missing result of that type), the missing results are pushed.
func (g *gen) fixup() {
	res := g.f.results
	k := 0
	for k < len(res) && k < len(g.st) && g.st[k] == res[k] {
		k++
	}
	saved, savedTy := -1, tI32
	if len(g.st) > k && k < len(res) {
		t := g.top(0)
		wanted := false
		for _, rt := range res[k:] {
			wanted = wanted || rt == t
		}
		if ls := g.localsOf(t); wanted && len(ls) > 0 && g.r.Intn(10) < 7 {
			saved, savedTy = ls[g.r.Intn(len(ls))], t
			g.emit("local.set", uint64(saved))
			g.pop()
			if g.live {
				g.init[saved] = true
			}
		}
	}
	for len(g.st) > k {
		g.emit("drop", 0)
		g.pop()
	}
	for _, rt := range res[k:] {
		if saved >= 0 && rt == savedTy {
			g.emitLocalGet(saved)
			saved = -1
			continue
		}
		g.pushOf(rt)
	}
}

func (g *gen) randTys(n int, mode int) []vt {
	out := make([]vt, n)
	for k := range out {
		switch mode {
		case 0:
			out[k] = tI32
		case 1:
			out[k] = tI64
		default:
			out[k] = g.randTy()
		}
	}
	return out
}

// genFn: 0..4 parameters, 0..3 results, 0..4 locals (only i32 / only i64 / mixed / none), a body of 0..40
// generated instructions (operands that are missing are pushed first) plus the final fix-up; with probability 1/4
// an explicit `return` at a random point, followed by nothing, or by dead code and the fix-up.
func genFn(r *rand.Rand) *fnDef {
	g := &gen{r: r, f: &fnDef{}, live: true, narrow: false}
	f := g.f
	f.params = g.randTys(r.Intn(5), 2)
	if r.Intn(4) > 0 {
		f.params = append([]vt{tI32}, g.randTys(r.Intn(4), 2)...)
	}
	f.results = g.randTys(r.Intn(4), 2)
	switch r.Intn(6) {
	case 0: // none
	case 1:
		f.locals = g.randTys(1+r.Intn(4), 0)
	case 2:
		f.locals = g.randTys(1+r.Intn(4), 1)
	default:
		f.locals = g.randTys(1+r.Intn(4), 2)
	}
	g.lt = append(append([]vt{}, f.params...), f.locals...)
	g.base = -1
	if ls := g.localsOf(tI32); len(ls) > 0 {
		g.base = ls[0]
	}
	g.memPct = []int{0, 15, 30, 30, 50, 70}[r.Intn(6)]
	g.init = make([]bool, len(g.lt))
	for k := range f.params {
		g.init[k] = true
	}
	n := r.Intn(41)
	if r.Intn(8) == 0 {
		n = r.Intn(4)
	}
	retAt := -1
	if r.Intn(4) == 0 {
		retAt = r.Intn(n + 1)
	}
	for len(f.body) < n || retAt >= 0 {
		if retAt >= 0 && len(f.body) >= retAt {
			retAt = -1
			if !g.suffix(f.results...) {
				for _, rt := range f.results {
					g.pushOf(rt)
				}
			}
			g.emit("return", 0)
			g.live = false
			switch r.Intn(5) {
			case 0, 1: // the function's end right after the return: valid whatever is on the stack
				return f
			case 2: // a little dead code
				n = len(f.body) + 1 + r.Intn(5)
			default: // the rest of the body is dead
				if n < len(f.body) {
					n = len(f.body)
				}
			}
			continue
		}
		g.step()
	}
	g.fixup()
	return f
}

// genArgs: boundary-heavy argument vectors (bit patterns; i32 arguments below 2^32)
func genArgs(r *rand.Rand, ps []vt) []uint64 {
	out := make([]uint64, len(ps))
	for k, t := range ps {
		var v uint64
		switch r.Intn(9) {
		case 0:
			v = 0
		case 1:
			v = 1
		case 2:
			v = ^uint64(0)
		case 3:
			v = 1 << (t.bits() - 1)
		case 4:
			v = 1<<(t.bits()-1) - 1
		case 5:
			v = uint64(r.Intn(100))
		case 6:
			v = uint64(r.Uint32())
		default:
			v = r.Uint64()
		}
		out[k] = v & t.mask()
	}
	return out
}

// ---------------------------------------------------------------- the hand-written corpus

var handWritten = []string{
	// empty bodies, only return
	"- - -",
	"i32 - -",
	"- - i32",
	"- - i64",
	"- - i32,i64",
	"- - i64,i32",
	"- - - return",
	"i32,i64 - i64,i64,i32 return",
	"i32 i32 - local.get:0",
	"i32 i32 - local.get:0 return",
	"i64 i64 - local.get:0 return",
	// tee + return
	"i32 i32 i32 local.get:0 local.tee:1 return",
	"i64 i64 i64 local.get:0 local.tee:1 drop local.get:1 return",
	"i32 i32,i32 i32 local.get:0 local.tee:1 local.get:1",
	// uninitialised locals of each type
	"- i32 i32 local.get:0",
	"- i64 i64 local.get:0",
	"- i32,i64 i32,i64 local.get:0 local.get:1",
	"- i64,i32 i32,i64 local.get:1 local.get:0",
	"- i64,i32 i64,i32 local.get:0 local.get:1",
	"i32 i32 i32,i32,i32 local.get:3 local.get:0 i32.add",
	"i64 i64 i64,i64 local.get:2 local.get:0 i64.add",
	"- i32 i32 local.get:0 i32.eqz",
	"- i32 i64 local.get:0 i64.eqz",
	// locals of one type only, set then read
	"i32 i32 i32,i32 local.get:0 local.set:1 local.get:1 local.get:2 i32.sub",
	"i64 i64 i64 local.get:0 local.set:1 local.get:1 local.get:1 i64.mul",
	"i32,i64 i64 i64 local.get:0 i64.extend_i32_u local.set:2 local.get:2 local.get:1 i64.xor",
	// a parameter overwritten
	"i32 i32 - i32.const:7 local.set:0 local.get:0",
	"i64 i64 - local.get:0 i64.const:1 i64.add local.tee:0 local.get:0 i64.mul",
	// eqz
	"i32 i32 - local.get:0 i32.eqz",
	"i64 i32 - local.get:0 i64.eqz",
	"i32 i32 - local.get:0 i32.eqz i32.eqz",
	"i64 i32 i32 local.get:0 i64.eqz local.tee:1 i32.eqz",
	// select
	"i32,i32,i32 i32 - local.get:0 local.get:1 local.get:2 select",
	"i64,i64,i32 i64 - local.get:0 local.get:1 local.get:2 select",
	"i32 i64 - i64.const:ffffffffffffffff i64.const:8000000000000000 local.get:0 select",
	"i64 i64 - local.get:0 i64.const:5 local.get:0 i64.eqz select",
	"- i32 - i32.const:1 i32.const:2 i32.const:0 select",
	// division by zero
	"i32 i32 - local.get:0 i32.const:0 i32.div_s",
	"i32 i32 - local.get:0 i32.const:0 i32.div_u",
	"i32 i32 - local.get:0 i32.const:0 i32.rem_s",
	"i32 i32 - local.get:0 i32.const:0 i32.rem_u",
	"i64 i64 - local.get:0 i64.const:0 i64.div_s",
	"i64 i64 - local.get:0 i64.const:0 i64.div_u",
	"i64 i64 - local.get:0 i64.const:0 i64.rem_s",
	"i64 i64 - local.get:0 i64.const:0 i64.rem_u",
	"i32 i32 i32 local.get:0 local.get:1 i32.div_u",
	"i64 i64 i64 local.get:0 local.get:1 i64.rem_s",
	// INT_MIN / -1
	"- i32 - i32.const:80000000 i32.const:ffffffff i32.div_s",
	"- i32 - i32.const:80000000 i32.const:ffffffff i32.rem_s",
	"- i32 - i32.const:80000000 i32.const:ffffffff i32.div_u",
	"- i32 - i32.const:80000000 i32.const:ffffffff i32.rem_u",
	"- i64 - i64.const:8000000000000000 i64.const:ffffffffffffffff i64.div_s",
	"- i64 - i64.const:8000000000000000 i64.const:ffffffffffffffff i64.rem_s",
	"- i64 - i64.const:8000000000000000 i64.const:ffffffffffffffff i64.div_u",
	"- i64 - i64.const:8000000000000000 i64.const:ffffffffffffffff i64.rem_u",
	"i32,i32 i32 - local.get:0 local.get:1 i32.div_s",
	"i64,i64 i64 - local.get:0 local.get:1 i64.div_s",
	"i32,i32 i32 - local.get:0 local.get:1 i32.rem_s",
	"i64,i64 i64 - local.get:0 local.get:1 i64.rem_s",
	// a division whose result is dropped still traps
	"i32 - - local.get:0 i32.const:0 i32.div_u drop",
	"i64 i64 - local.get:0 i64.const:0 i64.rem_u drop local.get:0",
	"- i32 - i32.const:80000000 i32.const:ffffffff i32.div_s drop i32.const:5",
	// shifts and rotates by the width and beyond
	"i32 i32 - local.get:0 i32.const:20 i32.shl",
	"i32 i32 - local.get:0 i32.const:20 i32.shr_s",
	"i32 i32 - local.get:0 i32.const:20 i32.shr_u",
	"i32 i32 - local.get:0 i32.const:20 i32.rotl",
	"i32 i32 - local.get:0 i32.const:20 i32.rotr",
	"i32 i32 - local.get:0 i32.const:21 i32.shl",
	"i32 i32 - local.get:0 i32.const:1f i32.shr_s",
	"i32 i32 - local.get:0 i32.const:40 i32.shr_u",
	"i32 i32 - local.get:0 i32.const:0 i32.shl",
	"i64 i64 - local.get:0 i64.const:40 i64.shl",
	"i64 i64 - local.get:0 i64.const:40 i64.shr_s",
	"i64 i64 - local.get:0 i64.const:40 i64.shr_u",
	"i64 i64 - local.get:0 i64.const:40 i64.rotl",
	"i64 i64 - local.get:0 i64.const:40 i64.rotr",
	"i64 i64 - local.get:0 i64.const:20 i64.shl",
	"i64 i64 - local.get:0 i64.const:3f i64.shr_s",
	"i64 i64 - local.get:0 i64.const:80 i64.shr_u",
	"i64 i64 - local.get:0 i64.const:100000040 i64.shl",
	"i64 i64 - local.get:0 i64.const:0 i64.rotr",
	// conversions
	"i64 i32 - local.get:0 i32.wrap_i64",
	"i32 i64 - local.get:0 i64.extend_i32_s",
	"i32 i64 - local.get:0 i64.extend_i32_u",
	"i64 i64 - local.get:0 i64.extend32_s",
	"- i64 - i64.const:80000000 i64.extend32_s",
	"- i64 - i64.const:ffffffff7fffffff i64.extend32_s",
	"- i64 - i32.const:80000000 i64.extend_i32_s",
	"- i64 - i32.const:80000000 i64.extend_i32_u",
	"- i32 - i64.const:ffffffff00000001 i32.wrap_i64",
	// constants: LEB128 boundaries
	"- i32 - i32.const:3f",
	"- i32 - i32.const:40",
	"- i32 - i32.const:ffffffc0",
	"- i32 - i32.const:ffffffbf",
	"- i32 - i32.const:7fffffff",
	"- i32 - i32.const:80000000",
	"- i64 - i64.const:7fffffffffffffff",
	"- i64 - i64.const:8000000000000000",
	"- i64 - i64.const:ffffffff",
	"- i64 - i64.const:100000000",
	"- i64,i32 - i64.const:0 i32.const:0",
	// multi-value results
	"i32,i64 i64,i32 - local.get:1 local.get:0",
	"i32,i64 i32,i64,i32 - local.get:0 local.get:1 local.get:0",
	"i32 i32,i32,i32 - local.get:0 local.get:0 i32.const:1 i32.add local.get:0 i32.const:2 i32.add",
	"i32,i64 i64,i32 - i32.const:9 local.get:1 local.get:0 return",
	"i32,i64 i64,i32 i32 local.get:1 local.get:2 return",
	// junk below the results at a return
	"i32 i32 - i64.const:1 i32.const:2 local.get:0 return",
	"i64 - - local.get:0 local.get:0 i64.add return",
	// dead code after return
	"i32 i32 - local.get:0 return i32.const:5",
	"i32 i32 - local.get:0 return drop i32.const:5",
	"i32 i32 i64 local.get:0 return i64.const:8000000000000000 local.set:1 i32.const:ffffff80",
	"i32 i32 - local.get:0 return local.get:0 i32.const:0 i32.div_s",
	"i32 i32 - local.get:0 return local.get:0 return",
	"i32 i32 - local.get:0 return i32.add",
	"- - - return i32.add drop",
	"- - - return i64.const:ffffffffffffffff drop return",
	"i64 i64 - local.get:0 i64.const:0 i64.div_u return i64.const:1",
	"i32 - i32 local.get:0 local.set:1 return local.get:1 drop",
	"- i64 i32,i64 local.get:1 return",
	// the same value used several times; values defined and never used
	"i32 i32 - local.get:0 local.get:0 i32.mul local.get:0 i32.add",
	"i32,i64 i32 - local.get:1 i64.popcnt drop i32.const:3 i32.const:4 i32.add drop local.get:0",
	"i64 i32 - local.get:0 i64.clz i64.ctz i64.popcnt i32.wrap_i64 i32.clz i32.ctz i32.popcnt",
}

// memCorpus: every load and store on a parameter address at boundary offsets; store/load pairs at one base; the
// patterns of the known-safe-bound cache; memory.size
func memCorpus() []string {
	var out []string
	offs := []string{"0", "1", "7fffffff", "80000000", "ffffffff"}
	for _, n := range loadNames {
		for _, o := range offs {
			out = append(out, fmt.Sprintf("i32 %s - local.get:0 %s:%s", memOps[n].ty, n, o))
		}
		out = append(out, fmt.Sprintf("- %s - i32.const:0 %s:0", memOps[n].ty, n))
		out = append(out, fmt.Sprintf("- %s - i32.const:80000000 %s:80000000", memOps[n].ty, n))
		out = append(out, fmt.Sprintf("- %s - i32.const:ffffffff %s:0", memOps[n].ty, n))
	}
	for _, n := range storeNames {
		t := memOps[n].ty
		for _, o := range offs {
			out = append(out, fmt.Sprintf("i32,%s - - local.get:0 local.get:1 %s:%s", t, n, o))
		}
		for _, l := range loadNames {
			out = append(out, fmt.Sprintf("i32,%s %s - local.get:0 local.get:1 %s:0 local.get:0 %s:0", t, memOps[l].ty, n, l))
			out = append(out, fmt.Sprintf("i32,%s %s - local.get:0 local.get:1 %s:2 local.get:0 %s:1", t, memOps[l].ty, n, l))
			out = append(out, fmt.Sprintf("i32,%s %s - local.get:0 local.get:1 %s:0 local.get:0 i32.const:1 i32.add %s:0", t, memOps[l].ty, n, l))
		}
	}
	out = append(out,
		"- i32 - memory.size",
		"i32 i32 - memory.size local.get:0 i32.add memory.size i32.sub",
		// cache: same base, ceil increasing / decreasing / equal
		"i32 i32 - local.get:0 i32.load8_u:0 local.get:0 i32.load16_u:0 i32.add local.get:0 i32.load:0 i32.add local.get:0 i64.load:0 i32.wrap_i64 i32.add",
		"i32 i32 - local.get:0 i64.load:0 i32.wrap_i64 local.get:0 i32.load:4 i32.add local.get:0 i32.load16_u:6 i32.add local.get:0 i32.load8_u:7 i32.add",
		"i32 i32 - local.get:0 i32.load:4 local.get:0 i32.load:4 i32.add local.get:0 i32.load:0 i32.add local.get:0 i32.load:5 i32.add",
		"i32,i32 i32 - local.get:0 local.get:1 i32.store:8 local.get:0 local.get:1 i32.store:4 local.get:0 local.get:1 i32.store:c local.get:0 i32.load:8",
		// a no-op shift feeding an address: the passes alias it away (optValid with aliases)
		"i32 i32 - local.get:0 i32.const:20 i32.shl i32.load8_u:0",
		"i32 i32 - local.get:0 i32.const:0 i32.shr_u i32.load:0 local.get:0 i32.const:40 i32.shr_s i32.load:0 i32.add",
		"i32,i64 i64 - local.get:0 local.get:1 i64.const:40 i64.shl i64.store:0 local.get:0 i64.load:0 i64.const:80 i64.shr_u",
		"i32 i32 - local.get:0 i32.const:1f i32.shl i32.load8_u:0",
		// the address local is reassigned between the accesses: a new value id, a new check
		"i32 i32 - local.get:0 i32.load:8 local.get:0 i32.const:0 i32.add local.tee:0 i32.load:0 i32.add local.get:0 i32.load:4 i32.add",
		// two different values with equal contents: two checks
		"i32,i32 i32 - local.get:0 i32.load:0 local.get:1 i32.load:0 i32.add",
		// constants as addresses: every i32.const is a new value
		"- i32 - i32.const:4 i32.load:0 i32.const:4 i32.load:0 i32.add",
		// the result of a load as an address
		"i32 i32 - local.get:0 i32.load:0 i32.load:0",
		"i32 i64 - local.get:0 i32.load8_u:0 i64.load:0",
		"i32 i32 i32 local.get:0 i32.load:0 local.tee:1 i32.load:0 local.get:1 i32.load:4 i32.add",
		// a trap after a store: the store stays
		"i32,i32 - - local.get:0 local.get:1 i32.store:0 local.get:0 local.get:1 i32.store:10000",
		"i32,i32 i32 - local.get:0 local.get:1 i32.store8:0 local.get:0 i32.const:0 i32.div_u",
		// memory access in dead code
		"i32 i32 - local.get:0 return local.get:0 i32.load:0",
		"i32 i32 - local.get:0 i32.load:0 return local.get:0 i32.load:4",
		// uninitialised local as address
		"- i32 i32 local.get:0 i32.load:0",
		"- i64 i32,i64 local.get:0 local.get:1 i64.store:0 local.get:0 i64.load:0",
	)
	return out
}

// systematic: every operator once at each type, on parameters and on boundary constants
func systematic() []string {
	var out []string
	for _, t := range []string{"i32", "i64"} {
		min, m1 := "80000000", "ffffffff"
		if t == "i64" {
			min, m1 = "8000000000000000", "ffffffffffffffff"
		}
		for _, op := range binOps {
			out = append(out, fmt.Sprintf("%s,%s %s - local.get:0 local.get:1 %s.%s", t, t, t, t, op))
			out = append(out, fmt.Sprintf("%s %s - %s.const:%s local.get:0 %s.%s", t, t, t, min, t, op))
		}
		for _, op := range divOps {
			out = append(out, fmt.Sprintf("%s,%s %s - local.get:0 local.get:1 %s.%s", t, t, t, t, op))
			out = append(out, fmt.Sprintf("%s %s - local.get:0 %s.const:%s %s.%s", t, t, t, m1, t, op))
			out = append(out, fmt.Sprintf("%s %s - %s.const:%s local.get:0 %s.%s", t, t, t, min, t, op))
		}
		for _, op := range relOps {
			out = append(out, fmt.Sprintf("%s,%s i32 - local.get:0 local.get:1 %s.%s", t, t, t, op))
			out = append(out, fmt.Sprintf("%s i32 - local.get:0 %s.const:%s %s.%s", t, t, min, t, op))
		}
		for _, op := range cntOps {
			out = append(out, fmt.Sprintf("%s %s - local.get:0 %s.%s", t, t, t, op))
			out = append(out, fmt.Sprintf("- %s - %s.const:0 %s.%s", t, t, t, op))
		}
	}
	return out
}
