package main

// Reflection walk over the real heap: which Go pointers (the ones the collector sees) lead from the
// ModuleInstance of a held instance to the other instances and to its own compiled module.
// uintptr / unsafe.Pointer / integer words are NOT followed: they are exactly the raw edges.

import (
	"fmt"
	"reflect"
	"sort"
	"strings"
	"unsafe"

	"github.com/tetratelabs/wazero/internal/wasm"
)

type walker struct {
	seen  map[unsafe.Pointer]map[reflect.Type]bool
	n     int
	insts map[wasm.ModuleID]bool // compiled-module ids of the ModuleInstances reached (one binary per instance)
	cmOf  map[uintptr]bool       // *wasm.Module pointers of compiled modules / compiled functions reached
	trunc bool
}

const walkLimit = 400000

func (w *walker) mark(p unsafe.Pointer, t reflect.Type) bool {
	m := w.seen[p]
	if m == nil {
		m = map[reflect.Type]bool{}
		w.seen[p] = m
	}
	if m[t] {
		return false
	}
	m[t] = true
	return true
}

func access(v reflect.Value) reflect.Value {
	if v.CanInterface() || !v.CanAddr() {
		return v
	}
	return reflect.NewAt(v.Type(), unsafe.Pointer(v.UnsafeAddr())).Elem()
}

func (w *walker) walk(v reflect.Value) {
	if w.n > walkLimit {
		w.trunc = true
		return
	}
	w.n++
	switch v.Kind() {
	case reflect.Ptr:
		if v.IsNil() {
			return
		}
		et := v.Type().Elem()
		switch et.Kind() {
		case reflect.Struct, reflect.Array, reflect.Ptr, reflect.Slice, reflect.Map, reflect.Interface:
		default:
			return // *byte etc.: nothing to follow (and it may point into mmap'd code)
		}
		if !w.mark(unsafe.Pointer(v.Pointer()), et) {
			return
		}
		e := v.Elem()
		if et.Kind() == reflect.Struct {
			w.note(v, e)
		}
		w.walk(e)
	case reflect.Interface:
		if !v.IsNil() {
			w.walk(access(v).Elem())
		}
	case reflect.Struct:
		if strings.HasPrefix(v.Type().PkgPath(), "sync") || v.Type().PkgPath() == "reflect" {
			return
		}
		for i := 0; i < v.NumField(); i++ {
			f := v.Field(i)
			switch f.Kind() {
			case reflect.Ptr, reflect.Interface, reflect.Struct, reflect.Slice, reflect.Map, reflect.Array:
				w.walk(access(f))
			}
		}
	case reflect.Slice:
		if v.IsNil() {
			return
		}
		switch v.Type().Elem().Kind() {
		case reflect.Ptr, reflect.Interface, reflect.Struct, reflect.Slice, reflect.Map, reflect.Array:
		default:
			return
		}
		if v.Len() > 0 && !w.mark(unsafe.Pointer(v.Pointer()), v.Type()) {
			return
		}
		for i := 0; i < v.Len(); i++ {
			w.walk(access(v.Index(i)))
		}
	case reflect.Array:
		switch v.Type().Elem().Kind() {
		case reflect.Ptr, reflect.Interface, reflect.Struct, reflect.Slice, reflect.Map, reflect.Array:
		default:
			return
		}
		for i := 0; i < v.Len(); i++ {
			w.walk(access(v.Index(i)))
		}
	case reflect.Map:
		if v.IsNil() || !w.mark(unsafe.Pointer(v.Pointer()), v.Type()) {
			return
		}
		it := v.MapRange()
		for it.Next() {
			w.walk(it.Key())
			w.walk(it.Value())
		}
	}
}

// note records the modelled node kinds.
func (w *walker) note(p, e reflect.Value) {
	t := e.Type()
	switch {
	case t == reflect.TypeOf(wasm.ModuleInstance{}):
		mi := (*wasm.ModuleInstance)(unsafe.Pointer(p.Pointer()))
		if mi.Source != nil {
			w.insts[mi.Source.ID] = true
		}
	case t.Name() == "compiledModule" && strings.HasSuffix(t.PkgPath(), "engine/wazevo"):
		if f := e.FieldByName("module"); f.IsValid() && f.Kind() == reflect.Ptr {
			w.cmOf[f.Pointer()] = true
		}
	case t.Name() == "compiledFunction" && strings.HasSuffix(t.PkgPath(), "engine/interpreter"):
		if f := e.FieldByName("source"); f.IsValid() && f.Kind() == reflect.Ptr {
			w.cmOf[f.Pointer()] = true
		}
	}
}

// walkReport: "i>j:b … i>cm:b" for every held instance i of the side, j over all module indexes.
func walkReport(s *side) string {
	var cells []string
	for i := 0; i < maxMods; i++ {
		mi, ok := s.inst[i].(*wasm.ModuleInstance)
		if !ok || mi == nil {
			continue
		}
		w := &walker{seen: map[unsafe.Pointer]map[reflect.Type]bool{}, insts: map[wasm.ModuleID]bool{}, cmOf: map[uintptr]bool{}}
		w.walk(reflect.ValueOf(mi))
		for j := 0; j < maxMods; j++ {
			if j != i {
				cells = append(cells, fmt.Sprintf("%d>%d:%s", i, j, b2s(s.hasID[j] && w.insts[s.ids[j]])))
			}
		}
		cells = append(cells, fmt.Sprintf("%d>cm:%s", i, b2s(w.cmOf[uintptr(unsafe.Pointer(mi.Source))])))
		if w.trunc {
			cells = append(cells, fmt.Sprintf("%d>TRUNC:1", i))
		}
	}
	sort.Strings(cells)
	if len(cells) == 0 {
		return "-"
	}
	return strings.Join(cells, ",")
}

func b2s(b bool) string {
	if b {
		return "1"
	}
	return "0"
}
