package main

// Rebinding stage: ONE compiled importer module is instantiated several times, each time against a different
// provider of the same import (the previous owner of the name was closed and a new instance took the name, or the
// provider is chosen per instantiation by experimental.ImportResolver).  Whatever an instance needs to reach its
// provider - and to keep it alive - is the instance's own: nothing of it may live in the compiled module, where the
// latest instantiation would overwrite it for all the earlier ones.  Every importer must keep calling the provider
// it was linked with (or fail with the ordinary closed error) however the providers are closed, dropped and
// collected; its re-export of the import and a reference to the import must lead to the same provider.
//
// ops (after the leading "rebind name|resolver"):  prov k | imp j | closeprov k | dropprov k | closeimp j | gc |
// call j how x   (how: imp = guest calls its import, re = host calls the re-export, ref = guest calls ref.func of
// the import through its own table).  Provider k answers 1000*(k+1)+x.

import (
	"fmt"
	"math/rand"
	"strings"

	"github.com/tetratelabs/wazero"
	"github.com/tetratelabs/wazero/api"
	"github.com/tetratelabs/wazero/experimental"
	"github.com/tetratelabs/wazero/internal/testing/binaryencoding"
	"github.com/tetratelabs/wazero/internal/wasm"
	"github.com/tetratelabs/wazero/verifharness/hx"
	"github.com/tetratelabs/wazero/verifharness/wb"
)

const maxProv = 6

func providerModule(k int) []byte {
	m := &wasm.Module{}
	m.TypeSection = []wasm.FunctionType{{Params: []byte{wasm.ValueTypeI64}, Results: []byte{wasm.ValueTypeI64}}}
	m.FunctionSection = []uint32{0}
	m.CodeSection = []wasm.Code{{Body: cat(localGet(0), wb.I64Const(int64(1000*(k+1))), []byte{wasm.OpcodeI64Add, wasm.OpcodeEnd})}}
	m.ExportSection = []wasm.Export{{Name: "f", Type: wasm.ExternTypeFunc, Index: 0}}
	return binaryencoding.EncodeModule(m)
}

// rebindImporter: imports p.f (function 0), re-exports it as "f"; callimp(x) = p.f(x); callref(x) stores ref.func 0
// into its own table and calls it indirectly.
func rebindImporter() []byte {
	m := &wasm.Module{}
	m.TypeSection = []wasm.FunctionType{{Params: []byte{wasm.ValueTypeI64}, Results: []byte{wasm.ValueTypeI64}}}
	m.ImportSection = []wasm.Import{{Type: wasm.ExternTypeFunc, Module: "p", Name: "f", DescFunc: 0}}
	m.ImportFunctionCount = 1
	m.TableSection = []wasm.Table{{Min: 2, Type: wasm.RefTypeFuncref}}
	m.FunctionSection = []uint32{0, 0}
	m.CodeSection = []wasm.Code{
		{Body: cat(localGet(0), []byte{wasm.OpcodeCall}, u32(0), []byte{wasm.OpcodeEnd})},
		{Body: cat(i32const(1), []byte{wasm.OpcodeRefFunc}, u32(0), []byte{wasm.OpcodeTableSet}, u32(0),
			localGet(0), i32const(1), []byte{wasm.OpcodeCallIndirect}, u32(0), u32(0), []byte{wasm.OpcodeEnd})},
	}
	m.ExportSection = []wasm.Export{{Name: "f", Type: wasm.ExternTypeFunc, Index: 0},
		{Name: "callimp", Type: wasm.ExternTypeFunc, Index: 1}, {Name: "callref", Type: wasm.ExternTypeFunc, Index: 2}}
	return binaryencoding.EncodeModule(m)
}

func rebind(h *History, emit func(string, ...any)) {
	mode := strings.Fields(h.Ops[0])[1]
	s := newSide("R", h)
	var prov [maxProv]api.Module
	var imp [maxProv]api.Module
	var current api.Module // the provider an instantiation links with now
	icm, err := s.rt.CompileModule(ctx, rebindImporter())
	if err != nil {
		emit("R 0 cerr:%v", err)
		return
	}
	emit("R 0 ok")
	for k := 1; k < len(h.Ops); k++ {
		f := strings.Fields(h.Ops[k])
		emit("B %d", k)
		out := "ok"
		func() {
			defer func() {
				if r := recover(); r != nil {
					out = "PANIC:" + strings.ReplaceAll(fmt.Sprint(r), " ", "_")
				}
			}()
			switch f[0] {
			case "prov":
				i := atoi(f[1])
				name := "p"
				if mode == "resolver" {
					name = ""
				}
				m, err := s.rt.InstantiateWithConfig(ctx, providerModule(i), wazero.NewModuleConfig().WithName(name))
				if err != nil {
					out = "ierr:" + classify(err)
					return
				}
				prov[i], current = m, m
			case "imp":
				j := atoi(f[1])
				ictx := ctx
				if mode == "resolver" {
					cur := current
					ictx = experimental.WithImportResolver(ctx, func(name string) api.Module {
						if name == "p" {
							return cur
						}
						return nil
					})
				}
				m, err := s.rt.InstantiateModule(ictx, icm, wazero.NewModuleConfig().WithName(""))
				if err != nil {
					out = "ierr:" + classify(err)
					return
				}
				imp[j] = m
			case "closeprov":
				if p := prov[atoi(f[1])]; p != nil {
					out = classify(p.Close(ctx))
				}
			case "dropprov":
				i := atoi(f[1])
				if current == prov[i] {
					current = nil
				}
				prov[i] = nil
			case "closeimp":
				if m := imp[atoi(f[1])]; m != nil {
					out = classify(m.Close(ctx))
				}
			case "gc":
				collect()
				if h.Spray {
					spray()
				}
			case "call":
				j, how, x := atoi(f[1]), f[2], uint64(atoi(f[3]))
				if imp[j] == nil {
					out = "nohandle"
					return
				}
				name := map[string]string{"imp": "callimp", "re": "f", "ref": "callref"}[how]
				res, err := imp[j].ExportedFunction(name).Call(ctx, x)
				if err != nil {
					out = classify(err)
					return
				}
				out = fmt.Sprintf("v=%d", res[0])
			default:
				panic("bad op " + h.Ops[k])
			}
		}()
		emit("R %d %s", k, out)
	}
}

// rebindHistories: the corpus scenario (close the first provider, a second one takes the name, the same compiled
// importer is instantiated again, the first provider is dropped and collected, the FIRST importer is used) and
// generated ones over up to maxProv providers / importers.
func rebindHistories(r *rand.Rand, n int) []*History {
	var hs []*History
	for _, e := range []string{"compiler", "interpreter"} {
		for _, mode := range []string{"name", "resolver"} {
			for _, cache := range []bool{false, true} {
				hs = append(hs, &History{Engine: e, Cache: cache, Spray: true, Ops: []string{"rebind " + mode,
					"prov 0", "imp 0", "call 0 imp 1", "closeprov 0", "prov 1", "imp 1", "call 0 imp 2", "call 0 re 2", "call 0 ref 2", "call 1 imp 2",
					"dropprov 0", "gc", "call 0 imp 3", "call 0 re 3", "call 0 ref 3", "call 1 imp 3", "closeimp 1", "gc", "call 0 imp 4"}})
			}
		}
	}
	for c := 0; c < n; c++ {
		mode := []string{"name", "resolver"}[r.Intn(2)]
		h := &History{Engine: []string{"compiler", "interpreter"}[c%2], Cache: r.Intn(3) == 0, Spray: r.Intn(2) == 0, Ops: []string{"rebind " + mode}}
		np, ni := 0, 0
		nameFree := true
		open := map[int]bool{}
		for step := 0; step < 10+r.Intn(14); step++ {
			switch x := r.Intn(100); {
			case x < 18 && np < maxProv && (mode == "resolver" || nameFree):
				h.Ops = append(h.Ops, fmt.Sprintf("prov %d", np))
				open[np] = true
				np++
				nameFree = false
			case x < 40 && ni < maxProv && np > 0 && (mode == "resolver" || !nameFree):
				h.Ops = append(h.Ops, fmt.Sprintf("imp %d", ni))
				ni++
			case x < 52 && np > 0:
				k := r.Intn(np)
				h.Ops = append(h.Ops, fmt.Sprintf("closeprov %d", k))
				if k == np-1 {
					nameFree = true
				}
				delete(open, k)
			case x < 60 && np > 1:
				k := r.Intn(np - 1) // never the one a later importer still has to link with
				h.Ops = append(h.Ops, fmt.Sprintf("dropprov %d", k))
			case x < 65 && ni > 0:
				h.Ops = append(h.Ops, fmt.Sprintf("closeimp %d", r.Intn(ni)))
			case x < 75:
				h.Ops = append(h.Ops, "gc")
			case ni > 0:
				h.Ops = append(h.Ops, fmt.Sprintf("call %d %s %d", r.Intn(ni), []string{"imp", "re", "ref"}[r.Intn(3)], r.Intn(900)))
			}
		}
		h.Ops = append(h.Ops, "gc")
		for j := 0; j < ni; j++ {
			for _, how := range []string{"imp", "re", "ref"} {
				h.Ops = append(h.Ops, fmt.Sprintf("call %d %s %d", j, how, r.Intn(900)))
			}
		}
		hs = append(hs, h)
	}
	return hs
}

// evalRebind: importer j answers with the provider that was current when j was instantiated, or with the ordinary
// closed error; in "name" mode a provider is refused while an open module owns the name (never generated).
func evalRebind(h *History) {
	res := runChild(h)
	mode := strings.Fields(h.Ops[0])[1]
	rep.Case(fmt.Sprintf("rebind/%s/%s/%v/%s", h.Engine, mode, h.Cache, eraseArgs(h.Ops)))
	rep.Count("label:rebind")
	bound := map[int]int{}
	cur := -1
	fail := func(sig, what string, k int) {
		rep.Violate(hx.Violation{Kind: "impl-violation", Signature: "C09:" + h.Engine + ":rebind:" + sig,
			What: what, Input: h, Actual: fmt.Sprintf("op %d %q -> %q", k, h.Ops[k], res.R[k])})
	}
	if !res.Done || res.Crash != "" {
		k := res.Begun
		op := ""
		if k >= 0 && k < len(h.Ops) {
			op = h.Ops[k]
		}
		fail("child-crashed", fmt.Sprintf("one compiled importer instantiated against several providers: the process died during op %d %q: %s %s", k, op, res.Crash, res.Stderr), max(k, 0))
		return
	}
	for k := 1; k < len(h.Ops); k++ {
		f := strings.Fields(h.Ops[k])
		r := res.R[k]
		if strings.HasPrefix(r, "PANIC") {
			fail("go-panic", "Go panic reaches the embedder: "+r, k)
			return
		}
		switch f[0] {
		case "prov":
			if r == "ok" {
				cur = atoi(f[1])
			} else {
				fail("provider-refused", "a provider cannot be instantiated although no open module owns its name: "+r, k)
				return
			}
		case "imp":
			if r == "ok" {
				bound[atoi(f[1])] = cur
			} else {
				fail("importer-refused", "the compiled importer cannot be instantiated against the current provider: "+r, k)
				return
			}
		case "call":
			j, x := atoi(f[1]), atoi(f[3])
			want := fmt.Sprintf("v=%d", 1000*(bound[j]+1)+x)
			rep.Count("rebind-call:" + strings.SplitN(r, "=", 2)[0])
			if r != want && r != "closed" {
				fail("importer-reaches-another-provider", fmt.Sprintf("importer %d was linked with provider %d; after later instantiations of the same compiled module against other providers, %s(%d) answers %s (want %s or the ordinary closed error)", j, bound[j], f[2], x, r, want), k)
				return
			}
		}
	}
}

func eraseArgs(ops []string) string {
	var out []string
	for _, o := range ops {
		f := strings.Fields(o)
		if f[0] == "call" {
			f = f[:3]
		}
		out = append(out, strings.Join(f, " "))
	}
	return strings.Join(out, ";")
}
