package main

// Imported-global stage: a live instance B that imports an IMMUTABLE global of instance A holds whatever that global
// holds - for a funcref global a reference to one of A's functions - for as long as B lives, by the module-linking
// semantics alone (B never receives a function of A, shares no table with it, and the embedder passes nothing).  A is
// closed (instance and compiled module), every host reference to it is dropped, other modules are compiled and
// instantiated (the engine's own bookkeeping of compiled modules gets overwritten) and collections run: B must still
// be able to use the reference - call through it, copy it into its own table, initialise a global and an element
// segment of a LATER instance from it.  The numeric siblings (i32 / i64 immutable globals of A) must keep their values.
//
// ops after the leading "globalref":  build  |  closeA  |  churn  |  gc  |  use  |  late

import (
	"fmt"
	"strings"

	"github.com/tetratelabs/wazero"
	"github.com/tetratelabs/wazero/api"
	"github.com/tetratelabs/wazero/internal/leb128"
	"github.com/tetratelabs/wazero/internal/wasm"
	"github.com/tetratelabs/wazero/verifharness/hx"
	"github.com/tetratelabs/wazero/verifharness/wb"
)

func globalRefModules() (a, b []byte) {
	ma := wb.New()
	f := ma.AddFunc(wb.Func{Params: []byte{wb.I32}, Results: []byte{wb.I32}, Body: wb.Cat(wb.LocalGet(0), wb.I32Const(4200), wb.Op(wasm.OpcodeI32Add))})
	g := func(t byte, op byte, data []byte, name string) {
		ma.M.GlobalSection = append(ma.M.GlobalSection, wasm.Global{Type: wasm.GlobalType{ValType: t}, Init: wasm.ConstantExpression{Opcode: op, Data: data}})
		ma.M.ExportSection = append(ma.M.ExportSection, wasm.Export{Name: name, Type: wasm.ExternTypeGlobal, Index: uint32(len(ma.M.GlobalSection) - 1)})
	}
	g(wasm.ValueTypeFuncref, wasm.OpcodeRefFunc, leb128.EncodeUint32(f), "gf")
	g(wb.I32, wasm.OpcodeI32Const, leb128.EncodeInt32(77), "g32")
	g(wb.I64, wasm.OpcodeI64Const, leb128.EncodeInt64(-5), "g64")
	a = ma.BytesWithSegments([]wb.Elem{{Passive: true, Init: []int64{int64(f)}}})

	mb := wb.New()
	for i, t := range []byte{wasm.ValueTypeFuncref, wb.I32, wb.I64} {
		mb.M.ImportSection = append(mb.M.ImportSection, wasm.Import{Type: wasm.ExternTypeGlobal, Module: "A", Name: []string{"gf", "g32", "g64"}[i], DescGlobal: wasm.GlobalType{ValType: t}})
	}
	mb.M.ImportGlobalCount = 3
	mb.Table(4, nil)
	t0 := mb.TypeIdx([]byte{wb.I32}, []byte{wb.I32})
	// use(x): table[1] := gf; call_indirect table[1](x) + g32 + i32.wrap(g64)
	mb.AddFunc(wb.Func{Params: []byte{wb.I32}, Results: []byte{wb.I32}, Export: "use", Body: wb.Cat(
		wb.I32Const(1), wb.GlobalGet(0), wb.Op(wasm.OpcodeTableSet, 0),
		wb.LocalGet(0), wb.I32Const(1), wb.Op(wasm.OpcodeCallIndirect), wb.U32(t0), wb.U32(0),
		wb.GlobalGet(1), wb.Op(wasm.OpcodeI32Add), wb.GlobalGet(2), wb.Op(wasm.OpcodeI32WrapI64), wb.Op(wasm.OpcodeI32Add))})
	// own global initialised from the imported one, and an element segment item taken from it (evaluated per instance)
	mb.M.GlobalSection = append(mb.M.GlobalSection, wasm.Global{Type: wasm.GlobalType{ValType: wasm.ValueTypeFuncref}, Init: wasm.ConstantExpression{Opcode: wasm.OpcodeGlobalGet, Data: leb128.EncodeUint32(0)}})
	mb.AddFunc(wb.Func{Params: []byte{wb.I32}, Results: []byte{wb.I32}, Export: "viaown", Body: wb.Cat(
		wb.I32Const(2), wb.GlobalGet(3), wb.Op(wasm.OpcodeTableSet, 0),
		wb.LocalGet(0), wb.I32Const(2), wb.Op(wasm.OpcodeCallIndirect), wb.U32(t0), wb.U32(0))})
	b = mb.Bytes()
	return
}

func globalRef(h *History, emit func(string, ...any)) {
	s := newSide("R", h)
	abin, bbin := globalRefModules()
	var a, b api.Module
	var acm wazero.CompiledModule
	var lates []api.Module
	emit("R 0 ok")
	for k := 1; k < len(h.Ops); k++ {
		emit("B %d", k)
		out := "ok"
		func() {
			defer func() {
				if r := recover(); r != nil {
					out = "PANIC:" + strings.ReplaceAll(fmt.Sprint(r), " ", "_")
				}
			}()
			use := func(m api.Module, fn string) string {
				res, err := m.ExportedFunction(fn).Call(ctx, 5)
				if err != nil {
					return classify(err)
				}
				return fmt.Sprintf("v=%d", int32(res[0]))
			}
			switch h.Ops[k] {
			case "build":
				var err error
				if acm, err = s.rt.CompileModule(ctx, abin); err != nil {
					out = "err:" + err.Error()
					return
				}
				if a, err = s.rt.InstantiateModule(ctx, acm, wazero.NewModuleConfig().WithName("A")); err != nil {
					out = "err:" + err.Error()
					return
				}
				if b, err = s.rt.InstantiateWithConfig(ctx, bbin, wazero.NewModuleConfig().WithName("B")); err != nil {
					out = "err:" + strings.ReplaceAll(err.Error(), " ", "_")
				}
			case "closeA":
				a.Close(ctx)
				acm.Close(ctx)
				a, acm = nil, nil
			case "churn":
				// unrelated compilations and instantiations: whatever the engine keeps per compiled module is overwritten
				for i := 0; i < 3; i++ {
					m := wb.New()
					m.AddFunc(wb.Func{Results: []byte{wb.I32}, Export: "x", Body: wb.I32Const(int32(i))})
					if um, err := s.rt.InstantiateWithConfig(ctx, m.Bytes(), wazero.NewModuleConfig().WithName("")); err == nil {
						um.ExportedFunction("x").Call(ctx)
						um.Close(ctx)
					}
				}
			case "gc":
				collect()
				if h.Spray {
					spray()
				}
			case "use":
				out = use(b, "use") + "," + use(b, "viaown")
				for _, l := range lates {
					out += "," + use(l, "use") + "," + use(l, "viaown")
				}
			case "late":
				// a later instance of B's module cannot be linked once A is gone from the registry: that is an ordinary
				// error; when A is still there it works
				l, err := s.rt.InstantiateWithConfig(ctx, bbin, wazero.NewModuleConfig().WithName(""))
				if err != nil {
					out = "linkerr"
				} else {
					lates = append(lates, l)
				}
			}
		}()
		emit("R %d %s", k, out)
	}
}

func globalRefHistories() []*History {
	var hs []*History
	for _, e := range []string{"compiler", "interpreter"} {
		for _, cache := range []bool{false, true} {
			hs = append(hs, &History{Engine: e, Cache: cache, Spray: true, Ops: []string{"globalref", "build", "use", "late", "closeA", "use", "churn", "gc", "use", "churn", "gc", "gc", "use", "late", "use"}})
		}
	}
	return hs
}

func evalGlobalRef(h *History) {
	res := runChild(h)
	rep.Case(fmt.Sprintf("globalref/%s/%v", h.Engine, h.Cache))
	rep.Count("label:globalref")
	fail := func(sig, what string, k int) {
		full := "C09:" + h.Engine + ":imported-global:" + sig
		if h.Engine == "interpreter" && sig != "go-panic" {
			// the interpreter's function references are plain addresses of the defining instance's function objects: the
			// class of finding F7 (a reference outliving its collected owner), here with an imported global as the holder
			full = "F7:interpreter:funcref-in-imported-global-after-owner-collected"
		}
		rep.Violate(hx.Violation{Kind: "impl-violation", Signature: full, What: what, Input: h,
			Actual: fmt.Sprintf("op %d %q -> %q", k, h.Ops[max(k, 0)], res.R[k])})
	}
	if !res.Done || res.Crash != "" {
		k := max(res.Begun, 0)
		fail("child-crashed", fmt.Sprintf("a live instance used the function reference held by an immutable global it imports from an instance that was closed, dropped and collected: the process died during op %d %q: %s %s", k, h.Ops[k], res.Crash, res.Stderr), k)
		return
	}
	want := fmt.Sprintf("v=%d", 5+4200+77-5)
	want2 := fmt.Sprintf("v=%d", 5+4200)
	for k := 1; k < len(h.Ops); k++ {
		r := res.R[k]
		switch {
		case strings.HasPrefix(r, "PANIC"):
			fail("go-panic", "Go panic reaches the embedder: "+r, k)
			return
		case h.Ops[k] == "build" && r != "ok":
			hx.Fatal("imported-global stage: build: %s", r)
		case h.Ops[k] == "use":
			parts := strings.Split(r, ",")
			for i, p := range parts {
				w := want
				if i%2 == 1 {
					w = want2
				}
				if p != w {
					fail("reference-or-value-changed", fmt.Sprintf("the importer's view of the imported immutable globals changed after the exporter was closed and collected: answers %s, want %s / %s per instance", r, want, want2), k)
					return
				}
			}
		}
	}
}

// hostRef (same stage, second kind of history: ops after the leading "hostref"): a guest's funcref to an IMPORTED HOST
// function - placed in its own table by an element segment, by ref.func + table.set, and held in a global - is a
// reference like any other: the record behind it lives as long as the guest does.  The host module's instance and
// compiled module are closed and dropped, collections and heap churn follow, the guest keeps calling through all three.
func hostRef(h *History, emit func(string, ...any)) {
	s := newSide("R", h)
	hcm, err := s.rt.NewHostModuleBuilder("a").NewFunctionBuilder().WithFunc(func(x uint32) uint32 { return x + 4200 }).Export("f").Compile(ctx)
	if err != nil {
		emit("R 0 hosterr:%v", err)
		return
	}
	hinst, err := s.rt.InstantiateModule(ctx, hcm, wazero.NewModuleConfig().WithName("a"))
	if err != nil {
		emit("R 0 hosterr:%v", err)
		return
	}
	m := wb.New()
	f := m.ImportFunc("a", "f", []byte{wb.I32}, []byte{wb.I32})
	m.Table(4, nil)
	t0 := m.TypeIdx([]byte{wb.I32}, []byte{wb.I32})
	m.M.GlobalSection = append(m.M.GlobalSection, wasm.Global{Type: wasm.GlobalType{ValType: wasm.ValueTypeFuncref}, Init: wasm.ConstantExpression{Opcode: wasm.OpcodeRefFunc, Data: leb128.EncodeUint32(f)}})
	ci := func(slot int32) []byte {
		return wb.Cat(wb.LocalGet(0), wb.I32Const(slot), wb.Op(wasm.OpcodeCallIndirect), wb.U32(t0), wb.U32(0))
	}
	m.AddFunc(wb.Func{Params: []byte{wb.I32}, Results: []byte{wb.I32}, Export: "via_elem", Body: ci(0)})
	m.AddFunc(wb.Func{Params: []byte{wb.I32}, Results: []byte{wb.I32}, Export: "via_reffunc", Body: wb.Cat(wb.I32Const(1), wb.Op(wasm.OpcodeRefFunc), wb.U32(f), wb.Op(wasm.OpcodeTableSet, 0), ci(1))})
	m.AddFunc(wb.Func{Params: []byte{wb.I32}, Results: []byte{wb.I32}, Export: "via_global", Body: wb.Cat(wb.I32Const(2), wb.GlobalGet(0), wb.Op(wasm.OpcodeTableSet, 0), ci(2))})
	bm, err := s.rt.InstantiateWithConfig(ctx, m.BytesWithSegments([]wb.Elem{{Offset: 0, Init: []int64{int64(f)}}}), wazero.NewModuleConfig().WithName("B"))
	if err != nil {
		emit("R 0 guesterr:%v", strings.ReplaceAll(err.Error(), " ", "_"))
		return
	}
	emit("R 0 ok")
	for k := 1; k < len(h.Ops); k++ {
		emit("B %d", k)
		out := "ok"
		func() {
			defer func() {
				if r := recover(); r != nil {
					out = "PANIC:" + strings.ReplaceAll(fmt.Sprint(r), " ", "_")
				}
			}()
			switch h.Ops[k] {
			case "closeA":
				hinst.Close(ctx)
				hcm.Close(ctx)
				hinst, hcm = nil, nil
			case "gc":
				collect()
				spray()
			case "use":
				var parts []string
				for _, fn := range []string{"via_elem", "via_reffunc", "via_global"} {
					res, err := bm.ExportedFunction(fn).Call(ctx, 5)
					if err != nil {
						parts = append(parts, classify(err))
					} else {
						parts = append(parts, fmt.Sprintf("v=%d", int32(res[0])))
					}
				}
				out = strings.Join(parts, ",")
			}
		}()
		emit("R %d %s", k, out)
	}
}

func hostRefHistories() []*History {
	var hs []*History
	for _, e := range []string{"compiler", "interpreter"} {
		hs = append(hs, &History{Engine: e, Spray: true, Ops: []string{"hostref", "use", "gc", "use", "closeA", "gc", "use", "gc", "gc", "use"}})
	}
	return hs
}

func evalHostRef(h *History) {
	res := runChild(h)
	rep.Case(fmt.Sprintf("hostref/%s", h.Engine))
	rep.Count("label:hostref")
	fail := func(sig, what string, k int) {
		rep.Violate(hx.Violation{Kind: "impl-violation", Signature: "C09:" + h.Engine + ":host-function-reference:" + sig, What: what, Input: h,
			Actual: fmt.Sprintf("op %d %q -> %q", k, h.Ops[max(k, 0)], res.R[k])})
	}
	if !res.Done || res.Crash != "" {
		k := max(res.Begun, 0)
		fail("child-crashed", fmt.Sprintf("a live guest called through its references to an imported host function (element segment, ref.func, global) after collections: the process died during op %d %q: %s %s", k, h.Ops[k], res.Crash, res.Stderr), k)
		return
	}
	for k := 1; k < len(h.Ops); k++ {
		if h.Ops[k] == "use" && res.R[k] != "v=4205,v=4205,v=4205" && res.R[k] != "closed,closed,closed" {
			fail("reference-changed", fmt.Sprintf("the guest's references to the imported host function answer %s (want v=4205 three times, or the ordinary closed error)", res.R[k]), k)
			return
		}
	}
}
