package main

// The supervised child: executes one history on the real code (side R) and on a twin runtime in which
// nothing is closed, dropped or collected (side T). One line per op and side is written and flushed
// before the next op starts, so a crash leaves the prefix for the parent.

import (
	"bufio"
	"context"
	"encoding/json"
	"errors"
	"fmt"
	"github.com/tetratelabs/wazero/internal/wasm"
	"os"
	"runtime"
	"runtime/debug"
	"strconv"
	"strings"
	"sync"
	"sync/atomic"
	"time"

	"github.com/tetratelabs/wazero"
	"github.com/tetratelabs/wazero/api"
	"github.com/tetratelabs/wazero/sys"
)

type History struct {
	Engine string   `json:"engine"` // compiler | interpreter
	Cache  bool     `json:"cache"`  // runtime configured with an in-memory compilation cache
	Spray  bool     `json:"spray"`  // allocate and fill fresh heap after every gc op
	Walk   bool     `json:"walk,omitempty"`
	Ops    []string `json:"ops"`
}

type side struct {
	name  string
	rt    wazero.Runtime
	cache wazero.CompilationCache
	inst  [maxMods]api.Module
	cm    [maxMods]wazero.CompiledModule
	ids   [maxMods]wasm.ModuleID // identity of instance i for the heap walk (survives drop; names may be empty)
	hasID [maxMods]bool
	bins  [maxMods][]byte // the binary instance i was compiled from
}

const maxMods = 4

var ctx = context.Background()

func newSide(name string, h *History) *side {
	s := &side{name: name}
	var cfg wazero.RuntimeConfig
	if h.Engine == "interpreter" {
		cfg = wazero.NewRuntimeConfigInterpreter()
	} else {
		cfg = wazero.NewRuntimeConfigCompiler()
	}
	cfg = cfg.WithCoreFeatures(api.CoreFeaturesV2)
	if h.Cache {
		s.cache = wazero.NewCompilationCache()
		cfg = cfg.WithCompilationCache(s.cache)
	}
	s.rt = wazero.NewRuntimeWithConfig(ctx, cfg)
	return s
}

// classify maps an error to the canonical answer alphabet.
func classify(err error) string {
	if err == nil {
		return "ok"
	}
	var ee *sys.ExitError
	if errors.As(err, &ee) {
		return "closed"
	}
	msg := err.Error()
	switch {
	case strings.Contains(msg, "invalid table access"):
		return "trap:table"
	case strings.Contains(msg, "indirect call type mismatch"):
		return "trap:type"
	case strings.Contains(msg, "unreachable"):
		return "trap:unreachable"
	case strings.Contains(msg, "closed"):
		return "closed"
	}
	if i := strings.IndexByte(msg, '\n'); i >= 0 {
		msg = msg[:i]
	}
	return "err:" + strings.ReplaceAll(msg, " ", "_")
}

func (s *side) fn(i int, name string) (api.Function, string) {
	if i < 0 || i >= maxMods || s.inst[i] == nil {
		return nil, "nohandle"
	}
	f := s.inst[i].ExportedFunction(name)
	if f == nil {
		return nil, "nofunc"
	}
	return f, ""
}

func (s *side) call1(i int, name string, args ...uint64) (uint64, string) {
	f, e := s.fn(i, name)
	if e != "" {
		return 0, e
	}
	res, err := f.Call(ctx, args...)
	if err != nil {
		return 0, classify(err)
	}
	if len(res) == 0 {
		return 0, "ok"
	}
	return res[0], "ok"
}

func atoi(s string) int {
	n, err := strconv.Atoi(s)
	if err != nil {
		panic("bad number " + s)
	}
	return n
}

func colon(s string) (string, int) {
	if k := strings.IndexByte(s, ':'); k >= 0 {
		return s[:k], atoi(s[k+1:])
	}
	return s, -1
}

// apply executes one op on one side. twin: lifetime ops are skipped.
func (s *side) apply(op string, twin bool) (out string) {
	defer func() {
		if r := recover(); r != nil {
			out = "PANIC:" + strings.ReplaceAll(fmt.Sprint(r), " ", "_")
		}
	}()
	f := strings.Fields(op)
	switch f[0] {
	case "inst":
		i := atoi(f[1])
		sh := shape{Idx: i, Imp: -1, Tab: f[3]}
		if f[2] != "-" {
			sh.Imp = atoi(f[2])
		}
		if t, k := colon(f[3]); t == "imp" {
			sh.Tab, sh.TabFrom = "imp", k
		}
		if s.rt == nil {
			return "nohandle"
		}
		if s.inst[i] != nil || s.cm[i] != nil {
			return "dup"
		}
		s.bins[i] = guestModule(sh)
		cm, err := s.rt.CompileModule(ctx, s.bins[i])
		if err != nil {
			return "ierr"
		}
		name := modName(i)
		if len(f) > 4 && f[4] == "anon" {
			name = "" // reachable only through the store's module list once the host drops it
		}
		if len(f) > 4 && strings.HasPrefix(f[4], "as:") && s.name != "T" { // (in the twin nothing is ever closed: the name is still taken)
			name = modName(atoi(f[4][3:])) // the name of an earlier, closed instance is taken again
		}
		m, err := s.rt.InstantiateModule(ctx, cm, wazero.NewModuleConfig().WithName(name))
		if err != nil {
			cm.Close(ctx)
			return "ierr"
		}
		s.inst[i], s.cm[i] = m, cm
		if mi, ok := m.(*wasm.ModuleInstance); ok && mi.Source != nil {
			s.ids[i], s.hasID[i] = mi.Source.ID, true
		}
		return "ok"
	case "pass":
		src, how, dst, where := atoi(f[1]), f[2], atoi(f[3]), f[4]
		var r uint64
		var e string
		switch h, n := colon(how); h {
		case "own":
			r, e = s.call1(src, "getf")
		case "imp":
			r, e = s.call1(src, "getimp")
		case "slot":
			r, e = s.call1(src, "load", uint64(n))
		case "glob":
			r, e = s.call1(src, "getg")
		default:
			panic("bad how " + how)
		}
		if e != "ok" {
			return "src-" + e
		}
		if w, n := colon(where); w == "tab" {
			_, e = s.call1(dst, "store", uint64(n), r)
		} else {
			_, e = s.call1(dst, "setg", r)
		}
		if e != "ok" {
			return "dst-" + e
		}
		if r == 0 {
			return "ok-null"
		}
		return "ok"
	case "call":
		j, via, x := atoi(f[1]), f[2], uint64(atoi(f[3]))
		var v uint64
		var e string
		switch w, n := colon(via); w {
		case "tab":
			v, e = s.call1(j, "callit", uint64(n), x)
		case "imp":
			v, e = s.call1(j, "callimp", x)
		case "host":
			v, e = s.call1(j, "f", x)
		default:
			panic("bad via " + via)
		}
		if e != "ok" {
			return e
		}
		return fmt.Sprintf("v=%d", uint32(v))
	}
	if twin {
		return "-"
	}
	switch f[0] {
	case "close":
		i := atoi(f[1])
		if s.inst[i] == nil {
			return "nohandle"
		}
		return classify(s.inst[i].Close(ctx))
	case "closecm":
		i := atoi(f[1])
		if s.cm[i] == nil {
			return "nohandle"
		}
		return classify(s.cm[i].Close(ctx))
	case "closert":
		if s.rt == nil {
			return "nohandle"
		}
		return classify(s.rt.Close(ctx))
	case "closecache":
		if s.cache == nil {
			return "nohandle"
		}
		return classify(s.cache.Close(ctx))
	case "drop":
		i := atoi(f[1])
		s.inst[i], s.cm[i] = nil, nil
		return "ok"
	case "dupname":
		// an instantiation under the name of instance j: refused with the ordinary error while j is open (the new
		// instance is closed again without ever having been registered); when the name is free it succeeds and is
		// closed at once.  Either way nothing may change for anybody else.
		if s.rt == nil {
			return "ok"
		}
		m, err := s.rt.InstantiateWithConfig(ctx, emptyModule, wazero.NewModuleConfig().WithName(modName(atoi(f[1]))))
		if err == nil {
			m.Close(ctx)
		}
		return "ok"
	case "dupcm":
		// the binary of instance i is compiled a SECOND time (an embedder inspecting imports / exports, another component
		// that holds the same bytes) and that handle is closed without ever being instantiated: nothing may change for
		// the instance made from the first handle, nor for anybody who calls into it
		if s.rt == nil || s.bins[atoi(f[1])] == nil {
			return "ok"
		}
		if cm2, err := s.rt.CompileModule(ctx, s.bins[atoi(f[1])]); err == nil {
			cm2.ExportedFunctions()
			cm2.Close(ctx)
		}
		return "ok"
	case "droprt":
		s.rt, s.cache = nil, nil
		return "ok"
	case "gc":
		collect()
		return "ok"
	}
	panic("bad op " + op)
}

var emptyModule = []byte{0, 'a', 's', 'm', 1, 0, 0, 0}

var sprayKeep [][]byte

func collect() {
	for k := 0; k < 3; k++ {
		runtime.GC()
		runtime.GC()
		time.Sleep(2 * time.Millisecond) // let the finalizer goroutine run
	}
	debug.FreeOSMemory()
}

// spray allocates fresh objects in the small size classes and fills them, so that a read through a
// stale address sees foreign contents instead of the leftovers of the collected object.
var (
	sprayPtrKeep [][]*uint64
	sprayTarget  = uint64(0x4141414141414141)
)

func spray() {
	// pointer-ful objects live in other spans than byte slices: small records that contain pointers (function
	// instances, table entries' referents) are only ever overwritten by objects of the same kind
	sprayPtrKeep = sprayPtrKeep[:0]
	for n := 1; n <= 16; n++ {
		for k := 0; k < 4096; k++ {
			p := make([]*uint64, n)
			for i := range p {
				p[i] = &sprayTarget
			}
			sprayPtrKeep = append(sprayPtrKeep, p)
		}
	}
	sprayKeep = sprayKeep[:0]
	for _, sz := range []int{16, 24, 32, 48, 64, 80, 96, 112, 128, 192, 256, 512, 1024} {
		for k := 0; k < 4096; k++ {
			b := make([]byte, sz)
			for i := range b {
				b[i] = 0x41
			}
			sprayKeep = append(sprayKeep, b)
		}
	}
}

func childMain(path string) {
	raw, err := os.ReadFile(path)
	if err != nil {
		fmt.Println("CHILD-FAULT", err)
		os.Exit(3)
	}
	var h History
	if err := json.Unmarshal(raw, &h); err != nil {
		fmt.Println("CHILD-FAULT", err)
		os.Exit(3)
	}
	w := bufio.NewWriter(os.Stdout)
	emit := func(f string, a ...any) {
		fmt.Fprintf(w, f+"\n", a...)
		w.Flush()
	}
	if len(h.Ops) > 0 && strings.HasPrefix(h.Ops[0], "outstanding") {
		outstanding(&h, emit)
		emit("DONE")
		return
	}
	if len(h.Ops) > 0 && h.Ops[0] == "hostref" {
		hostRef(&h, emit)
		emit("DONE")
		return
	}
	if len(h.Ops) > 0 && h.Ops[0] == "globalref" {
		globalRef(&h, emit)
		emit("DONE")
		return
	}
	if len(h.Ops) > 0 && h.Ops[0] == "failedstart" {
		failedStart(&h, emit)
		emit("DONE")
		return
	}
	if len(h.Ops) > 0 && strings.HasPrefix(h.Ops[0], "rebind") {
		rebind(&h, emit)
		emit("DONE")
		return
	}
	T := newSide("T", &h)
	R := newSide("R", &h)
	for k, op := range h.Ops {
		// calls: the twin answers first (it is needed when the real side crashes). Ops with a state effect
		// (inst, pass) run on the real side first and are mirrored on the twin only if they took effect
		// there: an op refused with the ordinary closed error must not make the twin diverge.
		effectful := strings.HasPrefix(op, "inst") || strings.HasPrefix(op, "pass")
		if !effectful {
			emit("T %d %s", k, T.apply(op, true))
		}
		emit("B %d", k) // the real side begins op k
		out := R.apply(op, false)
		if effectful {
			if out == "ok" || out == "ok-null" || out == "dst-closed" {
				emit("T %d %s", k, T.apply(op, true))
			} else {
				emit("T %d -", k)
			}
		}
		if op == "gc" && h.Spray {
			spray()
		}
		emit("R %d %s", k, out)
		if op == "gc" && h.Walk {
			emit("W %d %s", k, walkReport(R))
		}
	}
	emit("DONE")
	runtime.KeepAlive(T)
	runtime.KeepAlive(R)
}

// outstanding: a long guest call (loop calling a host function) is in progress while another goroutine
// closes things. op: "outstanding <what> <n>" with what = module | runtime | cm | cache | imported.
// The call must end with a value or an ordinary error.
func outstanding(h *History, emit func(string, ...any)) {
	f := strings.Fields(h.Ops[0])
	what := f[1]
	n := atoi(f[2])
	s := newSide("R", h)
	var ticks atomic.Int64
	started := make(chan struct{})
	var once sync.Once
	proceed := make(chan struct{})
	_, err := s.rt.NewHostModuleBuilder("env").NewFunctionBuilder().WithFunc(func() uint32 {
		if ticks.Add(1) == 3 {
			once.Do(func() { close(started) })
			<-proceed // the closing goroutine has finished (incl. GC)
		}
		return 0
	}).Export("tick").Instantiate(ctx)
	if err != nil {
		emit("R 0 hosterr:%v", err)
		return
	}
	cm, err := s.rt.CompileModule(ctx, spinModule())
	if err != nil {
		emit("R 0 cerr:%v", err)
		return
	}
	m, err := s.rt.InstantiateModule(ctx, cm, wazero.NewModuleConfig().WithName("spin"))
	if err != nil {
		emit("R 0 ierr:%v", err)
		return
	}
	type res struct {
		v uint64
		e string
	}
	done := make(chan res, 1)
	fn := m.ExportedFunction("spin")
	go func() {
		defer func() {
			if r := recover(); r != nil {
				done <- res{0, "PANIC:" + strings.ReplaceAll(fmt.Sprint(r), " ", "_")}
			}
		}()
		r, err := fn.Call(ctx, uint64(n))
		if err != nil {
			done <- res{0, classify(err)}
			return
		}
		done <- res{r[0], "ok"}
	}()
	<-started
	emit("B 0")
	var cerr error
	switch what {
	case "module":
		cerr = m.Close(ctx)
	case "cm":
		cerr = cm.Close(ctx)
	case "runtime":
		cerr = s.rt.Close(ctx)
	case "cache":
		if s.cache != nil {
			cerr = s.cache.Close(ctx)
		}
	case "imported":
		cerr = s.rt.Module("env").Close(ctx)
	case "all":
		cerr = errors.Join(m.Close(ctx), cm.Close(ctx), s.rt.Close(ctx))
		if s.cache != nil {
			s.cache.Close(ctx)
		}
	}
	m, cm, fn = nil, nil, nil
	s.rt, s.cache = nil, nil
	collect()
	if h.Spray {
		spray()
	}
	close(proceed)
	select {
	case r := <-done:
		emit("R 0 close=%s ticks=%d result=%s v=%d", classify(cerr), ticks.Load(), r.e, r.v)
	case <-time.After(60 * time.Second):
		emit("R 0 HANG ticks=%d", ticks.Load())
	}
}
