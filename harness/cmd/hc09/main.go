// hc09: histories of instantiate / pass-a-funcref / call / close / drop / GC over small module graphs,
// each executed in a supervised child process on the real code and on a twin runtime in which nothing
// is closed, compared with the Lean object-graph model (oracle topic c09).
//
// Tie B: per op, the real answer equals the model's answer as long as the model says the history is
//
//	safe; at GC points the Go pointers found by a reflection walk over the real heap are compared
//	with the model's strong edges (instance → instance, instance → its compiled module).
//
// Tie C: the child must survive, and every call must return what the twin returns or fail with the
//
//	ordinary "module closed" error; outstanding calls during close must end with a value or an
//	ordinary error.
package main

import (
	"bytes"
	"context"
	"encoding/json"
	"flag"
	"fmt"
	"math/rand"
	"os"
	"os/exec"
	"path/filepath"
	"strings"
	"sync"
	"sync/atomic"
	"time"

	"github.com/tetratelabs/wazero/verifharness/hx"
)

var childFlag = flag.String("child", "", "run as supervised child on this history file")

var (
	orc    *hx.Oracle
	rep    *hx.Report
	self   string
	nextID atomic.Int64
	// pin: the model variant tied to the code on this run (false = as-is: tables/globals do not pin the
	// owners of the references they hold; true = repaired). Decided by replaying the F7 witness.
	pin bool
)

type childResult struct {
	T, R    map[int]string
	W       map[int]string
	Begun   int // last op the real side began
	Done    bool
	Crash   string // "" | signal/exit description
	Timeout bool
	Stderr  string
}

// runChild runs the history in a child; a timeout or an external kill (OOM killer) is retried once alone
// before it counts (machine load must not become a verdict).
func runChild(h *History) *childResult {
	res := runChildOnce(h)
	if res.Timeout || strings.Contains(res.Crash, "killed") {
		rep.Count("child:retried-after-timeout-or-kill")
		retryMu.Lock()
		res = runChildOnce(h)
		retryMu.Unlock()
		if strings.Contains(res.Crash, "killed") && !res.Timeout {
			hx.Fatal("child killed from outside twice (%s) on %v", res.Crash, h.Ops)
		}
	}
	return res
}

var retryMu sync.Mutex

func runChildOnce(h *History) *childResult {
	id := nextID.Add(1)
	path := filepath.Join(*hx.Work, fmt.Sprintf("h%d.json", id))
	b, _ := json.Marshal(h)
	if err := os.WriteFile(path, b, 0o644); err != nil {
		hx.Fatal("write history: %v", err)
	}
	defer os.Remove(path)
	cctx, cancel := context.WithTimeout(context.Background(), 180*time.Second)
	defer cancel()
	cmd := hx.Supervised(exec.CommandContext(cctx, self, "-child", path))
	cmd.Env = append(os.Environ(), "GOMEMLIMIT=1GiB", "GOTRACEBACK=single", "GOMAXPROCS=2")
	var out, errb bytes.Buffer
	cmd.Stdout, cmd.Stderr = &out, &errb
	err := cmd.Run()
	res := &childResult{T: map[int]string{}, R: map[int]string{}, W: map[int]string{}, Begun: -1}
	for _, ln := range strings.Split(out.String(), "\n") {
		f := strings.SplitN(ln, " ", 3)
		switch {
		case ln == "DONE":
			res.Done = true
		case len(f) >= 2 && f[0] == "B":
			fmt.Sscan(f[1], &res.Begun)
		case len(f) == 3 && (f[0] == "T" || f[0] == "R" || f[0] == "W"):
			var k int
			fmt.Sscan(f[1], &k)
			switch f[0] {
			case "T":
				res.T[k] = f[2]
			case "R":
				res.R[k] = f[2]
			case "W":
				res.W[k] = f[2]
			}
		case strings.HasPrefix(ln, "CHILD-FAULT"):
			hx.Fatal("child: %s", ln)
		}
	}
	if cctx.Err() != nil {
		res.Timeout = true
	}
	if err != nil && !res.Done {
		res.Crash = err.Error()
		se := errb.String()
		for _, l := range strings.Split(se, "\n") {
			if strings.Contains(l, "fatal error") || strings.Contains(l, "SIGSEGV") || strings.Contains(l, "SIGBUS") ||
				strings.Contains(l, "SIGILL") || strings.Contains(l, "unexpected fault") || strings.HasPrefix(l, "panic:") {
				res.Stderr += l + " | "
			}
		}
		if len(res.Stderr) > 400 {
			res.Stderr = res.Stderr[:400]
		}
	}
	return res
}

type modelStep struct {
	Ans     string
	Shadow  bool
	Disc    bool
	PrimsOK bool
}

func askModel(h *History, usePin bool) (steps []modelStep, reach map[int]string) {
	id := nextID.Add(1)
	orc.Askf("c09 reset %d %s %s %s", id, h.Engine, b2s(h.Cache), b2s(usePin))
	reach = map[int]string{}
	for k, op := range h.Ops {
		if strings.HasPrefix(op, "dupname") || strings.HasPrefix(op, "dupcm") {
			// no effect in the model: a refused (or immediately closed) instantiation changes nothing for the others
			st := modelStep{Ans: "ok", Shadow: true, Disc: true, PrimsOK: true}
			if len(steps) > 0 {
				st.Shadow = steps[len(steps)-1].Shadow
			}
			steps = append(steps, st)
			continue
		}
		op = strings.TrimSuffix(op, " anon") // names are not part of the model
		// (the name an instance is registered under is not part of the model: "as:<j>" - reuse the name of the closed
		// instance j - is an instruction for the real side only)
		mop := op
		if i := strings.Index(mop, " as:"); i >= 0 {
			mop = mop[:i]
		}
		a := orc.Askf("c09 op %d %s", id, mop)
		f := strings.Fields(a)
		if len(f) != 4 {
			hx.Fatal("oracle answer %q", a)
		}
		st := modelStep{Ans: f[0], Shadow: f[1] == "shadow=1", Disc: f[2] == "disc=1", PrimsOK: f[3] == "primsok=1"}
		if !st.PrimsOK {
			hx.Fatal("model-internal guard failed (model bug) at op %d %q of %v", k, op, h.Ops)
		}
		steps = append(steps, st)
		if op == "gc" {
			reach[k] = orc.Askf("c09 reach %d", id)
		}
	}
	orc.Askf("c09 drop %d", id)
	return
}

// tabModeOf returns the table mode of instance j in the history (from its inst op).
func tabModeOf(h *History, j int) string {
	for _, op := range h.Ops {
		f := strings.Fields(op)
		if f[0] == "inst" && f[1] == fmt.Sprint(j) {
			if strings.HasPrefix(f[3], "imp") {
				return "shared"
			}
			if f[3] == "exp" {
				return "shared"
			}
			return "private"
		}
	}
	return "?"
}

func shapeKey(h *History) string {
	var b strings.Builder
	for _, op := range h.Ops {
		f := strings.Fields(op)
		if f[0] == "call" {
			b.WriteString("call " + f[1] + " " + f[2] + ";")
		} else {
			b.WriteString(op + ";")
		}
	}
	return fmt.Sprintf("%s/%v/%v/%s", h.Engine, h.Cache, h.Spray, b.String())
}

// evalHistory runs one history and applies ties B and C. Returns whether a dangling use was observed.
func evalHistory(h *History, label string) (observed bool) {
	steps, reach := askModel(h, pin)
	res := runChild(h)
	rep.Case(shapeKey(h))
	rep.Count("engine:" + h.Engine)
	rep.Count("label:" + label)
	rep.Sample(map[string]any{"label": label, "history": h})

	// model-level checks (the theorem's statement, evaluated on this history)
	allDisc, firstUnsafe := true, -1
	for k, st := range steps {
		allDisc = allDisc && st.Disc
		if st.Ans == "unsafe" && firstUnsafe < 0 {
			firstUnsafe = k
		}
	}
	last := steps[len(steps)-1]
	if allDisc && !last.Shadow && !pin {
		rep.Violate(hx.Violation{Kind: "correspondence", Signature: "C09:discipline-does-not-imply-shadow",
			What: "the syntactic discipline held for every op but the model stored an unshadowed raw edge", Input: h})
	}
	if last.Shadow && firstUnsafe >= 0 {
		rep.Violate(hx.Violation{Kind: "correspondence", Signature: "C09:shadowed-but-dangling",
			What: "model: all raw edges shadowed, yet a call uses a collected object (contradicts no_dangling_use_partial)", Input: h})
	}
	if last.Shadow {
		rep.Count("history:shadowOk(theorem-proviso-met)")
	} else {
		rep.Count("history:not-shadowOk")
	}
	if allDisc {
		rep.Count("history:disciplined")
	} else {
		rep.Count("history:undisciplined")
	}
	if firstUnsafe >= 0 {
		rep.Count("model:unsafe")
	} else {
		rep.Count("model:safe")
	}

	limit := len(h.Ops)
	if firstUnsafe >= 0 {
		limit = firstUnsafe
	}
	// ops the model calls safe
	for k := 0; k < limit; k++ {
		op := h.Ops[k]
		r, ok := res.R[k]
		if !ok {
			sig := "C09:" + h.Engine + ":crash-on-model-safe-history"
			what := fmt.Sprintf("child died at op %d %q (%s %s); the model says every use up to here is safe", k, op, res.Crash, res.Stderr)
			if res.Timeout {
				sig = "C09:" + h.Engine + ":hang-on-model-safe-history"
			}
			rep.Violate(hx.Violation{Kind: "impl-violation", Signature: sig, What: what, Input: h, Expected: steps[k].Ans, Actual: "crash"})
			return false
		}
		t := res.T[k]
		isCall := strings.HasPrefix(op, "call")
		if isCall {
			rep.Count("call:" + classOf(steps[k].Ans))
			// tie C: same as the twin, or the ordinary closed error
			if r != t && r != "closed" {
				rep.Violate(hx.Violation{Kind: "impl-violation", Signature: "C09:" + h.Engine + ":call-differs-from-twin",
					What:  fmt.Sprintf("op %d %q: real %s, twin (nothing closed) %s", k, op, r, t),
					Input: h, Expected: t, Actual: r})
				return false
			}
		}
		if strings.HasPrefix(r, "PANIC") {
			if (strings.HasPrefix(op, "inst") || strings.HasPrefix(op, "dupname")) && strings.Contains(r, "nil_map") && closedCacheBefore(h, k) {
				rep.Violate(hx.Violation{Kind: "impl-violation", Signature: "N1:compiler:compile-after-cache-close-panics-nil-map",
					What:  fmt.Sprintf("op %d %q: CompileModule on a live runtime whose compilation cache was closed panics in the host (%s) instead of returning an error", k, op, r),
					Input: h, Expected: steps[k].Ans, Actual: r})
				return false
			}
			rep.Violate(hx.Violation{Kind: "impl-violation", Signature: "C09:" + h.Engine + ":go-panic:" + strings.Fields(op)[0],
				What: fmt.Sprintf("op %d %q panicked in the host: %s", k, op, r), Input: h, Expected: steps[k].Ans, Actual: r})
			return false
		}
		if r != steps[k].Ans {
			rep.Violate(hx.Violation{Kind: "correspondence", Signature: "C09:" + h.Engine + ":answer-differs:" + strings.Fields(op)[0],
				What:  fmt.Sprintf("op %d %q: real %s, model %s", k, op, r, steps[k].Ans),
				Input: h, Expected: steps[k].Ans, Actual: r})
			return false
		}
		if op == "gc" && h.Walk {
			compareWalk(h, k, reach[k], res.W[k])
		}
	}
	if firstUnsafe < 0 {
		if !res.Done {
			rep.Violate(hx.Violation{Kind: "impl-violation", Signature: "C09:" + h.Engine + ":crash-on-model-safe-history",
				What: fmt.Sprintf("child did not finish (%s %s)", res.Crash, res.Stderr), Input: h})
		}
		return false
	}
	// the model says op firstUnsafe uses a collected object
	k := firstUnsafe
	op := h.Ops[k]
	f := strings.Fields(op)
	var j int
	fmt.Sscan(f[1], &j)
	holder := tabModeOf(h, j) + "-table"
	r, ok := res.R[k]
	t := res.T[k]
	outcome := ""
	switch {
	case !ok && res.Begun >= k:
		outcome = "crash"
	case !ok:
		outcome = "crash-before" // died earlier than the model expected: handled above (cannot happen here)
	case r == t:
		outcome = "latent"
	default:
		outcome = "differs"
	}
	rep.Count("unsafe-outcome:" + h.Engine + ":" + outcome)
	if outcome == "latent" {
		return false
	}
	sig := fmt.Sprintf("F7:%s:funcref-in-%s-after-owner-collected", h.Engine, holder)
	rep.Violate(hx.Violation{Kind: "impl-violation", Signature: sig,
		What: fmt.Sprintf("op %d %q uses a function reference whose owner was closed, dropped and collected: %s (real %q, twin %q, %s %s)",
			k, op, outcome, r, t, res.Crash, res.Stderr),
		Input: h, Expected: t, Actual: outcome + ":" + r})
	return true
}

func closedCacheBefore(h *History, k int) bool {
	for _, op := range h.Ops[:k] {
		if op == "closecache" {
			return true
		}
	}
	return false
}

func classOf(a string) string {
	if strings.HasPrefix(a, "v=") {
		return "value"
	}
	return a
}

func cells(s string, sep string) map[string]string {
	m := map[string]string{}
	if s == "-" || s == "" {
		return m
	}
	for _, c := range strings.Split(s, sep) {
		if k := strings.IndexByte(c, ':'); k > 0 {
			m[c[:k]] = c[k+1:]
		}
	}
	return m
}

// compareWalk: every strong path the model claims must exist in the real heap (otherwise the model keeps
// objects alive that the collector may free: the dangerous direction). Real paths the model lacks are
// counted (the model is then conservative).
func compareWalk(h *History, k int, model, real string) {
	mm, rm := cells(model, " "), cells(real, ",")
	for key, rv := range rm {
		if strings.Contains(key, "TRUNC") {
			rep.Count("walk:truncated")
			return
		}
		mv, ok := mm[key]
		if !ok {
			continue // the model has already collected one of the two
		}
		rep.Count("walk:cells")
		switch {
		case mv == "1" && rv == "0":
			rep.Violate(hx.Violation{Kind: "correspondence", Signature: "C09:" + h.Engine + ":model-strong-path-missing-in-code:" + kindOfCell(key),
				What:  fmt.Sprintf("after op %d: the model has a Go-pointer path %s, the reflection walk over the real heap finds none", k, key),
				Input: h, Expected: model, Actual: real})
		case mv == "0" && rv == "1":
			rep.Count("walk:real-keeps-more")
		}
	}
}

func kindOfCell(key string) string {
	if strings.HasSuffix(key, ">cm") {
		return "instance-to-compiled-module"
	}
	return "instance-to-instance"
}

// ---------------------------------------------------------------------------------------------
// generators

func witnessF7(engine string, spray bool) *History {
	return &History{Engine: engine, Spray: spray, Ops: []string{
		"inst 1 - priv", "inst 0 - priv", "pass 0 own 1 tab:2", "call 1 tab:2 5",
		"close 0", "closecm 0", "drop 0", "gc", "call 1 tab:2 5"}}
}

func corpus() []*History {
	var hs []*History
	for _, e := range []string{"compiler", "interpreter"} {
		mk := func(cache bool, ops ...string) {
			hs = append(hs, &History{Engine: e, Cache: cache, Spray: true, Walk: true, Ops: ops})
		}
		// safe: own private table
		mk(false, "inst 0 - priv", "pass 0 own 0 tab:1", "call 0 tab:1 3", "gc", "call 0 tab:1 3")
		// safe: shared table keeps both alive (involvingModuleInstances)
		mk(false, "inst 0 - exp", "inst 1 - imp:0", "pass 0 own 1 tab:1", "pass 1 own 0 tab:2", "close 0", "closecm 0", "drop 0", "gc",
			"call 1 tab:1 3", "call 1 tab:2 3", "close 1", "call 1 tab:1 3")
		mk(false, "inst 0 - exp", "inst 1 - imp:0", "pass 1 own 0 tab:2", "close 1", "closecm 1", "drop 1", "gc", "call 0 tab:2 3")
		// safe: a closed importer stays pinned by the table also when another module imports the table afterwards
		mk(false, "inst 0 - exp", "inst 1 - imp:0", "pass 1 own 0 tab:2", "call 0 tab:2 3", "close 1", "closecm 1", "drop 1", "inst 2 - imp:0", "gc",
			"call 0 tab:2 3", "call 2 tab:2 3")
		mk(false, "inst 0 - exp", "inst 1 - imp:0", "inst 2 - imp:0", "pass 1 own 2 tab:1", "pass 2 own 1 tab:3", "close 1", "closecm 1", "drop 1", "close 2", "closecm 2", "drop 2",
			"inst 3 - imp:0", "gc", "call 0 tab:1 3", "call 0 tab:3 3", "call 3 tab:1 3")
		// safe: imported function keeps the exporter alive
		mk(false, "inst 0 - priv", "inst 1 0 priv", "close 0", "closecm 0", "drop 0", "gc", "call 1 imp 4",
			"pass 1 imp 1 tab:0", "call 1 tab:0 4", "pass 1 imp 1 glob", "pass 1 glob 1 tab:3", "gc", "call 1 tab:3 9")
		// safe although undisciplined: B imports from A and stores A's own reference in its private table
		mk(false, "inst 0 - priv", "inst 1 0 priv", "pass 0 own 1 tab:1", "close 0", "closecm 0", "drop 0", "gc", "call 1 tab:1 4")
		// safe: the plugin-reload pattern - a named importer of the table is closed, a SECOND instance takes the same name,
		// imports the same table, stores its own function there and is closed and dropped in turn: the live owner keeps
		// calling the slot (whatever keeps a table's referents alive goes by identity, not by name)
		mk(false, "inst 0 - exp", "inst 1 - imp:0", "pass 1 own 0 tab:1", "call 0 tab:1 3", "close 1", "closecm 1", "drop 1",
			"inst 2 - imp:0 as:1", "pass 2 own 0 tab:1", "call 0 tab:1 3", "close 2", "closecm 2", "drop 2", "gc", "call 0 tab:1 3",
			"inst 3 - imp:0 as:1", "pass 3 own 0 tab:2", "close 3", "closecm 3", "drop 3", "gc", "call 0 tab:2 3", "call 0 tab:1 3")
		// safe: the binary of a live instance compiled a second time, that handle closed without being instantiated
		mk(false, "inst 0 - priv", "inst 1 0 priv", "call 1 imp 4", "dupcm 0", "gc", "call 1 imp 4", "call 0 host 1", "dupcm 1", "dupcm 0", "gc", "call 1 imp 4", "pass 0 own 1 tab:1", "call 1 tab:1 3")
		mk(true, "inst 0 - exp", "inst 1 - imp:0", "pass 1 own 0 tab:1", "dupcm 1", "dupcm 0", "gc", "call 0 tab:1 3", "call 1 tab:1 3")
		// closed but reachable: ordinary error
		mk(false, "inst 0 - priv", "inst 1 - priv", "pass 0 own 1 tab:2", "close 0", "gc", "call 0 host 1", "call 1 tab:2 5", "pass 0 own 1 tab:3")
		// runtime closed: every call is the ordinary error, also after GC
		mk(false, "inst 0 - priv", "inst 1 0 exp", "pass 0 own 1 tab:2", "closert", "gc", "call 1 tab:2 5", "call 1 imp 1", "call 0 host 2", "inst 2 - priv")
		mk(true, "inst 0 - priv", "inst 1 0 exp", "pass 0 own 1 tab:2", "closert", "gc", "call 1 tab:2 5", "closecache", "gc", "call 0 host 2")
		// cache closed under a live runtime: instances keep working
		mk(true, "inst 0 - priv", "inst 1 0 priv", "pass 0 own 1 tab:2", "closecache", "gc", "call 1 tab:2 5", "call 1 imp 1", "call 0 host 2")
		// cache closed, then the live runtime compiles another module (compiler: nil-map panic, finding N1)
		mk(true, "inst 0 - priv", "closecache", "call 0 host 1", "inst 1 - priv", "call 0 host 2")
		// compiled modules closed first
		mk(false, "inst 0 - priv", "inst 1 0 priv", "closecm 0", "closecm 1", "gc", "call 1 imp 4", "call 0 host 1", "close 1", "close 0", "gc")
		// unsafe: F7 through a global, two-level (reference to an imported function), uninvolved owner in a shared table
		mk(false, "inst 1 - priv", "inst 0 - priv", "pass 0 own 1 glob", "close 0", "closecm 0", "drop 0", "gc", "pass 1 glob 1 tab:0", "call 1 tab:0 5")
		mk(false, "inst 2 - priv", "inst 0 - priv", "inst 1 0 priv", "pass 1 imp 2 tab:1", "close 1", "closecm 1", "close 0", "closecm 0", "drop 0", "drop 1", "gc", "call 2 tab:1 5")
		mk(false, "inst 1 - exp", "inst 2 - imp:1", "inst 0 - priv", "pass 0 own 2 tab:1", "close 0", "closecm 0", "drop 0", "gc", "call 1 tab:1 5")
		// an open anonymous instance whose only owner is the store's module list, with a refused instantiation
		// (duplicate name: closed without ever having been listed) and a close of the list head around it
		mk(false, "inst 0 - priv", "inst 1 - priv anon", "dupname 0", "inst 2 - priv anon", "pass 2 own 0 tab:1", "call 0 tab:1 3", "drop 2", "close 1", "gc", "call 0 tab:1 3")
		mk(false, "inst 0 - priv", "inst 1 - priv anon", "pass 1 own 0 tab:2", "drop 1", "dupname 0", "dupname 0", "gc", "call 0 tab:2 7")
	}
	return hs
}

type gen struct {
	r *rand.Rand
}

func (g *gen) pick(xs []int) int { return xs[g.r.Intn(len(xs))] }

// history: build phase, reference passing, lifetime ops, calls; repeated once or twice.
func (g *gen) history(engine string) *History {
	r := g.r
	h := &History{Engine: engine, Cache: r.Intn(4) == 0, Spray: r.Intn(2) == 0, Walk: r.Intn(3) == 0}
	n := 2 + r.Intn(3)
	type ist struct {
		tab             string
		imp             int
		closed, dropped bool
		owner           int // instance that defines the table this instance uses
	}
	filled := map[[2]int]bool{} // (table owner, slot) that received a reference
	var insts []*ist
	order := r.Perm(n)
	idxOf := map[int]int{}
	var exps []int
	var live, importable []int
	add := func(op string) { h.Ops = append(h.Ops, op) }
	for _, i := range order {
		s := &ist{imp: -1, tab: "priv"}
		imp := "-"
		if len(importable) > 0 && r.Intn(100) < 40 {
			s.imp = g.pick(importable)
			imp = fmt.Sprint(s.imp)
		}
		switch x := r.Intn(100); {
		case x < 45:
		case x < 70 || len(exps) == 0:
			if x >= 45 {
				s.tab = "exp"
			}
		default:
			s.owner = g.pick(exps)
			s.tab = fmt.Sprintf("imp:%d", s.owner)
		}
		if !strings.HasPrefix(s.tab, "imp") {
			s.owner = i
		}
		anon := ""
		if s.tab != "exp" && r.Intn(100) < 35 {
			anon = " anon" // nobody can import from it; only the store's list keeps it once the host drops it
		}
		add(fmt.Sprintf("inst %d %s %s%s", i, imp, s.tab, anon))
		if s.tab == "exp" {
			exps = append(exps, i)
		}
		idxOf[i] = len(insts)
		insts = append(insts, s)
		live = append(live, i)
		if anon == "" {
			importable = append(importable, i)
		}
		if r.Intn(6) == 0 {
			add(fmt.Sprintf("dupname %d", g.pick(live)))
		}
	}
	held := func() []int {
		var hs []int
		for _, i := range live {
			if !insts[idxOf[i]].dropped {
				hs = append(hs, i)
			}
		}
		return hs
	}
	rtClosed := false
	discMode := r.Intn(2) == 0
	for round := 0; round < 1+r.Intn(2); round++ {
		// passes
		for k := 0; k < 2+r.Intn(5); k++ {
			hs := held()
			if len(hs) == 0 {
				break
			}
			s, d := g.pick(hs), g.pick(hs)
			if r.Intn(100) < 25 {
				d = s
			}
			how := []string{"own", "own", "own", "imp", fmt.Sprintf("slot:%d", r.Intn(tabSize)), "glob"}[r.Intn(6)]
			wh := []string{fmt.Sprintf("tab:%d", r.Intn(tabSize)), fmt.Sprintf("tab:%d", r.Intn(tabSize)), "glob"}[r.Intn(3)]
			if discMode {
				// mirror of the Lean predicate `disciplined`: retry until the pass satisfies it
				for try := 0; try < 20; try++ {
					is, id := insts[idxOf[s]], insts[idxOf[d]]
					toTab := strings.HasPrefix(wh, "tab")
					shared := toTab && id.tab != "priv" && is.tab != "priv" && is.owner == id.owner
					ok := false
					switch {
					case how == "own" || how == "imp":
						ok = s == d || shared
					case strings.HasPrefix(how, "slot"):
						ok = s == d || (toTab && is.owner == id.owner)
					default:
						ok = s == d
					}
					if ok {
						break
					}
					s, d = g.pick(hs), g.pick(hs)
					if try%2 == 1 {
						d = s
					}
				}
			}
			add(fmt.Sprintf("pass %d %s %d %s", s, how, d, wh))
			if w, n := colon(wh); w == "tab" {
				filled[[2]int{insts[idxOf[d]].owner, n}] = true
			}
			if r.Intn(3) == 0 {
				add(fmt.Sprintf("call %d tab:%d %d", d, r.Intn(tabSize), r.Intn(50)))
			}
		}
		// lifetime ops
		for k := 0; k < 1+r.Intn(5); k++ {
			hs := held()
			if len(hs) == 0 {
				break
			}
			i := g.pick(hs)
			switch x := r.Intn(100); {
			case x < 30:
				add(fmt.Sprintf("close %d", i))
				if r.Intn(2) == 0 {
					add(fmt.Sprintf("closecm %d", i))
				}
				if r.Intn(3) > 0 {
					add(fmt.Sprintf("drop %d", i))
					insts[idxOf[i]].dropped = true
				}
			case x < 45:
				add(fmt.Sprintf("closecm %d", i))
			case x < 55:
				add(fmt.Sprintf("close %d", i))
			case x < 65 && len(hs) > 1:
				add(fmt.Sprintf("drop %d", i)) // dropped without close
				insts[idxOf[i]].dropped = true
			case x < 70:
				add("closert")
				rtClosed = true
			case x < 75 && h.Cache:
				add("closecache")
			case x < 80:
				add("droprt")
			case x < 88:
				add(fmt.Sprintf("dupname %d", g.pick(live)))
			default:
				add("gc")
			}
		}
		// a late importer: a module instantiated AFTER others were closed, importing a table that is still alive
		// (the keep-alive list of the table must keep pinning closed instances whose references it still holds)
		var openExps []int
		for _, e := range exps {
			closed := false
			for _, o := range h.Ops {
				if o == fmt.Sprintf("close %d", e) || o == "closert" || o == "droprt" {
					closed = true
				}
			}
			if !closed {
				openExps = append(openExps, e)
			}
		}
		if !rtClosed && len(openExps) > 0 && len(insts) < 4 && r.Intn(100) < 60 {
			e := g.pick(openExps)
			ni := len(insts)
			add(fmt.Sprintf("inst %d - imp:%d", ni, e))
			idxOf[ni] = len(insts)
			insts = append(insts, &ist{imp: -1, tab: fmt.Sprintf("imp:%d", e), owner: e})
			live = append(live, ni)
		}
		add("gc")
		// calls through everything the host can still reach
		for _, j := range held() {
			for s := 0; s < tabSize; s++ {
				if filled[[2]int{insts[idxOf[j]].owner, s}] && r.Intn(5) > 0 || r.Intn(6) == 0 {
					add(fmt.Sprintf("call %d tab:%d %d", j, s, r.Intn(50)))
				}
			}
			if insts[idxOf[j]].imp >= 0 {
				add(fmt.Sprintf("call %d imp %d", j, r.Intn(50)))
			}
			if r.Intn(2) == 0 {
				add(fmt.Sprintf("call %d host %d", j, r.Intn(50)))
			}
			if r.Intn(4) == 0 {
				n := r.Intn(tabSize)
				add(fmt.Sprintf("pass %d glob %d tab:%d", j, j, n))
				filled[[2]int{insts[idxOf[j]].owner, n}] = true
			}
		}
		_ = rtClosed
	}
	return h
}

// ---------------------------------------------------------------------------------------------
// outstanding calls

func outstandingCases() []*History {
	var hs []*History
	for _, e := range []string{"compiler", "interpreter"} {
		for _, what := range []string{"module", "cm", "runtime", "imported", "all", "cache"} {
			for _, cache := range []bool{false, true} {
				if what == "cache" && !cache {
					continue
				}
				hs = append(hs, &History{Engine: e, Cache: cache, Spray: true, Ops: []string{fmt.Sprintf("outstanding %s %d", what, 2000)}})
			}
		}
	}
	return hs
}

func evalOutstanding(h *History) {
	res := runChild(h)
	rep.Case(fmt.Sprintf("outstanding/%s/%v/%s", h.Engine, h.Cache, h.Ops[0]))
	rep.Count("label:outstanding")
	r := res.R[0]
	bad := ""
	switch {
	case !res.Done || res.Crash != "":
		bad = "crash " + res.Crash + " " + res.Stderr
	case strings.Contains(r, "HANG"):
		bad = "hang"
	case strings.Contains(r, "PANIC"):
		bad = "go panic"
	case !(strings.Contains(r, "result=ok v=7") || strings.Contains(r, "result=closed")):
		bad = "neither the value nor the ordinary closed error"
	}
	rep.Count("outstanding-result:" + strings.Join(pickFields(r, "close=", "result="), ","))
	if bad != "" {
		rep.Violate(hx.Violation{Kind: "impl-violation", Signature: "C09:" + h.Engine + ":outstanding-call:" + strings.Fields(h.Ops[0])[1],
			What: "a guest call in progress while " + strings.Fields(h.Ops[0])[1] + " is closed and collected: " + bad + " (" + r + ")", Input: h, Actual: r})
	}
}

func pickFields(s string, prefixes ...string) []string {
	var out []string
	for _, f := range strings.Fields(s) {
		for _, p := range prefixes {
			if strings.HasPrefix(f, p) {
				out = append(out, f)
			}
		}
	}
	return out
}

// ---------------------------------------------------------------------------------------------

func parallel(hs []*History, f func(*History)) {
	var wg sync.WaitGroup
	ch := make(chan *History)
	for w := 0; w < 8; w++ {
		wg.Add(1)
		go func() {
			defer wg.Done()
			for h := range ch {
				f(h)
			}
		}()
	}
	for _, h := range hs {
		ch <- h
	}
	close(ch)
	wg.Wait()
}

func main() {
	flag.Parse()
	if *childFlag != "" {
		childMain(*childFlag)
		os.Exit(0)
	}
	var err error
	self, err = os.Executable()
	if err != nil {
		hx.Fatal("executable: %v", err)
	}
	if *hx.Work == "" {
		hx.Fatal("-work is required")
	}
	orc = hx.StartOracle()
	rep = hx.NewReport("C09", "one case = one history (engine, cache, spray, op list with call arguments erased) executed in a supervised child on the real code + twin and on the Lean graph model; non-trivial = contains at least one lifetime op (close/closecm/closert/closecache/drop/gc) followed by a use; outstanding-call scenarios are keyed by (engine, cache, what is closed)")

	if *hx.Replay != "" {
		replay(*hx.Replay)
		rep.Write(orc)
		return
	}

	// 1. finding switch: replay the F7 witness on the compiler (deterministic SIGSEGV on the as-is code).
	obs := 0
	for try := 0; try < 3 && obs == 0; try++ {
		pin = false
		if evalHistory(witnessF7("compiler", false), "witness-F7") {
			obs++
		}
	}
	if obs == 0 {
		pin = true
		rep.Note("F7 witness no longer fails on the compiler: the repaired model variant (pinRefs) is tied to the code on this run")
	} else {
		rep.Note("F7 witness reproduced on the compiler (child crashed): the as-is model variant is tied to the code")
	}
	evalHistory(witnessF7("interpreter", true), "witness-F7")

	// 2. corpus, outstanding calls
	parallel(corpus(), func(h *History) { evalHistory(h, "corpus") })
	parallel(outstandingCases(), evalOutstanding)
	nre := 120
	if hx.Thorough() {
		nre = 1500
	}
	parallel(rebindHistories(hx.Rand(), nre), evalRebind)
	parallel(failedStartHistories(), evalFailedStart)
	parallel(globalRefHistories(), evalGlobalRef)
	parallel(hostRefHistories(), evalHostRef)

	// 3. generated histories
	n := 400
	if hx.Thorough() {
		n = 6000
	}
	g := &gen{r: hx.Rand()}
	var hs []*History
	for k := 0; k < n; k++ {
		hs = append(hs, g.history([]string{"compiler", "interpreter"}[k%2]))
	}
	parallel(hs, func(h *History) { evalHistory(h, "generated") })
	rep.Write(orc)
}

// replay: the file written by ./check (impl_violations[].input / broken[].detail.input are histories).
func replay(path string) {
	if _, err := os.Stat(path); err != nil && !filepath.IsAbs(path) {
		path = filepath.Join(os.Getenv("VERIF_ROOT"), path) // ./check runs the harness from harness/
	}
	raw, err := os.ReadFile(path)
	if err != nil {
		hx.Fatal("replay: %v", err)
	}
	var doc struct {
		Impl   []struct{ Input json.RawMessage } `json:"impl_violations"`
		Broken []struct {
			Detail json.RawMessage `json:"detail"`
		} `json:"broken"`
	}
	var hs []*History
	if json.Unmarshal(raw, &doc) == nil {
		for _, v := range doc.Impl {
			var h History
			if json.Unmarshal(v.Input, &h) == nil && len(h.Ops) > 0 {
				hs = append(hs, &h)
			}
		}
		for _, b := range doc.Broken {
			var d struct{ Input History }
			if json.Unmarshal(b.Detail, &d) == nil && len(d.Input.Ops) > 0 {
				h := d.Input
				hs = append(hs, &h)
			}
		}
	}
	if len(hs) == 0 {
		var h History
		if json.Unmarshal(raw, &h) == nil && len(h.Ops) > 0 {
			hs = append(hs, &h)
		}
	}
	if len(hs) == 0 {
		hx.Fatal("replay: no history in %s", path)
	}
	for _, h := range hs {
		if strings.HasPrefix(h.Ops[0], "outstanding") {
			evalOutstanding(h)
		} else if strings.HasPrefix(h.Ops[0], "rebind") {
			evalRebind(h)
		} else if h.Ops[0] == "failedstart" {
			evalFailedStart(h)
		} else {
			evalHistory(h, "replay")
		}
	}
}
