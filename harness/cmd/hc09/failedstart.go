package main

// Failed-instantiation stage: a module that imports a live instance's table, writes one of its own functions into it
// through an active element segment and then FAILS in its start function never exists for the embedder - there is no
// handle to close or drop - but the write persists (by specification), so the table keeps referring to the failed
// instance's code.  After collections the live owner must still be able to call the slot (or get an ordinary error):
// whatever keeps a table's referents alive must survive the failure of the instantiation that wrote them.
//
// ops after the leading "failedstart":  plugin k how   (how: trap | exit | hostpanic)  |  gc  |  call k

import (
	"context"
	"fmt"
	"strings"

	"github.com/tetratelabs/wazero"
	"github.com/tetratelabs/wazero/api"
	"github.com/tetratelabs/wazero/internal/wasm"
	"github.com/tetratelabs/wazero/sys"
	"github.com/tetratelabs/wazero/verifharness/hx"
	"github.com/tetratelabs/wazero/verifharness/wb"
)

func failedStart(h *History, emit func(string, ...any)) {
	s := newSide("R", h)
	one := []api.ValueType{api.ValueTypeI32}
	if _, err := s.rt.NewHostModuleBuilder("env").
		NewFunctionBuilder().WithGoModuleFunction(api.GoModuleFunc(func(_ context.Context, m api.Module, st []uint64) { panic(fmt.Errorf("host error %d", st[0])) }), one, one).Export("pe").
		NewFunctionBuilder().WithGoModuleFunction(api.GoModuleFunc(func(c context.Context, m api.Module, st []uint64) {
		m.CloseWithExitCode(c, uint32(st[0]))
		panic(sys.NewExitError(uint32(st[0])))
	}), one, one).Export("ex").Instantiate(ctx); err != nil {
		emit("R 0 hosterr:%v", err)
		return
	}
	ow := wb.New()
	ow.Table(16, nil)
	ow.M.ExportSection = append(ow.M.ExportSection, wasm.Export{Name: "tab", Type: wasm.ExternTypeTable, Index: 0})
	ti := ow.TypeIdx(nil, []byte{wb.I32})
	ow.AddFunc(wb.Func{Params: []byte{wb.I32}, Results: []byte{wb.I32}, Export: "call", Body: wb.Cat(wb.LocalGet(0), wb.Op(wasm.OpcodeCallIndirect), wb.U32(ti), wb.U32(0))})
	owner, err := s.rt.InstantiateWithConfig(ctx, ow.Bytes(), wazero.NewModuleConfig().WithName("owner"))
	if err != nil {
		emit("R 0 ownererr:%v", err)
		return
	}
	emit("R 0 ok")
	for k := 1; k < len(h.Ops); k++ {
		f := strings.Fields(h.Ops[k])
		emit("B %d", k)
		out := "ok"
		func() {
			defer func() {
				if r := recover(); r != nil {
					out = "PANIC:" + strings.ReplaceAll(fmt.Sprint(r), " ", "_")
				}
			}()
			switch f[0] {
			case "plugin":
				slot := atoi(f[1])
				var fail []byte
				switch f[2] {
				case "trap":
					fail = wb.Op(wasm.OpcodeUnreachable)
				case "exit":
					fail = wb.Cat(wb.I32Const(3), wb.Call(1), wb.Op(wasm.OpcodeDrop))
				default:
					fail = wb.Cat(wb.I32Const(7), wb.Call(0), wb.Op(wasm.OpcodeDrop))
				}
				m := wb.New()
				m.ImportFunc("env", "pe", []byte{wb.I32}, []byte{wb.I32})
				m.ImportFunc("env", "ex", []byte{wb.I32}, []byte{wb.I32})
				m.M.ImportSection = append(m.M.ImportSection, wasm.Import{Type: wasm.ExternTypeTable, Module: "owner", Name: "tab", DescTable: wasm.Table{Min: 16, Type: wasm.RefTypeFuncref}})
				m.M.ImportTableCount = 1
				fn := m.AddFunc(wb.Func{Results: []byte{wb.I32}, Body: wb.I32Const(int32(1000 + slot))})
				st := m.AddFunc(wb.Func{Body: fail})
				m.M.StartSection = &st
				bin := m.BytesWithSegments([]wb.Elem{{Offset: int32(slot), Init: []int64{int64(fn)}}})
				if _, err := s.rt.InstantiateWithConfig(ctx, bin, wazero.NewModuleConfig().WithName("")); err == nil {
					out = "plugin-did-not-fail"
				} else {
					out = "failed"
				}
			case "gc":
				collect()
				if h.Spray {
					spray()
				}
			case "call":
				res, err := owner.ExportedFunction("call").Call(ctx, uint64(atoi(f[1])))
				if err != nil {
					out = classify(err)
				} else {
					out = fmt.Sprintf("v=%d", res[0])
				}
			}
		}()
		emit("R %d %s", k, out)
	}
}

func failedStartHistories() []*History {
	var hs []*History
	for _, e := range []string{"compiler", "interpreter"} {
		for _, cache := range []bool{false, true} {
			ops := []string{"failedstart"}
			for k, how := range []string{"trap", "exit", "hostpanic", "trap", "exit", "hostpanic"} {
				ops = append(ops, fmt.Sprintf("plugin %d %s", k, how))
				if k == 2 {
					ops = append(ops, "gc", "call 0", "call 1", "call 2")
				}
			}
			ops = append(ops, "gc", "call 0", "call 1", "call 2", "call 3", "call 4", "call 5", "gc", "call 3", "call 0")
			hs = append(hs, &History{Engine: e, Cache: cache, Spray: true, Ops: ops})
		}
	}
	return hs
}

func evalFailedStart(h *History) {
	res := runChild(h)
	rep.Case(fmt.Sprintf("failedstart/%s/%v", h.Engine, h.Cache))
	rep.Count("label:failedstart")
	fail := func(sig, what string, k int) {
		rep.Violate(hx.Violation{Kind: "impl-violation", Signature: "C09:" + h.Engine + ":failed-instantiation:" + sig, What: what, Input: h,
			Actual: fmt.Sprintf("op %d %q -> %q", k, h.Ops[max(k, 0)], res.R[k])})
	}
	if !res.Done || res.Crash != "" {
		k := max(res.Begun, 0)
		fail("child-crashed", fmt.Sprintf("a table slot written by an instantiation that then failed in its start function was called after collections: the process died during op %d %q: %s %s", k, h.Ops[k], res.Crash, res.Stderr), k)
		return
	}
	for k := 1; k < len(h.Ops); k++ {
		f := strings.Fields(h.Ops[k])
		r := res.R[k]
		switch {
		case strings.HasPrefix(r, "PANIC"):
			fail("go-panic", "Go panic reaches the embedder: "+r, k)
			return
		case f[0] == "plugin" && r != "failed":
			hx.Fatal("failed-start stage: plugin %s: %s", h.Ops[k], r)
		case f[0] == "call":
			want := fmt.Sprintf("v=%d", 1000+atoi(f[1]))
			if r != want && r != "closed" {
				fail("slot-of-failed-instance-changed", fmt.Sprintf("slot %s was written by the element segment of an instantiation that failed in its start function (the write persists); after collections the owner's call through it answers %s (want %s or the ordinary closed error)", f[1], r, want), k)
				return
			}
		}
	}
}
