package main

// Wasm module shapes of the C09 histories (built with wazero's own test encoder).

import (
	"encoding/binary"

	"github.com/tetratelabs/wazero/internal/leb128"
	"github.com/tetratelabs/wazero/internal/testing/binaryencoding"
	"github.com/tetratelabs/wazero/internal/wasm"
	"github.com/tetratelabs/wazero/verifharness/wb"
)

const (
	vI32     = wasm.ValueTypeI32
	vFuncref = wasm.ValueTypeFuncref
	tabSize  = 4
)

func u32(v uint32) []byte { return leb128.EncodeUint32(v) }
func cat(parts ...[]byte) []byte {
	var out []byte
	for _, p := range parts {
		out = append(out, p...)
	}
	return out
}
func i32const(v int32) []byte  { return append([]byte{wasm.OpcodeI32Const}, leb128.EncodeInt32(v)...) }
func localGet(i uint32) []byte { return append([]byte{wasm.OpcodeLocalGet}, u32(i)...) }

func modName(i int) string { return "m" + string(rune('0'+i)) }

// tag is what f of module i adds to its argument.
func tag(i int) int32 { return int32(100 * (i + 1)) }

// shape of module i.
//
//	imp  : index of the instance whose exported "f" is imported as function 0 (-1: none)
//	tab  : "priv" (own, not exported), "exp" (own, exported as "tab"), "imp" (imported from tabFrom)
type shape struct {
	Idx     int
	Imp     int
	Tab     string
	TabFrom int
}

// guestModule builds the module of a history instance. Exports: f, getf, getimp, store, load, callit,
// callimp, setg, getg (+ "tab" for Tab=="exp").
func guestModule(s shape) []byte {
	m := &wasm.Module{}
	m.TypeSection = []wasm.FunctionType{
		{Params: []byte{vI32}, Results: []byte{vI32}},       // t0
		{Results: []byte{vFuncref}},                         // t1
		{Params: []byte{vI32, vFuncref}},                    // t2
		{Params: []byte{vI32}, Results: []byte{vFuncref}},   // t3
		{Params: []byte{vI32, vI32}, Results: []byte{vI32}}, // t4
		{Params: []byte{vFuncref}},                          // t5
	}
	nimp := uint32(0)
	if s.Imp >= 0 {
		m.ImportSection = append(m.ImportSection, wasm.Import{Type: wasm.ExternTypeFunc, Module: modName(s.Imp), Name: "f", DescFunc: 0})
		m.ImportFunctionCount = 1
		nimp = 1
	}
	tt := wasm.Table{Min: tabSize + 1, Type: wasm.RefTypeFuncref} // the extra slot is written by f only
	if s.Tab == "imp" {
		m.ImportSection = append(m.ImportSection, wasm.Import{Type: wasm.ExternTypeTable, Module: modName(s.TabFrom), Name: "tab", DescTable: tt})
		m.ImportTableCount = 1
	} else {
		m.TableSection = []wasm.Table{tt}
	}
	m.GlobalSection = []wasm.Global{{Type: wasm.GlobalType{ValType: vFuncref, Mutable: true},
		Init: wasm.ConstantExpression{Opcode: wasm.OpcodeRefNull, Data: []byte{wasm.RefTypeFuncref}}}}

	fF := nimp // index of f
	add := func(name string, typ uint32, body []byte) {
		m.FunctionSection = append(m.FunctionSection, typ)
		m.CodeSection = append(m.CodeSection, wasm.Code{Body: append(body, wasm.OpcodeEnd)})
		idx := nimp + uint32(len(m.FunctionSection)) - 1
		m.ExportSection = append(m.ExportSection, wasm.Export{Name: name, Type: wasm.ExternTypeFunc, Index: idx})
	}
	// f(x) = x + tag, where the tag is (re)loaded from a PASSIVE data segment with memory.init on every call and
	// one table slot is (re)initialised from a passive element segment: resources that belong to the instance
	// and must stay usable for as long as something can still call f (also after the instance was closed).
	// The memory: a module that imports `f` from another instance also imports that instance's memory (and
	// re-exports it), so that a chain of importers shares ONE memory with its (possibly closed) owner.  f leaves
	// its argument's low byte at address 200, and an importer's callimp grows the memory by a page, calls f and
	// checks - through its OWN view of the memory - that the byte arrived: state about the memory that an engine
	// caches per instance (base, length) must stay coherent for as long as the instance's code can run.
	memT := &wasm.Memory{Min: 1, Max: 8, IsMaxEncoded: true}
	if s.Imp >= 0 {
		m.ImportSection = append(m.ImportSection, wasm.Import{Type: wasm.ExternTypeMemory, Module: modName(s.Imp), Name: "mem", DescMem: memT})
		m.ImportMemoryCount = 1
	} else {
		m.MemorySection = memT
	}
	m.ExportSection = append(m.ExportSection, wasm.Export{Name: "mem", Type: wasm.ExternTypeMemory, Index: 0})
	slot := int32(16 + 8*s.Idx)
	tb := make([]byte, 4)
	binary.LittleEndian.PutUint32(tb, uint32(tag(s.Idx)))
	m.DataSection = []wasm.DataSegment{{Passive: true, Init: tb}}
	add("f", 0, cat(
		i32const(slot), i32const(0), i32const(4), []byte{wasm.OpcodeMiscPrefix, wasm.OpcodeMiscMemoryInit}, u32(0), []byte{0},
		i32const(tabSize), i32const(0), i32const(1), []byte{wasm.OpcodeMiscPrefix, wasm.OpcodeMiscTableInit}, u32(0), u32(0),
		i32const(200), localGet(0), []byte{wasm.OpcodeI32Store8, 0, 0},
		localGet(0), i32const(slot), []byte{wasm.OpcodeI32Load, 2, 0}, []byte{wasm.OpcodeI32Add}))
	add("getf", 1, cat([]byte{wasm.OpcodeRefFunc}, u32(fF)))
	if s.Imp >= 0 {
		add("getimp", 1, cat([]byte{wasm.OpcodeRefFunc}, u32(0)))
	} else {
		add("getimp", 1, []byte{wasm.OpcodeRefNull, wasm.RefTypeFuncref})
	}
	add("store", 2, cat(localGet(0), localGet(1), []byte{wasm.OpcodeTableSet}, u32(0)))
	add("load", 3, cat(localGet(0), []byte{wasm.OpcodeTableGet}, u32(0)))
	add("callit", 4, cat(localGet(1), localGet(0), []byte{wasm.OpcodeCallIndirect}, u32(0), u32(0)))
	if s.Imp >= 0 {
		add("callimp", 0, cat(
			i32const(1), []byte{wasm.OpcodeMemoryGrow, 0, wasm.OpcodeDrop},
			localGet(0), []byte{wasm.OpcodeCall}, u32(0),
			i32const(200), []byte{wasm.OpcodeI32Load8U, 0, 0}, localGet(0), i32const(255), []byte{wasm.OpcodeI32And, wasm.OpcodeI32Ne},
			[]byte{wasm.OpcodeIf, 0x40, wasm.OpcodeUnreachable, wasm.OpcodeEnd}))
	} else {
		add("callimp", 0, []byte{wasm.OpcodeUnreachable})
	}
	add("setg", 5, cat(localGet(0), []byte{wasm.OpcodeGlobalSet}, u32(0)))
	add("getg", 1, cat([]byte{wasm.OpcodeGlobalGet}, u32(0)))
	if s.Imp >= 0 {
		m.ExportSection = append(m.ExportSection, wasm.Export{Name: "impf_re", Type: wasm.ExternTypeFunc, Index: 0})
	}
	if s.Tab == "exp" {
		m.ExportSection = append(m.ExportSection, wasm.Export{Name: "tab", Type: wasm.ExternTypeTable, Index: 0})
	}
	// passive element segment 0 = [null]: table.init of it writes a null into the last slot
	return (&wb.Mod{M: m}).BytesWithSegments([]wb.Elem{{Passive: true, Init: []int64{-1}}})
}

// spinModule: imports env.tick ()->i32; spin(n) calls tick n times (or until tick returns non-zero) and
// returns 7. Used for the outstanding-call scenarios.
func spinModule() []byte {
	m := &wasm.Module{}
	m.TypeSection = []wasm.FunctionType{
		{Results: []byte{vI32}},                       // t0 tick
		{Params: []byte{vI32}, Results: []byte{vI32}}, // t1 spin
	}
	m.ImportSection = []wasm.Import{{Type: wasm.ExternTypeFunc, Module: "env", Name: "tick", DescFunc: 0}}
	m.ImportFunctionCount = 1
	m.FunctionSection = []uint32{1}
	body := cat(
		[]byte{wasm.OpcodeLoop, 0x40},
		[]byte{wasm.OpcodeCall}, u32(0), []byte{wasm.OpcodeDrop},
		localGet(0), i32const(1), []byte{wasm.OpcodeI32Sub},
		[]byte{wasm.OpcodeLocalTee}, u32(0),
		[]byte{wasm.OpcodeBrIf}, u32(0),
		[]byte{wasm.OpcodeEnd},
		i32const(7),
		[]byte{wasm.OpcodeEnd},
	)
	m.CodeSection = []wasm.Code{{Body: body}}
	m.ExportSection = []wasm.Export{{Name: "spin", Type: wasm.ExternTypeFunc, Index: 1}}
	return binaryencoding.EncodeModule(m)
}
