package main

// Recursion-tree stage.  A cycle in the call graph does not have to be an infinite path to keep a call running for
// ever in practice: f(n) = if n != 0 { f(n-1); f(n-1) } never has more than n frames on the stack and makes 2^n calls
// (n = 64: centuries).  It has no loop header and no tail call, the two places where the engines emit the exit-code
// check, so whether such a call "returns promptly once its context is cancelled, its deadline passes, or its module
// is closed" is decided by the call instruction (or the function entry) alone.  Each scenario runs in a supervised
// child (on the compiler a goroutine that never leaves machine code can stall the whole process at the next garbage
// collection); a shallow tree (n = 8) is the control: it returns by itself and the stage must see that.

import (
	"context"
	"encoding/json"
	"flag"
	"fmt"
	"os"
	"os/exec"
	"strings"
	"sync"
	"time"

	"github.com/tetratelabs/wazero"
	"github.com/tetratelabs/wazero/internal/wasm"
	"github.com/tetratelabs/wazero/sys"
	"github.com/tetratelabs/wazero/verifharness/hx"
	"github.com/tetratelabs/wazero/verifharness/wb"
)

var recTreeChild = flag.String("rectree", "", "internal: engine,cause,form,depth - run one recursion-tree scenario in this process")

const recTreeBoundMs = 2500

type recTreeRes struct {
	Returned bool   `json:"returned"`
	AfterMs  int64  `json:"after_ms"`
	Err      string `json:"err"`
	Code     uint32 `json:"code"`
	ExitErr  bool   `json:"exit_error"`
	Closed   bool   `json:"closed"`
	Setup    string `json:"setup,omitempty"`
}

// recTreeModule: "f"(n): if n { g(n-1); g(n-1) } where g is f itself called directly ("direct"), through the table
// ("indirect"), or a second function that calls back ("mutual").
func recTreeModule(form string) []byte {
	m := wb.New()
	dec := wb.Cat(wb.LocalGet(0), wb.I32Const(1), wb.Op(wasm.OpcodeI32Sub))
	var callee func(self uint32) []byte
	switch form {
	case "direct":
		callee = func(self uint32) []byte { return wb.Call(self) }
	case "indirect":
		m.Table(1, nil)
		callee = func(self uint32) []byte {
			return wb.Cat(wb.I32Const(0), wb.Op(wasm.OpcodeCallIndirect), wb.U32(0), wb.U32(0))
		}
	case "mutual":
		callee = func(self uint32) []byte { return wb.Call(self + 1) }
	}
	body := wb.Cat(wb.LocalGet(0), wb.Op(wasm.OpcodeIf, 0x40), dec, callee(0), dec, callee(0), wb.Op(wasm.OpcodeEnd))
	f := m.AddFunc(wb.Func{Params: []byte{wb.I32}, Body: body, Export: "f"})
	if form == "mutual" {
		m.AddFunc(wb.Func{Params: []byte{wb.I32}, Body: wb.Cat(wb.LocalGet(0), wb.Call(f))})
	}
	if form == "indirect" {
		return m.BytesWithSegments([]wb.Elem{{Offset: 0, Init: []int64{int64(f)}}})
	}
	return m.Bytes()
}

func recTreeChildMain(spec string) {
	var res recTreeRes
	defer func() {
		b, _ := json.Marshal(res)
		fmt.Println(string(b))
	}()
	p := strings.Split(spec, ",")
	engine, cause, form := p[0], p[1], p[2]
	var depth uint64
	fmt.Sscan(p[3], &depth)
	ctx := context.Background()
	cfg := wazero.NewRuntimeConfigCompiler()
	if engine == "interpreter" {
		cfg = wazero.NewRuntimeConfigInterpreter()
	}
	rt := wazero.NewRuntimeWithConfig(ctx, cfg.WithCloseOnContextDone(true))
	mod, err := rt.Instantiate(ctx, recTreeModule(form))
	if err != nil {
		res.Setup = err.Error()
		return
	}
	cctx, cancel := context.WithCancel(ctx)
	defer cancel()
	var fired time.Time
	var mu sync.Mutex
	fire := func() {
		mu.Lock()
		fired = time.Now()
		mu.Unlock()
		switch cause {
		case "cancel":
			cancel()
		case "close":
			mod.CloseWithExitCode(ctx, 7)
		}
	}
	if cause == "deadline" {
		var c2 context.CancelFunc
		cctx, c2 = context.WithTimeout(ctx, 60*time.Millisecond)
		defer c2()
		time.AfterFunc(60*time.Millisecond, func() { mu.Lock(); fired = time.Now(); mu.Unlock() })
	} else {
		time.AfterFunc(60*time.Millisecond, fire)
	}
	_, err = mod.ExportedFunction("f").Call(cctx, depth)
	now := time.Now()
	mu.Lock()
	if !fired.IsZero() {
		res.AfterMs = now.Sub(fired).Milliseconds()
	} else {
		res.AfterMs = -1 // returned before the cause fired
	}
	mu.Unlock()
	res.Returned = true
	if err != nil {
		res.Err = err.Error()
		if ee, ok := err.(*sys.ExitError); ok {
			res.ExitErr, res.Code = true, ee.ExitCode()
		}
	}
	res.Closed = mod.IsClosed()
}

func recTreeStage() {
	type jobT struct {
		engine, cause, form string
		depth               int
	}
	var jobs []jobT
	for _, e := range []string{"interpreter", "compiler"} {
		for i, c := range []string{"cancel", "deadline", "close"} {
			jobs = append(jobs, jobT{e, c, []string{"direct", "indirect", "mutual"}[i], 64})
		}
		jobs = append(jobs, jobT{e, "cancel", "direct", 8}) // control: 511 calls, returns by itself
	}
	type outT struct {
		j    jobT
		hung bool
		res  recTreeRes
		raw  string
	}
	outs := make([]outT, len(jobs))
	var wg sync.WaitGroup
	for i, j := range jobs {
		wg.Add(1)
		go func(i int, j jobT) {
			defer wg.Done()
			ctx, cancel := context.WithTimeout(context.Background(), (recTreeBoundMs+2500)*time.Millisecond)
			defer cancel()
			cmd := hx.Supervised(exec.CommandContext(ctx, self, "-rectree", fmt.Sprintf("%s,%s,%s,%d", j.engine, j.cause, j.form, j.depth)))
			cmd.Env = append(os.Environ(), "GOMEMLIMIT=1GiB", "GOMAXPROCS=4")
			outb, _ := cmd.Output()
			o := outT{j: j, raw: string(outb)}
			if ctx.Err() != nil {
				o.hung = true
			} else if json.Unmarshal([]byte(strings.TrimSpace(string(outb))), &o.res) != nil || o.res.Setup != "" {
				hx.Fatal("recursion-tree child failed: %s %s", string(outb), o.res.Setup)
			}
			outs[i] = o
		}(i, j)
	}
	wg.Wait()
	for _, o := range outs {
		j := o.j
		rep.Case(fmt.Sprintf("rectree/%s/%s/%s/%d", j.engine, j.cause, j.form, j.depth))
		input := map[string]any{"stage": "recursion tree", "engine": j.engine, "cause": j.cause, "form": j.form, "depth": j.depth,
			"guest": "(func $f (param i32) (if (local.get 0) (then (call $g (i32.sub (local.get 0) (i32.const 1))) (call $g (i32.sub (local.get 0) (i32.const 1)))))) with $g = $f directly / through the table / through a second function; f(depth) called with WithCloseOnContextDone(true), cause fires after 60 ms"}
		switch {
		case j.depth <= 8:
			if o.hung || !o.res.Returned || o.res.Err != "" {
				rep.Violate(hx.Violation{Kind: "harness", Signature: "C07:recursion-tree-control-did-not-return", What: "the shallow recursion tree (511 calls) did not return normally: " + o.raw, Input: input})
			} else {
				rep.Count("rectree:control-returned")
			}
		case o.hung || o.res.AfterMs > recTreeBoundMs:
			rep.Count("rectree:never-returns")
			rep.Violate(hx.Violation{Kind: "impl-violation", Signature: fmt.Sprintf("F63:%s-recursion-tree-never-stops", j.engine),
				What:  fmt.Sprintf("%s: f(%d) = if n { f(n-1); f(n-1) } (2^%d calls, at most %d frames; no loop header, no tail call) did not return %d ms after the cause (%s) fired: the exit-code check is emitted at loop headers and tail calls only, a call instruction and a function entry have none", j.engine, j.depth, j.depth, j.depth, recTreeBoundMs, j.cause),
				Input: input, Expected: "returns *sys.ExitError promptly", Actual: "no return (child killed)"})
		case !o.res.ExitErr:
			rep.Violate(hx.Violation{Kind: "impl-violation", Signature: fmt.Sprintf("C07:%s-recursion-tree-returns-no-exit-error", j.engine), What: "the stopped recursion tree returned " + o.res.Err, Input: input, Actual: o.res})
		case !o.res.Closed:
			rep.Violate(hx.Violation{Kind: "impl-violation", Signature: fmt.Sprintf("C07:%s-module-not-closed-afterwards", j.engine), What: "IsClosed() is false after the recursion tree was stopped", Input: input, Actual: o.res})
		default:
			rep.Count("rectree:stopped")
		}
	}
}
