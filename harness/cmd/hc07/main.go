// hc07: correspondence + monitor harness for C07 (close-on-context-done always stops a running guest).
//
// Tie B, structural: for generated guest programs covering every cycle constructor, the positions of the
// exit-code checks in the REAL lowered interpreter IR (verif hook) and in the REAL wazevo frontend SSA are
// compared with the Lean model's `lowerS` (oracle topic c07), and the well-formedness predicate of the
// theorems ("every backward branch lands on a label followed by a check") is evaluated on the real IR/SSA.
// Which model variant (as-is: checks at loop headers only; repaired: also at tail calls) corresponds to the
// tree is detected here and must be the same everywhere.
// Tie B/C, behavioural: every program is run with WithCloseOnContextDone(true) on both engines in a child
// process (re-exec), the cause (cancel / deadline / CloseWithExitCode from another goroutine) arrives before
// entry, at a random moment during the run, or inside a host callback. Monitor (the property itself): the call
// returns within the bound, the error is *sys.ExitError with the code the model gives for the cause, and the
// module is closed afterwards. A call that never returns is a violation; it is the known finding F4 only if the
// model (as-is variant) has a reachable check-free cycle for that very program and the repaired variant has none,
// i.e. every check-free cycle goes through a tail call.
package main

import (
	"context"
	"encoding/hex"
	"encoding/json"
	"errors"
	"flag"
	"fmt"
	"math"
	"os"
	"os/exec"
	"path/filepath"
	"sort"
	"strings"
	"sync"
	"sync/atomic"
	"time"

	"github.com/tetratelabs/wazero"
	"github.com/tetratelabs/wazero/api"
	"github.com/tetratelabs/wazero/experimental"
	"github.com/tetratelabs/wazero/internal/engine/wazevo/wazevoapi"
	"github.com/tetratelabs/wazero/internal/testing/binaryencoding"
	"github.com/tetratelabs/wazero/internal/wasm"
	"github.com/tetratelabs/wazero/internal/wasm/binary"
	"github.com/tetratelabs/wazero/sys"
	"github.com/tetratelabs/wazero/verifharness/c07"
	"github.com/tetratelabs/wazero/verifharness/hx"
	"github.com/tetratelabs/wazero/verifharness/wb"
)

var (
	childJob = flag.String("child", "", "internal: run one behavioural job (JSON file) in this process and print the result")
	dump     = flag.String("dump", "", "debug: print model text, IR skeleton and SSA of one program of this kind")

	orc *hx.Oracle
	rep *hx.Report
)

const (
	hangBoundMs = 6000 // a call not back this long after the cause fired never returns (median: < 5 ms)
	modelDepth  = 5    // depth ceiling used for the model's exploration (real ceilings: 2000 frames / 512 MiB)
)

func features() api.CoreFeatures {
	return api.CoreFeaturesV2 | experimental.CoreFeaturesTailCall | experimental.CoreFeaturesThreads
}

func decode(bin []byte) (*wasm.Module, error) {
	m, err := binary.DecodeModule(bin, features(), wasm.MemoryLimitPages, false, false, false)
	if err != nil {
		return nil, err
	}
	if err = m.Validate(features()); err != nil {
		return nil, err
	}
	m.BuildMemoryDefinitions()
	m.AssignModuleID(bin, nil, true)
	return m, nil
}

// ---------------------------------------------------------------- structural tie

// interpSkeleton renders the control skeleton of a real lowered function in the oracle's notation and
// evaluates wf on it: every backward branch target is a label immediately followed by the check.
func interpSkeleton(ops []c07.IROp, nimp int) (skel string, badEdges []string) {
	toks := []string{"S"}
	back := func(idx int, t uint64) bool { return t != math.MaxUint64 && t <= uint64(idx) }
	for idx, op := range ops {
		nb := 0
		for _, t := range op.Targets {
			if op.Kind != "operationKindTailCallReturnCallIndirect" && back(idx, t) {
				nb++
				if int(t)+1 >= len(ops) || ops[t].Kind != "label" || ops[t+1].Kind != "BuiltinFunctionCheckExitCode" {
					badEdges = append(badEdges, fmt.Sprintf("op %d (%s) -> %d", idx, op.Kind, t))
				}
			}
		}
		switch op.Kind {
		case "BuiltinFunctionCheckExitCode":
			toks = append(toks, "K")
		case "Br", "BrIf":
			for k := 0; k < nb; k++ {
				toks = append(toks, "B")
			}
		case "BrTable":
			toks = append(toks, fmt.Sprintf("T%d", nb))
		case "Call":
			if int(op.U1) < nimp {
				toks = append(toks, "h")
			} else {
				toks = append(toks, fmt.Sprintf("c%d", int(op.U1)-nimp))
			}
		case "CallIndirect":
			toks = append(toks, "ci")
		case "operationKindTailCallReturnCall":
			toks = append(toks, fmt.Sprintf("t%d", int(op.U1)-nimp))
		case "operationKindTailCallReturnCallIndirect":
			toks = append(toks, "ti")
		}
	}
	return strings.Join(toks, " "), badEdges
}

var checkLoadSuffix = fmt.Sprintf(":i64 = Load exec_ctx, 0x%x", wazevoapi.ExecutionContextOffsetCheckModuleExitCodeTrampolineAddress.U32())

// isCheckAt reports whether instrs[k], instrs[k+1] are the exit-code check sequence.
func isCheckAt(ins []string, k int) bool {
	if k+1 >= len(ins) || !strings.HasSuffix(ins[k], checkLoadSuffix) {
		return false
	}
	v := strings.SplitN(ins[k], ":", 2)[0]
	return strings.HasPrefix(ins[k+1], "CallIndirect "+v+":") && strings.HasSuffix(ins[k+1], ", exec_ctx")
}

// ssaFacts: number of check sequences, number of tail calls (and how many of them directly follow a check),
// back edges whose target block does not begin with the check.
func ssaFacts(f *c07.SSAFunc) (checks, tails, tailsChecked int, badEdges []string) {
	byID := map[int]*c07.SSABlock{}
	succ := map[int][]int{}
	for _, b := range f.Blocks {
		byID[b.ID] = b
		for _, p := range b.Preds {
			succ[p] = append(succ[p], b.ID)
		}
		for k := range b.Instrs {
			if isCheckAt(b.Instrs, k) {
				checks++
			}
			if strings.Contains(b.Instrs[k], "ReturnCall") {
				tails++
				// a checked tail call: a check sequence earlier in the same block with no call in between
				for j := k - 1; j >= 1; j-- {
					if isCheckAt(b.Instrs, j-1) {
						tailsChecked++
						break
					}
					if strings.Contains(b.Instrs[j], "Call") {
						break
					}
				}
			}
		}
	}
	// retreating edges of a DFS from blk0 (the CFG of structured code is reducible: these are the back edges)
	color := map[int]int{}
	var dfs func(u int)
	dfs = func(u int) {
		color[u] = 1
		for _, v := range succ[u] {
			switch color[v] {
			case 0:
				dfs(v)
			case 1:
				if b := byID[v]; b == nil || !isCheckAt(b.Instrs, 0) {
					badEdges = append(badEdges, fmt.Sprintf("blk%d -> blk%d", u, v))
				}
			}
		}
		color[u] = 2
	}
	if len(f.Blocks) > 0 {
		dfs(0)
	}
	return
}

type variantVotes struct {
	mu           sync.Mutex
	asIs, fixed  int
	asIsEx, fxEx string
}

var votes variantVotes

func countTok(s, tok string) int {
	n := 0
	for _, t := range strings.Fields(s) {
		if t == tok {
			n++
		}
	}
	return n
}

func countTails(s string) int {
	n := 0
	for _, t := range strings.Fields(s) {
		if strings.HasPrefix(t, "t") {
			n++
		}
	}
	return n
}

type structInput struct {
	Prog   string `json:"program"`
	Func   int    `json:"func"`
	Text   string `json:"model_text"`
	Wasm   string `json:"wasm_hex"`
	Engine string `json:"engine"`
}

// structural compares the real lowerings of every function of p with the model.
func structural(p *c07.Prog) {
	bin := p.Bytes()
	m, err := decode(bin)
	if err != nil {
		hx.Fatal("generated module %q does not validate: %v\n%s", p.Name, err, p.Text)
	}
	nimp := len(p.HostCB)
	var ir [][]c07.IROp
	if c07.HookAvailable {
		ir, err = c07.InterpreterIR(m, features(), true)
		if err != nil {
			hx.Fatal("interpreter refuses generated module %q: %v", p.Name, err)
		}
		if ir == nil {
			hx.Fatal("interpreter IR hook returned nothing")
		}
	}
	m2, _ := decode(bin)
	ssaFns, err := c07.WazevoSSA(m2, true)
	if err != nil {
		hx.Fatal("wazevo frontend on generated module %q: %v", p.Name, err)
	}
	for f := range p.Funcs {
		text := p.FuncText(f, false)
		want0 := orc.Ask("c07 lower 0 " + text)
		want1 := orc.Ask("c07 lower 1 " + text)
		if orc.Ask("c07 wf 0 0 "+text) != "1" || orc.Ask("c07 wf 1 1 "+text) != "1" {
			rep.Violate(hx.Violation{Kind: "correspondence", Signature: "C07:model-lowering-not-wf", What: "wfS fails on lowerS output (contradicts theorem lowered_wf)", Input: text})
		}
		in := structInput{Prog: p.Name, Func: f, Text: text, Wasm: hex.EncodeToString(bin)}
		rep.Case("struct/" + text)
		rep.Count(fmt.Sprintf("struct:checks=%d", countTok(want0, "K")))
		// interpreter
		if ir != nil {
			in.Engine = "interpreter"
			got, bad := interpSkeleton(ir[f], nimp)
			if len(bad) > 0 {
				rep.Violate(hx.Violation{Kind: "correspondence", Signature: "C07:interpreter-backward-branch-without-check",
					What: "real interpreter IR: a backward branch targets a position that is not a label followed by the exit-code check (wf fails): " + strings.Join(bad, "; "), Input: in, Actual: got})
			}
			switch {
			case got == want0 && got == want1:
			case got == want0:
				votes.vote(false, in.Engine+": "+text)
			case got == want1:
				votes.vote(true, in.Engine+": "+text)
			default:
				rep.Violate(hx.Violation{Kind: "correspondence", Signature: "C07:interpreter-check-positions-differ",
					What: "check positions in the real interpreter IR differ from lowerS (both variants)", Input: in, Expected: want0 + " | " + want1, Actual: got})
			}
		}
		// wazevo
		in.Engine = "compiler"
		checks, tails, tailsChecked, bad := ssaFacts(ssaFns[f])
		if len(bad) > 0 {
			rep.Violate(hx.Violation{Kind: "correspondence", Signature: "C07:compiler-back-edge-without-check",
				What: "real wazevo SSA: a back edge targets a block that does not begin with the exit-code check: " + strings.Join(bad, "; "), Input: in, Actual: ssaFns[f].Text})
		}
		k0, k1, nt := countTok(want0, "K"), countTok(want1, "K"), countTails(want0)
		if tails != nt {
			rep.Violate(hx.Violation{Kind: "correspondence", Signature: "C07:compiler-tail-call-count-differs",
				What: fmt.Sprintf("wazevo SSA has %d tail calls, model %d", tails, nt), Input: in, Actual: ssaFns[f].Text})
		}
		switch {
		case checks == k0 && k0 == k1:
		case checks == k0:
			votes.vote(false, in.Engine+": "+text)
		case checks == k1 && tailsChecked == tails:
			votes.vote(true, in.Engine+": "+text)
		default:
			rep.Violate(hx.Violation{Kind: "correspondence", Signature: "C07:compiler-check-count-differs",
				What: fmt.Sprintf("wazevo SSA has %d exit-code checks (%d/%d tail calls checked); model: %d as-is, %d repaired", checks, tailsChecked, tails, k0, k1), Input: in, Actual: ssaFns[f].Text})
		}
	}
}

func (v *variantVotes) vote(fixed bool, ex string) {
	v.mu.Lock()
	defer v.mu.Unlock()
	if fixed {
		v.fixed++
		v.fxEx = ex
	} else {
		v.asIs++
		v.asIsEx = ex
	}
}

// ---------------------------------------------------------------- behavioural tie / monitor

type job struct {
	Prog    string `json:"program"`
	Text    string `json:"model_text"`
	Wasm    string `json:"wasm_hex"`
	Entry   string `json:"entry"`
	Arg     uint64 `json:"arg"`
	HostCB  []int  `json:"host_cb"`
	Engine  string `json:"engine"`
	Cause   string `json:"cause"` // cancel | deadline | close
	Code    uint32 `json:"code"`
	Timing  string `json:"timing"` // before | during | host
	DelayUs int    `json:"delay_us"`
	XMod    bool   `json:"xmod,omitempty"` // cross-module scenario: the entry module imports the looping one
	// AppCause: the context is cancelled / times out with an application-level cause (context.WithCancelCause,
	// WithDeadlineCause) and the call is made on a context DERIVED from it: ctx.Err() is still Canceled /
	// DeadlineExceeded, which is what the documented exit codes are defined by.
	AppCause bool `json:"app_cause,omitempty"`
	Blocked  bool `json:"blocked,omitempty"` // the guest blocks in memory.atomic.wait32 instead of cycling
	// InnerCtx: the call the embedder makes gets a context that is never done; the context that is cancelled / times out
	// is one a HOST CALLBACK creates for the call it makes back into the guest (every call, at any nesting depth,
	// is "an in-flight call with its context").  Inconclusive when no such inner call is in flight once the cause fired.
	InnerCtx bool     `json:"inner_ctx,omitempty"`
	Mods     []string `json:"mods,omitempty"`
	// Compile: how the guest's code came to be: "" = compiled by this runtime; "cache" = a compilation-cache directory
	// warmed by an EARLIER runtime with the same options, so that this runtime restores the module from the cache;
	// "listener" = compiled with a (no-op) function listener factory in the context; "cache+listener" = both.  What the
	// option promises must not depend on the path by which the machine code and its per-module state were obtained.
	Compile string `json:"compile,omitempty"`
}

type innerKey struct{}

type nopListenerFactory struct{}

func (nopListenerFactory) NewFunctionListener(api.FunctionDefinition) experimental.FunctionListener {
	return nopListener{}
}

type nopListener struct{}

func (nopListener) Before(context.Context, api.Module, api.FunctionDefinition, []uint64, experimental.StackIterator) {
}
func (nopListener) After(context.Context, api.Module, api.FunctionDefinition, []uint64) {}
func (nopListener) Abort(context.Context, api.Module, api.FunctionDefinition, error)    {}

type result struct {
	Returned    bool    `json:"returned"`
	Err         string  `json:"err"`
	ExitError   bool    `json:"exit_error"`
	Code        uint32  `json:"code"`
	Closed      bool    `json:"closed"`
	AfterFireMs float64 `json:"after_fire_ms"`
	Fired       bool    `json:"fired"`
	Setup       string  `json:"setup_error,omitempty"`
	// Inconclusive (InnerCtx jobs): the program's cycle lies outside the host callbacks; the outer call was stopped by the harness
	Inconclusive bool `json:"inconclusive,omitempty"`
}

func runChild(path string) {
	raw, err := os.ReadFile(path)
	if err != nil {
		fmt.Println(`{"setup_error":"read job"}`)
		os.Exit(3)
	}
	var j job
	if err := json.Unmarshal(raw, &j); err != nil {
		fmt.Println(`{"setup_error":"parse job"}`)
		os.Exit(3)
	}
	res := result{}
	out := func() {
		b, _ := json.Marshal(res)
		fmt.Println(string(b))
		os.Stdout.Sync()
	}
	bg := context.Background()
	var rc wazero.RuntimeConfig
	if j.Engine == "compiler" {
		rc = wazero.NewRuntimeConfigCompiler()
	} else {
		rc = wazero.NewRuntimeConfigInterpreter()
	}
	rc = rc.WithCoreFeatures(features()).WithCloseOnContextDone(true)
	compileCtx := bg
	if strings.Contains(j.Compile, "listener") {
		compileCtx = experimental.WithFunctionListenerFactory(bg, nopListenerFactory{})
	}
	if strings.Contains(j.Compile, "cache") {
		dir, err := os.MkdirTemp(filepath.Dir(path), "c07-cache-")
		if err != nil {
			fmt.Println(`{"setup_error":"cache dir"}`)
			os.Exit(3)
		}
		defer os.RemoveAll(dir)
		warm, err := wazero.NewCompilationCacheWithDir(dir)
		if err != nil {
			fmt.Println(`{"setup_error":"cache"}`)
			os.Exit(3)
		}
		rt0 := wazero.NewRuntimeWithConfig(bg, rc.WithCompilationCache(warm))
		for _, mh := range append(append([]string{}, j.Mods...), j.Wasm) {
			b, _ := hex.DecodeString(mh)
			if _, err := rt0.CompileModule(compileCtx, b); err != nil {
				fmt.Println(`{"setup_error":"warming the cache"}`)
				os.Exit(3)
			}
		}
		rt0.Close(bg)
		warm.Close(bg)
		again, err := wazero.NewCompilationCacheWithDir(dir)
		if err != nil {
			fmt.Println(`{"setup_error":"cache"}`)
			os.Exit(3)
		}
		rc = rc.WithCompilationCache(again)
	}
	rt := wazero.NewRuntimeWithConfig(bg, rc)

	var (
		mod      api.Module
		cancel   context.CancelFunc
		fireOnce sync.Once
		firedAt  time.Time
		fmu      sync.Mutex
	)
	callCtx := bg
	markFired := func() {
		fmu.Lock()
		if firedAt.IsZero() {
			firedAt = time.Now()
		}
		fmu.Unlock()
	}
	// fire makes the cause happen, from a goroutine other than the one running the guest.
	fire := func() {
		fireOnce.Do(func() {
			done := make(chan struct{})
			go func() {
				defer close(done)
				switch j.Cause {
				case "cancel":
					cancel()
				case "deadline":
					<-callCtx.Done()
				case "close":
					if j.Code == 0 {
						mod.Close(bg)
					} else {
						mod.CloseWithExitCode(bg, j.Code)
					}
				}
				markFired()
			}()
			<-done
		})
	}
	var (
		innerOnce   sync.Once
		innerCtx    context.Context
		innerFlight atomic.Int32
		outerCancel context.CancelFunc
	)
	hb := rt.NewHostModuleBuilder("env")
	for k := range j.HostCB {
		k := k
		hb = hb.NewFunctionBuilder().WithFunc(func(ctx context.Context, m api.Module, arg uint32) {
			if k == 0 && j.Timing == "host" {
				fire()
			}
			if cb := j.HostCB[k]; cb >= 0 {
				if j.InnerCtx && ctx.Value(innerKey{}) == nil {
					innerOnce.Do(func() {
						d := time.Duration(j.DelayUs) * time.Microsecond
						base := context.WithValue(ctx, innerKey{}, 1)
						if j.Cause == "deadline" {
							innerCtx, cancel = context.WithDeadline(base, time.Now().Add(d))
							go func() { <-innerCtx.Done(); markFired() }()
						} else {
							innerCtx, cancel = context.WithCancel(base)
							time.AfterFunc(d, fire)
						}
						// the cycle may lie outside the callbacks: then nothing is in flight under the inner context
						// once it is done, the outer call (whose context is not done) rightly keeps running, and the
						// harness ends it
						time.AfterFunc(d+300*time.Millisecond, func() {
							if innerFlight.Load() == 0 {
								res.Inconclusive = true
								outerCancel()
							}
						})
					})
					ctx = innerCtx
				}
				innerFlight.Add(1)
				_, err := m.ExportedFunction(fmt.Sprintf("f%d", cb)).Call(ctx, uint64(arg))
				innerFlight.Add(-1)
				if err != nil {
					panic(err)
				}
			}
		}).Export(fmt.Sprintf("h%d", k))
	}
	if _, err := hb.Instantiate(bg); err != nil {
		res.Setup = "host module: " + err.Error()
		out()
		os.Exit(3)
	}
	for i, mh := range j.Mods { // cross-module scenario: extra modules instantiated first, named m0, m1, ...
		b, _ := hex.DecodeString(mh)
		if _, err := rt.InstantiateWithConfig(compileCtx, b, wazero.NewModuleConfig().WithName(fmt.Sprintf("m%d", i))); err != nil {
			res.Setup = "extra module: " + err.Error()
			out()
			os.Exit(3)
		}
	}
	bin, _ := hex.DecodeString(j.Wasm)
	mod, err = rt.InstantiateWithConfig(compileCtx, bin, wazero.NewModuleConfig().WithName("guest"))
	if err != nil {
		res.Setup = "instantiate: " + err.Error()
		out()
		os.Exit(3)
	}
	fn := mod.ExportedFunction(j.Entry)
	switch j.Cause {
	case "cancel", "close":
		if j.AppCause {
			c, cc := context.WithCancelCause(bg)
			callCtx, cancel = context.WithValue(c, appKey{}, 1), func() { cc(errAppCause) }
		} else {
			callCtx, cancel = context.WithCancel(bg)
		}
	case "deadline":
		d := time.Duration(j.DelayUs) * time.Microsecond
		if j.Timing == "before" {
			d = -time.Second
		} else if j.Timing == "host" {
			d = 2 * time.Millisecond
		}
		if j.AppCause {
			callCtx, cancel = context.WithDeadlineCause(bg, time.Now().Add(d), errAppCause)
			callCtx = context.WithValue(callCtx, appKey{}, 1)
		} else {
			callCtx, cancel = context.WithDeadline(bg, time.Now().Add(d))
		}
	}
	if j.InnerCtx {
		cancel() // (the context prepared above is not used)
		callCtx, outerCancel = context.WithCancel(bg)
		cancel = outerCancel // until a callback replaces it
	}
	defer func() { cancel() }()
	switch j.Timing {
	case "before":
		fire()
	case "during":
		if j.Cause != "deadline" {
			time.AfterFunc(time.Duration(j.DelayUs)*time.Microsecond, fire)
		} else {
			go func() { <-callCtx.Done(); markFired() }()
		}
	}
	_, cerr := fn.Call(callCtx, j.Arg)
	ret := time.Now()
	res.Returned = true
	fmu.Lock()
	if !firedAt.IsZero() {
		res.Fired = true
		res.AfterFireMs = float64(ret.Sub(firedAt).Microseconds()) / 1000
	}
	fmu.Unlock()
	if cerr != nil {
		res.Err = cerr.Error()
		if len(res.Err) > 300 {
			res.Err = res.Err[:300]
		}
		var ee *sys.ExitError
		if errors.As(cerr, &ee) {
			res.ExitError = true
			res.Code = ee.ExitCode()
		}
	}
	res.Closed = mod.IsClosed()
	out()
}

type outcome struct {
	j    job
	res  result
	hung bool
	wall time.Duration
}

var self string

func runJob(j job, n int) outcome {
	path := filepath.Join(*hx.Work, fmt.Sprintf("job-%d.json", n))
	b, _ := json.Marshal(j)
	if err := os.WriteFile(path, b, 0o644); err != nil {
		hx.Fatal("write job: %v", err)
	}
	defer os.Remove(path)
	limit := time.Duration(hangBoundMs)*time.Millisecond + time.Duration(j.DelayUs)*time.Microsecond + 3*time.Second
	ctx, cancel := context.WithTimeout(context.Background(), limit)
	defer cancel()
	cmd := hx.Supervised(exec.CommandContext(ctx, self, "-child", path))
	cmd.Env = append(os.Environ(), "GOMEMLIMIT=1GiB", "GOMAXPROCS=4")
	t0 := time.Now()
	outb, err := cmd.Output()
	o := outcome{j: j, wall: time.Since(t0)}
	if ctx.Err() != nil {
		o.hung = true
		return o
	}
	line := strings.TrimSpace(string(outb))
	if i := strings.LastIndex(line, "\n"); i >= 0 {
		line = line[i+1:]
	}
	if jerr := json.Unmarshal([]byte(line), &o.res); jerr != nil || o.res.Setup != "" {
		hx.Fatal("child failed (%v, %v): %s / %s", err, jerr, string(outb), o.res.Setup)
	}
	return o
}

type appKey struct{}

var errAppCause = errors.New("application-level cause: service is shutting down")

// expectedCode asks the model for the exit code of the cause.
func expectedCode(j job) (uint32, bool) {
	watcher := "1"
	cause := map[string]string{"cancel": "canceled", "deadline": "deadline", "close": "close"}[j.Cause]
	if j.Cause == "close" || j.Timing == "before" {
		watcher = "0"
	}
	ans := orc.Askf("c07 exit %s %d %s", cause, j.Code, watcher)
	var code uint32
	var closed int
	if _, err := fmt.Sscanf(ans, "exit %d closed=%d", &code, &closed); err != nil {
		hx.Fatal("oracle exit answer %q", ans)
	}
	return code, closed == 1
}

type prediction struct {
	asIsCycle, fixedCycle bool
	raw                   string
}

func predict(p *c07.Prog) prediction {
	text := p.ProgText(true)
	a := orc.Askf("c07 cfcycle 0 %d %d %s %s", modelDepth, p.Entry, p.TableText(), text)
	b := orc.Askf("c07 cfcycle 1 %d %d %s %s", modelDepth, p.Entry, p.TableText(), text)
	if strings.HasPrefix(a, "limit") || strings.HasPrefix(b, "limit") {
		hx.Fatal("model exploration limit hit for %q", text)
	}
	if !strings.Contains(a, "wf=1") && strings.HasPrefix(a, "none") {
		hx.Fatal("unexpected oracle answer %q", a)
	}
	return prediction{asIsCycle: strings.HasPrefix(a, "cycle"), fixedCycle: strings.HasPrefix(b, "cycle"), raw: a + " | " + b}
}

// judge evaluates the property on one outcome.
func judge(o outcome, p *c07.Prog, pred prediction, fixedTree bool) {
	j := o.j
	key := fmt.Sprintf("run/%s/%s/%v/%s/%s/%s", j.Engine, j.Cause, j.AppCause, j.Timing, j.Prog, j.Text)
	rep.Case(key)
	rep.Count("run:" + j.Engine + ":" + j.Cause + ":" + j.Timing)
	// The entry check makes a call with an already-done context return without running the guest.
	entryCaught := j.Timing == "before" && j.Cause != "close"
	modelCycle := pred.asIsCycle
	if fixedTree {
		modelCycle = pred.fixedCycle
	}
	if o.hung || (o.res.Fired && o.res.AfterFireMs > hangBoundMs) {
		rep.Count("outcome:never-returns")
		sig := fmt.Sprintf("C07:%s-never-returns-although-every-cycle-has-a-check", j.Engine)
		what := "the call did not return %d ms after the cause fired although the model finds no check-free cycle"
		if j.InnerCtx {
			sig = fmt.Sprintf("C07:%s-call-made-by-a-host-callback-never-returns-after-its-own-context-is-done", j.Engine)
			what = "the call a host callback made back into the guest with a context of its own did not return %d ms after that context was done (the embedder's outer call has a context that is never done)"
		} else if j.Blocked {
			sig = fmt.Sprintf("F49:%s-blocked-in-atomic-wait-never-stops", j.Engine)
			what = "the call did not return %d ms after the cause fired: the guest is blocked in memory.atomic.wait32 (MemoryInstance.wait selects on the notify channel and the guest's own timeout only - not on the call's context nor on the module's close)"
		} else if pred.asIsCycle && !pred.fixedCycle && !fixedTree && !entryCaught {
			sig = fmt.Sprintf("F4:%s-tail-call-cycle-never-stops", j.Engine)
			what = "the call did not return %d ms after the cause fired: the program's only check-free cycles go through return_call/return_call_indirect, where no exit-code check is emitted"
		} else if len(j.Mods) > 0 && !modelCycle {
			sig = fmt.Sprintf("F4b:%s-cross-module-loop-never-stops", j.Engine)
			what = "the call did not return %d ms after the cause fired: the loop sits two calls deep in an imported module and the exit-code check there tests the imported module, not the module the call was made on"
		} else if entryCaught {
			sig = fmt.Sprintf("C07:%s-never-returns-with-context-done-before-entry", j.Engine)
		} else if modelCycle {
			sig = fmt.Sprintf("C07:%s-never-returns-check-free-cycle-without-tail-call", j.Engine)
		}
		rep.Violate(hx.Violation{Kind: "impl-violation", Signature: sig, What: fmt.Sprintf(what, hangBoundMs), Input: j, Expected: "returns *sys.ExitError", Actual: "no return (child killed); model: " + pred.raw})
		return
	}
	r := o.res
	if !p.NonTerm && !r.ExitError {
		// terminates on its own (stack exhaustion) before the cause was noticed: only "returns" is required
		rep.Count("outcome:returned-own-error")
		if !strings.Contains(r.Err, "stack overflow") {
			rep.Violate(hx.Violation{Kind: "correspondence", Signature: "C07:unbounded-recursion-ends-differently", What: "unbounded recursion returned something other than stack overflow or the exit error: " + r.Err, Input: j})
		}
		return
	}
	if r.Inconclusive {
		rep.Count("outcome:inner-context-inconclusive(cycle-outside-the-callbacks)")
		return
	}
	// exact only when the cause fires after the run has entered the cycle (checks on the way there still stop it)
	if modelCycle && j.Timing == "during" && j.DelayUs >= 20000 && !p.HasHostCallback() {
		rep.Violate(hx.Violation{Kind: "correspondence", Signature: "C07:returns-although-model-has-check-free-cycle",
			What: "the model of the detected variant predicts a check-free cycle for this program, but the call returned", Input: j, Expected: pred.raw, Actual: r})
	}
	rep.Count("outcome:returned")
	want, wantClosed := expectedCode(j)
	if !r.ExitError {
		rep.Violate(hx.Violation{Kind: "impl-violation", Signature: fmt.Sprintf("C07:%s-%s-returns-no-exit-error", j.Engine, j.Cause),
			What: "a non-terminating guest returned, but not with *sys.ExitError: " + r.Err, Input: j, Expected: want, Actual: r})
		return
	}
	if r.Code != want {
		rep.Violate(hx.Violation{Kind: "impl-violation", Signature: fmt.Sprintf("C07:%s-%s-wrong-exit-code", j.Engine, j.Cause),
			What: fmt.Sprintf("exit code %#x, the cause %s requires %#x", r.Code, j.Cause, want), Input: j, Expected: want, Actual: r})
	}
	if !r.Closed || !wantClosed {
		rep.Violate(hx.Violation{Kind: "impl-violation", Signature: fmt.Sprintf("C07:%s-module-not-closed-afterwards", j.Engine),
			What: "IsClosed() is false after the call was stopped", Input: j, Actual: r})
	}
	if r.Fired {
		b := "<=10ms"
		switch {
		case r.AfterFireMs > 1000:
			b = ">1s"
		case r.AfterFireMs > 100:
			b = "<=1s"
		case r.AfterFireMs > 10:
			b = "<=100ms"
		}
		rep.Count("latency:" + b)
	}
}

var codes = []uint32{0, 1, 2, 255, 256, 0x7fffffff, 0x80000000, 0xefffffff, 0xfffffffe, 0xffffffff}

// exitCodeGrid: CloseWithExitCode(c) / cancelled / expired context on an idle module, in-process, against the
// model's closed word (tie B for setExitCode / FailIfClosed / the entry check).
func exitCodeGrid() {
	g := &c07.Gen{}
	_ = g
	p := &c07.Prog{Name: "idle", HostCB: []int{-1}, Funcs: [][]*c07.Ins{{{K: "op"}}}}
	bin := p.Bytes()
	for _, eng := range []string{"interpreter", "compiler"} {
		for _, cause0 := range []string{"cancel", "deadline", "close", "cancel+app-cause", "deadline+app-cause"} {
			cause := strings.TrimSuffix(cause0, "+app-cause")
			app := cause != cause0
			cs := []uint32{0}
			if cause == "close" {
				cs = codes
			}
			for _, c := range cs {
				bg := context.Background()
				var rc wazero.RuntimeConfig
				if eng == "compiler" {
					rc = wazero.NewRuntimeConfigCompiler()
				} else {
					rc = wazero.NewRuntimeConfigInterpreter()
				}
				rt := wazero.NewRuntimeWithConfig(bg, rc.WithCoreFeatures(features()).WithCloseOnContextDone(true))
				rt.NewHostModuleBuilder("env").NewFunctionBuilder().WithFunc(func(uint32) {}).Export("h0").Instantiate(bg)
				mod, err := rt.InstantiateWithConfig(bg, bin, wazero.NewModuleConfig().WithName("g"))
				if err != nil {
					hx.Fatal("idle module: %v", err)
				}
				ctx := bg
				switch cause {
				case "cancel":
					if app {
						c2, cc := context.WithCancelCause(bg)
						cc(errAppCause)
						ctx = context.WithValue(c2, appKey{}, 1)
					} else {
						c2, cancel := context.WithCancel(bg)
						cancel()
						ctx = c2
					}
				case "deadline":
					if app {
						c2, cancel := context.WithDeadlineCause(bg, time.Now().Add(-time.Second), errAppCause)
						defer cancel()
						ctx = context.WithValue(c2, appKey{}, 1)
					} else {
						c2, cancel := context.WithDeadline(bg, time.Now().Add(-time.Second))
						defer cancel()
						ctx = c2
					}
				case "close":
					mod.CloseWithExitCode(bg, c)
				}
				_, cerr := mod.ExportedFunction("f0").Call(ctx, 0)
				j := job{Prog: "idle", Engine: eng, Cause: cause, Code: c, Timing: "before", AppCause: app}
				want, _ := expectedCode(j)
				rep.Case(fmt.Sprintf("exitcode/%s/%s/%d", eng, cause0, c))
				rep.Count("exitcode-grid")
				var ee *sys.ExitError
				if !errors.As(cerr, &ee) || ee.ExitCode() != want || !mod.IsClosed() {
					rep.Violate(hx.Violation{Kind: "impl-violation", Signature: fmt.Sprintf("C07:%s-%s-wrong-exit-code", eng, cause),
						What: fmt.Sprintf("idle module, cause before entry: error %v, closed=%v; required exit code %#x and a closed module", cerr, mod.IsClosed(), want), Input: j})
				}
				rt.Close(bg)
			}
		}
	}
}

func main() {
	flag.Parse()
	if *childJob != "" {
		runChild(*childJob)
		return
	}
	if *overlapChild != "" {
		overlapChildMain(*overlapChild)
		return
	}
	if *recTreeChild != "" {
		recTreeChildMain(*recTreeChild)
		return
	}
	var err error
	self, err = os.Executable()
	if err != nil {
		hx.Fatal("os.Executable: %v", err)
	}
	if *hx.Work == "" {
		d, err := os.MkdirTemp(os.Getenv("VERIF_ROOT"), ".work-hc07-")
		if err != nil {
			hx.Fatal("work dir: %v", err)
		}
		defer os.RemoveAll(d)
		*hx.Work = d
	}
	orc = hx.StartOracle()
	defer orc.Close()
	rep = hx.NewReport("C07", "structural: one case per distinct function body (model text) of programs generated for each of the "+
		fmt.Sprint(len(c07.Kinds))+" cycle constructors (random nesting/branch form/loop params) plus random structured programs; check positions of the real interpreter IR and wazevo SSA vs lowerS, wf on the real IR/SSA. "+
		"behavioural: one case per distinct (engine, cause, timing, program) run in a child process; non-trivial = every run (each is a non-terminating or stack-exhausting guest). exit-code grid: engine x cause x boundary codes")
	r := hx.Rand()
	g := &c07.Gen{R: r}

	if *dump != "" {
		p := g.Make(*dump)
		fmt.Println("MODEL:", p.Text)
		fmt.Println("CONCRETE:", p.ProgText(true))
		m, err := decode(p.Bytes())
		if err != nil {
			hx.Fatal("%v", err)
		}
		ir, _ := c07.InterpreterIR(m, features(), true)
		for f := range ir {
			s, bad := interpSkeleton(ir[f], len(p.HostCB))
			fmt.Println("IR", f, s, bad)
			for k, o := range ir[f] {
				fmt.Println("   ", k, o.Kind, o.Targets, o.U1)
			}
			fmt.Println("  lower0:", orc.Ask("c07 lower 0 "+p.FuncText(f, false)))
		}
		m2, _ := decode(p.Bytes())
		ss, err := c07.WazevoSSA(m2, true)
		for f := range ss {
			fmt.Println(ss[f].Text)
			fmt.Println(ssaFacts(ss[f]))
		}
		fmt.Println(predict(p).raw, err)
		return
	}

	if !c07.HookAvailable {
		rep.Note("built without the verif tag: the interpreter IR tie is not evaluated on this run")
	}

	// 1. the closed word / exit codes
	exitCodeGrid()
	recTreeStage()
	overlapStage()

	// 2. structural tie
	perKind, nRandom := 3, 150
	if hx.Thorough() {
		perKind, nRandom = 12, 1500
	}
	var progs []*c07.Prog
	for _, k := range c07.Kinds {
		for n := 0; n < perKind; n++ {
			p := g.Make(k)
			progs = append(progs, p)
			structural(p)
			rep.Count("kind:" + k)
		}
	}
	for n := 0; n < nRandom; n++ {
		structural(g.Random())
	}
	fixedTree := false
	switch {
	case votes.asIs > 0 && votes.fixed > 0:
		rep.Violate(hx.Violation{Kind: "correspondence", Signature: "C07:tail-call-checks-inconsistent",
			What: "some tail calls are preceded by an exit-code check and some are not: the tree matches neither model variant", Expected: votes.asIsEx, Actual: votes.fxEx})
	case votes.fixed > 0:
		fixedTree = true
		rep.Note("variant: repaired (tail calls are checked) on %d functions", votes.fixed)
	default:
		rep.Note("variant: as-is (checks at loop headers only) on %d functions with tail calls", votes.asIs)
	}

	// 3. behavioural tie + monitor
	type planned struct {
		j       job
		p       *c07.Prog
		pred    prediction
		witness bool
	}
	var plan []planned
	// the witness of F4 decides which variant the behaviour corresponds to
	wit := &c07.Prog{Name: "F4-witness", HostCB: []int{-1}, Funcs: [][]*c07.Ins{{{K: "rcall", F: 0}}}, NonTerm: true}
	wit.Text = wit.ProgText(false)
	wp := predict(wit)
	for _, eng := range []string{"interpreter", "compiler"} {
		j := job{Prog: wit.Name, Text: wit.Text, Wasm: hex.EncodeToString(wit.Bytes()), Entry: "f0", Arg: 1, HostCB: wit.HostCB, Engine: eng, Cause: "deadline", Timing: "during", DelayUs: 5000}
		plan = append(plan, planned{j, wit, wp, true})
	}
	causes := []string{"cancel", "deadline", "close"}
	timings := []string{"before", "during", "host"}
	seenHang := map[string]int{}
	for pi, p := range progs {
		pred := predict(p)
		hangs := pred.asIsCycle && !fixedTree || pred.fixedCycle && fixedTree
		binHex := hex.EncodeToString(p.Bytes())
		nsched := 2
		if hx.Thorough() {
			nsched = 3
		}
		if pi%perKind != 0 && !hx.Thorough() {
			nsched = 1
		}
		for _, eng := range []string{"interpreter", "compiler"} {
			for s := 0; s < nsched; s++ {
				j := job{Prog: p.Name, Text: p.Text, Wasm: binHex, Entry: fmt.Sprintf("f%d", p.Entry), Arg: p.Arg, HostCB: p.HostCB, Engine: eng,
					Cause: causes[r.Intn(3)], Timing: timings[r.Intn(3)], DelayUs: 200 + r.Intn(30000)}
				j.AppCause = j.Cause != "close" && r.Intn(2) == 0
				if j.Cause == "close" {
					j.Code = codes[r.Intn(len(codes))]
				}
				if hangs {
					// predicted never to return: each costs the full bound, keep a few per kind and engine
					if j.Timing == "before" && j.Cause != "close" {
						j.Timing = "during"
					}
					if j.Timing == "during" && j.DelayUs < 20000 {
						j.DelayUs += 20000
					}
					lim := 1
					if hx.Thorough() {
						lim = 3
					}
					if seenHang[p.Name+eng] >= lim {
						continue
					}
					seenHang[p.Name+eng]++
				}
				plan = append(plan, planned{j, p, pred, false})
				if p.HasHostCallback() && !hangs && s == 0 {
					ji := j
					ji.InnerCtx, ji.Timing, ji.AppCause = true, "inner", false
					ji.Cause = []string{"cancel", "deadline"}[r.Intn(2)]
					ji.Code = 0
					ji.DelayUs = 2000 + r.Intn(30000)
					plan = append(plan, planned{ji, p, pred, false})
				}
			}
		}
	}
	// cross-module: the entry module only forwards to an imported module whose loop sits two calls deep
	{
		inner := &c07.Prog{Name: "xmod-inner", HostCB: []int{}, Funcs: [][]*c07.Ins{{{K: "call", F: 1}}, nil}, NonTerm: true}
		l := g.Make("loop-br").Funcs[0][1:] // a forever loop without the trigger call
		inner.Funcs[1] = l
		am := &wasm.Module{
			TypeSection:         []wasm.FunctionType{{Params: []wasm.ValueType{wasm.ValueTypeI32}}},
			ImportSection:       []wasm.Import{{Type: wasm.ExternTypeFunc, Module: "m0", Name: "f0", DescFunc: 0}},
			ImportFunctionCount: 1,
			FunctionSection:     []wasm.Index{0},
			CodeSection:         []wasm.Code{{Body: []byte{wasm.OpcodeLocalGet, 0, wasm.OpcodeCall, 0, wasm.OpcodeEnd}}},
			ExportSection:       []wasm.Export{{Name: "f0", Type: wasm.ExternTypeFunc, Index: 1}},
		}
		merged := &c07.Prog{Name: "cross-module-loop-two-calls-deep", HostCB: []int{}, NonTerm: true,
			Funcs: [][]*c07.Ins{{{K: "call", F: 1}}, {{K: "call", F: 2}}, l}}
		merged.Text = merged.ProgText(false)
		mp := predict(merged)
		for _, eng := range []string{"interpreter", "compiler"} {
			for _, cause := range causes {
				j := job{Prog: merged.Name, Text: merged.Text, Wasm: hex.EncodeToString(binaryencoding.EncodeModule(am)), Mods: []string{hex.EncodeToString(inner.Bytes())},
					Entry: "f0", Arg: 1, HostCB: []int{}, Engine: eng, Cause: cause, Timing: "during", DelayUs: 3000, Code: 7}
				plan = append(plan, planned{j, merged, mp, false})
				if cause == "close" {
					// every exit code, 0 (plain Close) included: "closed with exit code 0" and "not closed" differ only in
					// the flag bits of the closed word
					for _, code := range codes {
						if code != 7 {
							j.Code = code
							plan = append(plan, planned{j, merged, mp, false})
						}
					}
				}
			}
		}
	}
	// the path by which the code was obtained: restored from a compilation cache another runtime filled, compiled with
	// function listeners, and both (per-module state such as "this module was compiled with termination checks" is
	// restored on a cache hit by code of its own)
	for _, kind := range []string{"loop-br", "loop-in-callee", "tail-self"} {
		p := g.Make(kind)
		pred := predict(p)
		for _, eng := range []string{"interpreter", "compiler"} {
			for ci, comp := range []string{"cache", "listener", "cache+listener"} {
				if eng == "interpreter" && comp != "listener" && !hx.Thorough() {
					continue // (the interpreter has no file cache: the option is accepted and ignored)
				}
				cause := causes[(ci+len(kind))%len(causes)]
				j := job{Prog: p.Name + "/" + comp, Text: p.Text, Wasm: hex.EncodeToString(p.Bytes()), Entry: fmt.Sprintf("f%d", p.Entry), Arg: p.Arg, HostCB: p.HostCB,
					Engine: eng, Cause: cause, Timing: "during", DelayUs: 25000, Code: 7, Compile: comp}
				plan = append(plan, planned{j, p, pred, false})
			}
		}
	}
	// tail calls with NO operand between a branch and the call (zero-parameter callees): in the interpreter's operation list
	// the exit-code check of such a tail call directly follows a label - the fall-through of br_if, the then / else
	// label of an if, the header of a loop nobody branches back to - which is where a header check looks redundant
	for _, tb := range tailAfterBranchModules() {
		bp := &c07.Prog{Name: tb.name, HostCB: []int{}, NonTerm: true, Text: tb.text}
		for _, eng := range []string{"interpreter", "compiler"} {
			for ci, cause := range causes {
				if !hx.Thorough() && ci != len(tb.name)%len(causes) {
					continue
				}
				j := job{Prog: bp.Name, Text: bp.Text, Wasm: hex.EncodeToString(tb.bin), Entry: "f0", Arg: 1, HostCB: []int{}, Engine: eng, Cause: cause, Timing: "during", DelayUs: 25000, Code: 7}
				plan = append(plan, planned{j, bp, prediction{raw: "every turn of the tail-call cycle passes the check of a return_call (repaired variant); zero-parameter callees are outside the generated DSL"}, false})
			}
		}
	}
	// blocked, not looping: the guest sits in memory.atomic.wait32 on its own shared memory (nobody notifies).
	// "Whatever the guest is doing" includes this: no cycle is involved, so no exit-code check is ever reached;
	// only the wait itself could notice the cause.
	for _, w := range []struct {
		name    string
		timeout int64
	}{{"atomic-wait-forever", -1}, {"atomic-wait-5-minutes", 300e9}} {
		bw := blockedWaitModule(w.timeout)
		bp := &c07.Prog{Name: w.name, HostCB: []int{}, NonTerm: true, Text: fmt.Sprintf("(memory.atomic.wait32 (i32.const 0) (i32.const 0) (i64.const %d))", w.timeout)}
		for _, eng := range []string{"interpreter", "compiler"} {
			for _, cause := range causes {
				j := job{Prog: bp.Name, Text: bp.Text, Wasm: hex.EncodeToString(bw), Entry: "f0", Arg: 1, HostCB: []int{}, Engine: eng, Cause: cause, Timing: "during", DelayUs: 3000, Code: 7, Blocked: true}
				if !hx.Thorough() && cause != "deadline" && w.timeout >= 0 {
					continue
				}
				plan = append(plan, planned{j, bp, prediction{raw: "blocked in memory.atomic.wait32 (no cycle: outside the cycle model)"}, false})
			}
		}
	}
	sort.SliceStable(plan, func(a, b int) bool { // start the slow (hanging) ones first
		ha := plan[a].pred.asIsCycle
		hb := plan[b].pred.asIsCycle
		return ha && !hb
	})
	results := make([]outcome, len(plan))
	var wg sync.WaitGroup
	sem := make(chan struct{}, 8)
	for i := range plan {
		wg.Add(1)
		sem <- struct{}{}
		go func(i int) {
			defer wg.Done()
			defer func() { <-sem }()
			results[i] = runJob(plan[i].j, i)
		}(i)
	}
	wg.Wait()
	retries := 0
	for i := range plan {
		o := results[i]
		pl := plan[i]
		unexpectedHang := o.hung && !(pl.pred.asIsCycle && !fixedTree) && !pl.j.Blocked
		if unexpectedHang && retries < 4 {
			// a second, isolated attempt before an unexpected hang counts (the first few: when many calls hang,
			// load is not the explanation)
			retries++
			o = runJob(pl.j, 100000+i)
			rep.Count("retry-after-hang")
		}
		if pl.witness && !o.hung && !fixedTree {
			rep.Violate(hx.Violation{Kind: "correspondence", Signature: "C07:witness-stops-but-structure-is-as-is",
				What: "the F4 witness (func $f (return_call $f)) stops, yet no exit-code check was found at tail calls: the tree matches neither variant", Input: pl.j, Actual: o.res})
		}
		judge(o, pl.p, pl.pred, fixedTree)
		if i%17 == 0 {
			rep.Sample(map[string]any{"job": map[string]any{"program": pl.j.Prog, "model_text": pl.j.Text, "engine": pl.j.Engine, "cause": pl.j.Cause, "timing": pl.j.Timing, "code": pl.j.Code},
				"hung": o.hung, "result": o.res})
		}
	}

	rep.Write(orc)
}

// blockedWaitModule: (memory 1 1 shared) (func (export "f0") (param i32)
//
//	(drop (memory.atomic.wait32 (i32.const 0) (i32.const 0) (i64.const timeout))))
type tailBranchMod struct {
	name, text string
	bin        []byte
}

// tailAfterBranchModules: f0(i32) calls the zero-parameter function 1, which spins through return_call only.
func tailAfterBranchModules() []tailBranchMod {
	rc := func(f uint32) []byte { return wb.Cat(wb.Op(wasm.OpcodeTailCallReturnCall), wb.U32(f)) }
	shapes := []struct {
		name, text string
		body       []byte // of function 1 (zero parameters), tail-calling itself
		extra      []byte // optional function 2
	}{
		{"tail-after-br_if", "(func $a (block (br_if 0 (i32.const 0)) (return_call $a)))",
			wb.Cat(wb.Op(wasm.OpcodeBlock, 0x40), wb.I32Const(0), wb.Op(wasm.OpcodeBrIf), wb.U32(0), rc(1), wb.Op(wasm.OpcodeEnd)), nil},
		{"tail-in-then", "(func $a (if (i32.const 1) (then (return_call $a))))",
			wb.Cat(wb.I32Const(1), wb.Op(wasm.OpcodeIf, 0x40), rc(1), wb.Op(wasm.OpcodeEnd)), nil},
		{"tail-in-else", "(func $a (if (i32.const 0) (then nop) (else (return_call $a))))",
			wb.Cat(wb.I32Const(0), wb.Op(wasm.OpcodeIf, 0x40), wb.Op(wasm.OpcodeNop), wb.Op(wasm.OpcodeElse), rc(1), wb.Op(wasm.OpcodeEnd)), nil},
		{"tail-in-loop-without-back-edge", "(func $a (loop (return_call $a)))",
			wb.Cat(wb.Op(wasm.OpcodeLoop, 0x40), rc(1), wb.Op(wasm.OpcodeEnd)), nil},
		{"tail-ping-pong-in-then-and-else", "(func $a (if (i32.const 1) (then (return_call $b)))) (func $b (if (i32.const 0) (then nop) (else (return_call $a))))",
			wb.Cat(wb.I32Const(1), wb.Op(wasm.OpcodeIf, 0x40), rc(2), wb.Op(wasm.OpcodeEnd)),
			wb.Cat(wb.I32Const(0), wb.Op(wasm.OpcodeIf, 0x40), wb.Op(wasm.OpcodeNop), wb.Op(wasm.OpcodeElse), rc(1), wb.Op(wasm.OpcodeEnd))},
	}
	var out []tailBranchMod
	// tail-call cycles between functions with WIDE signatures: as many parameters / results as still travel in
	// registers of both classes, and some beyond (where a back end may turn the tail call into call + return)
	for _, ws := range []struct {
		name   string
		ni, nf int
	}{{"tail-cycle-5-int-4-float-params", 5, 4}, {"tail-cycle-8-int-8-float-params", 8, 8}, {"tail-cycle-12-int-params", 12, 0}, {"tail-cycle-2-int-10-float-params", 2, 10}} {
		var params []byte
		for i := 0; i < ws.ni; i++ {
			params = append(params, wb.I64)
		}
		for i := 0; i < ws.nf; i++ {
			params = append(params, wb.F64)
		}
		m := wb.New()
		var args, fwd []byte
		for i, p := range params {
			if p == wb.I64 {
				args = append(args, wb.I64Const(int64(i))...)
			} else {
				args = append(args, wasm.OpcodeF64Const, 0, 0, 0, 0, 0, 0, 0, 0)
			}
			fwd = append(fwd, wb.LocalGet(uint32(i))...)
		}
		m.AddFunc(wb.Func{Params: []byte{wb.I32}, Export: "f0", Body: wb.Cat(args, wb.Call(1))})
		m.AddFunc(wb.Func{Params: params, Body: wb.Cat(fwd, rc(2))})
		m.AddFunc(wb.Func{Params: params, Body: wb.Cat(fwd, rc(1))})
		out = append(out, tailBranchMod{ws.name, fmt.Sprintf("(func $a (param i64 x%d f64 x%d) (return_call $b (local.get 0) ...)) (func $b (same type) (return_call $a ...))", ws.ni, ws.nf), m.Bytes()})
	}
	for _, sh := range shapes {
		m := wb.New()
		m.AddFunc(wb.Func{Params: []byte{wb.I32}, Export: "f0", Body: wb.Call(1)})
		m.AddFunc(wb.Func{Body: sh.body})
		if sh.extra != nil {
			m.AddFunc(wb.Func{Body: sh.extra})
		}
		out = append(out, tailBranchMod{sh.name, sh.text, m.Bytes()})
	}
	return out
}

func blockedWaitModule(timeout int64) []byte {
	m := wb.New()
	one := uint32(1)
	m.Memory(1, &one, true, "mem")
	m.AddFunc(wb.Func{Params: []byte{wb.I32}, Export: "f0", Body: wb.Cat(
		wb.I32Const(0), wb.I32Const(0), wb.I64Const(timeout),
		[]byte{wasm.OpcodeAtomicPrefix, wasm.OpcodeAtomicMemoryWait32, 2, 0},
		[]byte{wasm.OpcodeDrop})})
	return m.Bytes()
}
