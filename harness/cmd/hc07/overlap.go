package main

// Overlapping-calls stage.  "EVERY in-flight call returns promptly once its context is done": several calls on one
// instance may be in flight at once - from different goroutines, through different api.Function values, with the SAME
// context - and each of them is covered for as long as IT runs, whatever the others do.  Call 1 (blocked in a host
// function) starts first and returns before the cause fires; call 2 (a loop) started second and is still running when
// the context is cancelled / its deadline passes; also the mirror image (the loop first).  In a child process.

import (
	"context"
	"encoding/json"
	"flag"
	"fmt"
	"os"
	"os/exec"
	"strings"
	"sync"
	"time"

	"github.com/tetratelabs/wazero"
	"github.com/tetratelabs/wazero/internal/wasm"
	"github.com/tetratelabs/wazero/sys"
	"github.com/tetratelabs/wazero/verifharness/hx"
	"github.com/tetratelabs/wazero/verifharness/wb"
)

var overlapChild = flag.String("overlap", "", "internal: engine,cause,order - run one overlapping-calls scenario in this process")

func overlapChildMain(spec string) {
	var res recTreeRes
	defer func() {
		b, _ := json.Marshal(res)
		fmt.Println(string(b))
	}()
	p := strings.Split(spec, ",")
	engine, cause, order := p[0], p[1], p[2]
	ctx := context.Background()
	cfg := wazero.NewRuntimeConfigCompiler()
	if engine == "interpreter" {
		cfg = wazero.NewRuntimeConfigInterpreter()
	}
	rt := wazero.NewRuntimeWithConfig(ctx, cfg.WithCloseOnContextDone(true))
	gate, entered := make(chan struct{}), make(chan struct{})
	var once sync.Once
	if _, err := rt.NewHostModuleBuilder("env").
		NewFunctionBuilder().WithFunc(func() { <-gate }).Export("gate").
		NewFunctionBuilder().WithFunc(func() { once.Do(func() { close(entered) }) }).Export("entered").
		Instantiate(ctx); err != nil {
		res.Setup = err.Error()
		return
	}
	m := wb.New()
	g := m.ImportFunc("env", "gate", nil, nil)
	e := m.ImportFunc("env", "entered", nil, nil)
	m.AddFunc(wb.Func{Export: "wait", Body: wb.Call(g)})
	m.AddFunc(wb.Func{Export: "spin", Body: wb.Cat(wb.Call(e), wb.Op(wasm.OpcodeLoop, 0x40), wb.Op(wasm.OpcodeBr), wb.U32(0), wb.Op(wasm.OpcodeEnd))})
	mod, err := rt.InstantiateWithConfig(ctx, m.Bytes(), wazero.NewModuleConfig())
	if err != nil {
		res.Setup = err.Error()
		return
	}
	var cctx context.Context
	var cancel context.CancelFunc
	if cause == "deadline" {
		cctx, cancel = context.WithTimeout(ctx, 400*time.Millisecond)
	} else {
		cctx, cancel = context.WithCancel(ctx)
	}
	defer cancel()
	waitDone, spinDone := make(chan error, 1), make(chan error, 1)
	startWait := func() { go func() { _, err := mod.ExportedFunction("wait").Call(cctx); waitDone <- err }() }
	startSpin := func() { go func() { _, err := mod.ExportedFunction("spin").Call(cctx); spinDone <- err }() }
	if order == "wait-first" {
		startWait()
		time.Sleep(30 * time.Millisecond)
		startSpin()
	} else {
		startSpin()
		<-entered
		startWait()
		time.Sleep(30 * time.Millisecond)
	}
	<-entered
	close(gate) // the blocked call returns; the loop keeps running
	select {
	case <-waitDone:
	case <-time.After(3 * time.Second):
		res.Setup = "the blocked call did not return after its gate was opened"
		return
	}
	fired := time.Now()
	if cause == "cancel" {
		time.Sleep(50 * time.Millisecond)
		fired = time.Now()
		cancel()
	} else {
		<-cctx.Done()
		fired = time.Now()
	}
	err = <-spinDone
	res.Returned, res.AfterMs = true, time.Since(fired).Milliseconds()
	if err != nil {
		res.Err = err.Error()
		if ee, ok := err.(*sys.ExitError); ok {
			res.ExitErr, res.Code = true, ee.ExitCode()
		}
	}
	res.Closed = mod.IsClosed()
}

func overlapStage() {
	type jobT struct{ engine, cause, order string }
	var jobs []jobT
	for _, e := range []string{"interpreter", "compiler"} {
		for _, c := range []string{"cancel", "deadline"} {
			for _, o := range []string{"wait-first", "spin-first"} {
				jobs = append(jobs, jobT{e, c, o})
			}
		}
	}
	type outT struct {
		hung bool
		res  recTreeRes
		raw  string
	}
	outs := make([]outT, len(jobs))
	var wg sync.WaitGroup
	for i, j := range jobs {
		wg.Add(1)
		go func(i int, j jobT) {
			defer wg.Done()
			ctx, cancel := context.WithTimeout(context.Background(), 7*time.Second)
			defer cancel()
			cmd := hx.Supervised(exec.CommandContext(ctx, self, "-overlap", j.engine+","+j.cause+","+j.order))
			cmd.Env = append(os.Environ(), "GOMEMLIMIT=1GiB", "GOMAXPROCS=4")
			outb, _ := cmd.Output()
			o := outT{raw: string(outb)}
			if ctx.Err() != nil {
				o.hung = true
			} else if json.Unmarshal([]byte(strings.TrimSpace(string(outb))), &o.res) != nil || o.res.Setup != "" {
				hx.Fatal("overlapping-calls child failed: %s %s", string(outb), o.res.Setup)
			}
			outs[i] = o
		}(i, j)
	}
	wg.Wait()
	for i, o := range outs {
		j := jobs[i]
		rep.Case(fmt.Sprintf("overlap/%s/%s/%s", j.engine, j.cause, j.order))
		input := map[string]any{"stage": "overlapping calls", "engine": j.engine, "cause": j.cause, "order": j.order,
			"history": "one instance, one context: call `wait` (blocked in a host function) and call `spin` (loop) from two goroutines; `wait` is released and returns; then the context is cancelled / its deadline passes while `spin` is still running"}
		want := sys.ExitCodeContextCanceled
		if j.cause == "deadline" {
			want = sys.ExitCodeDeadlineExceeded
		}
		switch {
		case o.hung || o.res.AfterMs > 3000:
			rep.Violate(hx.Violation{Kind: "impl-violation", Signature: fmt.Sprintf("C07:%s-overlapping-call-never-stops", j.engine),
				What:  fmt.Sprintf("%s: two calls with the same context overlap on one instance; the one that started %s returned before the cause (%s) fired; the loop that was still running did not return within 3 s of it", j.engine, map[string]string{"wait-first": "first", "spin-first": "second"}[j.order], j.cause),
				Input: input, Expected: "the running call returns *sys.ExitError promptly", Actual: "no return (child killed)"})
		case !o.res.ExitErr || o.res.Code != want:
			rep.Violate(hx.Violation{Kind: "impl-violation", Signature: fmt.Sprintf("C07:%s-overlapping-call-wrong-exit", j.engine), What: fmt.Sprintf("the stopped loop returned %q (code %#x), want exit code %#x", o.res.Err, o.res.Code, want), Input: input, Actual: o.res})
		case !o.res.Closed:
			rep.Violate(hx.Violation{Kind: "impl-violation", Signature: fmt.Sprintf("C07:%s-module-not-closed-afterwards", j.engine), What: "IsClosed() is false after the overlapping call was stopped", Input: input, Actual: o.res})
		default:
			rep.Count("overlap:stopped")
		}
	}
}
