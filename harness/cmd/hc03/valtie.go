package main

// Tie B for the validator model (Lean `Wz.Model.Validator.check`, oracle op `c03 vfunc`): generated W0
// function bodies and token-level mutants of them are assembled to binary and validated by the real
// `Module.Validate` (in a child); accept/reject must agree with the model.

import (
	"fmt"
	"math/rand"
	"strings"
	"sync"

	"github.com/tetratelabs/wazero/internal/leb128"
	"github.com/tetratelabs/wazero/internal/wasm"
	"github.com/tetratelabs/wazero/verifharness/gen"
	"github.com/tetratelabs/wazero/verifharness/hx"
)

// assembleExt is gen.Assemble plus an optional alignment override on memory instructions
// (`i32.load@64:0`); without `@` the natural alignment is encoded.
func assembleExt(toks []string) (*gen.Asm, error) {
	out := &gen.Asm{}
	for _, tok := range toks {
		base, align := tok, ""
		if i := strings.Index(tok, "@"); i >= 0 {
			j := strings.Index(tok, ":")
			if j < 0 {
				j = len(tok)
			}
			base, align = tok[:i]+tok[j:], tok[i+1:j]
		}
		a, err := gen.Assemble([]string{base})
		if err != nil {
			return nil, err
		}
		b := a.B
		if align != "" {
			var al uint64
			fmt.Sscan(align, &al)
			// opcode, natural alignment (one byte), offset
			nb := []byte{b[0]}
			nb = append(nb, leb128.EncodeUint32(uint32(al))...)
			nb = append(nb, b[2:]...)
			b = nb
		}
		out.B = append(out.B, b...)
		out.T = append(out.T, tok)
	}
	return out, nil
}

func vtList(ts []wasm.ValueType) string {
	if len(ts) == 0 {
		return "-"
	}
	var ss []string
	for _, t := range ts {
		ss = append(ss, gen.TName(t))
	}
	return strings.Join(ss, ",")
}

// ctxArgs renders the validation context of function fi of m for the oracle.
func ctxArgs(m *gen.Module, fi int, refTypes bool) string {
	var types []string
	for _, t := range m.Types {
		p, r := vtList(t.Params), vtList(t.Results)
		if p == "-" {
			p = ""
		}
		if r == "-" {
			r = ""
		}
		types = append(types, p+">"+r)
	}
	ts := "-"
	if len(types) > 0 {
		ts = strings.Join(types, ";")
	}
	var funcs []string
	for _, ti := range m.Imports {
		funcs = append(funcs, fmt.Sprint(ti))
	}
	for _, f := range m.Funcs {
		funcs = append(funcs, fmt.Sprint(f.Type))
	}
	var globals []string
	for _, g := range m.Globals {
		globals = append(globals, gen.TName(g.T)+":1")
	}
	gs := "-"
	if len(globals) > 0 {
		gs = strings.Join(globals, ",")
	}
	ft := m.Types[m.Funcs[fi].Type]
	locals := append(append([]wasm.ValueType{}, ft.Params...), m.Funcs[fi].Locals...)
	b := func(x bool) string {
		if x {
			return "1"
		}
		return "0"
	}
	return fmt.Sprintf("%s %s %s %s %s %s %s %s", b(refTypes), b(m.HasMem), b(len(m.Table) > 0), ts, strings.Join(funcs, ","), gs, vtList(locals), vtList(ft.Results))
}

func needsV2(m *gen.Module, toks []string) bool {
	for _, t := range m.Types {
		if len(t.Results) > 1 {
			return true
		}
	}
	for _, t := range toks {
		if strings.Contains(t, "extend8_s") || strings.Contains(t, "extend16_s") || strings.Contains(t, "extend32_s") ||
			strings.Contains(t, "trunc_sat") || strings.HasPrefix(t, "memory.copy") || strings.HasPrefix(t, "memory.fill") {
			return true
		}
	}
	return false
}

var structural = []string{"end", "else", "unreachable", "return", "br:0", "br:1", "br_if:0", "br_table:0,0", "br_table:0,1,0", "drop", "select",
	"block:e", "block:i32", "loop:e", "loop:i64", "if:e", "if:f32", "i32.const:0", "i64.const:0", "f32.const:0", "f64.const:0", "memory.size", "memory.grow"}

// exponents 32..62 are rejected by both variants; the model's alignSane draws the line at 63, the repaired
// code at 32 — both agree on every value used here
var aligns = []string{"0", "1", "2", "3", "4", "5", "31", "32", "62", "63", "64", "65", "4294967295"}

func mutateTokens(r *rand.Rand, toks []string, alphabet []string) ([]string, string) {
	out := append([]string{}, toks...)
	if len(out) == 0 {
		return append(out, structural[r.Intn(len(structural))]), "insert"
	}
	i := r.Intn(len(out))
	pick := func() string {
		if r.Intn(3) == 0 || len(alphabet) == 0 {
			return structural[r.Intn(len(structural))]
		}
		return alphabet[r.Intn(len(alphabet))]
	}
	switch r.Intn(8) {
	case 0:
		out[i] = pick()
		return out, "replace"
	case 1:
		return append(out[:i], out[i+1:]...), "delete"
	case 2:
		out = append(out[:i], append([]string{pick()}, out[i:]...)...)
		return out, "insert"
	case 3:
		if i+1 < len(out) {
			out[i], out[i+1] = out[i+1], out[i]
		}
		return out, "swap"
	case 4, 5: // immediate change
		for k := 0; k < len(out); k++ {
			j := (i + k) % len(out)
			name, imm, ok := strings.Cut(out[j], ":")
			if !ok {
				continue
			}
			switch {
			case name == "br" || name == "br_if" || name == "local.get" || name == "local.set" || name == "local.tee" || name == "global.get" || name == "global.set" || name == "call" || name == "call_indirect":
				var v int
				fmt.Sscan(imm, &v)
				nv := []int{v + 1, v - 1, 0, v + 2, 1000}[r.Intn(5)]
				if nv < 0 {
					nv = 0
				}
				out[j] = fmt.Sprintf("%s:%d", name, nv)
				return out, "imm:" + name
			case name == "block" || name == "loop" || name == "if":
				out[j] = name + ":" + []string{"e", "i32", "i64", "f32", "f64"}[r.Intn(5)]
				return out, "imm:blocktype"
			case strings.Contains(name, ".load") || strings.Contains(name, ".store"):
				base := name
				if a := strings.Index(base, "@"); a >= 0 {
					base = base[:a]
				}
				out[j] = base + "@" + aligns[r.Intn(len(aligns))] + ":" + imm
				return out, "imm:align"
			case strings.HasSuffix(name, ".const"):
				out[j] = []string{"i32", "i64", "f32", "f64"}[r.Intn(4)] + ".const:" + imm
				if strings.HasPrefix(out[j], "f32") || strings.HasPrefix(out[j], "i32") {
					out[j] = out[j][:strings.Index(out[j], ":")] + ":7"
				}
				return out, "imm:consttype"
			}
		}
		out[i] = pick()
		return out, "replace"
	case 6: // drop a whole suffix (missing ends) or duplicate a token
		if r.Intn(2) == 0 {
			return out[:i], "truncate"
		}
		out = append(out[:i], append([]string{out[i]}, out[i:]...)...)
		return out, "duplicate"
	default:
		out = append(out[:i], append([]string{structural[r.Intn(len(structural))]}, out[i:]...)...)
		return out, "insert-structural"
	}
}

type valJob struct {
	m    *gen.Module
	fi   int
	toks []string
	kind string
	feat string
}

func runValJobs(jobs []valJob, par int) {
	var wg sync.WaitGroup
	ch := make(chan valJob)
	for w := 0; w < par; w++ {
		wg.Add(1)
		go func() {
			defer wg.Done()
			for j := range ch {
				runValJob(j)
			}
		}()
	}
	for _, j := range jobs {
		ch <- j
	}
	close(ch)
	wg.Wait()
}

func runValJob(j valJob) {
	asm, err := assembleExt(j.toks)
	if err != nil {
		hx.Fatal("validator tie: %v", err)
	}
	mm := *j.m
	mm.Funcs = append([]gen.Func{}, j.m.Funcs...)
	mm.Funcs[j.fi].Code = asm
	bin := mm.Binary()
	c := mkCase(fmt.Sprintf("val-f%d-%s", j.fi, j.kind), "validator-tie", j.feat, bin, "val:"+j.kind)
	c.Mode = "validate"
	model := orc.Ask("c03 vfunc " + ctxArgs(j.m, j.fi, j.feat != "v1") + " " + strings.Join(j.toks, " "))
	o := pool.Run(c.req("validate"), caseDeadline)
	v := judge(c, o, false)
	rep.Count("validator-tie:model:" + strings.Fields(model)[0])
	rep.Case("val/" + j.kind + "/" + j.feat + "/" + strings.Fields(model)[0] + "/" + v)
	if o.Resp == nil {
		return
	}
	realOK := o.Resp.Validate != nil && o.Resp.Validate.OK
	if model == "ok align-quirk" && !alignQuirk {
		model = "err alignment-exponent-over-31" // repaired variant: accepts = check && alignSane
	}
	if !o.Resp.Decode.OK {
		// the assembler produced something the decoder refuses (e.g. a body that does not end with `end`): not a validator case
		rep.Count("validator-tie:decode-rejected")
		if strings.HasPrefix(model, "ok") {
			rep.Violate(hx.Violation{Kind: "correspondence", Signature: "C03:validator-model-accepts-undecodable-body", What: "model accepts, decoder rejects: " + o.Resp.Decode.Err, Input: map[string]any{"tokens": j.toks, "hex": c.Hex, "feat": j.feat}, Expected: model, Actual: o.Resp.Decode.Err})
		}
		return
	}
	in := map[string]any{"function": j.fi, "tokens": strings.Join(j.toks, " "), "ctx": ctxArgs(j.m, j.fi, j.feat != "v1"), "hex": c.Hex, "feat": j.feat, "mutation": j.kind}
	verr := ""
	if o.Resp.Validate != nil {
		verr = o.Resp.Validate.Err
	}
	switch {
	case strings.HasPrefix(model, "ok") && !realOK:
		rep.Violate(hx.Violation{Kind: "correspondence", Signature: "C03:validator-model-accepts-real-rejects", What: "Lean check accepts the body, Module.Validate rejects it: " + firstLine(verr), Input: in, Expected: model, Actual: verr})
	case !strings.HasPrefix(model, "ok") && realOK:
		rep.Violate(hx.Violation{Kind: "correspondence", Signature: "C03:validator-model-rejects-real-accepts:" + strings.ReplaceAll(model, " ", "-"), What: "Module.Validate accepts a body the Lean check rejects (" + model + ")", Input: in, Expected: model, Actual: "accepted"})
	}
	if model == "ok align-quirk" && realOK {
		rep.Count("validator-tie:alignment-exponent-over-62-accepted(quirk-Q3)")
	}
}

// alignQuirk: finding switch F43 — does the validator under test accept an alignment exponent of 64?
var alignQuirk bool

func probeAlignQuirk() {
	m := &gen.Module{Types: []gen.FuncType{{}}, Funcs: []gen.Func{{Type: 0}}, HasMem: true, MemMin: 1}
	asm, err := assembleExt([]string{"i32.const:0", "i32.load@64:0", "drop"})
	if err != nil {
		hx.Fatal("align probe: %v", err)
	}
	m.Funcs[0].Code = asm
	c := mkCase("F43-probe", "probe", "v2", m.Binary(), "probe")
	o := pool.Run(c.req("validate"), caseDeadline)
	if o.Resp == nil || !o.Resp.Decode.OK || o.Resp.Validate == nil {
		hx.Fatal("align probe: no answer (%s %s)", o.Crash, o.Stderr)
	}
	alignQuirk = o.Resp.Validate.OK
	if alignQuirk {
		rep.Count("validator-variant:as-is(alignment exponents >= 63 accepted, F43)")
		rep.Note("finding switch F43: `i32.load align=2^64` is ACCEPTED by Module.Validate - the as-is validator model (check) is tied; validate_sound_W0 covers the bodies with alignSane only, validate_asIs_alignment_witness is the counterexample")
	} else {
		rep.Count("validator-variant:repaired(alignment exponents >= 32 rejected)")
		rep.Note("finding switch F43: `i32.load align=2^64` is rejected - the repaired variant (check && alignSane) is tied and validate_sound_W0 is its full soundness theorem")
	}
}

func tieValidator(r *rand.Rand, par int) {
	probeAlignQuirk()
	nmods, nmut := 40, 8
	if hx.Thorough() {
		nmods, nmut = 1200, 14
	}
	var jobs []valJob
	for mi := 0; mi < nmods; mi++ {
		m, _ := genSeed(r)
		var alphabet []string
		for _, f := range m.Funcs {
			alphabet = append(alphabet, f.Code.T...)
		}
		for fi := range m.Funcs {
			toks := m.Funcs[fi].Code.T
			feats := []string{"v2"}
			if !needsV2(m, alphabet) {
				feats = append(feats, "v1")
			}
			for _, ft := range feats {
				jobs = append(jobs, valJob{m, fi, toks, "original", ft})
			}
			for k := 0; k < nmut; k++ {
				mt, kind := mutateTokens(r, toks, alphabet)
				if r.Intn(4) == 0 {
					mt, _ = mutateTokens(r, mt, alphabet)
					kind += "+2"
				}
				jobs = append(jobs, valJob{m, fi, mt, kind, feats[r.Intn(len(feats))]})
			}
		}
	}
	// numeric signatures: every numeric instruction with every operand/result type assignment
	numNames := []string{}
	for opc := 0x45; opc <= 0xc4; opc++ {
		n := wasm.InstructionName(byte(opc))
		if n == "f32.convert_i64u" {
			n = "f32.convert_i64_u"
		}
		numNames = append(numNames, n)
	}
	for mo := 0; mo <= 7; mo++ {
		numNames = append(numNames, wasm.MiscInstructionName(wasm.OpcodeMisc(mo)))
	}
	vts := []wasm.ValueType{gen.I32, gen.I64, gen.F32, gen.F64}
	for _, name := range numNames {
		for _, p1 := range vts {
			for _, p2 := range vts {
				for _, res := range vts {
					if !hx.Thorough() && r.Intn(12) != 0 {
						continue
					}
					m := &gen.Module{Types: []gen.FuncType{{Params: []wasm.ValueType{p1, p2}, Results: []wasm.ValueType{res}}}, Funcs: []gen.Func{{Type: 0}}}
					jobs = append(jobs, valJob{m, 0, []string{"local.get:0", name}, "numsig1", "v2"},
						valJob{m, 0, []string{"local.get:0", "local.get:1", name}, "numsig2", "v2"})
				}
			}
		}
	}
	runValJobs(jobs, par)
	rep.Count(fmt.Sprintf("validator-tie:jobs:%d", len(jobs)))
}
