package main

// Linked-modules stage.  "An accepted module never makes the runtime fail internally" holds for code that runs on behalf
// of ANOTHER module as well: a function of module A reached through module B's import executes A's instructions
// against A's index spaces (functions, tables, globals, element and data segments), whatever B - the module the host
// call entered - has.  A has many of each and its function uses the HIGHEST index of each space; B has one function
// and nothing else.  On both engines, called directly and through B, the result must be the specified one; a Go
// runtime error (index out of range, nil dereference) recovered by the engine is an internal failure.

import (
	"context"
	"fmt"
	"strings"

	"github.com/tetratelabs/wazero"
	"github.com/tetratelabs/wazero/api"
	"github.com/tetratelabs/wazero/internal/leb128"
	"github.com/tetratelabs/wazero/internal/wasm"
	"github.com/tetratelabs/wazero/verifharness/hx"
	"github.com/tetratelabs/wazero/verifharness/wb"
)

func linkedModulesStage() {
	ctx := context.Background()
	a := wb.New()
	one := uint32(1)
	a.Memory(1, &one, false, "")
	for i := 0; i < 3; i++ {
		a.Table(4, nil)
	}
	for i := 0; i < 6; i++ {
		a.M.GlobalSection = append(a.M.GlobalSection, wasm.Global{Type: wasm.GlobalType{ValType: wb.I32, Mutable: true}, Init: wasm.ConstantExpression{Opcode: wasm.OpcodeI32Const, Data: leb128.EncodeInt32(int32(100 + i))}})
	}
	for i := 0; i < 5; i++ {
		a.AddFunc(wb.Func{Results: []byte{wb.I32}, Body: wb.I32Const(int32(40 + i))})
	}
	t0 := a.TypeIdx(nil, []byte{wb.I32})
	// run: table[2][3] := ref.func 4; call_indirect table 2 slot 3 (=44) + global 5 (=105) + table.size 2 (=4) + (table.grow 2 null 1 -> 4)
	a.AddFunc(wb.Func{Results: []byte{wb.I32}, Export: "run", Body: wb.Cat(
		wb.I32Const(3), wb.Op(wasm.OpcodeRefFunc), wb.U32(4), wb.Op(wasm.OpcodeTableSet, 2),
		wb.I32Const(3), wb.Op(wasm.OpcodeCallIndirect), wb.U32(t0), wb.U32(2),
		wb.GlobalGet(5), wb.Op(wasm.OpcodeI32Add),
		wb.Misc(wasm.OpcodeMiscTableSize, 2), wb.Op(wasm.OpcodeI32Add),
		wb.Op(wasm.OpcodeRefNull, wasm.RefTypeFuncref), wb.I32Const(1), wb.Misc(wasm.OpcodeMiscTableGrow, 2), wb.Op(wasm.OpcodeI32Add),
		wb.I32Const(7), wb.GlobalSet(5))})
	abin := a.BytesWithSegments([]wb.Elem{{Passive: true, Init: []int64{4}}})
	b := wb.New()
	imp := b.ImportFunc("a", "run", nil, []byte{wb.I32})
	b.AddFunc(wb.Func{Results: []byte{wb.I32}, Export: "call", Body: wb.Call(imp)})
	bbin := b.Bytes()
	want := uint32(44 + 105 + 4 + 4)
	for _, engine := range []string{"interpreter", "compiler"} {
		for _, via := range []string{"direct", "through-importer"} {
			rc := wazero.NewRuntimeConfigCompiler()
			if engine == "interpreter" {
				rc = wazero.NewRuntimeConfigInterpreter()
			}
			rt := wazero.NewRuntimeWithConfig(ctx, rc.WithCoreFeatures(api.CoreFeaturesV2))
			got := func() (out string) {
				defer func() {
					if r := recover(); r != nil {
						out = fmt.Sprintf("GO PANIC: %v", r)
					}
				}()
				am, err := rt.InstantiateWithConfig(ctx, abin, wazero.NewModuleConfig().WithName("a"))
				if err != nil {
					return "instantiate a: " + err.Error()
				}
				fn := am.ExportedFunction("run")
				if via != "direct" {
					bm, err := rt.InstantiateWithConfig(ctx, bbin, wazero.NewModuleConfig().WithName("b"))
					if err != nil {
						return "instantiate b: " + err.Error()
					}
					fn = bm.ExportedFunction("call")
				}
				res, err := fn.Call(ctx)
				if err != nil {
					return "error: " + strings.SplitN(err.Error(), "\n", 2)[0]
				}
				return fmt.Sprint(uint32(res[0]))
			}()
			rt.Close(ctx)
			rep.Case("linked/" + engine + "/" + via)
			if got != fmt.Sprint(want) {
				sig := "C03:linked-modules-wrong-result:" + engine
				if strings.Contains(got, "runtime error") || strings.Contains(got, "GO PANIC") {
					sig = "C03:accepted-module-internal-failure:linked:" + engine
				}
				rep.Violate(hx.Violation{Kind: "impl-violation", Signature: sig,
					What:     fmt.Sprintf("%s: a function of module a (6 functions, 3 tables, 6 globals; uses the highest index of each) called %s answers %s", engine, via, got),
					Input:    map[string]any{"stage": "linked modules", "engine": engine, "via": via, "a": fmt.Sprintf("%x", abin), "b": fmt.Sprintf("%x", bbin)},
					Expected: fmt.Sprint(want), Actual: got})
			} else {
				rep.Count("linked:ok")
			}
		}
	}
}
