package main

// Input streams of hc03: seeds (gen modules, repository testdata), mutators, raw bytes.

import (
	"fmt"
	"math/rand"
	"os"
	"path/filepath"
	"sort"
	"strings"

	"github.com/tetratelabs/wazero/internal/leb128"
	"github.com/tetratelabs/wazero/verifharness/allops"
	"github.com/tetratelabs/wazero/verifharness/gen"
	"github.com/tetratelabs/wazero/verifharness/hx"
)

var header = []byte{0, 'a', 's', 'm', 1, 0, 0, 0}

type Seed struct {
	name string
	bin  []byte
}

func repoRoot() string {
	if r := os.Getenv("VERIF_REPO"); r != "" {
		return r
	}
	return "/repo"
}

// loadSeeds samples the repository's own wasm files (deterministically from r).
func loadSeeds(r *rand.Rand, want int) (small []Seed, big []Seed) {
	root := repoRoot()
	var files []string
	for _, pat := range []string{
		"internal/integration_test/spectest/v1/testdata/*.wasm",
		"internal/integration_test/spectest/v2/testdata/*.wasm",
		"internal/integration_test/fuzzcases/testdata/*.wasm",
		"internal/integration_test/engine/testdata/*.wasm",
		"internal/integration_test/engine/testdata/*/*.wasm",
		"imports/wasi_snapshot_preview1/testdata/*.wasm",
		"examples/*/testdata/*.wasm", "examples/*/*/testdata/*.wasm",
	} {
		fs, _ := filepath.Glob(filepath.Join(root, pat))
		files = append(files, fs...)
	}
	sort.Strings(files)
	if len(files) == 0 {
		hx.Fatal("no wasm testdata found under %s", root)
	}
	r.Shuffle(len(files), func(i, j int) { files[i], files[j] = files[j], files[i] })
	for _, f := range files {
		if len(small) >= want {
			break
		}
		b, err := os.ReadFile(f)
		if err != nil || len(b) < 8 {
			continue
		}
		s := Seed{name: strings.TrimPrefix(f, root+"/"), bin: b}
		if len(b) > 32<<10 {
			if len(big) < 3 {
				big = append(big, s)
			}
			rep.Count("seed:skipped-for-mutation-over-32KiB")
			continue
		}
		small = append(small, s)
	}
	return
}

func genSeed(r *rand.Rand) (*gen.Module, []byte) {
	cfg := gen.Config{MaxFuncs: 1 + r.Intn(4), MaxDepth: 2 + r.Intn(3), MaxStmts: 1 + r.Intn(5), Floats: r.Intn(3) > 0, Memory: true, Imports: r.Intn(3), Bulk: r.Intn(2) == 0}
	m := gen.Generate(r, cfg)
	return m, m.Binary()
}

// genSeedAny draws from every instruction family the generator knows (v128, block parameters with taken back
// edges, atomics, tail calls, many parameters/results/locals); ext: the module needs the features beyond 2.0.
func genSeedAny(r *rand.Rand, i int) (bin []byte, ext bool) {
	cfg := gen.Config{MaxFuncs: 1 + r.Intn(4), MaxDepth: 2 + r.Intn(3), MaxStmts: 1 + r.Intn(5), Floats: r.Intn(3) > 0, Memory: true, Imports: r.Intn(3), Bulk: r.Intn(2) == 0}
	cfg = gen.RandomProfile(r, cfg)
	if i%2 == 0 {
		// every combination of the families in turn (a defect that needs two of them together - a v128 that is a
		// loop parameter - is rare when each family is drawn independently)
		k := i / 2
		cfg.SIMD, cfg.BlockParams, cfg.Atomics, cfg.TailCalls, cfg.Dense = k&1 != 0, k&2 != 0, k&4 != 0, k&8 != 0, true
	}
	return gen.Generate(r, cfg).Binary(), cfg.NeedsExtendedFeatures()
}

func u32(v uint64) []byte { return leb128.EncodeUint32(uint32(v)) }

// padded re-encodes v in exactly n bytes (non-canonical when n is larger than needed; n may exceed 5).
func padded(v uint64, n int) []byte {
	out := make([]byte, n)
	for i := 0; i < n; i++ {
		out[i] = byte(v&0x7f) | 0x80
		v >>= 7
	}
	out[n-1] &= 0x7f
	return out
}

func splice(b []byte, pos, n int, repl []byte) []byte {
	out := make([]byte, 0, len(b)-n+len(repl))
	out = append(out, b[:pos]...)
	out = append(out, repl...)
	out = append(out, b[pos+n:]...)
	return out
}

// replaceField rewrites one LEB field; with fix, the enclosing section size (and code body size) is
// adjusted so that the framing stays consistent and the change reaches the element decoders.
func replaceField(b []byte, w *Walk, f Field, repl []byte, fix bool) []byte {
	out := splice(b, f.Pos, f.Len, repl)
	delta := len(repl) - f.Len
	if !fix || delta == 0 || f.Kind == "section-size" {
		return out
	}
	for _, s := range w.Sections {
		if f.Pos >= s.Content && f.Pos < s.End {
			// section size field precedes the content: positions before f.Pos are unchanged
			var szf *Field
			for i := range w.Fields {
				if w.Fields[i].Pos == s.SizePos && w.Fields[i].Kind == "section-size" {
					szf = &w.Fields[i]
				}
			}
			if szf != nil {
				nv := int64(szf.Val) + int64(delta)
				if nv >= 0 {
					out = splice(out, szf.Pos, szf.Len, padded(uint64(nv), szf.Len))
				}
			}
		}
	}
	return out
}

// fixBodySizes adjusts the size field of body bi and of the code section after a change of delta bytes
// inside that body (both fields precede the change, so their positions are still valid).
func fixBodySizes(o []byte, w *Walk, bi int, delta int) []byte {
	n := -1
	for _, f := range w.Fields {
		if f.Kind == "code-body-size" {
			n++
			if n == bi {
				o = splice(o, f.Pos, f.Len, padded(uint64(int64(f.Val)+int64(delta)), f.Len))
			}
		}
	}
	for _, s := range w.Sections {
		if s.ID == 10 {
			for _, f := range w.Fields {
				if f.Kind == "section-size" && f.Pos == s.SizePos {
					o = splice(o, f.Pos, f.Len, padded(uint64(int64(f.Val)+int64(delta)), f.Len))
				}
			}
		}
	}
	return o
}

var interesting = []uint64{0, 1, 2, 0x7f, 0x80, 0x3fff, 0x4000, 50000, 50001, 0x1fffff, 0x200000, 1 << 24, 1 << 27, 1<<27 + 1, 1 << 28, 1 << 30, 1<<31 - 1, 1 << 31, 1<<32 - 1}

var opcodeAlphabet = func() []byte {
	var a []byte
	for i := 0; i <= 0xc4; i++ {
		a = append(a, byte(i))
	}
	a = append(a, 0xd0, 0xd1, 0xd2, 0xfc, 0xfd, 0xfe, 0x12, 0x13, 0x1c, 0x25, 0x26)
	return a
}()

// mutate applies one structure-aware mutation. kind names it.
func mutate(r *rand.Rand, b []byte, other []byte) (out []byte, kind string) {
	w := WalkModule(b)
	pickField := func(pred func(f Field) bool) (Field, bool) {
		var c []Field
		for _, f := range w.Fields {
			if pred(f) {
				c = append(c, f)
			}
		}
		if len(c) == 0 {
			return Field{}, false
		}
		return c[r.Intn(len(c))], true
	}
	isCount := func(f Field) bool {
		return f.Elem > 0 || strings.HasSuffix(f.Kind, "-count") || strings.HasSuffix(f.Kind, "-size") || f.Kind == "locals-groups"
	}
	for try := 0; try < 8; try++ {
		switch r.Intn(17) {
		case 16: // an opcode after a prefix byte (0xfc/0xfd/0xfe), re-encoded as a padded LEB128 (legal for u32)
			if len(w.Bodies) > 0 {
				bi := r.Intn(len(w.Bodies))
				bd := w.Bodies[bi]
				var pos []int
				for i := bd[0]; i+1 < bd[1]; i++ {
					if (b[i] == 0xfc || b[i] == 0xfd || b[i] == 0xfe) && b[i+1] < 0x80 {
						pos = append(pos, i)
					}
				}
				if len(pos) > 0 {
					i := pos[r.Intn(len(pos))]
					o := splice(b, i+1, 1, []byte{b[i+1] | 0x80, 0x00})
					return fixBodySizes(o, w, bi, 1), fmt.Sprintf("prefixed-opcode-padded:%02x", b[i])
				}
			}
		case 0: // bit flip inside a LEB field
			if f, ok := pickField(func(Field) bool { return true }); ok {
				out = append([]byte{}, b...)
				out[f.Pos+r.Intn(f.Len)] ^= 1 << uint(r.Intn(8))
				return out, "leb-bitflip:" + f.Kind
			}
		case 1, 2: // count/size inflation (with or without size fix-up)
			if f, ok := pickField(isCount); ok {
				v := interesting[r.Intn(len(interesting))]
				switch r.Intn(4) {
				case 0:
					v = f.Val + 1
				case 1:
					v = uint64(f.Remain) + 1
				case 2:
					if f.Val > 0 {
						v = f.Val - 1
					}
				}
				fix := r.Intn(2) == 0
				k := "count-inflate"
				if fix {
					k = "count-inflate-sizefix"
				}
				return replaceField(b, w, f, u32(v), fix), k + ":" + f.Kind
			}
		case 3: // non-canonical padding of a LEB field (up to 5 bytes legal, 6 illegal)
			if f, ok := pickField(func(f Field) bool { return !strings.HasPrefix(f.Kind, "constexpr-i") }); ok {
				n := f.Len + 1 + r.Intn(5-min(f.Len, 4))
				if r.Intn(6) == 0 {
					n = 6
				}
				return replaceField(b, w, f, padded(f.Val, n), r.Intn(4) > 0), "leb-pad:" + f.Kind
			}
		case 4: // index/limit field to an interesting value
			if f, ok := pickField(func(f Field) bool { return !isCount(f) }); ok {
				v := interesting[r.Intn(len(interesting))]
				return replaceField(b, w, f, u32(v), true), "field-set:" + f.Kind
			}
		case 5: // section swap / duplicate / remove / insert
			if len(w.Sections) > 0 {
				secBytes := func(s Section) []byte { return b[s.Start:min(s.End, len(b))] }
				i := r.Intn(len(w.Sections))
				s := w.Sections[i]
				switch r.Intn(5) {
				case 0:
					return splice(b, s.Start, s.End-s.Start, nil), fmt.Sprintf("section-remove:%d", s.ID)
				case 1:
					return splice(b, s.End, 0, secBytes(s)), fmt.Sprintf("section-duplicate:%d", s.ID)
				case 2:
					j := r.Intn(len(w.Sections))
					t := w.Sections[j]
					if i != j {
						lo, hi := s, t
						if lo.Start > hi.Start {
							lo, hi = hi, lo
						}
						var o []byte
						o = append(o, b[:lo.Start]...)
						o = append(o, secBytes(hi)...)
						o = append(o, b[lo.End:hi.Start]...)
						o = append(o, secBytes(lo)...)
						o = append(o, b[hi.End:]...)
						return o, fmt.Sprintf("section-swap:%d-%d", lo.ID, hi.ID)
					}
				case 3:
					id := byte(r.Intn(15))
					body := make([]byte, r.Intn(6))
					r.Read(body)
					ins := append([]byte{id}, u32(uint64(len(body)))...)
					ins = append(ins, body...)
					return splice(b, s.Start, 0, ins), fmt.Sprintf("section-insert:%d", id)
				case 4:
					if len(other) > 8 {
						ow := WalkModule(other)
						if len(ow.Sections) > 0 {
							t := ow.Sections[r.Intn(len(ow.Sections))]
							return splice(b, s.Start, s.End-s.Start, other[t.Start:min(t.End, len(other))]), fmt.Sprintf("section-splice:%d<-%d", s.ID, t.ID)
						}
					}
				}
			}
		case 6: // truncate
			if len(b) > 9 {
				return append([]byte{}, b[:8+r.Intn(len(b)-8)]...), "truncate"
			}
		case 7, 8, 9: // opcode substitution inside a function body
			if len(w.Bodies) > 0 {
				bd := w.Bodies[r.Intn(len(w.Bodies))]
				if bd[1] > bd[0] {
					out = append([]byte{}, b...)
					n := 1 + r.Intn(2)
					for k := 0; k < n; k++ {
						out[bd[0]+r.Intn(bd[1]-bd[0])] = opcodeAlphabet[r.Intn(len(opcodeAlphabet))]
					}
					return out, "opcode-subst"
				}
			}
		case 10: // the final end: remove it, duplicate it, or put bytes after it (size fields fixed up)
			if len(w.Bodies) > 0 {
				bi := r.Intn(len(w.Bodies))
				bd := w.Bodies[bi]
				var bodySize Field
				n := -1
				for _, f := range w.Fields {
					if f.Kind == "code-body-size" {
						n++
						if n == bi {
							bodySize = f
						}
					}
				}
				if bodySize.Len > 0 && bd[1] > bd[0] {
					var repl []byte
					k := ""
					switch r.Intn(4) {
					case 0:
						repl, k = nil, "end-removed"
					case 1:
						repl, k = []byte{0x0b, 0x0b}, "end-doubled"
					case 2:
						repl, k = []byte{0x0b, opcodeAlphabet[r.Intn(len(opcodeAlphabet))], 0x0b}, "bytes-after-end"
					case 3:
						// an instruction with an immediate whose last byte is 0x0b, and no end after it
						imm := [][]byte{{0x41, 0x0b}, {0x20, 0x0b}, {0xfd, 0x15, 0x0b}, {0x10, 0x0b}, {0x0c, 0x0b}, {0x42, 0x0b}, {0x43, 0, 0, 0, 0x0b}, {0xfc, 0x0b}, {0x02, 0x0b}, {0x23, 0x0b}, {0x28, 0x00, 0x0b}}
						repl, k = imm[r.Intn(len(imm))], "immediate-0b-as-last-byte"
					}
					o := splice(b, bd[1]-1, 1, repl)
					delta := len(repl) - 1
					// fix the body size, then the section size (both precede the change)
					o = splice(o, bodySize.Pos, bodySize.Len, padded(uint64(int64(bodySize.Val)+int64(delta)), bodySize.Len))
					for _, s := range w.Sections {
						if s.ID == 10 {
							for _, f := range w.Fields {
								if f.Kind == "section-size" && f.Pos == s.SizePos {
									o = splice(o, f.Pos, f.Len, padded(uint64(int64(f.Val)+int64(delta)), f.Len))
								}
							}
						}
					}
					return o, k
				}
			}
		case 11: // byte flip anywhere
			if len(b) > 8 {
				out = append([]byte{}, b...)
				out[8+r.Intn(len(b)-8)] ^= 1 << uint(r.Intn(8))
				return out, "byte-bitflip"
			}
		case 12: // random byte
			if len(b) > 8 {
				out = append([]byte{}, b...)
				out[8+r.Intn(len(b)-8)] = byte(r.Intn(256))
				return out, "byte-set"
			}
		case 13: // insert / delete
			if len(b) > 9 {
				p := 8 + r.Intn(len(b)-8)
				if r.Intn(2) == 0 {
					return splice(b, p, 1, nil), "byte-delete"
				}
				return splice(b, p, 0, []byte{byte(r.Intn(256))}), "byte-insert"
			}
		case 14: // locals: a modest inflation (the 2^30 case is the F3b witness; keep memory modest here)
			if f, ok := pickField(func(f Field) bool { return f.Kind == "locals-n" }); ok {
				v := []uint64{0, 1, 1000, 49999, 50000, 50001, 100000}[r.Intn(7)]
				return replaceField(b, w, f, u32(v), true), "locals-set"
			}
		case 15: // memarg / blocktype / immediates: set a random body byte to a LEB-ish boundary byte
			if len(w.Bodies) > 0 {
				bd := w.Bodies[r.Intn(len(w.Bodies))]
				if bd[1] > bd[0] {
					out = append([]byte{}, b...)
					out[bd[0]+r.Intn(bd[1]-bd[0])] = []byte{0x80, 0xff, 0x7f, 0x40, 0x0b, 0x05, 0x00}[r.Intn(7)]
					return out, "body-boundary-byte"
				}
			}
		}
	}
	out = append([]byte{}, b...)
	out = append(out, byte(r.Intn(256)))
	return out, "append-byte"
}

// rawBytes: the header followed by random section-shaped bytes.
func rawBytes(r *rand.Rand) []byte {
	out := append([]byte{}, header...)
	switch r.Intn(4) {
	case 0: // pure noise
		n := r.Intn(64)
		for i := 0; i < n; i++ {
			out = append(out, byte(r.Intn(256)))
		}
	default: // section-shaped noise: plausible ids, consistent small sizes, small bytes inside
		ns := 1 + r.Intn(5)
		for s := 0; s < ns; s++ {
			id := byte(r.Intn(14))
			n := r.Intn(12)
			body := make([]byte, n)
			for i := range body {
				switch r.Intn(3) {
				case 0:
					body[i] = byte(r.Intn(4))
				case 1:
					body[i] = []byte{0x60, 0x7f, 0x7e, 0x7d, 0x7c, 0x70, 0x0b, 0x41, 0x00, 0x01}[r.Intn(10)]
				default:
					body[i] = byte(r.Intn(256))
				}
			}
			out = append(out, id)
			if r.Intn(8) == 0 {
				out = append(out, u32(uint64(r.Intn(1<<uint(r.Intn(32)))))...)
			} else {
				out = append(out, u32(uint64(n))...)
			}
			out = append(out, body...)
		}
	}
	return out
}

// indexGrid: every index field of a module set to the size of its index space, one past it and 2^32-1;
// plus a start section naming every function index up to one past the end.  An index the validator
// fails to range-check reaches the engines, which index without checks.
func indexGrid(name string, b []byte, feat string) []*Case {
	w := WalkModule(b)
	if w.Err != "" {
		return nil
	}
	var out []*Case
	space := func(kind string) []uint64 {
		switch kind {
		case "start-index", "export-index-func", "element-funcidx":
			return []uint64{w.NFuncs}
		case "function-typeidx", "import-typeidx":
			return []uint64{w.NTypes}
		case "export-index-table", "element-tableidx":
			return []uint64{w.NTables}
		case "export-index-mem", "data-memidx":
			return []uint64{w.NMems}
		case "export-index-global":
			return []uint64{w.NGlobals}
		case "constexpr-index":
			return []uint64{w.NGlobals, w.NFuncs}
		}
		return nil
	}
	for _, f := range w.Fields {
		for _, n := range space(f.Kind) {
			for _, v := range []uint64{n, n + 1, 1<<32 - 1} {
				if v == f.Val {
					continue
				}
				out = append(out, mkCase(fmt.Sprintf("%s@%s=%d", name, f.Kind, v), "index-grid", feat, replaceField(b, w, f, u32(v), true), "index-at-bound:"+f.Kind))
			}
		}
	}
	// start sections
	hasStart := false
	insertAt := len(b)
	for _, s := range w.Sections {
		if s.ID == 8 {
			hasStart = true
		}
		if s.ID >= 9 && s.ID <= 11 && s.Start < insertAt {
			insertAt = s.Start
		}
	}
	if !hasStart {
		for v := uint64(0); v <= w.NFuncs+1 && v < 12; v++ {
			sec := append([]byte{8}, u32(uint64(len(u32(v))))...)
			sec = append(sec, u32(v)...)
			out = append(out, mkCase(fmt.Sprintf("%s+start=%d", name, v), "index-grid", feat, splice(b, insertAt, 0, sec), "start-section-inserted"))
		}
	}
	// PAIRS: two dangling indexes at once.  Each validator of a section may rely on "the other one has been checked" -
	// which holds only for the order in which the validators run (a start section naming an imported function whose
	// type index is out of range is looked at before the imports are).  (a) every index field at its bound x an
	// inserted start section naming every function; (b) pairs of index fields, both at their bound (capped per module).
	var idx []Field
	for _, f := range w.Fields {
		if len(space(f.Kind)) > 0 {
			idx = append(idx, f)
		}
	}
	if !hasStart {
		for _, f := range idx {
			n := space(f.Kind)[0]
			if n == f.Val {
				continue
			}
			mb := replaceField(b, w, f, u32(n), true)
			mw := WalkModule(mb)
			if mw.Err != "" {
				continue
			}
			at := len(mb)
			for _, sc := range mw.Sections {
				if sc.ID >= 9 && sc.ID <= 11 && sc.Start < at {
					at = sc.Start
				}
			}
			for v := uint64(0); v < w.NFuncs && v < 6; v++ {
				sec := append([]byte{8}, u32(uint64(len(u32(v))))...)
				sec = append(sec, u32(v)...)
				out = append(out, mkCase(fmt.Sprintf("%s@%s=%d+start=%d", name, f.Kind, n, v), "index-grid", feat, splice(mb, at, 0, sec), "index-at-bound:"+f.Kind+"+start-section-inserted"))
			}
		}
	}
	pairs := 0
	for i := 0; i < len(idx) && pairs < 60; i++ {
		for j := i + 1; j < len(idx) && pairs < 60; j++ {
			f1, f2 := idx[i], idx[j]
			n1, n2 := space(f1.Kind)[0], space(f2.Kind)[0]
			if n1 == f1.Val || n2 == f2.Val || f1.Kind == f2.Kind && (i+j)%3 != 0 {
				continue
			}
			// the later field first, so that the earlier one's position is still valid
			mb := replaceField(b, w, f2, u32(n2), true)
			mw := WalkModule(mb)
			if mw.Err != "" {
				continue
			}
			var g *Field
			for k := range mw.Fields {
				if mw.Fields[k].Kind == f1.Kind && mw.Fields[k].Pos == f1.Pos {
					g = &mw.Fields[k]
				}
			}
			if g == nil {
				continue
			}
			out = append(out, mkCase(fmt.Sprintf("%s@%s=%d@%s=%d", name, f1.Kind, n1, f2.Kind, n2), "index-grid", feat, replaceField(mb, mw, *g, u32(n1), true), "index-pair-at-bound:"+f1.Kind+"+"+f2.Kind))
			pairs++
		}
	}
	return out
}

func pickFeat(r *rand.Rand) string {
	switch k := r.Intn(12); {
	case k == 10:
		return []string{"v1b", "v1r", "v1m"}[r.Intn(3)]
	case k == 11:
		return "v1b"
	case k < 2:
		return "v1"
	case k < 7:
		return "v2"
	}
	return "v2x"
}

// tooManyLocals filters inputs of the recorded F3b shape after it has been seen (each costs seconds and
// gigabytes; the finding is already on record for this run).
func tooManyLocals(b []byte) bool { return WalkModule(b).MaxLocal > 1<<22 }

func fuzz(r *rand.Rand, par, n int, only string) {
	total := 6000
	if hx.Thorough() {
		total = 250000
	}
	if n > 0 {
		total = n
	}
	small, big := loadSeeds(r, 400+total/20)
	var cases []*Case
	add := func(c *Case) {
		if tooManyLocals(c.bin) {
			rep.Count("skipped:declares-over-2^22-locals(F3b-shape)")
			return
		}
		cases = append(cases, c)
	}
	if only != "fuzz" {
		// by-construction-valid modules: must be accepted under v2 and v2x by both engines
		ngen := total / 5
		for i := 0; i < ngen; i++ {
			bin, ext := genSeedAny(r, i)
			note := "valid"
			if i%3 == 0 {
				// custom sections may appear anywhere after the header, with any name and any payload - including none
				name := []string{"foo", "", "producers", ".debug_info", ".debug_line", "a.b"}[r.Intn(6)]
				payload := make([]byte, []int{0, 0, 1, 7}[r.Intn(4)])
				sec := append([]byte{0}, u32(uint64(1+len(name)+len(payload)))...)
				sec = append(append(append(sec, byte(len(name))), name...), payload...)
				bin = append(append([]byte{}, bin...), sec...) // as the LAST section of the module
				note = fmt.Sprintf("valid + trailing custom section %q with %d payload bytes", name, len(payload))
			}
			feat := []string{"v2", "v2x"}[i%2]
			if ext {
				feat = "v2x"
			}
			c := mkCase(fmt.Sprintf("gen-%d", i), "gen-valid", feat, bin, note)
			c.MustAccept = true
			add(c)
		}
	}
	if only != "fuzz" {
		for i, nc := range nameSectionModules() {
			c := mkCase(fmt.Sprintf("name-section-%d", i), "name-section", []string{"v2", "v2x"}[i%2], nc.bin, nc.note)
			c.MustAccept = true
			add(c)
		}
	}
	if only != "fuzz" {
		// invalid-by-construction modules: must be rejected
		for i, iv := range invalidByConstruction() {
			c := mkCase(fmt.Sprintf("invalid-%d", i), "invalid-by-construction", iv.feat, iv.bin, iv.rule)
			c.MustReject = true
			c.Mode = "compile"
			add(c)
		}
	}
	if only != "fuzz" {
		// every instruction wazero knows in live code, each in TWO functions of one module (per-function state of a
		// back end that survives into the next function): must be accepted and compiled by both engines
		for _, n := range []int{1, 2} {
			ab, _ := allops.ModuleCopies(n)
			c := mkCase(fmt.Sprintf("allops-x%d", n), "allops", "v2x", ab, "all-instructions")
			c.MustAccept = true
			add(c)
		}
	}
	if only != "fuzz" {
		// every instruction x valid immediates in unreachable code: must be accepted and compiled, then called
		per := 40
		for i, dc := range deadCodeModules(per) {
			c := mkCase(fmt.Sprintf("dead-code-%d", i), "dead-code", dc.feat, dc.bin, dc.rule)
			c.MustAccept = true
			add(c)
		}
	}
	if only != "gen" {
		// unmutated repository modules (distribution baseline; big ones compile-only)
		for i, s := range small {
			if i%4 == 0 {
				add(mkCase(s.name, "repo-unmutated", "v2x", s.bin, "unmutated"))
			}
		}
		for _, s := range big {
			c := mkCase(s.name, "repo-unmutated-big", "v2x", s.bin, "unmutated")
			c.Mode = "compile"
			add(c)
		}
		// truncation at every offset of a few small modules
		ntr := 3
		if hx.Thorough() {
			ntr = 25
		}
		for k := 0; k < ntr; k++ {
			var b []byte
			name := ""
			if k%2 == 0 {
				_, b = genSeed(r)
				name = "gen"
			} else {
				s := small[r.Intn(len(small))]
				b, name = s.bin, s.name
			}
			if len(b) > 400 {
				b = b[:400]
			}
			for cut := 8; cut < len(b); cut++ {
				add(mkCase(fmt.Sprintf("%s[:%d]", name, cut), "truncate-every-offset", pickFeat(r), append([]byte{}, b[:cut]...), "truncate-at"))
			}
		}
		// index boundary grid over a few modules
		ngrid := 12
		if hx.Thorough() {
			ngrid = 150
		}
		for k := 0; k < ngrid; k++ {
			if k%2 == 0 {
				_, b := genSeed(r)
				for _, c := range indexGrid(fmt.Sprintf("gen%d", k), b, []string{"v2", "v2x"}[k/2%2]) {
					add(c)
				}
			} else {
				s := small[r.Intn(len(small))]
				if len(s.bin) > 2048 {
					continue
				}
				for _, c := range indexGrid(s.name, s.bin, "v2x") {
					add(c)
				}
			}
		}
		for i := 0; i < total; i++ {
			switch k := r.Intn(10); {
			case k == 0:
				add(mkCase(fmt.Sprintf("raw-%d", i), "raw-bytes", pickFeat(r), rawBytes(r), "raw"))
			case k <= 4:
				_, bin := genSeed(r)
				_, other := genSeed(r)
				out, kind := mutate(r, bin, other)
				if r.Intn(5) == 0 {
					out, _ = mutate(r, out, other)
					kind += "+2"
				}
				add(mkCase(fmt.Sprintf("genmut-%d", i), "mutated-gen", pickFeat(r), out, kind))
			default:
				s := small[r.Intn(len(small))]
				o := small[r.Intn(len(small))]
				out, kind := mutate(r, s.bin, o.bin)
				if r.Intn(5) == 0 {
					out, _ = mutate(r, out, o.bin)
					kind += "+2"
				}
				add(mkCase(fmt.Sprintf("%s#%d", s.name, i), "mutated-repo", pickFeat(r), out, kind))
			}
		}
	}
	for _, c := range cases {
		k := c.Note
		if i := strings.Index(k, ":"); i > 0 {
			k = k[:i]
		}
		rep.Count("mutation:" + k)
	}
	runCases(cases, par)
	if len(cases) > 0 {
		rep.Sample(map[string]any{"first_case": cases[0].Name, "hex": cases[0].Hex[:min(len(cases[0].Hex), 120)], "note": cases[0].Note})
	}
}
