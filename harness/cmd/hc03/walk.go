package main

// A tolerant structural walker over the WebAssembly binary format, independent of wazero's decoder.
// It records every LEB128 field it can locate (section sizes, vector counts, byte-vector sizes, indices,
// limits, locals) with its position, so that the mutators can aim at them and so that a disproportionate
// allocation can be attributed to the field that asked for it.

import "fmt"

type Field struct {
	Pos, Len int    // position and byte length of the LEB128 encoding
	Kind     string // e.g. "section-size", "type-count", "code-body-size", "locals-n", "name-len"
	Val      uint64
	Remain   int // bytes of input after the field
	Elem     int // approximate bytes allocated per unit by the decoder BEFORE reading the elements (0 = none)
}

type Section struct {
	ID           byte
	Start        int // position of the id byte
	SizePos      int
	Content, End int // content range [Content, End) as declared (clamped to the input)
	Declared     uint64
}

type Walk struct {
	b        []byte
	Fields   []Field
	Sections []Section
	Bodies   [][2]int // [start,end) of function bodies (after the locals) in the input
	MaxLocal uint64   // largest declared local count of one function
	Err      string
	// sizes of the index spaces (imports included)
	NTypes, NFuncs, NTables, NMems, NGlobals, NElems, NDatas uint64
}

type walkErr string

func (w *Walk) u32(p *int, kind string, elem int) uint64 {
	var v uint64
	var s uint
	start := *p
	for i := 0; i < 5; i++ {
		if *p >= len(w.b) {
			panic(walkErr("eof in " + kind))
		}
		c := w.b[*p]
		*p++
		v |= uint64(c&0x7f) << s
		s += 7
		if c < 0x80 {
			w.Fields = append(w.Fields, Field{Pos: start, Len: *p - start, Kind: kind, Val: v & 0xffffffff, Remain: len(w.b) - *p, Elem: elem})
			return v & 0xffffffff
		}
	}
	panic(walkErr("leb overflow in " + kind))
}

func (w *Walk) sleb(p *int, kind string, maxLen int) {
	start := *p
	for i := 0; i < maxLen; i++ {
		if *p >= len(w.b) {
			panic(walkErr("eof in " + kind))
		}
		c := w.b[*p]
		*p++
		if c < 0x80 {
			w.Fields = append(w.Fields, Field{Pos: start, Len: *p - start, Kind: kind, Remain: len(w.b) - *p})
			return
		}
	}
	panic(walkErr("leb overflow in " + kind))
}

func (w *Walk) byte1(p *int, what string) byte {
	if *p >= len(w.b) {
		panic(walkErr("eof in " + what))
	}
	c := w.b[*p]
	*p++
	return c
}

func (w *Walk) skip(p *int, n uint64, what string) {
	if uint64(len(w.b)-*p) < n {
		panic(walkErr("eof in " + what))
	}
	*p += int(n)
}

func (w *Walk) name(p *int, kind string) {
	n := w.u32(p, kind, 1)
	w.skip(p, n, kind)
}

func (w *Walk) limits(p *int, kind string) {
	f := w.byte1(p, kind)
	w.u32(p, kind+"-min", 0)
	if f&1 == 1 {
		w.u32(p, kind+"-max", 0)
	}
}

func (w *Walk) constExpr(p *int) {
	op := w.byte1(p, "constexpr")
	switch op {
	case 0x41:
		w.sleb(p, "constexpr-i32", 5)
	case 0x42:
		w.sleb(p, "constexpr-i64", 10)
	case 0x43:
		w.skip(p, 4, "constexpr")
	case 0x44:
		w.skip(p, 8, "constexpr")
	case 0x23, 0xd2:
		w.u32(p, "constexpr-index", 0)
	case 0xd0:
		w.skip(p, 1, "constexpr")
	case 0xfd:
		w.skip(p, 17, "constexpr")
	default:
		panic(walkErr("constexpr opcode"))
	}
	if w.byte1(p, "constexpr-end") != 0x0b {
		panic(walkErr("constexpr end"))
	}
}

func (w *Walk) section(id byte, p *int, end int) {
	switch id {
	case 1:
		n := w.u32(p, "type-count", 96)
		w.NTypes = n
		for i := uint64(0); i < n; i++ {
			w.byte1(p, "type-form")
			k := w.u32(p, "type-params", 1)
			w.skip(p, k, "type-params")
			k = w.u32(p, "type-results", 1)
			w.skip(p, k, "type-results")
		}
	case 2:
		n := w.u32(p, "import-count", 136)
		for i := uint64(0); i < n; i++ {
			w.name(p, "import-module-len")
			w.name(p, "import-name-len")
			switch w.byte1(p, "import-kind") {
			case 0:
				w.u32(p, "import-typeidx", 0)
				w.NFuncs++
			case 1:
				w.byte1(p, "reftype")
				w.limits(p, "import-table")
				w.NTables++
			case 2:
				w.limits(p, "import-mem")
				w.NMems++
			case 3:
				w.skip(p, 2, "import-global")
				w.NGlobals++
			default:
				panic(walkErr("import kind"))
			}
		}
	case 3:
		n := w.u32(p, "function-count", 4)
		w.NFuncs += n
		for i := uint64(0); i < n; i++ {
			w.u32(p, "function-typeidx", 0)
		}
	case 4:
		n := w.u32(p, "table-count", 32)
		w.NTables += n
		for i := uint64(0); i < n; i++ {
			w.byte1(p, "reftype")
			w.limits(p, "table")
		}
	case 5:
		n := w.u32(p, "memory-count", 0)
		w.NMems += n
		for i := uint64(0); i < n; i++ {
			w.limits(p, "mem")
		}
	case 6:
		n := w.u32(p, "global-count", 48)
		w.NGlobals += n
		for i := uint64(0); i < n; i++ {
			w.skip(p, 2, "globaltype")
			w.constExpr(p)
		}
	case 7:
		n := w.u32(p, "export-count", 40)
		for i := uint64(0); i < n; i++ {
			w.name(p, "export-name-len")
			k := w.byte1(p, "export-kind")
			w.u32(p, "export-index-"+[]string{"func", "table", "mem", "global", "other"}[min(int(k), 4)], 0)
		}
	case 8:
		w.u32(p, "start-index", 0)
	case 9:
		n := w.u32(p, "element-count", 80)
		w.NElems = n
		for i := uint64(0); i < n; i++ {
			prefix := w.u32(p, "element-prefix", 0)
			if prefix > 7 {
				panic(walkErr("element prefix"))
			}
			if prefix == 2 || prefix == 6 {
				w.u32(p, "element-tableidx", 0)
			}
			if prefix&1 == 0 {
				w.constExpr(p)
			}
			if prefix == 1 || prefix == 2 || prefix == 3 || prefix == 5 || prefix == 6 || prefix == 7 {
				w.byte1(p, "elemkind")
			}
			k := w.u32(p, "element-init-count", 4)
			for j := uint64(0); j < k; j++ {
				if prefix < 4 {
					w.u32(p, "element-funcidx", 0)
				} else {
					w.constExpr(p)
				}
			}
		}
	case 10:
		n := w.u32(p, "code-count", 64)
		for i := uint64(0); i < n; i++ {
			sz := w.u32(p, "code-body-size", 1)
			bodyEnd := *p + int(sz)
			groups := w.u32(p, "locals-groups", 0)
			var total uint64
			for j := uint64(0); j < groups; j++ {
				total += w.u32(p, "locals-n", 1)
				w.byte1(p, "local-type")
			}
			if total > w.MaxLocal {
				w.MaxLocal = total
			}
			if bodyEnd > len(w.b) || bodyEnd < *p {
				panic(walkErr("eof in code body"))
			}
			w.Bodies = append(w.Bodies, [2]int{*p, bodyEnd})
			*p = bodyEnd
		}
	case 11:
		n := w.u32(p, "data-count", 64)
		w.NDatas = n
		for i := uint64(0); i < n; i++ {
			prefix := w.u32(p, "data-prefix", 0)
			if prefix == 2 {
				w.u32(p, "data-memidx", 0)
			}
			if prefix == 0 || prefix == 2 {
				w.constExpr(p)
			} else if prefix != 1 {
				panic(walkErr("data prefix"))
			}
			k := w.u32(p, "data-init-size", 1)
			w.skip(p, k, "data-init")
		}
	case 12:
		w.u32(p, "datacount", 0)
	case 0:
		start := *p
		w.name(p, "custom-name-len")
		nm := string(w.b[start+w.Fields[len(w.Fields)-1].Len : *p])
		if nm == "name" {
			for *p < end {
				sub := w.byte1(p, "name-subsection-id")
				ssz := w.u32(p, "name-subsection-size", 0)
				se := *p + int(ssz)
				switch sub {
				case 0:
					w.name(p, "name-module-len")
				case 1:
					n := w.u32(p, "name-func-count", 24)
					for i := uint64(0); i < n; i++ {
						w.u32(p, "name-func-index", 0)
						w.name(p, "name-func-len")
					}
				case 2:
					n := w.u32(p, "name-local-func-count", 32)
					for i := uint64(0); i < n; i++ {
						w.u32(p, "name-local-func-index", 0)
						k := w.u32(p, "name-local-count", 24)
						for j := uint64(0); j < k; j++ {
							w.u32(p, "name-local-index", 0)
							w.name(p, "name-local-len")
						}
					}
				default:
					if se > len(w.b) || se < *p {
						panic(walkErr("eof in name subsection"))
					}
					*p = se
				}
			}
		} else {
			*p = end
		}
	default:
		panic(walkErr("section id"))
	}
}

// WalkModule parses as much as it can; w.Err says where it stopped ("" = whole input consistent).
func WalkModule(b []byte) (w *Walk) {
	w = &Walk{b: b}
	defer func() {
		if r := recover(); r != nil {
			if e, ok := r.(walkErr); ok {
				w.Err = string(e)
				return
			}
			w.Err = fmt.Sprint("walker fault: ", r)
		}
	}()
	if len(b) < 8 || string(b[:4]) != "\x00asm" || string(b[4:8]) != "\x01\x00\x00\x00" {
		w.Err = "header"
		return
	}
	p := 8
	for p < len(b) {
		start := p
		id := w.byte1(&p, "section-id")
		sizePos := p
		// the custom section's payload is allocated as one block when custom sections are kept
		elem := 0
		if id == 0 {
			elem = 1
		}
		sz := w.u32(&p, "section-size", elem)
		end := p + int(sz)
		cl := end
		if cl > len(b) || cl < p {
			cl = len(b)
		}
		w.Sections = append(w.Sections, Section{ID: id, Start: start, SizePos: sizePos, Content: p, End: cl, Declared: sz})
		q := p
		w.section(id, &q, cl)
		if q != end {
			panic(walkErr(fmt.Sprintf("section %d size mismatch", id)))
		}
		p = end
	}
	return
}

// blame returns the field that asks for the largest allocation not backed by input bytes
// (value*elem > remaining input), or nil.
func (w *Walk) blame() *Field {
	var best *Field
	var bestAmt uint64
	for i := range w.Fields {
		f := &w.Fields[i]
		if f.Elem == 0 || f.Val <= uint64(f.Remain) {
			continue
		}
		amt := f.Val * uint64(f.Elem)
		if amt > bestAmt {
			best, bestAmt = f, amt
		}
	}
	return best
}
