package main

// Child mode of hc03: the process that touches the real decoder, validator and engines.  It reads one
// JSON request per line on stdin and answers one JSON line on stdout.  It sets its own RLIMIT_AS so that
// a disproportionate allocation is a fast, deterministic `fatal error: runtime: out of memory` of THIS
// process (observed by the parent as a crash) instead of memory pressure on the machine.

import (
	"bufio"
	"bytes"
	"context"
	"encoding/hex"
	"encoding/json"
	"fmt"
	"os"
	"runtime"
	"runtime/debug"
	"sort"
	"strings"
	"syscall"
	"time"

	"github.com/tetratelabs/wazero"
	"github.com/tetratelabs/wazero/api"
	"github.com/tetratelabs/wazero/experimental"
	"github.com/tetratelabs/wazero/internal/leb128"
	"github.com/tetratelabs/wazero/internal/testing/binaryencoding"
	"github.com/tetratelabs/wazero/internal/wasm"
	wbin "github.com/tetratelabs/wazero/internal/wasm/binary"
)

const (
	memLimitPages = 512 // 32 MiB: instantiation of accepted modules stays small
	maxTableMin   = 1 << 20
)

type Req struct {
	ID   int    `json:"id"`
	Feat string `json:"feat"` // v1 | v2 | v2x
	Hex  string `json:"hex"`
	// Mode: "full" (decode + both engines + instantiate + calls), "compile" (no instantiation),
	// "decode" (DecodeModule only), "validate" (decode+validate through the interpreter config only)
	Mode     string `json:"mode"`
	CallMs   int    `json:"call_ms"`   // per-call timeout
	BudgetMs int    `json:"budget_ms"` // per-engine budget for instantiate+calls
	MaxCalls int    `json:"max_calls"`
	Rot      int    `json:"rot"`    // rotation of the export list
	ASMiB    int    `json:"as_mib"` // soft RLIMIT_AS for this and later cases (0 = default 4096)
}

type Stage struct {
	OK    bool   `json:"ok"`
	Err   string `json:"err,omitempty"`
	Panic string `json:"panic,omitempty"`
	Alloc uint64 `json:"alloc"`
	Ns    int64  `json:"ns"`
}

type EngRes struct {
	Name     string   `json:"name"`
	Compile  Stage    `json:"compile"`
	Inst     string   `json:"inst,omitempty"`     // ok | skip:<why> | err:<text> | timeout
	Calls    []string `json:"calls,omitempty"`    // "<status> <export name>": status is the first word (no spaces)
	Internal []string `json:"internal,omitempty"` // internal failures seen (panic text, runtime error …)
}

type Resp struct {
	ID       int      `json:"id"`
	Decode   Stage    `json:"decode"`
	Validate *Stage   `json:"validate,omitempty"`
	Sections []uint32 `json:"sections,omitempty"` // element count per section id 0..12 of the decoded module
	MaxLocal uint64   `json:"max_locals,omitempty"`
	Eng      []EngRes `json:"eng"`
}

func featuresOf(s string) api.CoreFeatures {
	switch s {
	case "v1":
		return api.CoreFeaturesV1
	case "v2":
		return api.CoreFeaturesV2
	case "v1b": // one proposal on top of 1.0: features also come one at a time
		return api.CoreFeaturesV1 | api.CoreFeatureBulkMemoryOperations
	case "v1r":
		return api.CoreFeaturesV1 | api.CoreFeatureReferenceTypes
	case "v1m":
		return api.CoreFeaturesV1 | api.CoreFeatureMultiValue | api.CoreFeatureSignExtensionOps | api.CoreFeatureNonTrappingFloatToIntConversion
	}
	return api.CoreFeaturesV2 | experimental.CoreFeaturesThreads | experimental.CoreFeaturesTailCall
}

func totalAlloc() uint64 {
	var ms runtime.MemStats
	runtime.ReadMemStats(&ms)
	return ms.TotalAlloc
}

func measure(f func() error) (st Stage) {
	a0, t0 := totalAlloc(), time.Now()
	func() {
		defer func() {
			if r := recover(); r != nil {
				st.Panic = fmt.Sprintf("%v\n%s", r, trimStack(debug.Stack()))
			}
		}()
		if err := f(); err != nil {
			st.Err = err.Error()
		} else {
			st.OK = true
		}
	}()
	st.Ns = time.Since(t0).Nanoseconds()
	st.Alloc = totalAlloc() - a0
	if st.Panic != "" {
		st.OK = false
	}
	if len(st.Err) > 600 {
		st.Err = st.Err[:600]
	}
	return
}

func trimStack(b []byte) string {
	lines := strings.Split(string(b), "\n")
	var keep []string
	for _, l := range lines {
		isFrame := strings.Contains(l, "wazero/") && !strings.Contains(l, "verifharness")
		isLoc := strings.Contains(l, ".go:") && !strings.Contains(l, "/src/runtime/") && !strings.Contains(l, "/cmd/hc03/") && len(keep) > 0 && !strings.Contains(keep[len(keep)-1], ".go:")
		if isFrame || isLoc {
			keep = append(keep, strings.TrimSpace(l))
		}
		if len(keep) >= 12 {
			break
		}
	}
	return strings.Join(keep, " | ")
}

func childMain() {
	// address-space limit: a huge make() fails at once with a Go fatal error
	hard := uint64(6) << 30
	setAS := func(mib int) {
		if mib <= 0 {
			mib = 4096
		}
		_ = syscall.Setrlimit(syscall.RLIMIT_AS, &syscall.Rlimit{Cur: uint64(mib) << 20, Max: hard})
	}
	setAS(0)
	debug.SetMemoryLimit(3 << 30)
	in := bufio.NewReaderSize(os.Stdin, 1<<20)
	out := bufio.NewWriter(os.Stdout)
	for {
		line, err := in.ReadBytes('\n')
		if len(line) == 0 && err != nil {
			return
		}
		var rq Req
		if e := json.Unmarshal(line, &rq); e != nil {
			fmt.Fprintf(os.Stderr, "child: bad request: %v\n", e)
			os.Exit(3)
		}
		bin, e := hex.DecodeString(rq.Hex)
		if e != nil {
			fmt.Fprintf(os.Stderr, "child: bad hex: %v\n", e)
			os.Exit(3)
		}
		fmt.Fprintf(os.Stderr, "case %d feat=%s mode=%s len=%d\n", rq.ID, rq.Feat, rq.Mode, len(bin))
		setAS(rq.ASMiB)
		rs := runCase(&rq, bin)
		b, _ := json.Marshal(rs)
		out.Write(b)
		out.WriteByte('\n')
		out.Flush()
		if err != nil {
			return
		}
	}
}

func runCase(rq *Req, bin []byte) *Resp {
	rs := &Resp{ID: rq.ID}
	feat := featuresOf(rq.Feat)
	var dm *wasm.Module
	rs.Decode = measure(func() error {
		m, err := wbin.DecodeModule(bin, feat, memLimitPages, false, true, false)
		dm = m
		return err
	})
	if dm != nil && rs.Decode.OK {
		for id := byte(0); id <= 11; id++ {
			rs.Sections = append(rs.Sections, dm.SectionElementCount(id))
		}
		for i := range dm.CodeSection {
			if n := uint64(len(dm.CodeSection[i].LocalTypes)); n > rs.MaxLocal {
				rs.MaxLocal = n
			}
		}
	}
	if rq.Mode == "decode" {
		return rs
	}
	if rs.Decode.OK {
		// Module.Validate on its own copy: tells validation errors from engine (lowering) errors
		if m2, err := wbin.DecodeModule(bin, feat, memLimitPages, false, true, false); err == nil {
			st := measure(func() error { return m2.Validate(feat) })
			rs.Validate = &st
		}
	}
	ctx := context.Background()
	type eng struct {
		name string
		rc   wazero.RuntimeConfig
	}
	engs := []eng{{"interpreter", wazero.NewRuntimeConfigInterpreter()}}
	if rq.Mode != "validate" {
		engs = append(engs, eng{"compiler", wazero.NewRuntimeConfigCompiler()})
	}
	for _, e := range engs {
		er := EngRes{Name: e.name}
		rc := e.rc.WithCoreFeatures(feat).WithMemoryLimitPages(memLimitPages).WithCloseOnContextDone(true)
		rt := wazero.NewRuntimeWithConfig(ctx, rc)
		var cm wazero.CompiledModule
		er.Compile = measure(func() error {
			c, err := rt.CompileModule(ctx, bin)
			cm = c
			return err
		})
		if er.Compile.Panic != "" {
			er.Internal = append(er.Internal, "compile-panic: "+er.Compile.Panic)
		}
		if er.Compile.OK && rq.Mode == "full" && dm != nil {
			exercise(ctx, rq, rt, cm, dm, &er)
		}
		func() {
			defer func() {
				if r := recover(); r != nil {
					er.Internal = append(er.Internal, fmt.Sprintf("close-panic: %v", r))
				}
			}()
			rt.Close(ctx)
		}()
		rs.Eng = append(rs.Eng, er)
	}
	return rs
}

// internalText reports whether an error text shows an internal failure of the runtime (as opposed to a
// WebAssembly trap, a link error or a cancelled call).
func internalText(s string) bool {
	return strings.Contains(s, "runtime error:") || strings.Contains(s, "(recovered by wazero)") ||
		strings.Contains(s, "BUG") || strings.Contains(s, "invalid memory address")
}

func firstLine(s string) string {
	s = strings.SplitN(s, "\n", 2)[0]
	if len(s) > 200 {
		s = s[:200]
	}
	return s
}

func hostOK(t wasm.ValueType) bool {
	return t == wasm.ValueTypeI32 || t == wasm.ValueTypeI64 || t == wasm.ValueTypeF32 || t == wasm.ValueTypeF64 || t == wasm.ValueTypeExternref
}

func zeroConst(t wasm.ValueType) []byte {
	switch t {
	case wasm.ValueTypeI32:
		return []byte{wasm.OpcodeI32Const, 0}
	case wasm.ValueTypeI64:
		return []byte{wasm.OpcodeI64Const, 0}
	case wasm.ValueTypeF32:
		return []byte{wasm.OpcodeF32Const, 0, 0, 0, 0}
	case wasm.ValueTypeF64:
		return []byte{wasm.OpcodeF64Const, 0, 0, 0, 0, 0, 0, 0, 0}
	case wasm.ValueTypeV128:
		return append([]byte{wasm.OpcodeVecPrefix, wasm.OpcodeVecV128Const}, make([]byte, 16)...)
	case wasm.ValueTypeFuncref:
		return []byte{wasm.OpcodeRefNull, wasm.RefTypeFuncref}
	default:
		return []byte{wasm.OpcodeRefNull, wasm.RefTypeExternref}
	}
}

func zeroConstExpr(t wasm.ValueType) wasm.ConstantExpression {
	b := zeroConst(t)
	if t == wasm.ValueTypeV128 {
		return wasm.ConstantExpression{Opcode: wasm.OpcodeVecV128Const, Data: b[2:]}
	}
	return wasm.ConstantExpression{Opcode: b[0], Data: b[1:]}
}

// provide instantiates, for every module name imported by dm, a module exporting what dm imports:
// Go stubs (WithGoModuleFunction) when the group consists of functions over host-representable types,
// otherwise a generated WebAssembly module (functions returning zeros, memories/tables/globals of the
// imported types).  Returns "" or the reason why the imports cannot be satisfied.
func provide(ctx context.Context, rt wazero.Runtime, dm *wasm.Module, preferWasm bool) string {
	groups := map[string][]*wasm.Import{}
	var names []string
	for i := range dm.ImportSection {
		im := &dm.ImportSection[i]
		if _, ok := groups[im.Module]; !ok {
			names = append(names, im.Module)
		}
		groups[im.Module] = append(groups[im.Module], im)
	}
	sort.Strings(names)
	for _, mod := range names {
		ims := groups[mod]
		goOnly := !preferWasm
		seen := map[string]string{}
		var uniq []*wasm.Import
		for _, im := range ims {
			desc := fmt.Sprintf("%d/%v/%v/%v/%v", im.Type, im.DescFunc, im.DescTable, im.DescMem, im.DescGlobal)
			if im.Type == wasm.ExternTypeFunc {
				if int(im.DescFunc) >= len(dm.TypeSection) {
					return "import-type-index-out-of-range"
				}
				desc = "f/" + dm.TypeSection[im.DescFunc].String()
			}
			if d, ok := seen[im.Name]; ok {
				if d != desc {
					return "same-import-name-with-two-types"
				}
				continue
			}
			seen[im.Name] = desc
			uniq = append(uniq, im)
			if im.Type != wasm.ExternTypeFunc {
				goOnly = false
				continue
			}
			ft := &dm.TypeSection[im.DescFunc]
			for _, t := range append(append([]wasm.ValueType{}, ft.Params...), ft.Results...) {
				if !hostOK(t) {
					goOnly = false
				}
			}
		}
		if goOnly {
			hb := rt.NewHostModuleBuilder(mod)
			for _, im := range uniq {
				ft := &dm.TypeSection[im.DescFunc]
				nres := len(ft.Results)
				hb = hb.NewFunctionBuilder().WithGoModuleFunction(api.GoModuleFunc(func(_ context.Context, _ api.Module, stack []uint64) {
					for i := 0; i < nres && i < len(stack); i++ {
						stack[i] = 0
					}
				}), ft.Params, ft.Results).Export(im.Name)
			}
			if _, err := hb.Instantiate(ctx); err != nil {
				return "host-module: " + firstLine(err.Error())
			}
			continue
		}
		p := &wasm.Module{}
		nmem := 0
		for _, im := range uniq {
			switch im.Type {
			case wasm.ExternTypeFunc:
				ft := dm.TypeSection[im.DescFunc]
				p.TypeSection = append(p.TypeSection, wasm.FunctionType{Params: ft.Params, Results: ft.Results})
				var body []byte
				for _, r := range ft.Results {
					body = append(body, zeroConst(r)...)
				}
				body = append(body, wasm.OpcodeEnd)
				p.FunctionSection = append(p.FunctionSection, uint32(len(p.TypeSection)-1))
				p.CodeSection = append(p.CodeSection, wasm.Code{Body: body})
				p.ExportSection = append(p.ExportSection, wasm.Export{Name: im.Name, Type: wasm.ExternTypeFunc, Index: uint32(len(p.FunctionSection) - 1)})
			case wasm.ExternTypeMemory:
				if nmem > 0 || im.DescMem == nil {
					return "two-memory-imports-from-one-module"
				}
				nmem++
				mm := *im.DescMem
				p.MemorySection = &wasm.Memory{Min: mm.Min, Max: mm.Max, IsMaxEncoded: mm.IsMaxEncoded, IsShared: mm.IsShared}
				p.ExportSection = append(p.ExportSection, wasm.Export{Name: im.Name, Type: wasm.ExternTypeMemory, Index: 0})
			case wasm.ExternTypeTable:
				if im.DescTable.Min > maxTableMin {
					return "table-too-big-for-the-harness"
				}
				p.TableSection = append(p.TableSection, im.DescTable)
				p.ExportSection = append(p.ExportSection, wasm.Export{Name: im.Name, Type: wasm.ExternTypeTable, Index: uint32(len(p.TableSection) - 1)})
			case wasm.ExternTypeGlobal:
				p.GlobalSection = append(p.GlobalSection, wasm.Global{Type: im.DescGlobal, Init: zeroConstExpr(im.DescGlobal.ValType)})
				p.ExportSection = append(p.ExportSection, wasm.Export{Name: im.Name, Type: wasm.ExternTypeGlobal, Index: uint32(len(p.GlobalSection) - 1)})
			}
		}
		pb := binaryencoding.EncodeModule(p)
		ictx, cancel := context.WithTimeout(ctx, 5*time.Second)
		_, err := rt.InstantiateWithConfig(ictx, pb, wazero.NewModuleConfig().WithName(mod))
		cancel()
		if err != nil {
			return "provider-module: " + firstLine(err.Error())
		}
	}
	return ""
}

func argVectors(params []api.ValueType) [][]uint64 {
	zero := make([]uint64, len(params))
	bnd := make([]uint64, len(params))
	pat := []uint64{0xffffffff, 0x80000000, 1, 0x7fffffff, 65536}
	pat64 := []uint64{0xffffffffffffffff, 0x8000000000000000, 1, 0x7fffffffffffffff, 1 << 32}
	for i, p := range params {
		switch p {
		case api.ValueTypeI32:
			bnd[i] = pat[i%len(pat)]
		case api.ValueTypeI64:
			bnd[i] = pat64[i%len(pat64)]
		case api.ValueTypeF32:
			bnd[i] = 0x7fc00000 // NaN
		case api.ValueTypeF64:
			bnd[i] = 0x7ff8000000000000
		default:
			bnd[i] = 0
		}
	}
	if len(params) == 0 {
		return [][]uint64{zero}
	}
	return [][]uint64{zero, bnd}
}

// exercise instantiates an accepted module and calls its exports.
func exercise(ctx context.Context, rq *Req, rt wazero.Runtime, cm wazero.CompiledModule, dm *wasm.Module, er *EngRes) {
	defer func() {
		if r := recover(); r != nil {
			er.Internal = append(er.Internal, fmt.Sprintf("exercise-panic: %v | %s", r, trimStack(debug.Stack())))
		}
	}()
	for i := range dm.TableSection {
		if dm.TableSection[i].Min > maxTableMin {
			er.Inst = "skip:table-too-big-for-the-harness"
			return
		}
	}
	// A guest parked in memory.atomic.wait (timeout -1, nobody to notify) cannot be bounded by the call context:
	// MemoryInstance.wait listens to neither (finding F49, decided under C07).  That is not a statement about the
	// validator, so such modules are compiled on both engines but not run here.  The byte scan may also hit an
	// immediate that happens to read fe 01/02; the only cost is a skipped exercise.
	for i := range dm.CodeSection {
		b := dm.CodeSection[i].Body
		for k := 0; k+1 < len(b); k++ {
			if b[k] == wasm.OpcodeAtomicPrefix && (b[k+1] == wasm.OpcodeAtomicMemoryWait32 || b[k+1] == wasm.OpcodeAtomicMemoryWait64) {
				er.Inst = "skip:may-block-in-atomic-wait"
				return
			}
		}
	}
	if why := provide(ctx, rt, dm, rq.Rot%3 == 0); why != "" {
		er.Inst = "skip:" + why
		return
	}
	callTO := time.Duration(rq.CallMs) * time.Millisecond
	if callTO == 0 {
		callTO = 2 * time.Second
	}
	budget := time.Duration(rq.BudgetMs) * time.Millisecond
	if budget == 0 {
		budget = 8 * time.Second
	}
	start := time.Now()
	ictx, cancel := context.WithTimeout(ctx, callTO)
	mod, err := rt.InstantiateModule(ictx, cm, wazero.NewModuleConfig().WithName("m").WithStartFunctions())
	cancel()
	if err != nil {
		s := err.Error()
		switch {
		case internalText(s):
			er.Internal = append(er.Internal, "instantiate: "+firstLine(s))
			er.Inst = "err:internal"
		case strings.Contains(s, "context deadline") || strings.Contains(s, "module closed"):
			er.Inst = "timeout"
		default:
			er.Inst = "err:" + firstLine(s)
		}
		return
	}
	er.Inst = "ok"
	defs := cm.ExportedFunctions()
	var names []string
	for n := range defs {
		names = append(names, n)
	}
	sort.Strings(names)
	maxCalls := rq.MaxCalls
	if maxCalls == 0 {
		maxCalls = 24
	}
	if len(names) > 0 && rq.Rot > 0 {
		k := rq.Rot % len(names)
		names = append(names[k:], names[:k]...)
	}
	for ci, n := range names {
		if ci >= maxCalls || time.Since(start) > budget {
			er.Calls = append(er.Calls, "budget")
			break
		}
		var fn api.Function
		func() {
			defer func() {
				if r := recover(); r != nil {
					er.Internal = append(er.Internal, fmt.Sprintf("ExportedFunction(%q) panics: %v | %s", n, r, trimStack(debug.Stack())))
					er.Calls = append(er.Calls, "internal "+n)
				}
			}()
			fn = mod.ExportedFunction(n)
		}()
		if fn == nil && len(er.Internal) > 0 && strings.HasPrefix(er.Internal[len(er.Internal)-1], fmt.Sprintf("ExportedFunction(%q)", n)) {
			continue
		}
		if fn == nil {
			er.Internal = append(er.Internal, "exported function missing from instance: "+n)
			continue
		}
		closed := false
		for _, args := range argVectors(defs[n].ParamTypes()) {
			cctx, cancel := context.WithTimeout(ctx, callTO)
			res, err := fn.Call(cctx, args...)
			cancel()
			if err != nil {
				s := err.Error()
				switch {
				case internalText(s):
					er.Internal = append(er.Internal, fmt.Sprintf("call %s%v: %s", n, args, firstLine(s)))
					er.Calls = append(er.Calls, "internal "+n)
				case strings.Contains(s, "context deadline") || strings.Contains(s, "module closed") || strings.Contains(s, "context canceled"):
					er.Calls = append(er.Calls, "timeout "+n)
					closed = true
				default:
					er.Calls = append(er.Calls, "trap:"+trapWord(s)+" "+n)
				}
			} else {
				var sb bytes.Buffer
				rts := defs[n].ResultTypes()
				for k, v := range res {
					rt := api.ValueType(0)
					if k < len(rts) && len(rts) == len(res) {
						rt = rts[k]
					}
					if rt == api.ValueTypeI32 {
						v &= 0xffffffff
					}
					if rt == api.ValueTypeF32 {
						v &= 0xffffffff
						if v&0x7f800000 == 0x7f800000 && v&0x7fffff != 0 {
							v = 0x7fc00000
						}
					}
					if rt == api.ValueTypeF64 && v&0x7ff0000000000000 == 0x7ff0000000000000 && v&0xfffffffffffff != 0 {
						v = 0x7ff8000000000000
					}
					fmt.Fprintf(&sb, " %x", v)
				}
				er.Calls = append(er.Calls, "ok"+strings.ReplaceAll(sb.String(), " ", ",")+" "+n)
			}
			if closed {
				break
			}
		}
		if closed {
			er.Calls = append(er.Calls, "closed")
			break
		}
	}
}

func trapWord(s string) string {
	s = firstLine(s)
	for _, k := range []string{"unreachable", "integer divide by zero", "integer overflow", "invalid conversion to integer",
		"out of bounds memory access", "invalid table access", "indirect call type mismatch", "stack overflow",
		"unaligned atomic", "expected shared memory", "too many waiters", "exit_code"} {
		if strings.Contains(s, k) {
			return strings.ReplaceAll(k, " ", "-")
		}
	}
	return "other:" + s
}

var _ = leb128.EncodeUint32
