package main

// Tie B for the LEB128 model: the real decoders/encoders of internal/leb128 against the Lean model
// (oracle topic c03).  These are pure functions on small inputs; they run in-process.

import (
	"bytes"
	"encoding/hex"
	"fmt"
	"io"
	"math/rand"
	"strings"

	"github.com/tetratelabs/wazero/internal/leb128"
	"github.com/tetratelabs/wazero/verifharness/hx"
)

func errWord(err error) string {
	if err == nil {
		return ""
	}
	s := err.Error()
	if strings.Contains(s, "overflows") {
		return "overflow"
	}
	if strings.Contains(s, "EOF") || err == io.EOF {
		return "eof"
	}
	return "other:" + s
}

// realLEB returns the canonical answers of the real code for one byte string: the reader-based and the
// slice-based variants must agree with each other, too.
func realLEB(kind string, b []byte) (ans string, inconsistent string) {
	safe := func(f func() string) (s string) {
		defer func() {
			if r := recover(); r != nil {
				s = fmt.Sprintf("panic:%v", r)
			}
		}()
		return f()
	}
	var a1, a2 string
	switch kind {
	case "u32":
		a1 = safe(func() string {
			v, n, err := leb128.LoadUint32(b)
			if err != nil {
				return errWord(err)
			}
			return fmt.Sprintf("ok %d %d", v, n)
		})
		a2 = safe(func() string {
			v, n, err := leb128.DecodeUint32(bytes.NewReader(b))
			if err != nil {
				return errWord(err)
			}
			return fmt.Sprintf("ok %d %d", v, n)
		})
	case "u64":
		a1 = safe(func() string {
			v, n, err := leb128.LoadUint64(b)
			if err != nil {
				return errWord(err)
			}
			return fmt.Sprintf("ok %d %d", v, n)
		})
		a2 = a1
	case "i32":
		a1 = safe(func() string {
			v, n, err := leb128.LoadInt32(b)
			if err != nil {
				return errWord(err)
			}
			return fmt.Sprintf("ok %d %d", v, n)
		})
		a2 = safe(func() string {
			v, n, err := leb128.DecodeInt32(bytes.NewReader(b))
			if err != nil {
				return errWord(err)
			}
			return fmt.Sprintf("ok %d %d", v, n)
		})
	case "i64":
		a1 = safe(func() string {
			v, n, err := leb128.LoadInt64(b)
			if err != nil {
				return errWord(err)
			}
			return fmt.Sprintf("ok %d %d", v, n)
		})
		a2 = safe(func() string {
			v, n, err := leb128.DecodeInt64(bytes.NewReader(b))
			if err != nil {
				return errWord(err)
			}
			return fmt.Sprintf("ok %d %d", v, n)
		})
	case "i33":
		a1 = safe(func() string {
			v, n, err := leb128.DecodeInt33AsInt64(bytes.NewReader(b))
			if err != nil {
				return errWord(err)
			}
			return fmt.Sprintf("ok %d %d", v, n)
		})
		a2 = a1
	}
	if a1 != a2 {
		inconsistent = fmt.Sprintf("Load=%s Decode=%s", a1, a2)
	}
	return a1, inconsistent
}

var lebKinds = []string{"u32", "u64", "i32", "i64", "i33"}

func hexDecode(s string) ([]byte, error) { return hex.DecodeString(s) }

func hexOrDash(b []byte) string {
	if len(b) == 0 {
		return "-"
	}
	return hex.EncodeToString(b)
}

func lebBatch(kind string, batch [][]byte) {
	if len(batch) == 0 {
		return
	}
	var sb strings.Builder
	sb.WriteString("c03 lebs " + kind)
	for _, b := range batch {
		sb.WriteByte(' ')
		sb.WriteString(hexOrDash(b))
	}
	model := strings.Split(orc.Ask(sb.String()), ";")
	if len(model) != len(batch) {
		hx.Fatal("oracle lebs: %d answers for %d inputs", len(model), len(batch))
	}
	for i, b := range batch {
		real, inc := realLEB(kind, b)
		rep.Case("leb/" + kind + "/" + hexOrDash(b))
		w := strings.Fields(real)[0]
		if strings.HasPrefix(real, "ok") {
			w = "ok-" + strings.Fields(real)[2] + "-bytes"
		}
		rep.Count("leb:" + kind + ":" + w)
		in := map[string]string{"kind": kind, "hex": hexOrDash(b)}
		if strings.HasPrefix(real, "panic") {
			rep.Violate(hx.Violation{Kind: "impl-violation", Signature: "C03:leb-decoder-panics:" + kind, What: "LEB128 decoder panicked: " + real, Input: in, Expected: model[i], Actual: real})
		} else if inc != "" {
			rep.Violate(hx.Violation{Kind: "correspondence", Signature: "C03:leb-load-vs-decode-differ:" + kind, What: "slice-based and reader-based decoders disagree: " + inc, Input: in, Expected: model[i], Actual: inc})
		} else if real != model[i] {
			rep.Violate(hx.Violation{Kind: "correspondence", Signature: "C03:leb-model-differs:" + kind, What: fmt.Sprintf("leb128 %s(%s): code %q, Lean model %q", kind, hexOrDash(b), real, model[i]), Input: in, Expected: model[i], Actual: real})
		}
	}
}

func tieLEB(r *rand.Rand) {
	var inputs [][]byte
	// exhaustive: the empty string, all 1- and 2-byte strings
	inputs = append(inputs, []byte{})
	for a := 0; a < 256; a++ {
		inputs = append(inputs, []byte{byte(a)})
		for b := 0; b < 256; b++ {
			inputs = append(inputs, []byte{byte(a), byte(b)})
		}
	}
	// boundary: k-1 continuation bytes of a few shapes, then EVERY last byte, k around 5 and 10; plus a suffix
	shapes := []func(i int) byte{
		func(int) byte { return 0x80 }, func(int) byte { return 0xff }, func(int) byte { return 0x81 },
		func(i int) byte { return 0x80 | byte(i*37) }, func(int) byte { return 0xc0 }, func(int) byte { return 0xbf },
	}
	for _, k := range []int{3, 4, 5, 6, 7, 9, 10, 11, 12} {
		for _, sh := range shapes {
			for last := 0; last < 256; last++ {
				b := make([]byte, 0, k+1)
				for i := 0; i < k-1; i++ {
					b = append(b, sh(i))
				}
				b = append(b, byte(last))
				inputs = append(inputs, b)
				if last%16 == 0 {
					inputs = append(inputs, append(append([]byte{}, b...), 0x00, 0xff))
				}
			}
		}
	}
	// unbounded continuation runs (the signed decoders loop until a terminator or the end of input)
	for _, n := range []int{13, 64, 1000} {
		run := bytes.Repeat([]byte{0x80}, n)
		inputs = append(inputs, run, append(append([]byte{}, run...), 0x00), append(append([]byte{}, run...), 0x7f))
	}
	// random strings
	nr := 20000
	if hx.Thorough() {
		nr = 300000
	}
	for i := 0; i < nr; i++ {
		n := 1 + r.Intn(12)
		b := make([]byte, n)
		for j := range b {
			switch r.Intn(4) {
			case 0:
				b[j] = byte(r.Intn(256))
			case 1:
				b[j] = 0x80 | byte(r.Intn(128))
			case 2:
				b[j] = []byte{0x00, 0x7f, 0x80, 0xff, 0x40, 0x3f, 0x0f, 0x10, 0x01, 0x02, 0x70, 0x4f}[r.Intn(12)]
			default:
				b[j] = byte(r.Intn(128))
			}
		}
		inputs = append(inputs, b)
	}
	for _, kind := range lebKinds {
		for i := 0; i < len(inputs); i += 200 {
			lebBatch(kind, inputs[i:min(i+200, len(inputs))])
		}
	}
	// encoders: model encoding = real encoding, and decoding the real encoding (+ suffix) gives the value back
	var us []uint64
	var ss []int64
	for s := uint(0); s < 64; s++ {
		for _, d := range []int64{-2, -1, 0, 1} {
			us = append(us, uint64(int64(1)<<s+d))
			ss = append(ss, int64(1)<<s+d, -(int64(1)<<s)+d)
		}
	}
	for i := 0; i < nr/10; i++ {
		v := r.Uint64() >> uint(r.Intn(64))
		us = append(us, v)
		ss = append(ss, int64(v), -int64(v))
	}
	for _, v := range us {
		real := hexOrDash(leb128.EncodeUint64(v))
		model := orc.Askf("c03 enc u %d", v)
		rep.Case(fmt.Sprintf("enc/u/%d", v))
		rep.Count("enc:u")
		if real != model {
			rep.Violate(hx.Violation{Kind: "correspondence", Signature: "C03:leb-encoder-model-differs:u", What: fmt.Sprintf("EncodeUint64(%d): code %s, model %s", v, real, model), Input: v, Expected: model, Actual: real})
		}
		if v <= 0xffffffff {
			if r32 := hexOrDash(leb128.EncodeUint32(uint32(v))); r32 != model {
				rep.Violate(hx.Violation{Kind: "correspondence", Signature: "C03:leb-encoder-model-differs:u32", What: fmt.Sprintf("EncodeUint32(%d): code %s, model %s", v, r32, model), Input: v, Expected: model, Actual: r32})
			}
			enc := append(leb128.EncodeUint32(uint32(v)), 0x80, 0x01)
			got, n, err := leb128.LoadUint32(enc)
			if err != nil || uint64(got) != v || int(n) != len(enc)-2 {
				rep.Violate(hx.Violation{Kind: "impl-violation", Signature: "C03:leb-roundtrip-fails:u32", What: fmt.Sprintf("LoadUint32(EncodeUint32(%d)++suffix) = %d,%d,%v", v, got, n, err), Input: v})
			}
		}
		enc := append(leb128.EncodeUint64(v), 0xff)
		got, n, err := leb128.LoadUint64(enc)
		if err != nil || got != v || int(n) != len(enc)-1 {
			rep.Violate(hx.Violation{Kind: "impl-violation", Signature: "C03:leb-roundtrip-fails:u64", What: fmt.Sprintf("LoadUint64(EncodeUint64(%d)++suffix) = %d,%d,%v", v, got, n, err), Input: v})
		}
	}
	for _, v := range ss {
		real := hexOrDash(leb128.EncodeInt64(v))
		model := orc.Askf("c03 enc s %d", v)
		rep.Case(fmt.Sprintf("enc/s/%d", v))
		rep.Count("enc:s")
		if real != model {
			rep.Violate(hx.Violation{Kind: "correspondence", Signature: "C03:leb-encoder-model-differs:s", What: fmt.Sprintf("EncodeInt64(%d): code %s, model %s", v, real, model), Input: v, Expected: model, Actual: real})
		}
		enc := append(leb128.EncodeInt64(v), 0x80)
		got, n, err := leb128.LoadInt64(enc)
		if err != nil || got != v || int(n) != len(enc)-1 {
			rep.Violate(hx.Violation{Kind: "impl-violation", Signature: "C03:leb-roundtrip-fails:i64", What: fmt.Sprintf("LoadInt64(EncodeInt64(%d)++suffix) = %d,%d,%v", v, got, n, err), Input: v})
		}
		if v >= -(1<<31) && v < 1<<31 {
			enc := append(leb128.EncodeInt32(int32(v)), 0x80)
			got, n, err := leb128.LoadInt32(enc)
			if err != nil || int64(got) != v || int(n) != len(enc)-1 {
				rep.Violate(hx.Violation{Kind: "impl-violation", Signature: "C03:leb-roundtrip-fails:i32", What: fmt.Sprintf("LoadInt32(EncodeInt32(%d)++suffix) = %d,%d,%v", v, got, n, err), Input: v})
			}
		}
		if v >= -(1<<32) && v < 1<<32 {
			enc := append(leb128.EncodeInt64(v), 0x80)
			got, n, err := leb128.DecodeInt33AsInt64(bytes.NewReader(enc))
			if err != nil || got != v || int(n) != len(enc)-1 {
				rep.Violate(hx.Violation{Kind: "impl-violation", Signature: "C03:leb-roundtrip-fails:i33", What: fmt.Sprintf("DecodeInt33AsInt64(EncodeInt64(%d)++suffix) = %d,%d,%v", v, got, n, err), Input: v})
			}
		}
	}
}
