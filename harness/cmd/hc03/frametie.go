package main

// Tie B for the framing / pre-allocation model (Lean `Wz.Model.Frame`, oracle op `c03 frame`).

import (
	"fmt"
	"strconv"
	"strings"

	"github.com/tetratelabs/wazero/verifharness/hx"
)

// variantAsIs: which variant of the model the code under test matches (finding switch F3a), decided by
// replaying the 15-byte witness at start-up.
var variantAsIs bool

const f3aWitnessHex = "0061736d0100000001058080808001"

func probeVariant() {
	c := &Case{Name: "F3a-probe", Stream: "probe", Feat: "v2", Hex: f3aWitnessHex, Mode: "decode"}
	c.bin = mustHex(c.Hex)
	o := pool.Alone(c.req("decode"), deadlineAlone(len(c.bin)))
	switch {
	case o.Crash == "exit" && crashClass(o.Stderr) == "out-of-memory":
		variantAsIs = true
	case o.Crash != "":
		hx.Fatal("F3a probe: child %s: %s", o.Crash, o.Stderr)
	case o.Resp.Decode.Alloc > allocBound(len(c.bin)):
		variantAsIs = true
	}
	if variantAsIs {
		rep.Count("frame-variant:as-is(F3a present)")
		rep.Note("finding switch F3a: the decoder reserves the declared count (witness reproduces) - Lean variant `asIs` is the one tied to the code; `alloc_proportional` holds for the repaired variant only")
	} else {
		rep.Count("frame-variant:capped(F3a repaired)")
		rep.Note("finding switch F3a: the witness no longer over-allocates - Lean variant `capped` is tied to the code and `alloc_proportional` is the discharged obligation for it")
	}
}

func mustHex(s string) []byte {
	b, err := hexDecode(strings.ReplaceAll(s, " ", ""))
	if err != nil {
		hx.Fatal("bad hex %q", s)
	}
	return b
}

var vectorIDs = map[int]bool{1: true, 2: true, 3: true, 4: true, 5: true, 6: true, 7: true, 9: true, 10: true, 11: true}

func tieFrame(c *Case, o Outcome) {
	if len(c.bin) > 8192 || c.Stream == "probe" {
		return
	}
	ans := orc.Ask("c03 frame " + hexOrDash(c.bin))
	f := strings.SplitN(ans, " ", 5)
	if len(f) != 5 {
		hx.Fatal("oracle frame answer %q", ans)
	}
	verdict := f[0]
	stopID, _ := strconv.Atoi(f[3])
	allocAsIs, _ := strconv.ParseUint(f[1], 10, 64)
	allocCapped, _ := strconv.ParseUint(f[2], 10, 64)
	rep.Count("frame-model:" + verdict)
	in := map[string]any{"name": c.Name, "feat": c.Feat, "hex": c.Hex}
	if allocCapped > 3*uint64(len(c.bin)) {
		// cannot happen (theorem alloc_proportional); kept as a cross-check of oracle vs proof
		rep.Violate(hx.Violation{Kind: "correspondence", Signature: "C03:frame-model-capped-exceeds-proved-bound", What: ans, Input: in})
	}
	if o.Resp == nil {
		return
	}
	real := o.Resp.Decode
	if verdict != "ok" && real.OK {
		rep.Violate(hx.Violation{Kind: "correspondence", Signature: "C03:frame-model-rejects-what-decoder-accepts:" + verdict,
			What: "the framing model stops with `" + verdict + "` but DecodeModule accepted the input", Input: in, Expected: ans, Actual: "decoded"})
		return
	}
	// sections the model walked
	last := map[int]uint64{}
	walked := map[int]bool{}
	times := map[int]int{}
	lastID := -1
	body := strings.Trim(f[4], "[]")
	if body != "" {
		for _, s := range strings.Split(body, ",") {
			p := strings.Split(s, ":")
			if len(p) != 3 {
				hx.Fatal("oracle frame section %q", s)
			}
			id, _ := strconv.Atoi(p[0])
			cnt, _ := strconv.ParseUint(p[2], 10, 64)
			last[id] = cnt
			walked[id] = true
			times[id]++
			lastID = id
		}
	}
	if real.OK {
		// same sections, same counts (last occurrence of an id wins in the decoder)
		for id := 1; id <= 11; id++ {
			if !vectorIDs[id] || id >= len(o.Resp.Sections) {
				continue
			}
			if uint64(o.Resp.Sections[id]) != last[id] {
				rep.Violate(hx.Violation{Kind: "correspondence", Signature: fmt.Sprintf("C03:frame-model-count-differs:section-%d", id),
					What: fmt.Sprintf("section %d: decoder has %d elements, framing model read count %d", id, o.Resp.Sections[id], last[id]), Input: in, Expected: ans, Actual: o.Resp.Sections})
			}
		}
		rep.Count("frame-tie:sections-compared")
		return
	}
	// the decoder rejected: the section it blames must be one the model walked, or the one where the
	// model stops (the model only stops where the decoder cannot succeed once it gets there)
	rid := realErrorSection(real.Err)
	if rid >= 0 {
		rep.Count("frame-tie:reject-section-compared")
		if !walked[rid] && rid != stopID {
			rep.Violate(hx.Violation{Kind: "correspondence", Signature: fmt.Sprintf("C03:frame-model-never-reaches-failing-section:%d", rid),
				What: fmt.Sprintf("DecodeModule fails in section %d (%s) but the framing model never gets there: %s", rid, firstLine(real.Err), ans), Input: in, Expected: ans, Actual: real.Err})
		}
	}
	// the reservation the tied variant predicts must show in the measured allocation when the decoder
	// failed in the very section that asks for it
	// (the table section checks `count > 1` against the reference-types feature before it allocates)
	// (and only when that section id occurs once, so that the decoder's failing section IS that one)
	if variantAsIs && rid >= 0 && rid == stopID && rid == lastID && times[rid] == 1 && last[rid] >= 1<<24 && vectorIDs[rid] && rid != 5 && !(rid == 4 && c.Feat == "v1") {
		rep.Count("frame-tie:huge-reservation-predicted")
		if real.Alloc < last[rid] {
			rep.Violate(hx.Violation{Kind: "correspondence", Signature: "C03:frame-model-asIs-predicts-reservation-not-observed",
				What: fmt.Sprintf("model (as-is) reserves %d units in section %d, decoder allocated only %d bytes", last[rid], rid, real.Alloc), Input: in, Expected: ans, Actual: real.Alloc})
		}
	}
	_ = allocAsIs
}

var sectionNames = map[string]int{"custom": 0, "type": 1, "import": 2, "function": 3, "table": 4, "memory": 5, "global": 6,
	"export": 7, "start": 8, "element": 9, "code": 10, "data": 11, "data_count": 12}

// realErrorSection maps a DecodeModule error to the id of the section it was raised in (-1 = unknown).
func realErrorSection(e string) int {
	switch {
	case strings.HasPrefix(e, "section "):
		w := strings.SplitN(strings.TrimPrefix(e, "section "), ":", 2)[0]
		if id, ok := sectionNames[w]; ok {
			return id
		}
	case strings.HasPrefix(e, "import["):
		return 2
	case strings.HasPrefix(e, "global["):
		return 6
	case strings.HasPrefix(e, "get size of section "):
		w := strings.SplitN(strings.TrimPrefix(e, "get size of section "), ":", 2)[0]
		if id, ok := sectionNames[w]; ok {
			return id
		}
	}
	return -1
}
