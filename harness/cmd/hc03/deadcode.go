package main

// Stream "dead-code": EVERY instruction wazero knows, with a grid of VALID immediates (in particular immediates
// whose bytes read as opcodes: 0x02 block, 0x03 loop, 0x04 if, 0x05 else, 0x0b end, 0x0c-0x0f branches, 0x10/0x11
// calls, 0x40, 0xfc-0xfe prefixes), placed in UNREACHABLE code - after `unreachable`, after a taken `br`, after
// `return`, after `br_table`.  Unreachable code is stack-polymorphic, so each of these modules is valid and MUST
// be accepted and compiled by both engines (C03: total and sound on every input; "accepts exactly the valid
// modules"); the functions are then called (those that continue after the dead code must return 7).  Decoders
// and both compilers have separate code paths for skipping dead code; an immediate that is stepped over one byte
// short is decoded as an instruction there and nowhere else.

import (
	"fmt"

	"github.com/tetratelabs/wazero/internal/leb128"
	"github.com/tetratelabs/wazero/internal/wasm"
	"github.com/tetratelabs/wazero/verifharness/memcat"
	"github.com/tetratelabs/wazero/verifharness/wb"
)

type insVariant struct {
	name     string
	enc      []byte
	voidOnly bool // only valid in a function without results (tail calls)
}

// index-like immediates: small values and the ones that read as structure / control opcodes
var dcIdx = []uint32{0, 1, 2, 3, 4, 5, 0x0b, 0x0c, 0x0d, 0x0e, 0x0f, 0x10, 0x11}

const (
	dcNumFuncsCtx = 18 // context functions 0..17 of type 0 (so that 0x0b..0x11 are valid function indexes)
	dcNumGlobals  = 18
	dcNumTypes    = 18
	dcNumLocals   = 32
	dcNumTables   = 6
	dcNumSegs     = 18
	dcDepth       = 5
)

func u32s(vs ...uint32) []byte {
	var b []byte
	for _, v := range vs {
		b = append(b, leb128.EncodeUint32(v)...)
	}
	return b
}

func allInstructionVariants() []insVariant {
	var out []insVariant
	add := func(name string, enc ...[]byte) {
		out = append(out, insVariant{name: name, enc: wb.Cat(enc...)})
	}
	addVoid := func(name string, enc ...[]byte) {
		out = append(out, insVariant{name: name, enc: wb.Cat(enc...), voidOnly: true})
	}
	offsets := []uint32{0, 2, 3, 4, 5, 0x0b, 0x0c, 0x0e, 0x0f, 0x10, 0x11, 0x40, 0x058b, 0xffffffff}
	memargs := func(natural uint32, exact bool) [][]byte {
		var ms [][]byte
		for i, off := range offsets {
			al := natural
			if !exact {
				al = uint32(i) % (natural + 1)
			}
			ms = append(ms, u32s(al, off))
		}
		return ms
	}
	un := []byte{wasm.OpcodeUnreachable}
	blocktypes := [][]byte{{0x40}, {wasm.ValueTypeI32}, {wasm.ValueTypeI64}, {wasm.ValueTypeF32}, {wasm.ValueTypeF64}, {wasm.ValueTypeV128}, {wasm.RefTypeFuncref}, {wasm.RefTypeExternref},
		u32s(0), u32s(1), u32s(2), u32s(3), u32s(0x0b), u32s(0x0c), u32s(0x0f), u32s(0x10), u32s(0x11)}

	// ---- single-byte opcodes
	for op := 0; op < 256; op++ {
		o := byte(op)
		name := wasm.InstructionName(o)
		if name == "" {
			continue
		}
		switch {
		case o == wasm.OpcodeElse || o == wasm.OpcodeEnd:
			// structure, exercised by every other entry
		case o == wasm.OpcodeBlock || o == wasm.OpcodeLoop:
			for _, bt := range blocktypes {
				add(fmt.Sprintf("%s bt=%x", name, bt), []byte{o}, bt, un, []byte{wasm.OpcodeEnd})
			}
		case o == wasm.OpcodeIf:
			for _, bt := range blocktypes {
				add(fmt.Sprintf("if bt=%x", bt), []byte{o}, bt, un, []byte{wasm.OpcodeElse}, un, []byte{wasm.OpcodeEnd})
				if len(bt) == 1 && (bt[0] == 0x40 || bt[0] == 0) { // without else: parameters must equal results
					add(fmt.Sprintf("if-without-else bt=%x", bt), []byte{o}, bt, un, []byte{wasm.OpcodeEnd})
				}
			}
		case o == wasm.OpcodeBr || o == wasm.OpcodeBrIf:
			for l := uint32(0); l <= dcDepth; l++ {
				add(fmt.Sprintf("%s %d", name, l), []byte{o}, u32s(l))
			}
		case o == wasm.OpcodeBrTable:
			for _, t := range [][]uint32{{}, {0}, {5, 4, 3, 2, 1, 0}, {2, 3, 4, 5, 2, 3, 4, 5, 2, 3, 4}, {1, 1, 1, 1, 1, 1, 1, 1, 1, 1, 1, 1}} {
				for _, d := range []uint32{0, 2, 5} {
					// all targets of a br_table must have the same arity (also in dead code): the function label
					// (depth 5) differs from the blocks' in a function with a result
					fl := d == dcDepth
					for _, l := range t {
						fl = fl || l == dcDepth
					}
					if fl {
						addVoid(fmt.Sprintf("br_table %v %d", t, d), []byte{o}, u32s(uint32(len(t))), u32s(t...), u32s(d))
					} else {
						add(fmt.Sprintf("br_table %v %d", t, d), []byte{o}, u32s(uint32(len(t))), u32s(t...), u32s(d))
					}
				}
			}
		case o == wasm.OpcodeCall || o == wasm.OpcodeRefFunc:
			for _, f := range dcIdx {
				add(fmt.Sprintf("%s %d", name, f), []byte{o}, u32s(f))
			}
		case o == wasm.OpcodeCallIndirect:
			for i, t := range dcIdx {
				add(fmt.Sprintf("call_indirect type=%d table=%d", t, i%dcNumTables), []byte{o}, u32s(t, uint32(i%dcNumTables)))
			}
		case o == wasm.OpcodeTypedSelect:
			for _, t := range []byte{wasm.ValueTypeI32, wasm.ValueTypeI64, wasm.ValueTypeF32, wasm.ValueTypeF64, wasm.ValueTypeV128, wasm.RefTypeFuncref, wasm.RefTypeExternref} {
				add(fmt.Sprintf("select t=%x", t), []byte{o, 1, t})
			}
		case o == wasm.OpcodeLocalGet || o == wasm.OpcodeLocalSet || o == wasm.OpcodeLocalTee:
			for _, i := range append(append([]uint32{}, dcIdx...), dcNumLocals-1) {
				add(fmt.Sprintf("%s %d", name, i), []byte{o}, u32s(i))
			}
		case o == wasm.OpcodeGlobalGet || o == wasm.OpcodeGlobalSet:
			for _, i := range dcIdx {
				add(fmt.Sprintf("%s %d", name, i), []byte{o}, u32s(i))
			}
		case o == wasm.OpcodeTableGet || o == wasm.OpcodeTableSet:
			for t := uint32(0); t < dcNumTables; t++ {
				add(fmt.Sprintf("%s %d", name, t), []byte{o}, u32s(t))
			}
		case o >= wasm.OpcodeI32Load && o <= wasm.OpcodeI64Store32:
			nat := uint32(0)
			for _, m := range memcat.All() {
				if len(m.Enc) == 1 && m.Enc[0] == o {
					nat = m.Align
				}
			}
			for _, ma := range memargs(nat, false) {
				add(fmt.Sprintf("%s memarg=%x", name, ma), []byte{o}, ma)
			}
		case o == wasm.OpcodeMemorySize || o == wasm.OpcodeMemoryGrow:
			add(name, []byte{o, 0})
		case o == wasm.OpcodeI32Const:
			for _, v := range []int32{0, 1, 2, 3, 4, 5, 0x0b, 0x0c, 0x0f, 0x10, 0x11, 0x40, -1, 0x058b, 0x0b0b0b0b, -0x7bfdfcfb} {
				add(fmt.Sprintf("i32.const %d", v), wb.I32Const(v))
			}
		case o == wasm.OpcodeI64Const:
			for _, v := range []int64{0, 2, 3, 4, 5, 0x0b, 0x0c, 0x0f, 0x10, 0x11, 0x40, -1, 0x058b, 0x0b0b0b0b0b0b0b0b, -0x7bfdfcfb0a0b0c0d} {
				add(fmt.Sprintf("i64.const %d", v), wb.I64Const(v))
			}
		case o == wasm.OpcodeF32Const:
			for _, b := range [][]byte{{0, 0, 0, 0}, {0x0b, 0x0b, 0x0b, 0x0b}, {0x02, 0x40, 0x0b, 0x05}, {0xfd, 0xfc, 0xfe, 0x0c}, {0x03, 0x7f, 0x04, 0x7f}, {0x10, 0x11, 0x0e, 0x0f}} {
				add(fmt.Sprintf("f32.const %x", b), []byte{o}, b)
			}
		case o == wasm.OpcodeF64Const:
			for _, b := range [][]byte{{0, 0, 0, 0, 0, 0, 0, 0}, {0x0b, 0x0b, 0x0b, 0x0b, 0x0b, 0x0b, 0x0b, 0x0b}, {0x02, 0x40, 0x0b, 0x05, 0x04, 0x7f, 0x05, 0x0b}, {0xfd, 0xfc, 0xfe, 0x0c, 0x0d, 0x0e, 0x0f, 0x10}} {
				add(fmt.Sprintf("f64.const %x", b), []byte{o}, b)
			}
		case o == wasm.OpcodeRefNull:
			add("ref.null func", []byte{o, wasm.RefTypeFuncref})
			add("ref.null extern", []byte{o, wasm.RefTypeExternref})
		case o == wasm.OpcodeMiscPrefix || o == wasm.OpcodeVecPrefix || o == wasm.OpcodeAtomicPrefix:
			// below
		case o == wasm.OpcodeTailCallReturnCall:
			for _, f := range dcIdx {
				addVoid(fmt.Sprintf("return_call %d", f), []byte{o}, u32s(f))
			}
		case o == wasm.OpcodeTailCallReturnCallIndirect:
			for i := range dcIdx {
				addVoid(fmt.Sprintf("return_call_indirect type=0 table=%d", i%dcNumTables), []byte{o}, u32s(0, uint32(i%dcNumTables)))
			}
		default:
			add(name, []byte{o}) // no immediate
		}
	}
	// ---- 0xFC
	for op := 0; op < 256; op++ {
		o := byte(op)
		name := wasm.MiscInstructionName(o)
		if name == "" {
			continue
		}
		p := []byte{wasm.OpcodeMiscPrefix, o}
		switch o {
		case wasm.OpcodeMiscMemoryInit:
			for _, i := range dcIdx {
				add(fmt.Sprintf("%s %d", name, i), p, u32s(i), []byte{0})
			}
		case wasm.OpcodeMiscDataDrop, wasm.OpcodeMiscElemDrop:
			for _, i := range dcIdx {
				add(fmt.Sprintf("%s %d", name, i), p, u32s(i))
			}
		case wasm.OpcodeMiscMemoryCopy:
			add(name, p, []byte{0, 0})
		case wasm.OpcodeMiscMemoryFill:
			add(name, p, []byte{0})
		case wasm.OpcodeMiscTableInit:
			for i, e := range dcIdx {
				add(fmt.Sprintf("%s elem=%d table=%d", name, e, i%dcNumTables), p, u32s(e, uint32(i%dcNumTables)))
			}
		case wasm.OpcodeMiscTableCopy:
			for a := uint32(0); a < dcNumTables; a++ {
				add(fmt.Sprintf("%s %d %d", name, a, (a*5+2)%dcNumTables), p, u32s(a, (a*5+2)%dcNumTables))
			}
		case wasm.OpcodeMiscTableGrow, wasm.OpcodeMiscTableSize, wasm.OpcodeMiscTableFill:
			for t := uint32(0); t < dcNumTables; t++ {
				add(fmt.Sprintf("%s %d", name, t), p, u32s(t))
			}
		default:
			add(name, p)
		}
	}
	// ---- 0xFD
	lanesOf := map[byte]int{
		wasm.OpcodeVecI8x16ExtractLaneS: 16, wasm.OpcodeVecI8x16ExtractLaneU: 16, wasm.OpcodeVecI8x16ReplaceLane: 16,
		wasm.OpcodeVecI16x8ExtractLaneS: 8, wasm.OpcodeVecI16x8ExtractLaneU: 8, wasm.OpcodeVecI16x8ReplaceLane: 8,
		wasm.OpcodeVecI32x4ExtractLane: 4, wasm.OpcodeVecI32x4ReplaceLane: 4, wasm.OpcodeVecI64x2ExtractLane: 2, wasm.OpcodeVecI64x2ReplaceLane: 2,
		wasm.OpcodeVecF32x4ExtractLane: 4, wasm.OpcodeVecF32x4ReplaceLane: 4, wasm.OpcodeVecF64x2ExtractLane: 2, wasm.OpcodeVecF64x2ReplaceLane: 2,
	}
	vecMem := map[byte]memcat.Op{}
	for _, m := range memcat.All() {
		if len(m.Enc) == 2 && m.Enc[0] == wasm.OpcodeVecPrefix {
			vecMem[m.Enc[1]] = m
		}
	}
	for op := 0; op < 256; op++ {
		o := byte(op)
		name := wasm.VectorInstructionName(o)
		if name == "" {
			continue
		}
		p := []byte{wasm.OpcodeVecPrefix, o}
		switch {
		case o == wasm.OpcodeVecV128Load || o == wasm.OpcodeVecV128Store:
			for _, ma := range memargs(4, false) {
				add(fmt.Sprintf("%s memarg=%x", name, ma), p, ma)
			}
		case vecMem[o].Name != "":
			m := vecMem[o]
			if m.Kind == "vlload" || m.Kind == "vlstore" {
				n := 16 / m.W
				for i, ma := range memargs(m.Align, false) {
					add(fmt.Sprintf("%s memarg=%x lane=%d", name, ma, i%n), p, ma, []byte{byte(i % n)})
				}
				for l := 0; l < n; l++ { // every lane index
					add(fmt.Sprintf("%s lane=%d", name, l), p, u32s(0, 0), []byte{byte(l)})
				}
			} else {
				for _, ma := range memargs(m.Align, false) {
					add(fmt.Sprintf("%s memarg=%x", name, ma), p, ma)
				}
			}
		case o == wasm.OpcodeVecV128Const:
			for _, b := range [][]byte{make([]byte, 16), {0x0b, 0x0b, 0x0b, 0x0b, 0x0b, 0x0b, 0x0b, 0x0b, 0x0b, 0x0b, 0x0b, 0x0b, 0x0b, 0x0b, 0x0b, 0x0b},
				{0x02, 0x40, 0x03, 0x40, 0x04, 0x40, 0x05, 0x0b, 0x0c, 0x00, 0x0d, 0x00, 0x0e, 0x00, 0x0f, 0x10}, {0xfd, 0x0c, 0xfc, 0x08, 0xfe, 0x03, 0x10, 0x11, 0x12, 0x13, 0x1c, 0x20, 0x41, 0x42, 0x43, 0x44}} {
				add(fmt.Sprintf("v128.const %x", b), p, b)
			}
		case o == wasm.OpcodeVecV128i8x16Shuffle:
			for _, b := range [][]byte{make([]byte, 16), {0x0b, 0x0b, 0x0b, 0x0b, 0x0b, 0x0b, 0x0b, 0x0b, 0x0b, 0x0b, 0x0b, 0x0b, 0x0b, 0x0b, 0x0b, 0x0b},
				{2, 3, 4, 5, 0x0b, 0x0c, 0x0d, 0x0e, 0x0f, 0x10, 0x11, 0x12, 0x13, 0x1c, 0x1f, 0x1a}, {31, 30, 29, 28, 27, 26, 25, 24, 23, 22, 21, 20, 19, 18, 17, 16}} {
				add(fmt.Sprintf("i8x16.shuffle %x", b), p, b)
			}
		case lanesOf[o] > 0:
			for l := 0; l < lanesOf[o]; l++ {
				add(fmt.Sprintf("%s %d", name, l), p, []byte{byte(l)})
			}
		default:
			add(name, p)
		}
	}
	// ---- 0xFE
	for _, m := range memcat.All() {
		if !m.Atomic {
			continue
		}
		for _, ma := range memargs(m.Align, true) {
			add(fmt.Sprintf("%s memarg=%x", m.Name, ma), m.Enc, ma)
		}
	}
	for _, w := range []struct {
		op byte
		al uint32
	}{{wasm.OpcodeAtomicMemoryWait32, 2}, {wasm.OpcodeAtomicMemoryWait64, 3}} {
		for _, ma := range memargs(w.al, true) {
			add(fmt.Sprintf("%s memarg=%x", wasm.AtomicInstructionName(w.op), ma), []byte{wasm.OpcodeAtomicPrefix, w.op}, ma)
		}
	}
	add("atomic.fence", []byte{wasm.OpcodeAtomicPrefix, wasm.OpcodeAtomicFence, 0})
	return out
}

// deadCodeModules packs the variants into modules of `per` functions each; every variant appears in every
// placement its type allows.
func deadCodeModules(per int) []ivCase {
	vs := allInstructionVariants()
	type fn struct {
		body []byte
		res  bool
		note string
	}
	blocks := func(inner []byte) []byte {
		var b []byte
		for i := 0; i < dcDepth; i++ {
			b = append(b, wasm.OpcodeBlock, 0x40)
		}
		b = append(b, inner...)
		for i := 0; i < dcDepth; i++ {
			b = append(b, wasm.OpcodeEnd)
		}
		return b
	}
	un := []byte{wasm.OpcodeUnreachable}
	var fns []fn
	for _, v := range vs {
		fns = append(fns, fn{blocks(wb.Cat(un, v.enc, un)), false, "after-unreachable: " + v.name})
		fns = append(fns, fn{blocks(wb.Cat([]byte{wasm.OpcodeReturn}, v.enc, un)), false, "after-return: " + v.name})
		fns = append(fns, fn{blocks(wb.Cat(wb.I32Const(0), []byte{wasm.OpcodeBrTable, 2, 1, 2, 0}, v.enc, un)), false, "after-br_table: " + v.name})
		if !v.voidOnly {
			fns = append(fns, fn{wb.Cat(blocks(wb.Cat([]byte{wasm.OpcodeBr, dcDepth - 1}, v.enc, un)), wb.I32Const(7)), true, "after-br: " + v.name})
		}
	}
	var out []ivCase
	for c0 := 0; c0 < len(fns); c0 += per {
		part := fns[c0:min(c0+per, len(fns))]
		m := wb.New()
		// types 0..17: type 0 = ()->(), type 1 = ()->(i32), the rest distinct multi-value types (block types by index)
		m.TypeIdx(nil, nil)
		m.TypeIdx(nil, []byte{wb.I32})
		for k := 2; k < dcNumTypes; k++ {
			ps := make([]byte, k%4)
			for i := range ps {
				ps[i] = []byte{wb.I32, wb.I64, wb.F32, wb.F64}[(k+i)%4]
			}
			rs := make([]byte, k/4)
			for i := range rs {
				rs[i] = []byte{wb.I64, wb.F64, wb.I32, wasm.ValueTypeV128}[(k+i)%4]
			}
			if got := m.TypeIdx(ps, rs); got != uint32(k) {
				panic(fmt.Sprintf("dead-code: type %d deduplicated to %d", k, got))
			}
		}
		for k := 0; k < dcNumFuncsCtx; k++ {
			m.AddFunc(wb.Func{Export: fmt.Sprintf("ctx%d", k)}) // exported: may be the operand of ref.func
		}
		one := uint32(1)
		m.Memory(1, &one, false, "")
		for t := 0; t < dcNumTables; t++ {
			m.Table(4, nil)
		}
		for g := 0; g < dcNumGlobals; g++ {
			m.Global(32, uint64(g))
		}
		for s := 0; s < dcNumSegs; s++ {
			m.Data(true, 0, []byte{byte(s)})
		}
		var elems []wb.Elem
		for s := 0; s < dcNumSegs; s++ {
			elems = append(elems, wb.Elem{Passive: true, Init: []int64{int64(s % dcNumFuncsCtx)}})
		}
		locals := make([]byte, dcNumLocals)
		for i := range locals {
			locals[i] = wb.I32
		}
		for k, f := range part {
			var rs []byte
			if f.res {
				rs = []byte{wb.I32}
			}
			m.AddFunc(wb.Func{Results: rs, Locals: locals, Body: f.body, Export: fmt.Sprintf("d%d", k)})
		}
		out = append(out, ivCase{"dead-code", "v2x", m.BytesWithSegments(elems)})
	}
	return out
}
