package main

import "math/rand"

func tieValidator(r *rand.Rand, par int)   {}
func tieFrame(c *Case, o Outcome)          {}
