package main

// Name-section stream.  The custom "name" section is metadata: nothing validates its indices, so a module whose name
// section names functions (or locals) that do not exist is VALID and must compile, instantiate and run like the same
// module without it - in particular when its names are actually consulted: a trap builds a stack trace from the function
// definitions, and so do CompiledModule.ExportedFunctions / ImportedFunctions and function listeners.  Indices at and
// around the number of functions (count-1, count, count+1, 2*count, 2^32-1), alone and after a valid entry, in the
// function-name and the local-name subsections; each module exports a function that traps and one that returns.

import (
	"fmt"

	"github.com/tetratelabs/wazero/internal/wasm"
	"github.com/tetratelabs/wazero/verifharness/wb"
)

func nameSubsection(id byte, payload []byte) []byte {
	return append(append([]byte{id}, u32(uint64(len(payload)))...), payload...)
}

func nameStr(s string) []byte { return append(u32(uint64(len(s))), s...) }

func nameSection(fnIdx []uint32, localFn []uint32) []byte {
	var body []byte
	body = append(body, nameSubsection(0, nameStr("mod"))...)
	if len(fnIdx) > 0 {
		p := u32(uint64(len(fnIdx)))
		for _, i := range fnIdx {
			p = append(append(p, u32(uint64(i))...), nameStr(fmt.Sprintf("fn%d", i))...)
		}
		body = append(body, nameSubsection(1, p)...)
	}
	if len(localFn) > 0 {
		p := u32(uint64(len(localFn)))
		for _, i := range localFn {
			p = append(p, u32(uint64(i))...)
			p = append(p, u32(2)...) // two local names: index 0 and a local that does not exist
			p = append(append(p, u32(0)...), nameStr("x")...)
			p = append(append(p, u32(77)...), nameStr("ghost")...)
		}
		body = append(body, nameSubsection(2, p)...)
	}
	payload := append(nameStr("name"), body...)
	return append(append([]byte{0}, u32(uint64(len(payload)))...), payload...)
}

type nameCase struct {
	bin  []byte
	note string
}

func nameSectionModules() []nameCase {
	var out []nameCase
	for extra := 0; extra <= 2; extra++ {
		for imp := 0; imp <= 1; imp++ {
			m := wb.New()
			if imp == 1 {
				m.ImportFunc("env", "h", nil, nil)
			}
			m.AddFunc(wb.Func{Export: "trap", Body: wb.Op(wasm.OpcodeUnreachable)})
			m.AddFunc(wb.Func{Export: "ret", Params: []byte{wb.I32}, Results: []byte{wb.I32}, Body: wb.LocalGet(0)})
			for k := 0; k < extra; k++ {
				m.AddFunc(wb.Func{Body: wb.Op(wasm.OpcodeNop)})
			}
			base := m.Bytes()
			n := uint32(imp + 2 + extra)
			for _, idx := range []uint32{n - 1, n, n + 1, 2 * n, 0xffffffff} {
				for _, withFirst := range []bool{false, true} {
					fi := []uint32{idx}
					if withFirst && idx != 0 {
						fi = []uint32{0, idx}
					}
					out = append(out, nameCase{append(append([]byte{}, base...), nameSection(fi, nil)...),
						fmt.Sprintf("valid + name section naming function %d of %d (function names %v)", idx, n, fi)})
				}
				out = append(out, nameCase{append(append([]byte{}, base...), nameSection(nil, []uint32{idx})...),
					fmt.Sprintf("valid + name section with local names for function %d of %d", idx, n)})
			}
		}
	}
	return out
}
