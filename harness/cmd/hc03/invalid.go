package main

// Stream "invalid-by-construction": a catalogue of the specification's validation rules for function bodies, each
// instantiated over the value types, as minimal modules that violate exactly that rule.  Every one MUST be
// rejected by CompileModule on both engines (C03: "accepts exactly the valid modules").  The random mutation
// streams reach such shapes only by luck; a validator that is lenient for one shape (a type compared by count
// only, an arm that is not checked, a label arity that is not compared) shows up here.

import (
	"fmt"

	"github.com/tetratelabs/wazero/internal/wasm"
	"github.com/tetratelabs/wazero/verifharness/wb"
)

var ivTypes = []byte{wb.I32, wb.I64, wb.F32, wb.F64, wasm.ValueTypeV128}

func ivConst(t byte) []byte {
	switch t {
	case wb.I32:
		return wb.I32Const(1)
	case wb.I64:
		return wb.I64Const(1)
	case wb.F32:
		return []byte{wasm.OpcodeF32Const, 0, 0, 0x80, 0x3f}
	case wb.F64:
		return []byte{wasm.OpcodeF64Const, 0, 0, 0, 0, 0, 0, 0xf0, 0x3f}
	}
	return append([]byte{wasm.OpcodeVecPrefix, byte(wasm.OpcodeVecV128Const)}, make([]byte, 16)...)
}

func ivConsts(ts []byte) []byte {
	var b []byte
	for _, t := range ts {
		b = append(b, ivConst(t)...)
	}
	return b
}

func ivDrops(n int) []byte {
	b := make([]byte, n)
	for i := range b {
		b[i] = wasm.OpcodeDrop
	}
	return b
}

func tname(ts []byte) string {
	s := "["
	for i, t := range ts {
		if i > 0 {
			s += " "
		}
		s += wasm.ValueTypeName(t)
	}
	return s + "]"
}

// typeSeqs: all sequences over the value types of length 0, 1, and a sample of length 2
func typeSeqs() [][]byte {
	out := [][]byte{{}}
	for _, a := range ivTypes {
		out = append(out, []byte{a})
	}
	for i, a := range ivTypes {
		out = append(out, []byte{a, ivTypes[(i+1)%len(ivTypes)]}, []byte{a, a})
	}
	return out
}

type ivCase struct {
	rule, feat string
	bin        []byte
}

func same(a, b []byte) bool { return string(a) == string(b) }

// one function `f` with the given signature/locals/body, a memory and a table so that only the body decides
func ivModule(params, results, locals []byte, body func(m *wb.Mod) []byte) []byte {
	m := wb.New()
	one := uint32(1)
	m.Memory(1, &one, false, "memory")
	m.Table(1, &one)
	b := body(m)
	m.AddFunc(wb.Func{Params: params, Results: results, Locals: locals, Body: b, Export: "f"})
	return m.Bytes()
}

func blockType(m *wb.Mod, p, r []byte) []byte {
	if len(p) == 0 && len(r) == 0 {
		return []byte{0x40}
	}
	if len(p) == 0 && len(r) == 1 {
		return []byte{r[0]}
	}
	return wb.U32(m.TypeIdx(p, r)) // (indices below 64: one byte, also as s33)
}

// sec frames a section
func sec(id byte, payload ...[]byte) []byte {
	var p []byte
	for _, x := range payload {
		p = append(p, x...)
	}
	return append(append([]byte{id}, wb.U32(uint32(len(p)))...), p...)
}

// elemItemModules: element segments whose items are constant EXPRESSIONS (`global.get g`): the value of the global
// becomes a reference in a table / an element instance, so the global must be of the segment's reference type.  One
// module per (type of the global, segment form, segment reference type) with the types DIFFERENT.
func elemItemModules(add func(rule, feat string, bin []byte)) {
	inits := map[byte][]byte{
		wb.I32: {0x41, 0x2a, 0x0b}, wb.I64: {0x42, 0x2a, 0x0b}, wb.F32: {0x43, 0, 0, 0x80, 0x3f, 0x0b}, wb.F64: {0x44, 0, 0, 0, 0, 0, 0, 0xf0, 0x3f, 0x0b},
		wasm.ValueTypeV128:      append(append([]byte{0xfd, 0x0c}, make([]byte, 16)...), 0x0b),
		wasm.ValueTypeExternref: {0xd0, 0x6f, 0x0b}, wasm.ValueTypeFuncref: {0xd0, 0x70, 0x0b},
	}
	item := []byte{0x01, 0x23, 0x00, 0x0b} // vec(expr) = [global.get 0]
	off := []byte{0x41, 0x00, 0x0b}
	for gt, init := range inits {
		for _, rt := range []byte{wasm.RefTypeFuncref, wasm.RefTypeExternref} {
			if gt == rt {
				continue
			}
			forms := map[string][]byte{
				"passive":     wb.Cat([]byte{0x05, rt}, item),
				"declarative": wb.Cat([]byte{0x07, rt}, item),
				"active-6":    wb.Cat([]byte{0x06, 0x00}, off, []byte{rt}, item),
			}
			if rt == wasm.RefTypeFuncref {
				forms["active-4"] = wb.Cat([]byte{0x04}, off, item)
			}
			for form, seg := range forms {
				bin := wb.Cat([]byte{0x00, 0x61, 0x73, 0x6d, 0x01, 0x00, 0x00, 0x00},
					sec(1, []byte{0x01, 0x60, 0x00, 0x00}),
					sec(3, []byte{0x02, 0x00, 0x00}),
					sec(4, []byte{0x01, rt, 0x00, 0x01}),
					sec(6, []byte{0x01, gt, 0x00}, init),
					sec(7, []byte{0x01, 0x03, 'r', 'u', 'n', 0x00, 0x01}),
					sec(9, []byte{0x01}, seg),
					sec(10, []byte{0x02, 0x02, 0x00, 0x0b}, []byte{0x07, 0x00, 0x41, 0x00, 0x11, 0x00, 0x00, 0x0b}))
				add(fmt.Sprintf("element item global.get of a %s global in a %s %s segment", wasm.ValueTypeName(gt), form, wasm.RefTypeName(rt)), "v2", bin)
			}
		}
	}
}

func invalidByConstruction() []ivCase {
	var out []ivCase
	add := func(rule, feat string, bin []byte) { out = append(out, ivCase{rule, feat, bin}) }
	elemItemModules(add)
	seqs := typeSeqs()
	// 1. an `if` without `else`: the implicit else arm is the identity, so params and results must be EQUAL
	for _, p := range seqs {
		for _, r := range seqs {
			if same(p, r) {
				continue
			}
			p, r := p, r
			add(fmt.Sprintf("if-without-else %s->%s", tname(p), tname(r)), "v2", ivModule(nil, nil, nil, func(m *wb.Mod) []byte {
				return wb.Cat(ivConsts(p), wb.I32Const(0), []byte{wasm.OpcodeIf}, blockType(m, p, r), ivDrops(len(p)), ivConsts(r), []byte{wasm.OpcodeEnd}, ivDrops(len(r)))
			}))
		}
	}
	for _, a := range ivTypes {
		for _, b := range ivTypes {
			if a == b {
				continue
			}
			a, b := a, b
			// 2. a block / loop / if-else arm leaves another type than its result type
			for _, kind := range []byte{wasm.OpcodeBlock, wasm.OpcodeLoop} {
				kind := kind
				add(fmt.Sprintf("%s result %s gets %s", wasm.InstructionName(kind), wasm.ValueTypeName(a), wasm.ValueTypeName(b)), "v2", ivModule(nil, nil, nil, func(m *wb.Mod) []byte {
					return wb.Cat([]byte{kind, a}, ivConst(b), []byte{wasm.OpcodeEnd, wasm.OpcodeDrop})
				}))
			}
			add(fmt.Sprintf("else-arm result %s gets %s", wasm.ValueTypeName(a), wasm.ValueTypeName(b)), "v2", ivModule(nil, nil, nil, func(m *wb.Mod) []byte {
				return wb.Cat(wb.I32Const(0), []byte{wasm.OpcodeIf, a}, ivConst(a), []byte{wasm.OpcodeElse}, ivConst(b), []byte{wasm.OpcodeEnd, wasm.OpcodeDrop})
			}))
			// 3. br / br_if carrying another type than the label's
			add(fmt.Sprintf("br label %s with %s", wasm.ValueTypeName(a), wasm.ValueTypeName(b)), "v2", ivModule(nil, nil, nil, func(m *wb.Mod) []byte {
				return wb.Cat([]byte{wasm.OpcodeBlock, a}, ivConst(b), []byte{wasm.OpcodeBr, 0, wasm.OpcodeEnd, wasm.OpcodeDrop})
			}))
			add(fmt.Sprintf("br_if label %s with %s", wasm.ValueTypeName(a), wasm.ValueTypeName(b)), "v2", ivModule(nil, nil, nil, func(m *wb.Mod) []byte {
				return wb.Cat([]byte{wasm.OpcodeBlock, a}, ivConst(b), wb.I32Const(0), []byte{wasm.OpcodeBrIf, 0, wasm.OpcodeDrop}, ivConst(a), []byte{wasm.OpcodeEnd, wasm.OpcodeDrop})
			}))
			// 4. function result / return
			add(fmt.Sprintf("function result %s gets %s", wasm.ValueTypeName(a), wasm.ValueTypeName(b)), "v2", ivModule(nil, []byte{a}, nil, func(*wb.Mod) []byte { return ivConst(b) }))
			add(fmt.Sprintf("return %s in function returning %s", wasm.ValueTypeName(b), wasm.ValueTypeName(a)), "v2", ivModule(nil, []byte{a}, nil, func(*wb.Mod) []byte {
				return wb.Cat(ivConst(b), []byte{wasm.OpcodeReturn})
			}))
			// 5. local.set / local.tee / parameter of another type
			add(fmt.Sprintf("local.set %s := %s", wasm.ValueTypeName(a), wasm.ValueTypeName(b)), "v2", ivModule(nil, nil, []byte{a}, func(*wb.Mod) []byte {
				return wb.Cat(ivConst(b), wb.LocalSet(0))
			}))
			add(fmt.Sprintf("local.tee %s := %s", wasm.ValueTypeName(a), wasm.ValueTypeName(b)), "v2", ivModule(nil, nil, []byte{a}, func(*wb.Mod) []byte {
				return wb.Cat(ivConst(b), wb.LocalTee(0), []byte{wasm.OpcodeDrop})
			}))
			// 6. select with operands of two types
			add(fmt.Sprintf("select %s %s", wasm.ValueTypeName(a), wasm.ValueTypeName(b)), "v2", ivModule(nil, nil, nil, func(*wb.Mod) []byte {
				return wb.Cat(ivConst(a), ivConst(b), wb.I32Const(0), []byte{wasm.OpcodeSelect, wasm.OpcodeDrop})
			}))
			// 7. block parameter of another type (multi-value)
			add(fmt.Sprintf("block param %s entered with %s", wasm.ValueTypeName(a), wasm.ValueTypeName(b)), "v2", ivModule(nil, nil, nil, func(m *wb.Mod) []byte {
				return wb.Cat(ivConst(b), []byte{wasm.OpcodeBlock}, blockType(m, []byte{a}, nil), []byte{wasm.OpcodeDrop, wasm.OpcodeEnd})
			}))
			// 8. call argument / call_indirect argument of another type
			add(fmt.Sprintf("call arg %s given %s", wasm.ValueTypeName(a), wasm.ValueTypeName(b)), "v2", func() []byte {
				m := wb.New()
				g := m.AddFunc(wb.Func{Params: []byte{a}})
				m.AddFunc(wb.Func{Body: wb.Cat(ivConst(b), wb.Call(g)), Export: "f"})
				return m.Bytes()
			}())
			add(fmt.Sprintf("call_indirect arg %s given %s", wasm.ValueTypeName(a), wasm.ValueTypeName(b)), "v2", ivModule(nil, nil, nil, func(m *wb.Mod) []byte {
				ti := m.TypeIdx([]byte{a}, nil)
				return wb.Cat(ivConst(b), wb.I32Const(0), []byte{wasm.OpcodeCallIndirect}, wb.U32(ti), []byte{0})
			}))
			// 9. global.set of another type
			add(fmt.Sprintf("global.set %s := %s", wasm.ValueTypeName(a), wasm.ValueTypeName(b)), "v2", func() []byte {
				if a == wasm.ValueTypeV128 || a == wb.F32 || a == wb.F64 {
					return nil
				}
				m := wb.New()
				bits := 32
				if a == wb.I64 {
					bits = 64
				}
				m.Global(bits, 0)
				m.AddFunc(wb.Func{Body: wb.Cat(ivConst(b), wb.GlobalSet(0)), Export: "f"})
				return m.Bytes()
			}())
			// 10. tail call to a callee with another result type
			add(fmt.Sprintf("return_call callee returns %s in function returning %s", wasm.ValueTypeName(b), wasm.ValueTypeName(a)), "v2x", func() []byte {
				m := wb.New()
				g := m.AddFunc(wb.Func{Results: []byte{b}, Body: ivConst(b)})
				m.AddFunc(wb.Func{Results: []byte{a}, Body: wb.Cat([]byte{wasm.OpcodeTailCallReturnCall}, wb.U32(g)), Export: "f"})
				return m.Bytes()
			}())
		}
		a := a
		// 11. numeric operand types: an i32 operator on this type, this type's store value on an i32, if/br_if/select condition
		if a != wb.I32 {
			add("i32.add on "+wasm.ValueTypeName(a), "v2", ivModule(nil, nil, nil, func(*wb.Mod) []byte {
				return wb.Cat(ivConst(a), wb.I32Const(1), []byte{wasm.OpcodeI32Add, wasm.OpcodeDrop})
			}))
			add("if condition "+wasm.ValueTypeName(a), "v2", ivModule(nil, nil, nil, func(*wb.Mod) []byte {
				return wb.Cat(ivConst(a), []byte{wasm.OpcodeIf, 0x40, wasm.OpcodeEnd})
			}))
			add("br_if condition "+wasm.ValueTypeName(a), "v2", ivModule(nil, nil, nil, func(*wb.Mod) []byte {
				return wb.Cat([]byte{wasm.OpcodeBlock, 0x40}, ivConst(a), []byte{wasm.OpcodeBrIf, 0, wasm.OpcodeEnd})
			}))
			add("select condition "+wasm.ValueTypeName(a), "v2", ivModule(nil, nil, nil, func(*wb.Mod) []byte {
				return wb.Cat(wb.I32Const(1), wb.I32Const(2), ivConst(a), []byte{wasm.OpcodeSelect, wasm.OpcodeDrop})
			}))
			add("load address "+wasm.ValueTypeName(a), "v2", ivModule(nil, nil, nil, func(*wb.Mod) []byte {
				return wb.Cat(ivConst(a), wb.MemArg(wasm.OpcodeI32Load, 2, 0), []byte{wasm.OpcodeDrop})
			}))
			add("i32.store value "+wasm.ValueTypeName(a), "v2", ivModule(nil, nil, nil, func(*wb.Mod) []byte {
				return wb.Cat(wb.I32Const(0), ivConst(a), wb.MemArg(wasm.OpcodeI32Store, 2, 0))
			}))
			add("memory.grow operand "+wasm.ValueTypeName(a), "v2", ivModule(nil, nil, nil, func(*wb.Mod) []byte {
				return wb.Cat(ivConst(a), wb.MemoryGrow(), []byte{wasm.OpcodeDrop})
			}))
		}
		// 12. values left over / missing
		add("value left at the end of a function without results: "+wasm.ValueTypeName(a), "v2", ivModule(nil, nil, nil, func(*wb.Mod) []byte { return ivConst(a) }))
		add("value left at the end of a block without results: "+wasm.ValueTypeName(a), "v2", ivModule(nil, nil, nil, func(*wb.Mod) []byte {
			return wb.Cat([]byte{wasm.OpcodeBlock, 0x40}, ivConst(a), []byte{wasm.OpcodeEnd})
		}))
		add("missing result "+wasm.ValueTypeName(a), "v2", ivModule(nil, []byte{a}, nil, func(*wb.Mod) []byte { return nil }))
		add("block consumes a value of the enclosing frame: "+wasm.ValueTypeName(a), "v2", ivModule(nil, nil, nil, func(*wb.Mod) []byte {
			return wb.Cat(ivConst(a), []byte{wasm.OpcodeBlock, 0x40, wasm.OpcodeDrop, wasm.OpcodeEnd})
		}))
	}
	// 13. structural
	add("drop on an empty stack", "v2", ivModule(nil, nil, nil, func(*wb.Mod) []byte { return []byte{wasm.OpcodeDrop} }))
	add("i32.add with one operand", "v2", ivModule(nil, nil, nil, func(*wb.Mod) []byte {
		return wb.Cat(wb.I32Const(1), []byte{wasm.OpcodeI32Add, wasm.OpcodeDrop})
	}))
	add("br to a label that does not exist", "v2", ivModule(nil, nil, nil, func(*wb.Mod) []byte { return []byte{wasm.OpcodeBr, 1} }))
	add("br_table labels of different arity", "v2", ivModule(nil, nil, nil, func(*wb.Mod) []byte {
		return wb.Cat([]byte{wasm.OpcodeBlock, wb.I32, wasm.OpcodeBlock, 0x40}, wb.I32Const(7), wb.I32Const(0), []byte{wasm.OpcodeBrTable, 1, 0, 1, wasm.OpcodeEnd}, wb.I32Const(1), []byte{wasm.OpcodeEnd, wasm.OpcodeDrop})
	}))
	add("local index out of range", "v2", ivModule(nil, nil, []byte{wb.I32}, func(*wb.Mod) []byte { return wb.Cat(wb.LocalGet(1), []byte{wasm.OpcodeDrop}) }))
	add("global index out of range", "v2", ivModule(nil, nil, nil, func(*wb.Mod) []byte { return wb.Cat(wb.GlobalGet(0), []byte{wasm.OpcodeDrop}) }))
	add("call of a function index out of range", "v2", ivModule(nil, nil, nil, func(*wb.Mod) []byte { return wb.Call(7) }))
	add("else without if", "v2", ivModule(nil, nil, nil, func(*wb.Mod) []byte { return []byte{wasm.OpcodeBlock, 0x40, wasm.OpcodeElse, wasm.OpcodeEnd} }))
	add("memory access without a memory", "v2", func() []byte {
		m := wb.New()
		m.AddFunc(wb.Func{Body: wb.Cat(wb.I32Const(0), wb.MemArg(wasm.OpcodeI32Load, 2, 0), []byte{wasm.OpcodeDrop}), Export: "f"})
		return m.Bytes()
	}())
	add("alignment larger than the access width", "v2", ivModule(nil, nil, nil, func(*wb.Mod) []byte {
		return wb.Cat(wb.I32Const(0), wb.MemArg(wasm.OpcodeI32Load, 3, 0), []byte{wasm.OpcodeDrop})
	}))
	add("global.set of an immutable global", "v2", func() []byte {
		m := wb.New()
		m.Global(32, 0)
		m.M.GlobalSection[0].Type.Mutable = false
		m.AddFunc(wb.Func{Body: wb.Cat(wb.I32Const(1), wb.GlobalSet(0)), Export: "f"})
		return m.Bytes()
	}())
	var kept []ivCase
	for _, c := range out {
		if c.bin != nil {
			kept = append(kept, c)
		}
	}
	return kept
}
