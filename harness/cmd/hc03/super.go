package main

// Supervision of the child processes (re-exec of this binary with -child).

import (
	"bufio"
	"encoding/json"
	"fmt"
	"io"
	"os"
	"os/exec"
	"path/filepath"
	"strings"
	"sync"
	"sync/atomic"
	"time"

	"github.com/tetratelabs/wazero/verifharness/hx"
)

type Worker struct {
	idx     int
	cmd     *exec.Cmd
	in      io.WriteCloser
	lines   chan []byte
	errPath string
	served  int
}

var workerSeq int64

func startWorker() *Worker {
	idx := int(atomic.AddInt64(&workerSeq, 1))
	self, err := os.Executable()
	if err != nil {
		hx.Fatal("executable: %v", err)
	}
	w := &Worker{idx: idx, errPath: filepath.Join(workDir(), fmt.Sprintf("child-%d.stderr", idx))}
	ef, err := os.Create(w.errPath)
	if err != nil {
		hx.Fatal("child stderr: %v", err)
	}
	cmd := hx.Supervised(exec.Command(self, "-child"))
	cmd.Env = append(os.Environ(), "GOMEMLIMIT=3GiB", "GOGC=50", "GOMAXPROCS=2", "GOTRACEBACK=single")
	cmd.Stderr = ef
	w.in, err = cmd.StdinPipe()
	if err != nil {
		hx.Fatal("child stdin: %v", err)
	}
	out, err := cmd.StdoutPipe()
	if err != nil {
		hx.Fatal("child stdout: %v", err)
	}
	if err := cmd.Start(); err != nil {
		hx.Fatal("child start: %v", err)
	}
	ef.Close()
	w.cmd = cmd
	w.lines = make(chan []byte, 1)
	go func() {
		rd := bufio.NewReaderSize(out, 1<<20)
		for {
			l, err := rd.ReadBytes('\n')
			if len(l) > 0 && l[len(l)-1] == '\n' {
				w.lines <- l
			}
			if err != nil {
				close(w.lines)
				return
			}
		}
	}()
	return w
}

func (w *Worker) stop() {
	w.in.Close()
	done := make(chan struct{})
	go func() { w.cmd.Wait(); close(done) }()
	select {
	case <-done:
	case <-time.After(3 * time.Second):
		w.cmd.Process.Kill()
		<-done
	}
	os.Remove(w.errPath)
}

func (w *Worker) kill() string {
	w.cmd.Process.Kill()
	w.cmd.Wait()
	return w.stderrTail()
}

func (w *Worker) stderrTail() string {
	b, _ := os.ReadFile(w.errPath)
	os.Remove(w.errPath)
	lines := strings.Split(string(b), "\n")
	// drop the per-case log lines except the last one
	var keep []string
	for _, l := range lines {
		if strings.HasPrefix(l, "case ") {
			keep = keep[:0]
		}
		keep = append(keep, l)
	}
	if len(keep) > 40 {
		keep = keep[:40]
	}
	return strings.Join(keep, "\n")
}

// Outcome of one request.
type Outcome struct {
	Resp    *Resp
	Crash   string // "" | "exit" | "timeout"
	Stderr  string
	Elapsed time.Duration
}

// serve sends the request and waits for the answer; a dead or silent child is a crash/timeout.
func (w *Worker) serve(rq *Req, timeout time.Duration) (Outcome, bool) {
	b, _ := json.Marshal(rq)
	b = append(b, '\n')
	t0 := time.Now()
	if _, err := w.in.Write(b); err != nil {
		w.cmd.Wait()
		return Outcome{Crash: "exit", Stderr: w.stderrTail(), Elapsed: time.Since(t0)}, false
	}
	select {
	case l, ok := <-w.lines:
		if !ok {
			w.cmd.Wait()
			if w.cmd.ProcessState != nil && w.cmd.ProcessState.ExitCode() == 3 {
				hx.Fatal("child refused the request: %s", w.stderrTail())
			}
			return Outcome{Crash: "exit", Stderr: w.stderrTail(), Elapsed: time.Since(t0)}, false
		}
		var rs Resp
		if err := json.Unmarshal(l, &rs); err != nil || rs.ID != rq.ID {
			hx.Fatal("child protocol: %v (%q)", err, string(l[:min(len(l), 200)]))
		}
		w.served++
		return Outcome{Resp: &rs, Elapsed: time.Since(t0)}, true
	case <-time.After(timeout):
		return Outcome{Crash: "timeout", Stderr: w.kill(), Elapsed: time.Since(t0)}, false
	}
}

// Pool runs requests on a fixed number of children; Alone() runs one request in a fresh child while
// no other request is in flight (used before any verdict that depends on time or on a crash).
type Pool struct {
	excl sync.RWMutex
	free chan *Worker
}

func NewPool(n int) *Pool {
	p := &Pool{free: make(chan *Worker, n)}
	for i := 0; i < n; i++ {
		p.free <- startWorker()
	}
	return p
}

func (p *Pool) Run(rq *Req, timeout time.Duration) Outcome {
	p.excl.RLock()
	defer p.excl.RUnlock()
	w := <-p.free
	o, alive := w.serve(rq, timeout)
	if !alive || w.served >= 400 {
		if alive {
			w.stop()
		}
		w = startWorker()
	}
	p.free <- w
	return o
}

func (p *Pool) Alone(rq *Req, timeout time.Duration) Outcome {
	p.excl.Lock()
	defer p.excl.Unlock()
	w := startWorker()
	o, alive := w.serve(rq, timeout)
	if alive {
		w.stop()
	}
	return o
}

func (p *Pool) Close() {
	p.excl.Lock()
	defer p.excl.Unlock()
	for {
		select {
		case w := <-p.free:
			w.stop()
		default:
			return
		}
	}
}

func workDir() string {
	d := *hx.Work
	if d == "" {
		d = filepath.Join(os.Getenv("VERIF_ROOT"), ".work", fmt.Sprintf("hc03-%d", os.Getpid()))
		if os.Getenv("VERIF_ROOT") == "" {
			d = filepath.Join(".", fmt.Sprintf(".hc03-%d", os.Getpid()))
		}
	}
	os.MkdirAll(d, 0o755)
	return d
}
