package main

// LEB-boundary index stage.  Every index in a module is an unsigned LEB128 number; the values at which the encoding
// changes shape - 63/64 (bit 6 of a one-byte encoding is the sign bit of a SIGNED LEB), 127/128 (second byte),
// 8191/8192, 16383/16384 - are where a decoder that reads an index with the wrong signedness or width goes wrong, at
// compile time or LATER (constant expressions are evaluated at instantiation, function indexes at call time).
// Valid-by-construction modules that USE an index at those values in every index space that can be made that large
// cheaply: imported globals (in data / element offsets and global initialisers), functions (call, ref.func, start,
// export), locals, data segments (memory.init), nesting depth (br).  Each must compile, instantiate and compute the
// expected value on both engines; a Go runtime error anywhere is an internal failure.

import (
	"context"
	"fmt"
	"strings"

	"github.com/tetratelabs/wazero"
	"github.com/tetratelabs/wazero/api"
	"github.com/tetratelabs/wazero/internal/leb128"
	"github.com/tetratelabs/wazero/internal/wasm"
	"github.com/tetratelabs/wazero/verifharness/hx"
	"github.com/tetratelabs/wazero/verifharness/wb"
)

type lebCase struct {
	name string
	bin  []byte
	want uint32
	env  bool // needs the provider module "env" exporting global g = 5
}

func lebIndexCases() []lebCase {
	var out []lebCase
	idxs := []uint32{0, 63, 64, 127, 128, 8191, 8192}
	one := uint32(1)
	for _, n := range idxs {
		// (a) n+1 imported globals; data offset, element offset and a global initialiser use global.get n
		{
			m := wb.New()
			for i := uint32(0); i <= n; i++ {
				m.M.ImportSection = append(m.M.ImportSection, wasm.Import{Type: wasm.ExternTypeGlobal, Module: "env", Name: "g", DescGlobal: wasm.GlobalType{ValType: wb.I32}})
			}
			m.M.ImportGlobalCount = n + 1
			m.Memory(1, &one, false, "")
			m.Table(16, nil)
			gg := wasm.ConstantExpression{Opcode: wasm.OpcodeGlobalGet, Data: leb128.EncodeUint32(n)}
			m.M.GlobalSection = append(m.M.GlobalSection, wasm.Global{Type: wasm.GlobalType{ValType: wb.I32}, Init: gg})
			m.M.DataSection = append(m.M.DataSection, wasm.DataSegment{OffsetExpression: gg, Init: []byte{0x21}})
			f := m.AddFunc(wb.Func{Results: []byte{wb.I32}, Body: wb.I32Const(1000)})
			m.M.ElementSection = append(m.M.ElementSection, wasm.ElementSegment{Mode: wasm.ElementModeActive, Type: wasm.RefTypeFuncref, OffsetExpr: gg, Init: []wasm.Index{f}})
			t0 := m.TypeIdx(nil, []byte{wb.I32})
			// run = mem[5] + global(n+1) + table[5]()  = 0x21 + 5 + 1000
			m.AddFunc(wb.Func{Results: []byte{wb.I32}, Export: "run", Body: wb.Cat(
				wb.I32Const(5), wb.MemArg(wasm.OpcodeI32Load8U, 0, 0), wb.GlobalGet(n+1), wb.Op(wasm.OpcodeI32Add),
				wb.I32Const(5), wb.Op(wasm.OpcodeCallIndirect), wb.U32(t0), wb.U32(0), wb.Op(wasm.OpcodeI32Add))})
			out = append(out, lebCase{fmt.Sprintf("global.get %d in data offset, element offset and global initialiser", n), m.Bytes(), 0x21 + 5 + 1000, true})
		}
		// (b) function index n: call, ref.func + call_indirect, and the export itself sits at index n+1
		{
			m := wb.New()
			m.Table(2, nil)
			for i := uint32(0); i < n; i++ {
				m.AddFunc(wb.Func{Results: []byte{wb.I32}, Body: wb.I32Const(-1)})
			}
			fn := m.AddFunc(wb.Func{Results: []byte{wb.I32}, Body: wb.I32Const(int32(7000 + n%1000))})
			t0 := m.TypeIdx(nil, []byte{wb.I32})
			m.AddFunc(wb.Func{Results: []byte{wb.I32}, Export: "run", Body: wb.Cat(
				wb.Call(fn),
				wb.I32Const(1), wb.Op(wasm.OpcodeRefFunc), wb.U32(fn), wb.Op(wasm.OpcodeTableSet, 0),
				wb.I32Const(1), wb.Op(wasm.OpcodeCallIndirect), wb.U32(t0), wb.U32(0), wb.Op(wasm.OpcodeI32Add))})
			out = append(out, lebCase{fmt.Sprintf("function index %d (call, ref.func, call_indirect)", n), m.BytesWithSegments([]wb.Elem{{Passive: true, Init: []int64{int64(fn)}}}), 2 * (7000 + n%1000), false})
		}
		// (c) local index n and nesting depth n (br n out of n+1 blocks), memory.init from data segment n
		if n <= 8192 {
			m := wb.New()
			m.Memory(1, &one, false, "")
			for i := uint32(0); i <= n; i++ {
				m.M.DataSection = append(m.M.DataSection, wasm.DataSegment{Passive: true, Init: []byte{byte(i), byte(i >> 8)}})
			}
			locals := make([]byte, n+1)
			for i := range locals {
				locals[i] = wb.I32
			}
			var body []byte
			body = append(body, wb.Cat(wb.I32Const(77), wb.LocalSet(n))...)
			depth := n
			if depth > 200 {
				depth = 200 // (nesting of thousands of blocks is a resource question, not an index question)
			}
			for i := uint32(0); i <= depth; i++ {
				body = append(body, wasm.OpcodeBlock, 0x40)
			}
			body = append(body, wb.Cat(wb.Op(wasm.OpcodeBr), wb.U32(depth))...)
			for i := uint32(0); i <= depth; i++ {
				body = append(body, wasm.OpcodeEnd)
			}
			body = append(body, wb.Cat(wb.I32Const(32), wb.I32Const(0), wb.I32Const(2), wb.Misc(wasm.OpcodeMiscMemoryInit, n, 0),
				wb.LocalGet(n), wb.I32Const(32), wb.MemArg(wasm.OpcodeI32Load16U, 1, 0), wb.Op(wasm.OpcodeI32Add))...)
			m.AddFunc(wb.Func{Results: []byte{wb.I32}, Locals: locals, Export: "run", Body: body})
			raw := m.Bytes()
			out = append(out, lebCase{fmt.Sprintf("local index %d, br depth %d, memory.init of data segment %d", n, depth, n), withDataCount(raw, n+1), 77 + n, false})
		}
	}
	return out
}

// withDataCount inserts a data-count section (needed by memory.init) before the code section of an encoded module.
func withDataCount(bin []byte, n uint32) []byte {
	out := append([]byte{}, bin[:8]...)
	p := 8
	done := false
	for p < len(bin) {
		id := bin[p]
		sz, k, _ := leb128.LoadUint32(bin[p+1:])
		end := p + 1 + int(k) + int(sz)
		if !done && (id == wasm.SectionIDCode || id == wasm.SectionIDData) {
			payload := leb128.EncodeUint32(n)
			out = append(out, wasm.SectionIDDataCount)
			out = append(out, leb128.EncodeUint32(uint32(len(payload)))...)
			out = append(out, payload...)
			done = true
		}
		if id != wasm.SectionIDDataCount {
			out = append(out, bin[p:end]...)
		}
		p = end
	}
	return out
}

func lebIndexStage() {
	ctx := context.Background()
	env := wb.New()
	env.M.GlobalSection = append(env.M.GlobalSection, wasm.Global{Type: wasm.GlobalType{ValType: wb.I32}, Init: wasm.ConstantExpression{Opcode: wasm.OpcodeI32Const, Data: leb128.EncodeInt32(5)}})
	env.M.ExportSection = append(env.M.ExportSection, wasm.Export{Name: "g", Type: wasm.ExternTypeGlobal, Index: 0})
	envBin := env.Bytes()
	for _, c := range lebIndexCases() {
		for _, engine := range []string{"interpreter", "compiler"} {
			rc := wazero.NewRuntimeConfigCompiler()
			if engine == "interpreter" {
				rc = wazero.NewRuntimeConfigInterpreter()
			}
			rt := wazero.NewRuntimeWithConfig(ctx, rc.WithCoreFeatures(api.CoreFeaturesV2))
			got := func() (out string) {
				defer func() {
					if r := recover(); r != nil {
						out = fmt.Sprintf("GO PANIC: %v", r)
					}
				}()
				if c.env {
					if _, err := rt.InstantiateWithConfig(ctx, envBin, wazero.NewModuleConfig().WithName("env")); err != nil {
						return "env: " + err.Error()
					}
				}
				cm, err := rt.CompileModule(ctx, c.bin)
				if err != nil {
					return "rejected: " + strings.SplitN(err.Error(), "\n", 2)[0]
				}
				mod, err := rt.InstantiateModule(ctx, cm, wazero.NewModuleConfig().WithName("m"))
				if err != nil {
					return "instantiation error: " + strings.SplitN(err.Error(), "\n", 2)[0]
				}
				res, err := mod.ExportedFunction("run").Call(ctx)
				if err != nil {
					return "error: " + strings.SplitN(err.Error(), "\n", 2)[0]
				}
				return fmt.Sprint(uint32(res[0]))
			}()
			rt.Close(ctx)
			rep.Case("leb-index/" + engine + "/" + c.name)
			if got != fmt.Sprint(c.want) {
				sig := "C03:valid-module-with-boundary-index-misbehaves:" + engine
				switch {
				case strings.Contains(got, "runtime error") || strings.Contains(got, "GO PANIC"):
					sig = "C03:accepted-module-internal-failure:boundary-index:" + engine
				case strings.HasPrefix(got, "rejected"):
					sig = "C03:valid-module-rejected:boundary-index:" + engine
				}
				rep.Violate(hx.Violation{Kind: "impl-violation", Signature: sig,
					What:     fmt.Sprintf("%s: a valid module using %s answers %s", engine, c.name, got),
					Input:    map[string]any{"stage": "LEB-boundary indexes", "engine": engine, "case": c.name, "module_hex_prefix": fmt.Sprintf("%x", c.bin[:min(len(c.bin), 64)])},
					Expected: fmt.Sprint(c.want), Actual: got})
			} else {
				rep.Count("leb-index:ok")
			}
		}
	}
}
