// hc03: compilation is total and sound on arbitrary input bytes (C03).
//
// The real decoder, validator and both engines only ever run in supervised child processes (re-exec of
// this binary with -child: own RLIMIT_AS, GOMEMLIMIT, per-case deadline, crash = observation).  Input
// streams: witnesses of recorded findings and minimised past failures (corpus/C03) first; raw random
// bytes behind the wasm header; structure-aware mutations (LEB bit flips, count/size inflation, section
// reorder/duplicate/remove, truncation at every offset of small modules, opcode substitution, missing or
// trailing `end`) of by-construction-valid modules from package gen and of the repository's own
// testdata; by-construction-valid modules (must all be accepted).  Feature sets V1, V2, V2+threads+tail
// calls; CompileModule on BOTH engines.
//
// Tie C (monitors on the real code): panic escaping CompileModule; Go fatal error / crash of the child;
// allocation > 4096 B per input byte + 64 MiB or time > 60 s + 500 µs per input byte (re-run alone before
// a verdict); engines disagree on accept/reject; every accepted module is instantiated (imports stubbed)
// and its exports are called on both engines: any Go runtime error, BUG text or crash is a violation.
// Tie B (model vs code, Lean oracle topic c03): LEB128 decoders/encoders (exhaustive 1–2 byte strings,
// boundary 5/10-byte strings, random), section framing + vector counts + pre-allocation model on every
// fuzz input, validator model on generated and token-mutated W0 bodies.
package main

import (
	"encoding/hex"
	"encoding/json"
	"flag"
	"fmt"
	"math/rand"
	"os"
	"path/filepath"
	"regexp"
	"sort"
	"strings"
	"sync"
	"sync/atomic"
	"time"

	"github.com/tetratelabs/wazero/verifharness/hx"
)

var (
	orc  *hx.Oracle
	rep  *hx.Report
	pool *Pool
)

// Case is one input to CompileModule.
type Case struct {
	Name   string `json:"name"`
	Stream string `json:"stream"`
	Feat   string `json:"feat"`
	Hex    string `json:"hex"`
	// MustAccept: valid by construction
	MustAccept bool `json:"must_accept,omitempty"`
	// MustReject: invalid by construction (violates exactly one validation rule of the specification)
	MustReject bool   `json:"must_reject,omitempty"`
	Mode       string `json:"mode,omitempty"`
	Note       string `json:"note,omitempty"`
	ASMiB      int    `json:"as_mib,omitempty"`
	bin        []byte
}

const (
	allocPerByte  = 4096
	allocConst    = 64 << 20
	timeConst     = 60 * time.Second
	timePerByte   = 500 * time.Microsecond
	localsPolicy  = 50000 // the per-function locals cap other runtimes apply (finding F3b is "no such cap")
	caseDeadline  = 100 * time.Second
	aloneDeadline = 240 * time.Second
)

// deadlines scale with the input so that the big repository modules are not cut off under load
func deadline(n int) time.Duration {
	if d := timeBound(n) * 3 / 2; d > caseDeadline {
		return d
	}
	return caseDeadline
}
func deadlineAlone(n int) time.Duration { return deadline(n) + aloneDeadline }

var hangConfirmed int32

func allocBound(n int) uint64       { return uint64(n)*allocPerByte + allocConst }
func timeBound(n int) time.Duration { return timeConst + time.Duration(n)*timePerByte }

var caseSeq int
var caseMu sync.Mutex

func nextID() int {
	caseMu.Lock()
	defer caseMu.Unlock()
	caseSeq++
	return caseSeq
}

func (c *Case) req(mode string) *Req {
	if mode == "" {
		mode = "full"
	}
	id := nextID()
	if c.Stream == "corpus" || c.Stream == "replay" {
		id = id*3 + 1 // Go-stub providers for host-function imports (see child.go provide)
	}
	return &Req{ID: id, Feat: c.Feat, Hex: c.Hex, Mode: mode, CallMs: 2000, BudgetMs: 6000, MaxCalls: 16, Rot: id, ASMiB: c.ASMiB}
}

var digits = regexp.MustCompile(`[0-9]+`)
var hexes = regexp.MustCompile(`0x[0-9a-fA-F]+`)

func normalize(s string) string {
	s = firstLine(s)
	s = hexes.ReplaceAllString(s, "H")
	s = digits.ReplaceAllString(s, "N")
	if len(s) > 90 {
		s = s[:90]
	}
	return s
}

// errClass buckets a rejection message for the distribution printout.
func errClass(s string) string {
	s = normalize(s)
	parts := strings.SplitN(s, ":", 3)
	if len(parts) >= 2 {
		return strings.TrimSpace(parts[0]) + ":" + strings.TrimSpace(parts[1])
	}
	return s
}

func panicSig(p string) string {
	msg := normalize(p)
	fn, loc := "", ""
	if i := strings.Index(p, "\n"); i >= 0 {
		for _, f := range strings.Split(p[i+1:], " | ") {
			if strings.Contains(f, ".go:") {
				if loc == "" && fn != "" {
					loc = sourceLoc(f)
					break
				}
				continue
			}
			if fn == "" {
				fn = f[strings.LastIndex(f, "/")+1:]
				if j := strings.LastIndex(fn, "("); j > 0 {
					fn = fn[:j]
				}
			}
		}
	}
	return strings.ReplaceAll(msg, " ", "-") + "@" + fn + "@" + loc
}

// sourceLoc turns a stack frame location "/path/file.go:123 +0x.." into "file.go:<text of that source
// line>", so that the signature survives edits elsewhere in the file (falls back to the line number).
func sourceLoc(frame string) string {
	frame = strings.TrimSpace(frame)
	if j := strings.Index(frame, " "); j > 0 {
		frame = frame[:j]
	}
	base := frame[strings.LastIndex(frame, "/")+1:]
	k := strings.LastIndex(frame, ":")
	if k < 0 {
		return base
	}
	var line int
	fmt.Sscan(frame[k+1:], &line)
	raw, err := os.ReadFile(frame[:k])
	if err != nil || line <= 0 {
		return base
	}
	lines := strings.Split(string(raw), "\n")
	if line > len(lines) {
		return base
	}
	txt := strings.Join(strings.Fields(lines[line-1]), "")
	if len(txt) > 60 {
		txt = txt[:60]
	}
	return base[:strings.LastIndex(base, ":")] + ":" + txt
}

func crashClass(stderr string) string {
	switch {
	case strings.Contains(stderr, "out of memory") || strings.Contains(stderr, "cannot allocate memory"):
		return "out-of-memory"
	case strings.Contains(stderr, "stack exceeds") || strings.Contains(stderr, "stack overflow"):
		return "go-stack-overflow"
	case strings.Contains(stderr, "SIGSEGV") || strings.Contains(stderr, "SIGBUS") || strings.Contains(stderr, "unexpected signal"):
		return "signal"
	case strings.Contains(stderr, "concurrent map"):
		return "concurrent-map"
	case strings.Contains(stderr, "fatal error"):
		return "fatal-error"
	case strings.Contains(stderr, "panic:"):
		return "panic"
	}
	return "died"
}

// cause names the input field responsible for a disproportionate allocation / OOM, for the signature.
func cause(c *Case) string {
	w := WalkModule(c.bin)
	if f := w.blame(); f != nil {
		if f.Kind == "locals-n" {
			return "F3b:locals-declared-without-a-cap"
		}
		return "F3a:decoder-reserves-declared-count:" + f.Kind
	}
	if w.MaxLocal > localsPolicy {
		return "F3b:locals-declared-without-a-cap"
	}
	return ""
}

// hasTailCall: some function body contains a return_call / return_call_indirect opcode byte.
func hasTailCall(b []byte) bool {
	for _, bd := range WalkModule(b).Bodies {
		for i := bd[0]; i < bd[1] && i < len(b); i++ {
			if b[i] == 0x12 || b[i] == 0x13 {
				return true
			}
		}
	}
	return false
}

func violate(c *Case, kind, sig, what string, expected, actual any) {
	rep.Violate(hx.Violation{Kind: kind, Signature: sig, What: what, Input: c, Expected: expected, Actual: actual})
}

// judge applies the monitors of the property to one outcome. Returns the verdict word for the histogram.
func judge(c *Case, o Outcome, alone bool) string {
	n := len(c.bin)
	if o.Crash != "" {
		// a single allocation request far beyond the address-space limit fails deterministically,
		// whatever the load on the machine: no need to repeat it alone
		skipAlone := (o.Crash == "exit" && hugeRequest(o.Stderr)) || (o.Crash == "timeout" && atomic.LoadInt32(&hangConfirmed) > 0)
		if !alone && !skipAlone {
			rep.Count("rerun-alone:" + o.Crash)
			return judge(c, pool.Alone(c.req(c.Mode), deadlineAlone(n)), true)
		}
		if o.Crash == "timeout" {
			atomic.AddInt32(&hangConfirmed, 1)
			sig := "C03:no-answer-within-deadline"
			if cs := cause(c); cs != "" {
				sig = cs
			}
			violate(c, "impl-violation", sig, fmt.Sprintf("compiling/exercising a %d-byte input did not finish within %s (run alone once per run)", n, deadlineAlone(n)), "an answer", o.Stderr)
			return "hang"
		}
		cls := crashClass(o.Stderr)
		sig := "C03:child-crash:" + cls
		if cls == "out-of-memory" && strings.Contains(o.Stderr, "(*TableInstance).Grow") {
			sig = "F44:table.grow-host-allocation-has-no-limit"
		} else if cs := cause(c); cs != "" && cls == "out-of-memory" {
			sig = cs
		} else if cls != "out-of-memory" {
			sig += ":" + strings.ReplaceAll(normalize(firstFatal(o.Stderr)), " ", "-")
		}
		violate(c, "impl-violation", sig, fmt.Sprintf("process died (%s) while compiling/exercising a %d-byte input (RLIMIT_AS 6 GiB)", cls, n), "error or module", o.Stderr)
		return "crash:" + cls
	}
	r := o.Resp
	verdict := "rejected"
	// allocation and time, per stage
	stages := []struct {
		name string
		st   Stage
	}{{"decode", r.Decode}}
	if r.Validate != nil {
		stages = append(stages, struct {
			name string
			st   Stage
		}{"validate", *r.Validate})
	}
	for _, e := range r.Eng {
		stages = append(stages, struct {
			name string
			st   Stage
		}{"compile-" + e.Name, e.Compile})
	}
	for _, s := range stages {
		if s.st.Alloc > allocBound(n) {
			sig := "C03:alloc-disproportionate:" + s.name
			if cs := cause(c); cs != "" {
				sig = cs
			}
			violate(c, "impl-violation", sig, fmt.Sprintf("%s allocated %d bytes for a %d-byte input (bound %d)", s.name, s.st.Alloc, n, allocBound(n)), allocBound(n), s.st.Alloc)
			verdict = "over-alloc"
		}
		if time.Duration(s.st.Ns) > timeBound(n) {
			if !alone {
				rep.Count("rerun-alone:slow")
				return judge(c, pool.Alone(c.req(c.Mode), deadlineAlone(n)), true)
			}
			sig := "C03:time-disproportionate:" + s.name
			if cs := cause(c); cs != "" {
				sig = cs
			}
			violate(c, "impl-violation", sig, fmt.Sprintf("%s took %s for a %d-byte input (bound %s) when run alone", s.name, time.Duration(s.st.Ns), n, timeBound(n)), timeBound(n).String(), time.Duration(s.st.Ns).String())
			verdict = "slow"
		}
		if s.st.Panic != "" {
			violate(c, "impl-violation", "C03:panic:"+s.name+":"+panicSig(s.st.Panic), "panic escaped "+s.name+": "+firstLine(s.st.Panic), "error or module", s.st.Panic)
			verdict = "panic"
		}
	}
	if len(r.Eng) == 2 {
		a, b := r.Eng[0], r.Eng[1]
		if a.Compile.OK != b.Compile.OK && a.Compile.Panic == "" && b.Compile.Panic == "" {
			violate(c, "impl-violation", "C03:engines-disagree-on-accept:"+strings.ReplaceAll(errClass(a.Compile.Err+b.Compile.Err), " ", "-"),
				"interpreter and compiler disagree on accepting the input", a.Compile, b.Compile)
			verdict = "engines-disagree"
		}
		if a.Compile.OK && b.Compile.OK {
			verdict = "accepted"
		}
		// decode+validate accepted but an engine's lowering failed: validation is not sufficient for the engines
		for _, e := range r.Eng {
			if r.Validate != nil && r.Validate.OK && !e.Compile.OK && e.Compile.Panic == "" {
				violate(c, "impl-violation", "C03:validated-module-fails-in-engine:"+e.Name+":"+strings.ReplaceAll(errClass(e.Compile.Err), " ", "-"),
					"Module.Validate accepted the module but the engine's CompileModule failed later: "+e.Compile.Err, "accepted", e.Compile.Err)
				verdict = "engine-rejects-validated"
			}
		}
	} else if len(r.Eng) == 1 && r.Eng[0].Compile.OK {
		verdict = "accepted"
	}
	if c.MustReject && (verdict == "accepted" || verdict == "engines-disagree") {
		violate(c, "impl-violation", "C03:invalid-module-accepted:"+strings.ReplaceAll(strings.SplitN(c.Note, " ", 2)[0], " ", "-"),
			"a module that violates a validation rule of the specification ("+c.Note+") was accepted", "rejected", verdict)
	}
	if c.MustAccept && verdict != "accepted" {
		msg := ""
		for _, e := range r.Eng {
			msg += e.Name + ": " + e.Compile.Err + e.Compile.Panic + "; "
		}
		violate(c, "impl-violation", "C03:valid-module-rejected:"+strings.ReplaceAll(errClass(r.Decode.Err+msg), " ", "-"), "a module that is valid by construction was rejected: "+r.Decode.Err+" "+msg, "accepted", msg)
	}
	for _, e := range r.Eng {
		for _, in := range e.Internal {
			if strings.HasPrefix(in, "compile-panic") {
				continue
			}
			// the signature names the failure, not the export that happened to trigger it
			what := in
			if strings.HasPrefix(what, "call ") {
				if i := strings.Index(what, "]: "); i > 0 {
					what = "call: " + what[i+3:]
				}
			}
			sig := "C03:accepted-module-internal-failure:" + e.Name + ":" + strings.ReplaceAll(normalize(what), " ", "-")
			if c.Feat == "v2x" && e.Name == "interpreter" && strings.Contains(in, "slice bounds out of range") && hasTailCall(c.bin) {
				sig = "F46:tail-call-to-callee-with-other-results-accepted:interpreter-runtime-error-slice-bounds"
			}
			if e.Name == "compiler" && strings.Contains(in, "index out of range") && strings.Contains(in, "moduleEngine).NewFunction") {
				// one defect, two entry points: api.Module.ExportedFunction of a re-exported host function,
				// and InstantiateModule when the start function is an imported host function
				if strings.HasPrefix(in, "ExportedFunction(") {
					sig = "F41:compiler-ExportedFunction-of-reexported-host-function-panics"
				} else if strings.Contains(in, "Store).instantiate") {
					sig = "F41:compiler-InstantiateModule-panics-when-start-function-is-imported-host-function"
				}
			}
			violate(c, "impl-violation", sig,
				"internal failure of the runtime on a module CompileModule accepted ("+e.Name+"): "+in, "trap, result or error", in)
			verdict = "internal-failure"
		}
	}
	return verdict
}

var allocReq = regexp.MustCompile(`cannot allocate ([0-9]+)-byte block`)

// hugeRequest: the child died on one allocation request of at least 1 GiB.
func hugeRequest(stderr string) bool {
	m := allocReq.FindStringSubmatch(stderr)
	if m == nil {
		return false
	}
	var n uint64
	fmt.Sscan(m[1], &n)
	return n >= 1<<30
}

func firstFatal(stderr string) string {
	for _, l := range strings.Split(stderr, "\n") {
		if strings.HasPrefix(l, "fatal error") || strings.HasPrefix(l, "panic:") || strings.Contains(l, "SIGSEGV") || strings.HasPrefix(l, "runtime:") {
			return l
		}
	}
	return ""
}

// account records the distribution of one judged case.
func account(c *Case, o Outcome, verdict string) {
	rep.Count("stream:" + c.Stream)
	rep.Count("feat:" + c.Feat)
	rep.Count("verdict:" + verdict)
	key := ""
	if o.Resp != nil {
		r := o.Resp
		if !r.Decode.OK {
			rep.Count("reject-decode:" + errClass(r.Decode.Err))
			key = "d:" + errClass(r.Decode.Err)
		} else if len(r.Eng) > 0 && !r.Eng[0].Compile.OK {
			rep.Count("reject-validate:" + errClass(r.Eng[0].Compile.Err))
			key = "v:" + errClass(r.Eng[0].Compile.Err)
		} else {
			key = "a"
		}
		for id, nsec := range r.Sections {
			if nsec > 0 {
				rep.Count(fmt.Sprintf("decoded-section:%d", id))
			}
		}
		for _, e := range r.Eng {
			if e.Inst != "" {
				w := e.Inst
				if i := strings.Index(w, ":"); i > 0 && !strings.HasPrefix(w, "skip") {
					w = w[:i]
				}
				rep.Count("instantiate:" + e.Name + ":" + normalize(w))
			}
			for _, cl := range e.Calls {
				st := strings.SplitN(cl, " ", 2)[0]
				if i := strings.IndexAny(st, ":,"); i > 0 {
					st = st[:i]
				}
				rep.Count("call:" + st)
			}
		}
		if len(r.Eng) == 2 && r.Eng[0].Inst == "ok" && r.Eng[1].Inst == "ok" {
			a, b := r.Eng[0].Calls, r.Eng[1].Calls
			same := len(a) == len(b)
			for i := 0; same && i < len(a); i++ {
				if a[i] != b[i] && !strings.HasPrefix(a[i], "timeout") && !strings.HasPrefix(b[i], "timeout") &&
					!strings.HasPrefix(a[i], "trap:stack-overflow") && !strings.HasPrefix(b[i], "trap:stack-overflow") && a[i] != "budget" && b[i] != "budget" {
					rep.Count("note:engines-differ-on-a-call(not-a-verdict-here,C01)")
					rep.Note("engines differ on a call of an accepted input (%s %s): %s vs %s", c.Name, c.Feat, a[i], b[i])
					break
				}
				if a[i] != b[i] {
					break
				}
			}
		}
	}
	// distinct = (stream, mutation kind, feature set, outcome class)
	mk := c.Note
	if i := strings.Index(mk, "@"); i > 0 {
		mk = mk[:i]
	}
	rep.Case(c.Stream + "/" + mk + "/" + c.Feat + "/" + key + "/" + verdict)
}

func runCases(cases []*Case, par int) {
	var wg sync.WaitGroup
	ch := make(chan *Case)
	for i := 0; i < par; i++ {
		wg.Add(1)
		go func() {
			defer wg.Done()
			for c := range ch {
				if c.bin == nil {
					c.Hex = strings.ReplaceAll(c.Hex, " ", "")
					var err error
					if c.bin, err = hex.DecodeString(c.Hex); err != nil {
						hx.Fatal("case %s: bad hex: %v", c.Name, err)
					}
				}
				o := pool.Run(c.req(c.Mode), deadline(len(c.bin)))
				v := judge(c, o, false)
				account(c, o, v)
				tieFrame(c, o)
			}
		}()
	}
	for _, c := range cases {
		ch <- c
	}
	close(ch)
	wg.Wait()
}

func mkCase(name, stream, feat string, bin []byte, note string) *Case {
	return &Case{Name: name, Stream: stream, Feat: feat, Hex: hex.EncodeToString(bin), bin: bin, Note: note}
}

func loadCorpus() []*Case {
	root := os.Getenv("VERIF_ROOT")
	if root == "" {
		root = "/verif"
	}
	files, _ := filepath.Glob(filepath.Join(root, "corpus", "C03", "*.json"))
	sort.Strings(files)
	var out []*Case
	for _, f := range files {
		raw, err := os.ReadFile(f)
		if err != nil {
			hx.Fatal("corpus: %v", err)
		}
		var cs []*Case
		if err := json.Unmarshal(raw, &cs); err != nil {
			var one Case
			if err2 := json.Unmarshal(raw, &one); err2 != nil {
				hx.Fatal("corpus %s: %v", f, err)
			}
			cs = []*Case{&one}
		}
		for _, c := range cs {
			c.Stream = "corpus"
			if c.Feat == "" {
				c.Feat = "v2"
			}
			c.Hex = strings.ReplaceAll(c.Hex, " ", "")
			out = append(out, c)
		}
	}
	return out
}

func replayFile(path string) []*Case {
	if _, err := os.Stat(path); err != nil && !filepath.IsAbs(path) && os.Getenv("VERIF_ROOT") != "" {
		path = filepath.Join(os.Getenv("VERIF_ROOT"), path)
	}
	raw, err := os.ReadFile(path)
	if err != nil {
		hx.Fatal("%v", err)
	}
	var full struct {
		Impl []struct {
			Input Case `json:"input"`
		} `json:"impl_violations"`
	}
	var out []*Case
	if json.Unmarshal(raw, &full) == nil && len(full.Impl) > 0 {
		for i := range full.Impl {
			c := full.Impl[i].Input
			out = append(out, &c)
		}
	} else {
		var one Case
		if err := json.Unmarshal(raw, &one); err != nil || one.Hex == "" {
			hx.Fatal("replay: cannot read %s", path)
		}
		out = append(out, &one)
	}
	for _, c := range out {
		c.Stream = "replay"
		if c.Feat == "" {
			c.Feat = "v2"
		}
	}
	return out
}

func main() {
	child := flag.Bool("child", false, "child mode")
	par := flag.Int("par", 6, "number of child processes")
	nflag := flag.Int("n", 0, "number of fuzz cases (0 = tier default)")
	only := flag.String("only", "", "run only this part: corpus|leb|fuzz|gen|validator")
	flag.Parse()
	if *child {
		childMain()
		return
	}
	orc = hx.StartOracle()
	defer orc.Close()
	rep = hx.NewReport("C03", "inputs to CompileModule: corpus witnesses; raw random bytes behind the header; structure-aware mutations (LEB bit flips, count/size inflation with and without size fix-up, non-canonical LEB padding, section swap/duplicate/remove/insert, truncation at every offset of small modules, opcode substitution, missing/trailing end, byte flips/insert/delete, section splicing) of gen modules and of the repository's testdata; by-construction-valid gen modules; each under feature sets v1, v2, v2+threads+tail-call on both engines, accepted ones instantiated with stub imports and every export called with zero and boundary arguments. LEB tie: all 1- and 2-byte strings, boundary 4-6 and 9-11 byte strings with every last byte, random strings, encoder round trips. distinct = (stream, mutation kind, feature set, rejection class or accepted, verdict); a case is non-trivial when it carries the wasm header (all do)")
	pool = NewPool(*par)
	defer pool.Close()
	defer os.RemoveAll(filepath.Join(workDir(), "x"))
	r := hx.Rand()
	if *hx.Replay != "" {
		runCases(replayFile(*hx.Replay), 1)
		rep.Write(orc)
		return
	}
	want := func(p string) bool { return *only == "" || *only == p }
	probeVariant()
	if want("corpus") {
		cs := loadCorpus()
		runCases(cs, *par)
		rep.Count(fmt.Sprintf("corpus-cases:%d", len(cs)))
	}
	if want("leb") {
		tieLEB(r)
	}
	if want("validator") {
		tieValidator(r, *par)
	}
	if want("gen") || want("fuzz") {
		fuzz(r, *par, *nflag, *only)
	}
	if want("gen") {
		linkedModulesStage()
		lebIndexStage()
	}
	rep.Write(orc)
}

var _ = rand.New
