// Package hx is the common plumbing of the correspondence harness: flags, the pipe to the Lean
// oracle, the per-run report (evaluations, histograms, samples, violations) and a seeded PRNG.
package hx

import (
	"bufio"
	"encoding/json"
	"flag"
	"fmt"
	"io"
	"math/rand"
	"os"
	"os/exec"
	"sort"
	"strings"
	"sync"
	"syscall"
	"time"
)

var (
	OraclePath = flag.String("oracle", "/verif/lean/.lake/build/bin/oracle", "path of the Lean oracle executable")
	Tier       = flag.String("tier", "quick", "quick|thorough")
	Seed       = flag.Int64("seed", 1, "PRNG seed (VERIF_SEED)")
	Out        = flag.String("out", "", "report JSON path")
	Work       = flag.String("work", "", "scratch directory (removed by the driver)")
	Replay     = flag.String("replay", "", "replay file")
)

func Thorough() bool { return *Tier == "thorough" }

// Oracle is a running Lean oracle process.
type Oracle struct {
	mu  sync.Mutex
	cmd *exec.Cmd
	in  io.WriteCloser
	out *bufio.Reader
	N   int
}

func StartOracle() *Oracle {
	cmd := exec.Command(*OraclePath)
	in, err := cmd.StdinPipe()
	if err != nil {
		Fatal("oracle: %v", err)
	}
	out, err := cmd.StdoutPipe()
	if err != nil {
		Fatal("oracle: %v", err)
	}
	cmd.Stderr = os.Stderr
	if err := cmd.Start(); err != nil {
		Fatal("oracle: %v", err)
	}
	o := &Oracle{cmd: cmd, in: in, out: bufio.NewReaderSize(out, 1<<20)}
	if o.Ask("ping") != "pong" {
		Fatal("oracle: no pong")
	}
	return o
}

// Ask sends one request line and returns the answer line. `bad-op` is a harness fault.
func (o *Oracle) Ask(line string) string {
	o.mu.Lock()
	defer o.mu.Unlock()
	if strings.ContainsAny(line, "\n\r") {
		Fatal("oracle: newline in request %q", line)
	}
	if _, err := io.WriteString(o.in, line+"\n"); err != nil {
		Fatal("oracle write: %v", err)
	}
	ans, err := o.out.ReadString('\n')
	if err != nil {
		Fatal("oracle read after %q: %v", line, err)
	}
	o.N++
	ans = strings.TrimRight(ans, "\n")
	if ans == "bad-op" {
		Fatal("oracle answered bad-op to %q", line)
	}
	return ans
}

func (o *Oracle) Askf(f string, a ...any) string { return o.Ask(fmt.Sprintf(f, a...)) }

func (o *Oracle) Close() {
	o.in.Close()
	o.cmd.Wait()
}

// Fatal reports an infrastructure fault: exit 2, never a verdict.
func Fatal(f string, a ...any) {
	fmt.Fprintf(os.Stderr, "HARNESS-FAULT: "+f+"\n", a...)
	os.Exit(2)
}

// Violation is one failing case.
type Violation struct {
	// Kind: "impl-violation" (the property's own predicate failed on the real code),
	// "correspondence" (model and code disagree; property predicate not (yet) shown to fail).
	Kind string `json:"kind"`
	// Signature identifies the specific failing input class; matched against known_findings.json.
	Signature string `json:"signature"`
	What      string `json:"what"`
	Input     any    `json:"input,omitempty"`
	Expected  any    `json:"expected,omitempty"`
	Actual    any    `json:"actual,omitempty"`
}

type Report struct {
	mu          sync.Mutex
	Property    string         `json:"property"`
	Evaluations int            `json:"evaluations"`
	Distinct    map[string]int `json:"-"`
	DistinctN   int            `json:"distinct_nontrivial"`
	Rule        string         `json:"rule"`
	Samples     []any          `json:"samples"`
	Hist        map[string]int `json:"histogram"`
	Violations  []Violation    `json:"violations"`
	OracleOps   int            `json:"oracle_ops"`
	Exhaustive  bool           `json:"exhaustive"`
	Notes       []string       `json:"notes"`
	WallS       float64        `json:"wall_s"`
	start       time.Time
	maxSamples  int
	vioSeen     map[string]int
}

func NewReport(prop, rule string) *Report {
	return &Report{Property: prop, Rule: rule, Distinct: map[string]int{}, Hist: map[string]int{},
		start: time.Now(), maxSamples: 6, vioSeen: map[string]int{}}
}

// Case counts one evaluation; key identifies it for the distinct count ("" = trivial).
func (r *Report) Case(key string) {
	r.mu.Lock()
	r.Evaluations++
	if key != "" {
		r.Distinct[key]++
	}
	r.mu.Unlock()
}

func (r *Report) Count(bucket string) {
	r.mu.Lock()
	r.Hist[bucket]++
	r.mu.Unlock()
}

func (r *Report) Sample(s any) {
	r.mu.Lock()
	if len(r.Samples) < r.maxSamples {
		r.Samples = append(r.Samples, s)
	}
	r.mu.Unlock()
}

func (r *Report) Note(f string, a ...any) {
	r.mu.Lock()
	r.Notes = append(r.Notes, fmt.Sprintf(f, a...))
	r.mu.Unlock()
}

// Violate records a violation (at most 3 per signature are kept, all are counted).
func (r *Report) Violate(v Violation) {
	r.mu.Lock()
	defer r.mu.Unlock()
	r.vioSeen[v.Signature]++
	r.Hist["violation:"+v.Signature]++
	if r.vioSeen[v.Signature] <= 3 {
		r.Violations = append(r.Violations, v)
	}
}

func (r *Report) Write(o *Oracle) {
	r.mu.Lock()
	defer r.mu.Unlock()
	r.DistinctN = len(r.Distinct)
	if o != nil {
		r.OracleOps = o.N
	}
	r.WallS = time.Since(r.start).Seconds()
	if r.Samples == nil {
		r.Samples = []any{}
	}
	if r.Violations == nil {
		r.Violations = []Violation{}
	}
	sort.SliceStable(r.Violations, func(i, j int) bool { return r.Violations[i].Signature < r.Violations[j].Signature })
	b, err := json.MarshalIndent(r, "", " ")
	if err != nil {
		Fatal("report: %v", err)
	}
	if *Out == "" {
		os.Stdout.Write(b)
		return
	}
	if err := os.WriteFile(*Out, b, 0o644); err != nil {
		Fatal("report: %v", err)
	}
}

// Supervised marks a child process so that it dies with this process: a guest spinning in native code cannot be
// interrupted from inside, and a check that is itself killed (timeout of the caller) must not leave such children
// behind.
func Supervised(cmd *exec.Cmd) *exec.Cmd {
	if cmd.SysProcAttr == nil {
		cmd.SysProcAttr = &syscall.SysProcAttr{}
	}
	cmd.SysProcAttr.Pdeathsig = syscall.SIGKILL
	return cmd
}

func Rand() *rand.Rand { return rand.New(rand.NewSource(*Seed)) }
