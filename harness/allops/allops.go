// Package allops builds ONE valid module that contains every numeric, vector, memory, atomic, bulk, table and
// control instruction wazero knows (one small exported function per instruction, operands taken from parameters
// so that nothing folds away).  Harnesses that compare artefacts of compilation (cache entries, compiled-module
// identity, behaviour under non-semantic options) use it so that a lowering of ONE instruction that depends on
// the process (an address, a map order, a global counter) cannot hide behind a module that does not contain it.
package allops

import (
	"fmt"
	"strings"

	"github.com/tetratelabs/wazero/internal/wasm"
	"github.com/tetratelabs/wazero/verifharness/memcat"
	"github.com/tetratelabs/wazero/verifharness/wb"
)

const v128 = wasm.ValueTypeV128

// Fn describes one generated function.
type Fn struct {
	Name    string // instruction name (export name is "op<index>")
	Params  []byte
	Results []byte
}

func ty(s string) byte {
	switch s {
	case "i32":
		return wb.I32
	case "i64":
		return wb.I64
	case "f32":
		return wb.F32
	}
	return wb.F64
}

func gets(n int) []byte {
	var b []byte
	for i := 0; i < n; i++ {
		b = append(b, wb.LocalGet(uint32(i))...)
	}
	return b
}

// Module returns the binary and the list of its functions (function i is exported as "op<i>").
// Features needed: V2 + threads + tail calls.
func Module() ([]byte, []Fn) { return ModuleCopies(1) }

// ModuleCopies is Module with every function present `copies` times (function k of copy c is exported as
// "op<c*N+k>"): whatever a back end keeps per FUNCTION and resets between functions (cached constant-pool
// indexes, register state, label tables) is then needed by a later function of the same module again.
func ModuleCopies(copies int) ([]byte, []Fn) {
	m := wb.New()
	one := uint32(4)
	m.Memory(1, &one, false, "memory")
	m.Table(8, nil)
	m.Table(8, nil)
	m.Global(32, 1)
	m.Global(64, 2)
	m.Data(true, 0, []byte{1, 2, 3, 4, 5, 6, 7, 8})
	var fns []Fn
	add := func(name string, params, results []byte, body []byte) {
		m.AddFunc(wb.Func{Params: params, Results: results, Body: body, Export: fmt.Sprintf("op%d", len(fns))})
		fns = append(fns, Fn{name, params, results})
	}
	un := func(name string, p, r byte, enc []byte) { add(name, []byte{p}, []byte{r}, wb.Cat(gets(1), enc)) }
	bin := func(name string, p1, p2, r byte, enc []byte) {
		add(name, []byte{p1, p2}, []byte{r}, wb.Cat(gets(2), enc))
	}

	// ---- scalar numeric 0x45..0xc4
	cmp := map[string]bool{"eq": true, "ne": true, "lt": true, "gt": true, "le": true, "ge": true, "lt_s": true, "lt_u": true, "gt_s": true, "gt_u": true, "le_s": true, "le_u": true, "ge_s": true, "ge_u": true}
	for opc := 0x45; opc <= 0xc4; opc++ {
		n := wasm.InstructionName(byte(opc))
		parts := strings.SplitN(n, ".", 2)
		t, op := ty(parts[0]), parts[1]
		enc := []byte{byte(opc)}
		switch {
		case op == "eqz":
			un(n, t, wb.I32, enc)
		case cmp[op]:
			bin(n, t, t, wb.I32, enc)
		case strings.HasPrefix(op, "wrap") || strings.HasPrefix(op, "trunc_") || strings.HasPrefix(op, "extend_i32") || strings.HasPrefix(op, "convert") ||
			strings.HasPrefix(op, "demote") || strings.HasPrefix(op, "promote") || strings.HasPrefix(op, "reinterpret"):
			// the source type is the first type name after the first underscore
			src := ty(op[strings.Index(op, "_")+1:][:3])
			un(n, src, t, enc)
		case op == "clz" || op == "ctz" || op == "popcnt" || op == "abs" || op == "neg" || op == "ceil" || op == "floor" || op == "trunc" || op == "nearest" || op == "sqrt" || strings.HasPrefix(op, "extend"):
			un(n, t, t, enc)
		default:
			bin(n, t, t, t, enc)
		}
	}
	for k := 0; k <= 7; k++ { // saturating truncations
		n := wasm.MiscInstructionName(wasm.OpcodeMisc(k))
		un(n, ty(n[strings.Index(n, "_f")+1:][:3]), ty(n[:3]), []byte{wasm.OpcodeMiscPrefix, byte(k)})
	}
	// ---- vector (non-memory)
	laneT := map[string]byte{"i8x16": wb.I32, "i16x8": wb.I32, "i32x4": wb.I32, "i64x2": wb.I64, "f32x4": wb.F32, "f64x2": wb.F64}
	for i := 0; i < 256; i++ {
		n := wasm.VectorInstructionName(wasm.OpcodeVec(i))
		if n == "" || strings.Contains(n, "load") || strings.Contains(n, "store") {
			continue
		}
		enc := []byte{wasm.OpcodeVecPrefix, byte(i)}
		if i >= 0x80 {
			enc = []byte{wasm.OpcodeVecPrefix, byte(i), 0x01}
		}
		parts := strings.SplitN(n, ".", 2)
		shape, op := parts[0], parts[1]
		switch {
		case n == "v128.const":
			add(n, nil, []byte{v128}, wb.Cat(enc, []byte{1, 2, 3, 4, 5, 6, 7, 8, 9, 10, 11, 12, 13, 14, 15, 16}))
		case op == "shuffle":
			add(n, []byte{v128, v128}, []byte{v128}, wb.Cat(gets(2), enc, []byte{0, 17, 2, 19, 4, 21, 6, 23, 8, 25, 10, 27, 12, 29, 14, 31}))
		case op == "splat":
			un(n, laneT[shape], v128, enc)
		case strings.HasPrefix(op, "extract_lane"):
			un(n, v128, laneT[shape], append(enc, 1))
		case op == "replace_lane":
			bin(n, v128, laneT[shape], v128, append(enc, 1))
		case op == "shl" || op == "shr_s" || op == "shr_u":
			bin(n, v128, wb.I32, v128, enc)
		case op == "all_true" || op == "any_true" || op == "bitmask":
			un(n, v128, wb.I32, enc)
		case op == "bitselect":
			add(n, []byte{v128, v128, v128}, []byte{v128}, wb.Cat(gets(3), enc))
		case op == "abs" || op == "neg" || op == "not" || op == "popcnt" || op == "sqrt" || op == "ceil" || op == "floor" || op == "trunc" || op == "nearest" ||
			strings.HasPrefix(op, "extend_") || strings.HasPrefix(op, "extadd_") || strings.HasPrefix(op, "trunc_sat") || strings.HasPrefix(op, "convert") ||
			strings.HasPrefix(op, "demote") || strings.HasPrefix(op, "promote"):
			un(n, v128, v128, enc)
		default:
			bin(n, v128, v128, v128, enc)
		}
	}
	// ---- memory instructions (scalar, vector, atomic): address parameter, constant operands
	for _, o := range memcat.All() {
		var res []byte
		if r := o.Result(); r == 'i' {
			res = []byte{wb.I32}
		} else if r == 'I' {
			res = []byte{wb.I64}
		} else if r == 'f' {
			res = []byte{wb.F32}
		} else if r == 'F' {
			res = []byte{wb.F64}
		} else if r == 'v' {
			res = []byte{v128}
		}
		add(o.Name, []byte{wb.I32}, res, wb.Cat(gets(1), o.Operands(0x1122334455667788, 3), o.Instr(8)))
	}
	add("v128.load", []byte{wb.I32}, []byte{v128}, wb.Cat(gets(1), []byte{wasm.OpcodeVecPrefix, wasm.OpcodeVecV128Load, 4, 16}))
	add("v128.store", []byte{wb.I32, v128}, nil, wb.Cat(gets(2), []byte{wasm.OpcodeVecPrefix, wasm.OpcodeVecV128Store, 4, 16}))
	add("atomic.fence", nil, nil, []byte{wasm.OpcodeAtomicPrefix, wasm.OpcodeAtomicFence, 0})
	add("memory.size", nil, []byte{wb.I32}, wb.MemorySize())
	add("memory.grow", []byte{wb.I32}, []byte{wb.I32}, wb.Cat(gets(1), wb.MemoryGrow()))
	// ---- bulk memory and tables
	i3 := []byte{wb.I32, wb.I32, wb.I32}
	add("memory.copy", i3, nil, wb.Cat(gets(3), wb.Misc(wasm.OpcodeMiscMemoryCopy, 0, 0)))
	add("memory.fill", i3, nil, wb.Cat(gets(3), wb.Misc(wasm.OpcodeMiscMemoryFill, 0)))
	add("memory.init", i3, nil, wb.Cat(gets(3), wb.Misc(wasm.OpcodeMiscMemoryInit, 0, 0)))
	add("data.drop", nil, nil, wb.Misc(wasm.OpcodeMiscDataDrop, 0))
	add("table.copy", i3, nil, wb.Cat(gets(3), wb.Misc(wasm.OpcodeMiscTableCopy, 1, 0)))
	add("table.size", nil, []byte{wb.I32}, wb.Misc(wasm.OpcodeMiscTableSize, 1))
	add("table.grow", []byte{wb.I32}, []byte{wb.I32}, wb.Cat([]byte{wasm.OpcodeRefNull, wasm.RefTypeFuncref}, gets(1), wb.Misc(wasm.OpcodeMiscTableGrow, 1)))
	add("table.fill", []byte{wb.I32, wb.I32}, nil, wb.Cat(wb.LocalGet(0), []byte{wasm.OpcodeRefNull, wasm.RefTypeFuncref}, wb.LocalGet(1), wb.Misc(wasm.OpcodeMiscTableFill, 0)))
	add("table.get+ref.is_null", []byte{wb.I32}, []byte{wb.I32}, wb.Cat(gets(1), []byte{wasm.OpcodeTableGet, 1, wasm.OpcodeRefIsNull}))
	add("table.set+ref.func", []byte{wb.I32}, nil, wb.Cat(gets(1), []byte{wasm.OpcodeRefFunc, 0, wasm.OpcodeTableSet, 0}))
	// ---- control, locals, globals
	ii := []byte{wb.I32, wb.I32}
	add("select", i3, []byte{wb.I32}, wb.Cat(gets(3), []byte{wasm.OpcodeSelect}))
	add("select t", []byte{wb.I64, wb.I64, wb.I32}, []byte{wb.I64}, wb.Cat(gets(3), []byte{wasm.OpcodeTypedSelect, 1, wb.I64}))
	add("global.get/set", []byte{wb.I64}, []byte{wb.I64}, wb.Cat(wb.GlobalGet(1), gets(1), wb.GlobalSet(1)))
	add("if/else", ii, []byte{wb.I32}, wb.Cat(wb.LocalGet(0), []byte{wasm.OpcodeIf, wb.I32}, wb.LocalGet(1), []byte{wasm.OpcodeElse}, wb.I32Const(9), []byte{wasm.OpcodeEnd}))
	add("loop/br_if", []byte{wb.I32}, []byte{wb.I32}, wb.Cat([]byte{wasm.OpcodeLoop, 0x40}, wb.LocalGet(0), wb.I32Const(1), []byte{wasm.OpcodeI32Sub}, wb.LocalTee(0),
		[]byte{wasm.OpcodeBrIf, 0, wasm.OpcodeEnd}, wb.LocalGet(0)))
	add("br_table", []byte{wb.I32}, []byte{wb.I32}, wb.Cat([]byte{wasm.OpcodeBlock, 0x40, wasm.OpcodeBlock, 0x40, wasm.OpcodeBlock, 0x40}, wb.LocalGet(0),
		[]byte{wasm.OpcodeBrTable, 2, 0, 1, 2, wasm.OpcodeEnd}, wb.I32Const(10), []byte{wasm.OpcodeReturn, wasm.OpcodeEnd}, wb.I32Const(11), []byte{wasm.OpcodeReturn, wasm.OpcodeEnd}, wb.I32Const(12)))
	iadd := uint32(0) // a function of type (i32,i32)->i32 to call: the one of i32.add
	for k, f := range fns {
		if f.Name == "i32.add" {
			iadd = uint32(k)
		}
	}
	add("call", ii, []byte{wb.I32}, wb.Cat(gets(2), wb.Call(iadd)))
	add("call_indirect", ii, []byte{wb.I32}, wb.Cat(wb.LocalGet(0), wb.LocalGet(1), wb.I32Const(0), []byte{wasm.OpcodeCallIndirect}, wb.U32(m.TypeIdx(ii, []byte{wb.I32})), []byte{0}))
	add("return_call", ii, []byte{wb.I32}, wb.Cat(gets(2), []byte{wasm.OpcodeTailCallReturnCall}, wb.U32(iadd)))
	add("return_call_indirect", ii, []byte{wb.I32}, wb.Cat(wb.LocalGet(0), wb.LocalGet(1), wb.I32Const(0), []byte{wasm.OpcodeTailCallReturnCallIndirect}, wb.U32(m.TypeIdx(ii, []byte{wb.I32})), []byte{0}))
	add("unreachable", nil, nil, []byte{wasm.OpcodeUnreachable})
	add("nop/drop", []byte{wb.F64}, nil, wb.Cat([]byte{wasm.OpcodeNop}, gets(1), []byte{wasm.OpcodeDrop}))
	n := len(fns)
	for c := 1; c < copies; c++ {
		for k := 0; k < n; k++ {
			m.M.FunctionSection = append(m.M.FunctionSection, m.M.FunctionSection[k])
			code := m.M.CodeSection[k]
			if c >= 2 {
				// from the third copy on every function first stores a (distinct) vector constant: the function has
				// constant-pool entries of its own before the instruction under test asks for its constants
				pre := wb.Cat(wb.I32Const(4000), []byte{wasm.OpcodeVecPrefix, wasm.OpcodeVecV128Const}, make([]byte, 16), []byte{wasm.OpcodeVecPrefix, wasm.OpcodeVecV128Store, 0, 0})
				for i := 0; i < 16; i++ {
					pre[len(wb.I32Const(4000))+2+i] = byte(0x11*c + k + 3*i + 1)
				}
				code.Body = append(append([]byte{}, pre...), code.Body...)
			}
			m.M.CodeSection = append(m.M.CodeSection, code)
			m.M.ExportSection = append(m.M.ExportSection, wasm.Export{Name: fmt.Sprintf("op%d", c*n+k), Type: wasm.ExternTypeFunc, Index: uint32(c*n + k)})
			fns = append(fns, fns[k])
		}
	}
	return m.BytesWithSegments([]wb.Elem{{Offset: 0, Init: []int64{int64(iadd), int64(iadd), 2}}}), fns
}
