package wb

// C11 additions: binaryencoding cannot encode passive element segments and emits the data-count
// section after the data section (invalid). BytesWithSegments re-assembles the module: everything
// except element/data-count comes from binaryencoding, the element section is encoded here.

import (
	"github.com/tetratelabs/wazero/internal/leb128"
	"github.com/tetratelabs/wazero/internal/testing/binaryencoding"
	"github.com/tetratelabs/wazero/internal/wasm"
)

// Elem is one funcref element segment; Init entries are function indices, -1 = ref.null.
type Elem struct {
	Passive bool
	Offset  int32 // active only (table 0)
	Init    []int64
}

func encodeElem(e Elem) []byte {
	var b []byte
	if e.Passive {
		b = append(b, 5, wasm.RefTypeFuncref) // passive, reftype, vec(expr)
	} else {
		b = append(b, 4) // active table 0, offset expr, vec(expr)
		b = append(b, I32Const(e.Offset)...)
		b = append(b, wasm.OpcodeEnd)
	}
	b = append(b, U32(uint32(len(e.Init)))...)
	for _, f := range e.Init {
		if f < 0 {
			b = append(b, wasm.OpcodeRefNull, wasm.RefTypeFuncref, wasm.OpcodeEnd)
		} else {
			b = append(b, wasm.OpcodeRefFunc)
			b = append(b, U32(uint32(f))...)
			b = append(b, wasm.OpcodeEnd)
		}
	}
	return b
}

func section(id byte, payload []byte) []byte {
	return Cat([]byte{id}, leb128.EncodeUint32(uint32(len(payload))), payload)
}

// BytesWithSegments encodes m (whose ElementSection and DataCountSection must be empty) and splices in
// the given element segments and a data-count section (when the module has data segments).
func (m *Mod) BytesWithSegments(elems []Elem) []byte {
	raw := binaryencoding.EncodeModule(m.M)
	out := append([]byte{}, raw[:8]...)
	var extra []byte
	if len(elems) > 0 {
		p := U32(uint32(len(elems)))
		for _, e := range elems {
			p = append(p, encodeElem(e)...)
		}
		extra = append(extra, section(wasm.SectionIDElement, p)...)
	}
	if n := len(m.M.DataSection); n > 0 {
		extra = append(extra, section(wasm.SectionIDDataCount, U32(uint32(n)))...)
	}
	i := 8
	done := false
	for i < len(raw) {
		id := raw[i]
		sz, n, err := leb128.LoadUint32(raw[i+1:])
		if err != nil {
			panic(err)
		}
		end := i + 1 + int(n) + int(sz)
		// element(9) and datacount(12) go after start(8) and before code(10)/data(11)/custom-at-end(0)
		if !done && (id == wasm.SectionIDCode || id == wasm.SectionIDData || id == wasm.SectionIDCustom) {
			out = append(out, extra...)
			done = true
		}
		out = append(out, raw[i:end]...)
		i = end
	}
	if !done {
		out = append(out, extra...)
	}
	return out
}

// Table adds a funcref table.
func (m *Mod) Table(min uint32, max *uint32) {
	m.M.TableSection = append(m.M.TableSection, wasm.Table{Min: min, Max: max, Type: wasm.RefTypeFuncref})
}

// Global adds a mutable global with a constant initialiser; bits is 32 or 64.
func (m *Mod) Global(bits int, v uint64) {
	if bits == 32 {
		m.M.GlobalSection = append(m.M.GlobalSection, wasm.Global{Type: wasm.GlobalType{ValType: I32, Mutable: true},
			Init: wasm.ConstantExpression{Opcode: wasm.OpcodeI32Const, Data: leb128.EncodeInt32(int32(uint32(v)))}})
	} else {
		m.M.GlobalSection = append(m.M.GlobalSection, wasm.Global{Type: wasm.GlobalType{ValType: I64, Mutable: true},
			Init: wasm.ConstantExpression{Opcode: wasm.OpcodeI64Const, Data: leb128.EncodeInt64(int64(v))}})
	}
}

// Data adds a data segment (active at offset, or passive).
func (m *Mod) Data(passive bool, offset int32, init []byte) {
	d := wasm.DataSegment{Passive: passive, Init: init}
	if !passive {
		d.OffsetExpression = wasm.ConstantExpression{Opcode: wasm.OpcodeI32Const, Data: leb128.EncodeInt32(offset)}
	}
	m.M.DataSection = append(m.M.DataSection, d)
}

// Misc encodes a 0xFC-prefixed instruction with its immediates.
func Misc(op byte, imm ...uint32) []byte {
	b := []byte{wasm.OpcodeMiscPrefix, op}
	for _, v := range imm {
		b = append(b, U32(v)...)
	}
	return b
}
