// Package wb builds WebAssembly binaries with wazero's own test encoder.
package wb

import (
	"github.com/tetratelabs/wazero/internal/leb128"
	"github.com/tetratelabs/wazero/internal/testing/binaryencoding"
	"github.com/tetratelabs/wazero/internal/wasm"
)

const (
	I32 = wasm.ValueTypeI32
	I64 = wasm.ValueTypeI64
	F32 = wasm.ValueTypeF32
	F64 = wasm.ValueTypeF64
)

type Func struct {
	Params, Results []wasm.ValueType
	Locals          []wasm.ValueType
	Body            []byte // without the trailing end
	Export          string
}

type Mod struct {
	M     *wasm.Module
	types []wasm.FunctionType
}

func New() *Mod { return &Mod{M: &wasm.Module{}} }

func (m *Mod) typeIdx(p, r []wasm.ValueType) uint32 {
	for i := range m.M.TypeSection {
		t := &m.M.TypeSection[i]
		if string(t.Params) == string(p) && string(t.Results) == string(r) {
			return uint32(i)
		}
	}
	m.M.TypeSection = append(m.M.TypeSection, wasm.FunctionType{Params: p, Results: r})
	return uint32(len(m.M.TypeSection) - 1)
}

// TypeIdx returns (adding if needed) the index of a function type.
func (m *Mod) TypeIdx(p, r []wasm.ValueType) uint32 { return m.typeIdx(p, r) }

// ImportFunc adds a function import; must be called before AddFunc. Returns the function index.
func (m *Mod) ImportFunc(mod, name string, p, r []wasm.ValueType) uint32 {
	m.M.ImportSection = append(m.M.ImportSection, wasm.Import{Type: wasm.ExternTypeFunc, Module: mod, Name: name, DescFunc: m.typeIdx(p, r)})
	m.M.ImportFunctionCount++
	return m.M.ImportFunctionCount - 1
}

// AddFunc adds a function and returns its index in the function index space.
func (m *Mod) AddFunc(f Func) uint32 {
	ti := m.typeIdx(f.Params, f.Results)
	m.M.FunctionSection = append(m.M.FunctionSection, ti)
	body := append(append([]byte{}, f.Body...), wasm.OpcodeEnd)
	m.M.CodeSection = append(m.M.CodeSection, wasm.Code{LocalTypes: f.Locals, Body: body})
	idx := m.M.ImportFunctionCount + uint32(len(m.M.FunctionSection)) - 1
	if f.Export != "" {
		m.M.ExportSection = append(m.M.ExportSection, wasm.Export{Name: f.Export, Type: wasm.ExternTypeFunc, Index: idx})
	}
	return idx
}

func (m *Mod) Memory(min uint32, max *uint32, shared bool, export string) {
	mem := &wasm.Memory{Min: min, IsShared: shared}
	if max != nil {
		mem.Max = *max
		mem.IsMaxEncoded = true
	}
	m.M.MemorySection = mem
	if export != "" {
		m.M.ExportSection = append(m.M.ExportSection, wasm.Export{Name: export, Type: wasm.ExternTypeMemory, Index: 0})
	}
}

func (m *Mod) Bytes() []byte { return binaryencoding.EncodeModule(m.M) }

func Cat(parts ...[]byte) []byte {
	var out []byte
	for _, p := range parts {
		out = append(out, p...)
	}
	return out
}

func Op(b ...byte) []byte         { return b }
func U32(v uint32) []byte         { return leb128.EncodeUint32(v) }
func I32Const(v int32) []byte     { return append([]byte{wasm.OpcodeI32Const}, leb128.EncodeInt32(v)...) }
func I64Const(v int64) []byte     { return append([]byte{wasm.OpcodeI64Const}, leb128.EncodeInt64(v)...) }
func LocalGet(i uint32) []byte    { return append([]byte{wasm.OpcodeLocalGet}, U32(i)...) }
func LocalSet(i uint32) []byte    { return append([]byte{wasm.OpcodeLocalSet}, U32(i)...) }
func LocalTee(i uint32) []byte    { return append([]byte{wasm.OpcodeLocalTee}, U32(i)...) }
func GlobalGet(i uint32) []byte   { return append([]byte{wasm.OpcodeGlobalGet}, U32(i)...) }
func GlobalSet(i uint32) []byte   { return append([]byte{wasm.OpcodeGlobalSet}, U32(i)...) }
func Call(i uint32) []byte        { return append([]byte{wasm.OpcodeCall}, U32(i)...) }
func MemArg(op byte, align, off uint32) []byte {
	return Cat([]byte{op}, U32(align), U32(off))
}
func MemorySize() []byte { return []byte{wasm.OpcodeMemorySize, 0} }
func MemoryGrow() []byte { return []byte{wasm.OpcodeMemoryGrow, 0} }
