//go:build !verif

package c07

import (
	"github.com/tetratelabs/wazero/api"
	"github.com/tetratelabs/wazero/internal/wasm"
)

// HookAvailable is false when the harness is built without the verif tag (hook not compiled in).
const HookAvailable = false

type IROp struct {
	Kind    string
	Targets []uint64
	U1      uint64
}

func InterpreterIR(m *wasm.Module, features api.CoreFeatures, ensureTermination bool) ([][]IROp, error) {
	return nil, nil
}
