package c07

import (
	"fmt"
	"regexp"
	"runtime/debug"
	"strings"

	"github.com/tetratelabs/wazero/api"
	"github.com/tetratelabs/wazero/internal/engine/wazevo/frontend"
	"github.com/tetratelabs/wazero/internal/engine/wazevo/ssa"
	"github.com/tetratelabs/wazero/internal/engine/wazevo/wazevoapi"
	"github.com/tetratelabs/wazero/internal/wasm"
)

// SSABlock is one basic block of the wazevo frontend's output, parsed from ssa.Builder.Format().
type SSABlock struct {
	ID     int
	Preds  []int
	Instrs []string
}

// SSAFunc is the parsed SSA of one function.
type SSAFunc struct {
	Text   string
	Blocks []*SSABlock
}

// WazevoSSA lowers every local function with the real wazevo frontend (no optimisation passes) and returns the
// formatted SSA. Reached without hooks: exported API of internal packages.
func WazevoSSA(m *wasm.Module, ensureTermination bool) (out []*SSAFunc, err error) {
	defer func() {
		if r := recover(); r != nil {
			err = fmt.Errorf("wazevo frontend panicked: %v\n%s", r, debug.Stack())
		}
	}()
	for i := range m.CodeSection {
		// a fresh builder per function (the builder's per-function reset relies on the optimisation passes having run)
		b := ssa.NewBuilder()
		offset := wazevoapi.NewModuleContextOffsetData(m, false)
		fc := frontend.NewFrontendCompiler(m, b, &offset, ensureTermination, false, false)
		typeIndex := m.FunctionSection[i]
		code := &m.CodeSection[i]
		fc.Init(wasm.Index(i), typeIndex, &m.TypeSection[typeIndex], code.LocalTypes, code.Body, false, 0)
		fc.LowerToSSA()
		out = append(out, parseSSA(b.Format()))
	}
	return out, nil
}

var (
	blkRe  = regexp.MustCompile(`^blk(\d+): \(.*?\)(?: <-- \((.*)\))?`)
	predRe = regexp.MustCompile(`blk(\d+)`)
)

func parseSSA(text string) *SSAFunc {
	f := &SSAFunc{Text: text}
	var cur *SSABlock
	for _, line := range strings.Split(text, "\n") {
		if m := blkRe.FindStringSubmatch(line); m != nil {
			cur = &SSABlock{}
			fmt.Sscan(m[1], &cur.ID)
			for _, pm := range predRe.FindAllStringSubmatch(m[2], -1) {
				var id int
				fmt.Sscan(pm[1], &id)
				cur.Preds = append(cur.Preds, id)
			}
			f.Blocks = append(f.Blocks, cur)
			continue
		}
		if cur != nil && strings.HasPrefix(line, "\t") {
			cur.Instrs = append(cur.Instrs, strings.TrimSpace(line))
		}
	}
	return f
}

var _ = api.CoreFeaturesV2
