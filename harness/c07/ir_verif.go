//go:build verif

package c07

import (
	"context"

	"github.com/tetratelabs/wazero/api"
	"github.com/tetratelabs/wazero/internal/engine/interpreter"
	"github.com/tetratelabs/wazero/internal/wasm"
)

// HookAvailable reports whether the interpreter IR hook (repo_patches/C07-hook-interp-ir.diff) is compiled in.
const HookAvailable = true

// IROp is one lowered interpreter operation.
type IROp struct {
	Kind    string
	Targets []uint64
	U1      uint64
}

// InterpreterIR compiles the module with the real interpreter engine (ensureTermination as given) and returns
// the lowered operation list of every local function through the verif hook.
func InterpreterIR(m *wasm.Module, features api.CoreFeatures, ensureTermination bool) ([][]IROp, error) {
	eng := interpreter.NewEngine(context.Background(), features, nil)
	defer eng.Close()
	if err := eng.CompileModule(context.Background(), m, nil, ensureTermination); err != nil {
		return nil, err
	}
	ops, ok := interpreter.VerifLoweredOps(eng, m)
	if !ok {
		return nil, nil
	}
	out := make([][]IROp, len(ops))
	for i := range ops {
		for _, o := range ops[i] {
			out[i] = append(out[i], IROp{Kind: o.Kind, Targets: o.Targets, U1: o.U1})
		}
	}
	return out, nil
}
